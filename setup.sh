#!/bin/sh
# Offline setup after a fresh restore: build the harness against /repo and all Lean targets.
set -e
cd "$(dirname "$0")"
export CARGO_NET_OFFLINE=true
mkdir -p build/tmp evidence replays
(cd harness && cargo build --release --offline)
python3 tools/gen_all.py
(cd lean && lake build Tyme tymed)
echo "setup done"
