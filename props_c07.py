"""C07 configuration: day pillar and weekday."""
import os
import sys
from props_common import *

sys.path.insert(0, os.path.join(os.path.dirname(os.path.abspath(__file__)), "tools"))
from gen_eph import gen_eph


def c07_ops(rng, tier):
    n = 3000 if tier == "quick" else 30000
    L = []
    for _ in range(n):
        y, m, d = rand_date(rng)
        L.append("scd %d %d %d" % (y, m, d))
    # weekday of a Julian date with a time of day (JulianDay::get_week on fractional values), incl. the seconds around noon and midnight
    for _ in range(n // 3):
        y, m, d = rand_date(rng)
        h, mi, s = rng.choice([(0, 0, 0), (11, 59, 59), (12, 0, 0), (12, 0, 1), (23, 59, 59), (rng.randint(0, 23), rng.randint(0, 59), rng.randint(0, 59))])
        L.append("jd.week %d %d %d %d %d %d" % (y, m, d, h, mi, s))
        L.append("jd.weekf %d %d" % (rng.randint(1721424, 5373484), rng.choice([0, 1, 43199, 43200, 43201, 86399, rng.randint(0, 86399)])))
    # the sexagenary day taken from an instant view (23:xx carries the next day's pillar) and stepped
    for _ in range(n // 6):
        y, m, d = rand_date(rng, 300, 9990)   # away from the D4 junction windows (known findings keyed by date)
        h = rng.choice([23, 23, 0, 22, rng.randint(0, 23)])
        L.append("sch.daynext %d %d %d %d %d %d %d" % (y, m, d, h, rng.randint(0, 59), rng.randint(0, 59), rng.choice([0, 1, -1, 2, 30, -30, 365, rng.randint(-500, 500)])))
    L += ["jd.weekf 1721423 0", "jd.weekf 5373485 0", "jd.weekf 2460000 86400", "jd.week 2024 2 30 0 0 0", "jd.week 2024 1 1 24 0 0"]
    return L


PROP = {
    "id": "C07",
    "thm_module": "Tyme.Thm.C07",
    "thm_file": "Tyme/Thm/C07.lean",
    "lean_targets": ["Tyme.Thm.C07", "Tyme.Thm.Total"],
    "fact_files": [("Tyme/Thm/Total.lean", "Tyme.Thm.Total")],
    "audit_files": ["Tyme/Lemmas/Cycle.lean", "Tyme/Model/SixtyCycle.lean", "Tyme/Model/Lunar.lean", "Tyme/Model/Term.lean",
                    "Tyme/Lemmas/LunarWalk.lean", "Tyme/Lemmas/Lunar.lean"],
    "gen": [gen_eph],
    "streams": [
        {"name": "c07.days", "args_thorough": ["all"], "extra_years": True},
    ],
    "ops": with_extra(c07_ops, eq_cyc=(0, 1, 2), objhist=(1,), dep=True),
    "exhaustive": False,
    "rule": "c07.days: every civil date of the selected years (quick ~470k, thorough all 3,652,061): year/month/day pillar of the sexagenary-day "
            "view, day pillar through the lunar-day route, weekday through the civil and the lunar route. Spec: pillar = (day number + 49) mod 60, "
            "weekday = (day number + 1) mod 7 with day number = 1721424 + ordinal of the date in the civil calendar (independent of the model).",
}
