import Tyme.Driver.Enums
import Tyme.Driver.SpecOps
open Tyme.Driver

partial def execLoop (f : String → String) (inp out : IO.FS.Stream) : IO Unit := do
  let line ← inp.getLine
  if line.isEmpty then return ()
  let t := line.trimAscii.toString
  if t ≠ "" then out.putStrLn (f t)
  execLoop f inp out

def main (args : List String) : IO UInt32 := do
  let out ← IO.getStdout
  match args with
  | ["exec"] => execLoop execLine (← IO.getStdin) out; pure 0
  | ["specexec"] => execLoop specLine (← IO.getStdin) out; pure 0
  | "enum" :: name :: rest => runEnum name rest out
  | _ => IO.eprintln "usage: tymed exec | enum <stream>"; pure 2
