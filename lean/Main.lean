import Tyme.Driver.Util
import Tyme.Driver.P01
import Tyme.Driver.P13
import Tyme.Driver.P17
import Tyme.Driver.P14b
import Tyme.Driver.P15
import Tyme.Driver.P16
import Tyme.Driver.P11
import Tyme.Driver.P05
import Tyme.Driver.P20
import Tyme.Driver.P10
import Tyme.Driver.P14
import Tyme.Driver.P09
import Tyme.Driver.P18
import Tyme.Driver.P04
import Tyme.Driver.P07
import Tyme.Driver.P19
import Tyme.Driver.P06
import Tyme.Driver.P12
import Tyme.Driver.P03
import Tyme.Driver.PEq
-- IMPORTS (one driver module per property group)
open Tyme.Driver

/-- first module that owns the op answers; `refused` for `some none` -/
def execOpAll (op : String) (a : List Int) : String :=
  let r : Option (Option String) :=
    (P01.execOp op a)
    <|> (P03.execOp op a)
    <|> (P12.execOp op a)
    <|> (P06.execOp op a)
    <|> (P19.execOp op a)
    <|> (P07.execOp op a)
    <|> (P04.execOp op a)
    <|> (P18.execOp op a)
    <|> (P09.execOp op a)
    <|> (P14.execOp op a)
    <|> (P10.execOp op a)
    <|> (P20.execOp op a)
    <|> (P05.execOp op a)
    <|> (P11.execOp op a)
    <|> (P16.execOp op a)
    <|> (P15.execOp op a)
    <|> (P14b.execOp op a)
    <|> (P17.execOp op a)
    <|> (P13.execOp op a)
    <|> (PEq.execOp op a)
    -- DISPATCH-EXEC   <|> (Pxx.execOp op a)
  match r with
  | none => "bad-op"
  | some none => REFUSED
  | some (some s) => s

def specOpAll (op : String) (a : List Int) : String :=
  let r : Option (Option String) :=
    (P01.specOp op a)
    <|> (P03.specOp op a)
    <|> (P12.specOp op a)
    <|> (P06.specOp op a)
    <|> (P19.specOp op a)
    <|> (P07.specOp op a)
    <|> (P04.specOp op a)
    <|> (P18.specOp op a)
    <|> (P09.specOp op a)
    <|> (P14.specOp op a)
    <|> (P10.specOp op a)
    <|> (P20.specOp op a)
    <|> (P05.specOp op a)
    <|> (P11.specOp op a)
    <|> (P16.specOp op a)
    <|> (P15.specOp op a)
    <|> (P14b.specOp op a)
    <|> (P17.specOp op a)
    <|> (P13.specOp op a)
    <|> (PEq.specOp op a)
    -- DISPATCH-SPEC   <|> (Pxx.specOp op a)
  match r with
  | none => "n/a"
  | some none => REFUSED
  | some (some s) => s

def runEnumAll (name : String) (args : List String) (out : IO.FS.Stream) : Option (IO Unit) :=
  (P01.runEnum name args out)
  <|> (P03.runEnum name args out)
  <|> (P12.runEnum name args out)
  <|> (P06.runEnum name args out)
  <|> (P19.runEnum name args out)
  <|> (P07.runEnum name args out)
  <|> (P04.runEnum name args out)
  <|> (P18.runEnum name args out)
  <|> (P09.runEnum name args out)
  <|> (P14.runEnum name args out)
  <|> (P10.runEnum name args out)
  <|> (P20.runEnum name args out)
  <|> (P05.runEnum name args out)
  <|> (P11.runEnum name args out)
  <|> (P16.runEnum name args out)
  <|> (P15.runEnum name args out)
  <|> (P14b.runEnum name args out)
  <|> (P17.runEnum name args out)
  <|> (P13.runEnum name args out)
  -- DISPATCH-ENUM   <|> (Pxx.runEnum name args out)

def lineWith (f : String → List Int → String) (line : String) : String :=
  match line.trimAscii.toString.splitOn " " |>.filter (· ≠ "") with
  | [] => ""
  | op :: rest =>
    match parseInts rest with
    | none => "bad-op"
    | some a => f op a

partial def execLoop (f : String → String) (inp out : IO.FS.Stream) : IO Unit := do
  let line ← inp.getLine
  if line.isEmpty then return ()
  let t := line.trimAscii.toString
  if t ≠ "" then out.putStrLn (f t)
  execLoop f inp out

def main (args : List String) : IO UInt32 := do
  let out ← IO.getStdout
  match args with
  | ["exec"] => execLoop (lineWith execOpAll) (← IO.getStdin) out; pure 0
  | ["specexec"] => execLoop (lineWith specOpAll) (← IO.getStdin) out; pure 0
  | "enum" :: name :: rest =>
    match runEnumAll name rest out with
    | some act => act; pure 0
    | none => IO.eprintln s!"unknown stream {name}"; pure 2
  | _ => IO.eprintln "usage: tymed exec | specexec | enum <stream>"; pure 2
