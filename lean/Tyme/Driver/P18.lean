import Tyme.Model.Almanac
import Tyme.Model.AlmanacTables
import Tyme.Model.Jd
import Tyme.Spec.Almanac
import Tyme.Driver.Util
/- C18 driver part: model ops, spec ops, exhaustive streams (same text as harness p18.rs). -/
namespace Tyme.Driver.P18
open Tyme Tyme.Driver Tyme.Almanac Tyme.Gen

def joinNats (l : List Nat) : String := " ".intercalate (l.map toString)

def showL : Option (List Nat) → String
  | none => REFUSED
  | some l => joinNats l

def hexByte (b : Nat) : String :=
  String.ofList [Char.ofNat (hexChar (b / 16)), Char.ofNat (hexChar (b % 16))]

def hexBytes (l : List Nat) : String := String.join (l.map hexByte)

def overlap (a b : List Nat) : Bool := a.any fun x => b.contains x

def tabooStatus (r a : Option (List Nat)) : String :=
  match r, a with
  | some r, some a => if overlap r a then "overlap" else "ok"
  | _, _ => REFUSED

def godsStatus : Option (List Nat) → String
  | none => REFUSED
  | some [] => "empty"
  | some _ => "ok"

/-- numbers of lunar year `y` according to the model (pillar from the extension) -/
def kitchenModel (y : Int) : Option (Nat × List Nat) :=
  match extKitchen y with
  | none => none
  | some (p, _) => (kitchen p).map fun n => (p, n)

/-- the wiring ops are asked on existing civil days of years 2..9998 only (the calendar edges are other properties' subject) -/
def validDay (y m d : Int) : Bool := decide (2 ≤ y ∧ y ≤ 9998) && solarDayOk y m d

def execOp (op : String) (a : List Int) : Option (Option String) :=
  match op, a with
  | "c18.wire.day", [y, m, d] => some <| if validDay y m d then some "1" else none
  | "c18.wire.hour", [y, m, d, h] => some <| if validDay y m d && decide (0 ≤ h ∧ h ≤ 23) then some "1" else none
  | "c18.god.from", [i] => some <| let k := indexOf i godCount; some s!"{k} {luck k}"
  | "c18.taboo.from", [i] => some <| some (toString (indexOf i tabooCount))
  | _, _ => none

def specOp (op : String) (a : List Int) : Option (Option String) :=
  match op, a with
  | "c18.wire.day", [y, m, d] => some <| if validDay y m d then some "1" else none
  | "c18.wire.hour", [y, m, d, h] => some <| if validDay y m d && decide (0 ≤ h ∧ h ≤ 23) then some "1" else none
  | "c18.god.from", [i] => some <|
      let k := (i % (C18Ext.godSize : Int)).toNat
      some s!"{k} {AlmanacSpec.luckOf extGodNames k}"
  | "c18.taboo.from", [i] => some <| some (toString (i % (C18Ext.tabooSize : Int)).toNat)
  | _, _ => none

def enumGods (out : IO.FS.Stream) : IO Unit := do
  for mp in [0:60] do
    let mut buf := ""
    for dp in [0:60] do
      buf := buf ++ s!"{mp} {dp} : {showL (dayGods rawDayGods godCount mp dp)}\n"
    out.putStr buf

def enumDayTaboo (out : IO.FS.Stream) : IO Unit := do
  for mp in [0:60] do
    let mut buf := ""
    for dp in [0:60] do
      buf := buf ++ s!"{mp} {dp} : {showL (dayTaboos rawDayTaboo tabooCount mp dp 0)} | {showL (dayTaboos rawDayTaboo tabooCount mp dp 1)}\n"
    out.putStr buf

def enumHourTaboo (out : IO.FS.Stream) : IO Unit := do
  for dp in [0:60] do
    let mut buf := ""
    for hp in [0:60] do
      buf := buf ++ s!"{dp} {hp} : {showL (hourTaboos rawHourTaboo tabooCount dp hp 0)} | {showL (hourTaboos rawHourTaboo tabooCount dp hp 1)}\n"
    out.putStr buf

def enumMixed (out : IO.FS.Stream) : IO Unit := do
  for a in [0:60] do
    let mut buf := ""
    for b in [0:60] do
      buf := buf ++ s!"{a} {b} : {showL (dayGods rawDayGods godCount a b)} | {showL (dayTaboos rawDayTaboo tabooCount a b 0)} | {showL (dayTaboos rawDayTaboo tabooCount a b 1)} | {showL (hourTaboos rawHourTaboo tabooCount b a 0)} | {showL (hourTaboos rawHourTaboo tabooCount b a 1)}\n"
    out.putStr buf

def enumLuck (out : IO.FS.Stream) : IO Unit := do
  for i in [0:151] do
    let k := indexOf (i : Int) godCount
    out.putStrLn s!"{i} {k} {luck k} {godCount}"

def enumNames (out : IO.FS.Stream) : IO Unit := do
  out.putStrLn s!"god size {godCount}"
  let mut i := 0
  for n in rawGodNames do
    out.putStrLn s!"god {i} {hexBytes n}"
    i := i + 1
  out.putStrLn s!"taboo size {tabooCount}"
  i := 0
  for n in rawTabooNames do
    out.putStrLn s!"taboo {i} {hexBytes n}"
    i := i + 1

def enumKitchen (out : IO.FS.Stream) : IO Unit := do
  forRange (-1) 9999 fun y => do
    match kitchenModel y with
    | none => out.putStrLn s!"{y} {REFUSED}"
    | some (p, n) => out.putStrLn s!"{y} {p} {joinNats n}"

/-- verdict per pair / spirit / year; `spec = false`: computed by the model from the lifted tables (K),
`spec = true`: what the property demands (S) -/
def enumWf (spec : Bool) (out : IO.FS.Stream) : IO Unit := do
  for mb in [0:12] do
    for dp in [0:60] do
      out.putStrLn s!"gods {mb} {dp} {if spec then "ok" else godsStatus (dayGods rawDayGods godCount mb dp)}"
  for mb in [0:12] do
    for dp in [0:60] do
      let st := if spec then "ok" else tabooStatus (dayTaboos rawDayTaboo tabooCount mb dp 0) (dayTaboos rawDayTaboo tabooCount mb dp 1)
      out.putStrLn s!"day {mb} {dp} {st}"
  for dp in [0:60] do
    for hb in [0:12] do
      let st := if spec then "ok" else tabooStatus (hourTaboos rawHourTaboo tabooCount dp hb 0) (hourTaboos rawHourTaboo tabooCount dp hb 1)
      out.putStrLn s!"hour {dp} {hb} {st}"
  for i in [0:151] do
    let l := if spec then AlmanacSpec.luckOf extGodNames i else luck (indexOf (i : Int) godCount)
    out.putStrLn s!"luck {i} {l}"
  forRange (-1) 9999 fun y => do
    if spec then
      match extKitchen y with
      | none => out.putStrLn s!"kitchen {y} sixteen-numbers-in-1..12-expected"
      | some (p, _) =>
        match (AlmanacSpec.kitchen p).mapM id with
        | some n => out.putStrLn s!"kitchen {y} {joinNats n}"
        | none => out.putStrLn s!"kitchen {y} undefined"
    else
      match kitchenModel y with
      | none => out.putStrLn s!"kitchen {y} {REFUSED}"
      | some (_, n) => out.putStrLn s!"kitchen {y} {joinNats n}"

/-- first-principles well-formedness of one index field for a list of `size` names -/
def fieldStatus (size : Nat) (f : List Nat) : Except String (List Nat) :=
  match AlmanacSpec.fieldValues f with
  | none => .error (if f.length % 2 == 1 then "odd-length" else "not-hex")
  | some v =>
    match v.find? (fun x => decide (x ≥ size)) with
    | some x => .error s!"index-out-of-range {x}>={size}"
    | none => .ok v

/-- S on the raw encoding: every record of the lifted tables, judged by the spec alone (nothing if the lift failed) -/
def enumRawWf (out : IO.FS.Stream) : IO Unit := do
  if !C18Raw.lifted then return ()
  for mb in [0:12] do
    for d in [0:60] do
      let st := match godRecord rawDayGods mb d with
        | none => "no-table-row"
        | some none => "record-not-found"
        | some (some r) =>
          match fieldStatus godCount r with
          | .error e => e
          | .ok [] => "empty"
          | .ok _ => "ok"
      out.putStrLn s!"gods {mb} {d} {st}"
  for (nm, tbl) in [("day", rawDayTaboo), ("hour", rawHourTaboo)] do
    for sup in [0:12] do
      for d in [0:60] do
        let st := match tabooRecord tbl sup d with
          | none => "no-record"
          | some rec =>
            match splitOn 44 rec with
            | [fr, fa] =>
              match fieldStatus tabooCount fr, fieldStatus tabooCount fa with
              | .error e, _ => "recommends-" ++ e
              | _, .error e => "avoids-" ++ e
              | .ok er, .ok ea =>
                match er.find? (fun x => ea.contains x) with
                | some x => s!"both-recommended-and-avoided {x}"
                | none => "ok"
            | l => s!"fields {l.length}"
        -- same key order as c18.wf: day <month branch> <day pillar>, hour <day pillar> <hour branch>
        if nm == "day" then out.putStrLn s!"day {sup} {d} {st}" else out.putStrLn s!"hour {d} {sup} {st}"

def runEnum (name : String) (_args : List String) (out : IO.FS.Stream) : Option (IO Unit) :=
  match name with
  | "c18.gods" => some (enumGods out)
  | "c18.daytaboo" => some (enumDayTaboo out)
  | "c18.hourtaboo" => some (enumHourTaboo out)
  | "c18.luck" => some (enumLuck out)
  | "c18.mixed" => some (enumMixed out)
  | "c18.names" => some (enumNames out)
  | "c18.kitchen" => some (enumKitchen out)
  | "c18.wf" => some (enumWf false out)
  | "c18.wf.spec" => some (enumWf true out)
  | "c18.rawwf" => some (enumRawWf out)
  | _ => none

end Tyme.Driver.P18
