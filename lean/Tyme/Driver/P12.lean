import Tyme.Model.Clock
import Tyme.Model.ClockF64
import Tyme.Spec.Clock
import Tyme.Driver.Util
/- C12 driver part: model ops, spec ops, streams (same text as harness p12.rs). -/
namespace Tyme.Driver.P12
open Tyme Tyme.Driver

def fmtT (t : Time) : String := s!"{fmt3 t.day} {t.h} {t.mi} {t.s}"

def time? (y m d h mi s : Int) : Option Time := mkTime? (y, m, d) h mi s

/-- `none` = op not mine; `some none` = refused -/
def execOp (op : String) (a : List Int) : Option (Option String) :=
  match op, a with
  | "time.new", [y, m, d, h, mi, s] => some <| (time? y m d h mi s).map fun _ => "ok"
  | "time.next", [y, m, d, h, mi, s, n] => some <| do
      let t ← time? y m d h mi s
      let r ← timeNext t n
      pure (fmtT r)
  | "time.sub", [y, m, d, h, mi, s, y2, m2, d2, h2, mi2, s2] => some <| do
      let t ← time? y m d h mi s
      let u ← time? y2 m2 d2 h2 mi2 s2
      pure (toString (timeSub t u))
  | "time.before", [y, m, d, h, mi, s, y2, m2, d2, h2, mi2, s2] => some <| do
      let t ← time? y m d h mi s
      let u ← time? y2 m2 d2 h2 mi2 s2
      pure (b01 (timeBefore t u))
  | "time.after", [y, m, d, h, mi, s, y2, m2, d2, h2, mi2, s2] => some <| do
      let t ← time? y m d h mi s
      let u ← time? y2 m2 d2 h2 mi2 s2
      pure (b01 (timeAfter t u))
  -- Julian date num / 2^k (the exact value of an f64) -> instant
  | "jd.time", [num, k] =>
      if k < 0 ∨ k > 1000 ∨ num.natAbs ≥ 2 ^ 53 then none else some <| (ofJD num (2 ^ k.toNat)).map fmtT
  -- instant -> f64 Julian date (bit-exact model F64.toJD) -> instant, plus the flag |f64 − exact| ≤ 1e-7 day
  -- (under that flag theorem C12_roundtrip_robust says the answer is the instant itself)
  | "time.jd", [y, m, d, h, mi, s] => some <| do
      let t ← time? y m d h mi s
      let x := F64.toJD y m d h mi s
      let q : Int := 2 ^ x.2
      let r ← ofJD x.1 q
      let e := 172800 * x.1 - jdNum t * q
      let ok := decide (10000000 * e ≤ 172800 * q ∧ -(172800 * q) ≤ 10000000 * e)
      pure s!"{fmtT r} {b01 ok}"
  -- instant -> the f64 Julian date of `get_julian_day()`, bit for bit (exact value num / 2^k in lowest terms)
  | "time.jdbits", [y, m, d, h, mi, s] => some <| (time? y m d h mi s).map fun _ =>
      let r := F64.toJD y m d h mi s
      s!"{r.1} {r.2}"
  | _, _ => none

/-! The executable spec ordinal `Clock.ord` / `Clock.ofOrd` re-sums up to 9999 year lengths per call; the sweep
runs millions of cases, so the same sums are memoised here: `yearStart[y]` = Σ_{k<y} `Civil.daysInYear k`. -/

def yearStart : Array Int := Id.run do
  let mut a : Array Int := Array.mkEmpty 10001
  a := a.push 0
  let mut s : Int := 0
  for y in [1:10001] do
    a := a.push s
    s := s + Civil.daysInYear y
  return a

def dayOrd (x : Int × Int × Int) : Int :=
  yearStart[x.1.toNat]! + Civil.sumMonths x.1 x.2.1 + Civil.posInMonth x.1 x.2.1 x.2.2

def dayOfOrd (k : Int) : Option (Int × Int × Int) := Id.run do
  if k < 0 ∨ k ≥ yearStart[10000]! then return none
  -- largest y in 1..9999 with yearStart[y] ≤ k
  let mut lo : Nat := 1
  let mut hi : Nat := 9999
  while lo < hi do
    let mid := (lo + hi + 1) / 2
    if yearStart[mid]! ≤ k then lo := mid else hi := mid - 1
  let y : Int := lo
  let mut r := k - yearStart[lo]!
  let mut m : Int := 1
  while r ≥ Civil.daysIn y m do
    r := r - Civil.daysIn y m
    m := m + 1
  let d := if y == 1582 && m == 10 && r ≥ 4 then r + 11 else r + 1
  return some (y, m, d)

def specOrd (t : Time) : Int := 86400 * dayOrd t.day + 3600 * t.h + 60 * t.mi + t.s

def specOfOrd (k : Int) : Option Time :=
  (dayOfOrd (k / 86400)).map fun d =>
    let r := k % 86400
    ⟨d, r / 3600, r % 3600 / 60, r % 60⟩

def specTime? (y m d h mi s : Int) : Option Time :=
  let t : Time := ⟨(y, m, d), h, mi, s⟩
  if Clock.valid t then some t else none

def specOp (op : String) (a : List Int) : Option (Option String) :=
  match op, a with
  | "time.new", [y, m, d, h, mi, s] => some <| (specTime? y m d h mi s).map fun _ => "ok"
  | "time.next", [y, m, d, h, mi, s, n] => some <| do
      let t ← specTime? y m d h mi s
      let r ← specOfOrd (specOrd t + n)
      pure (fmtT r)
  | "time.sub", [y, m, d, h, mi, s, y2, m2, d2, h2, mi2, s2] => some <| do
      let t ← specTime? y m d h mi s
      let u ← specTime? y2 m2 d2 h2 mi2 s2
      pure (toString (specOrd t - specOrd u))
  | "time.before", [y, m, d, h, mi, s, y2, m2, d2, h2, mi2, s2] => some <| do
      let t ← specTime? y m d h mi s
      let u ← specTime? y2 m2 d2 h2 mi2 s2
      pure (b01 (Clock.ltB t u))
  | "time.after", [y, m, d, h, mi, s, y2, m2, d2, h2, mi2, s2] => some <| do
      let t ← specTime? y m d h mi s
      let u ← specTime? y2 m2 d2 h2 mi2 s2
      pure (b01 (Clock.ltB u t))
  | "jd.time", [num, k] =>
      if k < 0 ∨ k > 1000 ∨ num.natAbs ≥ 2 ^ 53 then none else some <| (specOfOrd (Clock.nearestOrd num (2 ^ k.toNat))).map fmtT
  | "time.jd", [y, m, d, h, mi, s] => some <| (specTime? y m d h mi s).map fun t => s!"{fmtT t} 1"
  | _, _ => none

/-- dates whose every second is enumerated by `c12.secs` (first `n` of this list; same list in p12.rs) -/
def secsDates : List (Int × Int × Int) := [
  (2023, 1, 31), (1582, 10, 4), (1582, 10, 15), (1, 1, 1), (9999, 12, 31), (1029, 9, 9), (6771, 7, 7), (2000, 2, 29),
  (1900, 2, 28), (1600, 2, 29), (1, 12, 31), (2, 1, 1), (100, 2, 29), (1581, 12, 31), (1582, 1, 1), (1582, 12, 31),
  (1583, 1, 1), (1999, 12, 31), (2000, 1, 1), (2024, 2, 29), (2024, 12, 31), (4000, 2, 29), (9999, 1, 1), (9998, 12, 31),
  (1029, 9, 8), (6771, 7, 6), (500, 6, 30), (1000, 4, 30), (1500, 9, 30), (2500, 11, 30), (3000, 3, 31), (5000, 5, 31),
  (7000, 7, 31), (8000, 8, 31), (9000, 10, 31), (1970, 1, 1), (2038, 1, 19), (1752, 9, 2), (1700, 2, 28), (2100, 2, 28)]

def secLine (day : Int × Int × Int) (sod : Int) (rt n1 p1 : Option Time) : String :=
  let f (o : Option Time) : String := match o with | some t => fmtT t | none => REFUSED
  let g (o : Option Time) : String := match o with | some t => fmtT t ++ " 1" | none => REFUSED
  s!"{fmt3 day} {sod} | {g rt} | {f n1} | {f p1}\n"

/-- every second of the listed dates: round trip through the Julian date, next(1), next(-1) -/
def enumSecs (spec : Bool) (args : List String) (out : IO.FS.Stream) : IO Unit := do
  let n := (args.head? >>= String.toNat?).getD 8
  for day in secsDates.take n do
    let mut buf := ""
    for sodN in [0:86400] do
      let sod : Int := sodN
      let t : Time := ⟨day, sod / 3600, sod % 3600 / 60, sod % 60⟩
      if spec then
        buf := buf ++ secLine day sod (some t) (specOfOrd (specOrd t + 1)) (specOfOrd (specOrd t - 1))
      else
        buf := buf ++ secLine day sod (ofJD (jdNum t) jdDen) (timeNext t 1) (timeNext t (-1))
      if sodN % 4096 == 4095 then
        out.putStr buf
        buf := ""
    out.putStr buf

/-- self-test of the memo: `dayOrd` = `Civil.ord` and `dayOfOrd` = `Civil.ofOrd` on every 97th day and the edges -/
def enumMemoCheck (out : IO.FS.Stream) : IO Unit := do
  let total := yearStart[10000]!
  let mut bad : Nat := 0
  let mut n : Nat := 0
  let mut k : Int := -2
  while k ≤ total + 2 do
    let a := dayOfOrd k
    let b := Civil.ofOrd k
    n := n + 1
    if a != b then bad := bad + 1
    match b with
    | some x => if dayOrd x != Civil.ord x.1 x.2.1 x.2.2 || dayOrd x != k then bad := bad + 1
    | none => pure ()
    k := if k < 3 ∨ k > total - 5 then k + 1 else k + 97
  out.putStrLn s!"memo-check cases {n} bad {bad} total {total}"

/-- `none` = stream not mine -/
def runEnum (name : String) (args : List String) (out : IO.FS.Stream) : Option (IO Unit) :=
  match name with
  | "c12.secs" => some (enumSecs false args out)
  | "c12.secs.spec" => some (enumSecs true args out)
  | "c12.memo" => some (enumMemoCheck out)
  | _ => none

end Tyme.Driver.P12
