import Tyme.Model.Jd
import Tyme.Model.Week
import Tyme.Spec.Civil
import Tyme.Spec.Week
import Tyme.Driver.Util
/- C14 driver part: model ops, spec ops, streams (same text as harness p14.rs). -/
namespace Tyme.Driver.P14
open Tyme Tyme.Wk Tyme.Driver

def fmtWeek (w : SolarWeek) : String := s!"{w.month.1} {w.month.2} {w.index} {w.start}"

def day? (y m d : Int) : Option (Int × Int × Int) :=
  if d ≥ 0 ∧ m ≥ 0 ∧ solarDayOk y m d then some (y, m, d) else none

/-- `none` = op not mine; `some none` = refused -/
def execOp (op : String) (a : List Int) : Option (Option String) :=
  match op, a with
  | "week.count", [y, m, s] => some <| if m < 0 then none else (solarWeekCount y m s).map toString
  | "week.new", [y, m, i, s] => some <| (solarWeekNew y m i s).map fun _ => "ok"
  | "week.first", [y, m, i, s] => some <| do
      let w ← solarWeekNew y m i s
      let d ← solarWeekFirstDay w
      pure (fmt3 d)
  | "week.days", [y, m, i, s] => some <| do
      let w ← solarWeekNew y m i s
      let l ← solarWeekDays w
      pure (s!"{l.length} " ++ " ".intercalate (l.map fmt3))
  | "week.next", [y, m, i, s, n] => some <| do
      let w ← solarWeekNew y m i s
      let r ← solarWeekNext w n
      pure (fmtWeek r)
  | "week.nextfd", [y, m, i, s, n] => some <| do
      let w ← solarWeekNew y m i s
      let r ← solarWeekNext w n
      let d ← solarWeekFirstDay r
      pure (fmt3 d)
  | "week.idx", [y, m, i, s] => some <| do
      let w ← solarWeekNew y m i s
      let r ← solarWeekIndexInYear w
      pure (toString r)
  | "week.of", [y, m, d, s] => some <| do
      let _ ← day? y m d
      let w ← solarWeekOf y m d s
      pure (fmtWeek w)
  | "week.offd", [y, m, d, s] => some <| do
      let _ ← day? y m d
      let w ← solarWeekOf y m d s
      let f ← solarWeekFirstDay w
      pure (fmt3 f)
  | "week.weeks", [y, m, s] => some <| do
      if m < 0 then none
      let l ← solarWeeks y m s
      pure (s!"{l.length} " ++ " ".intercalate (l.map fmtWeek))
  | "week.eq", [y, m, i, s, y2, m2, i2, s2] => some <| do
      let w ← solarWeekNew y m i s
      let v ← solarWeekNew y2 m2 i2 s2
      let r ← solarWeekEq w v
      pure (b01 r)
  | _, _ => none

/-! spec side -/
open Tyme.WeekSpec in
def specOp (op : String) (a : List Int) : Option (Option String) :=
  match op, a with
  | "week.count", [y, m, s] => some <|
      if monthOk y m ∧ 0 ≤ s then some (toString (weekCount y m (s % 7))) else none
  | "week.new", [y, m, i, s] => some <| if weekOk y m i s then some "ok" else none
  | "week.first", [y, m, i, s] => some <| do
      if !weekOk y m i s then none
      let d ← Civil.ofOrd (weekFirst y m i s)
      pure (fmt3 d)
  | "week.days", [y, m, i, s] => some <| do
      if !weekOk y m i s then none
      let l ← (List.range 7).mapM fun (k : Nat) => Civil.ofOrd (weekFirst y m i s + (k : Int))
      pure (s!"{l.length} " ++ " ".intercalate (l.map fmt3))
  | "week.nextfd", [y, m, i, s, n] => some <| do
      if !weekOk y m i s then none
      let d ← Civil.ofOrd (weekFirst y m i s + 7 * n)
      pure (fmt3 d)
  | "week.idx", [y, m, i, s] => some <| if weekOk y m i s then some (toString (indexInYear y m i s)) else none
  | "week.offd", [y, m, d, s] => some <| do
      if !(Civil.valid y m d && decide (0 ≤ s ∧ s ≤ 6)) then none
      let f ← Civil.ofOrd (blockStart s (block s (Civil.ord y m d)))
      pure (fmt3 f)
  | "week.weeks", [y, m, s] => some <| do
      if !(monthOk y m && decide (0 ≤ s ∧ s ≤ 6)) then none
      let l := (List.range (weekCount y m s).toNat).map fun i => s!"{y} {m} {i} {s}"
      pure (s!"{l.length} " ++ " ".intercalate l)
  | _, _ => none

/-! streams -/

def yearSelected (y : Int) (tier : String) : Bool :=
  if tier == "edges" then y == 1 || y == 2 || y == 1581 || y == 1582 || y == 1583 || y == 9998 || y == 9999 else
  tier == "thorough" || y ≤ 5 || y ≥ 9995 || y % 10 == 0 || (1581 ≤ y && y ≤ 1583)

def digitsOf (f : Int) (l : List (Int × Int × Int)) : String :=
  l.foldl (fun acc d => let k := jdn d.1 d.2.1 d.2.2 - f
                        acc ++ (if 0 ≤ k ∧ k ≤ 9 then toString k else "?")) ""

def lineWeeks (y m s : Int) : String := Id.run do
  let wc := weekCount civilOps (y, m) s
  let mut mask : Nat := 0
  for i in [0:8] do
    if (solarWeekNew y m i s).isSome then mask := mask ||| (1 <<< i)
  let ws := match solarWeeks y m s with
    | none => REFUSED
    | some l => ",".intercalate (l.map fun (w : SolarWeek) => toString w.index)
  let mut out := s!"{y} {m} {s} {wc} {mask} | {ws} |"
  for i in [0:8] do
    if mask &&& (1 <<< i) != 0 then
      let w : SolarWeek := ⟨(y, m), i, s⟩
      let fd := match solarWeekFirstDay w with
        | none => "x"
        | some d => toString (jdn d.1 d.2.1 d.2.2)
      let days := match solarWeekDays w with
        | none => "x"
        | some l => match l with
          | [] => ""
          | d0 :: _ => digitsOf (jdn d0.1 d0.2.1 d0.2.2) l
      out := out ++ s!" {fd}:{days}"
  return out

def lineOf (y m s : Int) : String := Id.run do
  let mut t := ""
  for d in [1:32] do
    if solarDayOk y m d then
      t := t ++ (match solarWeekOf y m d s with
        | none => "x"
        | some w => if w.month.1 != y || w.month.2 != m || w.start != s then "!" else toString w.index)
  return s!"{y} {m} {s} {t}"

def lineIdx (y s : Int) : String := Id.run do
  let mut out := s!"{y} {s} |"
  for mi in [1:13] do
    let m : Int := mi
    let wc := weekCount civilOps (y, m) s
    for i in [0:wc.toNat] do
      out := out ++ " " ++ (match solarWeekIndexInYear ⟨(y, m), i, s⟩ with
        | none => "x"
        | some r => toString r)
    out := out ++ " ;"
  return out

def lineStep (y m s : Int) : String := Id.run do
  let mut out := s!"{y} {m} {s} |"
  let wc := weekCount civilOps (y, m) s
  for i in [0:wc.toNat] do
    for n in [(-1 : Int), 1, -5, 5] do
      out := out ++ " " ++ (match solarWeekNext ⟨(y, m), i, s⟩ n with
        | none => "x"
        | some v => s!"{v.month.1 - y}.{v.month.2}.{v.index}")
    out := out ++ " ;"
  return out

def lineEdges (y m s i : Int) : String := Id.run do
  let mut out := s!"{y} {m} {s} {i} |"
  for k in [0:121] do
    let n : Int := (k : Int) - 60
    out := out ++ " " ++ (match solarWeekNext ⟨(y, m), i, s⟩ n with
      | none => "x"
      | some v => match solarWeekFirstDay v with
        | none => "X"
        | some d => toString (jdn d.1 d.2.1 d.2.2))
  return out

/-! spec lines, from ordinals only.  `F` = ordinal of day 1 of the month, `L` = its number of days,
`J` = ordinal of January 1 of the year, `T` = number of days in 0001..9999. -/
open Tyme.WeekSpec in
def lineWeeksSpec (y m s F L T : Int) : String := Id.run do
  let wc := blockCount s F L
  let mask : Nat := (1 <<< wc.toNat) - 1
  let ws := ",".intercalate ((List.range wc.toNat).map toString)
  let mut out := s!"{y} {m} {s} {wc} {mask} | {ws} |"
  for i in [0:wc.toNat] do
    let f := blockStart s (firstBlock s F + i)
    let fd := if 0 ≤ f ∧ f < T then toString (1721424 + f) else "x"
    let days := if 0 ≤ f ∧ f + 6 < T then "0123456" else "x"
    out := out ++ s!" {fd}:{days}"
  return out

open Tyme.WeekSpec in
def lineOfSpec (y m s F L : Int) : String := Id.run do
  let mut t := ""
  for k in [0:L.toNat] do
    t := t ++ toString (block s (F + k) - firstBlock s F)
  return s!"{y} {m} {s} {t}"

open Tyme.WeekSpec in
def lineIdxSpec (y s : Int) (Fs : Array Int) : String := Id.run do
  let mut out := s!"{y} {s} |"
  let J := Fs[0]!
  for mi in [0:12] do
    let F := Fs[mi]!
    let L := Fs[mi + 1]! - F
    for k in [0:(blockCount s F L).toNat] do
      out := out ++ s!" {firstBlock s F + k - block s J}"
    out := out ++ " ;"
  return out

open Tyme.WeekSpec in
def lineEdgesSpec (y m s i F T : Int) : String := Id.run do
  let mut out := s!"{y} {m} {s} {i} |"
  let f0 := blockStart s (firstBlock s F + i)
  for k in [0:121] do
    let f := f0 + 7 * ((k : Int) - 60)
    out := out ++ " " ++ (if f + 6 < 0 ∨ f ≥ T then "x" else if f < 0 then "X" else toString (1721424 + f))
  return out

/-- ordinal of January 1 of every year 1..10000 (index y-1), by summing year lengths -/
def yearStarts : Array Int := Id.run do
  let mut a : Array Int := Array.mkEmpty 10001
  let mut s : Int := 0
  for y in [1:10001] do
    a := a.push s
    s := s + Civil.daysInYear y
  return a

/-- ordinals of day 1 of months 1..12 of year y and of January 1 of y+1 -/
def monthStarts (J : Int) (y : Int) : Array Int := Id.run do
  let mut a : Array Int := #[J]
  let mut s := J
  for m in [1:13] do
    s := s + Civil.daysIn y m
    a := a.push s
  return a

/-- render the selected years in parallel chunks, print in order -/
def parYears (tier : String) (out : IO.FS.Stream) (f : Int → String) : IO Unit := do
  let years := (List.range 9999).map (fun (k : Nat) => (k : Int) + 1) |>.filter (yearSelected · tier)
  let rec chunks (l : List Int) (fuel : Nat) : List (List Int) :=
    match fuel with
    | 0 => []
    | fuel + 1 => if l.isEmpty then [] else l.take 32 :: chunks (l.drop 32) fuel
  let tasks := (chunks years 10000).map fun c => Task.spawn fun _ => c.foldl (fun acc y => acc ++ f y) ""
  for t in tasks do
    out.putStr t.get

def perMonthStart (g : Int → Int → Int → String) (y : Int) : String := Id.run do
  let mut b := ""
  for mi in [1:13] do
    for si in [0:7] do
      b := b ++ g y mi si ++ "\n"
  return b

/-- `none` = stream not mine -/
def runEnum (name : String) (args : List String) (out : IO.FS.Stream) : Option (IO Unit) :=
  let tier := args.headD "quick"
  match name with
  | "c14.weeks" => some <| parYears tier out (perMonthStart lineWeeks)
  | "c14.of" => some <| parYears tier out (perMonthStart lineOf)
  | "c14.step" => some <| parYears tier out (perMonthStart lineStep)
  | "c14.idx" => some <| parYears tier out fun y => Id.run do
      let mut b := ""
      for si in [0:7] do
        b := b ++ lineIdx y si ++ "\n"
      return b
  | "c14.edges" => some <| parYears "edges" out fun y => Id.run do
      let mut b := ""
      for mi in [1:13] do
        for si in [0:7] do
          for i in [0:(weekCount civilOps (y, mi) si).toNat] do
            b := b ++ lineEdges y mi si i ++ "\n"
      return b
  | "c14.edges.spec" => some <| do
      let ys := yearStarts
      let T := ys[9999]!
      parYears "edges" out fun y => Id.run do
        let Fs := monthStarts ys[(y - 1).toNat]! y
        let mut b := ""
        for mi in [1:13] do
          for si in [0:7] do
            let F := Fs[mi - 1]!
            for i in [0:(WeekSpec.blockCount si F (Fs[mi]! - F)).toNat] do
              b := b ++ lineEdgesSpec y mi si i F T ++ "\n"
        return b
  | "c14.weeks.spec" => some <| do
      let ys := yearStarts
      let T := ys[9999]!
      parYears tier out fun y => Id.run do
        let Fs := monthStarts ys[(y - 1).toNat]! y
        let mut b := ""
        for mi in [1:13] do
          for si in [0:7] do
            b := b ++ lineWeeksSpec y mi si Fs[mi - 1]! (Fs[mi]! - Fs[mi - 1]!) T ++ "\n"
        return b
  | "c14.of.spec" => some <| do
      let ys := yearStarts
      parYears tier out fun y => Id.run do
        let Fs := monthStarts ys[(y - 1).toNat]! y
        let mut b := ""
        for mi in [1:13] do
          for si in [0:7] do
            b := b ++ lineOfSpec y mi si Fs[mi - 1]! (Fs[mi]! - Fs[mi - 1]!) ++ "\n"
        return b
  | "c14.idx.spec" => some <| do
      let ys := yearStarts
      parYears tier out fun y => Id.run do
        let Fs := monthStarts ys[(y - 1).toNat]! y
        let mut b := ""
        for si in [0:7] do
          b := b ++ lineIdxSpec y si Fs ++ "\n"
        return b
  | _ => none

end Tyme.Driver.P14
