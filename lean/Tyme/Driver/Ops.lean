import Tyme.Model.Jd
import Tyme.Spec.Civil
import Tyme.Driver.Util
/- Line protocol: same text as harness `exec`. -/
namespace Tyme.Driver
open Tyme

def solarDay? (y m d : Int) : Option (Int × Int × Int) :=
  if solarDayOk y m d then some (y, m, d) else none

def execOp (op : String) (a : List Int) : Option String :=
  match op, a with
  | "solar.new", [y, m, d] => (solarDay? y m d).map fun _ => "ok"
  | "solar.jdn", [y, m, d] => (solarDay? y m d).map fun _ => toString (jdn y m d)
  | "jd.day", [j] =>
      let r := ofJdn j
      if solarDayOk r.1 r.2.1 r.2.2 then some (fmt3 r) else none
  | "solar.next", [y, m, d, n] => do
      let x ← solarDay? y m d
      let r ← dayNext x n
      pure (fmt3 r)
  | "solar.sub", [y, m, d, y2, m2, d2] => do
      let x ← solarDay? y m d
      let z ← solarDay? y2 m2 d2
      pure (toString (daySub x z))
  | "solar.before", [y, m, d, y2, m2, d2] => do
      let x ← solarDay? y m d
      let z ← solarDay? y2 m2 d2
      pure (b01 (dayBefore x z))
  | "solar.after", [y, m, d, y2, m2, d2] => do
      let x ← solarDay? y m d
      let z ← solarDay? y2 m2 d2
      pure (b01 (dayAfter x z))
  | "solar.idx", [y, m, d] => (solarDay? y m d).map fun x => toString (dayIndexInYear x)
  | "solar.week", [y, m, d] => (solarDay? y m d).map fun _ => toString (weekOfJdn (jdn y m d))
  | "month.len", [y, m] =>
      if 1 ≤ y ∧ y ≤ 9999 ∧ 1 ≤ m ∧ m ≤ 12 then some (toString (monthLen y m)) else none
  | "year.len", [y] =>
      if 1 ≤ y ∧ y ≤ 9999 then some s!"{yearLen y} {b01 (isLeap y)}" else none
  | _, _ => some "bad-op"

def execLine (line : String) : String :=
  match line.trimAscii.toString.splitOn " " |>.filter (· ≠ "") with
  | [] => ""
  | op :: rest =>
    match parseInts rest with
    | none => "bad-op"
    | some a => (execOp op a).getD REFUSED

end Tyme.Driver
