import Tyme.Model.EightChar
import Tyme.Model.RealEph
import Tyme.Driver.Util
import Tyme.Driver.P07
/- C09 driver part: eight characters and the inverse search (same text as harness p09.rs). -/
namespace Tyme.Driver.P09
open Tyme Tyme.Driver Tyme.EC

def E : Eph := fastEph

def timeOk (y m d h mi s : Int) : Bool :=
  solarDayOk y m d && decide (0 ≤ h ∧ h ≤ 23 ∧ 0 ≤ mi ∧ mi ≤ 59 ∧ 0 ≤ s ∧ s ≤ 59)

def fmtT (t : Time) : String := s!"{t.1} {t.2.1} {t.2.2.1} {t.2.2.2.1} {t.2.2.2.2.1} {t.2.2.2.2.2}"

def execOp (op : String) (a : List Int) : Option (Option String) :=
  match op, a with
  | "ec.of", [y, m, d, h, mi, s] => some <|
      if !timeOk y m d h mi s then none else
      (ofTimeViaLunar E (y, m, d, h, mi, s)).map fun e => s!"{e.year} {e.month} {e.day} {e.hour}"
  | "ec.search", [yp, mp, dp, hp, y0, y1] => some <|
      let ec : EightChar := ⟨SC.indexOf yp 60, SC.indexOf mp 60, SC.indexOf dp 60, SC.indexOf hp 60⟩
      (solarTimes E ec y0 y1).map fun l =>
        l.foldl (fun acc t => acc ++ " | " ++ fmtT t) (toString l.length)
  | _, _ => none

/-- spec for `ec.of`: the four pillars by the rules (independent of the model), from P07.specTime -/
def specOp (op : String) (a : List Int) : Option (Option String) :=
  match op, a with
  | "ec.of", [y, m, d, h, mi, s] => some <|
      (P07.specTime y m d h mi s).map fun str =>
        match str.splitOn " " with
        | yp :: mp :: dp :: hp :: _ => s!"{yp} {mp} {dp} {hp}"
        | _ => str
  | _, _ => none

def runEnum (_name : String) (_args : List String) (_out : IO.FS.Stream) : Option (IO Unit) := none

end Tyme.Driver.P09
