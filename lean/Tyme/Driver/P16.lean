import Tyme.Model.ChildLimit
import Tyme.Model.RealEph
import Tyme.Spec.ChildLimit
import Tyme.Driver.Util
import Tyme.Driver.P06
import Tyme.Driver.P07
/- C16 driver part: child limit, decade fortunes, yearly fortunes (same text as harness p16.rs). -/
namespace Tyme.Driver.P16
open Tyme Tyme.Driver Tyme.CL

def E : Eph := fastEph

/-- gender code 1 = man, 0 = woman; strategy 0..3 -/
def argsOk (g p : Int) : Bool := (g == 0 || g == 1) && decide (0 ≤ p ∧ p ≤ 3)

def modelLimit (y m d h mi s g p : Int) : Option Limit :=
  if !argsOk g p then none else
  if !timeOk y m d h mi s then none else
  fromSolarTime E p ⟨(y, m, d), h, mi, s⟩ (g == 1)

def fmtLimit (l : Limit) : String :=
  s!"{b01 l.fwd} {l.c.y} {l.c.mo} {l.c.d} {l.c.h} {l.c.mi} {fmt3 l.stop.day} {l.stop.h} {l.stop.mi} {l.stop.s} 1 {endAge l}"

def execOp (op : String) (a : List Int) : Option (Option String) :=
  match op, a with
  | "limit", [y, m, d, h, mi, s, g, p] => some <| (modelLimit y m d h mi s g p).map fmtLimit
  | "fortune", [y, m, d, h, mi, s, g, p, k] => some <| do
      let l ← modelLimit y m d h mi s g p
      let yr ← fortYear l k
      pure s!"{fortAge l k} {yr} {fortPillar l k}"
  | "decade", [y, m, d, h, mi, s, g, p, k] => some <| do
      let l ← modelLimit y m d h mi s g p
      let yr ← decStartYear l k
      pure s!"{decStartAge l k} {decEndAge l k} {decPillar l k} {yr}"
  -- the remaining getters of ChildLimit / DecadeFortune(k) / Fortune(k): birth instant and gender as kept, the eight characters,
  -- the (deprecated) lunar-year getters = lunar year of birth + (end year - birth year) (+ 10k, + 10k + 9, + k), the sexagenary
  -- start / end years, the indices of the derived fortunes
  | "limit.more", [y, m, d, h, mi, s, g, p, k] => some <| do
      let l ← modelLimit y m d h mi s g p
      let r ← Lunar.ofSolar E y m d
      let bY := l.start.day.1
      let ey := l.stop.day.1
      let base := r.1.y + ey - bY
      let lyOk := fun (v : Int) => decide (-1 ≤ v ∧ v ≤ 9999)
      if !(lyOk base && lyOk (base + k * 10) && lyOk (base + k * 10 + 9) && lyOk (base + k) && lyOk bY && lyOk ey
           && lyOk (ey + k * 10) && lyOk (ey + k * 10 + 9)) then none
      pure s!"{fmt3 l.start.day} {l.start.h} {l.start.mi} {l.start.s} {g} {l.ec.year} {l.ec.month} {l.ec.day} {l.ec.hour} {base} {bY} {ey} 0 -1 0 {base + k * 10} {base + k * 10 + 9} {ey + k * 10 + 9} {k * 10} {base + k} {ey} {ey}"
  | "fnext", [y, m, d, h, mi, s, g, p, k, n] => some <| do
      let l ← modelLimit y m d h mi s g p
      pure s!"{stepIndex k n} {fortAge l (stepIndex k n)} {fortPillar l (stepIndex k n)}"
  | "dnext", [y, m, d, h, mi, s, g, p, k, n] => some <| do
      let l ← modelLimit y m d h mi s g p
      pure s!"{stepIndex k n} {decStartAge l (stepIndex k n)} {decPillar l (stepIndex k n)} {decStartFortune (stepIndex k n)}"
  | _, _ => none

/-! spec side: everything recomputed from the term table by binary search and exact second arithmetic on the
civil line (`Civil.ord`), the calendar sum written independently (`CLSpec.calAdd`). -/

structure SpecLimit where
  fwd : Bool
  cnt : Int × Int × Int × Int × Int
  stop : Int × Int × Int
  sod : Int
  birthYear : Int
  monthP : Int
  hourP : Int

def specLimit (y m d h mi s g p : Int) : Option SpecLimit :=
  if !argsOk g p then none else
  if !(Civil.valid y m d && decide (0 ≤ h ∧ h ≤ 23 ∧ 0 ≤ mi ∧ mi ≤ 59 ∧ 0 ≤ s ∧ s ≤ 59)) then none else
  let man := g == 1
  let j := 1721424 + Civil.ord y m d
  let sod := 3600 * h + 60 * mi + s
  let sec := 86400 * j + sod
  let gL : Int → Int := fun yy => 24 * (yy - 1) + 3
  match P06.specLatest E.termSec sec with
  | none => none
  | some g0 =>
    let lichun := E.termSec (gL y).toNat
    let ystar := if sec ≥ lichun then y else y - 1
    let yp := (ystar - 4) % 60
    let fwd := CLSpec.forward (yp % 10) man
    -- governing Jie: the first Jie (odd index) after birth when forward, the latest at or before birth otherwise
    let gi : Int := g0
    let G : Int := if fwd then (if gi % 2 = 1 then gi + 2 else gi + 1) else (if gi % 2 = 1 then gi else gi - 1)
    if G < 1 ∨ G > 239977 then none else
    let tsec := E.termSec G.toNat
    let span := (tsec - sec).natAbs
    let cnt :=
      if p = 1 then CLSpec.digitsChina95 span
      else if p = 3 then CLSpec.digitsSect2 span
      else if p = 2 then
        let tj := tsec / 86400
        let th := tsec % 86400 / 3600
        -- whole double-hours from the earlier to the later of the two instants
        let u := if sec > tsec then 12 * (j - tj) + (CLSpec.dhour h - CLSpec.dhour th)
                 else 12 * (tj - j) + (CLSpec.dhour th - CLSpec.dhour h)
        CLSpec.digitsSect1 u
      else CLSpec.digitsDefault span
    match CLSpec.calAdd y m d sod cnt.1 cnt.2.1 cnt.2.2.1 cnt.2.2.2.1 cnt.2.2.2.2 with
    | none => none
    | some (e, esod) =>
      -- month pillar: Jie passed since the Lichun that opened the sexagenary year, Five Tigers for the stem
      let k := (gi - gL ystar) / 2
      let branch := (2 + k) % 12
      let stem := ((yp % 10 + 1) * 2 + k) % 10
      let dp := (j + 49 + (if h = 23 then 1 else 0)) % 60
      let hb := ((h + 1) / 2) % 12
      let hs := (dp % 10 % 5 * 2 + hb) % 10
      some ⟨fwd, cnt, e, esod, y, P07.crt stem branch, P07.crt hs hb⟩

def fmtSpec (l : SpecLimit) : String :=
  let n := l.stop.1 - l.birthYear
  s!"{b01 l.fwd} {l.cnt.1} {l.cnt.2.1} {l.cnt.2.2.1} {l.cnt.2.2.2.1} {l.cnt.2.2.2.2} {fmt3 l.stop} {l.sod / 3600} {l.sod % 3600 / 60} {l.sod % 60} 1 {if n > 1 then n else 1}"

def yearOk (y : Int) : Bool := decide (-1 ≤ y ∧ y ≤ 9999)

def specOp (op : String) (a : List Int) : Option (Option String) :=
  match op, a with
  | "limit.more", _ => execOp op a
  | "limit", [y, m, d, h, mi, s, g, p] => some <| (specLimit y m d h mi s g p).map fmtSpec
  | "fortune", [y, m, d, h, mi, s, g, p, k] => some <| do
      let l ← specLimit y m d h mi s g p
      let age := l.stop.1 - l.birthYear + 1 + k
      if !yearOk (l.stop.1 + k) then none
      pure s!"{age} {l.stop.1 + k} {(l.hourP + (if l.fwd then age else -age)) % 60}"
  | "decade", [y, m, d, h, mi, s, g, p, k] => some <| do
      let l ← specLimit y m d h mi s g p
      let sa := l.stop.1 - l.birthYear + 1 + 10 * k
      if !yearOk (l.stop.1 + 10 * k) then none
      pure s!"{sa} {sa + 9} {(l.monthP + (if l.fwd then k + 1 else -(k + 1))) % 60} {l.stop.1 + 10 * k}"
  | "fnext", [y, m, d, h, mi, s, g, p, k, n] => some <| do
      let l ← specLimit y m d h mi s g p
      let age := l.stop.1 - l.birthYear + 1 + (k + n)
      pure s!"{k + n} {age} {(l.hourP + (if l.fwd then age else -age)) % 60}"
  | "dnext", [y, m, d, h, mi, s, g, p, k, n] => some <| do
      let l ← specLimit y m d h mi s g p
      let sa := l.stop.1 - l.birthYear + 1 + 10 * (k + n)
      pure s!"{k + n} {sa} {(l.monthP + (if l.fwd then k + n + 1 else -(k + n + 1))) % 60} {10 * (k + n)}"
  | _, _ => none

def runEnum (_name : String) (_args : List String) (_out : IO.FS.Stream) : Option (IO Unit) := none

end Tyme.Driver.P16
