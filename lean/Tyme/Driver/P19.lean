import Tyme.Model.Attr
import Tyme.Spec.Classical
import Tyme.Spec.Civil
import Tyme.Driver.Util
/- C19 driver part: attribute families from the model (K) and from the specification (S); same text as harness p19.rs. -/
namespace Tyme.Driver.P19
open Tyme Tyme.Driver Tyme.Classical

def famOf (op : String) : Option Fam := Fam.all.find? (fun f => f.name == op)

/-- arguments as the harness hands them to the library: cyclic types wrap (`from_index`), the two calendar-valued
    families refuse what is not in their domain -/
def canonArgs (f : Fam) (a : List Int) : Option (List Nat) :=
  if a.length != f.dims.length then none
  else match f, a with
  | .fetusMonth, [k] => if 0 ≤ k ∧ k ≤ 12 then some [k.toNat] else none
  | .dayConstellation, [m, d] =>
      if 0 ≤ m ∧ m < 12 ∧ 0 ≤ d ∧ d.toNat + 1 ≤ leapMonthLen (m.toNat + 1) then some [m.toNat, d.toNat] else none
  | .nameOf, [t, i] =>
      if 0 ≤ t ∧ t < 25 then
        let n := nameCount t.toNat
        -- types 21..23 are enums addressed by code (`from_code` refuses an unknown code); the others wrap
        if t.toNat == 21 || t.toNat == 22 || t.toNat == 23 then (if 0 ≤ i ∧ i.toNat < n then some [t.toNat, i.toNat] else none)
        else some [t.toNat, Attr.indexOf i n]
      else none
  | _, _ => some ((a.zip f.dims).map (fun p => Attr.indexOf p.1 p.2))

def isSign (f : Fam) : Bool := f == .ecOrigin || f == .ecBreath || f == .ecOwn || f == .ecBody

/-- a sign that names no pillar makes `SixtyCycle::from_name` panic ⇒ refused -/
def render (f : Fam) (row : List Int) : Option String :=
  if isSign f && row == [-1] then none else some (joinInts row)

def opWith (ans : Fam → List Nat → List Int) (op : String) (a : List Int) : Option (Option String) :=
  match famOf op with
  | none => none
  | some f =>
    if a.length != f.dims.length then some (some "bad-op")
    else some <| do
      let c ← canonArgs f a
      render f (ans f c)

def execOp (op : String) (a : List Int) : Option (Option String) := opWith Attr.answer op a
def specOp (op : String) (a : List Int) : Option (Option String) := opWith Classical.answer op a

def enumExt (ans : Fam → List Nat → List Int) (out : IO.FS.Stream) : IO Unit := do
  for f in Fam.all do
    let mut buf := ""
    for a in f.args do
      let r := match render f (ans f a) with | some s => s | none => REFUSED
      buf := buf ++ s!"{f.name} {joinInts (a.map Int.ofNat)} => {r}\n"
    out.putStr buf

def signText (o : Option Nat) (b : Option Nat) : String :=
  match o, b with
  | some x, some y => s!"{x} {y}"
  | _, _ => REFUSED

def enumSigns (spec : Bool) (out : IO.FS.Stream) : IO Unit := do
  for y in [0:60] do
    let mut buf := ""
    for m in [0:60] do
      for h in [0:60] do
        let r := if spec then signText (Classical.ownSign (pillarStem y) (pillarBranch m) (pillarBranch h))
                                       (Classical.bodySign (pillarStem y) (pillarBranch m) (pillarBranch h))
                 else signText (Attr.ownSign (Attr.cycleStem y) (Attr.cycleBranch m) (Attr.cycleBranch h))
                               (Attr.bodySign (Attr.cycleStem y) (Attr.cycleBranch m) (Attr.cycleBranch h))
        buf := buf ++ s!"{y} {m} {h} => {r}\n"
    out.putStr buf

/-- every civil day (existence by the independent civil-calendar specification of C01): sign per day, one line per month -/
def enumDays (spec : Bool) (out : IO.FS.Stream) : IO Unit := do
  forRange 1 9999 fun y => do
    let mut buf := ""
    for m in [1:13] do
      let mut v : List Int := []
      for d in [1:32] do
        if Civil.valid y (m : Int) (d : Int) then
          v := (if spec then Classical.constellation m d else Attr.constellation m d : Nat) :: v
      buf := buf ++ s!"{y} {m} => {joinInts v.reverse}\n"
    out.putStr buf

def runEnum (name : String) (_args : List String) (out : IO.FS.Stream) : Option (IO Unit) :=
  match name with
  | "c19.ext" => some (enumExt Attr.answer out)
  | "c19.ext.spec" => some (enumExt Classical.answer out)
  | "c19.signs" => some (enumSigns false out)
  | "c19.signs.spec" => some (enumSigns true out)
  | "c19.days" => some (enumDays false out)
  | "c19.days.spec" => some (enumDays true out)
  | _ => none

end Tyme.Driver.P19
