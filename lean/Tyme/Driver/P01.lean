import Tyme.Model.Jd
import Tyme.Spec.Civil
import Tyme.Driver.Util
/- C01 driver part: model ops, spec ops, exhaustive streams (same text as harness p01.rs). -/
namespace Tyme.Driver.P01
open Tyme Tyme.Driver

def solarDay? (y m d : Int) : Option (Int × Int × Int) :=
  if solarDayOk y m d then some (y, m, d) else none

/-- `none` = op not mine; `some none` = refused -/
def execOp (op : String) (a : List Int) : Option (Option String) :=
  match op, a with
  | "solar.new", [y, m, d] => some <| (solarDay? y m d).map fun _ => "ok"
  | "solar.jdn", [y, m, d] => some <| (solarDay? y m d).map fun _ => toString (jdn y m d)
  | "jd.day", [j] => some <|
      let r := ofJdn j
      if solarDayOk r.1 r.2.1 r.2.2 then some (fmt3 r) else none
  | "solar.next", [y, m, d, n] => some <| do
      let x ← solarDay? y m d
      let r ← dayNext x n
      pure (fmt3 r)
  | "solar.sub", [y, m, d, y2, m2, d2] => some <| do
      let x ← solarDay? y m d
      let z ← solarDay? y2 m2 d2
      pure (toString (daySub x z))
  | "solar.before", [y, m, d, y2, m2, d2] => some <| do
      let x ← solarDay? y m d
      let z ← solarDay? y2 m2 d2
      pure (b01 (dayBefore x z))
  | "solar.after", [y, m, d, y2, m2, d2] => some <| do
      let x ← solarDay? y m d
      let z ← solarDay? y2 m2 d2
      pure (b01 (dayAfter x z))
  | "solar.idx", [y, m, d] => some <| (solarDay? y m d).map fun x => toString (dayIndexInYear x)
  | "solar.week", [y, m, d] => some <| (solarDay? y m d).map fun _ => toString (weekOfJdn (jdn y m d))
  | "month.len", [y, m] => some <|
      if 1 ≤ y ∧ y ≤ 9999 ∧ 1 ≤ m ∧ m ≤ 12 then some (toString (monthLen y m)) else none
  | "year.len", [y] => some <|
      if 1 ≤ y ∧ y ≤ 9999 then some s!"{yearLen y} {b01 (isLeap y)}" else none
  | _, _ => none


def specDay? (y m d : Int) : Option (Int × Int × Int) := if Civil.valid y m d then some (y, m, d) else none

def ltB (a b : Int × Int × Int) : Bool :=
  decide (a.1 < b.1) || (a.1 == b.1 && (decide (a.2.1 < b.2.1) || (a.2.1 == b.2.1 && decide (a.2.2 < b.2.2))))

def specOp (op : String) (a : List Int) : Option (Option String) :=
  match op, a with
  | "solar.new", [y, m, d] => some <| (specDay? y m d).map fun _ => "ok"
  | "solar.jdn", [y, m, d] => some <| (specDay? y m d).map fun _ => toString (1721424 + Civil.ord y m d)
  | "jd.day", [j] => some <| (Civil.ofOrd (j - 1721424)).map fmt3
  | "solar.next", [y, m, d, n] => some <| do
      let _ ← specDay? y m d
      let r ← Civil.ofOrd (Civil.ord y m d + n)
      pure (fmt3 r)
  | "solar.sub", [y, m, d, y2, m2, d2] => some <| do
      let _ ← specDay? y m d
      let _ ← specDay? y2 m2 d2
      pure (toString (Civil.ord y m d - Civil.ord y2 m2 d2))
  | "solar.before", [y, m, d, y2, m2, d2] => some <| do
      let x ← specDay? y m d
      let z ← specDay? y2 m2 d2
      pure (b01 (ltB x z))
  | "solar.after", [y, m, d, y2, m2, d2] => some <| do
      let x ← specDay? y m d
      let z ← specDay? y2 m2 d2
      pure (b01 (ltB z x))
  | "solar.idx", [y, m, d] => some <| (specDay? y m d).map fun _ => toString (Civil.ord y m d - Civil.ord y 1 1)
  | "solar.week", [y, m, d] => some <| (specDay? y m d).map fun _ => toString ((6 + Civil.ord y m d) % 7)
  | "month.len", [y, m] => some <|
      if 1 ≤ y ∧ y ≤ 9999 ∧ 1 ≤ m ∧ m ≤ 12 then some (toString (Civil.daysIn y m)) else none
  | "year.len", [y] => some <|
      if 1 ≤ y ∧ y ≤ 9999 then some s!"{Civil.daysInYear y} {b01 (Civil.leap y)}" else none
  | _, _ => none


def enumC01Grid (out : IO.FS.Stream) : IO Unit := do
  forRange (-1) 10000 fun y => do
    let mut buf := ""
    for mi in [0:14] do
      let m : Int := mi
      let mut mask : Nat := 0
      for di in [0:33] do
        if solarDayOk y m (di : Int) then mask := mask ||| (1 <<< di)
      buf := buf ++ s!"{y} {m} {mask}\n"
    out.putStr buf

/-- K stream (model): every accepted day with jdn, week, index, back conversion -/
def enumC01Days (out : IO.FS.Stream) : IO Unit := do
  forRange 1 9999 fun y => do
    let mut buf := ""
    let j0 := jdn y 1 1
    for mi in [1:13] do
      let m : Int := mi
      for di in [1:32] do
        let d : Int := di
        if solarDayOk y m d then
          let j := jdn y m d
          let b := ofJdn j
          let x : Int × Int × Int := (y, m, d)
          let n := ofJdn (j + 1)
          let ord := if y = 9999 ∧ m = 12 ∧ d = 31 then "-" else
            s!"{b01 (dayBefore x n)}{b01 (dayAfter x n)}{b01 (dayBefore n x)}{b01 (dayAfter n x)}{b01 (dayBefore x x)}{b01 (dayAfter x x)}"
          buf := buf ++ s!"{y} {m} {d} {j} {weekOfJdn j} {j - j0} {fmt3 b} 1 {ord}\n"
    out.putStr buf

/-- S stream (spec): the same lines produced from the specification alone:
walk `Civil.next` from 0001-01-01, day number = 1721424 + ordinal, weekday advances by one from
the anchor (0001-01-01 was a Saturday = index 6), index restarts each January 1, back = identity. -/
def enumC01DaysSpec (out : IO.FS.Stream) : IO Unit := do
  let mut x : Int × Int × Int := (1, 1, 1)
  let mut j : Int := 1721424
  let mut w : Int := 6
  let mut idx : Int := 0
  let mut buf := ""
  let mut cnt : Nat := 0
  while Civil.valid x.1 x.2.1 x.2.2 do
    let last := x.1 == 9999 && x.2.1 == 12 && x.2.2 == 31
    buf := buf ++ s!"{x.1} {x.2.1} {x.2.2} {j} {w} {idx} {fmt3 x} 1 {if last then "-" else "100100"}\n"
    cnt := cnt + 1
    if cnt % 4096 == 0 then
      out.putStr buf
      buf := ""
    let n := Civil.next x.1 x.2.1 x.2.2
    idx := if n.1 != x.1 then 0 else idx + 1
    x := n
    j := j + 1
    w := (w + 1) % 7
  out.putStr buf

def enumC01Lens (spec : Bool) (out : IO.FS.Stream) : IO Unit := do
  forRange 1 9999 fun y => do
    let mut s := if spec then s!"{y} {Civil.daysInYear y} {b01 (Civil.leap y)}" else s!"{y} {yearLen y} {b01 (isLeap y)}"
    for mi in [1:13] do
      s := s ++ s!" {if spec then Civil.daysIn y mi else monthLen y mi}"
    out.putStrLn s

def enumC01GridSpec (out : IO.FS.Stream) : IO Unit := do
  forRange (-1) 10000 fun y => do
    let mut buf := ""
    for mi in [0:14] do
      let m : Int := mi
      let mut mask : Nat := 0
      for di in [0:33] do
        if Civil.valid y m (di : Int) then mask := mask ||| (1 <<< di)
      buf := buf ++ s!"{y} {m} {mask}\n"
    out.putStr buf

/-- `none` = stream not mine -/
def runEnum (name : String) (_args : List String) (out : IO.FS.Stream) : Option (IO Unit) :=
  match name with
  | "c01.grid" => some (enumC01Grid out)
  | "c01.grid.spec" => some (enumC01GridSpec out)
  | "c01.days" => some (enumC01Days out)
  | "c01.days.spec" => some (enumC01DaysSpec out)
  | "c01.lens" => some (enumC01Lens false out)
  | "c01.lens.spec" => some (enumC01Lens true out)
  | _ => none

end Tyme.Driver.P01
