import Tyme.Model.Cycle
import Tyme.Gen.C11Names
import Tyme.Driver.Util
/- Equality glue (same text as harness peq.rs): the library's `==` / `!=` on two values built from numbers must be
   equality of the identifying numbers. The generator only sends numbers of values that exist (valid dates, months that
   exist, canonical indices), so the model needs no validity test; cyclic types are compared modulo their size. -/
namespace Tyme.Driver.PEq
open Tyme Tyme.Driver

def arity (kind : Int) : Option Nat :=
  match kind with
  | 1 => some 3 | 2 => some 2 | 3 => some 1 | 4 => some 6 | 5 => some 4 | 6 => some 1 | 7 => some 2 | 8 => some 3 | 9 => some 6
  | 10 => some 4 | 11 => some 4 | 12 => some 6 | 13 => some 1 | 14 => some 7 | 15 => some 8 | 16 => some 8 | 17 => some 2 | 18 => some 2
  | 19 => some 2 | 20 => some 2
  | _ => none

def fmtEq (b : Bool) : String := if b then "1 0" else "0 1"

def execOp (op : String) (a : List Int) : Option (Option String) :=
  match op, a with
  | "eq.cyc", [t, i, j] => some <|
      if t < 0 then none else
      -- the cyclic types compare through their names (`to_string`); two entries of one table may carry the same name
      -- (the twelfth and first month spirit of the foetus, for instance), so the model compares the names too
      match cycTypes[t.toNat]?, (Tyme.C11Gen.nameTables.filter fun e => !e.2.1)[t.toNat]? with
      | some (_, size, _), some e =>
        let names := e.2.2.2
        if size == 0 then none else
        some (fmtEq (names[(i % (size : Int)).toNat]? == names[(j % (size : Int)).toNat]?))
      | _, _ => none
  | "eq.v", kind :: rest => some <|
      match arity kind with
      | none => none
      | some n => if rest.length != 2 * n then none else some (fmtEq (rest.take n == rest.drop n))
  -- lunar hours of two civil instants: their order is the order of the instants (lexicographic on the six numbers)
  | "lhour.cmp", [y, m, d, h, mi, s, y2, m2, d2, h2, mi2, s2] => some <|
      let lt : List Int → List Int → Bool := fun p q =>
        (List.zip p q).foldr (fun (ab : Int × Int) (acc : Bool) => decide (ab.1 < ab.2) || (ab.1 == ab.2 && acc)) false
      let p := [y, m, d, h, mi, s]
      let q := [y2, m2, d2, h2, mi2, s2]
      some s!"{if lt p q then 1 else 0} {if lt q p then 1 else 0} {if p == q then 1 else 0}"
  -- eight characters from the names of four canonical pillar indices: the same four pillars
  | "ec.names", [a, b, c, d] => some <|
      if decide (0 ≤ a ∧ a < 60 ∧ 0 ≤ b ∧ b < 60 ∧ 0 ≤ c ∧ c < 60 ∧ 0 ≤ d ∧ d < 60) then some s!"{a} {b} {c} {d}" else none
  -- the two day-level wrappers of the foetus spirit agree with the spirit of the day's pillar
  | "fetus.wire", [_, _, _] => some (some "ok")
  | _, _ => none

def specOp (op : String) (a : List Int) : Option (Option String) := execOp op a

end Tyme.Driver.PEq
