import Tyme.Model.Containers
import Tyme.Model.RealEph
import Tyme.Spec.Containers
import Tyme.Driver.Util
import Tyme.Driver.P06
import Tyme.Driver.P07
import Tyme.Driver.P12
/- C13 driver part: list-returning accessors (same text as harness p13.rs). -/
namespace Tyme.Driver.P13
open Tyme Tyme.Driver Tyme.Cont

def E : Eph := fastEph

def yearSelected (y : Int) (args : List String) : Bool :=
  args.head? == some "all" || y ≤ 60 || y % 25 == 0 || y ≥ 9997 || (1575 ≤ y && y ≤ 1590) || (230 ≤ y && y ≤ 245)

def pairsS (l : List (Int × Int)) : String :=
  l.foldl (fun s p => s ++ s!" {p.1} {p.2}") (toString l.length)

def dot3 (x : Int × Int × Int) : String := s!"{x.1}.{x.2.1}.{x.2.2}"

def daysS (l : List (Int × Int × Int)) : String :=
  l.foldl (fun s d => s ++ " " ++ dot3 d) (toString l.length)

def monthIdS (x : Lunar.Month) : String := s!"{x.y} {Lunar.monthWithLeap E x} {x.idx}"

def lhoursS (l : List LHour) : String :=
  l.foldl (fun s h => s ++ s!" | {h.month.y} {Lunar.monthWithLeap E h.month} {h.day} {h.h} {h.mi} {h.s} {h.indexInDay}") (toString l.length)

def schoursS (l : List (Time × SC.HourView)) : String :=
  l.foldl (fun s p => s ++ s!" | {fmt3 p.1.day} {p.1.h} {p.1.mi} {p.1.s} {p.2.year} {p.2.month} {if p.1.h = 23 then 0 else (p.1.h + 1) / 2}") (toString l.length)

def schourpS (l : List (Time × SC.HourView)) : String :=
  l.foldl (fun s p => s ++ s!" | {p.2.day} {p.2.hour}") (toString l.length)

def scmIdS (x : SCMonth) : String := s!"{x.year} {x.pillar} {scmIndexInYear x.pillar}"

/-! ### model side -/

def mYearLine (y : Int) : Option String := do
  if !yearOk y then none
  let ms ← yearMonths y
  let ss ← yearSeasons y
  let hs ← yearHalves y
  pure s!"{yearLen y} | {pairsS ms} | {pairsS ss} | {pairsS hs}"

def mHalfLine (y i : Int) : Option String := do
  let ms ← halfMonths y i
  let ss ← halfSeasons y i
  pure s!"{pairsS ms} | {pairsS ss}"

/-- tokens `d:idx` (or `y.m.d:idx` when the listed day is not in the container's year/month) -/
def dayTok (y m : Int) (d : Int × Int × Int) (idx : Int) : String :=
  if d.1 = y ∧ d.2.1 = m then s!"{d.2.2}:{idx}" else s!"{dot3 d}:{idx}"

def mMonthLine (y m : Int) : Option String := do
  let s ← monthSeason y m
  let l ← monthDays y m
  let toks := l.foldl (fun acc d => acc ++ " " ++ dayTok y m d (dayIndexInYear d)) ""
  pure s!"{s.1} {s.2} | {monthLen y m} {l.length} |{toks}"

def mLunarYear (y : Int) : Option String := do
  let l ← lunarYearMonths E y
  pure (l.foldl (fun s x => s ++ " | " ++ monthIdS x) s!"{E.cnt y} {l.length}")

def ldayTok (y m : Int) (d : Lunar.Month × Int) : String :=
  if d.1.y = y ∧ Lunar.monthWithLeap E d.1 = m then toString d.2 else s!"{d.1.y}.{Lunar.monthWithLeap E d.1}.{d.2}"

def mLunarMonth (y m : Int) (full : Bool) : Option String := do
  let x ← Lunar.fromYm E y m
  let l ← lunarMonthDays E x
  if full then
    pure (l.foldl (fun s d => s ++ s!" {d.1.y}.{Lunar.monthWithLeap E d.1}.{d.2}") s!"{Lunar.len E x} {l.length}")
  else
    pure (l.foldl (fun s d => s ++ " " ++ ldayTok y m d) s!"{Lunar.len E x} {l.length} |")

def mScdHours (y m d : Int) : Option String :=
  if !solarDayOk y m d then none else (scdHours E y m d).map schoursS

def mLunarHoursOfSolar (y m d : Int) : Option String := do
  if !solarDayOk y m d then none
  let (x, k) ← Lunar.ofSolar E y m d
  let l ← lunarDayHours E x k
  pure s!"{x.y} {Lunar.monthWithLeap E x} {k} | {lhoursS l}"

def mScmDays (y idx : Int) : Option String := do
  let x ← scmFromIndex y idx
  let l ← scmDays E x
  pure s!"{scmIdS x} | {daysS l}"

def mScyMonths (y : Int) : Option String := do
  let l ← scyMonths y
  pure (l.foldl (fun s x => s ++ " | " ++ scmIdS x) (toString l.length))

def execOp (op : String) (a : List Int) : Option (Option String) :=
  match op, a with
  | "sy.months", [y] => some <| (yearMonths y).map pairsS
  | "sy.seasons", [y] => some <| (yearSeasons y).map pairsS
  | "sy.halves", [y] => some <| (yearHalves y).map pairsS
  | "sh.months", [y, i] => some <| (halfMonths y i).map pairsS
  | "sh.seasons", [y, i] => some <| (halfSeasons y i).map pairsS
  | "ss.months", [y, i] => some <| (seasonMonths y i).map pairsS
  | "sm.season", [y, m] => some <| (monthSeason y m).map fun s => s!"{s.1} {s.2}"
  | "sm.days", [y, m] => some <| (monthDays y m).map fun l => s!"{monthLen y m} {daysS l}"
  | "ly.months", [y] => some <| mLunarYear y
  | "lm.days", [y, m] => some <| mLunarMonth y m true
  | "ld.hours", [y, m, d] => some <| do
      let (x, k) ← Lunar.dayNew E y m d
      let l ← lunarDayHours E x k
      pure (lhoursS l)
  | "scd.hours", [y, m, d] => some <| mScdHours y m d
  | "scd.hourp", [y, m, d] => some <| if !solarDayOk y m d then none else (scdHours E y m d).map schourpS
  | "scm.days", [y, i] => some <| mScmDays y i
  | "scy.months", [y] => some <| mScyMonths y
  | _, _ => none

/-! ### spec side (independent definitions: Spec/Containers.lean, the civil ordinal, the term table by binary search) -/

def sYearLine (y : Int) : Option String :=
  if !Civil.yearOk y then none else
  some s!"{Civil.daysInYear y} | {pairsS (Civil.monthsOfYear y)} | {pairsS (Civil.seasonsOfYear y)} | {pairsS (Civil.halvesOfYear y)}"

def sHalfLine (y i : Int) : Option String :=
  if !(Civil.yearOk y && decide (0 ≤ i ∧ i ≤ 1)) then none else
  some s!"{pairsS (Civil.monthsOfHalf y i)} | {pairsS (Civil.seasonsOfHalf y i)}"

def sSeasonLine (y i : Int) : Option String :=
  if !(Civil.yearOk y && decide (0 ≤ i ∧ i ≤ 3)) then none else some (pairsS (Civil.monthsOfSeason y i))

/-- the season that contains the month, found by membership -/
def sSeasonOf (m : Int) : Option Int := (Civil.below 4).find? fun s => Civil.inSeason m s

/-- `before` = number of days of the year in earlier months: day-of-year of a listed day = before + position -/
def sMonthLine (y m : Int) (before : Int) : Option String :=
  if !(Civil.yearOk y && decide (1 ≤ m ∧ m ≤ 12)) then none else do
  let s ← sSeasonOf m
  let l := Civil.datesOfMonth y m
  let toks := (l.foldl (fun (acc : String × Int) d => (acc.1 ++ " " ++ dayTok y m d acc.2, acc.2 + 1)) ("", before)).1
  pure s!"{y} {s} | {Civil.daysIn y m} {l.length} |{toks}"

/-- month numbering along the listing: 1, 2, …, the leap month directly after its twin -/
def sMonthNo (leap : Nat) (i : Nat) : Int :=
  if leap = 0 ∨ i < leap then (i : Int) + 1 else if i = leap then -(leap : Int) else (i : Int)

def sLunarYear (y : Int) : Option String :=
  if y < 0 ∨ y > 9999 then none else
  let n := if E.leap y > 0 then 13 else 12
  some ((List.range n).foldl (fun s i => s ++ s!" | {y} {sMonthNo (E.leap y) i} {i}") s!"{n} {n}")

/-- position of signed month m in the listing of year y -/
def sPosOf (y m : Int) : Option Nat :=
  let n := if E.leap y > 0 then 13 else 12
  (List.range n).find? fun i => sMonthNo (E.leap y) i == m

def sLunarMonth (y m : Int) (full : Bool) : Option String :=
  if y < 0 ∨ y > 9999 then none else do
  let i ← sPosOf y m
  let len := E.mLen y i
  let ds := Civil.upTo len.toNat
  if full then pure (ds.foldl (fun s d => s ++ s!" {y}.{m}.{d}") s!"{len} {ds.length}")
  else pure (ds.foldl (fun s d => s ++ s!" {d}") s!"{len} {ds.length} |")

/-- the instant with ordinal second `sec`, its year pillar and month pillar: the year turns at the Lichun instant,
the month at each Jie instant (Five Tigers) -/
def sPillars (sec : Int) : Option String := do
  let t ← P12.specOfOrd sec
  let Y := t.day.1
  let abs := 86400 * 1721424 + sec
  let gL : Int → Int := fun y => 24 * (y - 1) + 3
  if gL Y < 0 then none
  if E.termDay (gL Y).toNat = 0 then none
  let lichun := E.termSec (gL Y).toNat
  let ystar := if abs ≥ lichun then Y else Y - 1
  let yp := (ystar - 4) % 60
  let g ← P06.specLatest E.termSec abs
  let k := ((g : Int) - gL ystar) / 2
  let branch := (2 + k) % 12
  let stem := ((yp % 10 + 1) * 2 + k) % 10
  pure s!"{fmt3 t.day} {t.h} {t.mi} {t.s} {yp} {P07.crt stem branch}"

/-- the civil day has a sexagenary day: Lichun of its civil year and a term on or before the day are representable -/
def sDayOk (d : Int × Int × Int) : Option Unit :=
  let gL := 24 * (d.1 - 1) + 3
  if gL < 0 then none
  else if E.termDay gL.toNat = 0 then none
  else (P06.specLatest E.termDay (1721424 + P12.dayOrd d)).map fun _ => ()

/-- the 12 double hours of the sexagenary day of civil date (y, m, d): slot k starts 3600 s before midnight + 7200·k;
the date itself must have a sexagenary day (its term and Lichun must be representable) -/
def sScdHours (y m d : Int) : Option String :=
  if !Civil.valid y m d then none else do
  let o := P12.dayOrd (y, m, d)
  let _ ← sDayOk (y, m, d)
  let parts ← (List.range 12).mapM fun (k : Nat) => (sPillars (86400 * o - 3600 + 7200 * (k : Int))).map fun p => s!"{p} {k}"
  pure (parts.foldl (fun s p => s ++ " | " ++ p) "12")

/-- the lunar date of the civil day is C02's business (taken from the model); C13's spec only says which 13 hours
belong to that lunar day -/
def sLunarHoursOfSolar (y m d : Int) : Option String :=
  if !Civil.valid y m d then none else
  (Lunar.ofSolar E y m d).map fun r =>
    let ly := r.1.y
    let lm := Lunar.monthWithLeap E r.1
    let ld := r.2
    Civil.slotStarts.foldl (fun s h => s ++ s!" | {ly} {lm} {ld} {h} 0 0 {(h + 1) / 2}") s!"{ly} {lm} {ld} | {Civil.slotStarts.length}"

def sLunarHours (y m d : Int) : Option String :=
  if y < 0 ∨ y > 9999 then none else do
  let i ← sPosOf y m
  if d < 1 ∨ d > E.mLen y i then none
  pure (Civil.slotStarts.foldl (fun s h => s ++ s!" | {y} {m} {d} {h} 0 0 {(h + 1) / 2}") (toString Civil.slotStarts.length))

/-- identity of month `idx` of sexagenary year y by floor arithmetic:
year y + ⌊idx/12⌋, branch Yin + idx, stem by Five Tigers -/
def sScmId (y idx : Int) : Option (Int × Int × Int) :=
  if y < -1 ∨ y > 9999 then none else
  let tot := 12 * y + idx
  let y' := tot / 12
  let k := tot % 12
  if y' < -1 ∨ y' > 9999 then none else
  let stem := (((y' - 4) % 60 % 10 + 1) * 2 + k) % 10
  some (y', P07.crt stem ((2 + k) % 12), k)

/-- the days of sexagenary month (y', k): the civil days whose latest term on or before them is Jie g or the Qi after it,
g = 24(y'−1) + 3 + 2k; the day list is delimited by the NEXT Jie, which must be representable too -/
def sScmDays (y idx : Int) : Option String := do
  let (y', p, k) ← sScmId y idx
  let g := 24 * (y' - 1) + 3 + 2 * k
  if g < 1 ∨ g + 2 > 239977 then none
  let j0 := E.termDay g.toNat
  let cand := (List.range 80).map fun (i : Nat) => j0 - 20 + (i : Int)
  let inMonth := cand.filter fun j =>
    match P06.specLatest E.termDay j with
    | some t => t == g.toNat || t == g.toNat + 1
    | none => false
  let days ← inMonth.mapM fun j => P12.dayOfOrd (j - 1721424)
  -- every listed day must itself have a sexagenary day (term and Lichun of its civil year representable)
  let _ ← days.mapM fun d => sDayOk d
  pure s!"{y'} {p} {k} | {daysS days}"

def sScyMonths (y : Int) : Option String :=
  if y < -1 ∨ y > 9999 then none else do
  let ids ← (List.range 12).mapM fun (i : Nat) =>
    let stem := (((y - 4) % 60 % 10 + 1) * 2 + (i : Int)) % 10
    some (y, P07.crt stem ((2 + (i : Int)) % 12), (i : Int))
  pure (ids.foldl (fun s x => s ++ s!" | {x.1} {x.2.1} {x.2.2}") "12")

def specOp (op : String) (a : List Int) : Option (Option String) :=
  match op, a with
  | "sy.months", [y] => some <| if Civil.yearOk y then some (pairsS (Civil.monthsOfYear y)) else none
  | "sy.seasons", [y] => some <| if Civil.yearOk y then some (pairsS (Civil.seasonsOfYear y)) else none
  | "sy.halves", [y] => some <| if Civil.yearOk y then some (pairsS (Civil.halvesOfYear y)) else none
  | "sh.months", [y, i] => some <| if Civil.yearOk y && decide (0 ≤ i ∧ i ≤ 1) then some (pairsS (Civil.monthsOfHalf y i)) else none
  | "sh.seasons", [y, i] => some <| if Civil.yearOk y && decide (0 ≤ i ∧ i ≤ 1) then some (pairsS (Civil.seasonsOfHalf y i)) else none
  | "ss.months", [y, i] => some <| sSeasonLine y i
  | "sm.season", [y, m] => some <| if Civil.yearOk y && decide (1 ≤ m ∧ m ≤ 12) then (sSeasonOf m).map fun s => s!"{y} {s}" else none
  | "sm.days", [y, m] => some <|
      if Civil.yearOk y && decide (1 ≤ m ∧ m ≤ 12) then some s!"{Civil.daysIn y m} {daysS (Civil.datesOfMonth y m)}" else none
  | "ly.months", [y] => some <| sLunarYear y
  | "lm.days", [y, m] => some <| sLunarMonth y m true
  | "ld.hours", [y, m, d] => some <| sLunarHours y m d
  | "scd.hours", [y, m, d] => some <| sScdHours y m d
  | "scm.days", [y, i] => some <| sScmDays y i
  | "scy.months", [y] => some <| sScyMonths y
  | _, _ => none

/-! ### streams -/

def opt (r : Option String) : String := r.getD REFUSED

def enumCivil (spec : Bool) (out : IO.FS.Stream) : IO Unit := do
  forRange 0 10000 fun y => do
    let mut buf := s!"Y {y} {opt (if spec then sYearLine y else mYearLine y)}\n"
    for i in ([0, 1] : List Int) do
      buf := buf ++ s!"H {y} {i} {opt (if spec then sHalfLine y i else mHalfLine y i)}\n"
    for i in ([0, 1, 2, 3] : List Int) do
      buf := buf ++ s!"S {y} {i} {opt (if spec then sSeasonLine y i else (seasonMonths y i).map pairsS)}\n"
    let mut before : Int := 0
    for mi in [1:13] do
      let m : Int := mi
      buf := buf ++ s!"M {y} {m} {opt (if spec then sMonthLine y m before else mMonthLine y m)}\n"
      before := before + Civil.daysIn y m
    out.putStr buf

def enumLunar (spec : Bool) (out : IO.FS.Stream) : IO Unit := do
  forRange (-1) 10000 fun y => do
    let mut buf := s!"LY {y} {opt (if spec then sLunarYear y else mLunarYear y)}\n"
    let leap : Int := if -1 ≤ y ∧ y ≤ 9999 then (E.leap y : Int) else 0
    for mi in [1:13] do
      let m : Int := mi
      for sg in ([1, -1] : List Int) do
        if !(sg < 0 ∧ m ≠ leap) then
          let mm := sg * m
          buf := buf ++ s!"LM {y} {mm} {opt (if spec then sLunarMonth y mm false else mLunarMonth y mm false)}\n"
    out.putStr buf

/-- first two and last two days of the year, first and last day of every month, every day of October 1582 -/
def sampleDays (y : Int) : List (Int × Int × Int) := Id.run do
  let mut v : List (Int × Int × Int) := []
  for mi in [1:13] do
    let m : Int := mi
    let ds := (Civil.upTo 31).filter fun d => solarDayOk y m d
    let n := ds.length
    let mut i := 0
    for d in ds do
      if i == 0 || i + 1 == n || (m == 1 && i == 1) || (m == 12 && i + 2 == n) || (y == 1582 && m == 10) then
        v := (y, m, d) :: v
      i := i + 1
  return v.reverse

def enumHours (spec : Bool) (args : List String) (out : IO.FS.Stream) : IO Unit := do
  forRange 1 9999 fun y => do
    if yearSelected y args then
      let mut buf := ""
      for (yy, m, d) in sampleDays y do
        buf := buf ++ s!"SH {yy} {m} {d} {opt (if spec then sScdHours yy m d else mScdHours yy m d)}\n"
        buf := buf ++ s!"LH {yy} {m} {d} {opt (if spec then sLunarHoursOfSolar yy m d else mLunarHoursOfSolar yy m d)}\n"
      out.putStr buf

def enumHourp (args : List String) (out : IO.FS.Stream) : IO Unit := do
  forRange 1 9999 fun y => do
    if yearSelected y args then
      let mut buf := ""
      for (yy, m, d) in sampleDays y do
        buf := buf ++ s!"SP {yy} {m} {d} {opt ((scdHours E yy m d).map schourpS)}\n"
      out.putStr buf

def enumScm (spec : Bool) (args : List String) (out : IO.FS.Stream) : IO Unit := do
  forRange (-1) 9999 fun y => do
    if yearSelected y args then
      let mut buf := s!"SY {y} {opt (if spec then sScyMonths y else mScyMonths y)}\n"
      for ii in [0:12] do
        let i : Int := ii
        buf := buf ++ s!"SM {y} {i} {opt (if spec then sScmDays y i else mScmDays y i)}\n"
      out.putStr buf

def runEnum (name : String) (args : List String) (out : IO.FS.Stream) : Option (IO Unit) :=
  match name with
  | "c13.civil" => some (enumCivil false out)
  | "c13.civil.spec" => some (enumCivil true out)
  | "c13.lunar" => some (enumLunar false out)
  | "c13.lunar.spec" => some (enumLunar true out)
  | "c13.hours" => some (enumHours false args out)
  | "c13.hours.spec" => some (enumHours true args out)
  | "c13.hourp" => some (enumHourp args out)
  | "c13.scm" => some (enumScm false args out)
  | "c13.scm.spec" => some (enumScm true args out)
  | _ => none

end Tyme.Driver.P13
