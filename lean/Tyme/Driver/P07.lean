import Tyme.Model.SixtyCycle
import Tyme.Model.RealEph
import Tyme.Spec.Civil
import Tyme.Driver.Util
import Tyme.Driver.P06
/- C07 / C08 / C09(hour) driver part (same text as harness p07.rs). -/
namespace Tyme.Driver.P07
open Tyme Tyme.Driver Tyme.SC

def E : Eph := fastEph

def yearSelected := P06.yearSelected

/-- the unique p < 60 with the given stem and branch (spec side: by the Chinese remainder theorem) -/
def crt (s b : Int) : Int := (6 * s - 5 * b) % 60

def specDay (Y M D : Int) : Option String :=
  if !Civil.valid Y M D then none else
  let j := 1721424 + Civil.ord Y M D
  let dp := (j + 49) % 60
  let wk := (j + 1) % 7
  let gL : Int → Int := fun y => 24 * (y - 1) + 3
  if gL Y < 0 then none else
  let lichun := E.termDay (gL Y).toNat
  let ystar := if j ≥ lichun then Y else Y - 1
  let yp := (ystar - 4) % 60
  match P06.specLatest E.termDay j with
  | none => none
  | some g =>
    let k := ((g : Int) - gL ystar) / 2
    let branch := (2 + k) % 12
    let stem := ((yp % 10 + 1) * 2 + k) % 10
    some s!"{yp} {crt stem branch} {dp} {dp} {wk} {wk}"

def specTime (Y M D h mi s : Int) : Option String :=
  if !(Civil.valid Y M D && decide (0 ≤ h ∧ h ≤ 23 ∧ 0 ≤ mi ∧ mi ≤ 59 ∧ 0 ≤ s ∧ s ≤ 59)) then none else
  let j := 1721424 + Civil.ord Y M D
  let sec := 86400 * j + 3600 * h + 60 * mi + s
  let gL : Int → Int := fun y => 24 * (y - 1) + 3
  if gL Y < 0 then none else
  let lichun := E.termSec (gL Y).toNat
  let ystar := if sec ≥ lichun then Y else Y - 1
  let yp := (ystar - 4) % 60
  match P06.specLatest E.termSec sec with
  | none => none
  | some g =>
    let k := ((g : Int) - gL ystar) / 2
    let branch := (2 + k) % 12
    let stem := ((yp % 10 + 1) * 2 + k) % 10
    let dp := (j + 49 + (if h = 23 then 1 else 0)) % 60
    let hb := ((h + 1) / 2) % 12
    let hs := (dp % 10 % 5 * 2 + hb) % 10
    let hp := crt hs hb
    some s!"{yp} {crt stem branch} {dp} {hp} {if h = 23 then 0 else (h + 1) / 2} {hp} {(h + 1) / 2}"

def modelDay (Y M D : Int) : Option String :=
  if !solarDayOk Y M D then none else do
  let v ← ofSolarDay E Y M D
  let (x, k) ← Lunar.ofSolar E Y M D
  let dl ← dayPillar (Lunar.first E x) k
  -- LunarDay::get_week goes through get_solar_day()
  let sd ← Lunar.daySolar E x k
  let j := jdn Y M D
  pure s!"{v.year} {v.month} {v.day} {dl} {weekOfJdn j} {weekOfJdn (jdn sd.1 sd.2.1 sd.2.2)}"

/-- fallback line for a day whose view is refused: lunar-route pillar, weekday, lunar-route weekday, each on its own -/
def modelDayFallback (Y M D : Int) : String :=
  let j := jdn Y M D
  let lp := match Lunar.ofSolar E Y M D with
    | some (x, k) => (match dayPillar (Lunar.first E x) k with | some p => toString p | none => "r")
    | none => "r"
  let wl := match Lunar.ofSolar E Y M D with
    | some (x, k) => (match Lunar.daySolar E x k with | some sd => toString (weekOfJdn (jdn sd.1 sd.2.1 sd.2.2)) | none => "r")
    | none => "r"
  s!"R {lp} {weekOfJdn j} {wl}"

def specDayFallback (Y M D : Int) : String :=
  let j := 1721424 + Civil.ord Y M D
  s!"R {(j + 49) % 60} {(j + 1) % 7} {(j + 1) % 7}"

/-- `SixtyCycleHour::get_sixty_cycle_day().next(n)`: the view of the civil day n days later (nothing of the instant survives) -/
def modelDayNext (Y M D h mi s n : Int) : Option String :=
  if !(solarDayOk Y M D && decide (0 ≤ h ∧ h ≤ 23 ∧ 0 ≤ mi ∧ mi ≤ 59 ∧ 0 ≤ s ∧ s ≤ 59)) then none else do
  let _ ← ofSolarTime E Y M D h mi s
  let d' ← dayNext (Y, M, D) n
  let v ← ofSolarDay E d'.1 d'.2.1 d'.2.2
  pure s!"{fmt3 d'} {v.year} {v.month} {v.day}"

def firstThree (s : String) : String :=
  match s.splitOn " " with
  | a :: b :: c :: _ => s!"{a} {b} {c}"
  | _ => s

def modelTime (Y M D h mi s : Int) : Option String :=
  if !(solarDayOk Y M D && decide (0 ≤ h ∧ h ≤ 23 ∧ 0 ≤ mi ∧ mi ≤ 59 ∧ 0 ≤ s ∧ s ≤ 59)) then none else do
  let v ← ofSolarTime E Y M D h mi s
  pure s!"{v.year} {v.month} {v.day} {v.hour} {if h = 23 then 0 else (h + 1) / 2} {v.hour} {(h + 1) / 2}"

def execOp (op : String) (a : List Int) : Option (Option String) :=
  match op, a with
  | "scd", [y, m, d] => some (modelDay y m d)
  | "sch", [y, m, d, h, mi, s] => some (modelTime y m d h mi s)
  | "sch.daynext", [y, m, d, h, mi, s, n] => some (modelDayNext y m d h mi s n)
  -- the deprecated getters of LunarDay / LunarHour delegate to the sexagenary views (the lunar date must exist too)
  | "scd.dep", [y, m, d] => some <| (modelDay y m d).map fun r =>
      match r.splitOn " " with
      | yp :: mp :: _ :: dl :: _ => s!"{yp} {mp} {dl}"
      | _ => r
  | "sch.dep", [y, m, d, h, mi, s] => some <| (modelTime y m d h mi s).bind fun r =>
      match Lunar.ofSolar E y m d with
      | none => none
      | some _ =>
        match r.splitOn " " with
        | yp :: mp :: dp :: hp :: _ => some s!"{yp} {mp} {dp} {hp}"
        | _ => some r
  | "jd.week", [y, m, d, h, mi, s] => some <|
      if solarDayOk y m d && decide (0 ≤ h ∧ h ≤ 23 ∧ 0 ≤ mi ∧ mi ≤ 59 ∧ 0 ≤ s ∧ s ≤ 59) then some (toString (weekOfJdn (jdn y m d))) else none
  | "jd.weekf", [j, k] => some <| if 1721424 ≤ j ∧ j ≤ 5373484 ∧ 0 ≤ k ∧ k < 86400 then some (toString (weekOfJdn j)) else none
  | _, _ => none

def specOp (op : String) (a : List Int) : Option (Option String) :=
  match op, a with
  | "scd", [y, m, d] => some (specDay y m d)
  | "sch", [y, m, d, h, mi, s] => some (specTime y m d h mi s)
  | "scd.dep", [y, m, d] => some <| (specDay y m d).map fun r =>
      match r.splitOn " " with
      | yp :: mp :: dp :: _ => s!"{yp} {mp} {dp}"
      | _ => r
  | "sch.dep", [y, m, d, h, mi, s] => some <| (specTime y m d h mi s).map fun r =>
      match r.splitOn " " with
      | yp :: mp :: dp :: hp :: _ => s!"{yp} {mp} {dp} {hp}"
      | _ => r
  | "sch.daynext", [y, m, d, h, mi, s, n] => some <|
      if !(Civil.valid y m d && decide (0 ≤ h ∧ h ≤ 23 ∧ 0 ≤ mi ∧ mi ≤ 59 ∧ 0 ≤ s ∧ s ≤ 59)) then none else
      match specTime y m d h mi s with
      | none => none
      | some _ =>
        match Civil.ofOrd (Civil.ord y m d + n) with
        | none => none
        | some d' => (specDay d'.1 d'.2.1 d'.2.2).map fun r => s!"{fmt3 d'} {firstThree r}"
  | "jd.week", [y, m, d, h, mi, s] => some <|
      if Civil.valid y m d && decide (0 ≤ h ∧ h ≤ 23 ∧ 0 ≤ mi ∧ mi ≤ 59 ∧ 0 ≤ s ∧ s ≤ 59) then some (toString ((jdn y m d + 1) % 7)) else none
  | "jd.weekf", [j, k] => some <| if 1721424 ≤ j ∧ j ≤ 5373484 ∧ 0 ≤ k ∧ k < 86400 then some (toString ((j + 1) % 7)) else none
  | _, _ => none

def enumDays (spec : Bool) (args : List String) (out : IO.FS.Stream) : IO Unit := do
  forRange 1 9999 fun y => do
    if yearSelected y args then
      let mut buf := ""
      for mi in [1:13] do
        for di in [1:32] do
          let m : Int := mi
          let d : Int := di
          if solarDayOk y m d then
            let r := if spec then specDay y m d else modelDay y m d
            let fb := if spec then specDayFallback y m d else modelDayFallback y m d
            buf := buf ++ s!"{y} {m} {d} {r.getD fb}\n"
      out.putStr buf

def firstTwo (s : String) : String :=
  match s.splitOn " " with
  | a :: b :: _ => s!"{a} {b}"
  | _ => s

def enumDays8 (spec : Bool) (args : List String) (out : IO.FS.Stream) : IO Unit := do
  forRange 1 9999 fun y => do
    if yearSelected y args then
      let mut buf := ""
      for mi in [1:13] do
        for di in [1:32] do
          let m : Int := mi
          let d : Int := di
          if solarDayOk y m d then
            let r := if spec then specDay y m d else modelDay y m d
            buf := buf ++ s!"{y} {m} {d} {(r.map firstTwo).getD REFUSED}\n"
      out.putStr buf

def enumHours (spec : Bool) (out : IO.FS.Stream) : IO Unit := do
  let mut x : Int × Int × Int := (2024, 1, 1)
  for _ in [0:60] do
    for hi in [0:24] do
      let h : Int := hi
      let r := if spec then specTime x.1 x.2.1 x.2.2 h 30 0 else modelTime x.1 x.2.1 x.2.2 h 30 0
      out.putStrLn s!"{fmt3 x} {h} {r.getD REFUSED}"
    x := Civil.next x.1 x.2.1 x.2.2

def runEnum (name : String) (args : List String) (out : IO.FS.Stream) : Option (IO Unit) :=
  match name with
  | "c07.days" => some (enumDays false args out)
  | "c07.days.spec" => some (enumDays true args out)
  | "c08.days" => some (enumDays8 false args out)
  | "c08.days.spec" => some (enumDays8 true args out)
  | "c09.hours" => some (enumHours false out)
  | "c09.hours.spec" => some (enumHours true out)
  | _ => none

end Tyme.Driver.P07
