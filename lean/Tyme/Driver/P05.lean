import Tyme.Driver.Util
import Tyme.Model.DeltaT
import Tyme.Gen.C05Dt
/- C05 driver part: an INDEPENDENT low-precision solar / lunar theory (Meeus, "Astronomical Algorithms", ch. 25
apparent solar longitude "low accuracy", ch. 49 phases of the Moon) in `Float`, used as an executable oracle only
(supporting, non-proof). Input lines come from the harness streams. -/
namespace Tyme.Driver.P05
open Tyme.Driver

def deg2rad (d : Float) : Float := d * 3.14159265358979323846 / 180.0
def sinD (d : Float) : Float := Float.sin (deg2rad d)
def norm360 (x : Float) : Float := x - 360.0 * Float.floor (x / 360.0)

/-- ΔT in seconds, Espenak & Meeus (2006) polynomial expressions, valid 1900..2150 -/
def deltaT (y : Float) : Float :=
  if y < 1920 then let t := y - 1900; -2.79 + 1.494119 * t - 0.0598939 * t*t + 0.0061966 * t*t*t - 0.000197 * t*t*t*t
  else if y < 1941 then let t := y - 1920; 21.20 + 0.84493 * t - 0.076100 * t*t + 0.0020936 * t*t*t
  else if y < 1961 then let t := y - 1950; 29.07 + 0.407 * t - t*t / 233 + t*t*t / 2547
  else if y < 1986 then let t := y - 1975; 45.45 + 1.067 * t - t*t / 260 - t*t*t / 718
  else if y < 2005 then let t := y - 2000; 63.86 + 0.3345 * t - 0.060374 * t*t + 0.0017275 * t*t*t + 0.000651814 * t*t*t*t + 0.00002373599 * t*t*t*t*t
  else if y < 2050 then let t := y - 2000; 62.92 + 0.32217 * t + 0.005589 * t*t
  else let u := (y - 1820) / 100; -20 + 32 * u*u - 0.5628 * (2150 - y)

/-- apparent geocentric solar longitude (degrees), Meeus ch. 25 low accuracy (0.01°), at dynamical time JDE -/
def sunLon (jde : Float) : Float :=
  let t := (jde - 2451545.0) / 36525.0
  let l0 := 280.46646 + 36000.76983 * t + 0.0003032 * t * t
  let m := 357.52911 + 35999.05029 * t - 0.0001537 * t * t
  let c := (1.914602 - 0.004817 * t - 0.000014 * t * t) * sinD m + (0.019993 - 0.000101 * t) * sinD (2 * m) + 0.000289 * sinD (3 * m)
  let om := 125.04 - 1934.136 * t
  norm360 (l0 + c - 0.00569 - 0.00478 * sinD om)

/-- JDE of the new moon of lunation k (k = 0 near 2000-01-06), Meeus ch. 49 with all periodic terms -/
def newMoonJDE (k : Float) : Float :=
  let t := k / 1236.85
  let t2 := t * t
  let jde0 := 2451550.09766 + 29.530588861 * k + 0.00015437 * t2 - 0.000000150 * t2 * t + 0.00000000073 * t2 * t2
  let e := 1 - 0.002516 * t - 0.0000074 * t2
  let m := 2.5534 + 29.10535670 * k - 0.0000014 * t2 - 0.00000011 * t2 * t
  let mp := 201.5643 + 385.81693528 * k + 0.0107582 * t2 + 0.00001238 * t2 * t - 0.000000058 * t2 * t2
  let f := 160.7108 + 390.67050284 * k - 0.0016118 * t2 - 0.00000227 * t2 * t + 0.000000011 * t2 * t2
  let om := 124.7746 - 1.56375588 * k + 0.0020672 * t2 + 0.00000215 * t2 * t
  let s :=
    -0.40720 * sinD mp + 0.17241 * e * sinD m + 0.01608 * sinD (2 * mp) + 0.01039 * sinD (2 * f)
    + 0.00739 * e * sinD (mp - m) - 0.00514 * e * sinD (mp + m) + 0.00208 * e * e * sinD (2 * m)
    - 0.00111 * sinD (mp - 2 * f) - 0.00057 * sinD (mp + 2 * f) + 0.00056 * e * sinD (2 * mp + m)
    - 0.00042 * sinD (3 * mp) + 0.00042 * e * sinD (m + 2 * f) + 0.00038 * e * sinD (m - 2 * f)
    - 0.00024 * e * sinD (2 * mp - m) - 0.00017 * sinD om - 0.00007 * sinD (mp + 2 * m)
    + 0.00004 * sinD (2 * mp - 2 * f) + 0.00004 * sinD (3 * m) + 0.00003 * sinD (mp + m - 2 * f)
    + 0.00003 * sinD (2 * mp + 2 * f) - 0.00003 * sinD (mp + m + 2 * f) + 0.00003 * sinD (mp - m + 2 * f)
    - 0.00002 * sinD (mp - m - 2 * f) - 0.00002 * sinD (3 * mp + m) + 0.00002 * sinD (4 * mp)
  let a :=
    0.000325 * sinD (299.77 + 0.107408 * k - 0.009173 * t2) + 0.000165 * sinD (251.88 + 0.016321 * k)
    + 0.000164 * sinD (251.83 + 26.651886 * k) + 0.000126 * sinD (349.42 + 36.412478 * k)
    + 0.000110 * sinD (84.66 + 18.206239 * k) + 0.000062 * sinD (141.74 + 53.303771 * k)
    + 0.000060 * sinD (207.14 + 2.453732 * k) + 0.000056 * sinD (154.84 + 7.306860 * k)
    + 0.000047 * sinD (34.52 + 27.261239 * k) + 0.000042 * sinD (207.19 + 0.121824 * k)
    + 0.000040 * sinD (291.34 + 1.844379 * k) + 0.000037 * sinD (161.72 + 24.198154 * k)
    + 0.000035 * sinD (239.56 + 25.513099 * k) + 0.000023 * sinD (331.55 + 3.592518 * k)
  jde0 + s + a

def toFloat (s : String) : Float :=
  match s.toInt? with
  | some i => Float.ofInt i
  | none => 0.0

/-- stdin lines `term y i jdn sod` → `term y i <|Δλ| in micro-degrees>`; `moon y idx jdn sod` → `moon y idx <|Δt| in seconds>` -/
partial def oracleLoop (inp out : IO.FS.Stream) : IO Unit := do
  let line ← inp.getLine
  if line.isEmpty then return ()
  match line.trimAscii.toString.splitOn " " with
  | ["term", y, i, jdn, sod] =>
    let jdUT := toFloat jdn - 0.5 + toFloat sod / 86400.0 - 8.0 / 24.0
    let yr := 2000.0 + (jdUT - 2451545.0) / 365.25
    let jde := jdUT + deltaT yr / 86400.0
    let target := norm360 (270.0 + 15.0 * toFloat i)
    let d0 := norm360 (sunLon jde - target + 180.0) - 180.0
    out.putStrLn s!"term {y} {i} {(Float.abs d0 * 1000000.0).round.toUInt64}"
  | ["moon", y, idx, jdn, sod] =>
    let jdUT := toFloat jdn - 0.5 + toFloat sod / 86400.0 - 8.0 / 24.0
    let k := Float.round ((jdUT - 2451550.09766) / 29.530588861)
    let yr := 2000.0 + (jdUT - 2451545.0) / 365.25
    let jdeLib := jdUT + deltaT yr / 86400.0
    out.putStrLn s!"moon {y} {idx} {(Float.abs (jdeLib - newMoonJDE k) * 86400.0).round.toUInt64}"
  | _ => pure ()
  oracleLoop inp out

/-- exact rational ΔT model on the harness grid: year*1000 -> round(ΔT·10^6) micro-seconds -/
def enumDt (args : List String) (out : IO.FS.Stream) : IO Unit := do
  let n : Int := (args.head?.bind String.toInt?).getD 10000
  for i in [0:(n + 1).toNat] do
    let y1000 : Int := -4000000 + (14000000 / n) * i
    let v := Tyme.DT.dtCalc Tyme.Gen.dtAt y1000
    -- value in 10^-4 s = num/den ; micro-seconds = 100·num/den, rounded half away from zero
    let num := 100 * v.1
    let q := (2 * num.natAbs + v.2.natAbs) / (2 * v.2.natAbs)
    let r : Int := if (num < 0) != (v.2 < 0) then -(q : Int) else q
    out.putStrLn s!"{y1000} {r}"

def execOp (_op : String) (_a : List Int) : Option (Option String) := none
def specOp (_op : String) (_a : List Int) : Option (Option String) := none

def runEnum (name : String) (_args : List String) (out : IO.FS.Stream) : Option (IO Unit) :=
  match name with
  | "c05.oracle" => some (do oracleLoop (← IO.getStdin) out)
  | "c05.dt" => some (enumDt _args out)
  | _ => none

end Tyme.Driver.P05
