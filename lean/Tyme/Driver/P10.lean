import Tyme.Model.Cache
import Tyme.Model.ObjMemo
import Tyme.Model.Containers
import Tyme.Model.Lunar
import Tyme.Model.RealEph
import Tyme.Driver.Util
/- C10 driver part: the memo state machine run over a history file (stateful), same text as the harness
executing the same lines in one process. -/
namespace Tyme.Driver.P10
open Tyme Tyme.Driver Tyme.Cache

def E : Eph := fastEph

/-- the pure answer of `LunarMonth::new(y, m)` as a cache record -/
def pureRec (y m : Int) : Option Rec :=
  (Lunar.fromYm E y m).map fun x =>
    { y := x.y, m := Lunar.monthWithLeap E x, len := Lunar.len E x, idx := x.idx, first := Lunar.first E x }

def fmtRec (r : Rec) : String := s!"{r.y} {r.m} {r.first} {r.len} {r.idx}"

def keyStr (k : Key) : String := String.ofList (k.map fun b => Char.ofNat b)

/-- sorted key set as the hook prints it -/
def keysLine (c : State) : String :=
  let ks := (c.map fun p => keyStr p.1).toArray.qsort (· < ·) |>.toList
  s!"{ks.length} {",".intercalate ks}"

partial def histLoop (inp : IO.FS.Stream) (out : IO.FS.Stream) (c : State) : IO Unit := do
  let line ← inp.getLine
  if line.isEmpty then return ()
  let t := line.trimAscii.toString
  if t == "" then histLoop inp out c else
  match t.splitOn " " |>.filter (· ≠ "") with
  | ["cache.reset"] => out.putStrLn "ok"; histLoop inp out []
  | ["cache.keys"] => out.putStrLn (keysLine c); histLoop inp out c
  | ["lunar.month", ys, ms] =>
    match ys.toInt?, ms.toInt? with
    | some y, some m =>
      let r := step key pureRec c (y, m)
      out.putStrLn ((r.2.map fmtRec).getD REFUSED)
      histLoop inp out r.1
    | _, _ => out.putStrLn "bad-op"; histLoop inp out c
  | _ => out.putStrLn "n/a"; histLoop inp out c

def runHist (args : List String) (out : IO.FS.Stream) : IO Unit := do
  match args with
  | [path] =>
    let h ← IO.FS.Handle.mk path IO.FS.Mode.read
    histLoop (IO.FS.Stream.ofHandle h) out []
  | _ => IO.eprintln "usage: enum c10.hist <file>"

/-! ### per-object memo histories (`c10.objhist`): the same pseudo-random history the harness runs on one LunarHour /
LunarDay value, run on the memo model with abstract views, compared with the memo-free run -/

def xorshift (s : UInt64) : UInt64 :=
  let s := s ^^^ (s <<< 13)
  let s := s ^^^ (s >>> 7)
  s ^^^ (s <<< 17)

def stepsTable : List Int := [1, -1, 2, -2, 3, 5, -5, 6, 11, 12, -12, 13, 40, -700]

/-- the history generator of harness/src/p10.rs (`c10.objhist`), same constants -/
def genOps (nq : Nat) : Nat → UInt64 → List ObjMemo.Op
  | 0, _ => []
  | n + 1, st =>
    let r := xorshift st
    let kind := (r % 10).toNat
    let sel := (r >>> 8).toNat
    let op : ObjMemo.Op :=
      if kind < 5 then .get (sel % nq)
      else if kind < 9 then .next (stepsTable.getD (sel % 14) 0)
      else .clone
    op :: genOps nq n r

/-- model answer: run the memo model (abstract views: view i a = (i, a); stepping adds n) and the memo-free reference -/
def objHist (kind seed len : Int) : String :=
  let st : UInt64 := (UInt64.ofNat seed.toNat) * 0x9E3779B97F4A7C15 ||| 1
  let l := if len < 1 then 1 else if len > 200 then 200 else len.toNat
  let ops := genOps (if kind = 0 then 6 else 5) l st
  let view : Nat → Int → Nat × Int := fun i a => (i, a)
  let stepA : Int → Int → Int := fun a n => a + n
  let a := (ObjMemo.run view stepA (ObjMemo.fresh 0) ops).2
  let b := (ObjMemo.pureRun view stepA 0 ops).2
  if a == b then "ok" else "DIFF (memo model)"

def objHistOp (a : List Int) : Option (Option String) :=
  match a with
  | [kind, seed, len, y, m, d, h, mi, s] =>
    if kind = 0 then some ((Cont.lunarHourNew E y m d h mi s).map fun _ => objHist kind seed len)
    else if kind = 1 then some ((Lunar.dayNew E y m d).map fun _ => objHist kind seed len)
    else some none
  | _ => none

def execOp (op : String) (a : List Int) : Option (Option String) :=
  match op, a with
  | "cache.reset", [] => some (some "ok")
  | "c10.objhist", _ => objHistOp a
  | _, _ => none

/-- spec: the answer of every query is a function of the value's numbers alone, so a history never shows a difference -/
def specOp (op : String) (a : List Int) : Option (Option String) :=
  match op, a with
  | "cache.reset", [] => some (some "ok")
  | "c10.objhist", [kind, _, _, y, m, d, h, mi, s] =>
    if kind = 0 then some ((Cont.lunarHourNew E y m d h mi s).map fun _ => "ok")
    else if kind = 1 then some ((Lunar.dayNew E y m d).map fun _ => "ok")
    else some none
  | _, _ => none

def runEnum (name : String) (args : List String) (out : IO.FS.Stream) : Option (IO Unit) :=
  match name with
  | "c10.hist" => some (runHist args out)
  | _ => none

end Tyme.Driver.P10
