import Tyme.Model.Cache
import Tyme.Model.Lunar
import Tyme.Model.RealEph
import Tyme.Driver.Util
/- C10 driver part: the memo state machine run over a history file (stateful), same text as the harness
executing the same lines in one process. -/
namespace Tyme.Driver.P10
open Tyme Tyme.Driver Tyme.Cache

def E : Eph := fastEph

/-- the pure answer of `LunarMonth::new(y, m)` as a cache record -/
def pureRec (y m : Int) : Option Rec :=
  (Lunar.fromYm E y m).map fun x =>
    { y := x.y, m := Lunar.monthWithLeap E x, len := Lunar.len E x, idx := x.idx, first := Lunar.first E x }

def fmtRec (r : Rec) : String := s!"{r.y} {r.m} {r.first} {r.len} {r.idx}"

def keyStr (k : Key) : String := String.ofList (k.map fun b => Char.ofNat b)

/-- sorted key set as the hook prints it -/
def keysLine (c : State) : String :=
  let ks := (c.map fun p => keyStr p.1).toArray.qsort (· < ·) |>.toList
  s!"{ks.length} {",".intercalate ks}"

partial def histLoop (inp : IO.FS.Stream) (out : IO.FS.Stream) (c : State) : IO Unit := do
  let line ← inp.getLine
  if line.isEmpty then return ()
  let t := line.trimAscii.toString
  if t == "" then histLoop inp out c else
  match t.splitOn " " |>.filter (· ≠ "") with
  | ["cache.reset"] => out.putStrLn "ok"; histLoop inp out []
  | ["cache.keys"] => out.putStrLn (keysLine c); histLoop inp out c
  | ["lunar.month", ys, ms] =>
    match ys.toInt?, ms.toInt? with
    | some y, some m =>
      let r := step key pureRec c (y, m)
      out.putStrLn ((r.2.map fmtRec).getD REFUSED)
      histLoop inp out r.1
    | _, _ => out.putStrLn "bad-op"; histLoop inp out c
  | _ => out.putStrLn "n/a"; histLoop inp out c

def runHist (args : List String) (out : IO.FS.Stream) : IO Unit := do
  match args with
  | [path] =>
    let h ← IO.FS.Handle.mk path IO.FS.Mode.read
    histLoop (IO.FS.Stream.ofHandle h) out []
  | _ => IO.eprintln "usage: enum c10.hist <file>"

def execOp (op : String) (a : List Int) : Option (Option String) :=
  match op, a with
  | "cache.reset", [] => some (some "ok")
  | _, _ => none

def specOp (op : String) (a : List Int) : Option (Option String) :=
  match op, a with
  | "cache.reset", [] => some (some "ok")
  | _, _ => none

def runEnum (name : String) (args : List String) (out : IO.FS.Stream) : Option (IO Unit) :=
  match name with
  | "c10.hist" => some (runHist args out)
  | _ => none

end Tyme.Driver.P10
