import Tyme.Model.Cycle
import Tyme.Model.Units
import Tyme.Model.Jd
import Tyme.Spec.Stepping
import Tyme.Gen.C11Names
import Tyme.Driver.Util
/- C11 driver part: model ops, spec ops, streams (same text as harness/src/p11.rs). -/
namespace Tyme.Driver.P11
open Tyme Tyme.Driver

-- ---------- shared pseudo-random step counts (same LCG as the harness) ----------

def lcg (x : Nat) : Nat := (x * 6364136223846793005 + 1442695040888963407) % 18446744073709551616

def lcgStep (x : Nat) : Int := (((x >>> 23) &&& (2 ^ 41 - 1) : Nat) : Int) - (2 ^ 40 : Int)

def lcgSeq (x : Nat) : Nat → List Int
  | 0 => []
  | k + 1 => let x' := lcg x; lcgStep x' :: lcgSeq x' k

def nset (s : Int) (t i : Nat) : List Int :=
  [0, 1, -1, s, -s, s + 1, -(s + 1), s - 1, -(s - 1), 2 * s, -2 * s, 1000003, -1000003, 2 ^ 40, -(2 ^ 40)]
    ++ lcgSeq (lcg (t * 1000 + i + 12345)) 6

def intRange (lo hi : Int) : List Int := (List.range (hi - lo + 1).toNat).map fun (k : Nat) => lo + (k : Int)

def kset (s : Int) : List Int :=
  intRange (-(2 * s + 2)) (2 * s + 2) ++
    ([1000003, -1000003, 2 ^ 40, -(2 ^ 40), 999999999989, -999999999989] : List Int).flatMap fun k => [k, k + 1]

def linNset (size y i : Int) (salt : Nat) : List Int :=
  let p := size * y + i
  let top := size * 9999 + size - 1
  [0, 1, -1, size, -size, size + 1, -(size + 1), size - 1, -(size - 1), 1000003, -1000003]
    ++ (intRange (-(size + 2)) (size + 2)).flatMap (fun d => [-p + d, size - p + d])
    ++ (intRange (-2) (size + 2)).map (fun d => top - p + d)
    ++ (lcgSeq (lcg (salt + y.toNat * 64 + i.toNat)) 4).map (fun r => Int.tmod r (2 * top))

def gridYears (step : Int) : List Int :=
  let fixed : List Int := [1, 2, 3, 4, 5, 9, 10, 59, 60, 61, 1581, 1582, 1583, 1932, 1933, 1934, 1940, 1941, 1942, 1949, 1950, 1951,
    1978, 1979, 1980, 1984, 1985, 1986, 1999, 2000, 2024, 9995, 9996, 9997, 9998, 9999]
  let st := step.toNat
  let extra : List Int := (List.range ((9999 - 7) / st + 1)).map fun (k : Nat) => (((7 + k * st : Nat)) : Int)
  (intRange 1 9999).filter fun y => fixed.contains y || extra.contains y

def stepArg (args : List String) (dflt : Int) : Int :=
  match args.filterMap (fun a => if a.startsWith "step=" then (a.drop 5).toString.toInt? else none) with
  | k :: _ => if k ≥ 1 then k else dflt
  | [] => dflt

-- ---------- formatting ----------

def fmt2 (x : Int × Int) : String := s!"{x.1} {x.2}"
def optS (o : Option String) : String := o.getD REFUSED
def opt2 (o : Option (Int × Int)) : String := optS (o.map fmt2)
def optI (o : Option Int) : String := optS (o.map toString)

def scFmt (r : Int × Int) : String := s!"{r.1} {r.2} {scIndexInYear r.2}"

/-- SolarTerm results canonicalised to the supported years 1..9999 -/
def termR (r : Int × Int) : Option (Int × Int) := if solarYearOk r.1 then some r else none

def cycAt (t : Int) : Option (String × Nat × Bool) := if t < 0 then none else cycTypes[t.toNat]?

-- ---------- model ops ----------

def lawUnits : List String := ["syear", "half", "season", "month", "sweek", "sday", "stime", "jd", "term", "lyear", "lmonth", "lweek", "lday",
  "lhour", "scyear", "scmonth", "scday", "schour", "sfest", "lfest", "decade", "fortune"]

/-- law ops compare the implementation with itself: the law IS the spec, the expected answer is always `ok` -/
def lawOp (op : String) : Option (Option String) :=
  if (op.startsWith "law." && lawUnits.contains (op.drop 4).toString) then some (some "ok") else none

def genderOk (g : Int) : Bool := g == 0 || g == 1

/-- the birth instant of a fortune only has to be an accepted `SolarTime` (generator keeps it away from the range edges) -/
def birthOk (y m d h mi s : Int) : Bool :=
  solarDayOk y m d && decide (0 ≤ h ∧ h ≤ 23 ∧ 0 ≤ mi ∧ mi ≤ 59 ∧ 0 ≤ s ∧ s ≤ 59)

def execOp (op : String) (a : List Int) : Option (Option String) :=
  match op, a with
  | "cyc.size", [t] => some <| (cycAt t).map fun c => toString c.2.1
  | "cyc.idx", [t, k] => some <| (cycAt t).map fun c => toString (loopFromIndex c.2.1 k)
  | "cyc.next", [t, i, n] => some <| (cycAt t).map fun c => toString (loopNext c.2.1 (loopFromIndex c.2.1 i) n)
  | "syear.next", [y, n] => some <| if solarYearOk y then (yearNext solarYearOk y n).map toString else none
  | "lyear.next", [y, n] => some <| if lunarYearOk y then (yearNext lunarYearOk y n).map toString else none
  | "scyear.next", [y, n] => some <| if lunarYearOk y then (yearNext lunarYearOk y n).map toString else none
  | "half.next", [y, i, n] => some <| if solarYearOk y && decide (0 ≤ i ∧ i ≤ 1) then (halfNext y i n).map fmt2 else none
  | "season.next", [y, i, n] => some <| if solarYearOk y && decide (0 ≤ i ∧ i ≤ 3) then (seasonNext y i n).map fmt2 else none
  | "month.next", [y, m, n] => some <| if solarYearOk y && decide (1 ≤ m ∧ m ≤ 12) then (monthNext y m n).map fmt2 else none
  | "c11.term.idx", [y, i] => some <| (termR (termFromIndex y i)).map fmt2
  | "c11.term.next", [y, i, n] => some <| ((termR (termFromIndex y i)).bind fun x => termR (termNext x.1 x.2 n)).map fmt2
  | "scmonth.idx", [y, k] => some <| (scMonthFromIndex y k).map scFmt
  | "scmonth.next", [y, k, n] => some <| ((scMonthFromIndex y k).bind fun x => scMonthNext x.1 x.2 n).map scFmt
  | "c08.scm", [y, k, n] => some <| ((scMonthFromIndex y k).bind fun x => scMonthNext x.1 x.2 n).map fun r => s!"{r.2}/{scIndexInYear r.2} {r.1}"
  | "c11.sfest.idx", [y, i] => some <| if sfestOk y i then some (fmt2 (y, i)) else none
  | "c11.sfest.next", [y, i, n] => some <| if sfestOk y i then (sfestNext y i n).map fmt2 else none
  | "c11.lfest.next", [y, i, n] => some <| if lfestOk y i then (lfestNext y i n).map fmt2 else none
  | "fortune.next", [y, m, d, h, mi, sec, g, idx, n] => some <|
      if birthOk y m d h mi sec && genderOk g then some (toString (fortuneNext idx n)) else none
  | "decade.next", [y, m, d, h, mi, sec, g, idx, n] => some <|
      if birthOk y m d h mi sec && genderOk g then some (toString (fortuneNext idx n)) else none
  | _, _ => lawOp op

-- ---------- spec ops ----------

/-- spec of the sexagenary month: position 12*year + index-in-year moves by n, the pillar by n round the 60-cycle -/
def scSpecNext (y sc n : Int) : Option (Int × Int) :=
  (Step.lin 12 (fun y _ => lunarYearOk y) y (Step.cyc 12 (sc % 12) (-2)) n).map fun r => (r.1, Step.cyc 60 sc n)

def scFmtSpec (r : Int × Int) : String := s!"{r.1} {r.2} {Step.cyc 12 (r.2 % 12) (-2)}"

/-- spec of the first (寅) month's pillar by the five-tigers rule: stem ((year stem)+1)*2, branch 2; the pillar with
stem s and branch b is 6s - 5b (mod 60) -/
def scFirstSpec (y : Int) : Int := (6 * ((((y - 4) % 10 + 1) * 2) % 10) - 10) % 60

/-- spec of `SixtyCycleMonth::from_index(y, k)`: k months after the first month of sexagenary year y -/
def scSpecAt (y k : Int) : Option (Int × Int) :=
  if lunarYearOk y then scSpecNext y (scFirstSpec y) k else none

/-- spec of `SolarTerm::from_index(y, i)` for any integer i: the term at position 24*y + i, if its year is supported -/
def termSpecAt (y i : Int) : Option (Int × Int) :=
  let r := Step.unitAt 24 (Step.pos 24 y i)
  if solarYearOk r.1 then some r else none

def specOp (op : String) (a : List Int) : Option (Option String) :=
  match op, a with
  | "cyc.idx", [t, k] => some <| (cycAt t).map fun c => toString (Step.cycOf c.2.1 k)
  | "cyc.next", [t, i, n] => some <| (cycAt t).map fun c => toString (Step.cyc c.2.1 (Step.cycOf c.2.1 i) n)
  | "syear.next", [y, n] => some <| if solarYearOk y then (Step.year solarYearOk y n).map toString else none
  | "lyear.next", [y, n] => some <| if lunarYearOk y then (Step.year lunarYearOk y n).map toString else none
  | "scyear.next", [y, n] => some <| if lunarYearOk y then (Step.year lunarYearOk y n).map toString else none
  | "half.next", [y, i, n] => some <| if solarYearOk y && decide (0 ≤ i ∧ i ≤ 1) then (Step.lin 2 solarPartOk y i n).map fmt2 else none
  | "season.next", [y, i, n] => some <| if solarYearOk y && decide (0 ≤ i ∧ i ≤ 3) then (Step.lin 4 solarPartOk y i n).map fmt2 else none
  | "month.next", [y, m, n] => some <|
      if solarYearOk y && decide (1 ≤ m ∧ m ≤ 12) then (Step.lin 12 solarPartOk y (m - 1) n).map fun r => fmt2 (r.1, r.2 + 1) else none
  | "c11.term.idx", [y, i] => some <| (termSpecAt y i).map fmt2
  | "c11.term.next", [y, i, n] => some <| ((termSpecAt y i).bind fun x => Step.lin 24 solarPartOk x.1 x.2 n).map fmt2
  | "scmonth.idx", [y, k] => some <| (scSpecAt y k).map scFmtSpec
  | "scmonth.next", [y, k, n] => some <| ((scSpecAt y k).bind fun x => scSpecNext x.1 x.2 n).map scFmtSpec
  | "c08.scm", [y, k, n] => some <| ((scSpecAt y k).bind fun x => scSpecNext x.1 x.2 n).map fun r => s!"{r.2}/{Step.cyc 12 (r.2 % 12) (-2)} {r.1}"
  | "c11.sfest.idx", [y, i] => some <| if sfestOk y i then some (fmt2 (y, i)) else none
  | "c11.sfest.next", [y, i, n] => some <| if sfestOk y i then (Step.lin 10 sfestOk y i n).map fmt2 else none
  | "c11.lfest.next", [y, i, n] => some <| if lfestOk y i then (Step.lin 13 lfestOk y i n).map fmt2 else none
  | "fortune.next", [y, m, d, h, mi, sec, g, idx, n] => some <|
      if birthOk y m d h mi sec && genderOk g then some (toString (idx + n)) else none
  | "decade.next", [y, m, d, h, mi, sec, g, idx, n] => some <|
      if birthOk y m d h mi sec && genderOk g then some (toString (idx + n)) else none
  | _, _ => lawOp op

-- ---------- streams ----------

def putLines (out : IO.FS.Stream) (ls : List String) : IO Unit :=
  out.putStr (String.join (ls.map fun l => l ++ "\n"))

def enumCyc (spec : Bool) (out : IO.FS.Stream) : IO Unit := do
  let mut t : Nat := 0
  for c in cycTypes do
    let id := c.1
    let sz := c.2.1
    let s : Int := sz
    let mut buf := s!"{id} size {sz}\n"
    for k in kset s do
      let r := if spec then Step.cycOf sz k else loopFromIndex sz k
      buf := buf ++ s!"{id} idx {k} {r}\n"
    for i in [0:sz] do
      for n in nset s t i do
        let r := if spec then Step.cyc sz i n else loopNext sz i n
        buf := buf ++ s!"{id} next {i} {n} {r}\n"
    out.putStr buf
    t := t + 1

def bogus (first : List Nat) (k : Nat) : List Nat :=
  match k with
  | 0 => []
  | 1 => [63]
  | 2 => first ++ [63]
  | 3 => 63 :: first
  | _ => first ++ first

/-- byte length of the UTF-8 character that starts with byte b -/
def utf8Len (b : Nat) : Nat := if b < 128 then 1 else if b < 224 then 2 else if b < 240 then 3 else 4

/-- number of characters of a UTF-8 byte string -/
def utf8Count : Nat → List Nat → Nat
  | 0, _ => 0
  | _, [] => 0
  | f+1, b :: bs => 1 + utf8Count f (bs.drop (utf8Len b - 1))

/-- first character of name i + the rest of name j (i ≠ j, both at least two characters, tables up to 64 names) -/
def recombinations (names : List (List Nat)) : List (Nat × Nat × List Nat) :=
  if names.length > 64 then [] else
  (List.range names.length).flatMap fun i => (List.range names.length).filterMap fun j =>
    if i = j then none else
    let a := names.getD i []
    let b := names.getD j []
    if utf8Count a.length a < 2 ∨ utf8Count b.length b < 2 then none else
    some (i, j, a.take (utf8Len (a.headD 0)) ++ b.drop (utf8Len (b.headD 0)))

/-- index <-> name: model = first match in the re-extracted name list; spec = the identity / refusal -/
def enumNames (spec : Bool) (out : IO.FS.Stream) : IO Unit := do
  for e in C11Gen.nameTables do
    let id := e.1
    let isEnum := e.2.1
    let hasFromName := e.2.2.1
    let names := e.2.2.2
    if hasFromName then
      let mut buf := ""
      let mut i : Nat := 0
      for nm in names do
        let r := if spec then toString i else optS ((fromName names nm).map toString)
        buf := buf ++ s!"{id} name {i} {r}\n"
        i := i + 1
      if isEnum then buf := buf ++ s!"{id} code {names.length} refused\n"
      for k in [0:5] do
        let r := if spec then REFUSED else optS ((fromName names (bogus (names.headD []) k)).map toString)
        buf := buf ++ s!"{id} unknown {k} {r}\n"
      for (ri, rj, probe) in recombinations names do
        -- model and spec: the probe is a name exactly when it occurs in the table (first occurrence)
        buf := buf ++ s!"{id} recomb {ri} {rj} {optS ((fromName names probe).map toString)}\n"
      out.putStr buf

def enumUnits (spec : Bool) (args : List String) (out : IO.FS.Stream) : IO Unit := do
  for y in gridYears (stepArg args 97) do
    let mut buf := ""
    for i in intRange 0 1 do
      for n in linNset 2 y i 1 do
        buf := buf ++ s!"half {y} {i} {n} {opt2 (if spec then Step.lin 2 solarPartOk y i n else halfNext y i n)}\n"
    for i in intRange 0 3 do
      for n in linNset 4 y i 2 do
        buf := buf ++ s!"season {y} {i} {n} {opt2 (if spec then Step.lin 4 solarPartOk y i n else seasonNext y i n)}\n"
    for i in intRange 0 11 do
      for n in linNset 12 y i 3 do
        let r := if spec then (Step.lin 12 solarPartOk y i n).map (fun r => (r.1, r.2 + 1)) else monthNext y (i + 1) n
        buf := buf ++ s!"month {y} {i + 1} {n} {opt2 r}\n"
    for n in linNset 1 y 0 4 do
      buf := buf ++ s!"syear {y} {n} {optI (if spec then Step.year solarYearOk y n else yearNext solarYearOk y n)}\n"
      buf := buf ++ s!"lyear {y} {n} {optI (if spec then Step.year lunarYearOk y n else yearNext lunarYearOk y n)}\n"
      buf := buf ++ s!"scyear {y} {n} {optI (if spec then Step.year lunarYearOk y n else yearNext lunarYearOk y n)}\n"
    out.putStr buf

def enumUnits2 (spec : Bool) (args : List String) (out : IO.FS.Stream) : IO Unit := do
  for y in gridYears (stepArg args 97) do
    let mut buf := ""
    for i in intRange 0 23 do
      let mut k : Nat := 0
      for n in linNset 24 y i 6 do
        if !(k % 3 != 0 && n.natAbs > 30 && (24 * y + i + n).natAbs > 60) then
          let r := if spec then Step.lin 24 solarPartOk y i n else termR (termNext y i n)
          buf := buf ++ s!"term {y} {i} {n} {opt2 r}\n"
        k := k + 1
    for i in intRange 0 11 do
      for n in linNset 12 y i 7 do
        let r := if spec then ((scSpecAt y i).bind fun x => scSpecNext x.1 x.2 n).map scFmtSpec
                 else ((scMonthFromIndex y i).bind fun x => scMonthNext x.1 x.2 n).map scFmt
        buf := buf ++ s!"scmonth {y} {i} {n} {optS r}\n"
    out.putStr buf
  let mut buf := ""
  for y in ([-1, 0] : List Int) do
    for i in intRange 0 11 do
      for n in intRange (-40) 40 do
        let r := if spec then ((scSpecAt y i).bind fun x => scSpecNext x.1 x.2 n).map scFmtSpec
                 else ((scMonthFromIndex y i).bind fun x => scMonthNext x.1 x.2 n).map scFmt
        buf := buf ++ s!"scmonth {y} {i} {n} {optS r}\n"
  out.putStr buf

/-- `SolarTerm::from_index` with an index outside 0..23, canonicalised to the supported years -/
def enumTermIdx (spec : Bool) (out : IO.FS.Stream) : IO Unit := do
  let mut buf := ""
  for y in ([-2, -1, 0, 1, 2, 3, 1582, 2024, 9998, 9999, 10000] : List Int) do
    for i in intRange (-60) 60 do
      buf := buf ++ s!"termidx {y} {i} {opt2 (if spec then termSpecAt y i else termR (termFromIndex y i))}\n"
  out.putStr buf

def enumFest (spec : Bool) (args : List String) (out : IO.FS.Stream) : IO Unit := do
  let step := stepArg args 97
  let lall := args.contains "lall"
  let gy := gridYears (step * 4)
  let years := (intRange 1 9999).filter fun y => gy.contains y || (1930 ≤ y && y ≤ 1990)
  for y in years do
    let mut buf := ""
    for i in intRange 0 9 do
      if sfestOk y i then
        buf := buf ++ s!"sfestidx {y} {i} {y} {i}\n"
        let p := 10 * y + i
        for n in ([0, 1, -1, 9, -9, 10, -10, 11, -11, 1000003, -1000003, 19330 + 7 - p, 19330 + 6 - p, 19500 - p, 19499 - p,
            19850 + 8 - p, 19850 + 7 - p, 99999 - p, 100000 - p, -p, -p - 1, 10 - p] : List Int) do
          buf := buf ++ s!"sfest {y} {i} {n} {opt2 (if spec then Step.lin 10 sfestOk y i n else sfestNext y i n)}\n"
      else
        buf := buf ++ s!"sfestidx {y} {i} refused\n"
    out.putStr buf
  let gl := gridYears step
  let ly := (intRange (-2) 10000).filter fun y => y ≤ 0 || y ≥ 9999 || (if lall then y ≤ 9998 else gl.contains y)
  for y in ly do
    let mut buf := ""
    let steps := y ≤ 0 || y ≥ 9999 || gl.contains y
    for i in intRange 0 12 do
      if lfestOk y i then
        buf := buf ++ s!"lfestidx {y} {i} {y} {i}\n"
        if steps then
          let p := 13 * y + i
          for n in ([0, 1, -1, 12, -12, 13, -13, 14, -14, 1000, -1000, -p, -p - 1, -p - 2, -p - 13, -p - 14, -p + 4, -p + 10, 13 - p, 12 - p,
              129999 - p, 129998 - p, 130000 - p, 129986 - p] : List Int) do
            buf := buf ++ s!"lfest {y} {i} {n} {opt2 (if spec then Step.lin 13 lfestOk y i n else lfestNext y i n)}\n"
      else
        buf := buf ++ s!"lfestidx {y} {i} refused\n"
    out.putStr buf

def runEnum (name : String) (args : List String) (out : IO.FS.Stream) : Option (IO Unit) :=
  match name with
  | "c11.cyc" => some (enumCyc false out)
  | "c11.cyc.spec" => some (enumCyc true out)
  | "c11.names" => some (enumNames false out)
  | "c11.names.spec" => some (enumNames true out)
  | "c11.units" => some (enumUnits false args out)
  | "c11.units.spec" => some (enumUnits true args out)
  | "c11.units2" => some (do enumUnits2 false args out; enumTermIdx false out)
  | "c11.units2.spec" => some (do enumUnits2 true args out; enumTermIdx true out)
  | "c11.fest" => some (enumFest false args out)
  | "c11.fest.spec" => some (enumFest true args out)
  | _ => none

end Tyme.Driver.P11
