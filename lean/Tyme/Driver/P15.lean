import Tyme.Model.Series
import Tyme.Model.RealEph
import Tyme.Spec.Civil
import Tyme.Spec.Series
import Tyme.Driver.Util
import Tyme.Driver.P06
/- C15 driver part: term-anchored day series (same text as harness p15.rs). -/
namespace Tyme.Driver.P15
open Tyme Tyme.Driver

def E : Eph := fastEph

def fmtOO (r : Option (Option (Int × Int))) : String :=
  match r with
  | none => REFUSED
  | some none => "-"
  | some (some (k, i)) => s!"{k} {i}"

def fmtO3 (r : Option (Int × Int × Int)) : String :=
  match r with
  | none => REFUSED
  | some (a, b, c) => s!"{a} {b} {c}"

/-! model side -/

def mNine (y m d : Int) : String := fmtOO (Series.nine E y (jdn y m d))
def mDog (y m d : Int) : String := fmtOO (Series.dog E y (jdn y m d))
def mPlum (y m d : Int) : String := fmtOO (Series.plum E y (jdn y m d))
def mPheno (y m d : Int) : String := fmtO3 (Series.pheno E y m d)
def mHide (y m d : Int) : String := fmtO3 (Series.hide E y m d)

def mSeries (y m d : Int) : String := s!"N {mNine y m d} D {mDog y m d} P {mPlum y m d} F {mPheno y m d} H {mHide y m d}"

/-! spec side: day number from the civil ordinal (independent of `jdn`), anchors by binary search over the
re-extracted term table, series by Spec/Series.lean -/

def T (g : Nat) : Int := E.termDay g

/-- latest term of kind r at or before the latest term g -/
def kindLatest (r g : Nat) : Option Nat :=
  if g % 24 ≥ r then some (g - (g % 24 - r)) else if g + r ≥ g % 24 + 24 then some (g + r - g % 24 - 24) else none

/-- the property quantifies over years 2..9998: outside, the spec side repeats the model -/
def inScope (y : Int) : Bool := decide (2 ≤ y ∧ y ≤ 9998)

def sNine (j : Int) (g : Nat) : String :=
  match kindLatest 0 g with
  | none => "-"
  | some a => if T a = 0 then REFUSED else fmtOO (some (SeriesSpec.nineAt (T a) j))

def sDog (j : Int) (g : Nat) : String :=
  match kindLatest 12 g with
  | none => "-"
  | some a => if T a = 0 ∨ T (a + 3) = 0 then REFUSED else fmtOO (some (SeriesSpec.dogAt (T a) (T (a + 3)) j))

def sPlum (j : Int) (g : Nat) : String :=
  match kindLatest 11 g with
  | none => "-"
  | some a => if T a = 0 ∨ T (a + 2) = 0 then REFUSED else fmtOO (some (SeriesSpec.plumAt (T a) (T (a + 2)) j))

def sPheno (j : Int) (g : Nat) : String := fmtO3 (some (SeriesSpec.pentadAt (g % 24) (j - T g)))

def sHide (j : Int) (g : Nat) : String :=
  let q := SeriesSpec.jieOf g
  if T q = 0 then REFUSED else fmtO3 (SeriesSpec.commandAt (SeriesSpec.allotment (q % 24)) 0 (j - T q))

/-- the five series of the day with number j -/
def specPartsJ (j : Int) : String × String × String × String × String :=
  match P06.specLatest E.termDay j with
  | none => (REFUSED, "-", "-", REFUSED, REFUSED)
  | some g => (sNine j g, sDog j g, sPlum j g, sPheno j g, sHide j g)

def specParts (y m d : Int) : Option (String × String × String × String × String) :=
  if !Civil.valid y m d then none else some (specPartsJ (1721424 + Civil.ord y m d))

def fmt5 (r : String × String × String × String × String) : String :=
  s!"N {r.1} D {r.2.1} P {r.2.2.1} F {r.2.2.2.1} H {r.2.2.2.2}"

def sSeries (y m d : Int) : String :=
  if !inScope y then mSeries y m d else
  match specParts y m d with
  | none => REFUSED
  | some r => fmt5 r

def execOp (op : String) (a : List Int) : Option (Option String) :=
  match op, a with
  | "nine", [y, m, d] => some (if solarDayOk y m d then some (mNine y m d) else none)
  | "dog", [y, m, d] => some (if solarDayOk y m d then some (mDog y m d) else none)
  | "plum", [y, m, d] => some (if solarDayOk y m d then some (mPlum y m d) else none)
  | "pheno", [y, m, d] => some (if solarDayOk y m d then (Series.pheno E y m d).map fun r => fmtO3 (some r) else none)
  | "hide", [y, m, d] => some (if solarDayOk y m d then (Series.hide E y m d).map fun r => fmtO3 (some r) else none)
  | "series", [y, m, d] => some (if solarDayOk y m d then some (mSeries y m d) else none)
  | _, _ => none

def specOp (op : String) (a : List Int) : Option (Option String) :=
  match op, a with
  | "series", [y, m, d] => some (if Civil.valid y m d then some (sSeries y m d) else none)
  | "nine", [y, m, d] => some (if inScope y then (specParts y m d).map (·.1) else some "n/a")
  | "dog", [y, m, d] => some (if inScope y then (specParts y m d).map (·.2.1) else some "n/a")
  | "plum", [y, m, d] => some (if inScope y then (specParts y m d).map (·.2.2.1) else some "n/a")
  | "pheno", [y, m, d] => some (if inScope y then (specParts y m d).map (·.2.2.2.1) else some "n/a")
  | "hide", [y, m, d] => some (if inScope y then (specParts y m d).map (·.2.2.2.2) else some "n/a")
  | _, _ => none

/-- the spec stream numbers the days of a year consecutively from the ordinal of its January 1
(1721424 + days since 0001-01-01, by summation of the civil calendar — independent of `jdn`) -/
def enumDays (spec : Bool) (args : List String) (out : IO.FS.Stream) : IO Unit := do
  forRange 1 9999 fun y => do
    if P06.yearSelected y args then
      let mut buf := ""
      let mut j : Int := 1721424 + Civil.ord y 1 1
      for mi in [1:13] do
        for di in [1:32] do
          let m : Int := mi
          let d : Int := di
          if Civil.valid y m d then
            let r := if spec then (if inScope y then fmt5 (specPartsJ j) else mSeries y m d) else mSeries y m d
            buf := buf ++ s!"{y} {m} {d} {r}\n"
            j := j + 1
      out.putStr buf

def runEnum (name : String) (args : List String) (out : IO.FS.Stream) : Option (IO Unit) :=
  match name with
  | "c15.days" => some (enumDays false args out)
  | "c15.days.spec" => some (enumDays true args out)
  | _ => none

end Tyme.Driver.P15
