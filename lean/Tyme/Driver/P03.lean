import Tyme.Model.Lunar
import Tyme.Model.RealEph
import Tyme.Spec.Civil
import Tyme.Driver.Util
/- C02 / C03 driver part: lunar months and solar<->lunar conversion (same text as harness p03.rs). -/
namespace Tyme.Driver.P03
open Tyme Tyme.Driver Tyme.Lunar

def E : Eph := fastEph

def fmtMonth (x : Month) : String :=
  s!"{x.y} {monthWithLeap E x} {first E x} {len E x} {x.idx}"

def yearSelected (y : Int) (args : List String) : Bool :=
  args.head? == some "all" || y ≤ 300 || y % 10 == 0 || y ≥ 9997 || (1575 ≤ y && y ≤ 1590)

/-! ### spec-level flat view: all listed months in order, independent of the model's loops -/

structure Flat where
  ys : Array Int       -- lunar year of position k
  ms : Array Int       -- signed month number
  firsts : Array Int
  lens : Array Int
  yStart : Array Nat   -- position of month 1 of year y (index y, 0..10000)

def mkFlat : Flat := Id.run do
  let mut ys : Array Int := #[]
  let mut ms : Array Int := #[]
  let mut fs : Array Int := #[]
  let mut ls : Array Int := #[]
  let mut st : Array Nat := #[]
  for yi in [0:10000] do
    let y : Int := yi
    st := st.push ys.size
    let lp := E.leap y
    for i in [0:E.cnt y] do
      -- numbering by the rule: months 1..12 in order, the leap month right after its twin
      let m : Int := if lp = 0 ∨ i < lp then (i : Int) + 1 else if i = lp then -(lp : Int) else (i : Int)
      ys := ys.push y; ms := ms.push m
      fs := fs.push (E.mFirst y i); ls := ls.push (E.mLen y i)
  st := st.push ys.size
  return { ys := ys, ms := ms, firsts := fs, lens := ls, yStart := st }

def flat : Flat := mkFlat

def posOf (y m : Int) : Option Nat :=
  if y < 0 ∨ y > 9999 then none else
  let a := flat.yStart.getD y.toNat 0
  let b := flat.yStart.getD (y.toNat + 1) 0
  (List.range (b - a)).findSome? fun i => if flat.ms.getD (a + i) 0 == m then some (a + i) else none

/-- spec: the LAST listed month whose first day is ≤ j (binary search over listing order is not valid at the
reform junctions where firsts are not monotone, so scan a window around the estimate) -/
def specMonthOf (j : Int) : Option Nat := Id.run do
  let n := flat.firsts.size
  if n == 0 then return none
  let f0 := flat.firsts.getD 0 0
  if j < f0 then return none
  let est : Nat := (((j - f0) * 10000) / 295306).toNat
  let lo := if est > 6 then est - 6 else 0
  let hi := min (n - 1) (est + 6)
  let mut best : Option Nat := none
  for k in [lo:hi+1] do
    if flat.firsts.getD k 0 ≤ j then best := some k
  return best

def specOfSolar (Y M D : Int) : Option String :=
  if !Civil.valid Y M D then none else
  let j := 1721424 + Civil.ord Y M D
  match specMonthOf j with
  | none => none
  | some k =>
    let d := j - flat.firsts.getD k 0 + 1
    if d > flat.lens.getD k 0 then none
    else some s!"{flat.ys.getD k 0} {flat.ms.getD k 0} {d}"

def specLunarSolar (y m d : Int) : Option String :=
  match posOf y m with
  | none => none
  | some k =>
    if d < 1 ∨ d > flat.lens.getD k 0 then none
    else (Civil.ofOrd (flat.firsts.getD k 0 + d - 1 - 1721424)).map fmt3

/-- chronological order of lunar dates by the spec: position in the listing, then day -/
def specCmp (a b : Int × Int × Int) : Option (Nat × Int × Nat × Int) := do
  let ka ← posOf a.1 a.2.1
  let kb ← posOf b.1 b.2.1
  if a.2.2 < 1 ∨ a.2.2 > flat.lens.getD ka 0 ∨ b.2.2 < 1 ∨ b.2.2 > flat.lens.getD kb 0 then none
  pure (ka, a.2.2, kb, b.2.2)

def execOp (op : String) (a : List Int) : Option (Option String) :=
  match op, a with
  | "lunar.month", [y, m] => some <| (fromYm E y m).map fmtMonth
  | "lunar.month.new", [y, m] => some <| (fromYm E y m).map fmtMonth
  | "lunar.month.next", [y, m, n] => some <| do
      let x ← fromYm E y m
      let r ← next E x n
      pure (fmtMonth r)
  | "lunar.year", [y] => some <|
      if y < -1 ∨ y > 9999 then none else
      match yearDayCount E y with
      | none => none
      | some dc => some s!"{E.leap y} {E.cnt y} {dc}"
  | "solar.lunar", [y, m, d] => some <|
      if !solarDayOk y m d then none else
      (ofSolar E y m d).map fun r => s!"{r.1.y} {monthWithLeap E r.1} {r.2}"
  | "lunar.solar", [y, m, d] => some <| do
      let r ← dayNew E y m d
      let s ← daySolar E r.1 r.2
      pure (fmt3 s)
  | "lunar.new", [y, m, d] => some <| (dayNew E y m d).map fun _ => "ok"
  | "lunar.before", [y, m, d, y2, m2, d2] => some <| do
      let _ ← dayNew E y m d
      let _ ← dayNew E y2 m2 d2
      pure (b01 (Lunar.dayBefore (y, m, d) (y2, m2, d2)))
  | "lunar.after", [y, m, d, y2, m2, d2] => some <| do
      let _ ← dayNew E y m d
      let _ ← dayNew E y2 m2 d2
      pure (b01 (Lunar.dayAfter (y, m, d) (y2, m2, d2)))
  | "lunar.next", [y, m, d, n] => some <|
      if n = 0 then (dayNew E y m d).map fun r => s!"{r.1.y} {monthWithLeap E r.1} {r.2}" else do
      let r ← dayNew E y m d
      let s ← daySolar E r.1 r.2
      let s2 ← dayNext s n
      let l ← ofSolar E s2.1 s2.2.1 s2.2.2
      pure s!"{l.1.y} {monthWithLeap E l.1} {l.2}"
  | _, _ => none

def specOp (op : String) (a : List Int) : Option (Option String) :=
  match op, a with
  | "lunar.month.next", [y, m, n] => some <| do
      let k ← posOf y m
      let t : Int := (k : Int) + n
      if t < 0 ∨ t ≥ flat.ys.size then none
      let k2 := t.toNat
      pure s!"{flat.ys.getD k2 0} {flat.ms.getD k2 0} {flat.firsts.getD k2 0} {flat.lens.getD k2 0} {k2 - flat.yStart.getD (flat.ys.getD k2 0).toNat 0}"
  | "solar.lunar", [y, m, d] => some <| specOfSolar y m d
  | "lunar.solar", [y, m, d] => some <| specLunarSolar y m d
  | "lunar.before", [y, m, d, y2, m2, d2] => some <| do
      let (ka, da, kb, db) ← specCmp (y, m, d) (y2, m2, d2)
      pure (b01 (decide (ka < kb) || (ka == kb && decide (da < db))))
  | "lunar.after", [y, m, d, y2, m2, d2] => some <| do
      let (ka, da, kb, db) ← specCmp (y, m, d) (y2, m2, d2)
      pure (b01 (decide (ka > kb) || (ka == kb && decide (da > db))))
  | _, _ => none

/-! ### streams -/

def enumGrid (out : IO.FS.Stream) : IO Unit := do
  forRange (-2) 10000 fun y => do
    let mut mask : Nat := 0
    for k in [0:27] do
      let m : Int := (k : Int) - 13
      if (fromYm E y m).isSome then mask := mask ||| (1 <<< k)
    out.putStrLn s!"{y} {mask}"

def enumMonths (out : IO.FS.Stream) : IO Unit := do
  forRange 0 9999 fun y => do
    let mut buf := match yearDayCount E y with
      | some dc => s!"{y} year {E.leap y} {E.cnt y} {dc}\n"
      | none => s!"{y} year refused\n"
    for i in [0:E.cnt y] do
      buf := buf ++ fmtMonth ⟨y, i⟩ ++ "\n"
    out.putStr buf

def nsList : List Int := [0, 1, -1, 2, -2, 12, -12, 13, -13, 25, -25, 37, -37, 130, -130]

def enumNext (spec : Bool) (args : List String) (out : IO.FS.Stream) : IO Unit := do
  forRange 0 9999 fun y => do
    if yearSelected y args then
      let mut buf := ""
      for i in [0:E.cnt y] do
        let x : Month := ⟨y, i⟩
        let mm := monthWithLeap E x
        for n in nsList do
          let r : Option String :=
            if spec then do
              let k ← posOf y mm
              let t : Int := (k : Int) + n
              if t < 0 ∨ t ≥ flat.ys.size then none
              pure s!"{flat.ys.getD t.toNat 0} {flat.ms.getD t.toNat 0}"
            else (next E x n).map fun r => s!"{r.y} {monthWithLeap E r}"
          buf := buf ++ s!"{y} {mm} {n} {r.getD REFUSED}\n"
      out.putStr buf

def enumDays (spec : Bool) (args : List String) (out : IO.FS.Stream) : IO Unit := do
  forRange 1 9999 fun y => do
    if yearSelected y args then
      let mut buf := ""
      for mi in [1:13] do
        for di in [1:32] do
          let m : Int := mi
          let d : Int := di
          if solarDayOk y m d then
            let r : String :=
              if spec then
                match specOfSolar y m d with
                | none => REFUSED
                | some s => s!"{s} {y} {m} {d}"
              else
                match ofSolar E y m d with
                | none => REFUSED
                | some (x, k) =>
                  let back := match daySolar E x k with
                    | none => REFUSED
                    | some s => fmt3 s
                  s!"{x.y} {monthWithLeap E x} {k} {back}"
            buf := buf ++ s!"{y} {m} {d} {r}\n"
      out.putStr buf

def enumLunar (spec : Bool) (args : List String) (out : IO.FS.Stream) : IO Unit := do
  forRange 0 9999 fun y => do
    if yearSelected y args then
      let mut buf := ""
      for i in [0:E.cnt y] do
        let x : Month := ⟨y, i⟩
        let mm := monthWithLeap E x
        for di in [0:32] do
          let d : Int := di
          let r : String :=
            if d < 1 ∨ d > len E x then REFUSED
            else if spec then
              match Civil.ofOrd (first E x + d - 1 - 1721424) with
              | none => REFUSED
              | some s => s!"{fmt3 s} {y} {mm} {d}"
            else
              match daySolar E x d with
              | none => REFUSED
              | some s =>
                let back := match ofSolar E s.1 s.2.1 s.2.2 with
                  | none => REFUSED
                  | some (x2, k2) => s!"{x2.y} {monthWithLeap E x2} {k2}"
                s!"{fmt3 s} {back}"
          if di == 0 || di ≥ 29 || r != REFUSED then buf := buf ++ s!"{y} {mm} {d} {r}\n"
      out.putStr buf

/-- S stream for C03: the listing the rule prescribes, every property flag = 1 -/
def enumTilesSpec (out : IO.FS.Stream) : IO Unit := do
  forRange 0 9998 fun y => do
    let mut buf := ""
    let a := flat.yStart.getD y.toNat 0
    let b := flat.yStart.getD (y.toNat + 1) 0
    for k in [a:b] do
      buf := buf ++ s!"{y} {flat.ms.getD k 0} 1 1 1\n"
    buf := buf ++ s!"{y} year 1 1 1\n"
    out.putStr buf

def runEnum (name : String) (args : List String) (out : IO.FS.Stream) : Option (IO Unit) :=
  match name with
  | "c03.grid" => some (enumGrid out)
  | "c03.months" => some (enumMonths out)
  | "c10.warm" => some (enumMonths out)   -- a second request in one process is answered like the first
  | "c03.tiles.spec" => some (enumTilesSpec out)
  | "c03.next" => some (enumNext false args out)
  | "c03.next.spec" => some (enumNext true args out)
  | "c02.days" => some (enumDays false args out)
  | "c02.days.spec" => some (enumDays true args out)
  | "c02.lunar" => some (enumLunar false args out)
  | "c02.lunar.spec" => some (enumLunar true args out)
  | _ => none

end Tyme.Driver.P03
