import Tyme.Model.Term
import Tyme.Model.RealEph
import Tyme.Spec.Civil
import Tyme.Driver.Util
/- C06 driver part: solar terms (same text as harness p06.rs). -/
namespace Tyme.Driver.P06
open Tyme Tyme.Driver Tyme.Term

def E : Eph := fastEph

/-- `extra=y1,y2,...`: years the check adds to the sample (term instants within seconds of midnight or noon in this run's dump) -/
def extraYear (y : Int) (args : List String) : Bool :=
  args.any fun a => a.startsWith "extra=" && ((a.drop 6).toString.splitOn ",").contains (toString y)

def yearSelected (y : Int) (args : List String) : Bool :=
  args.head? == some "all" || y ≤ 300 || y % 10 == 0 || y ≥ 9997 || (1575 ≤ y && y ≤ 1590) || extraYear y args

def fmtG (g : Nat) : String := let t := ofGidx g; s!"{t.1} {t.2}"

/-- spec: the latest representable term (global index 1..239977) whose day is ≤ j, by binary search -/
def specLatest (key : Nat → Int) (v : Int) : Option Nat := Id.run do
  if v < key 1 then return none
  let mut lo := 1
  let mut hi := 239977
  -- invariant: key lo ≤ v
  while lo < hi do
    let mid := (lo + hi + 1) / 2
    if key mid ≤ v then lo := mid else hi := mid - 1
  return some lo

def specOfDay (Y M D : Int) : Option String :=
  if !Civil.valid Y M D then none else
  let j := 1721424 + Civil.ord Y M D
  match specLatest E.termDay j with
  | none => none
  | some g => some s!"{fmtG g} {j - E.termDay g}"

def timeOk (Y M D h mi s : Int) : Bool :=
  solarDayOk Y M D && decide (0 ≤ h ∧ h ≤ 23 ∧ 0 ≤ mi ∧ mi ≤ 59 ∧ 0 ≤ s ∧ s ≤ 59)

def execOp (op : String) (a : List Int) : Option (Option String) :=
  match op, a with
  | "term.of", [y, m, d] => some <|
      if !solarDayOk y m d then none else (ofDay E y m d).map fun r => s!"{fmtG r.1} {r.2}"
  -- `SolarDay::get_term()`: the term of the day's term day
  | "term.ofd", [y, m, d] => some <|
      if !solarDayOk y m d then none else (ofDay E y m d).map fun r => fmtG r.1
  | "term.oftime", [y, m, d, h, mi, s] => some <|
      if !timeOk y m d h mi s then none else (ofTime E y m d h mi s).map fmtG
  | "term.new", [y, i] => some <|
      let t := fromIndex y i
      some s!"{t.1} {t.2} {b01 (isJie t)} {b01 (isQi t)}"
  -- found again by its name in its own year: the same term
  | "term.byname", [y, i] => some <|
      let t := fromIndex y i
      some s!"{t.1} {t.2} 1"
  | "term.next", [y, i, n] => some <|
      let t := next (fromIndex y i) n
      some s!"{t.1} {t.2}"
  | "term.day", [y, i] => some <|
      let t := fromIndex y i
      let g := gidx t
      if g < 0 ∨ g ≥ 240000 then none else
      let td := E.termDay g.toNat
      if td = 0 then none else
      let r := ofJdn td
      some s!"{fmt3 r} {E.termSod g.toNat}"
  | _, _ => none

def specOp (op : String) (a : List Int) : Option (Option String) :=
  match op, a with
  | "term.of", [y, m, d] => some <| specOfDay y m d
  | "term.ofd", [y, m, d] => some <| (specOfDay y m d).map fun r =>
      match r.splitOn " " with
      | a :: b :: _ => s!"{a} {b}"
      | _ => r
  | "term.oftime", [y, m, d, h, mi, s] => some <|
      if !(Civil.valid y m d && decide (0 ≤ h ∧ h ≤ 23 ∧ 0 ≤ mi ∧ mi ≤ 59 ∧ 0 ≤ s ∧ s ≤ 59)) then none else
      let sec := 86400 * (1721424 + Civil.ord y m d) + 3600 * h + 60 * mi + s
      (specLatest E.termSec sec).map fmtG
  | "term.next", [y, i, n] => some <|
      -- n places later on the global sequence (floor arithmetic), defined when the total is non-negative
      let tot := y * 24 + i + n
      if 0 ≤ i ∧ i < 24 ∧ 0 ≤ tot then some s!"{tot / 24} {tot % 24}" else some "n/a"
  | _, _ => none

def enumDays (spec : Bool) (args : List String) (out : IO.FS.Stream) : IO Unit := do
  forRange 1 9999 fun y => do
    if yearSelected y args then
      let mut buf := ""
      for mi in [1:13] do
        for di in [1:32] do
          let m : Int := mi
          let d : Int := di
          if solarDayOk y m d then
            let r : Option String := if spec then specOfDay y m d else (ofDay E y m d).map fun r => s!"{fmtG r.1} {r.2}"
            buf := buf ++ s!"{y} {m} {d} {r.getD REFUSED}\n"
      out.putStr buf

def nsList : List Int := [0, 1, -1, 2, -2, 23, 24, -24, 25, -25, 100, -100, 240001]

def enumNext (spec : Bool) (args : List String) (out : IO.FS.Stream) : IO Unit := do
  forRange 1 10000 fun y => do
    if yearSelected y args then
      let mut buf := ""
      for ii in [0:24] do
        let i : Int := ii
        for n in nsList do
          let r : String :=
            if spec then
              let tot := y * 24 + i + n
              if 0 ≤ tot then s!"{tot / 24} {tot % 24}" else (let t := next (y, i) n; s!"{t.1} {t.2}")
            else (let t := next (fromIndex y i) n; s!"{t.1} {t.2}")
          buf := buf ++ s!"{y} {i} {n} {r}\n"
      out.putStr buf
  for y in ([-3, -1, 0, 1, 2, 2024, 9999, 10000] : List Int) do
    for idx in ([-50, -25, -24, -1, 0, 23, 24, 25, 47, 48, 1000] : List Int) do
      let t := fromIndex y idx
      -- spec: floor carry when the total is non-negative
      let tot := y * 24 + idx
      let r := if spec ∧ 0 ≤ tot then s!"{tot / 24} {tot % 24} {b01 (tot % 24 % 2 == 1)} {b01 (tot % 24 % 2 == 0)}"
               else s!"{t.1} {t.2} {b01 (isJie t)} {b01 (isQi t)}"
      out.putStrLn s!"new {y} {idx} {r}"
  -- the instant of a term constructed with a wrapped index: model = table entry of the normalised term; spec = the table
  -- entry at the global position 24(y−1)+idx (floor arithmetic)
  forRange 2 9998 fun y => do
    if y % 50 == 0 || y ≤ 30 || y ≥ 9990 || (1570 ≤ y && y ≤ 1600) then
      let mut buf := ""
      for idx in ([-49, -25, -24, -13, -12, -11, -1, 24, 25, 35, 36, 47, 48] : List Int) do
        let g : Int := if spec then 24 * (y - 1) + idx else gidx (fromIndex y idx)
        let r : String :=
          if g < 0 ∨ g ≥ 240000 then REFUSED else
          let td := E.termDay g.toNat
          if td = 0 then REFUSED else s!"{fmt3 (ofJdn td)} {E.termSod g.toNat}"
        buf := buf ++ s!"wday {y} {idx} {r}\n"
      out.putStr buf

/-- S stream: the spacing clause holds for every representable adjacent pair -/
def enumIncSpec (out : IO.FS.Stream) : IO Unit := do
  forRange 1 9999 fun y => do
    let mut buf := ""
    for ii in [0:24] do
      let g := (24 * (y - 1)).toNat + ii
      if E.termDay g ≠ 0 ∧ E.termDay (g + 1) ≠ 0 then buf := buf ++ s!"{y} {ii} 1\n"
    out.putStr buf

def runEnum (name : String) (args : List String) (out : IO.FS.Stream) : Option (IO Unit) :=
  match name with
  | "c06.days" => some (enumDays false args out)
  | "c06.days.spec" => some (enumDays true args out)
  | "c06.inc.spec" => some (enumIncSpec out)
  | "c06.next" => some (enumNext false args out)
  | "c06.next.spec" => some (enumNext true args out)
  | _ => none

end Tyme.Driver.P06
