import Tyme.Model.AlmanacCycles
import Tyme.Spec.AlmanacCycles
import Tyme.Model.RealEph
import Tyme.Spec.Civil
import Tyme.Driver.Util
import Tyme.Driver.P03
import Tyme.Driver.P06
/- C17 driver part: almanac cycles (same text as harness p17.rs). -/
namespace Tyme.Driver.P17
open Tyme Tyme.Driver

def E : Eph := fastEph

def yearSelected := P06.yearSelected

def optS (o : Option Int) : String := match o with | some v => toString v | none => "r"

/-! ### model side -/

def fmtDay (o : Alm.DayOut) : String :=
    s!"{o.duty} {o.twelve} {o.mansion} {o.luminary} {o.week} {optS o.nine} {o.lSix} {o.lMansion} {optS o.lNine} {o.lPhase} {o.lRen} {o.lDuty} {o.lTwelve} {o.scmNine} {o.lmNine} {o.lmRen}"

/-- stream variant: the year's three turning points (`Alm.yearTurns`, the model's own function) are computed
once per civil year instead of once per day -/
def modelDayCached (yt : Option (Int × Int × Int)) (Y M D : Int) : Option String :=
  if !solarDayOk Y M D then none else
  let nine : Int → Int → Int → Option Int := fun y m d =>
    if y = Y then (match yt with | none => none | some t => Alm.dayNineOf E y t (jdn y m d)) else Alm.dayNine E y m d
  (Alm.dayOutWith E nine Y M D).map fmtDay

def modelDay (Y M D : Int) : Option String :=
  if !solarDayOk Y M D then none else
  (Alm.dayOut E Y M D).map fun o =>
    s!"{o.duty} {o.twelve} {o.mansion} {o.luminary} {o.week} {optS o.nine} {o.lSix} {o.lMansion} {optS o.lNine} {o.lPhase} {o.lRen} {o.lDuty} {o.lTwelve} {o.scmNine} {o.lmNine} {o.lmRen}"

def timeOk (Y M D h mi s : Int) : Bool :=
  solarDayOk Y M D && decide (0 ≤ h ∧ h ≤ 23 ∧ 0 ≤ mi ∧ mi ≤ 59 ∧ 0 ≤ s ∧ s ≤ 59)

def modelHour (Y M D h mi s : Int) : Option String :=
  if !timeOk Y M D h mi s then none else
  (Alm.hourOut E Y M D h mi s).map fun o =>
    s!"{optS o.nine} {o.twelve} {optS o.lNine} {o.lTwelve} {o.lRen}"

def modelYear (y : Int) : Option String :=
  if y < -1 ∨ y > 9999 then none else some s!"{Alm.yearNine y} {Alm.yearNine y}"

def modelLMonth (y m : Int) : Option String :=
  match Lunar.fromYm E y m with
  | none => none
  | some x => (Alm.lunarMonthNine x).map fun n => s!"{n} {Alm.renMonth (Alm.absMonth E x)}"

def modelLDay (y m d : Int) : Option String :=
  match Lunar.dayNew E y m d with
  | none => none
  | some (x, k) => some s!"{Alm.six (Alm.absMonth E x) k} {Alm.phase k} {Alm.renDay (Alm.absMonth E x) k}"

def execOp (op : String) (a : List Int) : Option (Option String) :=
  match op, a with
  | "alm.day", [y, m, d] => some (modelDay y m d)
  | "alm.hour", [y, m, d, h, mi, s] => some (modelHour y m d h mi s)
  | "alm.year", [y] => some (modelYear y)
  | "alm.lmonth", [y, m] => some (modelLMonth y m)
  | "alm.scmonth", [y, i] => some ((Alm.scMonthNine y i).map toString)
  | "alm.lday", [y, m, d] => some (if d < 0 then none else modelLDay y m d)
  | _, _ => none

/-! ### spec side (first principles over the re-extracted term and month tables) -/

/-- the turning point of the solstice term x, and whether it is a winter one -/
def specTurn (x : Nat) : Option (Int × Bool) :=
  let s := E.termDay x
  if s = 0 then none else some (AlmSpec.nearestJiazi s, x % 24 == 0)

/-- day nine star of day number j lying in term g: latest turning point on or before the day among the
solstices around it -/
def specDayNine (j : Int) (g : Nat) : Option Int :=
  let gs : Int := (g : Int) - (g : Int) % 12
  let rec go : List Int → Option Int
    | [] => none
    | x :: rest =>
      if x < 0 then none else
      match specTurn x.toNat with
      | none => none
      | some (t, w) => if t ≤ j then some (AlmSpec.dayNine j t w) else go rest
  -- the coming solstice's turning point may already be past (it lies up to 29 days before its solstice)
  match specTurn (gs + 12).toNat with
  | some (t, w) => if t ≤ j then some (AlmSpec.dayNine j t w) else go [gs, gs - 12]
  | none => go [gs, gs - 12]

def specDay (Y M D : Int) : Option String :=
  if !Civil.valid Y M D then none else
  let j := 1721424 + Civil.ord Y M D
  let db := AlmSpec.pillar j % 12
  match P06.specLatest E.termDay j with
  | none => none
  | some g =>
    let ti : Int := ((g % 24 : Nat) : Int)
    let mb := AlmSpec.monthBranch ti
    let ms := AlmSpec.mansion j
    let nine := specDayNine j g
    -- sexagenary year: civil year from its Lichun day on
    if 24 * (Y - 1) + 3 < 0 then none else
    let lichun := E.termDay (24 * (Y - 1) + 3).toNat
    let ystar := if j ≥ lichun then Y else Y - 1
    match P03.specMonthOf j with
    | none => none
    | some k =>
      let ld := j - P03.flat.firsts.getD k 0 + 1
      if ld > P03.flat.lens.getD k 0 then none else
      let ly := P03.flat.ys.getD k 0
      let lm := (P03.flat.ms.getD k 0).natAbs
      let pos : Int := (k - P03.flat.yStart.getD ly.toNat 0 : Nat)
      some s!"{AlmSpec.duty db mb} {AlmSpec.twelve db mb} {ms} {AlmSpec.luminary ms} {AlmSpec.weekday j} {optS nine} {AlmSpec.six lm ld} {ms} {optS nine} {AlmSpec.phase ld} {AlmSpec.ren lm ld 0} {AlmSpec.duty db mb} {AlmSpec.twelve db mb} {AlmSpec.monthNine ((ystar - 4) % 12) mb} {AlmSpec.monthNine ((ly - 4) % 12) ((pos + 2) % 12)} {AlmSpec.ren lm 1 0}"

def specHour (Y M D h mi s : Int) : Option String :=
  if !(Civil.valid Y M D && decide (0 ≤ h ∧ h ≤ 23 ∧ 0 ≤ mi ∧ mi ≤ 59 ∧ 0 ≤ s ∧ s ≤ 59)) then none else
  let j := 1721424 + Civil.ord Y M D
  match P06.specLatest E.termDay j with
  | none => none
  | some g =>
    let ti : Int := ((g % 24 : Nat) : Int)
    -- the solstice opening the half-year must be a representable day (year 1 starts inside a half-year whose
    -- solstice lies in year 0)
    let hb := ((h + 1) / 2) % 12
    let dbRolled := AlmSpec.pillar (j + (if h = 23 then 1 else 0)) % 12
    let dbCivil := AlmSpec.pillar j % 12
    let nine1 : Option Int := some (AlmSpec.hourNine ti dbRolled hb)
    let nine2 : Option Int := some (AlmSpec.hourNine ti dbCivil hb)
    match P03.specMonthOf j with
    | none => none
    | some k =>
      let ld := j - P03.flat.firsts.getD k 0 + 1
      if ld > P03.flat.lens.getD k 0 then none else
      let lm := (P03.flat.ms.getD k 0).natAbs
      some s!"{optS nine1} {AlmSpec.twelve hb dbRolled} {optS nine2} {AlmSpec.twelve hb dbRolled} {AlmSpec.ren lm ld ((h + 1) / 2)}"

def specYear (y : Int) : Option String :=
  if y < -1 ∨ y > 9999 then none else some s!"{AlmSpec.yearNine y} {AlmSpec.yearNine y}"

def specLMonth (y m : Int) : Option String :=
  match P03.posOf y m with
  | none => none
  | some k =>
    let pos : Int := (k - P03.flat.yStart.getD y.toNat 0 : Nat)
    some s!"{AlmSpec.monthNine ((y - 4) % 12) ((pos + 2) % 12)} {AlmSpec.ren m.natAbs 1 0}"

def specSCMonth (y i : Int) : Option String :=
  if y < 0 ∨ y > 9999 ∨ i < 0 ∨ i > 11 then none else some s!"{AlmSpec.monthNine ((y - 4) % 12) ((2 + i) % 12)}"

def specLDay (y m d : Int) : Option String :=
  match P03.posOf y m with
  | none => none
  | some k =>
    if d < 1 ∨ d > P03.flat.lens.getD k 0 then none
    else some s!"{AlmSpec.six m.natAbs d} {AlmSpec.phase d} {AlmSpec.ren m.natAbs d 0}"

def specOp (op : String) (a : List Int) : Option (Option String) :=
  match op, a with
  -- the property quantifies over civil dates 0001..9998 (year 9999 needs turning points in year 10000)
  | "alm.day", [y, m, d] => if y > 9998 then none else some (specDay y m d)
  | "alm.hour", [y, m, d, h, mi, s] => if y > 9998 then none else some (specHour y m d h mi s)
  | "alm.year", [y] => some (specYear y)
  | "alm.lmonth", [y, m] => some (specLMonth y m)
  | "alm.scmonth", [y, i] => if 0 ≤ y ∧ y ≤ 9999 ∧ 0 ≤ i ∧ i ≤ 11 then some (specSCMonth y i) else none
  | "alm.lday", [y, m, d] => some (specLDay y m d)
  | _, _ => none

/-! ### streams -/

/-- all lines of one civil year -/
def yearLines (spec : Bool) (y : Int) : String := Id.run do
  let yt := if spec then none else Alm.yearTurns E y
  let mut buf := ""
  for mi in [1:13] do
    for di in [1:32] do
      let m : Int := mi
      let d : Int := di
      if solarDayOk y m d then
        let r := if spec then specDay y m d else modelDayCached yt y m d
        buf := buf ++ s!"{y} {m} {d} {r.getD REFUSED}\n"
  return buf

partial def chunksOfL {α} (n : Nat) (l : List α) : List (List α) :=
  if l.isEmpty || n == 0 then [] else l.take n :: chunksOfL n (l.drop n)

/-- the years are independent: evaluate chunks of years as parallel tasks, print in order -/
def enumDays (spec : Bool) (args : List String) (out : IO.FS.Stream) : IO Unit := do
  let years : List Int := ((List.range 9998).map fun (i : Nat) => ((i : Int) + 1)).filter fun y => yearSelected y args
  for wave in chunksOfL 32 (chunksOfL 64 years) do
    let tasks := wave.map fun c => Task.spawn fun _ => String.join (c.map (yearLines spec))
    for t in tasks do
      out.putStr t.get

def enumLeap (spec : Bool) (out : IO.FS.Stream) : IO Unit := do
  forRange 0 9999 fun y => do
    let lp : Int := E.leap y
    if lp > 0 then
      let n := E.mLen y lp.toNat
      let mut buf := ""
      for di in [1:(n + 1).toNat] do
        let d : Int := di
        let r := if spec then specLDay y (-lp) d else modelLDay y (-lp) d
        let r2 := if spec then specLDay y lp d else modelLDay y lp d
        buf := buf ++ s!"{y} {-lp} {d} {r.getD REFUSED} | {r2.getD REFUSED}\n"
      out.putStr buf

def HOURS : List Int := [0, 1, 3, 5, 7, 9, 11, 13, 15, 17, 19, 21, 23]

def hourYear (y : Int) (args : List String) : Bool :=
  if args.head? == some "all" then y % 100 == 0 || (2019 ≤ y && y ≤ 2027) || y ≤ 30 || y ≥ 9990 || (1580 ≤ y && y ≤ 1584)
  else (2023 ≤ y && y ≤ 2025) || y <= 2 || y == 1582 || y == 9998 || y == 600

def hourLines (spec : Bool) (y : Int) : String := Id.run do
  let mut buf := ""
  for mi in [1:13] do
    for di in [1:32] do
      let m : Int := mi
      let d : Int := di
      if solarDayOk y m d then
        for h in HOURS do
          let r := if spec then specHour y m d h 30 0 else modelHour y m d h 30 0
          buf := buf ++ s!"{y} {m} {d} {h} {r.getD REFUSED}\n"
  return buf

def enumHours (spec : Bool) (args : List String) (out : IO.FS.Stream) : IO Unit := do
  let years : List Int := ((List.range 9998).map fun (i : Nat) => ((i : Int) + 1)).filter fun y => hourYear y args
  for wave in chunksOfL 32 (chunksOfL 4 years) do
    let tasks := wave.map fun c => Task.spawn fun _ => String.join (c.map (hourLines spec))
    for t in tasks do
      out.putStr t.get

def enumYears (spec : Bool) (out : IO.FS.Stream) : IO Unit := do
  forRange (-2) 10000 fun y => do
    let r := if spec then specYear y else modelYear y
    out.putStrLn s!"{y} {r.getD REFUSED}"

def enumMonths (spec : Bool) (args : List String) (out : IO.FS.Stream) : IO Unit := do
  forRange 0 9999 fun y => do
    if yearSelected y args then
      let mut buf := ""
      for mi in [1:13] do
        let m : Int := mi
        let r := if spec then specLMonth y m else modelLMonth y m
        buf := buf ++ s!"L {y} {m} {r.getD REFUSED}\n"
        let r := if spec then specLMonth y (-m) else modelLMonth y (-m)
        if r.isSome then buf := buf ++ s!"L {y} {-m} {r.getD REFUSED}\n"
      out.putStr buf
  forRange 0 9999 fun y => do
    let mut buf := ""
    for ii in [0:12] do
      let i : Int := ii
      let r := if spec then specSCMonth y i else (Alm.scMonthNine y i).map toString
      buf := buf ++ s!"S {y} {i} {r.getD REFUSED}\n"
    out.putStr buf

def runEnum (name : String) (args : List String) (out : IO.FS.Stream) : Option (IO Unit) :=
  match name with
  | "c17.days" => some (enumDays false args out)
  | "c17.days.spec" => some (enumDays true args out)
  | "c17.leap" => some (enumLeap false out)
  | "c17.leap.spec" => some (enumLeap true out)
  | "c17.hours" => some (enumHours false args out)
  | "c17.hours.spec" => some (enumHours true args out)
  | "c17.years" => some (enumYears false out)
  | "c17.years.spec" => some (enumYears true out)
  | "c17.months" => some (enumMonths false args out)
  | "c17.months.spec" => some (enumMonths true args out)
  | _ => none

end Tyme.Driver.P17
