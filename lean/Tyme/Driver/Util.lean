/- Driver helpers (no proofs). -/
namespace Tyme.Driver

def REFUSED : String := "refused"

def parseInt? (s : String) : Option Int := s.toInt?

def parseInts (l : List String) : Option (List Int) := l.mapM parseInt?

def joinInts (l : List Int) : String := " ".intercalate (l.map toString)

def fmt3 (x : Int × Int × Int) : String := s!"{x.1} {x.2.1} {x.2.2}"

def b01 (b : Bool) : String := if b then "1" else "0"

/-- loop i from lo to hi inclusive -/
@[specialize] def forRange (lo hi : Int) (f : Int → IO Unit) : IO Unit := do
  let n := (hi - lo + 1).toNat
  for k in [0:n] do
    f (lo + k)

end Tyme.Driver
