import Tyme.Model.Jd
import Tyme.Model.Festival
import Tyme.Spec.Civil
import Tyme.Spec.Festival
import Tyme.Gen.C20
import Tyme.Driver.Util
/- C20 driver part: model ops, spec ops, streams (same text as harness p20.rs). -/
namespace Tyme.Driver.P20
open Tyme Tyme.Driver Tyme.Fest

def sData := Gen.C20.solarData
def lData := Gen.C20.lunarData
def hData := Gen.C20.holidayData
def sSize : Nat := Gen.C20.solarNames.length
def lSize : Nat := Gen.C20.lunarNames.length

def fmtSF : SolarFest → String := fun f => s!"{f.idx} {f.y} {f.m} {f.d} {f.start}"
def fmtHol : Hol → String := fun h => s!"{h.y} {h.m} {h.d} {h.idx} {b01 h.work}"
def fmtLF : LunarFest → String := fun f => s!"{f.idx} {f.ty} {f.y} {f.m} {f.d} {f.term}"

/-- `none` = refused -/
def resStr {α : Type} (f : α → String) : Res α → Option String
  | .refused => none
  | .absent => some "none"
  | .found a => some (f a)

def resOr {α : Type} (f : α → String) (r : Res α) : String := (resStr f r).getD REFUSED

/-! calendar observations carried by the lunar op lines (see harness `obs_*`) -/
inductive Obs where
  | valid (y m d : Int) (ok : Bool)
  | term (y t : Int) (r : Option (Int × Int × Int))
  | step (tag : Int) (y m d : Int) (r : Option (Int × Int × Int))   -- tag 3 = next(1), 4 = next(-1)

def optL (f a b c : Int) : Option (Int × Int × Int) := if f == 1 then some (a, b, c) else none

partial def parseObs : List Int → List Obs
  | 1 :: y :: m :: d :: r :: rest => .valid y m d (r == 1) :: parseObs rest
  | 2 :: y :: t :: f :: a :: b :: c :: rest => .term y t (optL f a b c) :: parseObs rest
  | 3 :: y :: m :: d :: f :: a :: b :: c :: rest => .step 3 y m d (optL f a b c) :: parseObs rest
  | 4 :: y :: m :: d :: f :: a :: b :: c :: rest => .step 4 y m d (optL f a b c) :: parseObs rest
  | _ => []

/-- an abstract calendar that knows exactly the observations of the op line; day numbers are tags:
`8p` for the lunar date first seen at position `p` of a step observation, `8p+4` for the term observed at position `p` -/
def calOf (obs : List Obs) : Cal where
  valid y m d := obs.any fun o => match o with | .valid y' m' d' ok => y' == y && m' == m && d' == d && ok | _ => false
  toSolar y m d :=
    let p := obs.findIdx fun o => match o with | .step _ y' m' d' _ => y' == y && m' == m && d' == d | _ => false
    if p < obs.length then some (8 * (p : Int)) else none
  termJdn y t :=
    let p := obs.findIdx fun o => match o with | .term y' t' _ => y' == y && t' == t | _ => false
    if p < obs.length then some (8 * (p : Int) + 4) else none
  toLunar j :=
    if j % 8 == 4 then
      match obs[((j - 4) / 8).toNat]? with
      | some (.term _ _ r) => r
      | _ => none
    else
      let q := (j + 1) / 8
      let delta := j - 8 * q
      match obs[q.toNat]? with
      | some (.step _ y m d _) =>
        let tag : Int := if delta == 1 then 3 else 4
        match obs.find? fun o => match o with | .step tg y' m' d' _ => tg == tag && y' == y && m' == m && d' == d | _ => false with
        | some (.step _ _ _ _ r) => r
        | _ => none
      | _ => none

/-- `none` = op not mine; `some none` = refused -/
def execOp (op : String) (a : List Int) : Option (Option String) :=
  match op, a with
  | "sfest.ymd", [y, m, d] => some <| resStr fmtSF (solarFromYmd sData y m d)
  | "sfest.idx", [y, i] => some <| resStr fmtSF (solarFromIndex sSize sData y i)
  | "sfest.next", [y, i, n] => some <|
      match solarFromIndex sSize sData y i with
      | .refused => none
      | .absent => some "nofest"
      | .found f => resStr fmtSF (solarNext sSize sData f n)
  | "sday.fest", [y, m, d] => some <| if solarDayOk y m d then resStr fmtSF (solarFromYmd sData y m d) else none
  | "hol.ymd", [y, m, d] => some <| resStr fmtHol (holFromYmd hData y m d)
  | "hol.next", [y, m, d, n] => some <|
      match holFromYmd hData y m d with
      | .refused => none
      | .absent => some "nohol"
      | .found h => resStr fmtHol (holNext hData h n)
  | "sday.hol", [y, m, d] => some <| if solarDayOk y m d then resStr fmtHol (holFromYmd hData y m d) else none
  | "lfest.ymd", y :: m :: d :: rest => some <| resStr fmtLF (lunarFromYmd (calOf (parseObs rest)) lData y m d)
  | "lday.fest", y :: m :: d :: rest => some <|
      let C := calOf (parseObs rest)
      if d ≥ 0 && C.valid y m d then resStr fmtLF (lunarFromYmd C lData y m d) else none
  | "lfest.idx", y :: i :: _ :: rest => some <| resStr fmtLF (lunarFromIndex (calOf (parseObs rest)) lSize lData y i)
  | "lfest.next", y :: i :: n :: rest => some <|
      let C := calOf (parseObs rest)
      match lunarFromIndex C lSize lData y i with
      | .refused => none
      | .absent => some "nofest"
      | .found f => resStr fmtLF (lunarNext C lSize lData f n)
  | _, _ => none

/-! spec side: records, no regex -/
def sRecs := FestSpec.solarRecs sData
def hRecs := FestSpec.holRecs hData

def specSF (y m d : Int) : Option String :=
  if Civil.valid y m d then
    some <| match FestSpec.solarOn sRecs y m d with
      | some r => s!"{r.idx} {y} {m} {d} {r.start}"
      | none => "none"
  else none

def specSIdx (y i : Int) : Option String :=
  if i < 0 then none else
  match FestSpec.solarAt sRecs y i with
  | some r => if Civil.valid y r.m r.d then some s!"{r.idx} {y} {r.m} {r.d} {r.start}" else none
  | none => some "none"

def fmtHR (r : FestSpec.HolRec) : String := s!"{r.y} {r.m} {r.d} {r.idx} {b01 r.work}"

def specHol (y m d : Int) : Option String :=
  if Civil.valid y m d then
    some <| match FestSpec.holOn hRecs y m d with
      | some r => fmtHR r
      | none => "none"
  else none

def specHolNext (k : Nat) (n : Int) : String :=
  match FestSpec.holStep hRecs k n with
  | some r => fmtHR r
  | none => "none"

def specOp (op : String) (a : List Int) : Option (Option String) :=
  match op, a with
  | "sfest.ymd", [y, m, d] => if Civil.valid y m d then some (specSF y m d) else none
  | "sday.fest", [y, m, d] => some (specSF y m d)
  | "sfest.idx", [y, i] => if 1 ≤ y ∧ y ≤ 9999 ∧ 0 ≤ i then some (specSIdx y i) else none
  | "sfest.next", [y, i, n] =>
      if 1 ≤ y ∧ y ≤ 9999 ∧ 0 ≤ i then
        match FestSpec.solarAt sRecs y i with
        | none => some (some "nofest")
        | some _ =>
          -- n places further along the list of festivals, carrying into later or earlier years
          let t := y * sSize + i + n
          let y' := t / sSize
          if 1 ≤ y' ∧ y' ≤ 9999 then some (specSIdx y' (t % sSize)) else (if y' < 1 then some (some "none") else none)
      else none
  | "hol.ymd", [y, m, d] => if Civil.valid y m d then some (specHol y m d) else none
  | "sday.hol", [y, m, d] => some (specHol y m d)
  | "hol.next", [y, m, d, n] =>
      if Civil.valid y m d then
        match FestSpec.holPos hRecs y m d with
        | none => some (some "nohol")
        | some k => some (some (specHolNext k n))
      else none
  | _, _ => none

/-! streams -/
def argI (args : List String) (k : Nat) (dflt : Int) : Int := (args[k]? >>= String.toInt?).getD dflt

def enumSolarDays (spec : Bool) (args : List String) (out : IO.FS.Stream) : IO Unit := do
  let lo := argI args 0 1900
  let hi := argI args 1 2100
  forRange lo hi fun y => do
    let mut buf := ""
    for mi in [1:13] do
      for di in [1:32] do
        let m : Int := mi
        let d : Int := di
        if spec then
          match specSF y m d with
          | some s => buf := buf ++ s!"{y} {m} {d} {s}\n"
          | none => pure ()
        else if solarDayOk y m d then
          buf := buf ++ s!"{y} {m} {d} {resOr fmtSF (solarFromYmd sData y m d)}\n"
    out.putStr buf

def stepNs : List Int := [1, -1, 10, -10, 7, -23, 20000, -20000]

def enumSolarIdx (spec : Bool) (args : List String) (out : IO.FS.Stream) : IO Unit := do
  let lo := argI args 0 1
  let hi := argI args 1 9998
  let step := (argI args 2 1).toNat.max 1
  let cnt := ((hi - lo) / step + 1).toNat
  for k in [0:cnt] do
    let y : Int := lo + k * step
    let mut buf := ""
    for ii in [0:sSize + 1] do
      let i : Int := ii
      if spec then
        let s0 := (specSIdx y i).getD REFUSED
        let mut s := s0
        if s0 ≠ "none" ∧ s0 ≠ REFUSED then
          for n in stepNs do
            let t := y * sSize + i + n
            let y' := t / sSize
            let r := if y' < 1 then "none" else (specSIdx y' (t % sSize)).getD REFUSED
            s := s ++ " | " ++ r
        buf := buf ++ s!"{y} {i} {s}\n"
      else
        let r := solarFromIndex sSize sData y i
        let mut s := resOr fmtSF r
        match r with
        | .found f =>
          for n in stepNs do
            s := s ++ " | " ++ resOr fmtSF (solarNext sSize sData f n)
        | _ => pure ()
        buf := buf ++ s!"{y} {i} {s}\n"
    out.putStr buf

def enumHolRecs (spec : Bool) (out : IO.FS.Stream) : IO Unit := do
  out.putStrLn s!"len {hData.length} {hData.length % 13}"
  let mut prev : Option (Int × Int × Int) := none
  let mut k := 0
  for r in hRecs do
    let y : Int := r.y
    let m : Int := r.m
    let d : Int := r.d
    let head := s!"{k} {y} {m} {d} {r.idx} {b01 r.work} {r.off}"
    if spec then
      -- the law: a real date, returned for its own date with its fields, after the previous record, target is a rest day
      out.putStrLn (head ++ " valid=1 own=1 inc=1 target=1")
    else
      let v := solarDayOk y m d
      let mut s := head ++ s!" valid={b01 v}"
      if v then
        let own := resOr fmtHol (holFromYmd hData y m d) == s!"{y} {m} {d} {r.idx} {b01 r.work}"
        let inc := match prev with | none => true | some p => dayAfter (y, m, d) p
        let tgt := match dayNext (y, m, d) r.off with
          | none => REFUSED
          | some t => match holFromYmd hData t.1 t.2.1 t.2.2 with
            | .found h => b01 (!h.work)
            | .absent => "0"
            | .refused => REFUSED
        s := s ++ s!" own={b01 own} inc={b01 inc} target={tgt}"
        prev := some (y, m, d)
      out.putStrLn s
    k := k + 1

def enumHolDays (spec : Bool) (args : List String) (out : IO.FS.Stream) : IO Unit := do
  let lo := argI args 0 2000
  let hi := argI args 1 2030
  forRange lo hi fun y => do
    let mut buf := ""
    for mi in [1:13] do
      for di in [1:32] do
        let m : Int := mi
        let d : Int := di
        if spec then
          match specHol y m d with
          | some s => buf := buf ++ s!"{y} {m} {d} {s}\n"
          | none => pure ()
        else if solarDayOk y m d then
          buf := buf ++ s!"{y} {m} {d} {resOr fmtHol (holFromYmd hData y m d)}\n"
    out.putStr buf

def holNs (k last : Int) : List Int :=
  [0, 1, -1, 2, -2, 5, -5, 33, -33, 40, -40, 100, -100, -k, last - k, -k - 1, last - k + 1, 5000, -5000]

def modelHolNext (r : FestSpec.HolRec) (n : Int) : String :=
  match holFromYmd hData r.y r.m r.d with
  | .refused => REFUSED
  | .absent => "nohol"
  | .found h => resOr fmtHol (holNext hData h n)

def enumHolNext (spec : Bool) (args : List String) (out : IO.FS.Stream) : IO Unit := do
  let stride := (argI args 0 1).toNat.max 1
  let recs := hRecs.toArray
  let last : Int := recs.size - 1
  let mut k := 0
  while k < recs.size do
    let r := recs[k]!
    let mut buf := ""
    for n in holNs k last do
      let s := if spec then specHolNext k n else modelHolNext r n
      buf := buf ++ s!"{k} {n} {s}\n"
    out.putStr buf
    k := k + stride

def enumHolNextAllSpec (args : List String) (out : IO.FS.Stream) : IO Unit := do
  let stride := (argI args 0 1).toNat.max 1
  let recs := hRecs.toArray
  let nrec : Int := recs.size
  for k in [0:recs.size] do
    let mut buf := ""
    let ki : Int := k
    let lo : Int := if k % stride == 0 then -ki - 1 else -40
    let hi : Int := if k % stride == 0 then nrec - ki else 40
    let cnt := (hi - lo + 1).toNat
    for j in [0:cnt] do
      let n : Int := lo + j
      let t := ki + n
      let s := if t < 0 then "none" else match recs[t.toNat]? with | some r => fmtHR r | none => "none"
      buf := buf ++ s!"{k} {n} {s}\n"
    out.putStr buf

def enumLunarLawSpec (args : List String) (out : IO.FS.Stream) : IO Unit := do
  let lo := argI args 0 1
  let hi := argI args 1 9998
  let step := (argI args 2 1).toNat.max 1
  let cnt := ((hi - lo) / step + 1).toNat
  for k in [0:cnt] do
    let y : Int := lo + k * step
    let mut buf := ""
    for i in [0:lSize] do
      buf := buf ++ s!"{y} {i} 1\n"
    out.putStr buf

def runEnum (name : String) (args : List String) (out : IO.FS.Stream) : Option (IO Unit) :=
  match name with
  | "c20.solar.days" => some (enumSolarDays false args out)
  | "c20.solar.days.spec" => some (enumSolarDays true args out)
  | "c20.solar.idx" => some (enumSolarIdx false args out)
  | "c20.solar.idx.spec" => some (enumSolarIdx true args out)
  | "c20.hol.recs" => some (enumHolRecs false out)
  | "c20.hol.recs.spec" => some (enumHolRecs true out)
  | "c20.hol.days" => some (enumHolDays false args out)
  | "c20.hol.days.spec" => some (enumHolDays true args out)
  | "c20.hol.next" => some (enumHolNext false args out)
  | "c20.hol.next.spec" => some (enumHolNext true args out)
  | "c20.hol.nextall.spec" => some (enumHolNextAllSpec args out)
  | "c20.lunar.law.spec" => some (enumLunarLawSpec args out)
  | "c20.lunar.step.spec" => some (enumLunarLawSpec args out)
  | _ => none

end Tyme.Driver.P20
