import Tyme.Driver.Ops
/- Exhaustive streams; same canonical order and text as harness `enum`. -/
namespace Tyme.Driver
open Tyme

def enumC01Grid (out : IO.FS.Stream) : IO Unit := do
  forRange (-1) 10000 fun y => do
    let mut buf := ""
    for mi in [0:14] do
      let m : Int := mi
      let mut mask : Nat := 0
      for di in [0:33] do
        if solarDayOk y m (di : Int) then mask := mask ||| (1 <<< di)
      buf := buf ++ s!"{y} {m} {mask}\n"
    out.putStr buf

/-- K stream (model): every accepted day with jdn, week, index, back conversion -/
def enumC01Days (out : IO.FS.Stream) : IO Unit := do
  forRange 1 9999 fun y => do
    let mut buf := ""
    let j0 := jdn y 1 1
    for mi in [1:13] do
      let m : Int := mi
      for di in [1:32] do
        let d : Int := di
        if solarDayOk y m d then
          let j := jdn y m d
          let b := ofJdn j
          buf := buf ++ s!"{y} {m} {d} {j} {weekOfJdn j} {j - j0} {fmt3 b} 1\n"
    out.putStr buf

/-- S stream (spec): the same lines produced from the specification alone:
walk `Civil.next` from 0001-01-01, day number = 1721424 + ordinal, weekday advances by one from
the anchor (0001-01-01 was a Saturday = index 6), index restarts each January 1, back = identity. -/
def enumC01DaysSpec (out : IO.FS.Stream) : IO Unit := do
  let mut x : Int × Int × Int := (1, 1, 1)
  let mut j : Int := 1721424
  let mut w : Int := 6
  let mut idx : Int := 0
  let mut buf := ""
  let mut cnt : Nat := 0
  while Civil.valid x.1 x.2.1 x.2.2 do
    buf := buf ++ s!"{x.1} {x.2.1} {x.2.2} {j} {w} {idx} {fmt3 x} 1\n"
    cnt := cnt + 1
    if cnt % 4096 == 0 then
      out.putStr buf
      buf := ""
    let n := Civil.next x.1 x.2.1 x.2.2
    idx := if n.1 != x.1 then 0 else idx + 1
    x := n
    j := j + 1
    w := (w + 1) % 7
  out.putStr buf

def enumC01Lens (spec : Bool) (out : IO.FS.Stream) : IO Unit := do
  forRange 1 9999 fun y => do
    let mut s := if spec then s!"{y} {Civil.daysInYear y} {b01 (Civil.leap y)}" else s!"{y} {yearLen y} {b01 (isLeap y)}"
    for mi in [1:13] do
      s := s ++ s!" {if spec then Civil.daysIn y mi else monthLen y mi}"
    out.putStrLn s

def enumC01GridSpec (out : IO.FS.Stream) : IO Unit := do
  forRange (-1) 10000 fun y => do
    let mut buf := ""
    for mi in [0:14] do
      let m : Int := mi
      let mut mask : Nat := 0
      for di in [0:33] do
        if Civil.valid y m (di : Int) then mask := mask ||| (1 <<< di)
      buf := buf ++ s!"{y} {m} {mask}\n"
    out.putStr buf

def runEnum (name : String) (_args : List String) (out : IO.FS.Stream) : IO UInt32 := do
  match name with
  | "c01.grid" => enumC01Grid out; pure 0
  | "c01.grid.spec" => enumC01GridSpec out; pure 0
  | "c01.days" => enumC01Days out; pure 0
  | "c01.days.spec" => enumC01DaysSpec out; pure 0
  | "c01.lens" => enumC01Lens false out; pure 0
  | "c01.lens.spec" => enumC01Lens true out; pure 0
  | _ => IO.eprintln s!"unknown stream {name}"; pure 2

end Tyme.Driver
