import Tyme.Spec.Civil
import Tyme.Driver.Util
/- Spec-level evaluation of ops (sweep S). `n/a` where no independent spec is defined. -/
namespace Tyme.Driver
open Tyme

def NA : String := "n/a"

def specDay? (y m d : Int) : Option (Int × Int × Int) := if Civil.valid y m d then some (y, m, d) else none

def ltB (a b : Int × Int × Int) : Bool :=
  decide (a.1 < b.1) || (a.1 == b.1 && (decide (a.2.1 < b.2.1) || (a.2.1 == b.2.1 && decide (a.2.2 < b.2.2))))

def specOp (op : String) (a : List Int) : Option String :=
  match op, a with
  | "solar.new", [y, m, d] => (specDay? y m d).map fun _ => "ok"
  | "solar.jdn", [y, m, d] => (specDay? y m d).map fun _ => toString (1721424 + Civil.ord y m d)
  | "jd.day", [j] => (Civil.ofOrd (j - 1721424)).map fmt3
  | "solar.next", [y, m, d, n] => do
      let _ ← specDay? y m d
      let r ← Civil.ofOrd (Civil.ord y m d + n)
      pure (fmt3 r)
  | "solar.sub", [y, m, d, y2, m2, d2] => do
      let _ ← specDay? y m d
      let _ ← specDay? y2 m2 d2
      pure (toString (Civil.ord y m d - Civil.ord y2 m2 d2))
  | "solar.before", [y, m, d, y2, m2, d2] => do
      let x ← specDay? y m d
      let z ← specDay? y2 m2 d2
      pure (b01 (ltB x z))
  | "solar.after", [y, m, d, y2, m2, d2] => do
      let x ← specDay? y m d
      let z ← specDay? y2 m2 d2
      pure (b01 (ltB z x))
  | "solar.idx", [y, m, d] => (specDay? y m d).map fun _ => toString (Civil.ord y m d - Civil.ord y 1 1)
  | "solar.week", [y, m, d] => (specDay? y m d).map fun _ => toString ((6 + Civil.ord y m d) % 7)
  | "month.len", [y, m] =>
      if 1 ≤ y ∧ y ≤ 9999 ∧ 1 ≤ m ∧ m ≤ 12 then some (toString (Civil.daysIn y m)) else none
  | "year.len", [y] =>
      if 1 ≤ y ∧ y ≤ 9999 then some s!"{Civil.daysInYear y} {b01 (Civil.leap y)}" else none
  | _, _ => some NA

def specLine (line : String) : String :=
  match line.trimAscii.toString.splitOn " " |>.filter (· ≠ "") with
  | [] => ""
  | op :: rest =>
    match parseInts rest with
    | none => "bad-op"
    | some a => (specOp op a).getD REFUSED

end Tyme.Driver
