import Tyme.Model.Jd
import Tyme.Model.Week
import Tyme.Model.Lunar
import Tyme.Model.LunarWeek
import Tyme.Model.RealEph
import Tyme.Spec.Civil
import Tyme.Spec.Week
import Tyme.Driver.Util
import Tyme.Driver.P03
/- C14 driver part, lunar half: model ops, spec ops, streams (same text as harness p14b.rs). -/
namespace Tyme.Driver.P14b
open Tyme Tyme.Wk Tyme.LWk Tyme.Lunar Tyme.Driver

def E : Eph := fastEph

def fmtLDay (d : LDay) : String := s!"{d.1.y} {monthWithLeap E d.1} {d.2}"
def fmtLDayDot (d : LDay) : String := s!"{d.1.y}.{monthWithLeap E d.1}.{d.2}"
def fmtWeek (w : LunarWeek) : String := s!"{w.month.y} {monthWithLeap E w.month} {w.index} {w.start}"

/-- `none` = op not mine; `some none` = refused -/
def execOp (op : String) (a : List Int) : Option (Option String) :=
  match op, a with
  | "lweek.count", [y, m, s] => some <| (lunarWeekCount E y m s).map toString
  | "lweek.new", [y, m, i, s] => some <| (lunarWeekNew E y m i s).map fun _ => "ok"
  | "lweek.first", [y, m, i, s] => some <| do
      let w ← lunarWeekNew E y m i s
      let d ← lunarWeekFirstDay E w
      pure (fmtLDay d)
  | "lweek.firstc", [y, m, i, s] => some <| do
      let w ← lunarWeekNew E y m i s
      let d ← lunarWeekFirstDay E w
      let c ← daySolar E d.1 d.2
      pure (fmt3 c)
  | "lweek.days", [y, m, i, s] => some <| do
      let w ← lunarWeekNew E y m i s
      let l ← lunarWeekDays E w
      pure (s!"{l.length} " ++ " ".intercalate (l.map fmtLDay))
  | "lweek.next", [y, m, i, s, n] => some <| do
      let w ← lunarWeekNew E y m i s
      let r ← lunarWeekNext E w n
      pure (fmtWeek r)
  | "lweek.nextfd", [y, m, i, s, n] => some <| do
      let w ← lunarWeekNew E y m i s
      let r ← lunarWeekNext E w n
      let d ← lunarWeekFirstDay E r
      let c ← daySolar E d.1 d.2
      pure s!"{fmtLDay d} {fmt3 c}"
  | "lweek.weeks", [y, m, s] => some <| do
      let l ← lunarWeeks E y m s
      pure (s!"{l.length} " ++ " ".intercalate (l.map fmtWeek))
  | _, _ => none

/-! ### spec side: weeks = maximal start-aligned 7-day blocks of day numbers meeting `[first, first + len)`.
The month table (`P03.flat`: listed months with first day number and length) is the only input; lunar dates of day
numbers are read off the table (`P03.specMonthOf`: the last listed month starting on or before the day). -/

def ORD0 : Int := 1721424

/-- lunar date (y, signed month, day) of day number j by the table -/
def specLunar (j : Int) : Option (Int × Int × Int) :=
  if j < ORD0 ∨ j > 5373484 then none else
  match P03.specMonthOf j with
  | none => none
  | some k =>
    let d := j - P03.flat.firsts.getD k 0 + 1
    if d > P03.flat.lens.getD k 0 then none else some (P03.flat.ys.getD k 0, P03.flat.ms.getD k 0, d)

/-- first day number and length of listed month (y, m) -/
def specMonth (y m : Int) : Option (Int × Int) :=
  (P03.posOf y m).map fun k => (P03.flat.firsts.getD k 0, P03.flat.lens.getD k 0)

open Tyme.WeekSpec in
def specCount (F L s : Int) : Int := blockCount s (F - ORD0) L

open Tyme.WeekSpec in
/-- day number of the first day of week i -/
def specFirstJ (F s i : Int) : Int := ORD0 + blockStart s (firstBlock s (F - ORD0) + i)

def specWeekOk (y m i s : Int) : Option (Int × Int) :=
  match specMonth y m with
  | none => none
  | some (F, L) => if 0 ≤ s ∧ s ≤ 6 ∧ 0 ≤ i ∧ i ≤ 5 ∧ i < specCount F L s then some (F, L) else none

def specDays (J : Int) : Option (List (Int × Int × Int)) :=
  (List.range 7).mapM fun (k : Nat) => specLunar (J + (k : Int))

/-- end (exclusive) of the listed months, first day number of the first -/
def tableLo : Int := P03.flat.firsts.getD 0 0
def tableHi : Int :=
  let n := P03.flat.firsts.size
  P03.flat.firsts.getD (n - 1) 0 + P03.flat.lens.getD (n - 1) 0

/-- day-number zones in which the code is known to be wrong (D4 junctions; start of the table before 0001-01-01), padded
by 40 days.  The spec does not answer single ops touching them (`n/a`): the failing keys there are enumerated
exhaustively by the streams and listed in known_findings.json. -/
def badZones : List (Int × Int) :=
  [(0, 1721477), (1724300, 1724406), (1729778, 1730283), (1808672, 1808804)]

def touchesBad (lo hi : Int) : Bool := badZones.any fun z => decide (lo ≤ z.2 ∧ z.1 ≤ hi)

/-- answer only outside the bad zones -/
def guardZone (y m : Int) (extra : Int → Int → Int × Int) (r : Option String) : Option (Option String) :=
  match specMonth y m with
  | none => some r
  | some (F, L) =>
    let (lo, hi) := extra F L
    if touchesBad lo hi then none else some r

def specOp (op : String) (a : List Int) : Option (Option String) :=
  let whole := fun (F L : Int) => (F - 7, F + L + 7)
  match op, a with
  | "lweek.count", [y, m, s] => some <| do
      let (F, L) ← specMonth y m
      if s < 0 then none
      pure (toString (specCount F L (s % 7)))
  | "lweek.new", [y, m, i, s] => some <| (specWeekOk y m i s).map fun _ => "ok"
  | "lweek.first", [y, m, i, s] => guardZone y m whole <| do
      let (F, _) ← specWeekOk y m i s
      let d ← specLunar (specFirstJ F s i)
      pure (fmt3 d)
  | "lweek.firstc", [y, m, i, s] => guardZone y m whole <| do
      let (F, _) ← specWeekOk y m i s
      let _ ← specLunar (specFirstJ F s i)
      let c ← Civil.ofOrd (specFirstJ F s i - ORD0)
      pure (fmt3 c)
  | "lweek.days", [y, m, i, s] => guardZone y m whole <| do
      let (F, _) ← specWeekOk y m i s
      let l ← specDays (specFirstJ F s i)
      pure (s!"{l.length} " ++ " ".intercalate (l.map fmt3))
  | "lweek.nextfd", [y, m, i, s, n] =>
      guardZone y m (fun F L => (min (F - 7) (F - 7 + 7 * n), max (F + L + 7) (F + L + 7 + 7 * n))) <| do
      let (F, _) ← specWeekOk y m i s
      let T := specFirstJ F s i + 7 * n
      if T + 6 < tableLo ∨ T ≥ tableHi then none
      let d ← specLunar T
      let c ← Civil.ofOrd (T - ORD0)
      pure s!"{fmt3 d} {fmt3 c}"
  | "lweek.weeks", [y, m, s] => some <| do
      let (F, L) ← specMonth y m
      if s < 0 ∨ s > 6 then none
      let wc := specCount F L s
      if wc > 6 then none
      let l := (List.range wc.toNat).map fun i => s!"{y} {m} {i} {s}"
      pure (s!"{l.length} " ++ " ".intercalate l)
  | _, _ => none

/-! ### streams -/

def optS (o : Option String) : String := o.getD "x"

/-- lines of one (month, start): count, mask, get_weeks; then one line per accepted week -/
def linesWeeks (withDays : Bool) (x : Month) (s : Int) : String := Id.run do
  let y := x.y
  let m := monthWithLeap E x
  let wc := monthWeekCount E x s
  let mut mask : Nat := 0
  for i in [0:8] do
    if (lunarWeekNew E y m i s).isSome then mask := mask ||| (1 <<< i)
  let ws := match lunarWeeks E y m s with
    | none => REFUSED
    | some l => ",".intercalate (l.map fun (w : LunarWeek) => toString w.index)
  let mut out := s!"{y} {m} {s} {wc} {mask} | {ws}\n"
  for i in [0:8] do
    if mask &&& (1 <<< i) != 0 then
      let w : LunarWeek := ⟨x, i, s⟩
      let fd := lunarWeekFirstDay E w
      let fl := optS (fd.map fmtLDay)
      let fc := optS (fd.bind fun d => (daySolar E d.1 d.2).map fmt3)
      let days := if !withDays then "-" else optS ((lunarWeekDays E w).map fun l => " ".intercalate (l.map fmtLDayDot))
      out := out ++ s!"{y} {m} {s} {i} | {fl} | {fc} | {days}\n"
  return out

def fmt3dot (d : Int × Int × Int) : String := s!"{d.1}.{d.2.1}.{d.2.2}"

def linesWeeksSpec (withDays : Bool) (y m F L s : Int) : String := Id.run do
  let wc := specCount F L s
  let nacc := min wc.toNat 6
  let mask : Nat := (1 <<< nacc) - 1
  let ws := if wc > 6 then REFUSED else ",".intercalate ((List.range wc.toNat).map toString)
  let mut out := s!"{y} {m} {s} {wc} {mask} | {ws}\n"
  for i in [0:nacc] do
    let J := specFirstJ F s i
    let fd := specLunar J
    let fl := optS (fd.map fmt3)
    let fc := optS (fd.bind fun _ => (Civil.ofOrd (J - ORD0)).map fmt3)
    let days := if !withDays then "-" else optS ((specDays J).map fun l => " ".intercalate (l.map fmt3dot))
    out := out ++ s!"{y} {m} {s} {i} | {fl} | {fc} | {days}\n"
  return out

def lineStep (x : Month) (s : Int) : String := Id.run do
  let y := x.y
  let m := monthWithLeap E x
  let mut out := s!"{y} {m} {s} |"
  let wc := monthWeekCount E x s
  for i in [0:wc.toNat] do
    match lunarWeekNew E y m i s with
    | none => out := out ++ " x ;"
    | some w =>
      for n in [(-1 : Int), 1, -5, 5] do
        out := out ++ " " ++ (match lunarWeekNext E w n with
          | none => "x"
          | some v => s!"{v.month.y - y}.{monthWithLeap E v.month}.{v.index}")
      out := out ++ " ;"
  return out ++ "\n"

def lineNext (x : Month) (s i : Int) : String := Id.run do
  let y := x.y
  let m := monthWithLeap E x
  let mut out := s!"{firstJ (lunarOps E) ⟨x, i, s⟩} {y} {m} {s} {i} |"
  match lunarWeekNew E y m i s with
  | none => return out ++ " refused\n"
  | some w =>
    for k in [0:121] do
      let n : Int := (k : Int) - 60
      out := out ++ " " ++ (match (lunarWeekNext E w n).bind fun v => (lunarWeekFirstDay E v).bind fun d => daySolar E d.1 d.2 with
        | none => "x"
        | some c => toString (jdn c.1 c.2.1 c.2.2))
    return out ++ "\n"

def lineNextSpec (y m F L s i : Int) : String := Id.run do
  let J0 := specFirstJ F s i
  let mut out := s!"{J0} {y} {m} {s} {i} |"
  if !(0 ≤ i ∧ i ≤ 5 ∧ i < specCount F L s) then return out ++ " refused\n"
  for k in [0:121] do
    let T := J0 + 7 * ((k : Int) - 60)
    out := out ++ " " ++ (if T + 6 < tableLo ∨ T ≥ tableHi ∨ (specLunar T).isNone then "x" else toString T)
  return out ++ "\n"

def sampleOf (y : Int) (k : Nat) (wc : Int) : Int × Int :=
  let s := (y + k) % 7
  (s, (y / 7 + 2 * k) % (max wc 1))

def denseQuick : List Int := [0, 1, 8, 9, 23, 24, 25, 239, 240, 9999]
def denseAll : List Int := [0, 1, 2, 7, 8, 9, 10, 22, 23, 24, 25, 26, 235, 236, 237, 238, 239, 240, 241, 9997, 9998, 9999]

/-- render the years in parallel chunks, print in order -/
def parYearsL (years : List Int) (out : IO.FS.Stream) (f : Int → String) (chunk : Nat := 16) : IO Unit := do
  let rec chunks (l : List Int) (fuel : Nat) : List (List Int) :=
    match fuel with
    | 0 => []
    | fuel + 1 => if l.isEmpty then [] else l.take chunk :: chunks (l.drop chunk) fuel
  let tasks := (chunks years 10001).map fun c => Task.spawn fun _ => c.foldl (fun acc y => acc ++ f y) ""
  for t in tasks do
    out.putStr t.get

def isAll (args : List String) : Bool := args.head? == some "all"

def lyearSelected (y : Int) (all : Bool) : Bool :=
  all || y ≤ 30 || (230 ≤ y && y ≤ 245) || y % 50 == 0 || (1580 ≤ y && y ≤ 1584) || y ≥ 9997

def selYears (args : List String) : List Int :=
  (List.range 10000).map (fun (k : Nat) => (k : Int)) |>.filter (lyearSelected · (isAll args))

/-- listed months of year y in the spec's flat table: (signed month, first, len) -/
def flatMonths (y : Int) : List (Int × Int × Int) :=
  let a := P03.flat.yStart.getD y.toNat 0
  let b := P03.flat.yStart.getD (y.toNat + 1) 0
  (List.range (b - a)).map fun i => (P03.flat.ms.getD (a + i) 0, P03.flat.firsts.getD (a + i) 0, P03.flat.lens.getD (a + i) 0)

/-- thorough tier: the 7 listed days are printed for the even years and the years of the quick selection -/
def withDaysOf (args : List String) (y : Int) : Bool := !isAll args || y % 2 == 0 || lyearSelected y false

def perMonthStart (g : Month → Int → String) (y : Int) : String := Id.run do
  let mut b := ""
  for i in [0:E.cnt y] do
    for si in [0:7] do
      b := b ++ g ⟨y, i⟩ si
  return b

def runEnum (name : String) (args : List String) (out : IO.FS.Stream) : Option (IO Unit) :=
  match name with
  | "c14b.weeks" => some <| parYearsL (selYears args) out fun y =>
      perMonthStart (linesWeeks (withDaysOf args y)) y
  | "c14b.step" => some <| parYearsL (selYears []) out (perMonthStart lineStep)
  | "c14b.next" => some <| do
      parYearsL (if isAll args then denseAll else denseQuick) out (fun y => Id.run do
        let mut b := ""
        for k in [0:E.cnt y] do
          let x : Month := ⟨y, k⟩
          for si in [0:7] do
            for i in [0:(monthWeekCount E x si).toNat] do
              b := b ++ lineNext x si i
        return b) 1
      let thin : Int := if isAll args then 8 else 4
      parYearsL (selYears args) out fun y => Id.run do
        let mut b := ""
        for k in [0:E.cnt y] do
          if (y + k) % thin == 0 then
            let x : Month := ⟨y, k⟩
            let (s, _) := sampleOf y k 1
            let (_, i) := sampleOf y k (monthWeekCount E x s)
            b := b ++ lineNext x s i
        return b
  | "c14b.weeks.spec" => some <| do
      let _ := P03.flat
      parYearsL (selYears args) out fun y => Id.run do
        let mut b := ""
        for (m, F, L) in flatMonths y do
          for si in [0:7] do
            b := b ++ linesWeeksSpec (withDaysOf args y) y m F L si
        return b
  | "c14b.next.spec" => some <| do
      parYearsL (if isAll args then denseAll else denseQuick) out (fun y => Id.run do
        let mut b := ""
        for (m, F, L) in flatMonths y do
          for si in [0:7] do
            for i in [0:(specCount F L si).toNat] do
              b := b ++ lineNextSpec y m F L si i
        return b) 1
      let thin : Int := if isAll args then 8 else 4
      parYearsL (selYears args) out fun y => Id.run do
        let mut b := ""
        let mut k : Nat := 0
        for (m, F, L) in flatMonths y do
          if (y + k) % thin == 0 then
            let (s, _) := sampleOf y k 1
            let (_, i) := sampleOf y k (specCount F L s)
            b := b ++ lineNextSpec y m F L s i
          k := k + 1
        return b
  | _ => none

end Tyme.Driver.P14b
