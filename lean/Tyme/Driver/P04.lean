import Tyme.Model.RealEph
import Tyme.Driver.Util
/- C04 driver part: the numbering the no-major-term RULE prescribes for each solstice year, computed from the
new-moon days and zhongqi days only (never reading the table's month numbers). Same text as harness p04.rs. -/
namespace Tyme.Driver.P04
open Tyme Tyme.Driver

def rec (y : Nat) : Nat := yearArr.getD y 0

/-- all lunations of years y-1 and y as (first, len) in order -/
def lunations (y : Nat) : List (Nat × Nat) :=
  let a := rec (y - 1); let b := rec y
  ((List.range (Rec.yCount a)).map fun i => (Rec.sFirst (Rec.slot a i), Rec.sLen (Rec.slot a i))) ++
  ((List.range (Rec.yCount b)).map fun i => (Rec.sFirst (Rec.slot b i), Rec.sLen (Rec.slot b i)))

def ruleLine (y : Nat) : String := Id.run do
  let b := rec y
  let qs : List Nat := (List.range 13).map fun k => Rec.yQi b k
  let q0 := qs.getD 0 0
  let q12 := qs.getD 12 0
  let ls := lunations y
  -- LAST lunation (in listing order) starting on or before the solstice, as the library's date conversion picks it
  let cont (q : Nat) (m : Nat × Nat) : Bool := m.1 ≤ q && q < m.1 + m.2
  let span := (ls.dropWhile fun m => !cont q0 m)
  match span with
  | [] => return "solstice-not-in-month"
  | _ :: rest =>
    -- lunations after A up to and including the one containing q12
    let mut seq : List (Nat × Nat) := []
    let mut done := false
    for m in rest do
      if !done then
        seq := seq ++ [m]
        if cont q12 m then done := true
    let n := seq.length
    let mut out := "11"
    let mut prev := 11
    let mut used := false
    for m in seq do
      let noQi := !(qs.any fun q => m.1 ≤ q && q < m.1 + m.2)
      if n == 13 && !used && noQi then
        out := out ++ s!" -{prev}"
        used := true
      else
        prev := prev % 12 + 1
        out := out ++ s!" {prev}"
    return out

def enumYears (out : IO.FS.Stream) : IO Unit := do
  for y in [27:10000] do
    out.putStrLn (if 238 ≤ y ∧ y ≤ 240 then s!"{y} : excluded" else s!"{y} : {ruleLine y}")

def execOp (_op : String) (_a : List Int) : Option (Option String) := none
def specOp (_op : String) (_a : List Int) : Option (Option String) := none

def runEnum (name : String) (_args : List String) (out : IO.FS.Stream) : Option (IO Unit) :=
  match name with
  | "c04.years.spec" => some (enumYears out)
  | "c04.years.hist.spec" => some (enumYears out)   -- the answers after a history of unusual calls are the same answers
  | _ => none

end Tyme.Driver.P04
