import Tyme.Thm.C14
import Tyme.Thm.C02b
import Tyme.Thm.C13
import Tyme.Lemmas.LunarWeekTotal
/-!
C14, second file — TOTALITY of `LunarWeek::get_first_day` and `LunarWeek::get_days`.

`C14_lunar_real_first_day` / `C14_lunar_real_days` (Thm/C14.lean) speak about calls that *return*: both functions go
through `LunarDay::next(n)` = `get_solar_day().next(n).get_lunar_day()`, and `SolarDay::get_lunar_day` is the
guess-and-walk search of C02, which the model (`Lunar.ofSolar`) runs with a fuel of 40 rounds each way.  Here: for every
well-formed lunar week of a month at least ONE lunar year inside a good interval (lunar years 2..6, 10..21, 26..234,
241..9997 of the data re-extracted from /repo in this run) both calls DO return (`Cont.ofSolar_total`: the fuel is
never exhausted; every intermediate civil date exists), the side conditions of the partial theorems (the seven days lie
in the interval and in the civil years a..b) hold automatically, and so their conclusions hold with no "if the call
returns" hypothesis.  Helpers: `Tyme/Lemmas/LunarWeekTotal.lean`.

Not covered (still resting on the exhaustive correspondence sweep `c14b.weeks` only): the lunar years 1, 7, 9, 22, 25,
235, 237, 238, 240, 9998 at the rims of the good intervals (the walk of `get_lunar_day` may there start from a month of
a junction year), and the junction years themselves (known findings).
-/
namespace Tyme
open Wk LWk Lunar Cont

/-- the side conditions of `C14_lunar_real_first_day` / `C14_lunar_real_days` hold for every well-formed week of a month
at least one lunar year inside a good interval: each of its seven day numbers firstJ .. firstJ+6 is a civil date of
the years a..b and lies between the first new moon of lunar year a and that of lunar year b+1 -/
theorem C14_lunar_week_inside_real (a b : Int) (h : LunarGoodInterval a b) (w : LunarWeek) (hw : LunarWeekOk a b w)
    (hy : a + 1 ≤ w.month.y ∧ w.month.y + 1 ≤ b) (j : Int)
    (hj : firstJ (lunarOps realEph) w ≤ j ∧ j ≤ firstJ (lunarOps realEph) w + 6) :
    a ≤ (ofJdn j).1 ∧ (ofJdn j).1 ≤ b ∧ Lunar.first realEph ⟨a, 0⟩ ≤ j ∧ j < Lunar.first realEph ⟨b + 1, 0⟩ := by
  have G := C14_lunar_real_good a b h
  have ha1 : 1 ≤ a := by
    rcases h with ⟨rfl, _⟩ | ⟨rfl, _⟩ | ⟨rfl, _⟩ | ⟨rfl, _⟩ | ⟨rfl, _⟩ <;> omega
  exact week_days_inside G C13_newYearFacts_real ha1 w hw hy.1 hy.2 j hj.1 hj.2

/-- TOTAL first day (interval form): for every well-formed lunar week of a month of the lunar years a+1 .. b−1 of a good
interval, `get_first_day` RETURNS, and what it returns is the lunar day (month of the interval, day 1..len) with day
number `firstJ`, which falls on the start weekday and whose civil date is the date with that day number -/
theorem C14_lunar_first_day_total_real (a b : Int) (h : LunarGoodInterval a b) (w : LunarWeek) (hw : LunarWeekOk a b w)
    (hy : a + 1 ≤ w.month.y ∧ w.month.y + 1 ≤ b) :
    ∃ r, lunarWeekFirstDay realEph w = some r ∧
      weekOfJdn (firstJ (lunarOps realEph) w) = w.start ∧
      okOn realEph a b r.1 ∧ 1 ≤ r.2 ∧ r.2 ≤ Lunar.len realEph r.1 ∧
      Lunar.first realEph r.1 + r.2 - 1 = firstJ (lunarOps realEph) w ∧
      daySolar realEph r.1 r.2 = some (ofJdn (firstJ (lunarOps realEph) w)) := by
  have G := C14_lunar_real_good a b h
  obtain ⟨i1, i2, i3, _⟩ := C14_lunar_week_inside_real a b h w hw hy (firstJ (lunarOps realEph) w) ⟨by omega, by omega⟩
  obtain ⟨r, hr⟩ := lunarWeekFirstDay_total G C13_newYearFacts_real C02_first_year_real w hw ⟨i1, i2⟩ i3
  exact ⟨r, hr, C14_lunar_real_first_day a b h w hw ⟨i1, i2⟩ i3 r hr⟩

/-- TOTAL seven days (interval form): for every such week `get_days` RETURNS a list of exactly 7 lunar days (month of
the interval, day 1..len) with the day numbers firstJ, firstJ+1, …, firstJ+6 -/
theorem C14_lunar_days_total_real (a b : Int) (h : LunarGoodInterval a b) (w : LunarWeek) (hw : LunarWeekOk a b w)
    (hy : a + 1 ≤ w.month.y ∧ w.month.y + 1 ≤ b) :
    ∃ l, lunarWeekDays realEph w = some l ∧ l.length = 7 ∧ ∀ (k : Nat) (hk : k < l.length),
      okOn realEph a b l[k].1 ∧ 1 ≤ l[k].2 ∧ l[k].2 ≤ Lunar.len realEph l[k].1 ∧
      Lunar.first realEph l[k].1 + l[k].2 - 1 = firstJ (lunarOps realEph) w + k := by
  have G := C14_lunar_real_good a b h
  have hin := fun (k : Nat) (hk : k < 7) =>
    C14_lunar_week_inside_real a b h w hw hy (firstJ (lunarOps realEph) w + k) ⟨by omega, by omega⟩
  have hY : ∀ k : Nat, k < 7 → a ≤ (ofJdn (firstJ (lunarOps realEph) w + k)).1 ∧
      (ofJdn (firstJ (lunarOps realEph) w + k)).1 ≤ b := fun k hk => ⟨(hin k hk).1, (hin k hk).2.1⟩
  have hlo : Lunar.first realEph ⟨a, 0⟩ ≤ firstJ (lunarOps realEph) w := by
    have := (hin 0 (by omega)).2.2.1
    simpa using this
  have hhi : firstJ (lunarOps realEph) w + 6 < Lunar.first realEph ⟨b + 1, 0⟩ := (hin 6 (by omega)).2.2.2
  obtain ⟨l, hl⟩ := lunarWeekDays_total G C13_newYearFacts_real C02_first_year_real w hw hY hlo hhi
  exact ⟨l, hl, C14_lunar_real_days a b h w hw hY hlo hhi l hl⟩

/-- a week with a well-formed month of the listed lunar years, a start weekday 0..6 and an index below the week count
is a well-formed week of the good interval containing its year, at least one year inside it -/
theorem C14_lunar_week_of_years (w : LunarWeek) (hm : WF realEph w.month) (hs : 0 ≤ w.start ∧ w.start ≤ 6)
    (hi : 0 ≤ w.index ∧ w.index < monthWeekCount realEph w.month w.start)
    (hy : (2 ≤ w.month.y ∧ w.month.y ≤ 6) ∨ (10 ≤ w.month.y ∧ w.month.y ≤ 21) ∨ (26 ≤ w.month.y ∧ w.month.y ≤ 234) ∨
      (241 ≤ w.month.y ∧ w.month.y ≤ 9997)) :
    ∃ a b, LunarGoodInterval a b ∧ LunarWeekOk a b w ∧ a + 1 ≤ w.month.y ∧ w.month.y + 1 ≤ b := by
  have mk : ∀ a b : Int, a ≤ w.month.y → w.month.y ≤ b → LunarWeekOk a b w := fun a b h1 h2 =>
    ⟨⟨hm, h1, h2⟩, hs.1, hs.2, hi.1, hi.2⟩
  rcases hy with hy | hy | hy | hy
  · exact ⟨1, 7, Or.inl ⟨rfl, rfl⟩, mk 1 7 (by omega) (by omega), by omega, by omega⟩
  · exact ⟨9, 22, Or.inr (Or.inl ⟨rfl, rfl⟩), mk 9 22 (by omega) (by omega), by omega, by omega⟩
  · exact ⟨25, 235, Or.inr (Or.inr (Or.inl ⟨rfl, rfl⟩)), mk 25 235 (by omega) (by omega), by omega, by omega⟩
  · exact ⟨240, 9998, Or.inr (Or.inr (Or.inr (Or.inr ⟨rfl, rfl⟩))), mk 240 9998 (by omega) (by omega), by omega, by omega⟩

/-- TOTAL first day, explicit years: for EVERY lunar month of the lunar years 2..6, 10..21, 26..234, 241..9997 of this
run's data, every start weekday and every week index below the week count, `get_first_day` RETURNS the lunar day with
day number `firstJ` (a well-formed month, day 1..len), which falls on the start weekday, and whose civil date is the date
with that day number -/
theorem C14_lunar_first_day_total_years (w : LunarWeek) (hm : WF realEph w.month) (hs : 0 ≤ w.start ∧ w.start ≤ 6)
    (hi : 0 ≤ w.index ∧ w.index < monthWeekCount realEph w.month w.start)
    (hy : (2 ≤ w.month.y ∧ w.month.y ≤ 6) ∨ (10 ≤ w.month.y ∧ w.month.y ≤ 21) ∨ (26 ≤ w.month.y ∧ w.month.y ≤ 234) ∨
      (241 ≤ w.month.y ∧ w.month.y ≤ 9997)) :
    ∃ r, lunarWeekFirstDay realEph w = some r ∧
      weekOfJdn (firstJ (lunarOps realEph) w) = w.start ∧
      WF realEph r.1 ∧ 1 ≤ r.2 ∧ r.2 ≤ Lunar.len realEph r.1 ∧
      Lunar.first realEph r.1 + r.2 - 1 = firstJ (lunarOps realEph) w ∧
      daySolar realEph r.1 r.2 = some (ofJdn (firstJ (lunarOps realEph) w)) := by
  obtain ⟨a, b, h, hw, y1, y2⟩ := C14_lunar_week_of_years w hm hs hi hy
  obtain ⟨r, hr, c1, c2, c3⟩ := C14_lunar_first_day_total_real a b h w hw ⟨y1, y2⟩
  exact ⟨r, hr, c1, c2.1, c3⟩

/-- TOTAL seven days, explicit years: for every such week `get_days` RETURNS exactly 7 lunar days (well-formed month,
day 1..len) with the consecutive day numbers firstJ, firstJ+1, …, firstJ+6 -/
theorem C14_lunar_days_total_years (w : LunarWeek) (hm : WF realEph w.month) (hs : 0 ≤ w.start ∧ w.start ≤ 6)
    (hi : 0 ≤ w.index ∧ w.index < monthWeekCount realEph w.month w.start)
    (hy : (2 ≤ w.month.y ∧ w.month.y ≤ 6) ∨ (10 ≤ w.month.y ∧ w.month.y ≤ 21) ∨ (26 ≤ w.month.y ∧ w.month.y ≤ 234) ∨
      (241 ≤ w.month.y ∧ w.month.y ≤ 9997)) :
    ∃ l, lunarWeekDays realEph w = some l ∧ l.length = 7 ∧ ∀ (k : Nat) (hk : k < l.length),
      WF realEph l[k].1 ∧ 1 ≤ l[k].2 ∧ l[k].2 ≤ Lunar.len realEph l[k].1 ∧
      Lunar.first realEph l[k].1 + l[k].2 - 1 = firstJ (lunarOps realEph) w + k := by
  obtain ⟨a, b, h, hw, y1, y2⟩ := C14_lunar_week_of_years w hm hs hi hy
  obtain ⟨l, hl, h7, hall⟩ := C14_lunar_days_total_real a b h w hw ⟨y1, y2⟩
  refine ⟨l, hl, h7, fun k hk => ?_⟩
  obtain ⟨c1, c2⟩ := hall k hk
  exact ⟨c1.1, c2⟩

/-! ### non-vacuity: a concrete week meets the hypotheses (kernel evaluation of the extracted table) -/

example : LunarGoodInterval 240 9998 ∧ LunarWeekOk 240 9998 ⟨⟨2024, 0⟩, 0, 0⟩ ∧
    (240 + 1 ≤ (⟨⟨2024, 0⟩, 0, 0⟩ : LunarWeek).month.y ∧ (⟨⟨2024, 0⟩, 0, 0⟩ : LunarWeek).month.y + 1 ≤ 9998) ∧
    WF realEph ⟨2024, 0⟩ ∧ (0 : Int) < monthWeekCount realEph ⟨2024, 0⟩ 0 ∧
    (241 ≤ (2024 : Int) ∧ (2024 : Int) ≤ 9997) := by
  have hwf : WF realEph ⟨2024, 0⟩ := by
    refine ⟨by decide, by decide, ?_⟩
    show 0 < realEph.cnt 2024
    decide +kernel
  have hc : (0 : Int) < monthWeekCount realEph ⟨2024, 0⟩ 0 := by decide +kernel
  exact ⟨Or.inr (Or.inr (Or.inr (Or.inr ⟨rfl, rfl⟩))),
    ⟨⟨hwf, by decide, by decide⟩, by decide, by decide, by decide, hc⟩, ⟨by decide, by decide⟩, hwf, hc, by decide⟩

end Tyme
