import Tyme.Facts.C18GodsA
import Tyme.Facts.C18GodsB
import Tyme.Facts.C18GodsC
import Tyme.Facts.C18GodsD
import Tyme.Facts.C18DayA
import Tyme.Facts.C18DayB
import Tyme.Facts.C18DayC
import Tyme.Facts.C18DayD
import Tyme.Facts.C18Names
import Tyme.Facts.C18Hour
import Tyme.Facts.C18Misc
/-!
C18 — almanac lookup tables are total and well-formed for every pillar pair.

Domain (finite, enumerated completely by the kernel on data regenerated from the code on every run):
all 12 month branches × 60 day pillars (spirits, day activities), all 60 day pillars × 12 hour branches (hour
activities), all 151 spirits, all lunar years −1..9999. Kernel enumeration of a finite domain is a proof; the
generic parts (`C18_kitchen_all_pillars`, `C18_steps_to_lt`, `C18_wellformed_decodes`) hold for ALL inputs.

Objects (see `Model/Almanac.lean`, `Model/AlmanacTables.lean`, `Spec/Almanac.lean`, `Facts/C18Defs.lean`):
* `rawDayGods`, `rawDayTaboo`, `rawHourTaboo`, `rawGodNames`, `rawTabooNames` — the private statics `DAY_GODS`,
  `DAY_TABOO`, `HOUR_TABOO`, `GOD_NAMES`, `TABOO_NAMES` lifted from the Rust source text (bytes);
  `godCount`/`tabooCount` = number of names;
* `extGods`, `extDayRec`, `extDayAvoid`, `extHourRec`, `extHourAvoid`, `extLuck`, `extKitchen` — what the API returns;
* `godRecord` (regex `;HH(.[^;]*)` as leftmost scan), `tabooRecord`/`tabooField` (`split(';')`/`split(',')`),
  `hexPairs`/`dayGodsRaw`/`taboosRaw` (hex-pair loop with `from_str_radix`), `dayGods`/`dayTaboos`/`hourTaboos`
  (after `from_index`), `luck`, `kitchen` — the model of the code;
* `fieldValues` (spec of a well-formed index field), `luckOf`, `AlmanacSpec.kitchen` — the specification.

`GodsPair mb d r e` says: record `r` is found for (month branch `mb`, day pillar `d`), it is an even number of hex
digits whose pairs are `e`, every value `< godCount`, `e ≠ []`, and the API returns `e`.
`TabooPair tbl xr xa sup sub fr fa er ea` says: the record of (row `sup`, day pillar `sub`) exists and has exactly the
two fields `fr`, `fa`; they are well formed with values `er`, `ea`, all `< tabooCount`, disjoint, and the API returns them.

Known finding (not repaired, see known_findings.json → Gen/C18Known.lean): lunar year −1 has no kitchen-god
attributes (construction panics); `C18_kitchen_partial` excludes exactly the listed years, `C18_kitchen_full` is the
full-strength statement.
-/
namespace Tyme
open Almanac AlmanacSpec Gen

/-! ### day spirits -/

/-- For each of the 12 month branches × 60 day pillars: the record is found by the scan, decodes without failure into
positions of `GOD_NAMES`, is not empty, and is what `God::get_day_gods` returns. -/
theorem C18_gods (mb d : Nat) (hm : mb < 12) (hd : d < 60) : ∃ r e, GodsPair mb d r e :=
  forall_lt_12 (P := fun mb => ∀ d, d < 60 → ∃ r e, GodsPair mb d r e)
    (godsRowOk_spec C18_fact_gods_0) (godsRowOk_spec C18_fact_gods_1) (godsRowOk_spec C18_fact_gods_2)
    (godsRowOk_spec C18_fact_gods_3) (godsRowOk_spec C18_fact_gods_4) (godsRowOk_spec C18_fact_gods_5)
    (godsRowOk_spec C18_fact_gods_6) (godsRowOk_spec C18_fact_gods_7) (godsRowOk_spec C18_fact_gods_8)
    (godsRowOk_spec C18_fact_gods_9) (godsRowOk_spec C18_fact_gods_10) (godsRowOk_spec C18_fact_gods_11) mb hm d hd

/-- decode(raw) = API for every month *pillar* and day pillar: the code's decoder applied to the lifted table yields an
even-length record, integers that are all inside the list (so `from_index` wraps nothing), and exactly the API's list. -/
theorem C18_gods_decode (mp d : Nat) (_hm : mp < 60) (hd : d < 60) :
    ∃ r e, godRecord rawDayGods (mp % 12) d = some (some r) ∧ r.length = 2 * e.length ∧ e ≠ [] ∧
      dayGodsRaw rawDayGods (mp % 12) d = some (e.map Int.ofNat) ∧ (∀ v ∈ e, v < godCount) ∧
      dayGods rawDayGods godCount mp d = some e ∧ extGods (mp % 12) d = some e := by
  obtain ⟨r, e, h⟩ := C18_gods (mp % 12) d (Nat.mod_lt _ (by omega)) hd
  refine ⟨r, e, h.found, length_of_fieldValues r e h.parses, h.nonempty, h.decode, h.inRange, ?_, h.api⟩
  unfold dayGods; rw [h.decode]; exact wrapAll_of_lt e h.inRange

/-- Generic (ANY text, ANY label): if a text is laid out as labelled records — `;`, two label bytes, a non-empty field,
no `;` or newline inside labels and fields, optionally one trailing `;` — then the leftmost match of the code's regex
`;H₁H₂(.[^;]*)` is exactly the field of the first record labelled `H₁H₂`: a misaligned match is impossible. -/
theorem C18_scan_aligned (h1 h2 : Nat) (tail : List Nat) (ht : tail = [] ∨ tail = [59])
    (blocks : List (Nat × Nat × List Nat)) (hclean : ∀ blk ∈ blocks, cleanBlock blk = true) :
    findRecord h1 h2 (renderBlocks blocks ++ tail) = blockField blocks h1 h2 :=
  findRecord_render h1 h2 tail ht blocks hclean

/-- Each of the 12 `DAY_GODS` strings is laid out that way (checked by re-rendering its records and comparing with the
lifted text byte for byte), so `C18_scan_aligned` applies to every look-up the code can make in them. -/
theorem C18_gods_layout (mb : Nat) (hm : mb < 12) :
    ∃ s, rawDayGods[godTableIndex mb]? = some s ∧ layoutOk s (blocksOf s) = true :=
  forall_lt_12 (P := fun mb => ∃ s, rawDayGods[godTableIndex mb]? = some s ∧ layoutOk s (blocksOf s) = true)
    (godsRowOk_layout C18_fact_gods_0) (godsRowOk_layout C18_fact_gods_1) (godsRowOk_layout C18_fact_gods_2)
    (godsRowOk_layout C18_fact_gods_3) (godsRowOk_layout C18_fact_gods_4) (godsRowOk_layout C18_fact_gods_5)
    (godsRowOk_layout C18_fact_gods_6) (godsRowOk_layout C18_fact_gods_7) (godsRowOk_layout C18_fact_gods_8)
    (godsRowOk_layout C18_fact_gods_9) (godsRowOk_layout C18_fact_gods_10) (godsRowOk_layout C18_fact_gods_11) mb hm

/-! ### day activities -/

/-- For each of the 12 month branches × 60 day pillars: recommends and avoids decode without failure into positions of
`TABOO_NAMES`, no activity is both recommended and avoided, and they are what the API returns. -/
theorem C18_day_taboo (mb d : Nat) (hm : mb < 12) (hd : d < 60) :
    ∃ fr fa er ea, TabooPair rawDayTaboo (extDayRec mb d) (extDayAvoid mb d) mb d fr fa er ea :=
  forall_lt_12 (P := fun mb => ∀ d, d < 60 → ∃ fr fa er ea, TabooPair rawDayTaboo (extDayRec mb d) (extDayAvoid mb d) mb d fr fa er ea)
    (tabooRowOk_spec C18_fact_day_0) (tabooRowOk_spec C18_fact_day_1) (tabooRowOk_spec C18_fact_day_2)
    (tabooRowOk_spec C18_fact_day_3) (tabooRowOk_spec C18_fact_day_4) (tabooRowOk_spec C18_fact_day_5)
    (tabooRowOk_spec C18_fact_day_6) (tabooRowOk_spec C18_fact_day_7) (tabooRowOk_spec C18_fact_day_8)
    (tabooRowOk_spec C18_fact_day_9) (tabooRowOk_spec C18_fact_day_10) (tabooRowOk_spec C18_fact_day_11) mb hm d hd

/-- decode(raw) = API for every month pillar and day pillar, both lists, nothing wrapped, disjoint. -/
theorem C18_day_taboo_decode (mp d : Nat) (_hm : mp < 60) (hd : d < 60) :
    ∃ er ea, dayTaboos rawDayTaboo tabooCount mp d 0 = some er ∧ dayTaboos rawDayTaboo tabooCount mp d 1 = some ea ∧
      taboosRaw rawDayTaboo (mp % 12) d 0 = some (er.map Int.ofNat) ∧ taboosRaw rawDayTaboo (mp % 12) d 1 = some (ea.map Int.ofNat) ∧
      (∀ v ∈ er, v < tabooCount) ∧ (∀ v ∈ ea, v < tabooCount) ∧ (∀ v ∈ er, v ∉ ea) ∧
      extDayRec (mp % 12) d = some er ∧ extDayAvoid (mp % 12) d = some ea := by
  obtain ⟨fr, fa, er, ea, h⟩ := C18_day_taboo (mp % 12) d (Nat.mod_lt _ (by omega)) hd
  refine ⟨er, ea, ?_, ?_, h.decodeR, h.decodeA, h.inRangeR, h.inRangeA, h.disjoint, h.apiR, h.apiA⟩
  · unfold dayTaboos; rw [h.decodeR]; exact wrapAll_of_lt er h.inRangeR
  · unfold dayTaboos; rw [h.decodeA]; exact wrapAll_of_lt ea h.inRangeA

/-! ### hour activities -/

/-- For each of the 60 day pillars × 12 hour branches: likewise on `HOUR_TABOO` (row = hour branch, entry = day pillar). -/
theorem C18_hour_taboo (d hb : Nat) (hd : d < 60) (hh : hb < 12) :
    ∃ fr fa er ea, TabooPair rawHourTaboo (extHourRec d hb) (extHourAvoid d hb) hb d fr fa er ea :=
  forall_lt_12 (P := fun hb => ∀ d, d < 60 → ∃ fr fa er ea, TabooPair rawHourTaboo (extHourRec d hb) (extHourAvoid d hb) hb d fr fa er ea)
    (tabooRowOk_spec C18_fact_hour_0) (tabooRowOk_spec C18_fact_hour_1) (tabooRowOk_spec C18_fact_hour_2)
    (tabooRowOk_spec C18_fact_hour_3) (tabooRowOk_spec C18_fact_hour_4) (tabooRowOk_spec C18_fact_hour_5)
    (tabooRowOk_spec C18_fact_hour_6) (tabooRowOk_spec C18_fact_hour_7) (tabooRowOk_spec C18_fact_hour_8)
    (tabooRowOk_spec C18_fact_hour_9) (tabooRowOk_spec C18_fact_hour_10) (tabooRowOk_spec C18_fact_hour_11) hb hh d hd

/-- decode(raw) = API for every day pillar and hour pillar. -/
theorem C18_hour_taboo_decode (d hp : Nat) (hd : d < 60) (_hh : hp < 60) :
    ∃ er ea, hourTaboos rawHourTaboo tabooCount d hp 0 = some er ∧ hourTaboos rawHourTaboo tabooCount d hp 1 = some ea ∧
      taboosRaw rawHourTaboo (hp % 12) d 0 = some (er.map Int.ofNat) ∧ taboosRaw rawHourTaboo (hp % 12) d 1 = some (ea.map Int.ofNat) ∧
      (∀ v ∈ er, v < tabooCount) ∧ (∀ v ∈ ea, v < tabooCount) ∧ (∀ v ∈ er, v ∉ ea) ∧
      extHourRec d (hp % 12) = some er ∧ extHourAvoid d (hp % 12) = some ea := by
  obtain ⟨fr, fa, er, ea, h⟩ := C18_hour_taboo d (hp % 12) hd (Nat.mod_lt _ (by omega))
  refine ⟨er, ea, ?_, ?_, h.decodeR, h.decodeA, h.inRangeR, h.inRangeA, h.disjoint, h.apiR, h.apiA⟩
  · unfold hourTaboos; rw [h.decodeR]; exact wrapAll_of_lt er h.inRangeR
  · unfold hourTaboos; rw [h.decodeA]; exact wrapAll_of_lt ea h.inRangeA

/-! ### generic: well-formed ⇒ decodes (all inputs) -/

/-- For ANY byte string: if it is a well-formed index field (spec) with values `e` all below `size`, the code's hex-pair
loop accepts it, yields exactly `e` with nothing negative, the length is even, and `from_index` moves nothing. -/
theorem C18_wellformed_decodes (size : Nat) (f : List Nat) (e : List Nat) (h : fieldValues f = some e)
    (hr : ∀ v ∈ e, v < size) :
    hexPairs f = some (e.map Int.ofNat) ∧ f.length % 2 = 0 ∧ wrapAll size (hexPairs f) = some e := by
  have h1 := hexPairs_of_fieldValues f e h
  refine ⟨h1, ?_, ?_⟩
  · rw [length_of_fieldValues f e h]; omega
  · rw [h1]; exact wrapAll_of_lt e hr

/-! ### names -/

/-- The name lists lifted from the source are the lists the API uses (same names, same sizes: 151 and 141), and names
are pairwise distinct — so "same activity" (the library compares names) is "same index". -/
theorem C18_names :
    rawGodNames = extGodNames ∧ rawTabooNames = extTabooNames ∧ godCount = 151 ∧ tabooCount = 141 ∧
    C18Ext.godSize = 151 ∧ C18Ext.tabooSize = 141 ∧ rawTabooNames.Nodup ∧ rawGodNames.Nodup := by
  obtain ⟨a, b, c, d⟩ := C18_fact_names
  obtain ⟨e, f, _⟩ := C18_fact_sizes
  exact ⟨a, b, e, f, by rw [← c, e], by rw [← d, f], C18_fact_names_nodup.1, C18_fact_names_nodup.2⟩

/-! ### luck -/

/-- Every spirit: the API's class is the model's (`index < 60`), which is the spec's (auspicious ⇔ listed before 五虚),
and the auspicious part of the list is exactly positions 0..59 (解除 at 59, 五虚 at 60). -/
theorem C18_luck (i : Nat) (hi : i < 151) :
    extLuck i = some (luck i) ∧ luck i = luckOf rawGodNames i ∧
    (luck i = 0 ↔ i < 60) ∧ (luck i = 1 ↔ 60 ≤ i) ∧
    (i < 60 ↔ i < position firstOminous rawGodNames) := by
  have hc : godCount = 151 := C18_fact_sizes.1
  obtain ⟨h1, h2⟩ := luckOk_spec C18_fact_luck i (by omega)
  refine ⟨h1, h2, ?_, ?_, ?_⟩
  · unfold luck; split <;> simp_all
  · unfold luck; split <;> simp_all <;> omega
  · rw [C18_fact_split.1]

/-! ### kitchen god -/

/-- Full-strength statement: for EVERY lunar year −1..9999 the attributes exist, are the model's numbers for the New Year
day pillar, equal the spec (ordinal of the first day carrying the sign), and lie in 1..12. -/
def C18_kitchen_full : Prop :=
  ∀ y : Int, -1 ≤ y → y ≤ 9999 →
    ∃ p nums, extKitchen y = some (p, nums) ∧ p < 60 ∧ Almanac.kitchen p = some nums ∧
      AlmanacSpec.kitchen p = nums.map some ∧ ∀ x ∈ nums, 1 ≤ x ∧ x ≤ 12

/-- Proved part: every lunar year −1..9999 that is not a listed known finding (`C18Known.kitchenYears`, generated from
known_findings.json; on the pinned tree exactly year −1, whose construction panics). -/
theorem C18_kitchen_partial (y : Int) (h1 : -1 ≤ y) (h2 : y ≤ 9999) (hk : y ∉ C18Known.kitchenYears) :
    ∃ p nums, extKitchen y = some (p, nums) ∧ p < 60 ∧ Almanac.kitchen p = some nums ∧
      AlmanacSpec.kitchen p = nums.map some ∧ ∀ x ∈ nums, 1 ≤ x ∧ x ≤ 12 :=
  kitchenOk_spec C18_fact_kitchen y h1 h2 hk

/-- Generic: `steps_to` of ANY target from ANY element of a non-empty cycle is below the cycle size, so with
`size ≤ 12` the look-up `NUMBERS[steps_to(n)]` never leaves the 12-entry table and shows a number in 1..size. -/
theorem C18_steps_to_lt (index size : Nat) (target : Int) (h0 : 0 < size) (h12 : size ≤ 12) :
    stepsTo index size target < size ∧
    ∃ k, numberAt (stepsTo index size target) = some k ∧ 1 ≤ k ∧ k ≤ size := by
  have h := stepsTo_lt index h0 target
  refine ⟨h, stepsTo index size target + 1, ?_, by omega, by omega⟩
  unfold numberAt; rw [if_pos (by omega)]

/-- Generic: for ANY New Year day pillar index whatsoever (not only 0..59) all 16 numbers exist, are in 1..12, and are
the spec's. -/
theorem C18_kitchen_all_pillars (p : Nat) :
    ∃ nums, Almanac.kitchen p = some nums ∧ nums.length = 16 ∧ AlmanacSpec.kitchen p = nums.map some ∧
      ∀ x ∈ nums, 1 ≤ x ∧ x ≤ 12 := by
  have hm : p % 60 < 60 := Nat.mod_lt _ (by omega)
  obtain ⟨_, t2, t3, t4⟩ := kitchenT60_spec (p % 60) hm
  have e12 : p % 60 % 12 = p % 12 := by omega
  have e10 : p % 60 % 10 = p % 10 := by omega
  have hk : Almanac.kitchen p = Almanac.kitchen (p % 60) := by
    unfold Almanac.kitchen kitchenSlots byBranch byStem; rw [e12, e10]
  have hs : AlmanacSpec.kitchen p = AlmanacSpec.kitchen (p % 60) := by
    unfold AlmanacSpec.kitchen; rw [e12, e10]
  refine ⟨numsOfRec (kitchenT60At (p % 60)), by rw [hk]; exact t2, ?_, by rw [hs]; exact t3, t4⟩
  simp [numsOfRec, unpack]

/-! ### non-vacuity: the hypotheses are satisfiable, the statements talk about real data -/

example : ∃ mb d, mb < 12 ∧ d < 60 ∧ ∃ r e, GodsPair mb d r e := ⟨11, 59, by decide, by decide, C18_gods 11 59 (by decide) (by decide)⟩
example : ∃ e, extGods 0 0 = some e ∧ e ≠ [] := by
  obtain ⟨r, e, h⟩ := C18_gods 0 0 (by decide) (by decide); exact ⟨e, h.api, h.nonempty⟩
example : ∃ er ea, extDayRec 3 17 = some er ∧ extDayAvoid 3 17 = some ea ∧ ∀ v ∈ er, v ∉ ea := by
  obtain ⟨_, _, er, ea, h⟩ := C18_day_taboo 3 17 (by decide) (by decide); exact ⟨er, ea, h.apiR, h.apiA, h.disjoint⟩
example : ∃ er ea, extHourRec 59 11 = some er ∧ extHourAvoid 59 11 = some ea := by
  obtain ⟨_, _, er, ea, h⟩ := C18_hour_taboo 59 11 (by decide) (by decide); exact ⟨er, ea, h.apiR, h.apiA⟩
example : findRecord 48 49 [59, 48, 48, 65, 66, 59, 48, 49, 67, 68, 59] = some [67, 68] := by decide  -- ";00AB;01CD;" scanned for "01"
example : cleanBlock (48, 49, [67, 68]) = true ∧ renderBlocks [(48, 48, [65, 66]), (48, 49, [67, 68])] ++ [59] = [59, 48, 48, 65, 66, 59, 48, 49, 67, 68, 59] := by decide
example : fieldValues [48, 70, 57, 54] = some [15, 150] := by decide      -- "0F96"
example : fieldValues [57, 55] = some [151] ∧ ¬ (151 < 151) := by decide    -- "97" parses but is outside GOD_NAMES
example : extLuck 59 = some 0 ∧ extLuck 60 = some 1 := ⟨(C18_luck 59 (by decide)).1, (C18_luck 60 (by decide)).1⟩
example : (2024 : Int) ∉ C18Known.kitchenYears := by decide
example : ∃ p nums, extKitchen 2024 = some (p, nums) ∧ p < 60 :=
  let ⟨p, nums, h, hp, _⟩ := C18_kitchen_partial 2024 (by decide) (by decide) (by decide); ⟨p, nums, h, hp⟩
example : Almanac.kitchen 40 = some [9, 9, 10, 12, 1, 3, 6, 6, 8, 1, 3, 8, 11, 3, 11, 4] := by decide  -- 甲辰 New Year (2024): 九鼠偷粮 … 一龙治水
example : stepsTo 4 12 0 = 8 ∧ stepsTo 9 10 (-3) = 8 := by decide

end Tyme
