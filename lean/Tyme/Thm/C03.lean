import Tyme.Facts.Months
import Tyme.Lemmas.Lunar
/-!
C03 — lunar months tile time. Property theorems only; every obligation is named `C03_*`.

Data layer: `realEph` = the lunar-month table re-extracted from /repo on every run (Gen/Months*).
Table facts are decided by kernel evaluation over ALL 10,000 lunar years (123,684 lunations).
Logic layer: `Lunar.next`, `Lunar.fromYm` (Model/Lunar.lean) for an ARBITRARY ephemeris.
-/
namespace Tyme
open Lunar

/-- TABLE FACT (complete enumeration): in every lunar year 0..9998 except the five D4 years {8,23,24,236,239}
consecutive months abut, have 29 or 30 days, the year has 12 months or 13 with a leap month ≤ 12, the next
year starts the day after the last month ends, and the year is 353–355 or 383–385 days long. -/
theorem C03_tiles_fact : Packed.adjRec 1024 yearPair Gen.monthsChunks = true := years_tile_fact

/-- The same, as a statement about the extracted ephemeris (what the generic theorems consume). -/
theorem C03_tiles (y : Nat) (hy : y ≤ 9998) (hb : badYear y = false) : TilesYear realEph y :=
  realEph_tiles y hy hb

/-- Year length = distance between successive lunar new-year days, in the stated ranges (corollary). -/
theorem C03_year_length (y : Nat) (hy : y ≤ 9998) (hb : badYear y = false) :
    let n := realEph.mFirst (y + 1) 0 - realEph.mFirst y 0
    (353 ≤ n ∧ n ≤ 355) ∨ (383 ≤ n ∧ n ≤ 385) := (realEph_tiles y hy hb).yearLen

/-- 12 months, or 13 exactly when the year has a leap month (definition of the count the code uses)
and the leap month number is ≤ 12 — for EVERY lunar year of the table, no exceptions. -/
theorem C03_leap_le (y : Int) : realEph.leap y ≤ 12 := realEph_leap_le y

/-- Month numbering along the listing: 1,2,…, the leap month directly after the regular month of the
same number, then the rest — for any ephemeris. -/
theorem C03_leap_follows_twin (E : Eph) (y : Int) (h : 0 < E.leap y) :
    monthWithLeap E ⟨y, E.leap y - 1⟩ = (E.leap y : Int) ∧ monthWithLeap E ⟨y, E.leap y⟩ = -(E.leap y : Int) ∧
    monthWithLeap E ⟨y, E.leap y + 1⟩ = (E.leap y : Int) + 1 := by
  unfold monthWithLeap
  dsimp only
  generalize E.leap y = lp at *
  refine ⟨?_, ?_, ?_⟩
  all_goals (repeat' split)
  all_goals omega

/-- `next n` lands exactly n places further along the listing — for ALL n and any ephemeris with leap ≤ 12. -/
theorem C03_next_pos (E : Eph) (hl : ∀ y, E.leap y ≤ 12) (x x' : Month) (hx : WF E x) (n : Int)
    (h : next E x n = some x') : WF E x' ∧ gpos E x' = gpos E x + n := next_gpos E hl x hx n x' h

/-- stepping by a then b equals stepping by a+b (whenever all three are accepted) -/
theorem C03_next_add (E : Eph) (hl : ∀ y, E.leap y ≤ 12) (x x1 x2 x3 : Month) (hx : WF E x) (a b : Int)
    (h1 : next E x a = some x1) (h2 : next E x1 b = some x2) (h3 : next E x (a + b) = some x3) : x3 = x2 := by
  obtain ⟨w1, p1⟩ := next_gpos E hl x hx a x1 h1
  obtain ⟨w2, p2⟩ := next_gpos E hl x1 w1 b x2 h2
  obtain ⟨w3, p3⟩ := next_gpos E hl x hx (a + b) x3 h3
  exact gpos_inj E x3 x2 w3 w2 (by omega)

/-- forward then back returns to the same month -/
theorem C03_next_neg (E : Eph) (hl : ∀ y, E.leap y ≤ 12) (x x1 x2 : Month) (hx : WF E x) (n : Int)
    (h1 : next E x n = some x1) (h2 : next E x1 (-n) = some x2) : x2 = x := by
  obtain ⟨w1, p1⟩ := next_gpos E hl x hx n x1 h1
  obtain ⟨w2, p2⟩ := next_gpos E hl x1 w1 (-n) x2 h2
  exact gpos_inj E x2 x w2 hx (by omega)

/-- instantiation for the current tree's data -/
theorem C03_next_pos_real (x x' : Month) (hx : WF realEph x) (n : Int) (h : next realEph x n = some x') :
    WF realEph x' ∧ gpos realEph x' = gpos realEph x + n := next_gpos realEph realEph_leap_le x hx n x' h

/-- non-vacuity: a concrete step across a leap year boundary of the real data is accepted -/
example : (next realEph ⟨2023, 2⟩ 12).isSome = true ∧ (fromYm realEph 2023 (-2)).isSome = true := by
  constructor <;> decide +kernel

end Tyme
