import Tyme.Lemmas.Pillar
import Tyme.Thm.C02
/-!
C08 (end to end) — for the data re-extracted from /repo: the day view of every civil date inside a tiling interval
equals the rule: year pillar = (Y* − 4) mod 60 with Y* = Y from the Lichun day of Y on, else Y − 1; the month is
the k-th month after that Lichun (k = number of Jie days passed = ⌊(term − Lichun)/2⌋ on the global term sequence),
branch (2 + k) mod 12 (Yin at Lichun), stem by Five Tigers from the stem of Y*.
Obligations `C08_*` (this file is part of the C08 check).
-/
namespace Tyme
open Lunar SC

theorem jan_mono (p q : Int) (hp : 1 ≤ p) (hpq : p ≤ q) (hq : q ≤ 9999) : jdn p 1 1 ≤ jdn q 1 1 := by
  rcases Int.lt_or_eq_of_le hpq with hlt | heq
  · have v1 : Civil.validT (p, 1, 1) = true := by
      show Civil.valid p 1 1 = true
      rw [valid_iff, lastDay_eq]; simp; omega
    have v2 : Civil.validT (q, 1, 1) = true := by
      show Civil.valid q 1 1 = true
      rw [valid_iff, lastDay_eq]; simp; omega
    have := (C01_lt_iff (p, 1, 1) (q, 1, 1) v1 v2).1 (by unfold Civil.lt; dsimp only; omega)
    exact Int.le_of_lt this
  · rw [heq]; exact Int.le_refl _

/-- END-TO-END (day view = rule) on the current tree's data, for every civil date of the years a+1 .. b−1 of any
interval [a, b] of lunar years on which the month table tiles (instantiated below for 241..9997 etc.). -/
theorem C08_day_spec (a b : Nat) (ha1 : 1 ≤ a) (hab : a + 1 ≤ b) (hb : b ≤ 9998) (ht : TilesOn realEph a b)
    (Y M D : Int) (hv : Civil.valid Y M D = true) (hY1 : (a : Int) + 1 ≤ Y) (hY2 : Y + 1 ≤ b)
    (v : DayView) (h : ofSolarDay realEph Y M D = some v) :
    let spring := realEph.termDay (24 * (Y - 1) + 3).toNat
    let ystar := if jdn Y M D < spring then Y - 1 else Y
    v.year = (ystar - 4) % 60 ∧
    ∃ g kk, Term.ofDay realEph Y M D = some (g, kk) ∧
      0 ≤ ((g : Int) - (24 * (ystar - 1) + 3)) / 2 ∧ ((g : Int) - (24 * (ystar - 1) + 3)) / 2 ≤ 11 ∧
      v.month % 12 = (2 + ((g : Int) - (24 * (ystar - 1) + 3)) / 2) % 12 ∧
      v.month % 10 = ((((ystar - 4) % 60) % 10 + 1) * 2 + ((g : Int) - (24 * (ystar - 1) + 3)) / 2) % 10 := by
  intro spring ystar
  obtain ⟨x, k, g, kk, fm, hx, hg, hfm, hyr, hmo⟩ := C08_day_view realEph Y M D v h
  obtain ⟨c1, c2⟩ := civil_year_bounds Y M D hv (by omega)
  have ha0 : (0 : Int) ≤ (a : Int) := by omega
  have hb9 : (b : Int) + 1 ≤ 9999 := by omega
  -- the date lies inside the span of lunar years a..b
  have hlo : first realEph ⟨(a : Int), 0⟩ ≤ jdn Y M D := by
    have hny := realEph_newyear a ha1 (by omega)
    have hyl := C01_yearLen_dist (a : Int) (by omega) (by omega)
    have hd : Civil.daysInYear (a : Int) ≥ 355 := by unfold Civil.daysInYear; repeat' split <;> omega
    have := jan_mono ((a : Int) + 1) Y (by omega) hY1 (by omega)
    have : first realEph ⟨(a : Int), 0⟩ = realEph.mFirst (a : Int) 0 := rfl
    omega
  have hhi : jdn Y M D < first realEph ⟨(b : Int) + 1, 0⟩ := by
    have hny := realEph_newyear (b + 1) (by omega) (by omega)
    have e : (((b + 1 : Nat)) : Int) = (b : Int) + 1 := by omega
    rw [e] at hny
    have hyl := C01_yearLen_dist (Y + 1) (by omega) (by omega)
    have hd : Civil.daysInYear (Y + 1) ≥ 355 := by unfold Civil.daysInYear; repeat' split <;> omega
    have e2 : Y + 1 + 1 = Y + 2 := by omega
    rw [e2] at hyl
    have := jan_mono (Y + 2) ((b : Int) + 1) (by omega) (by omega) (by omega)
    have : first realEph ⟨(b : Int) + 1, 0⟩ = realEph.mFirst ((b : Int) + 1) 0 := rfl
    omega
  obtain ⟨wx, xa, xb, xe, xk1, xk2⟩ := ofSolar_spec realEph realEph_leap_le a b ht Y M D (by omega) (by omega) hlo hhi (x, k) hx
  dsimp only at wx xa xb xe xk1 xk2
  have hly := lunar_year_of_civil a b hab hb ht ha1 Y M D hv hY1 hY2 x wx xa xb (by omega) (by omega)
  -- term of the day
  obtain ⟨t1, t2, t3, t4, t5⟩ := C06_ofDay_spec realEph Y M D g kk hg
  obtain ⟨gb1, gb2⟩ := term_of_day_bounds Y M D hv (by omega) (by omega) g kk hg
  have hg1 : 1 ≤ g := by omega
  have hg2 : g ≤ 239977 := by omega
  have hgS : (((24 * (Y - 1) + 3).toNat : Nat) : Int) = 24 * (Y - 1) + 3 := by omega
  have hspring : spring = realEph.termDay (24 * (Y - 1) + 3).toNat := rfl
  have hystar : ystar = if jdn Y M D < spring then Y - 1 else Y := rfl
  clear_value spring ystar
  generalize hS : (24 * (Y - 1) + 3).toNat = gS at *
  subst hspring
  -- before Lichun ⇔ the day's term precedes Lichun on the sequence
  have hbefore : (jdn Y M D < realEph.termDay gS) ↔ g < gS := by
    constructor
    · intro hb'
      by_cases hlt : g < gS
      · exact hlt
      · exfalso
        have := termDay_le gS g (by omega) (by omega) hg2
        omega
    · intro hlt
      have hle := termDay_le (g + 1) gS (by omega) (by omega) (by omega)
      rcases t3 with h3 | h3
      · have := (realEph_term_repr (g + 1) (by omega)).1 h3; omega
      · omega
  have hafter : (realEph.termDay g > realEph.termDay gS) ↔ gS < g := by
    constructor
    · intro ha'
      by_cases hlt : gS < g
      · exact hlt
      · exfalso
        have := termDay_le g gS hg1 (by omega) (by omega)
        omega
    · intro hlt
      exact termDay_lt gS g (by omega) hlt hg2
  -- Five Tigers facts about the first month of Y
  obtain ⟨f1, f2, f3, f4⟩ := C08_five_tigers Y (monthOffset ((g % 24 : Nat) : Int) (decide (realEph.termDay g > realEph.termDay gS))) fm hfm
  have hyp : ∀ y : Int, yearPillar y = (y - 4) % 60 := C08_yearPillar
  have hti : ((g % 24 : Nat) : Int) = (g : Int) % 24 := by omega
  by_cases hb' : jdn Y M D < realEph.termDay gS
  · -- January before Lichun: Y* = Y − 1
    have hglt := hbefore.1 hb'
    have hys : ystar = Y - 1 := by rw [hystar]; simp [hb']
    have hna : ¬ (realEph.termDay g > realEph.termDay gS) := fun hh => by have := hafter.1 hh; omega
    have hdec : decide (realEph.termDay g > realEph.termDay gS) = false := by simp [hna]
    have hadj := C08_adjYear Y x.y true (by
      rcases hly with h' | h' | ⟨h', h''⟩
      · exact Or.inl h'
      · exact Or.inr (Or.inl h')
      · exact absurd hb' h'')
    have hdb : decide (jdn Y M D < realEph.termDay gS) = true := by simp [hb']
    rw [hdb, hadj] at hyr
    simp only [if_true] at hyr
    have hoff := C08_monthOffset ((g % 24 : Nat) : Int) (by omega) (by omega) false
    have h3 : ¬ (3 ≤ ((g % 24 : Nat) : Int)) := by omega
    simp only [h3, if_false, Bool.false_eq_true] at hoff
    rw [hdec] at f3 f4 hmo
    rw [hoff] at f3 f4 hmo
    refine ⟨by rw [hyr, hyp, hys], g, kk, hg, ?_⟩
    rw [hys, hmo]
    rw [hyp] at f4
    refine ⟨by omega, by omega, ?_, ?_⟩
    · rw [f3]; omega
    · rw [f4]; omega
  · have hgge : gS ≤ g := by
      by_cases hh : gS ≤ g
      · exact hh
      · exact absurd (hbefore.2 (by omega)) hb'
    have hys : ystar = Y := by rw [hystar]; simp [hb']
    have hadj := C08_adjYear Y x.y false (by
      rcases hly with h' | h' | ⟨h', _⟩
      · exact Or.inl h'
      · exact Or.inr (Or.inl h')
      · exact Or.inr (Or.inr ⟨h', rfl⟩))
    have hdb : decide (jdn Y M D < realEph.termDay gS) = false := by simp [hb']
    rw [hdb, hadj] at hyr
    simp only [Bool.false_eq_true, if_false] at hyr
    by_cases hsame : gS < g
    · have hdec : decide (realEph.termDay g > realEph.termDay gS) = true := by simp [hafter.2 hsame]
      have hoff := C08_monthOffset ((g % 24 : Nat) : Int) (by omega) (by omega) true
      rw [hdec] at f3 f4 hmo
      refine ⟨by rw [hyr, hyp, hys], g, kk, hg, ?_⟩
      rw [hyp] at f4
      by_cases h3 : 3 ≤ ((g % 24 : Nat) : Int)
      · simp only [h3, if_true] at hoff
        rw [hoff] at f3 f4 hmo
        rw [hys, hmo]
        refine ⟨by omega, by omega, ?_, ?_⟩
        · rw [f3]; omega
        · rw [f4]; omega
      · simp only [h3, if_false, if_true] at hoff
        rw [hoff] at f3 f4 hmo
        rw [hys, hmo]
        refine ⟨by omega, by omega, ?_, ?_⟩
        · rw [f3]; omega
        · rw [f4]; omega
    · have hge : g = gS := by omega
      have hna : ¬ (realEph.termDay g > realEph.termDay gS) := fun hh => by have := hafter.1 hh; omega
      have hdec : decide (realEph.termDay g > realEph.termDay gS) = false := by simp [hna]
      have hoff := C08_monthOffset ((g % 24 : Nat) : Int) (by omega) (by omega) false
      have h3 : 3 ≤ ((g % 24 : Nat) : Int) := by omega
      simp only [h3, if_true] at hoff
      rw [hdec] at f3 f4 hmo
      rw [hoff] at f3 f4 hmo
      refine ⟨by rw [hyr, hyp, hys], g, kk, hg, ?_⟩
      rw [hys, hmo]
      rw [hyp] at f4
      refine ⟨by omega, by omega, ?_, ?_⟩
      · rw [f3]; omega
      · rw [f4]; omega

/-- instantiation: every civil date of AD 241..9997 (the main tiling interval of the current data) -/
theorem C08_day_spec_main (Y M D : Int) (hv : Civil.valid Y M D = true) (hY1 : 241 ≤ Y) (hY2 : Y ≤ 9997)
    (v : DayView) (h : ofSolarDay realEph Y M D = some v) :
    v.year = ((if jdn Y M D < realEph.termDay (24 * (Y - 1) + 3).toNat then Y - 1 else Y) - 4) % 60 :=
  (C08_day_spec 240 9998 (by omega) (by omega) (by omega) C02_good_intervals.2.2.2.2 Y M D hv (by omega) (by omega) v h).1

end Tyme
