import Tyme.Lemmas.Cycle
import Tyme.Thm.C06
/-!
C08 — year pillar turns at Lichun, month pillar at each Jie, by the Five-Tigers rule. Property theorems (`C08_*`).
Model: `SC.ofSolarDay`, `SC.ofSolarTime` (after the `fix:` D17), built from `adjYear`, `monthOffset`,
`lunarMonthPillar`, `cycNext`.
-/
namespace Tyme
open SC

/-- the year of the pillar: Y from Lichun on, Y−1 before — whenever the lunar year of the date is Y−1, Y, or
Y+1 after Lichun (late-December new year, D17). -/
theorem C08_adjYear (Y ly0 : Int) (before : Bool)
    (h : ly0 = Y ∨ ly0 = Y - 1 ∨ (ly0 = Y + 1 ∧ before = false)) :
    adjYear Y ly0 before = if before then Y - 1 else Y := by
  unfold adjYear
  rcases h with h | h | ⟨h, hb⟩
  · subst h; cases before <;> simp
  · subst h
    have : ¬ (Y - 1 = Y) := by omega
    have h2 : Y - 1 < Y := by omega
    cases before <;> simp [this, h2]
  · subst h; subst hb
    have : ¬ (Y + 1 = Y) := by omega
    have h2 : ¬ (Y + 1 < Y) := by omega
    simp [this, h2]

/-- year pillar = (year − 4) mod 60 -/
theorem C08_yearPillar (y : Int) : yearPillar y = (y - 4) % 60 := indexOf_60 _

/-- month offset from the first month of the civil year, as a function of the term index (0..23):
terms 3..23 count Jie since Lichun; December's terms 0..2 (after Lichun) continue at 10, 11, 11;
January's terms 0..2 (before Lichun) are −2, −1, −1, i.e. months 10, 11, 11 of the previous year. -/
theorem C08_monthOffset (ti : Int) (h0 : 0 ≤ ti) (h1 : ti ≤ 23) (after : Bool) :
    monthOffset ti after = if 3 ≤ ti then (ti - 3) / 2 else if after then (ti + 21) / 2 else (ti + 21) / 2 - 12 := by
  unfold monthOffset half
  cases after <;> simp <;> (repeat' split) <;> omega

/-- Five Tigers: the first month (Yin, branch 2) of a year has stem (year stem + 1)·2 mod 10, and stepping the
month pillar by k keeps stem and branch in step — so the month stem is a function of year stem and month
branch, and only the 60×12 legal year/month pairs occur. -/
theorem C08_five_tigers (y : Int) (k : Int) (fm : Int) (h : lunarMonthPillar y 0 = some fm) :
    fm % 12 = 2 ∧ fm % 10 = ((yearPillar y % 10 + 1) * 2) % 10 ∧
    cycNext fm k % 12 = (2 + k) % 12 ∧ cycNext fm k % 10 = ((yearPillar y % 10 + 1) * 2 + k) % 10 := by
  unfold lunarMonthPillar at h
  rw [indexOf_10, indexOf_12] at h
  have e12 : (0 + 2 : Int) % 12 = 2 := by decide
  -- the pair (s, 2) with s even is pillar (6 s − 10) mod 60
  have hs : ∃ n : Int, n % 10 = ((yearPillar y % 10 + 1) * 2 + 0) % 10 ∧ n % 12 = (0 + 2) % 12 := by
    refine ⟨6 * ((yearPillar y % 10 + 1) * 2) - 10, ?_, ?_⟩ <;> omega
  obtain ⟨n, n1, n2⟩ := hs
  rw [← n1, ← n2, pairIndex_crt] at h
  simp only [Option.some.injEq] at h
  subst h
  unfold cycNext
  rw [indexOf_60]
  omega

/-- the first month of consecutive years continues the same 60-cycle of month pillars: first(y+1) = first(y) + 12 -/
theorem C08_first_month_chain (y : Int) (a b : Int) (h1 : lunarMonthPillar y 0 = some a)
    (h2 : lunarMonthPillar (y + 1) 0 = some b) : b = cycNext a 12 := by
  obtain ⟨a1, a2, a3, a4⟩ := C08_five_tigers y 12 a h1
  obtain ⟨b1, b2, _, _⟩ := C08_five_tigers (y + 1) 0 b h2
  have hy : yearPillar (y + 1) % 10 = (yearPillar y % 10 + 1) % 10 := by
    rw [C08_yearPillar, C08_yearPillar]; omega
  have hr : 0 ≤ cycNext a 12 ∧ cycNext a 12 < 60 := by
    unfold cycNext; rw [indexOf_60]; omega
  have hb : 0 ≤ b ∧ b < 60 := by
    unfold lunarMonthPillar at h2
    rw [indexOf_10, indexOf_12] at h2
    have hs : ∃ n : Int, n % 10 = ((yearPillar (y + 1) % 10 + 1) * 2 + 0) % 10 ∧ n % 12 = (0 + 2) % 12 := by
      refine ⟨6 * ((yearPillar (y + 1) % 10 + 1) * 2) - 10, ?_, ?_⟩ <;> omega
    obtain ⟨n, n1, n2⟩ := hs
    rw [← n1, ← n2, pairIndex_crt] at h2
    simp only [Option.some.injEq] at h2
    omega
  omega

/-- the day view is assembled from exactly these pieces (inversion of the model): year = pillar of the
adjusted lunar year, month = first month of the civil year stepped by the month offset of the day's term. -/
theorem C08_day_view (E : Eph) (Y M D : Int) (v : DayView) (h : ofSolarDay E Y M D = some v) :
    ∃ x k g kk fm, Lunar.ofSolar E Y M D = some (x, k) ∧ Term.ofDay E Y M D = some (g, kk) ∧
      lunarMonthPillar Y 0 = some fm ∧
      v.year = yearPillar (adjYear Y x.y (decide (jdn Y M D < E.termDay (24 * (Y - 1) + 3).toNat))) ∧
      v.month = cycNext fm (monthOffset ((g % 24 : Nat) : Int) (decide (E.termDay g > E.termDay (24 * (Y - 1) + 3).toNat))) := by
  unfold ofSolarDay at h
  split at h
  · simp at h
  · dsimp only at h
    split at h
    · simp at h
    · split at h
      · simp at h
      · rename_i x k hr
        split at h
        · simp at h
        · split at h
          · simp at h
          · rename_i g kk hg
            split at h
            · simp at h
            · rename_i m1 hm1
              split at h
              · simp at h
              · rename_i fm hfm
                split at h
                · simp at h
                · simp only [Option.some.injEq] at h
                  have hm : m1 = ⟨Y, 0⟩ := by
                    unfold Lunar.fromYm at hm1
                    split at hm1
                    · simp at hm1
                    · split at hm1
                      · simp at hm1
                      · split at hm1
                        · simp at hm1
                        · simp only [Option.some.injEq] at hm1
                          rw [← hm1]
                          have : ¬ ((1 : Int) < 0) := by decide
                          have n1 : (1 : Int).natAbs = 1 := rfl
                          simp only [this, false_or, n1]
                          congr 1
                          split <;> omega
                  subst hm
                  refine ⟨x, k, g, kk, fm, hr, hg, hfm, ?_, ?_⟩ <;> rw [← h]

end Tyme
