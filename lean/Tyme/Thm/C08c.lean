import Tyme.Thm.C08b
import Tyme.Thm.C16
import Tyme.Thm.C02b
import Tyme.Thm.C09
/-!
C08, third file — the INSTANT-level view (`SixtyCycleHour::from_solar_time`): the year pillar changes at the Lichun
INSTANT (second granularity) and the month pillar at each Jie INSTANT. Same structure as `C08_day_spec`, on the
seconds line: `sec = 86400·(day number) + 3600 h + 60 mi + s`, `termSec g` = the second of term g's instant as the
library reports it (re-extracted data).
-/
namespace Tyme
open Lunar SC

/-- the instant view is assembled from exactly these pieces (inversion of the model) -/
theorem C08_hour_view (E : Eph) (Y M D h mi s : Int) (v : HourView) (hv : ofSolarTime E Y M D h mi s = some v) :
    ∃ x k g fm, Lunar.ofSolar E Y M D = some (x, k) ∧ Term.ofTime E Y M D h mi s = some g ∧
      lunarMonthPillar Y 0 = some fm ∧
      v.year = yearPillar (adjYear Y x.y (decide (86400 * jdn Y M D + 3600 * h + 60 * mi + s < E.termSec (24 * (Y - 1) + 3).toNat))) ∧
      v.month = cycNext fm (monthOffset ((g % 24 : Nat) : Int) (decide (E.termSec g > E.termSec (24 * (Y - 1) + 3).toNat))) := by
  unfold ofSolarTime at hv
  split at hv
  · simp at hv
  · split at hv
    · simp at hv
    · dsimp only at hv
      split at hv
      · simp at hv
      · rename_i x k hr
        split at hv
        · simp at hv
        · split at hv
          · simp at hv
          · rename_i g hg
            split at hv
            · simp at hv
            · rename_i m1 hm1
              split at hv
              · simp at hv
              · rename_i fm hfm
                split at hv
                · simp at hv
                · split at hv
                  · simp at hv
                  · simp only [Option.some.injEq] at hv
                    have hm : m1 = ⟨Y, 0⟩ := by
                      unfold Lunar.fromYm at hm1
                      split at hm1
                      · simp at hm1
                      · split at hm1
                        · simp at hm1
                        · split at hm1
                          · simp at hm1
                          · simp only [Option.some.injEq] at hm1
                            rw [← hm1]
                            have : ¬ ((1 : Int) < 0) := by decide
                            have n1 : (1 : Int).natAbs = 1 := rfl
                            simp only [this, false_or, n1]
                            congr 1
                            split <;> omega
                    subst hm
                    refine ⟨x, k, g, fm, hr, hg, hfm, ?_, ?_⟩ <;> rw [← hv]

/-- term instants are strictly increasing over the representable range -/
theorem termSec_mono (a : Nat) (ha : 1 ≤ a) : ∀ d : Nat, a + d ≤ 239977 → realEph.termSec a + 1261440 * d ≤ realEph.termSec (a + d) := by
  intro d
  induction d with
  | zero => intro _; simp
  | succ d ih =>
    intro h
    have := ih (by omega)
    have := realEph_termInc (a + d) (by omega) (by omega)
    have e : a + (d + 1) = a + d + 1 := by omega
    rw [e]; omega

theorem termSec_lt (a b : Nat) (ha : 1 ≤ a) (hab : a < b) (hb : b ≤ 239977) : realEph.termSec a < realEph.termSec b := by
  have := termSec_mono a ha (b - a) (by omega)
  have e : a + (b - a) = b := by omega
  rw [e] at this; omega

theorem termSec_le (a b : Nat) (ha : 1 ≤ a) (hab : a ≤ b) (hb : b ≤ 239977) : realEph.termSec a ≤ realEph.termSec b := by
  rcases Nat.lt_or_ge a b with h | h
  · exact Int.le_of_lt (termSec_lt a b ha h hb)
  · have : a = b := by omega
    rw [this]; exact Int.le_refl _

/-- second of day of the later term of an adjacent representable pair (the other half of the table fact `termPair`) -/
theorem realEph_termSod_succ (g : Nat) (h1 : 1 ≤ g) (h2 : g + 1 ≤ 239977) :
    0 ≤ realEph.termSod (g + 1) ∧ realEph.termSod (g + 1) < 86400 := by
  have hp := Packed.adjRec_spec 72 termPair Gen.termsChunks terms_inc_fact g (by
    show g + 1 < termRecs.length
    rw [termRecs_length]; omega)
  change termPair g (termRecs[g]'(by rw [termRecs_length]; omega)) (termRecs[g+1]'(by rw [termRecs_length]; omega)) = true at hp
  rw [← termRecs_getD g (by omega), ← termRecs_getD (g + 1) (by omega)] at hp
  have r1 : ¬ realEph.termDay g = 0 := fun h => by have := (realEph_term_repr g (by omega)).1 h; omega
  have r2 : ¬ realEph.termDay (g + 1) = 0 := fun h => by have := (realEph_term_repr (g + 1) (by omega)).1 h; omega
  simp only [realEph] at r1 r2 ⊢
  generalize termRecs.getD g 0 = a at *
  generalize termRecs.getD (g + 1) 0 = b at *
  have ea : ¬ Rec.tDayRaw a = 0 := by rw [← tDay_eq_zero_iff]; omega
  have eb : ¬ Rec.tDayRaw b = 0 := by rw [← tDay_eq_zero_iff]; omega
  have ea' : (Rec.tDayRaw a == 0) = false := by simp [ea]
  have eb' : (Rec.tDayRaw b == 0) = false := by simp [eb]
  simp only [termPair, ea', eb', Bool.false_or, Bool.and_eq_true, Nat.ble_eq, Nat.blt_eq, recSec] at hp
  omega

/-- second of day of a representable term -/
theorem termSod_bounds (g : Nat) (h1 : 1 ≤ g) (h2 : g ≤ 239977) : 0 ≤ realEph.termSod g ∧ realEph.termSod g < 86400 := by
  by_cases h : g + 1 ≤ 239977
  · have := realEph_termInc g h1 h; omega
  · have e : g = 239976 + 1 := by omega
    rw [e]
    exact realEph_termSod_succ 239976 (by omega) (by omega)

/-- a civil date of year Y that lies in lunar year Y+1 (new year in late December) is far after Lichun of Y -/
theorem lunar_year_next_far (a b : Nat) (hb : b ≤ 9998) (ht : TilesOn realEph a b) (ha1 : 1 ≤ a)
    (Y M D : Int) (hY1 : (a : Int) + 1 ≤ Y) (hY2 : Y + 1 ≤ b)
    (x : Month) (hx : WF realEph x) (hxa : (a : Int) ≤ x.y) (hxb : x.y ≤ b)
    (h1 : first realEph x ≤ jdn Y M D) (hy1 : x.y = Y + 1) :
    realEph.termDay (24 * (Y - 1) + 3).toNat + 300 ≤ jdn Y M D := by
  have ha0 : (0 : Int) ≤ (a : Int) := by omega
  have hb9 : (b : Int) + 1 ≤ 9999 := by omega
  have e1 := month_ge_year_first realEph a b ha0 hb9 ht x hx hxa hxb
  rw [hy1] at e1
  have hny := realEph_newyear (Y + 1).toNat (by omega) (by omega)
  have ey : (((Y + 1).toNat : Nat) : Int) = Y + 1 := by omega
  rw [ey] at hny
  have hyl := C01_yearLen_dist Y (by omega) (by omega)
  have hd : Civil.daysInYear Y ≥ 355 := by unfold Civil.daysInYear; repeat' split <;> omega
  have hw := (realEph_termWin (24 * (Y - 1) + 3).toNat (by omega) (by omega)).2.2 (by omega)
  have eyy : ((((24 * (Y - 1) + 3).toNat / 24 + 1 : Nat)) : Int) = Y := by omega
  rw [eyy] at hw
  have : first realEph ⟨Y + 1, 0⟩ = realEph.mFirst (Y + 1) 0 := rfl
  omega

/-- the term of an instant of civil year Y (2 ≤ Y ≤ 9998) lies between the winter solstice of Y and the Xiaohan of Y+1 -/
theorem term_of_time_bounds (Y M D h mi s : Int) (hv : Civil.valid Y M D = true) (hh : 0 ≤ h ∧ h ≤ 23) (hmi : 0 ≤ mi ∧ mi ≤ 59)
    (hs : 0 ≤ s ∧ s ≤ 59) (hY1 : 2 ≤ Y) (hY2 : Y ≤ 9998)
    (g : Nat) (hg : Term.ofTime realEph Y M D h mi s = some g) :
    24 * (Y - 1) ≤ (g : Int) ∧ (g : Int) ≤ 24 * (Y - 1) + 25 ∧ 1 ≤ g ∧ g ≤ 239977 := by
  obtain ⟨a1, a2, a3⟩ := C16_ofTime_spec realEph Y M D h mi s g hg
  obtain ⟨c1, c2⟩ := civil_year_bounds Y M D hv hY2
  have hg1 : 1 ≤ g := by
    by_cases h0 : g = 0
    · exfalso; subst h0; exact a1 ((realEph_term_repr 0 (by omega)).2 (Or.inl rfl))
    · omega
  have hg2 : g ≤ 239977 := by
    by_cases hh : g ≤ 239977
    · exact hh
    · exfalso
      by_cases hlt : g < 240000
      · exact a1 ((realEph_term_repr g hlt).2 (Or.inr (by omega)))
      · have : realEph.termDay g = 0 := by
          simp only [realEph]
          have : termRecs.getD g 0 = 0 := by
            simp only [List.getD]
            rw [List.getElem?_eq_none (by rw [termRecs_length]; omega)]; rfl
          rw [this]; decide
        exact a1 this
  have hg0' : (((24 * (Y - 1)).toNat : Nat) : Int) = 24 * (Y - 1) := by omega
  generalize (24 * (Y - 1)).toNat = g0 at hg0'
  refine ⟨?_, ?_, hg1, hg2⟩
  · by_cases hge : (g0 : Int) ≤ g
    · omega
    · exfalso
      have hlt : g + 1 ≤ g0 := by omega
      have hw := (realEph_termWin g0 (by omega) (by omega)).1 (by omega)
      have hy : ((g0 / 24 + 1 : Nat) : Int) = Y := by omega
      rw [hy] at hw
      have hle := termSec_le (g + 1) g0 (by omega) hlt (by omega)
      have sb := termSod_bounds g0 (by omega) (by omega)
      have es : realEph.termSec g0 = 86400 * realEph.termDay g0 + realEph.termSod g0 := rfl
      rcases a3 with h3 | h3
      · have := (realEph_term_repr (g + 1) (by omega)).1 h3; omega
      · omega
  · by_cases hle : (g : Int) ≤ g0 + 25
    · omega
    · exfalso
      have hw := (realEph_termWin (g0 + 26) (by omega) (by omega)).2.1 (by omega)
      have hy : (((g0 + 26) / 24 + 1 : Nat) : Int) = Y + 1 := by omega
      rw [hy] at hw
      have := termSec_le (g0 + 26) g (by omega) (by omega) hg2
      have sb := termSod_bounds (g0 + 26) (by omega) (by omega)
      have es : realEph.termSec (g0 + 26) = 86400 * realEph.termDay (g0 + 26) + realEph.termSod (g0 + 26) := rfl
      omega

set_option maxHeartbeats 1000000 in
/-- END-TO-END (instant view = rule) on the current tree's data, for every instant of the civil years a+1 .. b−1 of any
interval [a, b] of lunar years on which the month table tiles: with `sec` the instant's second, Y* = Y−1 before the
Lichun INSTANT of Y and Y from that second on, and g the term whose instant is the latest at or before `sec`:
year pillar = (Y* − 4) mod 60; month pillar = branch (2+k) mod 12, stem ((stem of Y* + 1)·2 + k) mod 10 with
k = ⌊(g − Lichun(Y*))/2⌋ ∈ 0..11 — both change at the second of the Jie, not at midnight. -/
theorem C08_time_spec (a b : Nat) (ha1 : 1 ≤ a) (hab : a + 1 ≤ b) (hb : b ≤ 9998) (ht : TilesOn realEph a b)
    (Y M D h mi s : Int) (hv : Civil.valid Y M D = true) (hh : 0 ≤ h ∧ h ≤ 23) (hmi : 0 ≤ mi ∧ mi ≤ 59) (hs : 0 ≤ s ∧ s ≤ 59)
    (hY1 : (a : Int) + 1 ≤ Y) (hY2 : Y + 1 ≤ b)
    (v : HourView) (hvw : ofSolarTime realEph Y M D h mi s = some v) :
    let sec := 86400 * jdn Y M D + 3600 * h + 60 * mi + s
    let springSec := realEph.termSec (24 * (Y - 1) + 3).toNat
    let ystar := if sec < springSec then Y - 1 else Y
    v.year = (ystar - 4) % 60 ∧
    ∃ g, Term.ofTime realEph Y M D h mi s = some g ∧ realEph.termSec g ≤ sec ∧ sec < realEph.termSec (g + 1) ∧
      0 ≤ ((g : Int) - (24 * (ystar - 1) + 3)) / 2 ∧ ((g : Int) - (24 * (ystar - 1) + 3)) / 2 ≤ 11 ∧
      v.month % 12 = (2 + ((g : Int) - (24 * (ystar - 1) + 3)) / 2) % 12 ∧
      v.month % 10 = ((((ystar - 4) % 60) % 10 + 1) * 2 + ((g : Int) - (24 * (ystar - 1) + 3)) / 2) % 10 := by
  intro sec springSec ystar
  obtain ⟨x, k, g, fm, hx, hg, hfm, hyr, hmo⟩ := C08_hour_view realEph Y M D h mi s v hvw
  obtain ⟨c1, c2⟩ := civil_year_bounds Y M D hv (by omega)
  have ha0 : (0 : Int) ≤ (a : Int) := by omega
  have hb9 : (b : Int) + 1 ≤ 9999 := by omega
  have hlo : first realEph ⟨(a : Int), 0⟩ ≤ jdn Y M D := by
    have hny := realEph_newyear a ha1 (by omega)
    have hyl := C01_yearLen_dist (a : Int) (by omega) (by omega)
    have hd : Civil.daysInYear (a : Int) ≥ 355 := by unfold Civil.daysInYear; repeat' split <;> omega
    have := jan_mono ((a : Int) + 1) Y (by omega) hY1 (by omega)
    have : first realEph ⟨(a : Int), 0⟩ = realEph.mFirst (a : Int) 0 := rfl
    omega
  have hhi : jdn Y M D < first realEph ⟨(b : Int) + 1, 0⟩ := by
    have hny := realEph_newyear (b + 1) (by omega) (by omega)
    have e : (((b + 1 : Nat)) : Int) = (b : Int) + 1 := by omega
    rw [e] at hny
    have hyl := C01_yearLen_dist (Y + 1) (by omega) (by omega)
    have hd : Civil.daysInYear (Y + 1) ≥ 355 := by unfold Civil.daysInYear; repeat' split <;> omega
    have e2 : Y + 1 + 1 = Y + 2 := by omega
    rw [e2] at hyl
    have := jan_mono (Y + 2) ((b : Int) + 1) (by omega) (by omega) (by omega)
    have : first realEph ⟨(b : Int) + 1, 0⟩ = realEph.mFirst ((b : Int) + 1) 0 := rfl
    omega
  obtain ⟨wx, xa, xb, xe, xk1, xk2⟩ := ofSolar_spec realEph realEph_leap_le a b ht Y M D (by omega) (by omega) hlo hhi (x, k) hx
  dsimp only at wx xa xb xe xk1 xk2
  have hly := lunar_year_of_civil a b hab hb ht ha1 Y M D hv hY1 hY2 x wx xa xb (by omega) (by omega)
  have hfar := lunar_year_next_far a b hb ht ha1 Y M D hY1 hY2 x wx xa xb (by omega)
  -- term of the instant
  obtain ⟨t1, t2, t3⟩ := C16_ofTime_spec realEph Y M D h mi s g hg
  obtain ⟨gb1, gb2, hg1, hg2⟩ := term_of_time_bounds Y M D h mi s hv hh hmi hs (by omega) (by omega) g hg
  have hn : 86400 * jdn Y M D + 3600 * h + 60 * mi + s < realEph.termSec (g + 1) := by
    rcases t3 with h3 | h3
    · have := (realEph_term_repr (g + 1) (by omega)).1 h3; omega
    · exact h3
  have hgS : (((24 * (Y - 1) + 3).toNat : Nat) : Int) = 24 * (Y - 1) + 3 := by omega
  have hsec : sec = 86400 * jdn Y M D + 3600 * h + 60 * mi + s := rfl
  have hspring : springSec = realEph.termSec (24 * (Y - 1) + 3).toNat := rfl
  have hystar : ystar = if sec < springSec then Y - 1 else Y := rfl
  clear_value sec springSec ystar
  generalize hS : (24 * (Y - 1) + 3).toNat = gS at *
  subst hspring
  rw [← hsec] at t2 hn hyr
  have sbS := termSod_bounds gS (by omega) (by omega)
  have esS : realEph.termSec gS = 86400 * realEph.termDay gS + realEph.termSod gS := rfl
  have hbefore : (sec < realEph.termSec gS) ↔ g < gS := by
    constructor
    · intro hb'
      by_cases hlt : g < gS
      · exact hlt
      · exfalso
        have := termSec_le gS g (by omega) (by omega) hg2
        omega
    · intro hlt
      have hle := termSec_le (g + 1) gS (by omega) (by omega) (by omega)
      omega
  have hafter : (realEph.termSec g > realEph.termSec gS) ↔ gS < g := by
    constructor
    · intro ha'
      by_cases hlt : gS < g
      · exact hlt
      · exfalso
        have := termSec_le g gS hg1 (by omega) (by omega)
        omega
    · intro hlt
      exact termSec_lt gS g (by omega) hlt hg2
  obtain ⟨f1, f2, f3, f4⟩ := C08_five_tigers Y (monthOffset ((g % 24 : Nat) : Int) (decide (realEph.termSec g > realEph.termSec gS))) fm hfm
  have hyp : ∀ y : Int, yearPillar y = (y - 4) % 60 := C08_yearPillar
  have hti : ((g % 24 : Nat) : Int) = (g : Int) % 24 := by omega
  by_cases hb' : sec < realEph.termSec gS
  · have hglt := hbefore.1 hb'
    have hys : ystar = Y - 1 := by rw [hystar]; simp [hb']
    have hna : ¬ (realEph.termSec g > realEph.termSec gS) := fun hh => by have := hafter.1 hh; omega
    have hdec : decide (realEph.termSec g > realEph.termSec gS) = false := by simp [hna]
    have hadj := C08_adjYear Y x.y true (by
      rcases hly with h' | h' | ⟨h', _⟩
      · exact Or.inl h'
      · exact Or.inr (Or.inl h')
      · exfalso
        have := hfar h'
        omega)
    have hdb : decide (sec < realEph.termSec gS) = true := by simp [hb']
    rw [hdb, hadj] at hyr
    simp only [if_true] at hyr
    have hoff := C08_monthOffset ((g % 24 : Nat) : Int) (by omega) (by omega) false
    have h3 : ¬ (3 ≤ ((g % 24 : Nat) : Int)) := by omega
    simp only [h3, if_false, Bool.false_eq_true] at hoff
    rw [hdec] at f3 f4 hmo
    rw [hoff] at f3 f4 hmo
    refine ⟨by rw [hyr, hyp, hys], g, hg, t2, hn, ?_⟩
    rw [hys, hmo]
    rw [hyp] at f4
    refine ⟨by omega, by omega, ?_, ?_⟩
    · rw [f3]; omega
    · rw [f4]; omega
  · have hgge : gS ≤ g := by
      by_cases hh : gS ≤ g
      · exact hh
      · exact absurd (hbefore.2 (by omega)) hb'
    have hys : ystar = Y := by rw [hystar]; simp [hb']
    have hadj := C08_adjYear Y x.y false (by
      rcases hly with h' | h' | ⟨h', _⟩
      · exact Or.inl h'
      · exact Or.inr (Or.inl h')
      · exact Or.inr (Or.inr ⟨h', rfl⟩))
    have hdb : decide (sec < realEph.termSec gS) = false := by simp [hb']
    rw [hdb, hadj] at hyr
    simp only [Bool.false_eq_true, if_false] at hyr
    by_cases hsame : gS < g
    · have hdec : decide (realEph.termSec g > realEph.termSec gS) = true := by simp [hafter.2 hsame]
      have hoff := C08_monthOffset ((g % 24 : Nat) : Int) (by omega) (by omega) true
      rw [hdec] at f3 f4 hmo
      refine ⟨by rw [hyr, hyp, hys], g, hg, t2, hn, ?_⟩
      rw [hyp] at f4
      by_cases h3 : 3 ≤ ((g % 24 : Nat) : Int)
      · simp only [h3, if_true] at hoff
        rw [hoff] at f3 f4 hmo
        rw [hys, hmo]
        refine ⟨by omega, by omega, ?_, ?_⟩
        · rw [f3]; omega
        · rw [f4]; omega
      · simp only [h3, if_false, if_true] at hoff
        rw [hoff] at f3 f4 hmo
        rw [hys, hmo]
        refine ⟨by omega, by omega, ?_, ?_⟩
        · rw [f3]; omega
        · rw [f4]; omega
    · have hge : g = gS := by omega
      have hna : ¬ (realEph.termSec g > realEph.termSec gS) := fun hh => by have := hafter.1 hh; omega
      have hdec : decide (realEph.termSec g > realEph.termSec gS) = false := by simp [hna]
      have hoff := C08_monthOffset ((g % 24 : Nat) : Int) (by omega) (by omega) false
      have h3 : 3 ≤ ((g % 24 : Nat) : Int) := by omega
      simp only [h3, if_true] at hoff
      rw [hdec] at f3 f4 hmo
      rw [hoff] at f3 f4 hmo
      refine ⟨by rw [hyr, hyp, hys], g, hg, t2, hn, ?_⟩
      rw [hys, hmo]
      rw [hyp] at f4
      refine ⟨by omega, by omega, ?_, ?_⟩
      · rw [f3]; omega
      · rw [f4]; omega

/-- instantiation: every instant of AD 241..9997 (the main tiling interval of the current data): the year pillar is that
of the year delimited by the Lichun INSTANT -/
theorem C08_time_spec_main (Y M D h mi s : Int) (hv : Civil.valid Y M D = true) (hh : 0 ≤ h ∧ h ≤ 23) (hmi : 0 ≤ mi ∧ mi ≤ 59)
    (hs : 0 ≤ s ∧ s ≤ 59) (hY1 : 241 ≤ Y) (hY2 : Y ≤ 9997)
    (v : HourView) (hvw : ofSolarTime realEph Y M D h mi s = some v) :
    v.year = ((if 86400 * jdn Y M D + 3600 * h + 60 * mi + s < realEph.termSec (24 * (Y - 1) + 3).toNat then Y - 1 else Y) - 4) % 60 :=
  (C08_time_spec 240 9998 (by omega) (by omega) (by omega) C02_good_intervals.2.2.2.2 Y M D h mi s hv hh hmi hs (by omega) (by omega) v hvw).1

/-! ### totality of the instant-level look-ups -/
open Term

theorem backS_total (sec : Int) (lo : Nat) (hlo1 : 1 ≤ lo) (hT : realEph.termSec lo ≤ sec) :
    ∀ (f g : Nat), lo ≤ g → g ≤ 239977 → g - lo ≤ f →
      ∃ r, backS realEph (f + 1) g sec = some r ∧ lo ≤ r ∧ r ≤ g ∧ (r = g ∨ sec < realEph.termSec (r + 1)) := by
  intro f
  induction f with
  | zero =>
    intro g h1 h2 h3
    have hg : g = lo := by omega
    subst hg
    have hne : ¬ (realEph.termDay g = 0) := fun h => by have := (realEph_term_repr g (by omega)).1 h; omega
    have hlt : ¬ (sec < realEph.termSec g) := by omega
    simp only [backS, hne, hlt, if_false]
    exact ⟨_, rfl, by omega, by omega, Or.inl rfl⟩
  | succ f ih =>
    intro g h1 h2 h3
    have hne : ¬ (realEph.termDay g = 0) := fun h => by have := (realEph_term_repr g (by omega)).1 h; omega
    rw [backS]
    simp only [hne, if_false]
    by_cases hlt : sec < realEph.termSec g
    · have hgl : lo < g := by
        by_cases h : lo < g
        · exact h
        · exfalso; have : g = lo := by omega
          rw [this] at hlt; omega
      have hg0 : ¬ (g = 0) := by omega
      simp only [hlt, if_true, hg0, if_false]
      obtain ⟨r, hr, r1, r2, r3⟩ := ih (g - 1) (by omega) (by omega) (by omega)
      refine ⟨r, hr, r1, by omega, Or.inr ?_⟩
      rcases r3 with r3 | r3
      · have : r + 1 = g := by omega
        rw [this]; exact hlt
      · exact r3
    · simp only [hlt, if_false]
      exact ⟨_, rfl, h1, by omega, Or.inl rfl⟩

theorem fwdS_total (sec : Int) (hi : Nat) (hhi : sec < realEph.termSec hi) :
    ∀ (f g : Nat), g < hi → hi - g ≤ f + 1 → ∃ r, fwdS realEph (f + 1) g sec = some r := by
  intro f
  induction f with
  | zero =>
    intro g h1 h2
    have : g + 1 = hi := by omega
    rw [fwdS]
    by_cases h0 : realEph.termDay (g + 1) = 0
    · simp only [h0, if_true]; exact ⟨_, rfl⟩
    · have hlt : sec < realEph.termSec (g + 1) := by rw [this]; exact hhi
      simp only [h0, if_false, hlt, if_true]; exact ⟨_, rfl⟩
  | succ f ih =>
    intro g h1 h2
    rw [fwdS]
    by_cases h0 : realEph.termDay (g + 1) = 0
    · simp only [h0, if_true]; exact ⟨_, rfl⟩
    · by_cases hlt : sec < realEph.termSec (g + 1)
      · simp only [h0, if_false, hlt, if_true]; exact ⟨_, rfl⟩
      · simp only [h0, if_false, hlt]
        have hne : g + 1 ≠ hi := fun h => by rw [h] at hlt; exact hlt hhi
        exact ih (g + 1) (by omega) (by omega)

/-- `SolarTime::get_term` returns for every instant of the civil years 2..9998 (the 30-round fuel suffices) -/
theorem ofTime_total_real (Y M D h mi s : Int) (hv : Civil.valid Y M D = true) (hh : 0 ≤ h ∧ h ≤ 23) (hmi : 0 ≤ mi ∧ mi ≤ 59)
    (hs : 0 ≤ s ∧ s ≤ 59) (hY1 : 2 ≤ Y) (hY2 : Y ≤ 9998) : ∃ g, Term.ofTime realEph Y M D h mi s = some g := by
  obtain ⟨_, _, hM1, hM12, _⟩ := (valid_iff Y M D).1 hv
  obtain ⟨c1, c2⟩ := civil_year_bounds Y M D hv hY2
  obtain ⟨Yn, rfl⟩ : ∃ n : Nat, Y = (n : Int) := ⟨Y.toNat, by omega⟩
  obtain ⟨Mn, rfl⟩ : ∃ n : Nat, M = (n : Int) := ⟨M.toNat, by omega⟩
  have eg0 : (24 * ((Yn : Int) - 1) + 2 * (Mn : Int)).toNat = 24 * (Yn - 1) + 2 * Mn := by omega
  generalize hsec : 86400 * jdn (Yn : Int) (Mn : Int) D + 3600 * h + 60 * mi + s = sec
  -- the winter solstice opening the year lies before the instant
  have hw := (realEph_termWin (24 * (Yn - 1)) (by omega) (by omega)).1 (by omega)
  have hy : (((24 * (Yn - 1)) / 24 + 1 : Nat) : Int) = (Yn : Int) := by omega
  rw [hy] at hw
  have sb := termSod_bounds (24 * (Yn - 1)) (by omega) (by omega)
  have es : realEph.termSec (24 * (Yn - 1)) = 86400 * realEph.termDay (24 * (Yn - 1)) + realEph.termSod (24 * (Yn - 1)) := rfl
  obtain ⟨g1, hg1, g1a, g1b, g1c⟩ := backS_total sec (24 * (Yn - 1)) (by omega) (by omega) 29 (24 * (Yn - 1) + 2 * Mn) (by omega) (by omega) (by omega)
  -- Lichun of the next year lies after the instant
  have hw2 := (realEph_termWin (24 * Yn + 3) (by omega) (by omega)).2.2 (by omega)
  have hy2 : (((24 * Yn + 3) / 24 + 1 : Nat) : Int) = (Yn : Int) + 1 := by omega
  rw [hy2] at hw2
  have sb2 := termSod_bounds (24 * Yn + 3) (by omega) (by omega)
  have es2 : realEph.termSec (24 * Yn + 3) = 86400 * realEph.termDay (24 * Yn + 3) + realEph.termSod (24 * Yn + 3) := rfl
  have hfw : ∃ g2, fwdS realEph (29 + 1) g1 sec = some g2 := by
    rcases g1c with h' | h'
    · exact fwdS_total sec (24 * Yn + 3) (by omega) 29 g1 (by omega) (by omega)
    · exact fwdS_total sec (g1 + 1) h' 29 g1 (by omega) (by omega)
  obtain ⟨g2, hg2⟩ := hfw
  unfold Term.ofTime
  have c0 : ¬ (24 * ((Yn : Int) - 1) + 2 * (Mn : Int) < 0) := by omega
  have e30 : FUEL = 29 + 1 := rfl
  simp only [c0, if_false, eg0, e30, hsec, hg1, hg2]
  exact ⟨_, rfl⟩

/-- C06 at instant level, TOTAL: every well-formed instant of the civil years 2..9998 belongs to exactly one solar term —
`SolarTime::get_term` returns, the returned term's instant is at or before the instant, the next term's after it, and
a representable term starts at or before the instant exactly when its index is at most the returned one. -/
theorem C06_ofTime_total_real (Y M D h mi s : Int) (hv : Civil.valid Y M D = true) (hh : 0 ≤ h ∧ h ≤ 23) (hmi : 0 ≤ mi ∧ mi ≤ 59)
    (hs : 0 ≤ s ∧ s ≤ 59) (hY1 : 2 ≤ Y) (hY2 : Y ≤ 9998) :
    ∃ g, Term.ofTime realEph Y M D h mi s = some g ∧ 1 ≤ g ∧ g + 1 ≤ 239977 ∧
      realEph.termSec g ≤ 86400 * jdn Y M D + 3600 * h + 60 * mi + s ∧
      86400 * jdn Y M D + 3600 * h + 60 * mi + s < realEph.termSec (g + 1) ∧
      ∀ g' : Nat, 1 ≤ g' → g' ≤ 239977 → (realEph.termSec g' ≤ 86400 * jdn Y M D + 3600 * h + 60 * mi + s ↔ g' ≤ g) := by
  obtain ⟨g, hg⟩ := ofTime_total_real Y M D h mi s hv hh hmi hs hY1 hY2
  obtain ⟨a1, a2, a3⟩ := C16_ofTime_spec realEph Y M D h mi s g hg
  obtain ⟨b1, b2, g1, g2⟩ := term_of_time_bounds Y M D h mi s hv hh hmi hs hY1 hY2 g hg
  have hg3 : g + 1 ≤ 239977 := by omega
  have hn : 86400 * jdn Y M D + 3600 * h + 60 * mi + s < realEph.termSec (g + 1) := by
    rcases a3 with h3 | h3
    · have := (realEph_term_repr (g + 1) (by omega)).1 h3; omega
    · exact h3
  refine ⟨g, hg, g1, hg3, a2, hn, ?_⟩
  intro g' h1 h2
  constructor
  · intro hle
    by_cases hc : g' ≤ g
    · exact hc
    · exfalso
      have := termSec_le (g + 1) g' (by omega) (by omega) h2
      omega
  · intro hle
    have := termSec_le g' g h1 hle g2
    omega

/-- TOTALITY + RULE at instant level: every instant of the civil years a+1 .. b−1 of a tiling interval HAS an
instant-level view, and it obeys `C08_time_spec` -/
theorem C08_time_total (a b : Nat) (ha1 : 1 ≤ a) (hab : a + 1 ≤ b) (hb : b ≤ 9998) (ht : TilesOn realEph a b)
    (Y M D h mi s : Int) (hv : Civil.valid Y M D = true) (hh : 0 ≤ h ∧ h ≤ 23) (hmi : 0 ≤ mi ∧ mi ≤ 59) (hs : 0 ≤ s ∧ s ≤ 59)
    (hY1 : (a : Int) + 1 ≤ Y) (hY2 : Y + 1 ≤ b) :
    ∃ v, ofSolarTime realEph Y M D h mi s = some v := by
  obtain ⟨c1, c2⟩ := civil_year_bounds Y M D hv (by omega)
  have ha0 : (0 : Int) ≤ (a : Int) := by omega
  have hb9 : (b : Int) + 1 ≤ 9999 := by omega
  obtain ⟨i1, i2, i3, i4⟩ := C02_interval_of_year realEph C13_newYearFacts_real a b ha0 hb9 Y M D hv (Or.inr hY1) hY2
  obtain ⟨⟨x, k⟩, hr⟩ := Cont.ofSolar_total realEph realEph_leap_le C13_newYearFacts_real C02_first_year_real a b ha0 hb9 ht Y M D hv i1 i2 i3 i4
  obtain ⟨wx, xa, xb, xe, xk1, xk2⟩ := ofSolar_spec realEph realEph_leap_le a b ht Y M D i1 i2 i3 i4 (x, k) hr
  dsimp only at wx xa xb xe xk1 xk2
  have hly := lunar_year_of_civil a b hab hb ht ha1 Y M D hv hY1 hY2 x wx xa xb (by omega) (by omega)
  have hfar := lunar_year_next_far a b hb ht ha1 Y M D hY1 hY2 x wx xa xb (by omega)
  obtain ⟨g, hg⟩ := ofTime_total_real Y M D h mi s hv hh hmi hs (by omega) (by omega)
  obtain ⟨fm, _, hfm, _, _⟩ := Cont.firstMonth_some Y
  have hym := Cont.fromYm_first realEph realEph_leap_le Y ⟨by omega, by omega⟩
  have hdp := C07_dayPillar (Lunar.first realEph x) k
  obtain ⟨hp, hhp, _, _⟩ := C09_hour ((Lunar.first realEph x + k - 12) % 60) h (by omega) (by omega) hh.1 (by omega)
  have c0 : ¬ (24 * (Y - 1) + 3 < 0) := by omega
  have c1' : ¬ (realEph.termDay (24 * (Y - 1) + 3).toNat = 0) := by
    intro h0
    have := (realEph_term_repr (24 * (Y - 1) + 3).toNat (by omega)).1 h0
    omega
  have sbS := termSod_bounds (24 * (Y - 1) + 3).toNat (by omega) (by omega)
  have esS : realEph.termSec (24 * (Y - 1) + 3).toNat = 86400 * realEph.termDay (24 * (Y - 1) + 3).toNat + realEph.termSod (24 * (Y - 1) + 3).toNat := rfl
  have hadj := C08_adjYear Y x.y (decide (86400 * jdn Y M D + 3600 * h + 60 * mi + s < realEph.termSec (24 * (Y - 1) + 3).toNat)) (by
    rcases hly with h' | h' | ⟨h', _⟩
    · exact Or.inl h'
    · exact Or.inr (Or.inl h')
    · refine Or.inr (Or.inr ⟨h', ?_⟩)
      have := hfar h'
      have : ¬ (86400 * jdn Y M D + 3600 * h + 60 * mi + s < realEph.termSec (24 * (Y - 1) + 3).toNat) := by omega
      simp [this])
  have c2' : ¬ (adjYear Y x.y (decide (86400 * jdn Y M D + 3600 * h + 60 * mi + s < realEph.termSec (24 * (Y - 1) + 3).toNat)) < -1 ∨
      adjYear Y x.y (decide (86400 * jdn Y M D + 3600 * h + 60 * mi + s < realEph.termSec (24 * (Y - 1) + 3).toNat)) > 9999) := by
    rw [hadj]; split <;> omega
  have e0 : ((0 : Nat) : Int) = 0 := rfl
  unfold ofSolarTime
  simp only [c0, if_false, c1', hr, c2', hg, hym, e0, hfm, hdp, hhp]
  exact ⟨_, rfl⟩

/-- …for the data re-extracted from /repo: every instant of the civil years 10..21, 26..234, 241..9997 has an
instant-level view whose year pillar is that of the year delimited by the Lichun INSTANT -/
theorem C08_time_total_real (Y M D h mi s : Int) (hv : Civil.valid Y M D = true) (hh : 0 ≤ h ∧ h ≤ 23) (hmi : 0 ≤ mi ∧ mi ≤ 59)
    (hs : 0 ≤ s ∧ s ≤ 59) (hy : (10 ≤ Y ∧ Y ≤ 21) ∨ (26 ≤ Y ∧ Y ≤ 234) ∨ (241 ≤ Y ∧ Y ≤ 9997)) :
    ∃ v, ofSolarTime realEph Y M D h mi s = some v ∧
      v.year = ((if 86400 * jdn Y M D + 3600 * h + 60 * mi + s < realEph.termSec (24 * (Y - 1) + 3).toNat then Y - 1 else Y) - 4) % 60 := by
  obtain ⟨_, t2, t3, _, t5⟩ := C02_good_intervals
  rcases hy with hy | hy | hy
  · obtain ⟨v, hvw⟩ := C08_time_total 9 22 (by omega) (by omega) (by omega) t2 Y M D h mi s hv hh hmi hs (by omega) (by omega)
    exact ⟨v, hvw, (C08_time_spec 9 22 (by omega) (by omega) (by omega) t2 Y M D h mi s hv hh hmi hs (by omega) (by omega) v hvw).1⟩
  · obtain ⟨v, hvw⟩ := C08_time_total 25 235 (by omega) (by omega) (by omega) t3 Y M D h mi s hv hh hmi hs (by omega) (by omega)
    exact ⟨v, hvw, (C08_time_spec 25 235 (by omega) (by omega) (by omega) t3 Y M D h mi s hv hh hmi hs (by omega) (by omega) v hvw).1⟩
  · obtain ⟨v, hvw⟩ := C08_time_total 240 9998 (by omega) (by omega) (by omega) t5 Y M D h mi s hv hh hmi hs (by omega) (by omega)
    exact ⟨v, hvw, (C08_time_spec 240 9998 (by omega) (by omega) (by omega) t5 Y M D h mi s hv hh hmi hs (by omega) (by omega) v hvw).1⟩

/-- non-vacuity on the real data: one second before and at the Lichun instant of 2024 (2024-02-04 16:27:05 as the library
reports it) the year pillar changes from 39 (Gui-Mao) to 40 (Jia-Chen) -/
example : (ofSolarTime realEph 2024 2 4 16 27 4).map (·.year) = some 39 ∧ (ofSolarTime realEph 2024 2 4 16 27 5).map (·.year) = some 40 := by
  decide +kernel

end Tyme
