import Tyme.Lemmas.Series
/-!
C15 — term-anchored day series: Nines, Dog days, Plum rains, pentads, commanding stem. Property theorems (`C15_*`).

Model: `Series.nine/dog/plum/pheno/hide` (SolarDay::get_nine_day, get_dog_day, get_plum_rain_day, get_phenology_day,
get_hide_heaven_stem_day — the last one AFTER the repair of D21, fixes/C15-hide-stem.diff) over the ephemeris
re-extracted from /repo (`realEph`). Spec: Spec/Series.lean (first principles: day numbers, the term-day table `T`,
stem/branch = (day number + 49) mod 10 / 12, the classical allotment table written out independently).

`T g` is the civil day number of the g-th term, g = 24·(year − 1) + index. Every statement is for EVERY civil date
of the years 2..9998. Dog days and Plum rains obtain the stem of an anchor day through the lunar calendar
(get_lunar_day): their statements are "whatever the code returns (it is not refused) is the spec value" — the
same partial-correctness form as C02/C07, which they rest on; the D4 junction years are covered by computing the
15 anchor days outright, so no year is excluded. Refusals never occur on the K run (all 3.65 M days).
-/
namespace Tyme
open Term SeriesSpec Series

/-- the term-day table of the current tree -/
local notation "T" => Eph.termDay realEph

/-! ### table fact -/

/-- TABLE FACT (complete enumeration of 240,000 records, lifted): the winter solstice of December y lies in
December 1..31 of civil year y, for y = 1..9999 — this ties the global term index to the civil year. -/
theorem C15_solstice_december (y : Nat) (h1 : 1 ≤ y) (h2 : y ≤ 9999) :
    jdn (y : Int) 12 1 ≤ T (24 * y) ∧ T (24 * y) ≤ jdn (y : Int) 12 1 + 30 := realEph_solstice_december y h1 h2

/-- successive winter solstices are at least 336 days apart (24 gaps of ≥ 14 days), so the 81 Nine days, the Dog
days (≤ 70 days after a summer solstice) and the Plum rains of different years never meet -/
theorem C15_year_gap (g : Nat) (h1 : 1 ≤ g) (h2 : g + 24 ≤ 239977) : T g + 336 ≤ T (g + 24) ∧ T (g + 24) ≤ T g + 384 := by
  have := term_mono g 24 h1 h2; omega

/-! ### stems recur every ten days: "the n-th Geng day" -/

/-- the (n+1)-th Geng day on or after s is the first one plus 10·n, and the first is within ten days -/
theorem C15_nth_geng (n : Nat) (s j : Int) :
    IsNth isGeng s n j ↔ j = s + (6 - stemOf s) % 10 + 10 * n := isNth_geng_iff n s j

theorem C15_first_bing (s j : Int) : IsFirst isBing s j ↔ j = s + (2 - stemOf s) % 10 :=
  isFirst_stem_iff 2 (by omega) s j

theorem C15_first_wei (s j : Int) : IsFirst isWei s j ↔ j = s + (7 - branchOf s) % 12 :=
  isFirst_branch_iff 7 (by omega) s j

/-! ### Nines -/

/-- get_nine_day is never refused and equals the spec function counted from the latest winter solstice on or
before the day — every civil date of 2..9998. -/
theorem C15_nine (Y M D : Int) (hv : Civil.valid Y M D = true) (h1 : 2 ≤ Y) (h2 : Y ≤ 9998) :
    ∃ g : Nat, 1 ≤ g ∧ g + 24 ≤ 239977 ∧ IsLatestKind T 0 (jdn Y M D) g ∧
      nine realEph Y (jdn Y M D) = some (nineAt (T g) (jdn Y M D)) := by
  have ea : (24 * (Y - 1) + 0).toNat = (24 * (Y - 1)).toNat := by simp
  have eb : (24 * (Y + 1 - 1) + 0).toNat = (24 * Y).toNat := by congr 1; omega
  have ha := termStart_real (fromIndex Y 0) (24 * (Y - 1)).toNat (by rw [gidx_fromIndex Y 0 (by omega) (by omega), ea]) (by omega) (by omega)
  have hb := termStart_real (fromIndex (Y + 1) 0) (24 * Y).toNat (by rw [gidx_fromIndex (Y + 1) 0 (by omega) (by omega), eb]) (by omega) (by omega)
  have sa := solstice_bounds Y h1 (by omega)
  have sb := solstice_bounds (Y + 1) (by omega) (by omega)
  have e1 : Y + 1 - 1 = Y := by omega
  rw [e1] at sb
  obtain ⟨y1, y2⟩ := jdn_in_year Y M D hv
  obtain ⟨d1, d2, d3⟩ := jdn_dec_jan Y h1 (by omega)
  obtain ⟨r1, _⟩ := jdn_dec_range (Y - 1) (by omega) (by omega)
  obtain ⟨_, r2⟩ := jdn_dec_range Y (by omega) (by omega)
  have hne := nine_eq realEph Y (jdn Y M D) _ _ ha hb (by omega) (by unfold JFIRST JLAST at *; omega)
  have eab : (24 * (Y - 1)).toNat + 24 = (24 * Y).toNat := by omega
  by_cases hj : jdn Y M D < realEph.termDay (24 * Y).toNat
  · rw [if_pos hj] at hne
    refine ⟨(24 * (Y - 1)).toNat, by omega, by omega, ⟨by omega, by omega, ?_⟩, hne⟩
    show jdn Y M D < realEph.termDay ((24 * (Y - 1)).toNat + 24)
    rw [eab]; exact hj
  · rw [if_neg hj] at hne
    have m := (term_mono (24 * Y).toNat 24 (by omega) (by omega)).1
    exact ⟨(24 * Y).toNat, by omega, by omega, ⟨by omega, by omega, by show jdn Y M D < realEph.termDay _; omega⟩, hne⟩

/-- "The 81 days from each winter-solstice day are the nine Nines, nine days each, and no other day is one":
the code reports day i of Nine k exactly when the day is 9·k + i days after SOME winter-solstice day (any year). -/
theorem C15_nine_iff (Y M D : Int) (hv : Civil.valid Y M D = true) (h1 : 2 ≤ Y) (h2 : Y ≤ 9998) (k i : Int) :
    nine realEph Y (jdn Y M D) = some (some (k, i)) ↔
      ∃ g : Nat, 1 ≤ g ∧ g ≤ 239977 ∧ IsNineOf T g (jdn Y M D) k i := by
  obtain ⟨g0, a1, a2, ⟨a3, a4, a5⟩, e⟩ := C15_nine Y M D hv h1 h2
  rw [e]
  unfold nineAt IsNineOf
  constructor
  · intro h
    split at h
    · simp only [Option.some.injEq, Prod.mk.injEq] at h
      exact ⟨g0, a1, by omega, a3, by omega, by omega, by omega, by omega, by omega⟩
    · simp at h
  · rintro ⟨g, b1, b2, b3, k0, k1, i0, i1, ej⟩
    have hg : g = g0 := by
      by_cases c : g < g0
      · have := (term_le g g0 b1 (by omega) (by omega)).1; omega
      · by_cases c' : g0 < g
        · have := (term_le (g0 + 24) g (by omega) (by omega) b2).1
          have a5' : jdn Y M D < realEph.termDay (g0 + 24) := a5
          omega
        · omega
    subst hg
    have : jdn Y M D - T g < 81 := by omega
    rw [if_pos this]
    simp only [Option.some.injEq, Prod.mk.injEq]
    omega

/-- …and the code says "not a Nine day" exactly for the days that are not within 81 days after any winter solstice -/
theorem C15_nine_none (Y M D : Int) (hv : Civil.valid Y M D = true) (h1 : 2 ≤ Y) (h2 : Y ≤ 9998) :
    nine realEph Y (jdn Y M D) = some none ↔
      ¬ ∃ (g : Nat) (k i : Int), 1 ≤ g ∧ g ≤ 239977 ∧ IsNineOf T g (jdn Y M D) k i := by
  constructor
  · rintro h ⟨g, k, i, hg⟩
    have := (C15_nine_iff Y M D hv h1 h2 k i).2 ⟨g, hg⟩
    rw [h] at this; simp at this
  · intro h
    obtain ⟨g0, _, _, _, e⟩ := C15_nine Y M D hv h1 h2
    cases hn : nineAt (T g0) (jdn Y M D) with
    | none => rw [e, hn]
    | some r =>
      exfalso
      obtain ⟨k, i⟩ := r
      rw [hn] at e
      obtain ⟨g, hg⟩ := (C15_nine_iff Y M D hv h1 h2 k i).1 e
      exact h ⟨g, k, i, hg⟩

/-! ### Dog days -/

/-- get_dog_day: whatever it returns (i.e. unless the lunar conversion of the solstice day were refused) is the spec
function of the latest summer-solstice day on or before the day and the Start-of-Autumn day that follows it —
every civil date of 2..9998, no year excluded. -/
theorem C15_dog (Y M D : Int) (hv : Civil.valid Y M D = true) (h1 : 2 ≤ Y) (h2 : Y ≤ 9998)
    (r : Option (Int × Int)) (h : dog realEph Y (jdn Y M D) = some r) :
    ∃ g : Nat, 1 ≤ g ∧ g + 24 ≤ 239977 ∧ IsLatestKind T 12 (jdn Y M D) g ∧
      r = dogAt (T g) (T (g + 3)) (jdn Y M D) := by
  have hs := termStart_real (fromIndex Y 12) (24 * (Y - 1) + 12).toNat (gidx_fromIndex Y 12 (by omega) (by omega)) (by omega) (by omega)
  have hl := termStart_real (Term.next (fromIndex Y 12) 3) (24 * (Y - 1) + 12 + 3).toNat (gidx_next Y 12 3 (by omega) (by omega) (by omega)) (by omega) (by omega)
  obtain ⟨y1, y2⟩ := jdn_in_year Y M D hv
  obtain ⟨a1, a2, a3, a4, a5⟩ := anchor_in_year Y h1 h2 12 (by omega)
  obtain ⟨r1, _⟩ := jdn_dec_range (Y - 1) (by omega) (by omega)
  obtain ⟨_, r2⟩ := jdn_dec_range Y (by omega) (by omega)
  obtain ⟨d1, d2, d3⟩ := jdn_dec_jan Y h1 (by omega)
  have sa := solstice_bounds Y h1 (by omega)
  -- the lunar-route pillar of the solstice day
  have hp : pillarOf realEph (realEph.termDay (24 * (Y - 1) + 12).toNat) = some ((realEph.termDay (24 * (Y - 1) + 12).toNat + 49) % 60) := by
    cases hq : pillarOf realEph (realEph.termDay (24 * (Y - 1) + 12).toNat) with
    | none => unfold dog at h; simp only [hs, hq] at h; cases h
    | some p => rw [pillar_real Y h1 h2 12 (by omega) p hq]
  have he := dog_eq realEph Y (jdn Y M D) _ _ hs hp hl (by unfold JFIRST JLAST at *; omega)
  rw [he] at h
  simp only [Option.some.injEq] at h
  have e3 : (24 * (Y - 1) + 12 + 3).toNat = (24 * (Y - 1) + 12).toNat + 3 := by omega
  rw [e3] at h
  by_cases hj : realEph.termDay (24 * (Y - 1) + 12).toNat ≤ jdn Y M D
  · have m := (term_mono (24 * (Y - 1) + 12).toNat 24 (by omega) (by omega)).1
    have sb := solstice_bounds (Y + 1) (by omega) (by omega)
    have e1 : Y + 1 - 1 = Y := by omega
    rw [e1] at sb
    exact ⟨(24 * (Y - 1) + 12).toNat, by omega, by omega, ⟨by omega, hj, by omega⟩, h.symm⟩
  · -- before this year's solstice: no Dog day, and none counted from last year's solstice either
    have n1 := dogAt_none (realEph.termDay (24 * (Y - 1) + 12).toNat) (realEph.termDay ((24 * (Y - 1) + 12).toNat + 3)) (jdn Y M D) (by omega)
    have m := term_le (24 * (Y - 1) + 12 - 24).toNat (24 * (Y - 1)).toNat (by omega) (by omega) (by omega)
    have n2 := dogAt_none (realEph.termDay (24 * (Y - 1) + 12 - 24).toNat) (realEph.termDay ((24 * (Y - 1) + 12 - 24).toNat + 3)) (jdn Y M D) (by omega)
    have e24 : (24 * (Y - 1) + 12 - 24).toNat + 24 = (24 * (Y - 1) + 12).toNat := by omega
    refine ⟨(24 * (Y - 1) + 12 - 24).toNat, by omega, by omega, ⟨by omega, by omega, ?_⟩, ?_⟩
    · rw [e24]; omega
    · rw [← h, n1, n2]

/-- "The Dog days run from the third Geng day on or after the summer-solstice day: ten days, then ten or twenty days
according to whether the fifth Geng day precedes the start-of-autumn day, then ten days, and no other day is one":
the code reports day i of period k exactly when the day is that day counted from SOME year's summer solstice. -/
theorem C15_dog_iff (Y M D : Int) (hv : Civil.valid Y M D = true) (h1 : 2 ≤ Y) (h2 : Y ≤ 9998)
    (r : Option (Int × Int)) (h : dog realEph Y (jdn Y M D) = some r) (k i : Int) :
    r = some (k, i) ↔
      ∃ g : Nat, 1 ≤ g ∧ g + 3 ≤ 239977 ∧ g % 24 = 12 ∧ IsDogOf (T g) (T (g + 3)) (jdn Y M D) k i := by
  obtain ⟨g0, a1, a2, ⟨a3, a4, a5⟩, e⟩ := C15_dog Y M D hv h1 h2 r h
  have a5' : jdn Y M D < realEph.termDay (g0 + 24) := a5
  rw [e]
  constructor
  · intro hh
    exact ⟨g0, a1, by omega, a3, (dogAt_iff _ _ _ _ _).1 hh⟩
  · rintro ⟨g, b1, b2, b3, hd⟩
    have hd' := (dogAt_iff _ _ _ _ _).2 hd
    have hg : g = g0 := by
      by_cases c : g < g0
      · exfalso
        have := (term_le g g0 b1 (by omega) (by omega)).1
        rw [dogAt_none _ _ _ (Or.inr (by omega))] at hd'
        cases hd'
      · by_cases c' : g0 < g
        · exfalso
          have := (term_le (g0 + 24) g (by omega) (by omega) (by omega)).1
          rw [dogAt_none _ _ _ (Or.inl (by omega))] at hd'
          cases hd'
        · omega
    subst hg
    exact hd'

/-! ### Plum rains -/

/-- get_plum_rain_day: whatever it returns is the spec function of the latest Grain-in-Ear day on or before the day
and the Slight-Heat day two terms later — every civil date of 2..9998. -/
theorem C15_plum (Y M D : Int) (hv : Civil.valid Y M D = true) (h1 : 2 ≤ Y) (h2 : Y ≤ 9998)
    (r : Option (Int × Int)) (h : plum realEph Y (jdn Y M D) = some r) :
    ∃ g : Nat, 1 ≤ g ∧ g + 24 ≤ 239977 ∧ IsLatestKind T 11 (jdn Y M D) g ∧
      r = plumAt (T g) (T (g + 2)) (jdn Y M D) := by
  have hg := termStart_real (fromIndex Y 11) (24 * (Y - 1) + 11).toNat (gidx_fromIndex Y 11 (by omega) (by omega)) (by omega) (by omega)
  have hh := termStart_real (Term.next (fromIndex Y 11) 2) (24 * (Y - 1) + 11 + 2).toNat (gidx_next Y 11 2 (by omega) (by omega) (by omega)) (by omega) (by omega)
  have e13 : 24 * (Y - 1) + 11 + 2 = 24 * (Y - 1) + 13 := by omega
  rw [e13] at hh
  obtain ⟨y1, y2⟩ := jdn_in_year Y M D hv
  obtain ⟨a1, a2, a3, a4, a5⟩ := anchor_in_year Y h1 h2 11 (by omega)
  obtain ⟨b1, b2, b3, b4, b5⟩ := anchor_in_year Y h1 h2 13 (by omega)
  obtain ⟨r1, _⟩ := jdn_dec_range (Y - 1) (by omega) (by omega)
  obtain ⟨_, r2⟩ := jdn_dec_range Y (by omega) (by omega)
  obtain ⟨d1, d2, d3⟩ := jdn_dec_jan Y h1 (by omega)
  have sa := solstice_bounds Y h1 (by omega)
  have hpg : pillarOf realEph (realEph.termDay (24 * (Y - 1) + 11).toNat) = some ((realEph.termDay (24 * (Y - 1) + 11).toNat + 49) % 60) := by
    cases hq : pillarOf realEph (realEph.termDay (24 * (Y - 1) + 11).toNat) with
    | none => unfold plum at h; simp only [hg, hq] at h; cases h
    | some p => rw [pillar_real Y h1 h2 11 (by omega) p hq]
  have hph : pillarOf realEph (realEph.termDay (24 * (Y - 1) + 13).toNat) = some ((realEph.termDay (24 * (Y - 1) + 13).toNat + 49) % 60) := by
    cases hq : pillarOf realEph (realEph.termDay (24 * (Y - 1) + 13).toNat) with
    | none =>
      unfold plum at h; simp only [hg, hpg, hh, hq] at h
      split at h <;> cases h
    | some p => rw [pillar_real Y h1 h2 13 (by omega) p hq]
  have he := plum_eq realEph Y (jdn Y M D) _ _ hg hpg hh hph (by unfold JFIRST JLAST at *; omega)
  rw [he] at h
  simp only [Option.some.injEq] at h
  have e2 : (24 * (Y - 1) + 13).toNat = (24 * (Y - 1) + 11).toNat + 2 := by omega
  rw [e2] at h
  by_cases hj : realEph.termDay (24 * (Y - 1) + 11).toNat ≤ jdn Y M D
  · have m := (term_mono (24 * (Y - 1) + 11).toNat 24 (by omega) (by omega)).1
    have sb := solstice_bounds (Y + 1) (by omega) (by omega)
    have e1 : Y + 1 - 1 = Y := by omega
    rw [e1] at sb
    exact ⟨(24 * (Y - 1) + 11).toNat, by omega, by omega, ⟨by omega, hj, by omega⟩, h.symm⟩
  · have n1 := plumAt_none (realEph.termDay (24 * (Y - 1) + 11).toNat) (realEph.termDay ((24 * (Y - 1) + 11).toNat + 2)) (jdn Y M D) (Or.inl (by omega))
    have m := term_le (24 * (Y - 1) + 11 - 24 + 2).toNat (24 * (Y - 1)).toNat (by omega) (by omega) (by omega)
    have e22 : (24 * (Y - 1) + 11 - 24 + 2).toNat = (24 * (Y - 1) + 11 - 24).toNat + 2 := by omega
    rw [e22] at m
    have m0 := term_le (24 * (Y - 1) + 11 - 24).toNat (24 * (Y - 1)).toNat (by omega) (by omega) (by omega)
    have n2 := plumAt_none (realEph.termDay (24 * (Y - 1) + 11 - 24).toNat) (realEph.termDay ((24 * (Y - 1) + 11 - 24).toNat + 2)) (jdn Y M D) (Or.inr (by omega))
    have e24 : (24 * (Y - 1) + 11 - 24).toNat + 24 = (24 * (Y - 1) + 11).toNat := by omega
    refine ⟨(24 * (Y - 1) + 11 - 24).toNat, by omega, by omega, ⟨by omega, by omega, ?_⟩, ?_⟩
    · rw [e24]; omega
    · rw [← h, n1, n2]

/-- "Plum rains run from the first Bing day on or after Grain-in-Ear to the first Wei day on or after Slight Heat"
(days before the leaving day: "entering", index = days since the entering day; the leaving day itself: "leaving",
index 0), and no other day is one — counted from SOME year's Grain-in-Ear day. -/
theorem C15_plum_iff (Y M D : Int) (hv : Civil.valid Y M D = true) (h1 : 2 ≤ Y) (h2 : Y ≤ 9998)
    (r : Option (Int × Int)) (h : plum realEph Y (jdn Y M D) = some r) (k i : Int) :
    r = some (k, i) ↔
      ∃ g : Nat, 1 ≤ g ∧ g + 2 ≤ 239977 ∧ g % 24 = 11 ∧ IsPlumOf (T g) (T (g + 2)) (jdn Y M D) k i := by
  obtain ⟨g0, a1, a2, ⟨a3, a4, a5⟩, e⟩ := C15_plum Y M D hv h1 h2 r h
  have a5' : jdn Y M D < realEph.termDay (g0 + 24) := a5
  rw [e]
  have gap : ∀ g : Nat, 1 ≤ g → g + 2 ≤ 239977 → realEph.termDay g + 9 ≤ realEph.termDay (g + 2) := by
    intro g g1 g2
    have := (term_mono g 2 g1 g2).1; omega
  constructor
  · intro hh
    exact ⟨g0, a1, by omega, a3, (plumAt_iff _ _ _ _ _ (gap g0 a1 (by omega))).1 hh⟩
  · rintro ⟨g, b1, b2, b3, hd⟩
    have hd' := (plumAt_iff _ _ _ _ _ (gap g b1 b2)).2 hd
    have hg : g = g0 := by
      by_cases c : g < g0
      · exfalso
        have := (term_le (g + 2) g0 (by omega) (by omega) (by omega)).1
        rw [plumAt_none _ _ _ (Or.inr (by omega))] at hd'
        cases hd'
      · by_cases c' : g0 < g
        · exfalso
          have := (term_le (g0 + 24) g (by omega) (by omega) (by omega)).1
          rw [plumAt_none _ _ _ (Or.inl (by omega))] at hd'
          cases hd'
        · omega
    subst hg
    exact hd'

/-! ### the term of the day (C06) for the dates of 2..9998 -/

theorem C15_term_of_day (Y M D : Int) (hv : Civil.valid Y M D = true) (h1 : 2 ≤ Y) (h2 : Y ≤ 9998) (g : Nat) (k : Int)
    (h : ofDay realEph Y M D = some (g, k)) :
    2 ≤ g ∧ g + 23 ≤ 239977 ∧ IsLatest T (jdn Y M D) g ∧ k = jdn Y M D - T g ∧ 0 ≤ k ∧ k ≤ 15 := by
  obtain ⟨c1, c2, c3, c4, c5⟩ := C06_ofDay_spec realEph Y M D g k h
  obtain ⟨y1, y2⟩ := jdn_in_year Y M D hv
  have sb := solstice_bounds (Y + 1) (by omega) (by omega)
  have e1 : Y + 1 - 1 = Y := by omega
  rw [e1] at sb
  have hlt : g < 240000 := by
    by_cases c : g < 240000
    · exact c
    · exfalso; apply c1
      have : termRecs.getD g 0 = 0 := by
        simp only [List.getD]
        rw [List.getElem?_eq_none (by rw [termRecs_length]; omega)]; rfl
      simp only [realEph, this]; rfl
  have hr : 1 ≤ g ∧ g ≤ 239977 := by
    have := realEph_term_repr g hlt
    by_cases c : g = 0 ∨ 239978 ≤ g
    · exact absurd (this.2 c) c1
    · omega
  have hup : g ≤ (24 * Y).toNat + 2 := by
    by_cases c : g ≤ (24 * Y).toNat + 2
    · exact c
    · exfalso
      have := (term_le (24 * Y).toNat g (by omega) (by omega) hr.2).1
      omega
  have hlo : 2 ≤ g := by
    by_cases c : 2 ≤ g
    · exact c
    · exfalso
      have g1 : g = 1 := by omega
      subst g1
      have t2 := term_ne_zero 2 (by omega) (by omega)
      have m := (term_le 2 24 (by omega) (by omega) (by omega)).1
      have s2 := solstice_bounds 2 (by omega) (by omega)
      have e : (24 * ((2 : Int) - 1)).toNat = 24 := by decide
      rw [e] at s2
      have d := (jdn_dec_jan 2 (by omega) (by omega)).1
      have mm := jdn_jan1_mono 2 Y h1
      rcases c3 with c3 | c3
      · exact t2 c3
      · have c3' : jdn Y M D < realEph.termDay 2 := c3
        omega
  have hn : jdn Y M D < realEph.termDay (g + 1) := by
    rcases c3 with c3 | c3
    · exact absurd c3 (term_ne_zero (g + 1) (by omega) (by omega))
    · exact c3
  have inc := realEph_termInc g hr.1 (by omega)
  exact ⟨hlo, by omega, ⟨c2, hn⟩, c4, c5, by omega⟩

/-! ### Pentads -/

/-- get_phenology_day = the spec function of the day's term: pentad 3·(term index) + min(2, ⌊n/5⌋), n = days into the
term — every civil date of 2..9998 (given the term look-up of C06, which is never refused there on the K run). -/
theorem C15_pentad (Y M D : Int) (hv : Civil.valid Y M D = true) (h1 : 2 ≤ Y) (h2 : Y ≤ 9998) (g : Nat) (k : Int)
    (h : ofDay realEph Y M D = some (g, k)) :
    IsLatest T (jdn Y M D) g ∧ pheno realEph Y M D = some (pentadAt (g % 24) (jdn Y M D - T g)) := by
  obtain ⟨_, _, a3, a4, a5, _⟩ := C15_term_of_day Y M D hv h1 h2 g k h
  refine ⟨a3, ?_⟩
  rw [← a4]
  exact pheno_eq realEph Y M D g k h a5

/-- "Every day lies in exactly one of the 72 pentads (three per term: days 0–4, 5–9, 10+)": the triple the code
reports is the one and only (pentad, position, day) that fits the day. -/
theorem C15_pentad_unique (Y M D : Int) (hv : Civil.valid Y M D = true) (h1 : 2 ≤ Y) (h2 : Y ≤ 9998) (g : Nat) (k : Int)
    (h : ofDay realEph Y M D = some (g, k)) (p q d : Int) :
    pheno realEph Y M D = some (p, q, d) ↔ InPentad (g % 24) (jdn Y M D - T g) p q d := by
  obtain ⟨_, _, _, a4, a5, _⟩ := C15_term_of_day Y M D hv h1 h2 g k h
  rw [(C15_pentad Y M D hv h1 h2 g k h).2, Option.some.injEq]
  exact pentadAt_iff _ _ _ _ _ (by omega)

/-- the pentad number is one of 0..71, the position 0..2, the day inside the pentad 0..4 (0..5 in the third) -/
theorem C15_pentad_range (Y M D : Int) (hv : Civil.valid Y M D = true) (h1 : 2 ≤ Y) (h2 : Y ≤ 9998) (p q d : Int)
    (h : pheno realEph Y M D = some (p, q, d)) : 0 ≤ p ∧ p ≤ 71 ∧ 0 ≤ q ∧ q ≤ 2 ∧ 0 ≤ d ∧ d ≤ 5 ∧ (q < 2 → d ≤ 4) := by
  cases ho : ofDay realEph Y M D with
  | none => unfold pheno at h; simp [ho] at h
  | some r =>
    obtain ⟨g, k⟩ := r
    obtain ⟨_, _, _, a4, a5, a6⟩ := C15_term_of_day Y M D hv h1 h2 g k ho
    obtain ⟨e1, e2, e3⟩ := (C15_pentad_unique Y M D hv h1 h2 g k ho p q d).1 h
    have : g % 24 < 24 := Nat.mod_lt _ (by decide)
    omega

/-! ### Commanding stem -/

/-- THE PACKED DIGIT STRING IS THE CLASSICAL TABLE: for each of the twelve months (Jie index r = 1, 3, …, 23) and
every day index 0 ≤ n < 40, the loop of the code over its six characters of
"93705542220504xx1513904541632524533533105544806564xx7573304542018584xx95" (after the repair of D21) returns what
walking the classical allotment of Spec/Series.lean returns. -/
theorem C15_stem_table (r : Nat) (hr : r % 2 = 1 ∧ r < 24) (n : Int) (hn : 0 ≤ n) (hn2 : n < 40) :
    hideLoop (hideSlice r) n 3 0 0 0 = commandAt (allotment r) 0 n := hideLoop_eq r hr n hn hn2

/-- the classical allotments of a month sum to 30 days, have positive counts and two or three entries -/
theorem C15_allotment_wf (r : Nat) (hr : r % 2 = 1 ∧ r < 24) :
    total (allotment r) = 30 ∧ (∀ e ∈ allotment r, 0 < e.2 ∧ 0 ≤ e.1 ∧ e.1 ≤ 9) ∧ 2 ≤ (allotment r).length := by
  have hc : r = 1 ∨ r = 3 ∨ r = 5 ∨ r = 7 ∨ r = 9 ∨ r = 11 ∨ r = 13 ∨ r = 15 ∨ r = 17 ∨ r = 19 ∨ r = 21 ∨ r = 23 := by omega
  rcases hc with h | h | h | h | h | h | h | h | h | h | h | h <;> subst h <;> decide

/-- get_hide_heaven_stem_day (repaired) = the classical table walked from the Jie day on or before the day: q is the
latest term of odd index on or before the day, n the days elapsed since (0..31) — every civil date of 2..9998. -/
theorem C15_stem (Y M D : Int) (hv : Civil.valid Y M D = true) (h1 : 2 ≤ Y) (h2 : Y ≤ 9998) (g : Nat) (k : Int)
    (h : ofDay realEph Y M D = some (g, k)) :
    jieOf g % 2 = 1 ∧ T (jieOf g) ≤ jdn Y M D ∧ jdn Y M D < T (jieOf g + 2) ∧ jdn Y M D - T (jieOf g) ≤ 31 ∧
    hide realEph Y M D = commandAt (allotment (jieOf g % 24)) 0 (jdn Y M D - T (jieOf g)) := by
  obtain ⟨a1, a2, ⟨a3, a3b⟩, a4, a5, a6⟩ := C15_term_of_day Y M D hv h1 h2 g k h
  have hj : jieOf g = g ∨ jieOf g + 1 = g := by unfold jieOf; split <;> omega
  have hodd : jieOf g % 2 = 1 := by unfold jieOf; split <;> omega
  have m1 := term_le (jieOf g) g (by omega) (by omega) (by omega)
  have m2 := term_le (g + 1) (jieOf g + 2) (by omega) (by omega) (by omega)
  have m3 := term_le (jieOf g) (jieOf g + 2) (by omega) (by omega) (by omega)
  have a3c : jdn Y M D < realEph.termDay (g + 1) := a3b
  have a3d : realEph.termDay g ≤ jdn Y M D := a3
  refine ⟨hodd, by omega, by omega, by omega, ?_⟩
  exact hide_eq realEph Y M D g k h a1 (term_ne_zero _ (by omega) (by omega)) (by omega) (by omega)

/-- "…under exactly one commanding stem of the classical per-month allotment, counted from the month's Jie day with
a day index inside that allotment": the (stem, type, day) the code reports is the one and only triple that fits —
the allotments before it are used up exactly, the day index lies inside its own count (the main qi, last, takes all
remaining days of the month). -/
theorem C15_stem_unique (Y M D : Int) (hv : Civil.valid Y M D = true) (h1 : 2 ≤ Y) (h2 : Y ≤ 9998) (g : Nat) (k : Int)
    (h : ofDay realEph Y M D = some (g, k)) (s ty d : Int) :
    hide realEph Y M D = some (s, ty, d) ↔
      Commands (allotment (jieOf g % 24)) (jdn Y M D - T (jieOf g)) s ty d := by
  obtain ⟨b1, b2, b3, b4, e⟩ := C15_stem Y M D hv h1 h2 g k h
  have hrr : jieOf g % 24 % 2 = 1 ∧ jieOf g % 24 < 24 := by omega
  obtain ⟨w1, w2, w3⟩ := C15_allotment_wf _ hrr
  rw [e]
  constructor
  · intro hc
    obtain ⟨pre, c, post, q1, q2, q3, q4⟩ := commandAt_commands _ 0 _ s ty d (by omega) hc
    refine ⟨pre, c, post, q1, q2, q3, ?_⟩
    rcases q4 with q4 | ⟨q4, q5, q6⟩
    · exact Or.inl q4
    · exact Or.inr ⟨q4, by omega, q6⟩
  · rintro ⟨pre, c, post, q1, q2, q3, q4⟩
    rw [q1]
    apply commands_commandAt pre c post 0 _ s ty d ?_ q2 q3
    · rcases q4 with q4 | ⟨q4, q5, q6⟩
      · exact Or.inl q4
      · exact Or.inr ⟨q4, by omega, q6⟩
    · intro e he
      exact (w2 e (by rw [q1]; simp [he])).1

/-- the reported stem is one of the ten, the type 0 (residual) / 1 (middle) / 2 (main), the day index 0..31 -/
theorem C15_stem_range (Y M D : Int) (hv : Civil.valid Y M D = true) (h1 : 2 ≤ Y) (h2 : Y ≤ 9998) (s ty d : Int)
    (h : hide realEph Y M D = some (s, ty, d)) : 0 ≤ s ∧ s ≤ 9 ∧ 0 ≤ ty ∧ ty ≤ 2 ∧ 0 ≤ d ∧ d ≤ 31 := by
  cases ho : ofDay realEph Y M D with
  | none => unfold hide at h; simp [ho] at h
  | some r =>
    obtain ⟨g, k⟩ := r
    obtain ⟨b1, b2, b3, b4, e⟩ := C15_stem Y M D hv h1 h2 g k ho
    rw [e] at h
    have := command_range (jieOf g % 24) (by omega) _ (by omega) s ty d h
    omega

/-! ### unconditional forms: the term look-up is never refused on 2..9998 -/

/-- get_term_day (C06) is never refused on a civil date of the years 2..9998 -/
theorem C15_term_total (Y M D : Int) (hv : Civil.valid Y M D = true) (h1 : 2 ≤ Y) (h2 : Y ≤ 9998) :
    ∃ g k, ofDay realEph Y M D = some (g, k) := ofDay_total Y M D hv h1 h2

/-- EXACTLY ONE PENTAD: for every civil date of 2..9998 the code returns a pentad (never refused); it is the one
that fits the latest term g on or before the day, and no other (pentad, position, day) fits. -/
theorem C15_pentad_total (Y M D : Int) (hv : Civil.valid Y M D = true) (h1 : 2 ≤ Y) (h2 : Y ≤ 9998) :
    ∃ g : Nat, IsLatest T (jdn Y M D) g ∧ ∃ p q d, pheno realEph Y M D = some (p, q, d) ∧
      InPentad (g % 24) (jdn Y M D - T g) p q d ∧
      ∀ p' q' d', InPentad (g % 24) (jdn Y M D - T g) p' q' d' → (p', q', d') = (p, q, d) := by
  obtain ⟨g, k, h⟩ := ofDay_total Y M D hv h1 h2
  obtain ⟨a, e⟩ := C15_pentad Y M D hv h1 h2 g k h
  refine ⟨g, a, _, _, _, e, (C15_pentad_unique Y M D hv h1 h2 g k h _ _ _).1 e, ?_⟩
  intro p' q' d' hp
  have := (C15_pentad_unique Y M D hv h1 h2 g k h p' q' d').2 hp
  rw [e] at this
  simp only [Option.some.injEq] at this
  exact this.symm

/-- EXACTLY ONE COMMANDING STEM: for every civil date of 2..9998 the (repaired) code returns a stem (never refused);
it is the one in command n days after the latest Jie day q on or before the day according to the classical
allotment of that month, with the day index inside its allotment, and no other (stem, type, day) fits. -/
theorem C15_stem_total (Y M D : Int) (hv : Civil.valid Y M D = true) (h1 : 2 ≤ Y) (h2 : Y ≤ 9998) :
    ∃ q : Nat, q % 2 = 1 ∧ T q ≤ jdn Y M D ∧ jdn Y M D < T (q + 2) ∧ ∃ s ty d, hide realEph Y M D = some (s, ty, d) ∧
      Commands (allotment (q % 24)) (jdn Y M D - T q) s ty d ∧
      ∀ s' ty' d', Commands (allotment (q % 24)) (jdn Y M D - T q) s' ty' d' → (s', ty', d') = (s, ty, d) := by
  obtain ⟨g, k, h⟩ := ofDay_total Y M D hv h1 h2
  obtain ⟨b1, b2, b3, b4, e⟩ := C15_stem Y M D hv h1 h2 g k h
  have hrr : jieOf g % 24 % 2 = 1 ∧ jieOf g % 24 < 24 := by omega
  obtain ⟨w1, w2, w3⟩ := C15_allotment_wf _ hrr
  -- the walk of a non-empty table always answers
  cases hc : commandAt (allotment (jieOf g % 24)) 0 (jdn Y M D - T (jieOf g)) with
  | none =>
    exfalso
    have hlen : 2 ≤ (allotment (jieOf g % 24)).length := w3
    have hn : 0 ≤ jdn Y M D - T (jieOf g) ∧ jdn Y M D - T (jieOf g) < 40 := by omega
    have hl := hideLoop_eq _ hrr _ hn.1 hn.2
    rw [hc] at hl
    have hc2 : jieOf g % 24 = 1 ∨ jieOf g % 24 = 3 ∨ jieOf g % 24 = 5 ∨ jieOf g % 24 = 7 ∨ jieOf g % 24 = 9 ∨ jieOf g % 24 = 11 ∨
      jieOf g % 24 = 13 ∨ jieOf g % 24 = 15 ∨ jieOf g % 24 = 17 ∨ jieOf g % 24 = 19 ∨ jieOf g % 24 = 21 ∨ jieOf g % 24 = 23 := by omega
    generalize jdn Y M D - T (jieOf g) = n at *
    rcases hc2 with e' | e' | e' | e' | e' | e' | e' | e' | e' | e' | e' | e' <;> rw [e'] at hc <;>
      simp [allotment, commandAt] at hc <;> (repeat' split at hc) <;> simp at hc
  | some r =>
    obtain ⟨s, ty, d⟩ := r
    rw [hc] at e
    refine ⟨jieOf g, b1, b2, b3, s, ty, d, e, (C15_stem_unique Y M D hv h1 h2 g k h s ty d).1 e, ?_⟩
    intro s' ty' d' hp
    have := (C15_stem_unique Y M D hv h1 h2 g k h s' ty' d').2 hp
    rw [e] at this
    simp only [Option.some.injEq] at this
    exact this.symm

/-! ### non-vacuity: the hypotheses are met and the series take the expected values on concrete dates of the
current tree (kernel computation through the model over the extracted tables) -/

set_option maxRecDepth 100000 in
/-- 2023-12-26 is day 5 (index 4) of the first Nine; 2024-07-15 opens the Dog days; 2024-08-14 opens the last period
(the middle one had 20 days in 2024); 2024-06-20 is day 10 of the plum rains, 2024-07-06 the leaving day -/
example : nine realEph 2023 (jdn 2023 12 26) = some (some (0, 4)) ∧
    dog realEph 2024 (jdn 2024 7 15) = some (some (0, 0)) ∧ dog realEph 2024 (jdn 2024 8 14) = some (some (2, 0)) ∧
    plum realEph 2024 (jdn 2024 6 20) = some (some (0, 9)) ∧ plum realEph 2024 (jdn 2024 7 6) = some (some (1, 0)) := by
  decide +kernel

set_option maxRecDepth 100000 in
/-- 2024-02-11: 7 days into Lichun (term 3 of 2024): pentad 10 (the second of Lichun), day 2 of it; the commanding stem
is Bing (2), middle qi (1), day 0 — the first day of the second allotment of the Yin month (Wu 7, Bing 7, Jia 16):
the D21 witness, which the unrepaired code reported as "Wu, residual, index 7". -/
example : ofDay realEph 2024 2 11 = some (24 * 2023 + 3, 7) ∧ pheno realEph 2024 2 11 = some (10, 1, 2) ∧
    hide realEph 2024 2 11 = some (2, 1, 0) ∧ hide realEph 2024 2 10 = some (4, 0, 6) := by
  decide +kernel

example : Civil.valid 2024 2 11 = true ∧ IsDogOf 100 145 127 0 0 ∧ dogAt 100 145 127 = some (0, 0) := by
  refine ⟨by decide, ?_, by decide⟩
  exact (dogAt_iff _ _ _ _ _).1 (by decide)

end Tyme
