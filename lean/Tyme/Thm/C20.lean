import Tyme.Lemmas.FestNext
import Tyme.Lemmas.FestSolar
import Tyme.Lemmas.FestLunar
import Tyme.Facts.C20
import Tyme.Facts.C20b
/-!
C20 — festival and legal-holiday look-ups are consistent in both directions.
Property theorems only; every obligation is named `C20_*`.

Data: the three strings `SOLAR_FESTIVAL_DATA`, `LUNAR_FESTIVAL_DATA`, `LEGAL_HOLIDAY_DATA` and the name arrays are
dumped from the crate on every run into `Tyme/Gen/C20.lean` (bytes); the table facts `C20_tf_*` (Tyme/Facts/C20*.lean)
are closed computations on them decided by the kernel — complete enumerations (all 821 records, all 10,673 offsets,
every month × day), not samples.
Model (`Tyme/Model/Festival.lean`): the regex look-ups as leftmost unanchored byte scans, `from_ymd`, `from_index`,
`next`; tied to src/tyme/{festival,holiday}.rs by the correspondence run.
Spec (`Tyme/Spec/Festival.lean`, `FestivalLunar.lean`): the strings cut into records by position, look-ups as list searches.
Lunar festivals are stated over an ABSTRACT calendar `Cal` (lunar dates and solar terms belong to other properties);
`LunarFestival::from_ymd` is modelled with the repair fixes/C20-term-festival.diff (D13).
-/
namespace Tyme
open Fest FestSpec Gen.C20

/-! ## civil festivals -/

/-- model = record reading on every real civil date: the festival found is the record with that month-day whose
founding year is ≤ the year; nothing otherwise. -/
theorem C20_solar_fromYmd (y m d : Int) (hv : Civil.valid y m d = true) :
    solarFromYmd solarData y m d = match solarOn (solarRecs solarData) y m d with
      | some r => .found ⟨r.idx, y, m, d, r.start⟩
      | none => .absent :=
  solarFromYmd_spec C20_tf_solar_wf hv

/-- A civil festival is found on exactly its month-day in every year from its founding year on and never before
(all integer arguments; years after 9999 have no civil date and are refused, never answered). -/
theorem C20_solar_found_iff (y m d : Int) (f : SolarFest) :
    solarFromYmd solarData y m d = .found f ↔
      ∃ r ∈ solarRecs solarData, (r.m : Int) = m ∧ (r.d : Int) = d ∧ (r.start : Int) ≤ y ∧ y ≤ 9999 ∧
        f = ⟨r.idx, y, m, d, r.start⟩ := by
  have W := C20_tf_solar_wf
  constructor
  · intro h
    have hv : Civil.valid y m d = true := by
      unfold solarFromYmd at h
      split at h
      · cases h
      · split at h
        · cases h
        · rename_i mt _
          unfold solarYmdEval at h
          split at h
          · cases h
          · split at h
            · cases h
            · split at h
              · rename_i hok; rw [← C01_accept_iff]; exact hok
              · cases h
    rw [C20_solar_fromYmd y m d hv] at h
    cases hs : solarOn (solarRecs solarData) y m d with
    | none => rw [hs] at h; cases h
    | some r =>
      rw [hs] at h
      simp only [Res.found.injEq] at h
      unfold solarOn at hs
      have hp := List.find?_some hs
      simp only [Bool.and_eq_true, beq_iff_eq, decide_eq_true_eq] at hp
      have hy := ((valid_iff y m d).1 hv).2.1
      exact ⟨r, List.mem_of_find?_eq_some hs, hp.1.1, hp.1.2, hp.2, hy, h.symm⟩
  · rintro ⟨r, hr, hm, hd, hs, hy, rfl⟩
    have F := solar_rec_facts W hr
    have hok : solarDayOk y m d = true := by
      rw [← hm, ← hd, solarDayOk_fixed (by omega) F.2.2.1 F.2.2.2.1 F.2.2.2.2.1 F.2.2.2.2.2.1]
      simpa using hy
    have hv : Civil.valid y m d = true := by rw [← C01_accept_iff]; exact hok
    rw [C20_solar_fromYmd y m d hv]
    have : solarOn (solarRecs solarData) y m d = some r := by
      unfold solarOn
      rw [List.find?_eq_some_iff_append]
      obtain ⟨as, bs, hsplit⟩ := List.append_of_mem hr
      refine ⟨by simp [hm, hd, hs], as, bs, hsplit, ?_⟩
      intro a ha
      simp only [Bool.not_eq_true', Bool.and_eq_false_iff, beq_eq_false_iff_ne, ne_eq, decide_eq_false_iff_not]
      by_cases h1 : (a.m : Int) = m
      · by_cases h2 : (a.d : Int) = d
        · have hamem : a ∈ solarRecs solarData := by rw [hsplit]; exact List.mem_append_left _ ha
          have e := solar_md_unique W hamem hr (by omega) (by omega)
          -- `a` would be `r` itself, but `r` occurs after `as` and month-days are pairwise distinct
          exfalso
          have hnd := W.recs
          simp only [solarRecsOk, Bool.and_eq_true] at hnd
          have hpw := hnd.1.2
          rw [hsplit] at hpw
          clear hnd
          have : ∀ (l : List SolarRec) (x : SolarRec) (t : List SolarRec), x ∈ l →
              nodupB ((l ++ x :: t).map fun r => r.m * 100 + r.d) = true → False := by
            intro l
            induction l with
            | nil => intro x t hx; cases hx
            | cons z l ih =>
              intro x t hx hn
              simp only [List.cons_append, List.map_cons, nodupB, Bool.and_eq_true, Bool.not_eq_true',
                List.contains_eq_mem, decide_eq_false_iff_not, List.mem_map, not_exists, not_and] at hn
              rcases List.mem_cons.1 hx with rfl | hx'
              · exact hn.1 x (by simp) rfl
              · exact ih x t hx' hn.2
          exact this as r bs (e ▸ ha) hpw
        · left; right; exact h2
      · left; left; exact h1
    rw [this]

/-- never before the founding year -/
theorem C20_solar_not_before (y m d : Int) (r : SolarRec) (hr : r ∈ solarRecs solarData)
    (hm : (r.m : Int) = m) (hd : (r.d : Int) = d) (hy : y < r.start) (f : SolarFest) :
    solarFromYmd solarData y m d ≠ .found f := by
  intro h
  obtain ⟨r', hr', hm', hd', hs', _, _⟩ := (C20_solar_found_iff y m d f).1 h
  have := solar_md_unique C20_tf_solar_wf hr hr' (by omega) (by omega)
  subst this; omega

/-- by index: the record with that index from its founding year on (refused beyond year 9999: no such civil date) -/
theorem C20_solar_fromIndex (y i : Int) (hi : 0 ≤ i) :
    solarFromIndex solarNames.length solarData y i = match solarAt (solarRecs solarData) y i with
      | some r => if y ≤ 9999 then .found ⟨r.idx, y, r.m, r.d, r.start⟩ else .refused
      | none => .absent :=
  solarFromIndex_spec C20_tf_solar_wf y hi

/-- both directions: the festival found by index is the one found on its own day -/
theorem C20_solar_roundtrip (y i : Int) (f : SolarFest)
    (h : solarFromIndex solarNames.length solarData y i = .found f) :
    solarFromYmd solarData f.y f.m f.d = .found f ∧ (f.idx : Int) = i := by
  have hi : 0 ≤ i := by
    unfold solarFromIndex at h
    split at h
    · cases h
    · omega
  rw [C20_solar_fromIndex y i hi] at h
  cases hs : solarAt (solarRecs solarData) y i with
  | none => rw [hs] at h; cases h
  | some r =>
    rw [hs] at h
    simp only [] at h
    split at h
    · rename_i hy
      simp only [Res.found.injEq] at h
      subst h
      unfold solarAt at hs
      have hp := List.find?_some hs
      simp only [Bool.and_eq_true, beq_iff_eq, decide_eq_true_eq] at hp
      refine ⟨?_, hp.1⟩
      rw [C20_solar_found_iff]
      exact ⟨r, List.mem_of_find?_eq_some hs, rfl, rfl, hp.2, hy, rfl⟩
    · cases h

/-- stepping a festival by `n` yields the festival `n` places further along the list, carrying into later or earlier
years: the position `size·year + index` is shifted by `n` (floor division; every integer `n`). -/
theorem C20_solar_next (f : SolarFest) (n : Int) :
    solarNext solarNames.length solarData f n =
      solarFromIndex solarNames.length solarData
        ((f.y * solarNames.length + f.idx + n) / solarNames.length)
        ((f.y * solarNames.length + f.idx + n) % solarNames.length) :=
  solarNext_spec C20_tf_solar_wf f n

/-- stepping is additive: `next a` then `next b` is `next (a + b)` -/
theorem C20_solar_next_add (f g : SolarFest) (a b : Int)
    (hg : solarNext solarNames.length solarData f a = .found g) :
    solarNext solarNames.length solarData g b = solarNext solarNames.length solarData f (a + b) := by
  have hs : (0 : Int) < solarNames.length := by decide
  rw [C20_solar_next] at hg ⊢
  rw [C20_solar_next f (a + b)]
  have hgi := C20_solar_roundtrip _ _ g hg
  have hi0 : 0 ≤ (f.y * solarNames.length + f.idx + a) % solarNames.length := Int.emod_nonneg _ (by omega)
  rw [C20_solar_fromIndex _ _ hi0] at hg
  have hgy : g.y = (f.y * solarNames.length + f.idx + a) / solarNames.length := by
    cases hsa : solarAt (solarRecs solarData) ((f.y * solarNames.length + f.idx + a) / solarNames.length)
        ((f.y * solarNames.length + f.idx + a) % solarNames.length) with
    | none => rw [hsa] at hg; cases hg
    | some r =>
      rw [hsa] at hg
      simp only [] at hg
      split at hg
      · simp only [Res.found.injEq] at hg; rw [← hg]
      · cases hg
  have hT : g.y * solarNames.length + g.idx = f.y * solarNames.length + f.idx + a := by
    rw [hgy, hgi.2]
    have h1 := Int.emod_add_mul_ediv (f.y * solarNames.length + f.idx + a) solarNames.length
    have h2 := Int.mul_comm ((f.y * solarNames.length + f.idx + a) / solarNames.length) solarNames.length
    omega
  have e : g.y * (solarNames.length : Int) + g.idx + b = f.y * solarNames.length + f.idx + (a + b) := by omega
  rw [e]

/-- stepping by 0 returns the festival itself -/
theorem C20_solar_next_zero (y i : Int) (f : SolarFest)
    (hf : solarFromIndex solarNames.length solarData y i = .found f) :
    solarNext solarNames.length solarData f 0 = .found f := by
  have hs : (0 : Int) < solarNames.length := by decide
  have hi : 0 ≤ i := by
    unfold solarFromIndex at hf
    split at hf
    · cases hf
    · omega
  have hr := C20_solar_roundtrip y i f hf
  have hfy : f.y = y := by
    rw [C20_solar_fromIndex y i hi] at hf
    cases hsa : solarAt (solarRecs solarData) y i with
    | none => rw [hsa] at hf; cases hf
    | some r =>
      rw [hsa] at hf
      simp only [] at hf
      split at hf
      · simp only [Res.found.injEq] at hf; rw [← hf]
      · cases hf
  have hlt : i < solarNames.length := by
    unfold solarFromIndex at hf
    rw [if_neg (by omega)] at hf
    split at hf
    · cases hf
    · omega
  rw [C20_solar_next, Int.add_zero]
  have e1 : (f.y * (solarNames.length : Int) + f.idx) / solarNames.length = y := by
    rw [hfy, hr.2, Int.add_comm, Int.add_mul_ediv_right _ _ (by omega), Int.ediv_eq_zero_of_lt hi hlt]; omega
  have e2 : (f.y * (solarNames.length : Int) + f.idx) % solarNames.length = i := by
    rw [hfy, hr.2, Int.add_comm, Int.add_mul_emod_self_right, Int.emod_eq_of_lt hi hlt]
  rw [e1, e2, hf]

/-- non-vacuity (data-independent): there are records, so the right-hand side of `C20_solar_found_iff` is inhabited:
the first record is found on its own month-day in its founding year, and stepping it by 0 returns it -/
example : ∃ r ∈ solarRecs solarData, ∃ f, solarFromYmd solarData r.start r.m r.d = .found f := by
  have hne : solarRecs solarData ≠ [] := by decide +kernel
  obtain ⟨r, t, hr⟩ := List.exists_cons_of_ne_nil hne
  have hmem : r ∈ solarRecs solarData := by rw [hr]; exact List.mem_cons_self
  have F := solar_rec_facts C20_tf_solar_wf hmem
  exact ⟨r, hmem, _, (C20_solar_found_iff _ _ _ _).2 ⟨r, hmem, rfl, rfl, Int.le_refl _, by omega, rfl⟩⟩

/-! ## lunar festivals (abstract calendar) -/

/-- by index: the record at that position, read over the calendar `C` (all years, all indices) -/
theorem C20_lunar_fromIndex (C : Cal) (y i : Int) :
    lunarFromIndex C lunarNames.length lunarData y i = lunarAt C (lunarRecs lunarData) y i :=
  lunarFromIndex_spec C20_tf_lunar_wf C y i

/-- by date (repaired code): fixed-date records, then every term record, then New Year's Eve -/
theorem C20_lunar_fromYmd (C : Cal) (y m d : Int) (hm1 : -12 ≤ m) (hm2 : m ≤ 12) (hd1 : 0 ≤ d) (hd2 : d ≤ 31) :
    lunarFromYmd C lunarData y m d = lunarOn C (lunarRecs lunarData) y m d :=
  lunarFromYmd_spec C20_tf_lunar_wf C y hm1 hm2 hd1 hd2

/-- A lunar festival found by index falls on a day whose own look-up returns it, or the earlier-listed festival when
two share the day — for EVERY calendar `C`, year and index, under the stated hypotheses `BackHyp` about `C`
(the day is an accepted lunar day of the year asked for; no later-listed fixed-date festival on it; the year's terms
can be computed; the day after the eve is a new year's day). `g` is the look-up answer: same day, `g.idx ≤ i`, and `g`
is exactly festival number `g.idx` of that lunar year. -/
theorem C20_lunar_back (C : Cal) (y : Int) (i : Nat) (f : LunarFest)
    (hf : lunarFromIndex C lunarNames.length lunarData y i = .found f)
    (hm1 : -12 ≤ f.m) (hm2 : f.m ≤ 12) (hd1 : 0 ≤ f.d) (hd2 : f.d ≤ 31)
    (H : BackHyp C (lunarRecs lunarData) y i f) :
    ∃ g, lunarFromYmd C lunarData f.y f.m f.d = .found g ∧ g.idx ≤ i ∧ g.y = f.y ∧ g.m = f.m ∧ g.d = f.d ∧
      lunarFromIndex C lunarNames.length lunarData f.y g.idx = .found g := by
  rw [C20_lunar_fromIndex] at hf
  obtain ⟨g, h1, h2, h3, h4, h5, h6⟩ := lunar_back_spec C C20_tf_lunar_struct y i f hf H
  exact ⟨g, by rw [C20_lunar_fromYmd C f.y f.m f.d hm1 hm2 hd1 hd2]; exact h1, h2, h3, h4, h5,
    by rw [C20_lunar_fromIndex]; exact h6⟩

/-- The full-strength statement (no hypotheses on the calendar). It is NOT claimed: it fails for calendars in which the
winter solstice falls on lunar 12-08 (the library's calendar does so in AD 19) or in which the day after an eve is not a
new year's day (AD 8, 23, 24, 239) — `Tyme/FindingsC20.lean` exhibits such a calendar in the model, the S stream
`c20.lunar.law` reproduces the listed (year, index) pairs on the implementation (known_findings.json, D18).
`C20_lunar_back` is this statement restricted by `BackHyp`. -/
def C20_lunar_back_full : Prop :=
  ∀ (C : Cal) (y : Int) (i : Nat) (f : LunarFest),
    lunarFromIndex C lunarNames.length lunarData y i = .found f →
    ∃ g, lunarFromYmd C lunarData f.y f.m f.d = .found g ∧ g.idx ≤ i ∧ g.y = f.y ∧ g.m = f.m ∧ g.d = f.d

/-- the eve hypothesis of `BackHyp` follows from the solar round trip of the two days around the new year -/
theorem C20_lunar_eve_next (C : Cal) (y j : Int) (l : Int × Int × Int)
    (h1 : C.toSolar (y + 1) 1 1 = some j) (h2 : C.toLunar (j - 1) = some l)
    (h3 : C.toSolar l.1 l.2.1 l.2.2 = some (j - 1)) (h4 : C.toLunar j = some (y + 1, 1, 1)) :
    C.step (y + 1, 1, 1) (-1) = some l ∧ C.step (l.1, l.2.1, l.2.2) 1 = some (y + 1, 1, 1) := by
  unfold Cal.step
  simp only [h1, h3]
  have e1 : j + -1 = j - 1 := by omega
  have e2 : j - 1 + 1 = j := by omega
  refine ⟨?_, ?_⟩
  · rw [if_neg (by decide), e1, h2]
  · rw [if_neg (by decide), e2, h4]

/-- New Year's Eve is the last day of the lunar year — day 29 or 30 of its last month — whenever the civil day before the
next new year's day (`j - 1`) is day `len` of the last month `mL` of year `y` in the calendar. -/
theorem C20_lunar_eve_last_day (C : Cal) (y j mL len : Int) (hlen : len = 29 ∨ len = 30)
    (hv : C.valid (y + 1) 1 1 = true) (h1 : C.toSolar (y + 1) 1 1 = some j)
    (h3 : C.toLunar (j - 1) = some (y, mL, len)) (idx : Nat) :
    lunarRecEval C y (.eve idx) = .found ⟨idx, 2, y, mL, len, -1⟩ ∧ (len = 29 ∨ len = 30) := by
  refine ⟨?_, hlen⟩
  unfold lunarRecEval Cal.step
  simp only [hv, if_true, h1]
  have e1 : j + -1 = j - 1 := by omega
  rw [if_neg (by decide), e1, h3]

/-- stepping a lunar festival by `n`: the festival `n` places further along the list, carrying into later or earlier
lunar years (shift on `size·year + index`; stated for a non-negative position, which every year ≥ 0 gives) -/
theorem C20_lunar_next (C : Cal) (f : LunarFest) (n : Int) (h : 0 ≤ f.y * lunarNames.length + f.idx + n) :
    lunarNext C lunarNames.length lunarData f n =
      lunarFromIndex C lunarNames.length lunarData
        ((f.y * lunarNames.length + f.idx + n) / lunarNames.length)
        ((f.y * lunarNames.length + f.idx + n) % lunarNames.length) := by
  have hs : (0 : Int) < lunarNames.length := by decide
  unfold lunarNext
  simp only []
  have hidx : indexOf ((f.idx : Int) + n) lunarNames.length = (f.y * lunarNames.length + f.idx + n) % lunarNames.length := by
    rw [indexOf_eq_emod _ _ hs]
    have : f.y * (lunarNames.length : Int) + f.idx + n = (f.idx + n) + f.y * lunarNames.length := by omega
    rw [this, Int.add_mul_emod_self_right]
  have hassoc : f.y * (lunarNames.length : Int) + ((f.idx : Int) + n) = f.y * lunarNames.length + f.idx + n := by omega
  rw [hidx, hassoc, tdiv_eq_ediv_nonneg _ _ h]

/-! ## legal holidays -/

/-- the table is well formed: whole 13-byte records; every record a real civil date with a known name index;
dates strictly increasing; the record shape matches at NO misaligned offset -/
theorem C20_holiday_wf : HolWF holidayNames.length holidayData :=
  ⟨C20_tf_holiday_len, C20_tf_holiday_aligned, C20_tf_holiday_recs, C20_tf_holiday_sorted, C20_tf_holiday_blocks⟩

/-- Every record of the table is a real date -/
theorem C20_holiday_real_dates : ∀ r ∈ holRecs holidayData, Civil.valid r.y r.m r.d = true ∧ r.idx < holidayNames.length := by
  intro r hr
  unfold holRecs at hr
  obtain ⟨c, hc, rfl⟩ := List.mem_map.1 hr
  have := holRecOk_elim (wf_mem_recOk C20_holiday_wf hc)
  exact ⟨this.2.1, this.2.2.1⟩

/-- no offset other than the multiples of 13 matches the record shape `\d{8}[0-1][0-8][+|-]\d{2}` (which every
look-up pattern refines): a look-up can only ever land on an aligned record -/
theorem C20_holiday_no_misaligned (o : Nat) :
    okAll shape (holidayData.drop o) = true ↔ (o < holidayData.length ∧ o % 13 = 0) := by
  constructor
  · exact wf_shape_offset C20_holiday_wf
  · rintro ⟨h1, h2⟩; exact (wf_aligned C20_holiday_wf h1).2 h2

/-- For every record `k`, the date pattern built from its own date matches at its own offset `13k` and at NO other
offset of the 10,673 (aligned or not): the leftmost match is the record itself. -/
theorem C20_holiday_own_offset (k : Nat) (r : HolRec) (hr : (holRecs holidayData)[k]? = some r) (o : Nat) :
    (∃ mt, (holYmdRx r.y r.m r.d).matchHere (holidayData.drop o) = some mt) ↔ o = 13 * k := by
  have W := C20_holiday_wf
  have hk : k < holidayData.length / 13 := by
    have := (List.getElem?_eq_some_iff.1 hr).1
    rw [holRecs_length] at this; exact this
  rw [holRecs_getElem? hk] at hr
  have hr' := Option.some.inj hr
  subst hr'
  have hv := (holRecOk_elim (wf_recOk W hk)).2.1
  constructor
  · rintro ⟨mt, hm⟩
    obtain ⟨k', hk', ho, hmt, ey, em, ed⟩ := hol_match_record W hv hm
    rw [hmt] at ey em ed
    have hkey : (parseHol ((holidayData.drop (13 * k')).take 13)).key =
        (parseHol ((holidayData.drop (13 * k)).take 13)).key := by
      unfold HolRec.key
      have a1 : (parseHol ((holidayData.drop (13 * k')).take 13)).y = (parseHol ((holidayData.drop (13 * k)).take 13)).y := by omega
      have a2 : (parseHol ((holidayData.drop (13 * k')).take 13)).m = (parseHol ((holidayData.drop (13 * k)).take 13)).m := by omega
      have a3 : (parseHol ((holidayData.drop (13 * k')).take 13)).d = (parseHol ((holidayData.drop (13 * k)).take 13)).d := by omega
      rw [a1, a2, a3]
    rcases Nat.lt_trichotomy k' k with h | h | h
    · have := holRecs_key_lt W h hk; omega
    · rw [ho, h]
    · have := holRecs_key_lt W h hk'; omega
  · intro ho
    rw [ho]
    exact ⟨_, hol_record_match W hk⟩

/-- model = record reading on every real civil date -/
theorem C20_holiday_fromYmd (y m d : Int) (hv : Civil.valid y m d = true) :
    holFromYmd holidayData y m d = holAnswer (holOn (holRecs holidayData) y m d) :=
  holFromYmd_answer C20_holiday_wf hv

/-- Every record is returned for its own date and for no other: the look-up answers `h` exactly when `h` is a record
of the table whose date is the date asked (all integer arguments). -/
theorem C20_holiday_found_iff (y m d : Int) (h : Hol) :
    holFromYmd holidayData y m d = .found h ↔
      ∃ r ∈ holRecs holidayData, (r.y : Int) = y ∧ (r.m : Int) = m ∧ (r.d : Int) = d ∧ h = holOfRec r := by
  constructor
  · intro hf
    have hv := holFromYmd_found_valid hf
    rw [C20_holiday_fromYmd y m d hv] at hf
    cases ho : holOn (holRecs holidayData) y m d with
    | none => rw [ho] at hf; cases hf
    | some r =>
      rw [ho] at hf
      simp only [holAnswer, Res.found.injEq] at hf
      unfold holOn at ho
      have hp := List.find?_some ho
      simp only [HolRec.isDate, Bool.and_eq_true, beq_iff_eq] at hp
      exact ⟨r, List.mem_of_find?_eq_some ho, hp.1.1, hp.1.2, hp.2, hf.symm⟩
  · rintro ⟨r, hr, hy, hm, hd, rfl⟩
    obtain ⟨k, hk⟩ := List.mem_iff_getElem?.1 hr
    have hkl : k < holidayData.length / 13 := by
      have := (List.getElem?_eq_some_iff.1 hk).1
      rw [holRecs_length] at this; exact this
    rw [holRecs_getElem? hkl] at hk
    have hrk := Option.some.inj hk
    have hv : Civil.valid y m d = true := by
      rw [← hy, ← hm, ← hd]; exact (C20_holiday_real_dates r hr).1
    rw [C20_holiday_fromYmd y m d hv]
    have := holOn_record C20_holiday_wf hkl
    simp only [] at this
    rw [hrk, hy, hm, hd] at this
    rw [this]; rfl

/-- dates strictly increase along the table -/
theorem C20_holiday_increasing (i j : Nat) (hij : i < j) (ri rj : HolRec)
    (hi : (holRecs holidayData)[i]? = some ri) (hj : (holRecs holidayData)[j]? = some rj) :
    Civil.lt (ri.y, ri.m, ri.d) (rj.y, rj.m, rj.d) := by
  have hjl : j < holidayData.length / 13 := by
    have := (List.getElem?_eq_some_iff.1 hj).1
    rw [holRecs_length] at this; exact this
  have hlt := holRecs_key_lt C20_holiday_wf hij hjl
  rw [holRecs_getElem? (by omega)] at hi
  rw [holRecs_getElem? hjl] at hj
  rw [Option.some.inj hi, Option.some.inj hj] at hlt
  have vi := (C20_holiday_real_dates ri (List.mem_of_getElem? (by
    rw [holRecs_getElem? (show i < holidayData.length / 13 by omega)]; exact hi))).1
  have vj := (C20_holiday_real_dates rj (List.mem_of_getElem? (by
    rw [holRecs_getElem? hjl]; exact hj))).1
  obtain ⟨_, _, _, a1, _, a2⟩ := valid_ranges vi
  obtain ⟨_, _, _, b1, _, b2⟩ := valid_ranges vj
  unfold HolRec.key at hlt
  unfold Civil.lt
  simp only []
  omega

/-- Stepping visits the records in table order: `next n` of record `k` is record `k + n`, `None` outside the table
(every record, every integer `n`). -/
theorem C20_holiday_next (k : Nat) (r : HolRec) (hk : (holRecs holidayData)[k]? = some r) (n : Int) :
    holNext holidayData (holOfRec r) n = holAnswer (holStep (holRecs holidayData) k n) := by
  have hkl : k < holidayData.length / 13 := by
    have := (List.getElem?_eq_some_iff.1 hk).1
    rw [holRecs_length] at this; exact this
  rw [holRecs_getElem? hkl] at hk
  rw [← Option.some.inj hk]
  exact holNext_answer C20_holiday_wf hkl n

/-- …hence in strictly increasing date order: a positive step lands on a strictly later date -/
theorem C20_holiday_next_increasing (k : Nat) (r : HolRec) (hk : (holRecs holidayData)[k]? = some r) (n : Int) (hn : 0 < n)
    (h' : Hol) (hs : holNext holidayData (holOfRec r) n = .found h') :
    Civil.lt (r.y, r.m, r.d) (h'.y, h'.m, h'.d) := by
  rw [C20_holiday_next k r hk n] at hs
  unfold holStep at hs
  rw [if_neg (by omega)] at hs
  cases hr' : (holRecs holidayData)[((k : Int) + n).toNat]? with
  | none => rw [hr'] at hs; cases hs
  | some r' =>
    rw [hr'] at hs
    simp only [holAnswer, Res.found.injEq] at hs
    subst hs
    exact C20_holiday_increasing k ((k : Int) + n).toNat (by omega) r r' hk hr'

/-- Each record's compensated-festival offset points at a rest day in the table: the record `off` days away
(day numbers of the C01 model) exists and its work flag is off. -/
theorem C20_holiday_target : ∀ r ∈ holRecs holidayData, ∃ t ∈ holRecs holidayData,
    jdn t.y t.m t.d = jdn r.y r.m r.d + r.off ∧ t.work = false := by
  intro r hr
  obtain ⟨t, ht, htt⟩ := targetWalk_spec _ [] C20_tf_holiday_target r hr
  simp only [isTarget, Bool.and_eq_true, beq_iff_eq, Bool.not_eq_true'] at htt
  rcases ht with ht | ht
  · cases ht
  · exact ⟨t, ht, htt.1, htt.2⟩

/-- non-vacuity (data-independent): the table is not empty; its first record is returned for its own date, and
stepping it by 0 returns it -/
example : ∃ r, (holRecs holidayData)[0]? = some r ∧
    holFromYmd holidayData r.y r.m r.d = .found (holOfRec r) ∧ holNext holidayData (holOfRec r) 0 = .found (holOfRec r) := by
  have hpos : 0 < holidayData.length / 13 := by decide +kernel
  have h0 := holRecs_getElem? (data := holidayData) hpos
  refine ⟨_, h0, ?_, ?_⟩
  · exact (C20_holiday_found_iff _ _ _ _).2 ⟨_, List.mem_of_getElem? h0, rfl, rfl, rfl, rfl⟩
  · rw [C20_holiday_next 0 _ h0 0]
    unfold holStep
    simp only [Int.add_zero]
    rw [if_neg (by omega)]
    have : ((0 : Nat) : Int).toNat = 0 := rfl
    rw [this, h0]; rfl

/-- non-vacuity of the lunar theorems (data-independent): over a calendar that answers every query, festival 0 of a
year is found by index, whatever kind of record it is -/
example : ∃ (C : Cal) (f : LunarFest), lunarFromIndex C lunarNames.length lunarData 2000 0 = .found f := by
  have hlen : 0 < (lunarRecs lunarData).length := by decide +kernel
  refine ⟨⟨fun _ _ _ => true, fun _ _ _ => some 0, fun _ => some (0, 1, 1), fun _ _ => some 0⟩, ?_⟩
  simp only [C20_lunar_fromIndex, lunarAt]
  rw [if_neg (by omega)]
  have : (0 : Int).toNat = 0 := rfl
  rw [this, List.getElem?_eq_getElem hlen]
  simp only []
  cases (lunarRecs lunarData)[0] with
  | day idx m d => exact ⟨⟨idx, 0, 2000, m, d, -1⟩, by simp [lunarRecEval]⟩
  | term idx t => exact ⟨⟨idx, 1, 0, 1, 1, indexOf t 24⟩, by simp [lunarRecEval, Cal.termLunar]⟩
  | eve idx => exact ⟨⟨idx, 2, 0, 1, 1, -1⟩, by simp [lunarRecEval, Cal.step]⟩

/-- the hypotheses of `C20_lunar_back` are satisfiable: for every fixed-date record and every year, a calendar that accepts
the day satisfies `BackHyp` (so the law holds for all fixed-date festivals outright, given the day is valid) -/
example (C : Cal) (y : Int) (i idx m d : Nat) (hr : (lunarRecs lunarData)[i]? = some (.day idx m d))
    (hv : C.valid y m d = true) (ht : ∀ p ∈ (lunarRecs lunarData).filterMap termOf, (C.termLunar y p.2).isSome = true) :
    lunarFromIndex C lunarNames.length lunarData y i = .found ⟨idx, 0, y, m, d, -1⟩ ∧
    BackHyp C (lunarRecs lunarData) y i ⟨idx, 0, y, m, d, -1⟩ := by
  have hpos := struct_pos C20_tf_lunar_struct hr
  simp only [recIdx] at hpos
  refine ⟨?_, ⟨hv, ?_, fun h => absurd rfl h, ht, fun h => by cases h⟩⟩
  · rw [C20_lunar_fromIndex]
    unfold lunarAt
    rw [if_neg (by omega)]
    have : ((i : Nat) : Int).toNat = i := by omega
    simp only [this, hr, lunarRecEval, hv, if_true]
  · intro j hj
    have := struct_day C20_tf_lunar_struct hr
    simp only [] at hj
    rw [this] at hj
    have := Option.some.inj hj
    omega

end Tyme
