import Tyme.Lemmas.Clock
/-!
C12 — clock arithmetic to the second and Julian date ⇄ instant are exact, for every instant
0001-01-01 00:00:00 .. 9999-12-31 23:59:59, every integer offset n and every rational Julian date p/q.
Property theorems only (helpers live in `Tyme/Lemmas/Clock.lean`); every obligation is named `C12_*`.

Spec  (Tyme/Spec/Clock.lean): `Time`, `Clock.valid`, `Clock.tick` (the next second, carrying into minute, hour and
      `Civil.next` day), `Clock.lt`, `Clock.first/last`, `Clock.nearestOrd`; `Clock.iter n` = n-fold `tick`.
Model (Tyme/Model/Clock.lean): `timeOk` (SolarTime::new), `timeNext` (SolarTime::next with the three trunc-and-repair
      carries), `timeSub`, `timeBefore/After`, `ofJD` (JulianDay::get_solar_time AFTER fixes/C12-jd-carry.diff and
      fixes/C12-jd-half.diff), measuring functions `secs t = 86400·jdn + 3600h + 60mi + s`,
      `jdNum t / 172800` (exact Julian date of t), `jdSecs p q` (nearest whole second of the Julian date p/q).
      Tied to src/tyme/{solar,jd}.rs by the correspondence run.
`secsFirst = secs first`, `secsLast = secs last`.
-/
namespace Tyme

/-! ### instants and the seconds line -/

/-- Acceptance: `SolarTime::new` accepts exactly the instants that exist — for ALL six integers. -/
theorem C12_new_iff (y m d h mi s : Int) : timeOk y m d h mi s = Clock.valid ⟨(y, m, d), h, mi, s⟩ := by
  rw [Bool.eq_iff_iff, timeOk_iff, clock_valid_iff]; rfl

/-- `secs` is the coordinate of the spec's time line: one `tick` (whatever it carries into: minute, hour, day,
month end, leap day, year end, the 1582 cut-over) is exactly +1. -/
theorem C12_tick_secs (t : Time) (hv : Clock.valid t = true) (hne : t ≠ Clock.last) :
    Clock.valid (Clock.tick t) = true ∧ secs (Clock.tick t) = secs t + 1 := tick_spec t hv hne

/-- …it separates instants… -/
theorem C12_secs_inj (a b : Time) (ha : Clock.valid a = true) (hb : Clock.valid b = true) (h : secs a = secs b) :
    a = b := secs_inj a b ha hb h

/-- …its range is exactly [secsFirst, secsLast], every value being taken… -/
theorem C12_secs_range (t : Time) (hv : Clock.valid t = true) : secsFirst ≤ secs t ∧ secs t ≤ secsLast :=
  secs_bounds t hv

/-- …and every instant is reached from 0001-01-01 00:00:00 by `secs t − secsFirst` ticks. -/
theorem C12_secs_ticks (t : Time) (hv : Clock.valid t = true) :
    Clock.iter (secs t - secsFirst).toNat Clock.first = t := by
  have hb := secs_bounds t hv
  have hf : secs Clock.first = secsFirst := by decide
  have hv0 : Clock.valid Clock.first = true := by decide
  obtain ⟨v, e⟩ := clock_iter_spec (secs t - secsFirst).toNat Clock.first hv0 (by omega)
  exact secs_inj _ _ v hv (by omega)

/-- Chronological order of instants is the order of `secs`. -/
theorem C12_lt_iff (a b : Time) (ha : Clock.valid a = true) (hb : Clock.valid b = true) :
    Clock.lt a b ↔ secs a < secs b := clock_lt_iff a b ha hb

/-! ### next / subtract / is_before / is_after -/

/-- Adding n seconds yields the instant exactly n seconds later — for ALL integers n whose target lies in range. -/
theorem C12_next_secs (t : Time) (n : Int) (hv : Clock.valid t = true)
    (h1 : secsFirst ≤ secs t + n) (h2 : secs t + n ≤ secsLast) :
    ∃ r, timeNext t n = some r ∧ Clock.valid r = true ∧ secs r = secs t + n := timeNext_spec t n hv h1 h2

/-- …and is refused (never a wrong instant) when the target lies outside 0001..9999. -/
theorem C12_next_refused (t : Time) (n : Int) (hv : Clock.valid t = true)
    (h : secs t + n < secsFirst ∨ secsLast < secs t + n) : timeNext t n = none := timeNext_none t n hv h

/-- Both together: `next` returns r exactly when r is THE instant n seconds after t. -/
theorem C12_next_iff (t r : Time) (n : Int) (hv : Clock.valid t = true) :
    timeNext t n = some r ↔ (Clock.valid r = true ∧ secs r = secs t + n) := by
  constructor
  · intro e
    by_cases h : secs t + n < secsFirst ∨ secsLast < secs t + n
    · rw [timeNext_none t n hv h] at e; cases e
    · obtain ⟨r', e', v, s⟩ := timeNext_spec t n hv (by omega) (by omega)
      rw [e] at e'; injection e' with e'; subst e'; exact ⟨v, s⟩
  · rintro ⟨v, s⟩
    have hb := secs_bounds r v
    obtain ⟨r', e', v', s'⟩ := timeNext_spec t n hv (by omega) (by omega)
    rw [e', secs_inj r' r v' v (by omega)]

/-- n = 0 is the identity (on every value, valid or not). -/
theorem C12_next_zero (t : Time) : timeNext t 0 = some t := by simp [timeNext]

/-- Forward stepping is the n-fold successor second of the specification. -/
theorem C12_next_tick (t : Time) (n : Nat) (hv : Clock.valid t = true) (h : secs t + n ≤ secsLast) :
    timeNext t n = some (Clock.iter n t) := by
  obtain ⟨v, s⟩ := clock_iter_spec n t hv h
  exact (C12_next_iff t _ n hv).2 ⟨v, s⟩

/-- Stepping back undoes stepping forward (any sign of n). -/
theorem C12_next_back (t r : Time) (n : Int) (hv : Clock.valid t = true) (e : timeNext t n = some r) :
    timeNext r (-n) = some t := by
  obtain ⟨v, s⟩ := (C12_next_iff t r n hv).1 e
  exact (C12_next_iff r t (-n) v).2 ⟨hv, by omega⟩

/-- Steps compose: a then b is a + b (including refusal of the combined step). -/
theorem C12_next_add (t u : Time) (a b : Int) (hv : Clock.valid t = true) (e : timeNext t a = some u) :
    timeNext u b = timeNext t (a + b) := by
  obtain ⟨v, s⟩ := (C12_next_iff t u a hv).1 e
  by_cases h : secs t + (a + b) < secsFirst ∨ secsLast < secs t + (a + b)
  · rw [timeNext_none t (a + b) hv h, timeNext_none u b v (by omega)]
  · obtain ⟨r, e', v', s'⟩ := timeNext_spec t (a + b) hv (by omega) (by omega)
    rw [e']
    exact (C12_next_iff u r b v).2 ⟨v', by omega⟩

/-- The difference of two instants is their distance in seconds (an identity of the model, any two values). -/
theorem C12_subtract (a b : Time) : timeSub a b = secs a - secs b := timeSub_eq a b

/-- …so `subtract` inverts `next`. -/
theorem C12_subtract_next (t r : Time) (n : Int) (hv : Clock.valid t = true) (e : timeNext t n = some r) :
    timeSub r t = n := by
  obtain ⟨_, s⟩ := (C12_next_iff t r n hv).1 e
  rw [timeSub_eq]; omega

/-- `is_before` / `is_after` are the chronological order… -/
theorem C12_before_iff (a b : Time) (ha : Clock.valid a = true) (hb : Clock.valid b = true) :
    timeBefore a b = true ↔ Clock.lt a b := by
  rw [timeBefore_iff a b ha hb, clock_lt_iff a b ha hb]

theorem C12_after_iff (a b : Time) (ha : Clock.valid a = true) (hb : Clock.valid b = true) :
    timeAfter a b = true ↔ Clock.lt b a := by
  rw [timeAfter_iff a b ha hb, clock_lt_iff b a hb ha]

/-- …and coincide with the sign of the difference. -/
theorem C12_before_sub (a b : Time) (ha : Clock.valid a = true) (hb : Clock.valid b = true) :
    timeBefore a b = true ↔ timeSub a b < 0 := by
  rw [timeBefore_iff a b ha hb, timeSub_eq]; omega

theorem C12_after_sub (a b : Time) (ha : Clock.valid a = true) (hb : Clock.valid b = true) :
    timeAfter a b = true ↔ 0 < timeSub a b := by
  rw [timeAfter_iff a b ha hb, timeSub_eq]; omega

/-! ### Julian date ⇄ instant.  A Julian date is any rational p/q, q > 0 (an f64 is the case q = 2^k). -/

/-- `jdSecs` in the specification's terms: the nearest whole second counted from 0001-01-01 00:00:00
(Julian date 1721423.5), a tie going to the later second. -/
theorem C12_jdSecs_ord (p q : Int) (hq : 0 < q) : jdSecs p q = secsFirst + Clock.nearestOrd p q := by
  unfold jdSecs Clock.nearestOrd secsFirst jdnFirst
  have e : 86400 * (2 * p + q) + q = 86400 * (2 * p - 3442847 * q) + q + 148731033600 * (2 * q) := by omega
  rw [e, Int.add_mul_ediv_right _ _ (show 2 * q ≠ 0 by omega)]
  omega

/-- The exact Julian date of an instant: day number − ½ + seconds of the day / 86400. -/
theorem C12_toJD_exact (t : Time) :
    jdNum t = jdDen * jdn t.day.1 t.day.2.1 t.day.2.2 - 86400 + 2 * (3600 * t.h + 60 * t.mi + t.s) := by
  unfold jdNum jdDen secs; omega

/-- Julian date → instant: the result is r exactly when r is THE existing instant at the nearest whole second. -/
theorem C12_ofJD_iff (p q : Int) (r : Time) (hq : 0 < q) :
    ofJD p q = some r ↔ (Clock.valid r = true ∧ secs r = jdSecs p q) := by
  constructor
  · intro e
    obtain ⟨v, s, _, _⟩ := ofJD_some p q hq r e
    exact ⟨v, s⟩
  · rintro ⟨v, s⟩
    have hb := secs_bounds r v
    obtain ⟨r', e', v', s'⟩ := ofJD_spec p q hq (by omega) (by omega)
    rw [e', secs_inj r' r v' v (by omega)]

/-- Every Julian date from 0001-01-01 00:00:00 (1721423.5) up to, but excluding, 9999-12-31 23:59:59.5
is accepted and yields an existing instant — no panic at month ends, year ends or anywhere else (D8 repaired). -/
theorem C12_ofJD_valid (p q : Int) (hq : 0 < q) (h1 : (2 * jdnFirst - 1) * q ≤ 2 * p)
    (h2 : 172800 * p < (172800 * jdnLast + 86399) * q) :
    ∃ t, ofJD p q = some t ∧ Clock.valid t = true := by
  have hQ : (0 : Int) < 2 * q := by omega
  unfold jdnFirst at h1
  unfold jdnLast at h2
  have a1 : secsFirst ≤ jdSecs p q := by
    unfold jdSecs secsFirst jdnFirst
    rw [Int.le_ediv_iff_mul_le hQ]; omega
  have a2 : jdSecs p q ≤ secsLast := by
    have : jdSecs p q < secsLast + 1 := by
      unfold jdSecs secsLast jdnLast
      rw [Int.ediv_lt_iff_lt_mul hQ]; omega
    omega
  obtain ⟨t, e, v, _⟩ := ofJD_spec p q hq a1 a2
  exact ⟨t, e, v⟩

/-- Outside that window the conversion is refused (the nearest second is not in 0001..9999). -/
theorem C12_ofJD_refused (p q : Int) (hq : 0 < q) (h : jdSecs p q < secsFirst ∨ secsLast < jdSecs p q) :
    ofJD p q = none := ofJD_none p q hq h

/-- The instant returned lies within half a second of the Julian date:
−½ s < secs t − 86400·(p/q + ½) ≤ ½ s, written without fractions (multiply by 2q). -/
theorem C12_ofJD_near (p q : Int) (t : Time) (hq : 0 < q) (e : ofJD p q = some t) :
    -q < 2 * q * secs t - 86400 * (2 * p + q) ∧ 2 * q * secs t - 86400 * (2 * p + q) ≤ q := by
  obtain ⟨_, s, _, _⟩ := ofJD_some p q hq t e
  have := jdSecs_bounds p q hq
  rw [s]; omega

/-- Sharp inverse: EVERY Julian date p/q in the half-open second [t − ½ s, t + ½ s) maps back to t. -/
theorem C12_ofJD_char (t : Time) (p q : Int) (hv : Clock.valid t = true) (hq : 0 < q)
    (h1 : 2 * q * secs t - q ≤ 86400 * (2 * p + q)) (h2 : 86400 * (2 * p + q) < 2 * q * secs t + q) :
    ofJD p q = some t :=
  (C12_ofJD_iff p q t hq).2 ⟨hv, (jdSecs_unique p q (secs t) hq (by omega) (by omega)).symm⟩

/-- Instant → exact Julian date → instant is the identity. -/
theorem C12_roundtrip_exact (t : Time) (hv : Clock.valid t = true) : ofJD (jdNum t) jdDen = some t := by
  apply C12_ofJD_char t _ _ hv (by decide) <;> (unfold jdNum jdDen; omega)

/-- Robust round trip: every Julian date within 10⁻⁷ day (8.64 ms) of the exact Julian date of t maps back to t.
This is what makes `get_julian_day().get_solar_time()` the identity although `from_ymd_hms` computes the date in
f64 with inexact `/60`, `/24` (measured error ≤ 4.7·10⁻¹⁰ day, see evidence). |p/q − jdNum t/172800| ≤ 10⁻⁷ is
written as |172800·p − jdNum t·q|·10⁷ ≤ 172800·q. -/
theorem C12_roundtrip_robust (t : Time) (p q : Int) (hv : Clock.valid t = true) (hq : 0 < q)
    (h1 : -(172800 * q) ≤ 10000000 * (172800 * p - jdNum t * q))
    (h2 : 10000000 * (172800 * p - jdNum t * q) ≤ 172800 * q) :
    ofJD p q = some t := by
  unfold jdNum at h1 h2
  have e : (2 * secs t - 86400) * q = 2 * (q * secs t) - 86400 * q := by
    rw [Int.sub_mul, Int.mul_assoc, Int.mul_comm (secs t) q]
  rw [e] at h1 h2
  have e2 : 2 * q * secs t = 2 * (q * secs t) := by rw [Int.mul_assoc]
  apply C12_ofJD_char t p q hv hq <;> (rw [e2]; omega)

/-! ### non-vacuity: the hypotheses are met by concrete instants on the interesting boundaries -/

example : Clock.valid ⟨(2023, 1, 31), 23, 59, 59⟩ = true ∧
    timeNext ⟨(2023, 1, 31), 23, 59, 59⟩ 1 = some ⟨(2023, 2, 1), 0, 0, 0⟩ ∧
    timeNext ⟨(1582, 10, 15), 0, 0, 0⟩ (-1) = some ⟨(1582, 10, 4), 23, 59, 59⟩ ∧
    timeNext ⟨(2000, 2, 28), 23, 59, 59⟩ 86401 = some ⟨(2000, 3, 1), 0, 0, 0⟩ ∧
    timeNext ⟨(1, 1, 1), 0, 0, 0⟩ (-1) = none ∧ timeNext Clock.last 1 = none ∧
    Clock.tick ⟨(1582, 10, 4), 23, 59, 59⟩ = ⟨(1582, 10, 15), 0, 0, 0⟩ ∧
    timeSub ⟨(1582, 10, 15), 0, 0, 0⟩ ⟨(1582, 10, 4), 23, 59, 59⟩ = 1 ∧
    timeBefore ⟨(1582, 10, 4), 23, 59, 59⟩ ⟨(1582, 10, 15), 0, 0, 0⟩ = true ∧
    timeOk 2023 2 29 0 0 0 = false ∧ timeOk 2023 2 28 24 0 0 = false ∧ timeOk 2023 2 28 23 59 59 = true := by decide

/-- 2023-01-31 23:59:59.6 (the D8 input: panicked before the repair) is now 2023-02-01 00:00:00; 23:59:59.4 stays;
the exact half goes up; a date just below the first instant is refused; f64 0x413fffff80006117 (00:00:00.499997 on
1029-09-09, returned as 00:00:01 before the second repair) is 00:00:00. -/
example : ofJD 4919952999990741 2000000000 = some ⟨(2023, 2, 1), 0, 0, 0⟩ ∧
    ofJD (2459976 * 864000 + 431994) 864000 = some ⟨(2023, 1, 31), 23, 59, 59⟩ ∧
    ofJD (2459976 * 172800 + 86399) 172800 = some ⟨(2023, 2, 1), 0, 0, 0⟩ ∧
    ofJD 0x1fffff80006117 (2 ^ 32) = some ⟨(1029, 9, 9), 0, 0, 0⟩ ∧
    ofJD (1721423 * 172800 + 86399) 172800 = some Clock.first ∧
    ofJD (1721423 * 172800 + 86398) 172800 = none ∧
    ofJD (jdNum Clock.last) jdDen = some Clock.last ∧ ofJD (jdNum Clock.last + 1) jdDen = none := by decide

end Tyme
