import Tyme.Lemmas.Cycle
import Tyme.Thm.C02
/-!
C07 — day pillar and weekday advance one step per civil day from fixed anchors. Property theorems (`C07_*`).
Model: `SC.dayPillar` (LunarDay::get_sixty_cycle), `SC.ofSolarDay` (SixtyCycleDay::from_solar_day),
`weekOfJdn` (JulianDay::get_week). The lunar route goes through `Lunar.ofSolar`, so the statements about civil
dates hold on the intervals of lunar years where the month table tiles (C02); the D4 windows are known findings.
-/
namespace Tyme
open Lunar SC

/-- the helper `index_of` is the mathematical modulo for the three sizes the pillars use -/
theorem C07_indexOf (i : Int) : indexOf i 10 = i % 10 ∧ indexOf i 12 = i % 12 ∧ indexOf i 60 = i % 60 :=
  ⟨indexOf_10 i, indexOf_12 i, indexOf_60 i⟩

/-- Stem (n mod 10) and branch (n mod 12) name exactly the pillar n mod 60 — for every integer n. -/
theorem C07_crt (n : Int) : pairIndex (n % 10) (n % 12) = some (n % 60) := pairIndex_crt n

/-- The lunar-day pillar formula: first day number of the month + day − 12, modulo 60 (never refused). -/
theorem C07_dayPillar (first d : Int) : dayPillar first d = some ((first + d - 12) % 60) := by
  unfold dayPillar
  rw [indexOf_10, indexOf_12]
  exact pairIndex_crt _

/-- The pillar of a civil date is (day number + 49) mod 60 — via the lunar route, for every civil date whose
conversion is accepted inside a tiling interval, any ephemeris. -/
theorem C07_pillar (E : Eph) (hl : ∀ y, E.leap y ≤ 12) (a b : Int) (ht : TilesOn E a b) (Y M D : Int)
    (hY : a ≤ Y) (hY2 : Y ≤ b) (hlo : first E ⟨a, 0⟩ ≤ jdn Y M D) (hhi : jdn Y M D < first E ⟨b + 1, 0⟩)
    (r : Month × Int) (h : ofSolar E Y M D = some r) :
    dayPillar (first E r.1) r.2 = some ((jdn Y M D + 49) % 60) := by
  obtain ⟨_, _, _, e, _, _⟩ := ofSolar_spec E hl a b ht Y M D hY hY2 hlo hhi r h
  rw [C07_dayPillar]
  congr 1
  omega

/-- The sexagenary-day view reports the same pillar (it copies the lunar-day pillar). -/
theorem C07_view (E : Eph) (hl : ∀ y, E.leap y ≤ 12) (a b : Int) (ht : TilesOn E a b) (Y M D : Int)
    (hY : a ≤ Y) (hY2 : Y ≤ b) (hlo : first E ⟨a, 0⟩ ≤ jdn Y M D) (hhi : jdn Y M D < first E ⟨b + 1, 0⟩)
    (v : DayView) (h : ofSolarDay E Y M D = some v) : v.day = (jdn Y M D + 49) % 60 := by
  unfold ofSolarDay at h
  split at h
  · simp at h
  · dsimp only at h
    split at h
    · simp at h
    · split at h
      · simp at h
      · rename_i x k hr
        have hp := C07_pillar E hl a b ht Y M D hY hY2 hlo hhi (x, k) hr
        dsimp only at hp
        split at h
        · simp at h
        · split at h
          · simp at h
          · split at h
            · simp at h
            · split at h
              · simp at h
              · split at h
                · simp at h
                · rename_i dp hdp
                  rw [hp] at hdp
                  simp only [Option.some.injEq] at hdp h
                  rw [← h, ← hdp]

/-- weekday = (day number + 1) mod 7 (7 divides 7,000,000). -/
theorem C07_week (j : Int) : weekOfJdn j = (j + 1) % 7 := by unfold weekOfJdn; omega

/-- one step per civil day, no break anywhere: the successor day number has the successor pillar and weekday. -/
theorem C07_step (j : Int) :
    ((j + 1) + 49) % 60 = ((j + 49) % 60 + 1) % 60 ∧ weekOfJdn (j + 1) = (weekOfJdn j + 1) % 7 := by
  unfold weekOfJdn; omega

/-- …in particular across the 1582 cut-over, month ends and year ends (`Civil.next` is +1 on day numbers, C01). -/
theorem C07_step_civil (y m d : Int) (hv : Civil.valid y m d = true) (hne : ¬ (y = 9999 ∧ m = 12 ∧ d = 31)) :
    (jdnT (Civil.next y m d) + 49) % 60 = ((jdn y m d + 49) % 60 + 1) % 60 ∧
    weekOfJdn (jdnT (Civil.next y m d)) = (weekOfJdn (jdn y m d) + 1) % 7 := by
  rw [C01_jdn_next y m d hv hne]
  exact C07_step _

/-- anchors: 2000-01-01 was a Saturday (6) with pillar Wu-Wu (54). -/
example : weekOfJdn (jdn 2000 1 1) = 6 ∧ (jdn 2000 1 1 + 49) % 60 = 54 := by decide

end Tyme
