import Tyme.Lemmas.Containers
import Tyme.Lemmas.ScmDays
import Tyme.Lemmas.ScdHours
import Tyme.Lemmas.ScmTotal
import Tyme.Facts.Months
import Tyme.Facts.C13Win
import Tyme.Thm.C02
/-!
C13 — containers list exactly their parts: year, half, season, month, day, hour. Property theorems only (`C13_*`);
helpers live in `Tyme/Lemmas/Containers.lean`.

Model: `Tyme.Cont` (Model/Containers.lean) — every list-returning accessor written as the loop the code runs, AFTER the two
repairs fixes/C13-solar-month-days-1582.diff (D9) and fixes/C13-lunar-year-months-9999.diff (D10).
Spec: `Tyme.Civil` (Spec/Containers.lean): parts selected by membership, dates that exist (`Civil.valid`), slot starts.
The lunar and sexagenary statements hold for an ARBITRARY ephemeris `E` (with leap month ≤ 12 where month numbering matters).
-/
namespace Tyme
open Cont

/-! ### civil year, half-year, season, month -/

/-- Nesting arithmetic: month m lies in exactly one season, (m−1)/3; season s in exactly one half-year, s/2;
a month lies in a half-year iff its season does. -/
theorem C13_nesting (m s h : Int) :
    (Civil.inSeason m s = true ↔ s = (m - 1) / 3) ∧ (Civil.seasonInHalf s h = true ↔ h = s / 2) ∧
    (Civil.inHalf m h = true ↔ Civil.seasonInHalf ((m - 1) / 3) h = true) := by
  unfold Civil.inSeason Civil.seasonInHalf Civil.inHalf
  simp only [decide_eq_true_eq]
  omega

/-- A civil year lists its 12 months, 4 seasons and 2 half-years, in order — for every year 1..9999. -/
theorem C13_year_parts (y : Int) (hy : 1 ≤ y ∧ y ≤ 9999) :
    yearMonths y = some (Civil.monthsOfYear y) ∧ (Civil.monthsOfYear y).length = 12 ∧
    yearSeasons y = some (Civil.seasonsOfYear y) ∧ (Civil.seasonsOfYear y).length = 4 ∧
    yearHalves y = some (Civil.halvesOfYear y) ∧ (Civil.halvesOfYear y).length = 2 := by
  have h0 : yearOk y = true := by unfold yearOk; simp [hy]
  refine ⟨yearMonths_eq y hy, by simp [Civil.monthsOfYear, Civil.upTo], ?_, by simp [Civil.seasonsOfYear, Civil.below], ?_,
    by simp [Civil.halvesOfYear, Civil.below]⟩
  · unfold yearSeasons Civil.seasonsOfYear
    have e : rangeI 0 4 = Civil.below 4 := by decide
    rw [h0, e]
    simp only [Bool.not_true, Bool.false_eq_true, if_false]
    apply collect_map_some
    intro i hi
    have : 0 ≤ i ∧ i ≤ 3 := by
      simp only [Civil.below, List.mem_map, List.mem_range] at hi
      obtain ⟨k, hk, rfl⟩ := hi; omega
    unfold seasonNew; simp [h0, this]
  · unfold yearHalves Civil.halvesOfYear
    have e : rangeI 0 2 = Civil.below 2 := by decide
    rw [h0, e]
    simp only [Bool.not_true, Bool.false_eq_true, if_false]
    apply collect_map_some
    intro i hi
    have : 0 ≤ i ∧ i ≤ 1 := by
      simp only [Civil.below, List.mem_map, List.mem_range] at hi
      obtain ⟨k, hk, rfl⟩ := hi; omega
    unfold halfNew; simp [h0, this]

/-- A half-year lists exactly the 6 months and the 2 seasons that lie in it, in order. -/
theorem C13_half_parts (y h : Int) (hy : 1 ≤ y ∧ y ≤ 9999) (hh : 0 ≤ h ∧ h ≤ 1) :
    halfMonths y h = some (Civil.monthsOfHalf y h) ∧ (Civil.monthsOfHalf y h).length = 6 ∧
    halfSeasons y h = some (Civil.seasonsOfHalf y h) ∧ (Civil.seasonsOfHalf y h).length = 2 := by
  have h0 : yearOk y = true := by unfold yearOk; simp [hy]
  have hc : h = 0 ∨ h = 1 := by omega
  have r1 : rangeI 1 7 = [1, 2, 3, 4, 5, 6] := by decide
  have r2 : rangeI 0 2 = [0, 1] := by decide
  have b4 : Civil.below 4 = [0, 1, 2, 3] := by decide
  rcases hc with rfl | rfl
  all_goals
    unfold halfMonths halfSeasons halfNew Civil.monthsOfHalf Civil.seasonsOfHalf Civil.inHalf Civil.seasonInHalf
    rw [r1, r2, b4, upTo12]
    simp [h0, collect, monthNew, seasonNew]

/-- A season lists exactly the 3 months that lie in it, in order. -/
theorem C13_season_parts (y s : Int) (hy : 1 ≤ y ∧ y ≤ 9999) (hs : 0 ≤ s ∧ s ≤ 3) :
    seasonMonths y s = some (Civil.monthsOfSeason y s) ∧ (Civil.monthsOfSeason y s).length = 3 := by
  have h0 : yearOk y = true := by unfold yearOk; simp [hy]
  have hc : s = 0 ∨ s = 1 ∨ s = 2 ∨ s = 3 := by omega
  have r1 : rangeI 1 4 = [1, 2, 3] := by decide
  rcases hc with rfl | rfl | rfl | rfl
  all_goals
    unfold seasonMonths seasonNew Civil.monthsOfSeason Civil.inSeason
    rw [r1, upTo12]
    simp [h0, collect, monthNew]

/-- `get_season` of a month is the season that contains it. -/
theorem C13_month_season (y m : Int) (hy : 1 ≤ y ∧ y ≤ 9999) (hm : 1 ≤ m ∧ m ≤ 12) :
    monthSeason y m = some (y, (m - 1) / 3) ∧ Civil.inSeason m ((m - 1) / 3) = true ∧
    (y, m) ∈ Civil.monthsOfSeason y ((m - 1) / 3) := by
  have hin : Civil.inSeason m ((m - 1) / 3) = true := by
    unfold Civil.inSeason; simp only [decide_eq_true_eq]; omega
  refine ⟨?_, hin, ?_⟩
  · unfold monthSeason
    rw [monthNew_ok y m hy hm]
    have h0 : yearOk y = true := by unfold yearOk; simp [hy]
    unfold seasonNew
    have : 0 ≤ (m - 1) / 3 ∧ (m - 1) / 3 ≤ 3 := by omega
    simp [h0, this]
  · unfold Civil.monthsOfSeason
    simp only [List.mem_map, List.mem_filter, mem_upTo]
    exact ⟨m, ⟨⟨hm.1, by omega⟩, hin⟩, rfl⟩

/-- Outside 1..9999 (and for an index that is not a month/season/half) nothing is listed: the call is refused. -/
theorem C13_civil_refused (y : Int) (hy : y < 1 ∨ 9999 < y) (i : Int) :
    yearMonths y = none ∧ yearSeasons y = none ∧ yearHalves y = none ∧ halfMonths y i = none ∧ halfSeasons y i = none ∧
    seasonMonths y i = none ∧ monthSeason y i = none ∧ monthDays y i = none := by
  have h0 : yearOk y = false := by unfold yearOk; simp; omega
  simp [yearMonths, yearSeasons, yearHalves, halfMonths, halfSeasons, seasonMonths, monthSeason, monthDays, halfNew, seasonNew,
    monthNew, h0]

/-! ### month → days, day-of-year -/

/-- `SolarMonth::get_days` (after the D9 repair) lists exactly the dates that exist in the month, by day number, without gaps
in the day count, and their number is `get_day_count` — every month of every year 1..9999, October 1582 included. -/
theorem C13_month_days (y m : Int) (hy : 1 ≤ y ∧ y ≤ 9999) (hm : 1 ≤ m ∧ m ≤ 12) :
    monthDays y m = some (Civil.datesOfMonth y m) ∧
    ((Civil.datesOfMonth y m).length : Int) = monthLen y m ∧
    (∀ a, a ∈ Civil.datesOfMonth y m ↔ a.1 = y ∧ a.2.1 = m ∧ Civil.valid y m a.2.2 = true) ∧
    (∀ i (h : i < (Civil.datesOfMonth y m).length), jdnT (Civil.datesOfMonth y m)[i] = jdn y m 1 + i) := by
  refine ⟨monthDays_eq y m hy hm, ?_, mem_datesOfMonth y m, consec_get _ _ (datesOfMonth_consec y m hy hm)⟩
  rw [datesOfMonth_length y m hy hm, C01_monthLen y m hy.1 hy.2 hm.1 hm.2]

/-- October 1582 explicitly: 21 days, 1..4 then 15..31. -/
theorem C13_month_days_1582 : monthDays 1582 10 = some
    [(1582,10,1),(1582,10,2),(1582,10,3),(1582,10,4),(1582,10,15),(1582,10,16),(1582,10,17),(1582,10,18),(1582,10,19),(1582,10,20),
     (1582,10,21),(1582,10,22),(1582,10,23),(1582,10,24),(1582,10,25),(1582,10,26),(1582,10,27),(1582,10,28),(1582,10,29),(1582,10,30),(1582,10,31)] := by
  rw [monthDays_cut, datesOfMonth_cut]

/-- The month lists of a year, one after the other, are exactly the dates of that year: their number is `get_day_count`,
the i-th listed day has `get_index_in_year` = i, and every existing date of the year is listed. -/
theorem C13_index_consistent (y : Int) (hy : 1 ≤ y ∧ y ≤ 9999) :
    ∃ L, yearDays y = some L ∧ (L.length : Int) = yearLen y ∧
      (∀ i (h : i < L.length), dayIndexInYear L[i] = i ∧ L[i].1 = y ∧ Civil.validT L[i] = true) ∧
      (∀ m d, Civil.valid y m d = true → (y, m, d) ∈ L) := by
  refine ⟨_, yearDays_eq y hy, ?_, ?_, ?_⟩
  · rw [yearDays_length y hy, C01_yearLen y hy.1 hy.2]
  · intro i h
    have hj := consec_get _ _ (yearDays_consec y hy) i h
    have hmem := List.getElem_mem h
    simp only [List.mem_flatten, List.mem_map] at hmem
    obtain ⟨l, ⟨m, _, rfl⟩, hl⟩ := hmem
    obtain ⟨e1, e2, e3⟩ := (mem_datesOfMonth y m _).1 hl
    refine ⟨?_, e1, ?_⟩
    · have e : ∀ a : Int × Int × Int, dayIndexInYear a = jdnT a - jdn a.1 1 1 := fun _ => rfl
      rw [e, hj, e1]; omega
    · unfold Civil.validT; rw [e1, e2]; exact e3
  · intro m d hv
    simp only [List.mem_flatten, List.mem_map]
    obtain ⟨_, _, h3, h4, _⟩ := (valid_iff y m d).1 hv
    exact ⟨_, ⟨m, (mem_upTo 12 m).2 ⟨h3, by omega⟩, rfl⟩, (mem_datesOfMonth y m _).2 ⟨rfl, rfl, hv⟩⟩

/-! ### lunar year → months, month → days, day → hours (any ephemeris) -/

/-- `LunarYear::get_months` (after the D10 repair) = the listed months ⟨y,0⟩ … ⟨y,cnt−1⟩ in order: 12, or 13 when the
year has a leap month — every lunar year 0..9999 (9999 included), any ephemeris with leap month ≤ 12. -/
theorem C13_lunar_year (E : Eph) (hl : ∀ y, E.leap y ≤ 12) (y : Int) (hy : 0 ≤ y ∧ y ≤ 9999) :
    lunarYearMonths E y = some ((List.range (E.cnt y)).map fun i => (⟨y, i⟩ : Lunar.Month)) ∧
    (E.cnt y = 12 ∨ E.cnt y = 13) := by
  refine ⟨lunarYearMonths_eq E hl y hy, ?_⟩
  unfold Eph.cnt; split <;> simp

/-- years outside 0..9999 list nothing (−1 is accepted by `LunarYear::new` but has no representable month) -/
theorem C13_lunar_year_refused (E : Eph) (y : Int) (hy : y < 0 ∨ 9999 < y) : lunarYearMonths E y = none := by
  unfold lunarYearMonths Lunar.fromYm
  by_cases h : y < -1 ∨ y > 9999
  · simp [h]
  · have : y < 0 ∨ y > 9999 := by omega
    simp [h, this]

/-- `LunarMonth::get_days` = days 1, 2, …, day_count of that month. -/
theorem C13_lunar_month (E : Eph) (hl : ∀ y, E.leap y ≤ 12) (x : Lunar.Month) (hx : Lunar.WF E x) :
    lunarMonthDays E x = some ((Civil.upTo (Lunar.len E x).toNat).map fun d => (x, d)) ∧
    (0 ≤ Lunar.len E x → (((Civil.upTo (Lunar.len E x).toNat).map fun d => (x, d)).length : Int) = Lunar.len E x) := by
  refine ⟨lunarMonthDays_eq E hl x hx, ?_⟩
  intro h
  rw [List.length_map, upTo_length]; omega

/-- `LunarDay::get_hours` = the 13 double-hour slots of that lunar day, 00:00, 01:00, 03:00, …, 23:00 (slot numbers 0..12). -/
theorem C13_lunar_hours (E : Eph) (hl : ∀ y, E.leap y ≤ 12) (x : Lunar.Month) (hx : Lunar.WF E x) (d : Int)
    (hd : 1 ≤ d ∧ d ≤ Lunar.len E x) :
    lunarDayHours E x d = some (Civil.slotStarts.map fun h => (⟨x, d, h, 0, 0⟩ : LHour)) ∧
    Civil.slotStarts = [0, 1, 3, 5, 7, 9, 11, 13, 15, 17, 19, 21, 23] ∧
    Civil.slotStarts.map (fun h => (h + 1) / 2) = [0, 1, 2, 3, 4, 5, 6, 7, 8, 9, 10, 11, 12] :=
  ⟨lunarDayHours_eq E hl x hx d hd, slotStarts_eq, by decide⟩

/-! ### sexagenary day → hours, year → months, month → days -/

/-- `SixtyCycleDay::get_hours`: whenever it returns, it returns 12 existing instants, slot k starting 3600 s before the civil
midnight of the day plus 7200·k seconds (23:00 of the previous civil day, 01:00, …, 21:00), each carrying exactly the view
`SixtyCycleHour::from_solar_time` gives that instant. -/
theorem C13_scd_hours (E : Eph) (Y M D : Int) (L : List (Time × SC.HourView)) (h : scdHours E Y M D = some L) :
    L.length = 12 ∧ ∀ i (hi : i < L.length), Clock.valid L[i].1 = true ∧
      secs L[i].1 = 86400 * jdn Y M D - 3600 + 7200 * (i : Int) ∧ viewOfTime E L[i].1 = some L[i].2 :=
  scdHours_spec E Y M D L h

/-- …and that instant is (previous day, 23:00:00) for slot 0 and (the day itself, 2k−1 : 00 : 00) for slot k ≥ 1. -/
theorem C13_scd_hours_clock (E : Eph) (Y M D : Int) (L : List (Time × SC.HourView)) (hv : Civil.valid Y M D = true)
    (h : scdHours E Y M D = some L) (i : Nat) (hi : i < L.length) (h1 : 1 ≤ i) :
    L[i].1 = ⟨(Y, M, D), 2 * (i : Int) - 1, 0, 0⟩ := by
  obtain ⟨l, hs⟩ := scdHours_spec E Y M D L h
  obtain ⟨v, s, _⟩ := hs i hi
  apply C12_secs_inj _ _ v
  · rw [clock_valid_iff]
    refine ⟨hv, ?_, ?_, ?_, ?_, ?_, ?_⟩ <;> dsimp only <;> omega
  · rw [s]; unfold secs; dsimp only; omega

/-- Inside an interval [a, b] of lunar years that tile: each of the twelve hours listed for the sexagenary day of civil date
(Y, M, D) carries that day's own pillar, (day number + 49) mod 60 (C07) — the 23:00 slot of the PREVIOUS civil day included,
so all twelve belong to this sexagenary day — and the hour branch of slot i is i (Zi, Chou, …, Hai): the list is the day's
twelve double hours, each once, in order. -/
theorem C13_scd_hours_pillars (E : Eph) (hl : ∀ y, E.leap y ≤ 12) (a b : Int) (ht : Lunar.TilesOn E a b) (Y M D : Int)
    (hv : Civil.valid Y M D = true) (hYa : a + 1 ≤ Y) (hYb : Y ≤ b)
    (hlo : Lunar.first E ⟨a, 0⟩ + 1 ≤ jdn Y M D) (hhi : jdn Y M D < Lunar.first E ⟨b + 1, 0⟩)
    (L : List (Time × SC.HourView)) (h : scdHours E Y M D = some L) :
    ∀ i (hi : i < L.length), L[i].2.day = (jdn Y M D + 49) % 60 ∧ L[i].2.hour % 12 = (i : Int) :=
  scdHours_pillars E hl a b ht Y M D hv hYa hYb hlo hhi L h

/-- `SixtyCycleYear::get_months` (every accepted year −1..9999; floor carry after the C11 fix): twelve months of the same year; month k has the pillar of the first month advanced by k
(branch Yin + k, stem by Five Tigers: C08_five_tigers), index in year k, and starts at Jie 24(y−1) + 3 + 2k. -/
theorem C13_scy_months (y : Int) (hy : -1 ≤ y ∧ y ≤ 9999) :
    ∃ fm, SC.firstMonthPillar y = some fm ∧ fm % 12 = 2 ∧
      scyMonths y = some ((List.range 12).map fun (k : Nat) => (⟨y, SC.cycNext fm k⟩ : SCMonth)) ∧
      ∀ k : Nat, k < 12 → scmIndexInYear (SC.cycNext fm k) = k ∧ scmJie ⟨y, SC.cycNext fm k⟩ = 24 * (y - 1) + 3 + 2 * (k : Int) := by
  obtain ⟨fm, f1, _, _, f4, f5, f6⟩ := scyMonths_eq y hy
  refine ⟨fm, f1, f4, f5, fun k hk => ⟨f6 k hk, ?_⟩⟩
  unfold scmJie; dsimp only; rw [f6 k hk]

/-- `SixtyCycleMonth::get_days`, the loop: whatever it returns is a run of consecutive existing civil days starting at the
day it was started on, every listed day lies in this sexagenary month (same year pillar and month pillar — the code's string
comparison), and the day after the last listed one exists and lies in a different month. So the list is exactly the maximal
run of days of this month from the start day: nothing missing before the first change, nothing listed after it. -/
theorem C13_scm_loop (E : Eph) (x : SCMonth) (f : Nat) (d : Int × Int × Int) (L : List (Int × Int × Int))
    (h : scmDaysLoop E x (fun a => dayNext a 1) f d = some L) (hv : Civil.validT d = true) :
    (∀ i (hi : i < L.length), Civil.validT L[i] = true ∧ jdnT L[i] = jdnT d + i ∧
        ∃ v, SC.ofSolarDay E L[i].1 L[i].2.1 L[i].2.2 = some v ∧ scmSame x v = true) ∧
    (∃ e v, Civil.validT e = true ∧ jdnT e = jdnT d + L.length ∧ SC.ofSolarDay E e.1 e.2.1 e.2.2 = some v ∧ scmSame x v = false) := by
  obtain ⟨c1, c2, c3⟩ := scmDaysLoop_spec E x f d L h hv
  refine ⟨fun i hi => ?_, c3⟩
  obtain ⟨v1, v2⟩ := c2 _ (List.getElem_mem hi)
  exact ⟨v1, consec_get _ _ c1 i hi, v2⟩

/-- The loop has no bound of its own in the code; the model's fuel never cuts it short: with more fuel than days left in
0001..9999 the result does not depend on the fuel (and `scmFuel` exceeds the number of days of the whole range). -/
theorem C13_scm_fuel (E : Eph) (x : SCMonth) (f : Nat) (d : Int × Int × Int) (hv : Civil.validT d = true)
    (hf : jdnLast - jdnT d < f) :
    scmDaysLoop E x (fun a => dayNext a 1) (f + 1) d = scmDaysLoop E x (fun a => dayNext a 1) f d ∧
    jdnLast - jdnFirst + 1 < (scmFuel : Int) :=
  ⟨scmDaysLoop_fuel E x f d hv hf, by decide⟩

/-- The start day: the civil day of the month's Jie instant (term 24(y−1) + 3 + 2·index). -/
theorem C13_scm_first (E : Eph) (x : SCMonth) (d : Int × Int × Int) (h : scmFirstDay E x = some d) :
    0 ≤ scmJie x ∧ Civil.validT d = true ∧ jdnT d = E.termDay (scmJie x).toNat := by
  unfold scmFirstDay at h
  split at h
  · cases h
  · split at h
    · cases h
    · dsimp only at h
      split at h
      · rename_i h0 _ hok
        simp only [Option.some.injEq] at h
        subst h
        obtain ⟨r1, r2⟩ := ofJdn_ok_range _ hok
        exact ⟨by omega, C01_jdn_ofJdn _ r1 r2⟩
      · cases h

/-! ### sexagenary month → days, end to end -/

/-- TABLE FACTS (complete enumeration, kernel-checked on the tables re-extracted from /repo): all 240,000 term records
satisfy `termWin` (Lichun 24..36 days after January 1, the winter solstice ≥ 9 days before January 1), all 10,000
lunar-year records satisfy `yearWin` (lunar new year between 5 days before and 59 days after January 1). -/
theorem C13_window_facts : Packed.allRec 72 termWin Gen.termsChunks = true ∧ Packed.allRec 1024 yearWin Gen.monthsChunks = true :=
  ⟨Gen.c13_termWin_all, Gen.c13_yearWin_all⟩

/-- the extracted ephemeris satisfies the named term facts (C06 table facts + C13_window_facts) -/
theorem C13_termFacts_real : TermFacts realEph where
  repr g := by
    by_cases h : g < 240000
    · exact realEph_term_repr g h
    · have hlen := termRecs_length
      have e : termRecs.getD g 0 = 0 := by
        simp only [List.getD]
        rw [List.getElem?_eq_none (by omega)]; rfl
      simp only [realEph, e]
      constructor
      · intro _; right; omega
      · intro _; decide
  inc g h1 h2 := by
    obtain ⟨_, _, a, b, _⟩ := realEph_termInc g h1 h2
    exact ⟨a, b⟩
  lichun := realEph_lichun_win
  dongzhi := realEph_dongzhi_win

/-- …and the named new-year facts -/
theorem C13_newYearFacts_real : NewYearFacts realEph := ⟨realEph_newyear_win, realEph_newyear0⟩

/-- END-TO-END for any ephemeris with the named facts: inside an interval [a, b] of lunar years that tile
(a = 0 or a < y, y + 1 ≤ b ≤ 9998), `SixtyCycleMonth::get_days` of month k (0..11) of sexagenary year y ≥ 1 — whenever it
returns — returns exactly the civil days from the day of the month's Jie (term 24(y−1)+3+2k) to the day before the day of the
next Jie (two terms later), in order: as many as the two Jie days are apart, the i-th being Jie day + i. -/
theorem C13_scm_days (E : Eph) (hl : ∀ y, E.leap y ≤ 12) (tf : TermFacts E) (nf : NewYearFacts E) (a b : Int)
    (ha0 : 0 ≤ a) (hb9 : b + 1 ≤ 9999) (ht : Lunar.TilesOn E a b) (y : Int) (k : Nat) (hk : k < 12) (hy1 : 1 ≤ y)
    (hay : a = 0 ∨ a + 1 ≤ y) (hyb : y + 1 ≤ b) (fm : Int) (hfm : SC.firstMonthPillar y = some fm)
    (L : List (Int × Int × Int)) (h : scmDays E ⟨y, SC.cycNext fm k⟩ = some L) :
    (L.length : Int) = E.termDay ((24 * (y - 1) + 3 + 2 * (k : Int)).toNat + 2) - E.termDay (24 * (y - 1) + 3 + 2 * (k : Int)).toNat ∧
    ∀ i (hi : i < L.length), Civil.validT L[i] = true ∧ jdnT L[i] = E.termDay (24 * (y - 1) + 3 + 2 * (k : Int)).toNat + i :=
  scmDays_tiles E hl tf nf a b ha0 hb9 ht y k hk hy1 hay hyb fm hfm L h

/-- …instantiated for the current tree's data: every sexagenary month of the years 1..6, 10..21, 26..234, 241..9997
(the lunar years around it tile: C03; the remaining years touch the D4 reform junctions or the last year and are
covered by the exhaustive sweep only). -/
theorem C13_scm_days_real (y : Int) (k : Nat) (hk : k < 12)
    (hy : (1 ≤ y ∧ y ≤ 6) ∨ (10 ≤ y ∧ y ≤ 21) ∨ (26 ≤ y ∧ y ≤ 234) ∨ (241 ≤ y ∧ y ≤ 9997))
    (fm : Int) (hfm : SC.firstMonthPillar y = some fm) (L : List (Int × Int × Int))
    (h : scmDays realEph ⟨y, SC.cycNext fm k⟩ = some L) :
    (L.length : Int) = realEph.termDay ((24 * (y - 1) + 3 + 2 * (k : Int)).toNat + 2) - realEph.termDay (24 * (y - 1) + 3 + 2 * (k : Int)).toNat ∧
    ∀ i (hi : i < L.length), Civil.validT L[i] = true ∧ jdnT L[i] = realEph.termDay (24 * (y - 1) + 3 + 2 * (k : Int)).toNat + i := by
  obtain ⟨t1, t2, t3, _, t5⟩ := C02_good_intervals
  rcases hy with hy | hy | hy | hy
  · exact C13_scm_days realEph realEph_leap_le C13_termFacts_real C13_newYearFacts_real ((0 : Nat) : Int) ((7 : Nat) : Int)
      (by decide) (by decide) t1 y k hk (by omega) (Or.inl rfl) (by simp; omega) fm hfm L h
  · exact C13_scm_days realEph realEph_leap_le C13_termFacts_real C13_newYearFacts_real ((9 : Nat) : Int) ((22 : Nat) : Int)
      (by decide) (by decide) t2 y k hk (by omega) (Or.inr (by simp; omega)) (by simp; omega) fm hfm L h
  · exact C13_scm_days realEph realEph_leap_le C13_termFacts_real C13_newYearFacts_real ((25 : Nat) : Int) ((235 : Nat) : Int)
      (by decide) (by decide) t3 y k hk (by omega) (Or.inr (by simp; omega)) (by simp; omega) fm hfm L h
  · exact C13_scm_days realEph realEph_leap_le C13_termFacts_real C13_newYearFacts_real ((240 : Nat) : Int) ((9998 : Nat) : Int)
      (by decide) (by decide) t5 y k hk (by omega) (Or.inr (by simp; omega)) (by simp; omega) fm hfm L h

/-- lunar year 1 of the current data begins on or after 0001-01-01 (one table entry, kernel-evaluated) -/
theorem C13_newYear1_real : 1721424 ≤ realEph.mFirst 1 0 := by decide +kernel

/-- TOTAL CORRECTNESS for any ephemeris with the named facts: inside a tiling interval (same side conditions as
`C13_scm_days`) `SixtyCycleMonth::get_days` DOES return — `get_lunar_day`'s guess-and-walk (fuel 40), `get_term_day`'s walk
(fuel 30), the pillar look-ups and `SolarDay::next` all succeed on every day it touches, and the loop stops within the fuel —
and the list is exactly [Jie day g₀, Jie day g₀ + 2). -/
theorem C13_scm_days_total (E : Eph) (hl : ∀ y, E.leap y ≤ 12) (tf : TermFacts E) (nf : NewYearFacts E)
    (hF1 : 1721424 ≤ E.mFirst 1 0) (a b : Int) (ha0 : 0 ≤ a) (hb9 : b + 1 ≤ 9999) (ht : Lunar.TilesOn E a b)
    (y : Int) (k : Nat) (hk : k < 12) (hy1 : 1 ≤ y) (hay : a = 0 ∨ a + 1 ≤ y) (hyb : y + 1 ≤ b)
    (fm : Int) (hfm : SC.firstMonthPillar y = some fm) :
    ∃ L, scmDays E ⟨y, SC.cycNext fm k⟩ = some L ∧
      (L.length : Int) = E.termDay ((24 * (y - 1) + 3 + 2 * (k : Int)).toNat + 2) - E.termDay (24 * (y - 1) + 3 + 2 * (k : Int)).toNat ∧
      ∀ i (hi : i < L.length), Civil.validT L[i] = true ∧ jdnT L[i] = E.termDay (24 * (y - 1) + 3 + 2 * (k : Int)).toNat + i := by
  obtain ⟨L, h⟩ := scmDays_total E hl tf nf hF1 a b ha0 hb9 ht y k hk hy1 hay hyb fm hfm
  exact ⟨L, h, scmDays_tiles E hl tf nf a b ha0 hb9 ht y k hk hy1 hay hyb fm hfm L h⟩

/-- …for the current tree's data: every month k = 0..11 of every sexagenary year 1..6, 10..21, 26..234, 241..9997 is listed,
and the list is exactly the days from its Jie day to the day before the next Jie day. -/
theorem C13_scm_days_total_real (y : Int) (k : Nat) (hk : k < 12)
    (hy : (1 ≤ y ∧ y ≤ 6) ∨ (10 ≤ y ∧ y ≤ 21) ∨ (26 ≤ y ∧ y ≤ 234) ∨ (241 ≤ y ∧ y ≤ 9997)) :
    ∃ fm L, SC.firstMonthPillar y = some fm ∧ scmDays realEph ⟨y, SC.cycNext fm k⟩ = some L ∧
      (L.length : Int) = realEph.termDay ((24 * (y - 1) + 3 + 2 * (k : Int)).toNat + 2) - realEph.termDay (24 * (y - 1) + 3 + 2 * (k : Int)).toNat ∧
      ∀ i (hi : i < L.length), Civil.validT L[i] = true ∧ jdnT L[i] = realEph.termDay (24 * (y - 1) + 3 + 2 * (k : Int)).toNat + i := by
  obtain ⟨fm, hfm, _⟩ := firstMonth_some y
  obtain ⟨t1, t2, t3, _, t5⟩ := C02_good_intervals
  have key : ∀ (a b : Nat), Lunar.TilesOn realEph (a : Int) (b : Int) → (b : Int) + 1 ≤ 9999 → ((a : Int) = 0 ∨ (a : Int) + 1 ≤ y) →
      1 ≤ y → y + 1 ≤ (b : Int) → ∃ L, scmDays realEph ⟨y, SC.cycNext fm k⟩ = some L ∧
      (L.length : Int) = realEph.termDay ((24 * (y - 1) + 3 + 2 * (k : Int)).toNat + 2) - realEph.termDay (24 * (y - 1) + 3 + 2 * (k : Int)).toNat ∧
      ∀ i (hi : i < L.length), Civil.validT L[i] = true ∧ jdnT L[i] = realEph.termDay (24 * (y - 1) + 3 + 2 * (k : Int)).toNat + i :=
    fun a b ht hb9 hay hy1 hyb => C13_scm_days_total realEph realEph_leap_le C13_termFacts_real C13_newYearFacts_real
      C13_newYear1_real (a : Int) (b : Int) (by omega) hb9 ht y k hk hy1 hay hyb fm hfm
  rcases hy with hy | hy | hy | hy
  · obtain ⟨L, h⟩ := key 0 7 t1 (by decide) (Or.inl rfl) (by omega) (by simp; omega); exact ⟨fm, L, hfm, h⟩
  · obtain ⟨L, h⟩ := key 9 22 t2 (by decide) (Or.inr (by simp; omega)) (by omega) (by simp; omega); exact ⟨fm, L, hfm, h⟩
  · obtain ⟨L, h⟩ := key 25 235 t3 (by decide) (Or.inr (by simp; omega)) (by omega) (by simp; omega); exact ⟨fm, L, hfm, h⟩
  · obtain ⟨L, h⟩ := key 240 9998 t5 (by decide) (Or.inr (by simp; omega)) (by omega) (by simp; omega); exact ⟨fm, L, hfm, h⟩

/-- C08 END-TO-END (used above, stated here for the reader): whenever the sexagenary view of a civil date of a year ≤ 9998
exists and the date's lunar year is the civil year, the one before, or the one after on/after Lichun, the year pillar and
the month pillar are those of the sexagenary month containing the term g the day lies in:
year = 1 + ⌊(g−3)/2⌋ div 12, month = first month (Five Tigers) advanced by ⌊(g−3)/2⌋ mod 12. -/
theorem C13_view_of_day (E : Eph) (tf : TermFacts E) (Y M D : Int) (hv : Civil.valid Y M D = true) (hY : Y ≤ 9998)
    (v : SC.DayView) (hview : SC.ofSolarDay E Y M D = some v) (hLY : LunarYearOK E Y M D) :
    ∃ g : Nat, 1 ≤ g ∧ g + 1 ≤ 239977 ∧ E.termDay g ≤ jdn Y M D ∧ jdn Y M D < E.termDay (g + 1) ∧
      ∃ fm, SC.lunarMonthPillar (monthOrd g / 12 + 1) 0 = some fm ∧
        v.year = SC.yearPillar (monthOrd g / 12 + 1) ∧ v.month = SC.cycNext fm (monthOrd g % 12) :=
  view_of_day E tf Y M D hv hY v hview hLY

/-! ### non-vacuity -/

example : yearMonths 2024 = some (Civil.monthsOfYear 2024) ∧ monthDays 2024 2 = some (Civil.datesOfMonth 2024 2) ∧
    (Civil.datesOfMonth 2024 2).length = 29 ∧ (Civil.datesOfMonth 1582 10).length = 21 := by decide

example : (lunarYearMonths realEph 2023).map List.length = some 13 ∧ (lunarYearMonths realEph 9999).map List.length = some 12 := by
  constructor <;> decide +kernel

/-- the hypothesis of C13_scm_days_real is met: the first month of sexagenary year 2 (pillar 38) is listed, 31 days from
0002-02-05 (an early year keeps the kernel's list look-ups short) -/
example : SC.firstMonthPillar 2 = some 38 ∧
    (scmDays realEph ⟨2, SC.cycNext 38 (0 : Nat)⟩).map (fun l => (l.length, l.head?)) = some (31, some (2, 2, 5)) := by
  constructor <;> decide +kernel

end Tyme
