import Tyme.Lemmas.Week
import Tyme.Lemmas.LunarWeek
import Tyme.Spec.Week
import Tyme.Thm.C02
/-!
C14 — weeks of a month: seven consecutive days, right start weekday, no day lost.
Property theorems only (helpers live in `Tyme/Lemmas/Week.lean`); every obligation is named `C14_*`.

Model: `Tyme/Model/Week.lean` — generic week code over `MonthOps` (`weekCount`, `weekNew`, `firstJ`, `weekNext` with
its two border-correcting loops) and the civil instance (`civilOps`, `solarWeekNew`, `solarWeekFirstDay`,
`solarWeekDays`, `solarWeekNext`, `solarWeekIndexInYear`, `solarWeekOf`), tied to src/tyme/solar.rs by the
correspondence run.  `solarWeekOf` describes `SolarDay::get_solar_week` AFTER the repair
fixes/C14-week-oct1582.diff (defect D11); `solarWeekOfOld` is the unrepaired function.

Day numbers are `jdn` (C01: +1 per civil day, bijective with the dates 0001-01-01 .. 9999-12-31, weekday
`weekOfJdn`).  A week `w = ⟨(y, m), i, s⟩` has first-day number `firstJ civilOps w = jdn y m 1 + 7 i − off`.

The generic theorems `C14_gen_*` hold for ANY month type satisfying `Wk.Laws` (adjacent months are `len` days
apart, 8 ≤ len ≤ 36) — this is the form in which they apply to `LunarWeek` (same code over lunar months).
-/
namespace Tyme
open Wk

/-- a well-formed civil week: real month, start weekday 0..6, index below the week count -/
def SolarWeekOk (w : SolarWeek) : Prop := WeekOk civilOps civilOk w

/-! ## generic (civil and lunar): any month sequence satisfying `Laws` -/

/-- the first day of every week falls on the chosen start weekday -/
theorem C14_gen_first_weekday {M : Type} (O : MonthOps M) (w : Week M) (hs : 0 ≤ w.start ∧ w.start ≤ 6) :
    weekOfJdn (firstJ O w) = w.start := J_weekday O w.start w.month w.index hs

/-- successive weeks of a month start exactly 7 days apart -/
theorem C14_gen_spacing {M : Type} (O : MonthOps M) (m : M) (i s : Int) :
    firstJ O ⟨m, i + 1, s⟩ = firstJ O ⟨m, i, s⟩ + 7 := by
  unfold firstJ firstShift; dsimp only; omega

/-- the week count is exactly the number of start-aligned 7-day blocks that meet the month: index i is offered
iff the block `[firstJ i, firstJ i + 6]` meets `[first, first + len − 1]` -/
theorem C14_gen_count {M : Type} (O : MonthOps M) (m : M) (i s : Int) :
    (0 ≤ i ∧ i < weekCount O m s) ↔
      (firstJ O ⟨m, i, s⟩ ≤ O.first m + O.len m - 1 ∧ O.first m ≤ firstJ O ⟨m, i, s⟩ + 6) :=
  meets_iff O s m i

/-- no day lost: every day of the month lies in one of the offered weeks -/
theorem C14_gen_cover {M : Type} (O : MonthOps M) (m : M) (s j : Int)
    (h1 : O.first m ≤ j) (h2 : j < O.first m + O.len m) :
    ∃ i, 0 ≤ i ∧ i < weekCount O m s ∧ firstJ O ⟨m, i, s⟩ ≤ j ∧ j ≤ firstJ O ⟨m, i, s⟩ + 6 :=
  ⟨_, cover O s m j h1 h2⟩

/-- stepping by ANY n (the loops never run out of fuel): the result is a well-formed week with the same start
whose first day is exactly 7n days later; a refusal means the month sequence ended before the target week -/
theorem C14_gen_next_7n {M : Type} (O : MonthOps M) (ok : M → Prop) (L : Laws O ok) (w : Week M)
    (hw : WeekOk O ok w) (n : Int) :
    match weekNext O w n with
    | some w' => WeekOk O ok w' ∧ w'.start = w.start ∧ firstJ O w' = firstJ O w + 7 * n
    | none => (0 < n ∧ ∃ m', ok m' ∧ O.next m' = none ∧ O.first m' + O.len m' ≤ firstJ O w + 7 * n) ∨
              (n < 0 ∧ ∃ m', ok m' ∧ O.prev m' = none ∧ firstJ O w + 7 * n + 7 ≤ O.first m') :=
  weekNext_spec O ok L w hw n

/-! ## lunar half, abstract form: the same code over an abstract month sequence

`LunarMonth::get_week_count`, `LunarWeek::{new, get_first_day, next}` are the same text as the civil functions.
For ANY sequence of consecutive months k = lo..hi with first-day numbers `first k` and lengths `len k`
(29 or 30 for lunar months; anything in 8..36 is enough) such that `first (k+1) = first k + len k`: -/

theorem C14_lunar_laws (first len : Int → Int) (lo hi : Int)
    (hstep : ∀ k, lo ≤ k → k < hi → first (k + 1) = first k + len k)
    (hlen : ∀ k, lo ≤ k → k ≤ hi → 8 ≤ len k ∧ len k ≤ 36) :
    Laws (seqOps first len lo hi) (fun k => lo ≤ k ∧ k ≤ hi) := seqLaws first len lo hi hstep hlen

/-- stepping a lunar week by any n: 7n days, refused only past the ends of the month table -/
theorem C14_lunar_next_7n (first len : Int → Int) (lo hi : Int)
    (hstep : ∀ k, lo ≤ k → k < hi → first (k + 1) = first k + len k)
    (hlen : ∀ k, lo ≤ k → k ≤ hi → 8 ≤ len k ∧ len k ≤ 36)
    (w : Week Int) (hw : WeekOk (seqOps first len lo hi) (fun k => lo ≤ k ∧ k ≤ hi) w) (n : Int) :
    match weekNext (seqOps first len lo hi) w n with
    | some w' => WeekOk (seqOps first len lo hi) (fun k => lo ≤ k ∧ k ≤ hi) w' ∧ w'.start = w.start ∧
        firstJ (seqOps first len lo hi) w' = firstJ (seqOps first len lo hi) w + 7 * n
    | none => (0 < n ∧ first hi + len hi ≤ firstJ (seqOps first len lo hi) w + 7 * n) ∨
              (n < 0 ∧ firstJ (seqOps first len lo hi) w + 7 * n + 7 ≤ first lo) := by
  have := weekNext_spec _ _ (seqLaws first len lo hi hstep hlen) w hw n
  cases hn : weekNext (seqOps first len lo hi) w n with
  | some w' => rw [hn] at this; exact this
  | none =>
    rw [hn] at this
    dsimp only at this ⊢
    rcases this with ⟨a, m', hm', hnn, hle⟩ | ⟨a, m', hm', hnn, hle⟩
    · left
      refine ⟨a, ?_⟩
      unfold seqOps at hnn hle; dsimp only at hnn hle
      split at hnn
      · cases hnn
      · have : m' = hi := by omega
        subst this; exact hle
    · right
      refine ⟨a, ?_⟩
      unfold seqOps at hnn hle; dsimp only at hnn hle
      split at hnn
      · cases hnn
      · have : m' = lo := by omega
        subst this; exact hle

/-- weekday of the first day, count and cover for lunar weeks are `C14_gen_first_weekday`, `C14_gen_count`,
`C14_gen_cover` at `O := seqOps first len lo hi` (no hypothesis on the sequence needed); restated for reference -/
theorem C14_lunar_weeks (first len : Int → Int) (lo hi k s : Int) (hs : 0 ≤ s ∧ s ≤ 6) :
    (∀ i, weekOfJdn (firstJ (seqOps first len lo hi) ⟨k, i, s⟩) = s) ∧
    (∀ i, (0 ≤ i ∧ i < weekCount (seqOps first len lo hi) k s) ↔
      (firstJ (seqOps first len lo hi) ⟨k, i, s⟩ ≤ first k + len k - 1 ∧
        first k ≤ firstJ (seqOps first len lo hi) ⟨k, i, s⟩ + 6)) ∧
    (∀ j, first k ≤ j → j < first k + len k → ∃ i, 0 ≤ i ∧ i < weekCount (seqOps first len lo hi) k s ∧
      firstJ (seqOps first len lo hi) ⟨k, i, s⟩ ≤ j ∧ j ≤ firstJ (seqOps first len lo hi) ⟨k, i, s⟩ + 6) :=
  ⟨fun i => C14_gen_first_weekday _ ⟨k, i, s⟩ hs, fun i => C14_gen_count _ k i s,
   fun j h1 h2 => C14_gen_cover _ k s j h1 h2⟩

/-- the civil months 0001-01 .. 9999-12 satisfy the laws (from C01: month length = distance of the firsts) -/
theorem C14_civil_laws : Laws civilOps civilOk := civilLaws


/-! ## civil weeks: all months 0001-01 .. 9999-12, all 7 starts, all indices -/

/-- `SolarWeek::new` accepts exactly: a real month, a start weekday 0..6 and an index below the week count
(the `index > 5` test is implied: a month never has more than 6 weeks) -/
theorem C14_new_iff (y m i s : Int) (w : SolarWeek) :
    solarWeekNew y m i s = some w ↔
      (w = ⟨(y, m), i, s⟩ ∧ civilOk (y, m) ∧ 0 ≤ s ∧ s ≤ 6 ∧ 0 ≤ i ∧ i < weekCount civilOps (y, m) s) :=
  solarWeekNew_iff y m i s w

/-- the week count is between 3 (October 1582, start Monday) and 6 and is exactly the number of start-aligned blocks meeting the month -/
theorem C14_count (y m i s : Int) :
    3 ≤ weekCount civilOps (y, m) s ∧ weekCount civilOps (y, m) s ≤ 6 ∧
    ((0 ≤ i ∧ i < weekCount civilOps (y, m) s) ↔
      (firstJ civilOps ⟨(y, m), i, s⟩ ≤ jdn y m 1 + monthLen y m - 1 ∧ jdn y m 1 ≤ firstJ civilOps ⟨(y, m), i, s⟩ + 6)) := by
  have hb := monthLen_bounds y m
  have e : civilOps.len (y, m) = monthLen y m := rfl
  refine ⟨?_, ?_, C14_gen_count civilOps (y, m) i s⟩
  · simp only [weekCount_eq, e]; omega
  · simp only [weekCount_eq, e]; omega

/-- `SolarMonth::get_weeks(start)` lists exactly the weeks 0, 1, …, count−1 of the month, in order -/
theorem C14_weeks_list (y m s : Int) (h : civilOk (y, m)) (hs : 0 ≤ s ∧ s ≤ 6) (l : List SolarWeek) :
    solarWeeks y m s = some l ↔
      (l.length = (weekCount civilOps (y, m) s).toNat ∧ ∀ (k : Nat) (hk : k < l.length), l[k] = ⟨(y, m), k, s⟩) := by
  have hc := C14_count y m 0 s
  unfold solarWeeks solarWeekCount
  have hok : (solarMonthOk y m && decide (0 ≤ s)) = true := by
    rw [Bool.and_eq_true, solarMonthOk_iff, decide_eq_true_eq]; exact ⟨h, hs.1⟩
  simp only [hok, if_true]
  rw [mapM_some_iff]
  simp only [List.length_range, List.getElem_range]
  constructor
  · rintro ⟨h1, h2⟩
    refine ⟨h1, ?_⟩
    intro k hk
    have := h2 k (by omega) hk
    rw [solarWeekNew_iff] at this
    exact this.1
  · rintro ⟨h1, h2⟩
    refine ⟨h1, ?_⟩
    intro k k1 k2
    rw [solarWeekNew_iff]
    exact ⟨h2 k k2, h, hs.1, hs.2, by omega, by omega⟩

/-- the first day: its day number is `firstJ`, it falls on the start weekday, and `get_first_day` returns exactly
that date — it is refused only when that day lies before 0001-01-01 -/
theorem C14_first_weekday (w : SolarWeek) (hw : SolarWeekOk w) :
    weekOfJdn (firstJ civilOps w) = w.start ∧
    (∀ d, solarWeekFirstDay w = some d ↔ (jdnFirst ≤ firstJ civilOps w ∧ d = ofJdn (firstJ civilOps w))) ∧
    (jdnFirst ≤ firstJ civilOps w →
      Civil.validT (ofJdn (firstJ civilOps w)) = true ∧ jdnT (ofJdn (firstJ civilOps w)) = firstJ civilOps w) := by
  refine ⟨C14_gen_first_weekday civilOps w ⟨hw.2.1, hw.2.2.1⟩, fun d => solarWeekFirstDay_iff w hw d, ?_⟩
  intro h
  exact C01_jdn_ofJdn _ h (solarWeek_bounds w hw).2.1

/-- representability edge (D19): the only well-formed week whose first day is not a representable date is week 0
of 0001-01 with a start other than Saturday -/
theorem C14_first_edge (w : SolarWeek) (hw : SolarWeekOk w) :
    firstJ civilOps w < jdnFirst ↔ (w.month = (1, 1) ∧ w.index = 0 ∧ w.start ≠ 6) := by
  obtain ⟨hm, hs0, hs6, hi0, hi1⟩ := hw
  obtain ⟨⟨y, m⟩, i, s⟩ := w
  dsimp only at *
  have hf := month_first_ge y m hm
  have e : firstJ civilOps ⟨(y, m), i, s⟩ = jdn y m 1 + (i * 7 - (weekOfJdn (jdn y m 1) - s) % 7) := by
    unfold firstJ firstShift; rw [off_eq]; rfl
  rw [e]
  constructor
  · intro h
    by_cases hy : y = 1 ∧ m = 1
    · obtain ⟨rfl, rfl⟩ := hy
      have : jdn 1 1 1 = 1721424 := by decide
      rw [this] at h
      unfold weekOfJdn jdnFirst at h
      refine ⟨rfl, by omega, by omega⟩
    · have := month_in_year y m hm
      have h2 : jdnFirst + 28 ≤ jdn y m 1 := by
        by_cases hy1 : y = 1
        · subst hy1
          unfold civilOk at hm; dsimp only at hm
          have hm2 : 2 ≤ m := by omega
          rw [jdn_nf]; unfold jdnFirst
          repeat' split
          all_goals omega
        · have := jan1_ge y (by unfold civilOk at hm; dsimp only at hm; omega)
          omega
      omega
  · rintro ⟨hmm, rfl, h6⟩
    cases hmm
    have : jdn 1 1 1 = 1721424 := by decide
    rw [this]
    unfold weekOfJdn jdnFirst
    omega

/-- seven consecutive days: `get_days` returns exactly the dates with day numbers firstJ, firstJ+1, …, firstJ+6;
it is refused only when one of them lies outside 0001-01-01 .. 9999-12-31 -/
theorem C14_days (w : SolarWeek) (hw : SolarWeekOk w) (l : List (Int × Int × Int)) :
    solarWeekDays w = some l ↔
      (jdnFirst ≤ firstJ civilOps w ∧ firstJ civilOps w + 6 ≤ jdnLast ∧ l.length = 7 ∧
        ∀ (k : Nat) (h : k < l.length), l[k] = ofJdn (firstJ civilOps w + k)) :=
  solarWeekDays_iff w hw l

/-- …and those dates exist and have consecutive day numbers -/
theorem C14_days_consecutive (w : SolarWeek) (hw : SolarWeekOk w) (l : List (Int × Int × Int))
    (h : solarWeekDays w = some l) (k : Nat) (hk : k < l.length) :
    Civil.validT l[k] = true ∧ jdnT l[k] = firstJ civilOps w + k := by
  obtain ⟨a, b, c, d⟩ := (solarWeekDays_iff w hw l).1 h
  rw [d k hk]
  exact C01_jdn_ofJdn _ (by omega) (by omega)

/-- successive weeks start 7 days apart -/
theorem C14_spacing (y m i s : Int) :
    firstJ civilOps ⟨(y, m), i + 1, s⟩ = firstJ civilOps ⟨(y, m), i, s⟩ + 7 :=
  C14_gen_spacing civilOps (y, m) i s

/-- no day lost: every existing date of the month lies in one of the month's weeks -/
theorem C14_cover (y m d s : Int) (hv : Civil.valid y m d = true) :
    ∃ i, 0 ≤ i ∧ i < weekCount civilOps (y, m) s ∧
      firstJ civilOps ⟨(y, m), i, s⟩ ≤ jdn y m d ∧ jdn y m d ≤ firstJ civilOps ⟨(y, m), i, s⟩ + 6 := by
  have := day_in_month y m d hv
  exact C14_gen_cover civilOps (y, m) s (jdn y m d) this.1 (by
    have e1 : civilOps.first (y, m) = jdn y m 1 := rfl
    have e2 : civilOps.len (y, m) = monthLen y m := rfl
    omega)

/-- the week reported for a date contains that date (repaired `get_solar_week`): for EVERY existing date,
October 1582 included, and every start weekday -/
theorem C14_contains (y m d s : Int) (hv : Civil.valid y m d = true) (hs : 0 ≤ s ∧ s ≤ 6) :
    ∃ w, solarWeekOf y m d s = some w ∧ SolarWeekOk w ∧ w.month = (y, m) ∧ w.start = s ∧
      firstJ civilOps w ≤ jdn y m d ∧ jdn y m d ≤ firstJ civilOps w + 6 := by
  obtain ⟨h1, h2, h3, h4, _⟩ := (valid_iff y m d).1 hv
  have hok : civilOk (y, m) := ⟨h1, h2, h3, h4⟩
  have hd := day_in_month y m d hv
  have e1 : civilOps.first (y, m) = jdn y m 1 := rfl
  have e2 : civilOps.len (y, m) = monthLen y m := rfl
  have hc := cover civilOps s (y, m) (jdn y m d) hd.1 (by omega)
  rw [e1] at hc
  have hidx : ceil7 (daySub (y, m, d) (y, m, 1) + 1 + indexOf (weekOfJdn (jdn y m 1) + -s) 7) - 1
      = (jdn y m d - jdn y m 1 + off civilOps (y, m) s) / 7 := by
    have e3 : weekOfJdn (jdn y m 1) + -s = weekOfJdn (civilOps.first (y, m)) - s := by rw [e1]; omega
    unfold ceil7 daySub off
    rw [e3]; dsimp only; omega
  refine ⟨⟨(y, m), (jdn y m d - jdn y m 1 + off civilOps (y, m) s) / 7, s⟩, ?_, ?_, rfl, rfl, hc.2.2.1, hc.2.2.2⟩
  · unfold solarWeekOf
    have : ¬ s < 0 := by omega
    simp only [this, if_false]
    rw [hidx, solarWeekNew_iff]
    exact ⟨rfl, hok, hs.1, hs.2, hc.1, hc.2.1⟩
  · exact ⟨hok, hs.1, hs.2, hc.1, hc.2.1⟩

/-- defect D11 of the unrepaired code, kept as a checked fact about the OLD function: the week it reports for
1582-10-20 (start Sunday) begins on 1582-10-24, and 1582-10-31 is refused -/
theorem C14_D11_witness :
    (∃ w, solarWeekOfOld 1582 10 20 0 = some w ∧ jdn 1582 10 20 < firstJ civilOps w) ∧
    solarWeekOfOld 1582 10 31 0 = none ∧
    (∃ w, solarWeekOf 1582 10 20 0 = some w ∧ firstJ civilOps w = jdn 1582 10 17) ∧
    (∃ w, solarWeekOf 1582 10 31 0 = some w ∧ firstJ civilOps w = jdn 1582 10 31) := by
  refine ⟨⟨⟨(1582, 10), 2, 0⟩, by decide, by decide⟩, by decide, ⟨⟨(1582, 10), 1, 0⟩, by decide, by decide⟩,
    ⟨⟨(1582, 10), 3, 0⟩, by decide, by decide⟩⟩

/-- stepping a week by n moves its first day by exactly 7n — for ALL n and all weeks: whenever `next(n)` answers,
the answer is a well-formed week with the same start, 7n days away -/
theorem C14_next_7n (w : SolarWeek) (hw : SolarWeekOk w) (n : Int) (w' : SolarWeek) (h : solarWeekNext w n = some w') :
    SolarWeekOk w' ∧ w'.start = w.start ∧ firstJ civilOps w' = firstJ civilOps w + 7 * n := by
  have := weekNext_spec civilOps civilOk civilLaws w hw n
  unfold solarWeekNext at h
  rw [h] at this
  exact this

/-- …and it answers exactly when the target week still meets the range 0001-01-01 .. 9999-12-31 (so the loops
never run out of fuel and the final re-validation never fails) -/
theorem C14_next_refused_iff (w : SolarWeek) (hw : SolarWeekOk w) (n : Int) :
    solarWeekNext w n = none ↔
      (jdnLast < firstJ civilOps w + 7 * n ∨ firstJ civilOps w + 7 * n + 6 < jdnFirst) := by
  have := weekNext_spec civilOps civilOk civilLaws w hw n
  unfold solarWeekNext
  cases hn : weekNext civilOps w n with
  | none =>
    rw [hn] at this
    dsimp only at this
    simp only [true_iff]
    rcases this with ⟨_, m', hm', hnn, hle⟩ | ⟨_, m', hm', hnn, hle⟩
    · have := civil_next_none m' hm' hnn
      left; omega
    · have := civil_prev_none m' hm' hnn
      right; omega
  | some w' =>
    rw [hn] at this
    dsimp only at this
    obtain ⟨a, _, c⟩ := this
    have hb := solarWeek_bounds w' a
    have := month_first_ge w'.month.1 w'.month.2 a.1
    have e1 : civilOps.first w'.month = jdn w'.month.1 w'.month.2 1 := rfl
    simp only [reduceCtorEq, false_iff]
    omega

/-! ## the executable specification used by the sweep says the same thing

`Tyme.WeekSpec` (Spec/Week.lean) defines weeks as maximal start-aligned 7-day blocks on ordinals
(ordinal = day number − 1721424).  Its count, first days and weekday are the model's, for every month start F,
length L and start weekday. -/

theorem C14_spec_agrees (F L s i : Int) :
    WeekSpec.weekday (F - 1721424) = weekOfJdn F ∧
    WeekSpec.blockCount s (F - 1721424) L = ceil7 ((weekOfJdn F - s) % 7 + L) ∧
    1721424 + WeekSpec.blockStart s (WeekSpec.firstBlock s (F - 1721424) + i)
      = F + (i * 7 - (weekOfJdn F - s) % 7) := by
  unfold WeekSpec.weekday WeekSpec.blockCount WeekSpec.lastBlock WeekSpec.firstBlock WeekSpec.block
    WeekSpec.blockStart weekOfJdn ceil7
  omega

/-! ## index in the year -/

/-- full-strength statement (FALSE on the unchanged code, see `C14_indexInYear_full_false`): for every
well-formed week, `get_index_in_year` answers k, and k counts weeks from week 0 of January of the same year,
which is the week containing January 1 -/
def C14_indexInYear_full : Prop :=
  ∀ (w : SolarWeek), SolarWeekOk w →
    firstJ civilOps ⟨(w.month.1, 1), 0, w.start⟩ ≤ jdn w.month.1 1 1 ∧
    jdn w.month.1 1 1 ≤ firstJ civilOps ⟨(w.month.1, 1), 0, w.start⟩ + 6 ∧
    ∃ k, solarWeekIndexInYear w = some k ∧ 0 ≤ k ∧ k ≤ 53 ∧
      firstJ civilOps w = firstJ civilOps ⟨(w.month.1, 1), 0, w.start⟩ + 7 * k

/-- proved part: the same statement for every week except those of year 0001 with a start other than Saturday
(known finding C14-idx-year1: there the code asks for the first day of the week containing 0001-01-01, which
begins in year 0, and panics) -/
theorem C14_indexInYear_partial (w : SolarWeek) (hw : SolarWeekOk w) (hx : ¬ (w.month.1 = 1 ∧ w.start ≠ 6)) :
    firstJ civilOps ⟨(w.month.1, 1), 0, w.start⟩ ≤ jdn w.month.1 1 1 ∧
    jdn w.month.1 1 1 ≤ firstJ civilOps ⟨(w.month.1, 1), 0, w.start⟩ + 6 ∧
    ∃ k, solarWeekIndexInYear w = some k ∧ 0 ≤ k ∧ k ≤ 53 ∧
      firstJ civilOps w = firstJ civilOps ⟨(w.month.1, 1), 0, w.start⟩ + 7 * k := by
  obtain ⟨⟨y, m⟩, i, s⟩ := w
  obtain ⟨hm, hs0, hs6, hi0, hi1⟩ := (weekOk_mk_iff civilOps civilOk (y, m) i s).1 hw
  have hw' : WeekOk civilOps civilOk ⟨(y, m), i, s⟩ := hw
  dsimp only at hx ⊢
  have hy : 1 ≤ y ∧ y ≤ 9999 := ⟨hm.1, hm.2.1⟩
  have hok1 : civilOk (y, 1) := ⟨hy.1, hy.2, Int.le_refl 1, by show (1 : Int) ≤ 12; omega⟩
  have hcnt := C14_count y 1 0 s
  have hw0 : WeekOk civilOps civilOk ⟨(y, 1), 0, s⟩ :=
    (weekOk_mk_iff civilOps civilOk (y, 1) 0 s).2 ⟨hok1, hs0, hs6, Int.le_refl 0, by omega⟩
  have hb0 := solarWeek_bounds_mk y 1 0 s hw0
  have hb := solarWeek_bounds_mk y m i s hw'
  have hmy := month_in_year y m hm
  have hwd0 := C14_gen_first_weekday civilOps ⟨(y, 1), 0, s⟩ ⟨hs0, hs6⟩
  have hwd := C14_gen_first_weekday civilOps ⟨(y, m), i, s⟩ ⟨hs0, hs6⟩
  dsimp only at hwd0 hwd
  unfold weekOfJdn at hwd0 hwd
  have e0 := firstJ_mk y 1 0 s
  have main : jdnFirst ≤ firstJ civilOps ⟨(y, 1), 0, s⟩ →
      firstJ civilOps ⟨(y, 1), 0, s⟩ ≤ firstJ civilOps ⟨(y, m), i, s⟩ →
      (firstJ civilOps ⟨(y, m), i, s⟩ - firstJ civilOps ⟨(y, 1), 0, s⟩) % 7 = 0 →
      (firstJ civilOps ⟨(y, m), i, s⟩ - firstJ civilOps ⟨(y, 1), 0, s⟩) / 7 ≤ 60 →
      solarWeekIndexInYear ⟨(y, m), i, s⟩ =
        some ((firstJ civilOps ⟨(y, m), i, s⟩ - firstJ civilOps ⟨(y, 1), 0, s⟩) / 7) := by
    intro a1 a2 a3 a4
    have hT : jdnFirst ≤ firstJ civilOps ⟨(y, m), i, s⟩ ∧ firstJ civilOps ⟨(y, m), i, s⟩ ≤ jdnLast :=
      ⟨by omega, hb.2.1⟩
    unfold solarWeekIndexInYear
    rw [(solarWeekFirstDay_iff _ hw' _).2 ⟨hT.1, rfl⟩]
    dsimp only
    rw [(solarWeekNew_iff y 1 0 s _).2 ⟨rfl, hok1, hs0, hs6, Int.le_refl 0, by omega⟩]
    dsimp only
    have := idxLoop_spec _ hT 60 ⟨(y, 1), 0, s⟩ 0 hw0 a1 a2 a3 (by omega)
    rw [this]
    congr 1
    omega
  generalize firstJ civilOps ⟨(y, m), i, s⟩ = T at *
  generalize firstJ civilOps ⟨(y, 1), 0, s⟩ = T0 at *
  -- the week of January 1 is representable
  have hlo : jdnFirst ≤ T0 := by
    by_cases hy1 : y = 1
    · have hs : s = 6 := by
        by_cases h6 : s = 6
        · exact h6
        · exact absurd ⟨hy1, h6⟩ hx
      subst hy1 hs
      have : jdn 1 1 1 = 1721424 := by decide
      rw [this] at e0
      unfold weekOfJdn at e0; unfold jdnFirst; omega
    · have := jan1_ge y (by omega)
      omega
  have hle : T0 ≤ T := by omega
  have hmod : (T - T0) % 7 = 0 := by omega
  have hT : jdnFirst ≤ T ∧ T ≤ jdnLast := ⟨by omega, hb.2.1⟩
  have hj1 : T0 ≤ jdn y 1 1 ∧ jdn y 1 1 ≤ T0 + 6 := by omega
  exact ⟨hj1.1, hj1.2, (T - T0) / 7, main hlo hle hmod (by omega), by omega, by omega, by omega⟩

/-- the excluded weeks are exactly the ones the code refuses: every week of year 0001 with a start ≠ Saturday -/
theorem C14_indexInYear_refused_year1 (w : SolarWeek) (hw : SolarWeekOk w) (hx : w.month.1 = 1 ∧ w.start ≠ 6) :
    solarWeekIndexInYear w = none := by
  obtain ⟨hm, hs0, hs6, hi0, hi1⟩ := hw
  obtain ⟨⟨y, m⟩, i, s⟩ := w
  dsimp only at *
  obtain ⟨rfl, h6⟩ := hx
  unfold solarWeekIndexInYear
  cases solarWeekFirstDay ⟨(1, m), i, s⟩ with
  | none => rfl
  | some t =>
    dsimp only
    have hs : s = 0 ∨ s = 1 ∨ s = 2 ∨ s = 3 ∨ s = 4 ∨ s = 5 := by omega
    have key : ∀ s' : Int, (s' = 0 ∨ s' = 1 ∨ s' = 2 ∨ s' = 3 ∨ s' = 4 ∨ s' = 5) →
        solarWeekNew 1 1 0 s' = some ⟨(1, 1), 0, s'⟩ ∧ solarWeekFirstDay ⟨(1, 1), 0, s'⟩ = none := by
      intro s' h
      rcases h with rfl|rfl|rfl|rfl|rfl|rfl <;> decide +kernel
    obtain ⟨k1, k2⟩ := key s hs
    rw [k1]
    dsimp only
    unfold idxLoop idxLoopG
    rw [k2]

theorem C14_indexInYear_full_false : ¬ C14_indexInYear_full := by
  intro h
  have hw : SolarWeekOk ⟨(1, 3), 2, 0⟩ := by
    refine ⟨⟨by decide, by decide, by decide, by decide⟩, by decide, by decide, by decide, by decide⟩
  obtain ⟨_, _, k, hk, _⟩ := h ⟨(1, 3), 2, 0⟩ hw
  rw [C14_indexInYear_refused_year1 _ hw ⟨rfl, by decide⟩] at hk
  cases hk

/-! ## non-vacuity: the hypotheses are met by concrete weeks, and the operations really answer -/

example : SolarWeekOk ⟨(2024, 6), 5, 0⟩ ∧ weekCount civilOps (2024, 6) 0 = 6 ∧
    solarWeekNew 2024 6 5 0 = some ⟨(2024, 6), 5, 0⟩ ∧ solarWeekNew 2024 6 6 0 = none ∧
    solarWeekFirstDay ⟨(2024, 6), 0, 0⟩ = some (2024, 5, 26) ∧
    weekCount civilOps (1582, 10) 1 = 3 ∧ civilOk (1582, 10) := by
  refine ⟨⟨⟨by decide, by decide, by decide, by decide⟩, by decide, by decide, by decide, by decide⟩,
    by decide, by decide, by decide, by decide, by decide, ⟨by decide, by decide, by decide, by decide⟩⟩

example : solarWeekDays ⟨(1582, 10), 0, 0⟩ =
    some [(1582, 9, 30), (1582, 10, 1), (1582, 10, 2), (1582, 10, 3), (1582, 10, 4), (1582, 10, 15), (1582, 10, 16)] := by
  decide

example : solarWeekNext ⟨(2024, 6), 0, 0⟩ (-60) = some ⟨(2023, 4), 1, 0⟩ ∧
    solarWeekNext ⟨(2024, 5), 4, 0⟩ 1 = some ⟨(2024, 6), 1, 0⟩ ∧
    solarWeekNext ⟨(9999, 12), 4, 0⟩ 1 = none ∧ solarWeekNext ⟨(1, 1), 0, 0⟩ (-1) = none ∧
    solarWeekIndexInYear ⟨(2024, 6), 5, 0⟩ = some 26 ∧ Civil.valid 1582 10 20 = true := by
  refine ⟨by decide +kernel, by decide +kernel, by decide +kernel, by decide +kernel, by decide +kernel, by decide⟩

/-- a month sequence alternating 30 and 29 days meets the hypotheses of the `C14_lunar_*` theorems, and the
generic stepping code answers on it -/
example :
    let len : Int → Int := fun k => if k % 2 = 0 then 30 else 29
    let first : Int → Int := fun k => 2460000 + 59 * (k / 2) + (if k % 2 = 0 then 0 else 30)
    (∀ k, 0 ≤ k → k < 100 → first (k + 1) = first k + len k) ∧
    (∀ k, 0 ≤ k → k ≤ 100 → 8 ≤ len k ∧ len k ≤ 36) ∧
    weekNext (seqOps first len 0 100) ⟨3, 1, 0⟩ 10 = some ⟨5, 3, 0⟩ ∧
    weekNext (seqOps first len 0 100) ⟨3, 1, 0⟩ (-10) = some ⟨0, 4, 0⟩ ∧
    weekNext (seqOps first len 0 100) ⟨3, 1, 0⟩ (-20) = none := by
  refine ⟨?_, ?_, by decide +kernel, by decide +kernel, by decide +kernel⟩
  · intro k _ _; dsimp only; split <;> split <;> omega
  · intro k _ _; dsimp only; split <;> omega

/-! ## LUNAR HALF: `LunarMonth::get_week_count/get_weeks`, `LunarWeek::{new, get_first_day, get_days, next}` over the
extracted month table (`realEph`: re-extracted from /repo by tools/gen_eph.py on every run)

Model: `Tyme/Model/LunarWeek.lean` (`LWk.lunarWeekNew`, `lunarWeeks`, `lunarWeekFirstDay`, `lunarWeekDays`,
`lunarWeekNext`: the literal lunar code, whose weekday tests and day stepping go through the civil day and
`SolarDay::get_lunar_day`); `LWk.lunarOps E` is the lunar instance of the generic month type of `C14_gen_*`
(first day number, day count, `LunarMonth::next(±1)`), `LWk.lunarOpsOn E a b` the same with `next`/`prev` cut at the
ends of the interval of lunar years a..b.

Day number of the first day of week `w`: `firstJ (lunarOps realEph) w = first(month) + 7·index − off`.
The month table tiles (consecutive months abut, 29/30 days) on the lunar years 0..7, 9..22, 25..235, 237..238,
240..9998 (`C02_good_intervals`); the years 8, 23, 24, 236, 239 are the D4 reform junctions (known findings).
The theorems about the literal code additionally need day 1 of every month to be a civil date of 0001..9999, which
fails for lunar year 0; hence `LunarGoodInterval`. -/
open LWk Lunar

/-- the intervals of lunar years on which the lunar-week theorems hold -/
def LunarGoodInterval (a b : Int) : Prop :=
  (a = 1 ∧ b = 7) ∨ (a = 9 ∧ b = 22) ∨ (a = 25 ∧ b = 235) ∨ (a = 237 ∧ b = 238) ∨ (a = 240 ∧ b = 9998)

/-- a well-formed lunar week of the interval: listed month of years a..b, start 0..6, index below the week count -/
def LunarWeekOk (a b : Int) (w : LunarWeek) : Prop := WeekOk (lunarOpsOn realEph a b) (okOn realEph a b) w

/-- (1)+(2) the lunar months of the extracted table satisfy the month laws of the generic week theorems on every
tiling interval: `next(1)`/`next(-1)` give the adjacent month, whose first day is exactly `len` days away, and
8 ≤ len ≤ 36 (in fact 29 or 30).  Hence `C14_gen_next_7n` etc. apply to `lunarOpsOn realEph a b`. -/
theorem C14_lunar_real_laws :
    Laws (lunarOpsOn realEph 0 7) (okOn realEph 0 7) ∧ Laws (lunarOpsOn realEph 9 22) (okOn realEph 9 22) ∧
    Laws (lunarOpsOn realEph 25 235) (okOn realEph 25 235) ∧ Laws (lunarOpsOn realEph 237 238) (okOn realEph 237 238) ∧
    Laws (lunarOpsOn realEph 240 9998) (okOn realEph 240 9998) := by
  obtain ⟨t1, t2, t3, t4, t5⟩ := C02_good_intervals
  exact ⟨lunarLaws _ realEph_leap_le _ _ t1, lunarLaws _ realEph_leap_le _ _ t2, lunarLaws _ realEph_leap_le _ _ t3,
    lunarLaws _ realEph_leap_le _ _ t4, lunarLaws _ realEph_leap_le _ _ t5⟩

/-- on the good intervals the table tiles AND every month begins on a civil date of 0001..9999 (first days of
the lunar years 1, 9, 25, 237, 240 ≥ 0001-01-01; of the years 8, 23, 236, 239, 9999 ≤ 10000-01-01: kernel evaluation
of the extracted table) -/
theorem C14_lunar_real_good (a b : Int) (h : LunarGoodInterval a b) : Good realEph a b := by
  obtain ⟨t1, t2, t3, t4, t5⟩ := C02_good_intervals
  obtain ⟨⟨l1, l2, l3, l4, l5⟩, ⟨u1, u2, u3, u4, u5⟩⟩ := real_ends
  have t1' : TilesOn realEph 1 7 := fun y h1 h2 => t1 y (by omega) h2
  rcases h with ⟨rfl, rfl⟩ | ⟨rfl, rfl⟩ | ⟨rfl, rfl⟩ | ⟨rfl, rfl⟩ | ⟨rfl, rfl⟩
  · exact ⟨realEph_leap_le, by omega, by omega, t1', l1, u1⟩
  · exact ⟨realEph_leap_le, by omega, by omega, t2, l2, u2⟩
  · exact ⟨realEph_leap_le, by omega, by omega, t3, l3, u3⟩
  · exact ⟨realEph_leap_le, by omega, by omega, t4, l4, u4⟩
  · exact ⟨realEph_leap_le, by omega, by omega, t5, l5, u5⟩

/-- `LunarWeek::new` accepts exactly: a constructible lunar month, a start weekday 0..6 and an index 0..5 below the
week count (ALL arguments, any year) -/
theorem C14_lunar_real_new_iff (y m i s : Int) (w : LunarWeek) :
    lunarWeekNew realEph y m i s = some w ↔
      ∃ x, fromYm realEph y m = some x ∧ w = ⟨x, i, s⟩ ∧ 0 ≤ s ∧ s ≤ 6 ∧ 0 ≤ i ∧ i ≤ 5 ∧ i < monthWeekCount realEph x s :=
  lunarWeekNew_iff realEph y m i s w

/-- the week count is 5 or 6 and is exactly the number of start-aligned 7-day blocks that meet the month -/
theorem C14_lunar_real_count (a b : Int) (h : LunarGoodInterval a b) (x : Month) (hx : okOn realEph a b x) (s i : Int) :
    5 ≤ monthWeekCount realEph x s ∧ monthWeekCount realEph x s ≤ 6 ∧
    ((0 ≤ i ∧ i < monthWeekCount realEph x s) ↔
      (firstJ (lunarOps realEph) ⟨x, i, s⟩ ≤ Lunar.first realEph x + Lunar.len realEph x - 1 ∧
        Lunar.first realEph x ≤ firstJ (lunarOps realEph) ⟨x, i, s⟩ + 6)) := by
  have G := C14_lunar_real_good a b h
  have hb := monthWeekCount_bounds realEph x s (G.rep x hx).2.2
  exact ⟨hb.1, hb.2, C14_gen_count (lunarOps realEph) x i s⟩

/-- `LunarMonth::get_weeks(start)` lists exactly the weeks 0, 1, …, count−1 of the month, in order -/
theorem C14_lunar_real_weeks_list (a b : Int) (h : LunarGoodInterval a b) (y m s : Int) (x : Month)
    (hf : fromYm realEph y m = some x) (hx : okOn realEph a b x) (hs : 0 ≤ s ∧ s ≤ 6) (l : List LunarWeek) :
    lunarWeeks realEph y m s = some l ↔
      (l.length = (monthWeekCount realEph x s).toNat ∧ ∀ (k : Nat) (hk : k < l.length), l[k] = ⟨x, k, s⟩) :=
  lunarWeeks_iff realEph y m s x hf ((C14_lunar_real_good a b h).rep x hx).2.2 hs l

/-- the first day: the day number `firstJ` falls on the start weekday, and whatever `get_first_day` returns is the
lunar day (month of the interval, day 1..len) with exactly that day number, whose civil date is the date with that
day number — for every week whose first day lies in the interval and in the civil years a..b -/
theorem C14_lunar_real_first_day (a b : Int) (h : LunarGoodInterval a b) (w : LunarWeek) (hw : LunarWeekOk a b w)
    (hY : a ≤ (ofJdn (firstJ (lunarOps realEph) w)).1 ∧ (ofJdn (firstJ (lunarOps realEph) w)).1 ≤ b)
    (hlo : Lunar.first realEph ⟨a, 0⟩ ≤ firstJ (lunarOps realEph) w)
    (r : LDay) (hr : lunarWeekFirstDay realEph w = some r) :
    weekOfJdn (firstJ (lunarOps realEph) w) = w.start ∧
    okOn realEph a b r.1 ∧ 1 ≤ r.2 ∧ r.2 ≤ Lunar.len realEph r.1 ∧
    Lunar.first realEph r.1 + r.2 - 1 = firstJ (lunarOps realEph) w ∧
    daySolar realEph r.1 r.2 = some (ofJdn (firstJ (lunarOps realEph) w)) := by
  have G := C14_lunar_real_good a b h
  obtain ⟨o, e, k1, k2⟩ := lunarWeekFirstDay_spec G w hw hY hlo r hr
  obtain ⟨r1, r2, _⟩ := G.rep r.1 o
  have := (daySolar_in_range realEph r.1 r.2 (by omega) (by omega)).1
  rw [e] at this
  exact ⟨C14_gen_first_weekday (lunarOps realEph) w ⟨hw.2.1, hw.2.2.1⟩, o, k1, k2, e, this⟩

/-- seven consecutive days: whatever `get_days` returns is a list of 7 lunar days (month of the interval, day
1..len) with the day numbers firstJ, firstJ+1, …, firstJ+6 — for every week whose seven days lie in the interval
and in the civil years a..b -/
theorem C14_lunar_real_days (a b : Int) (h : LunarGoodInterval a b) (w : LunarWeek) (hw : LunarWeekOk a b w)
    (hY : ∀ k : Nat, k < 7 → a ≤ (ofJdn (firstJ (lunarOps realEph) w + k)).1 ∧ (ofJdn (firstJ (lunarOps realEph) w + k)).1 ≤ b)
    (hlo : Lunar.first realEph ⟨a, 0⟩ ≤ firstJ (lunarOps realEph) w)
    (hhi : firstJ (lunarOps realEph) w + 6 < Lunar.first realEph ⟨b + 1, 0⟩)
    (l : List LDay) (hl : lunarWeekDays realEph w = some l) :
    l.length = 7 ∧ ∀ (k : Nat) (hk : k < l.length),
      okOn realEph a b l[k].1 ∧ 1 ≤ l[k].2 ∧ l[k].2 ≤ Lunar.len realEph l[k].1 ∧
      Lunar.first realEph l[k].1 + l[k].2 - 1 = firstJ (lunarOps realEph) w + k := by
  obtain ⟨h7, hall⟩ := lunarWeekDays_spec (C14_lunar_real_good a b h) w hw hY hlo hhi l hl
  refine ⟨h7, fun k hk => ?_⟩
  obtain ⟨o, e, k1, k2⟩ := hall k hk
  exact ⟨o, k1, k2, e⟩

/-- successive weeks start 7 days apart, and no day of the month is lost -/
theorem C14_lunar_real_spacing_cover (x : Month) (s : Int) :
    (∀ i, firstJ (lunarOps realEph) ⟨x, i + 1, s⟩ = firstJ (lunarOps realEph) ⟨x, i, s⟩ + 7) ∧
    (∀ j, Lunar.first realEph x ≤ j → j < Lunar.first realEph x + Lunar.len realEph x →
      ∃ i, 0 ≤ i ∧ i < monthWeekCount realEph x s ∧
        firstJ (lunarOps realEph) ⟨x, i, s⟩ ≤ j ∧ j ≤ firstJ (lunarOps realEph) ⟨x, i, s⟩ + 6) :=
  ⟨fun i => C14_gen_spacing (lunarOps realEph) x i s, fun j h1 h2 => C14_gen_cover (lunarOps realEph) x s j h1 h2⟩

/-- stepping a lunar week by ANY n: whenever the target week still meets the interval, `LunarWeek::next(n)`
ANSWERS (the loops never run out of fuel, no weekday test and no re-validation fails), and the answer is a
well-formed week of the interval with the same start whose first day is exactly 7n days later -/
theorem C14_lunar_real_next_7n (a b : Int) (h : LunarGoodInterval a b) (w : LunarWeek) (hw : LunarWeekOk a b w) (n : Int)
    (hlo : Lunar.first realEph ⟨a, 0⟩ ≤ firstJ (lunarOps realEph) w + 7 * n + 6)
    (hhi : firstJ (lunarOps realEph) w + 7 * n < Lunar.first realEph ⟨b + 1, 0⟩) :
    ∃ w', lunarWeekNext realEph w n = some w' ∧ LunarWeekOk a b w' ∧ w'.start = w.start ∧
      firstJ (lunarOps realEph) w' = firstJ (lunarOps realEph) w + 7 * n := by
  have G := C14_lunar_real_good a b h
  have hspec := weekNext_spec (lunarOpsOn realEph a b) (okOn realEph a b) G.laws w hw n
  cases hn : weekNext (lunarOpsOn realEph a b) w n with
  | some w' =>
    rw [hn] at hspec
    exact ⟨w', lunarWeekNext_of G w hw n w' hn, hspec⟩
  | none =>
    exfalso
    rw [hn] at hspec
    dsimp only at hspec
    rw [firstJ_on] at hspec
    rcases hspec with ⟨_, m', hm', hnn, hle⟩ | ⟨_, m', hm', hnn, hle⟩
    · have := on_next_none realEph G.leap_le a b G.b9 G.tiles m' hm' hnn
      have e1 : (lunarOpsOn realEph a b).first m' = Lunar.first realEph m' := rfl
      have e2 : (lunarOpsOn realEph a b).len m' = Lunar.len realEph m' := rfl
      rw [e1, e2] at hle
      omega
    · have := on_prev_none realEph G.leap_le a b G.a0 m' hm' hnn
      subst this
      have e1 : (lunarOpsOn realEph a b).first ⟨a, 0⟩ = Lunar.first realEph ⟨a, 0⟩ := rfl
      rw [e1] at hle
      omega

/-- …conversely, whenever `next(n)` of the cut instance is refused the target week lies outside the interval
(so inside a good interval a refusal never happens) -/
theorem C14_lunar_real_next_refused (a b : Int) (h : LunarGoodInterval a b) (w : LunarWeek) (hw : LunarWeekOk a b w) (n : Int)
    (hn : weekNext (lunarOpsOn realEph a b) w n = none) :
    (0 < n ∧ Lunar.first realEph ⟨b + 1, 0⟩ ≤ firstJ (lunarOps realEph) w + 7 * n) ∨
    (n < 0 ∧ firstJ (lunarOps realEph) w + 7 * n + 7 ≤ Lunar.first realEph ⟨a, 0⟩) := by
  have G := C14_lunar_real_good a b h
  have hspec := weekNext_spec (lunarOpsOn realEph a b) (okOn realEph a b) G.laws w hw n
  rw [hn] at hspec
  dsimp only at hspec
  rw [firstJ_on] at hspec
  rcases hspec with ⟨hp, m', hm', hnn, hle⟩ | ⟨hp, m', hm', hnn, hle⟩
  · left
    have := on_next_none realEph G.leap_le a b G.b9 G.tiles m' hm' hnn
    have e1 : (lunarOpsOn realEph a b).first m' = Lunar.first realEph m' := rfl
    have e2 : (lunarOpsOn realEph a b).len m' = Lunar.len realEph m' := rfl
    rw [e1, e2] at hle
    exact ⟨hp, by omega⟩
  · right
    have := on_prev_none realEph G.leap_le a b G.a0 m' hm' hnn
    subst this
    exact ⟨hp, hle⟩

/-- full-strength statement of the first-day clause over ALL lunar years (FALSE on the unchanged code at the D4
junctions, see `C14_lunar_real_first_day_full_false`; `C14_lunar_real_first_day` is the proved part) -/
def C14_lunar_real_first_day_full : Prop :=
  ∀ (w : LunarWeek) (r : LDay), WF realEph w.month → 0 ≤ w.start ∧ w.start ≤ 6 →
    0 ≤ w.index ∧ w.index < monthWeekCount realEph w.month w.start →
    lunarWeekFirstDay realEph w = some r → Lunar.first realEph r.1 + r.2 - 1 = firstJ (lunarOps realEph) w

/-- D4 witness (known finding D4-c14-ad9-weeks): week 0 (start Sunday) of lunar month 8-12 begins on day number
1724358, but `get_first_day` answers the lunar day 8-12-29, whose day number is 1724388 (the lunar months 8-12 and
9-1 of the table are the same lunation) -/
theorem C14_lunar_real_first_day_full_false : ¬ C14_lunar_real_first_day_full := by
  intro hfull
  have h1 : lunarWeekFirstDay realEph ⟨⟨8, 12⟩, 0, 0⟩ = some (⟨8, 12⟩, 29) := by decide +kernel
  have h2 : WF realEph ⟨8, 12⟩ := by
    refine ⟨by decide, by decide, ?_⟩
    show 12 < realEph.cnt 8
    decide +kernel
  have h3 : monthWeekCount realEph ⟨8, 12⟩ 0 = 5 ∧ Lunar.first realEph ⟨8, 12⟩ = 1724360 ∧
      firstJ (lunarOps realEph) ⟨⟨8, 12⟩, 0, 0⟩ = 1724358 := by decide +kernel
  have := hfull ⟨⟨8, 12⟩, 0, 0⟩ (⟨8, 12⟩, 29) h2 ⟨by decide, by decide⟩ ⟨by decide, by rw [h3.1]; decide⟩ h1
  rw [h3.2.2] at this
  dsimp only at this
  rw [h3.2.1] at this
  omega

/-! ### non-vacuity of the lunar theorems: concrete weeks of the extracted table (kernel evaluation) -/

example : LunarGoodInterval 240 9998 ∧ LunarWeekOk 240 9998 ⟨⟨2024, 0⟩, 0, 0⟩ ∧
    lunarWeekNew realEph 2024 1 0 0 = some ⟨⟨2024, 0⟩, 0, 0⟩ ∧ monthWeekCount realEph ⟨2024, 0⟩ 0 = 5 ∧
    lunarWeekFirstDay realEph ⟨⟨2024, 0⟩, 0, 0⟩ = some (⟨2023, 12⟩, 25) ∧
    daySolar realEph ⟨2023, 12⟩ 25 = some (2024, 2, 4) ∧
    lunarWeekNext realEph ⟨⟨2024, 0⟩, 0, 0⟩ 10 = some ⟨⟨2024, 2⟩, 1, 0⟩ ∧
    lunarWeekNext realEph ⟨⟨2024, 0⟩, 0, 0⟩ (-60) = some ⟨⟨2022, 10⟩, 3, 0⟩ := by
  refine ⟨Or.inr (Or.inr (Or.inr (Or.inr ⟨rfl, rfl⟩))), ?_, by decide +kernel, by decide +kernel, by decide +kernel,
    by decide +kernel, by decide +kernel, by decide +kernel⟩
  refine ⟨⟨⟨by decide, by decide, ?_⟩, by decide, by decide⟩, by decide, by decide, by decide, ?_⟩
  · show 0 < realEph.cnt 2024
    decide +kernel
  · show (0 : Int) < monthWeekCount realEph ⟨2024, 0⟩ 0
    decide +kernel

/-- the listed days of a week that runs from a leap month into the next month -/
example : (lunarWeekDays realEph ⟨⟨2023, 2⟩, 4, 1⟩).map (fun l => l.map fun d => (d.1.y, monthWithLeap realEph d.1, d.2)) =
    some [(2023, -2, 27), (2023, -2, 28), (2023, -2, 29), (2023, 3, 1), (2023, 3, 2), (2023, 3, 3), (2023, 3, 4)] := by
  decide +kernel

end Tyme
