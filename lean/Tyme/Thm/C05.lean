import Tyme.Facts.MonthsFact
import Tyme.Facts.Terms
import Tyme.Model.DeltaT
import Tyme.Gen.C05Dt
/-!
C05 — solar terms and new moons sit at the true Sun/Moon longitudes (PARTIAL; level `other`).
What a Lean theorem can carry here (`C05_*` obligations):
 (i)  calendar path = precise path from 1961 on — kernel-decided on the data re-extracted from /repo;
 (iv) TT−UT continuity — exact rational model of dt_calc over the table lifted from the source text.
What it cannot: (ii) agreement with an independent theory and (iii) inverse-solver residuals are statements about
f64 evaluations of ~3,000-coefficient trigonometric series; they are checked by an executable oracle
(Meeus low-precision Sun / full new-moon series in the driver; residuals in the harness), reported as supporting
evidence, never as obligations.
-/
namespace Tyme
open Packed DT

/-- (i) TABLE FACT: for all 192,938 terms of years 1961..10000 the calendar-making day is the UTC+8 civil day of the
precisely computed instant (the library reports an instant of the last half second of a day as 00:00:00 of the
next day — the only other case, two terms). -/
theorem C05_term_day_fact : allRec 72 termCalOK Gen.termsChunks = true := terms_cal_fact

theorem C05_term_day (g : Nat) (h1 : 47040 ≤ g) (h2 : g ≤ 239977) :
    realEph.qiDay g = realEph.termDay g ∨ (realEph.termDay g = realEph.qiDay g + 1 ∧ realEph.termSod g = 0) := by
  have := allRec_spec 72 termCalOK Gen.termsChunks terms_cal_fact g (by
    show g < termRecs.length
    rw [termRecs_length]; omega)
  change termCalOK g (termRecs[g]'(by rw [termRecs_length]; omega)) = true at this
  rw [← termRecs_getD g (by omega)] at this
  have hr : ¬ realEph.termDay g = 0 := fun h => by have := (realEph_term_repr g (by omega)).1 h; omega
  simp only [realEph] at hr ⊢
  generalize termRecs.getD g 0 = r at *
  have hb : Nat.blt g 47040 = false := by rw [Bool.eq_false_iff]; intro hh; rw [Nat.blt_eq] at hh; omega
  have hraw : (Rec.tDayRaw r == 0) = false := by
    have : ¬ Rec.tDayRaw r = 0 := by rw [← tDay_eq_zero_iff]; omega
    simp [this]
  simp only [termCalOK, hb, hraw, Bool.false_or, Bool.or_eq_true, beq_iff_eq, Bool.and_eq_true] at this
  rcases this with h | ⟨h, h'⟩
  · left; rw [h]
  · right; exact ⟨by rw [h]; simp, by rw [h']; rfl⟩

/-- (i) TABLE FACT: for all 74,704 lunations of lunar years 1961..8000 the month's first day is the UTC+8 civil day
of the conjunction computed by the full-precision inverse solver (beyond ≈ AD 8000 the truncated calendar solver
leaves its guard band: 102 lunations of 8001..9999 differ by a day and are outside the claim). -/
theorem C05_shuo_day_fact : allRec 1024 yearShuoOK Gen.monthsChunks = true := years_shuo_fact

/-- (iv) segment joins: at each of the 22 joins of the TT−UT spline (incl. the hand-over to the final tabulated value)
the jump is at most 5 s (units 10^-4 s; the largest is 4.4 s at AD 900) -/
theorem C05_dt_joins : (joinJumps Gen.dtAt).length = 22 ∧ ∀ j ∈ joinJumps Gen.dtAt, -50000 ≤ j ∧ j ≤ 50000 := by decide +kernel

/-- (iv) the blend beyond the table is continuous at both ends: it starts at the last tabulated value and reaches
the pure extrapolation after 100 years — for ANY table end (y0, t0) -/
theorem C05_dt_blend_ends (ext0 ext100 t0 den : Int) :
    (ext0 * 100000 - (ext0 - t0 * den) * (0 + 100000)) = t0 * den * 100000 ∧
    (ext100 * 100000 - (ext0 - t0 * den) * (100000 - 100000)) = ext100 * 100000 := by
  constructor
  · have : (ext0 - t0 * den) * (0 + 100000) = ext0 * 100000 - t0 * den * 100000 := by
      rw [Int.zero_add, Int.sub_mul]
    omega
  · simp

/-- |a − b| ≤ B (units 10^-4 s) for fractions with positive denominators -/
def fracDiffLe (a b : Int × Int) (B : Int) : Bool :=
  decide (a.1 * b.2 - b.1 * a.2 ≤ B * (a.2 * b.2)) && decide (-(a.1 * b.2 - b.1 * a.2) ≤ B * (a.2 * b.2)) &&
  decide (0 < a.2) && decide (0 < b.2)

def yearlyOK (t : List Int) (B : Int) (lo : Int) : Nat → Bool
  | 0 => true
  | n+1 => fracDiffLe (dtCalc t ((lo + n + 1) * 1000)) (dtCalc t ((lo + n) * 1000)) B && yearlyOK t B lo n

-- (iv) smoothness (doc comment below the option): 
/- (iv) smoothness: TT−UT changes by at most 51 s between consecutive integer years over −4000..10000 (the
maximum is the quadratic extrapolation's slope at 10000), and by at most 2.4 s per year over 1700..2200
(exact rational evaluation of all 14,000 resp. 500 year pairs, incl. every join and both blend ends) -/
set_option maxRecDepth 1000000 in
theorem C05_dt_yearly : yearlyOK Gen.dtAt 510000 (-4000) 14000 = true ∧ yearlyOK Gen.dtAt 24000 1700 500 = true := by
  constructor <;> decide +kernel

/-- non-vacuity: TT−UT(2000) = 63.87 s and TT−UT(2028) = 72.6 s exactly -/
example : dtCalc Gen.dtAt 2000000 = (79837500000000000000, 125000000000000) ∧ (79837500000000000000 : Int) = 638700 * 125000000000000 ∧
    (dtCalc Gen.dtAt 2028000).1 = 726000 * (dtCalc Gen.dtAt 2028000).2 := by decide +kernel

end Tyme
