import Tyme.Thm.C09
import Tyme.Thm.C08c
/-!
C09, second file — COMPLETENESS of the inverse search `EightChar::get_solar_times` on the current tree's data.
-/
namespace Tyme
open Lunar SC EC

/-- a well-formed instant -/
def TimeOK (t : EC.Time) : Prop :=
  Civil.valid t.1 t.2.1 t.2.2.1 = true ∧ (0 ≤ t.2.2.2.1 ∧ t.2.2.2.1 ≤ 23) ∧ (0 ≤ t.2.2.2.2.1 ∧ t.2.2.2.2.1 ≤ 59) ∧
  (0 ≤ t.2.2.2.2.2 ∧ t.2.2.2.2.2 ≤ 59)

/-- the day whose pillar is in force: the next civil day from 23:00 -/
def pillarDay (t : EC.Time) : Int := jdn t.1 t.2.1 t.2.2.1 + (if t.2.2.2.1 = 23 then 1 else 0)

/-- the double-hour number of an instant: 12 per pillar day, the branch within -/
theorem dh_number (t : EC.Time) (ht : TimeOK t) :
    (secOf t + 3600) / 7200 = 12 * pillarDay t + ((t.2.2.2.1 + 1) / 2) % 12 ∧
    doubleHourStart t ≤ secOf t ∧ secOf t < doubleHourStart t + 7200 := by
  obtain ⟨_, hh, hm, hs⟩ := ht
  unfold doubleHourStart secOf pillarDay
  generalize jdn t.1 t.2.1 t.2.2.1 = j
  generalize t.2.2.2.1 = h at *
  generalize t.2.2.2.2.1 = mi at *
  generalize t.2.2.2.2.2 = s at *
  by_cases h23 : h = 23
  · subst h23; simp only [if_true]; omega
  · simp only [h23, if_false]; omega

/-- what the instant-level view of a well-formed instant of the main interval is, in terms of the term g whose instant
is the latest at or before it: all four pillars as numbers -/
theorem C09_view_chars (t : EC.Time) (ht : TimeOK t) (hY1 : 241 ≤ t.1) (hY2 : t.1 ≤ 9997) (v : HourView)
    (hv : ofSolarTime realEph t.1 t.2.1 t.2.2.1 t.2.2.2.1 t.2.2.2.2.1 t.2.2.2.2.2 = some v) :
    ∃ g : Nat, 1 ≤ g ∧ g + 1 ≤ 239977 ∧ realEph.termSec g ≤ secOf t ∧ secOf t < realEph.termSec (g + 1) ∧
      24 * (t.1 - 1) ≤ (g : Int) ∧ (g : Int) ≤ 24 * (t.1 - 1) + 25 ∧
      v.year = (((g : Int) - 3) / 24 + 1 - 4) % 60 ∧
      0 ≤ v.month ∧ v.month < 60 ∧
      v.month % 12 = (2 + (((g : Int) - 3) % 24) / 2) % 12 ∧
      v.month % 10 = ((v.year % 10 + 1) * 2 + (((g : Int) - 3) % 24) / 2) % 10 ∧
      v.day = (pillarDay t + 49) % 60 ∧
      0 ≤ v.hour ∧ v.hour < 60 ∧ v.hour % 12 = ((t.2.2.2.1 + 1) / 2) % 12 ∧
      v.hour % 10 = (((pillarDay t + 49) % 60) % 10 % 5 * 2 + ((t.2.2.2.1 + 1) / 2) % 12) % 10 := by
  obtain ⟨hvd, hh, hm, hs⟩ := ht
  obtain ⟨_, _, _, _, t5⟩ := C02_good_intervals
  have sp := C08_time_spec 240 9998 (by omega) (by omega) (by omega) t5 t.1 t.2.1 t.2.2.1 t.2.2.2.1 t.2.2.2.2.1 t.2.2.2.2.2
    hvd hh hm hs (by omega) (by omega) v hv
  dsimp only at sp
  obtain ⟨sy, g, hg, g1, g2, k0, k11, m12, m10⟩ := sp
  obtain ⟨gb1, gb2, hg1, hg2⟩ := term_of_time_bounds t.1 t.2.1 t.2.2.1 t.2.2.2.1 t.2.2.2.2.1 t.2.2.2.2.2 hvd hh hm hs (by omega) (by omega) g hg
  obtain ⟨x, k, g', fm, hx, hg', hfm, hyr, hmo⟩ := C08_hour_view realEph t.1 t.2.1 t.2.2.1 t.2.2.2.1 t.2.2.2.2.1 t.2.2.2.2.2 v hv
  obtain ⟨x2, k2, dp, hx2, hdp, hday, hhour⟩ := C09_roll realEph t.1 t.2.1 t.2.2.1 t.2.2.2.1 t.2.2.2.2.1 t.2.2.2.2.2 v hv
  rw [hx] at hx2
  simp only [Option.some.injEq, Prod.mk.injEq] at hx2
  obtain ⟨ex, ek⟩ := hx2
  subst ex; subst ek
  -- the lunar date of the civil date
  have ha0 : (0 : Int) ≤ ((240 : Nat) : Int) := by decide
  obtain ⟨i1, i2, i3, i4⟩ := C02_interval_of_year realEph C13_newYearFacts_real ((240 : Nat) : Int) ((9998 : Nat) : Int)
    (by decide) (by decide) t.1 t.2.1 t.2.2.1 hvd (Or.inr (by omega)) (by omega)
  obtain ⟨_, _, _, xe, _, _⟩ := ofSolar_spec realEph realEph_leap_le _ _ t5 t.1 t.2.1 t.2.2.1 i1 i2 i3 i4 (x, k) hx
  dsimp only at xe
  rw [C07_dayPillar] at hdp
  simp only [Option.some.injEq] at hdp
  have hsec : secOf t = 86400 * jdn t.1 t.2.1 t.2.2.1 + 3600 * t.2.2.2.1 + 60 * t.2.2.2.2.1 + t.2.2.2.2.2 := rfl
  have hmr : 0 ≤ v.month ∧ v.month < 60 := by
    rw [hmo]; unfold cycNext; rw [indexOf_60]; omega
  obtain ⟨p, hp1, hp2, hp3, hp4, hp5⟩ := C09_hour_core dp.toNat (by omega) t.2.2.2.1.toNat (by omega)
  have e1 : ((dp.toNat : Nat) : Int) = dp := by omega
  have e2 : ((t.2.2.2.1.toNat : Nat) : Int) = t.2.2.2.1 := by omega
  rw [e1, e2] at hp1 hp5
  rw [e2] at hp4
  rw [hhour] at hp1
  simp only [Option.some.injEq] at hp1
  have hge : (t.2.2.2.1.toNat ≥ 23) ↔ t.2.2.2.1 = 23 := by omega
  have r3 : realEph.termSec g ≤ secOf t := by rw [hsec]; exact g1
  have r4 : secOf t < realEph.termSec (g + 1) := by rw [hsec]; exact g2
  clear hv hg hg' hx hfm hyr hmo hhour i3 i4
  have r589 : v.year = (((g : Int) - 3) / 24 + 1 - 4) % 60 ∧ v.month % 12 = (2 + (((g : Int) - 3) % 24) / 2) % 12 ∧
      v.month % 10 = ((v.year % 10 + 1) * 2 + (((g : Int) - 3) % 24) / 2) % 10 := by
    by_cases hc : 86400 * jdn t.1 t.2.1 t.2.2.1 + 3600 * t.2.2.2.1 + 60 * t.2.2.2.2.1 + t.2.2.2.2.2 < realEph.termSec (24 * (t.1 - 1) + 3).toNat
    · simp only [hc, if_true] at sy k0 k11 m12 m10
      generalize v.year = vy at *
      generalize v.month = vm at *
      refine ⟨?_, ?_, ?_⟩
      · omega
      · rw [m12]; omega
      · rw [m10]; omega
    · simp only [hc, if_false] at sy k0 k11 m12 m10
      generalize v.year = vy at *
      generalize v.month = vm at *
      refine ⟨?_, ?_, ?_⟩
      · omega
      · rw [m12]; omega
      · rw [m10]; omega
  obtain ⟨r5, r8, r9⟩ := r589
  clear sy k0 k11 m12 m10 g1 g2
  have r10 : v.day = (pillarDay t + 49) % 60 := by
    rw [hday]; unfold pillarDay cycNext; rw [indexOf_60]
    split <;> omega
  have r13 : v.hour % 12 = ((t.2.2.2.1 + 1) / 2) % 12 := by rw [hp1]; exact hp4
  have r14 : v.hour % 10 = (((pillarDay t + 49) % 60) % 10 % 5 * 2 + ((t.2.2.2.1 + 1) / 2) % 12) % 10 := by
    rw [hp1, hp5]; unfold pillarDay
    by_cases h23 : t.2.2.2.1 = 23
    · have : t.2.2.2.1.toNat ≥ 23 := hge.2 h23
      simp only [this, h23, if_true]; omega
    · have : ¬ t.2.2.2.1.toNat ≥ 23 := fun h => h23 (hge.1 h)
      simp only [this, h23, if_false]; omega
  exact ⟨g, hg1, by omega, r3, r4, gb1, gb2, r5, hmr.1, hmr.2, r8, r9, r10, by omega, by omega, r13, r14⟩

/-- two instants of the same double-hour with no Jie instant inside it lie in the same Jie-delimited month -/
theorem same_jie (St : Int) (sa sb : Int) (ga gb : Nat) (ha1 : 1 ≤ ga) (ha2 : ga + 1 ≤ 239977) (hb1 : 1 ≤ gb) (hb2 : gb + 1 ≤ 239977)
    (a1 : realEph.termSec ga ≤ sa) (a2 : sa < realEph.termSec (ga + 1))
    (b1 : realEph.termSec gb ≤ sb) (b2 : sb < realEph.termSec (gb + 1))
    (wa : St ≤ sa ∧ sa < St + 7200) (wb : St ≤ sb ∧ sb < St + 7200)
    (hJ : ∀ g : Nat, g % 2 = 1 → ¬ (St ≤ realEph.termSec g ∧ realEph.termSec g < St + 7200)) :
    (ga - 1) / 2 = (gb - 1) / 2 := by
  have key : ∀ (gx gy : Nat) (sx sy : Int), 1 ≤ gx → gx + 1 ≤ 239977 → 1 ≤ gy → gy + 1 ≤ 239977 →
      realEph.termSec gx ≤ sx → sx < realEph.termSec (gx + 1) → realEph.termSec gy ≤ sy → sy < realEph.termSec (gy + 1) →
      (St ≤ sx ∧ sx < St + 7200) → (St ≤ sy ∧ sy < St + 7200) → ¬ ((gx - 1) / 2 < (gy - 1) / 2) := by
    intro gx gy sx sy x1 x2 y1 y2 p1 p2 q1 q2 wx wy hlt
    -- J = the Jie at or before gy; it is later than gx's successor, so its instant lies between sx and sy
    have hJy : (2 * ((gy - 1) / 2) + 1) % 2 = 1 := by omega
    have l1 := termSec_le (2 * ((gy - 1) / 2) + 1) gy (by omega) (by omega) (by omega)
    have l2 := termSec_le (gx + 1) (2 * ((gy - 1) / 2) + 1) (by omega) (by omega) (by omega)
    exact hJ _ hJy ⟨by omega, by omega⟩
  have k1 := key ga gb sa sb ha1 ha2 hb1 hb2 a1 a2 b1 b2 wa wb
  have k2 := key gb ga sb sa hb1 hb2 ha1 ha2 b1 b2 a1 a2 wb wa
  omega

/-- two well-formed instants of the same double-hour, with no Jie instant inside that double-hour, have the same four
pillars (main interval of the current data) -/
theorem C09_same_double_hour (t r : EC.Time) (ht : TimeOK t) (hr : TimeOK r) (ht1 : 241 ≤ t.1) (ht2 : t.1 ≤ 9997)
    (hr1 : 241 ≤ r.1) (hr2 : r.1 ≤ 9997) (v w : HourView)
    (hv : ofSolarTime realEph t.1 t.2.1 t.2.2.1 t.2.2.2.1 t.2.2.2.2.1 t.2.2.2.2.2 = some v)
    (hw : ofSolarTime realEph r.1 r.2.1 r.2.2.1 r.2.2.2.1 r.2.2.2.2.1 r.2.2.2.2.2 = some w)
    (hS : doubleHourStart r = doubleHourStart t)
    (hJ : ∀ g : Nat, g % 2 = 1 → ¬ (doubleHourStart t ≤ realEph.termSec g ∧ realEph.termSec g < doubleHourStart t + 7200)) :
    v.year = w.year ∧ v.month = w.month ∧ v.day = w.day ∧ v.hour = w.hour := by
  obtain ⟨ga, a1, a2, a3, a4, _, _, ay, am0, am1, am12, am10, ad, ah0, ah1, ah12, ah10⟩ := C09_view_chars t ht ht1 ht2 v hv
  obtain ⟨gb, b1, b2, b3, b4, _, _, by', bm0, bm1, bm12, bm10, bd, bh0, bh1, bh12, bh10⟩ := C09_view_chars r hr hr1 hr2 w hw
  obtain ⟨qa, wa1, wa2⟩ := dh_number t ht
  obtain ⟨qb, wb1, wb2⟩ := dh_number r hr
  rw [hS] at wb1 wb2
  have hu := same_jie (doubleHourStart t) (secOf t) (secOf r) ga gb a1 a2 b1 b2 a3 a4 b3 b4 ⟨wa1, wa2⟩ ⟨wb1, wb2⟩ hJ
  -- same double-hour number
  have hq : (secOf r + 3600) / 7200 = (secOf t + 3600) / 7200 := by
    unfold doubleHourStart at hS; omega
  have hP : pillarDay r = pillarDay t ∧ ((r.2.2.2.1 + 1) / 2) % 12 = ((t.2.2.2.1 + 1) / 2) % 12 := by
    rw [qa, qb] at hq
    constructor <;> omega
  obtain ⟨hP1, hP2⟩ := hP
  have hyy : v.year = w.year := by rw [ay, by']; omega
  refine ⟨hyy, ?_, by rw [ad, bd, hP1], ?_⟩
  · rw [hyy] at am10
    generalize v.month = x at *
    generalize w.month = y at *
    omega
  · rw [hP1, hP2] at bh10
    rw [hP2] at bh12
    generalize v.hour = x at *
    generalize w.hour = y at *
    omega

/-! ### the candidate list -/
open Cont

/-- the instant built from a day number, an hour, a minute and a second -/
def mkTime (j hour mi s : Int) : EC.Time := ((ofJdn j).1, (ofJdn j).2.1, (ofJdn j).2.2, hour, mi, s)

/-- what one 60-year step of the search contributes (main interval): the Jie day of the wanted month in term-year y,
moved forward to the first day with the wanted day pillar, at each candidate hour -/
theorem candidatesAt_eq (ec : EightChar) (k : Int) (hk : 0 ≤ k ∧ k ≤ 11) (hours : List Int) (y0 y : Int)
    (hy : 242 ≤ y ∧ y ≤ 9995) :
    candidatesAt realEph ec (k * 2) hours y0 y = some
      (if (ofJdn (realEph.termDay (24 * (y - 1) + 3 + 2 * k).toNat)).1 ≥ y0 - 1 then
        hours.map fun hour =>
          if (ec.day - (realEph.termDay (24 * (y - 1) + 3 + 2 * k).toNat + 49)) % 60 = 0 ∧
              hour = realEph.termSod (24 * (y - 1) + 3 + 2 * k).toNat / 3600 then
            mkTime (realEph.termDay (24 * (y - 1) + 3 + 2 * k).toNat + (ec.day - (realEph.termDay (24 * (y - 1) + 3 + 2 * k).toNat + 49)) % 60)
              hour (realEph.termSod (24 * (y - 1) + 3 + 2 * k).toNat % 3600 / 60) (realEph.termSod (24 * (y - 1) + 3 + 2 * k).toNat % 60)
          else mkTime (realEph.termDay (24 * (y - 1) + 3 + 2 * k).toNat + (ec.day - (realEph.termDay (24 * (y - 1) + 3 + 2 * k).toNat + 49)) % 60) hour 0 0
       else []) ∧
    jdn y 1 1 < realEph.termDay (24 * (y - 1) + 3 + 2 * k).toNat ∧
    realEph.termDay (24 * (y - 1) + 3 + 2 * k).toNat ≤ jdn (y + 1) 1 1 + 36 := by
  obtain ⟨yn, rfl⟩ : ∃ n : Nat, y = (n : Int) := ⟨y.toNat, by omega⟩
  obtain ⟨kn, rfl⟩ : ∃ n : Nat, k = (n : Int) := ⟨k.toNat, by omega⟩
  have eg : (24 * ((yn : Int) - 1) + 3 + 2 * (kn : Int)).toNat = 24 * (yn - 1) + 3 + 2 * kn := by omega
  rw [eg]
  have egm : (24 * ((yn : Int) - 1) + 3 + (if (kn : Int) * 2 > 0 then (kn : Int) * 2 else 0)) = ((24 * (yn - 1) + 3 + 2 * kn : Nat) : Int) := by
    split <;> omega
  generalize hG : 24 * (yn - 1) + 3 + 2 * kn = G at *
  have tf := C13_termFacts_real
  -- where the Jie day lies
  have l1 := (tf.lichun yn (by omega) (by omega)).1
  have l2 := (tf.lichun (yn + 1) (by omega) (by omega)).2
  have e1 : 24 * (yn + 1 - 1) + 3 = 24 * (yn - 1) + 27 := by omega
  rw [e1] at l2
  have mo1 := termDay_le (24 * (yn - 1) + 3) G (by omega) (by omega) (by omega)
  have mo2 := termDay_le G (24 * (yn - 1) + 27) (by omega) (by omega) (by omega)
  have ey1 : ((yn + 1 : Nat) : Int) = (yn : Int) + 1 := by omega
  rw [ey1] at l2
  have js := jan1_step ((yn : Int) + 1) (by omega)
  have j1 : jdn 1 1 1 = 1721424 := by decide
  have m1 := jan1_mono 1 (yn : Int) (by omega) (by omega)
  obtain ⟨tv, tj, ty1, ty2⟩ := jdn_year_range (realEph.termDay G) (yn : Int) ((yn : Int) + 1) (by omega) (by omega) (by omega) (by omega) (by omega)
  refine ⟨?_, by omega, by omega⟩
  -- the lunar date of the Jie day
  obtain ⟨_, _, _, _, t5⟩ := C02_good_intervals
  have tvv : Civil.valid (ofJdn (realEph.termDay G)).1 (ofJdn (realEph.termDay G)).2.1 (ofJdn (realEph.termDay G)).2.2 = true := tv
  obtain ⟨i1, i2, i3, i4⟩ := C02_interval_of_year realEph C13_newYearFacts_real ((240 : Nat) : Int) ((9998 : Nat) : Int)
    (by decide) (by decide) _ _ _ tvv (Or.inr (by omega)) (by omega)
  obtain ⟨⟨x, kk⟩, hr⟩ := Cont.ofSolar_total realEph realEph_leap_le C13_newYearFacts_real C02_first_year_real _ _ (by decide) (by decide) t5 _ _ _ tvv i1 i2 i3 i4
  obtain ⟨_, _, _, xe, _, _⟩ := ofSolar_spec realEph realEph_leap_le _ _ t5 _ _ _ i1 i2 i3 i4 (x, kk) hr
  dsimp only at xe
  have tjj : jdn (ofJdn (realEph.termDay G)).1 (ofJdn (realEph.termDay G)).2.1 (ofJdn (realEph.termDay G)).2.2 = realEph.termDay G := tj
  rw [tjj] at xe
  have hp := C07_dayPillar (Lunar.first realEph x) kk
  have ep : (Lunar.first realEph x + kk - 12) % 60 = (realEph.termDay G + 49) % 60 := by omega
  rw [ep] at hp
  have hne : ¬ (realEph.termDay G = 0) := by omega
  have hd : cycNext ec.day (-((realEph.termDay G + 49) % 60)) = (ec.day - (realEph.termDay G + 49)) % 60 := by
    unfold cycNext; rw [indexOf_60]; omega
  have hdr : 0 ≤ (ec.day - (realEph.termDay G + 49)) % 60 ∧ (ec.day - (realEph.termDay G + 49)) % 60 < 60 := by omega
  -- the moved day exists
  have j9 := jdn_9999
  have m9 := jan1_mono ((yn : Int) + 1 + 1) 9999 (by omega) (by omega)
  have hday : (if (ec.day - (realEph.termDay G + 49)) % 60 > 0 then dayNext (ofJdn (realEph.termDay G)) ((ec.day - (realEph.termDay G + 49)) % 60)
      else some (ofJdn (realEph.termDay G))) = some (ofJdn (realEph.termDay G + (ec.day - (realEph.termDay G + 49)) % 60)) := by
    split
    · unfold dayNext
      rw [tjj]
      dsimp only
      have j1 : jdn 1 1 1 = 1721424 := by decide
      have m1 := jan1_mono 1 (yn : Int) (by omega) (by omega)
      obtain ⟨hv2, _⟩ := C01_jdn_ofJdn (realEph.termDay G + (ec.day - (realEph.termDay G + 49)) % 60) (by unfold jdnFirst; omega) (by omega)
      rw [C01_accept_iff]
      have : Civil.valid (ofJdn (realEph.termDay G + (ec.day - (realEph.termDay G + 49)) % 60)).1 (ofJdn (realEph.termDay G + (ec.day - (realEph.termDay G + 49)) % 60)).2.1
          (ofJdn (realEph.termDay G + (ec.day - (realEph.termDay G + 49)) % 60)).2.2 = true := hv2
      rw [this]; rfl
    · have : (ec.day - (realEph.termDay G + 49)) % 60 = 0 := by omega
      rw [this, Int.add_zero]
  unfold candidatesAt
  have c0 : ¬ ((24 * ((yn : Int) - 1) + 3 + (if (kn : Int) * 2 > 0 then (kn : Int) * 2 else 0)) < 0) := by rw [egm]; omega
  have cG : ¬ ((G : Int) < 0) := by omega
  simp only [c0, cG, if_false, egm, Int.toNat_natCast, hne, hr, hp, hd, hday]
  by_cases hc : (ofJdn (realEph.termDay G)).1 ≥ y0 - 1
  · rw [if_pos hc, if_pos hc]; rfl
  · simp only [hc, if_false]

/-- an instant built on a day number of the years ya..yb with an in-range clock is well formed -/
theorem mkTime_ok (j ya yb hour mi s : Int) (hya : 1 ≤ ya) (hab : ya ≤ yb) (hyb : yb ≤ 9998) (h1 : jdn ya 1 1 ≤ j) (h2 : j < jdn (yb + 1) 1 1)
    (hh : 0 ≤ hour ∧ hour ≤ 23) (hm : 0 ≤ mi ∧ mi ≤ 59) (hs : 0 ≤ s ∧ s ≤ 59) :
    TimeOK (mkTime j hour mi s) ∧ ya ≤ (mkTime j hour mi s).1 ∧ (mkTime j hour mi s).1 ≤ yb ∧
      jdn (mkTime j hour mi s).1 (mkTime j hour mi s).2.1 (mkTime j hour mi s).2.2.1 = j := by
  obtain ⟨v, e, y1, y2⟩ := jdn_year_range j ya yb hya hab hyb h1 h2
  exact ⟨⟨v, hh, hm, hs⟩, y1, y2, e⟩

/-- every candidate of one step is a well-formed instant of the years y .. y+2 -/
theorem candidatesAt_ok (ec : EightChar) (k : Int) (hk : 0 ≤ k ∧ k ≤ 11) (hours : List Int) (hh : ∀ x ∈ hours, 0 ≤ x ∧ x ≤ 23)
    (y0 y : Int) (hy : 242 ≤ y ∧ y ≤ 9995) :
    ∃ l, candidatesAt realEph ec (k * 2) hours y0 y = some l ∧ ∀ c ∈ l, TimeOK c ∧ 242 ≤ c.1 ∧ c.1 ≤ 9997 := by
  obtain ⟨e, b1, b2⟩ := candidatesAt_eq ec k hk hours y0 y hy
  refine ⟨_, e, ?_⟩
  intro c hc
  split at hc
  · simp only [List.mem_map] at hc
    obtain ⟨hour, hin, hce⟩ := hc
    have hhr := hh hour hin
    have sb := termSod_bounds (24 * (y - 1) + 3 + 2 * k).toNat (by omega) (by omega)
    have js1 := jan1_step (y + 1) (by omega)
    have js2 := jan1_step (y + 1 + 1) (by omega)
    have hj2 : realEph.termDay (24 * (y - 1) + 3 + 2 * k).toNat + (ec.day - (realEph.termDay (24 * (y - 1) + 3 + 2 * k).toNat + 49)) % 60 <
        jdn (y + 2 + 1) 1 1 := by
      have e3 : y + 1 + 1 + 1 = y + 2 + 1 := by omega
      rw [e3] at js2
      omega
    split at hce
    · obtain ⟨o1, o2, o3, _⟩ := mkTime_ok (realEph.termDay (24 * (y - 1) + 3 + 2 * k).toNat + (ec.day - (realEph.termDay (24 * (y - 1) + 3 + 2 * k).toNat + 49)) % 60)
        y (y + 2) hour (realEph.termSod (24 * (y - 1) + 3 + 2 * k).toNat % 3600 / 60) (realEph.termSod (24 * (y - 1) + 3 + 2 * k).toNat % 60)
        (by omega) (by omega) (by omega) (by omega) hj2 hhr (by omega) (by omega)
      rw [← hce]; exact ⟨o1, by omega, by omega⟩
    · obtain ⟨o1, o2, o3, _⟩ := mkTime_ok (realEph.termDay (24 * (y - 1) + 3 + 2 * k).toNat + (ec.day - (realEph.termDay (24 * (y - 1) + 3 + 2 * k).toNat + 49)) % 60)
        y (y + 2) hour 0 0 (by omega) (by omega) (by omega) (by omega) hj2 hhr (by omega) (by omega)
      rw [← hce]; exact ⟨o1, by omega, by omega⟩
  · simp at hc

/-- the 60-year loop: it returns when every step does; its result keeps every step's candidates and nothing else -/
theorem loopYears_spec (ec : EightChar) (m : Int) (hours : List Int) (y0 y1 ylo : Int) (Q : EC.Time → Prop)
    (hstep : ∀ y, ylo ≤ y → y ≤ y1 → ∃ l, candidatesAt realEph ec m hours y0 y = some l ∧ ∀ c ∈ l, Q c) :
    ∀ (f : Nat) (y : Int), ylo ≤ y → ∃ L, loopYears realEph ec m hours y0 y1 f y = some L ∧ (∀ c ∈ L, Q c) ∧
      ∀ j : Nat, j < f → y + 60 * (j : Int) ≤ y1 → ∀ l, candidatesAt realEph ec m hours y0 (y + 60 * (j : Int)) = some l → ∀ c ∈ l, c ∈ L := by
  intro f
  induction f with
  | zero => intro y _; exact ⟨[], rfl, by simp, by intro j hj; omega⟩
  | succ f ih =>
    intro y hylo
    by_cases hle : y ≤ y1
    · obtain ⟨l, hl, hq⟩ := hstep y hylo hle
      obtain ⟨r, hr, rq, rm⟩ := ih (y + 60) (by omega)
      refine ⟨l ++ r, ?_, ?_, ?_⟩
      · simp only [loopYears, hle, if_true, hl, hr]
      · intro c hc
        rcases List.mem_append.1 hc with h | h
        · exact hq c h
        · exact rq c h
      · intro j hj hjy l' hl' c hc
        cases j with
        | zero =>
          simp only [Int.natCast_zero, Int.mul_zero, Int.add_zero] at hl'
          rw [hl] at hl'
          simp only [Option.some.injEq] at hl'
          subst hl'
          exact List.mem_append_left _ hc
        | succ j =>
          have e : y + 60 * ((j + 1 : Nat) : Int) = y + 60 + 60 * (j : Int) := by omega
          rw [e] at hjy hl'
          exact List.mem_append_right _ (rm j (by omega) hjy l' hl' c hc)
    · refine ⟨[], ?_, by simp, ?_⟩
      · simp only [loopYears, hle, if_false]
      · intro j hj hjy; omega

/-- the verification pass returns when every candidate's own conversion does, and keeps every verified candidate -/
theorem filterM'_total (f : EC.Time → Option Bool) : ∀ (l : List EC.Time), (∀ c ∈ l, ∃ b, f c = some b) →
    ∃ r, filterM' f l = some r ∧ ∀ c ∈ l, f c = some true → c ∈ r := by
  intro l
  induction l with
  | nil => intro _; exact ⟨[], rfl, by simp⟩
  | cons x xs ih =>
    intro h
    obtain ⟨b, hb⟩ := h x List.mem_cons_self
    obtain ⟨r, hr, hm⟩ := ih (fun c hc => h c (List.mem_cons_of_mem _ hc))
    refine ⟨if b then x :: r else r, by simp only [filterM', hb, hr], ?_⟩
    intro c hc ht
    rcases List.mem_cons.1 hc with rfl | hc'
    · rw [hb] at ht
      simp only [Option.some.injEq] at ht
      subst ht
      simp
    · have := hm c hc' ht
      cases b <;> simp [this]

set_option maxHeartbeats 1600000 in
/-- COMPLETENESS of `EightChar::get_solar_times` on the current tree's data (searches inside AD 243..9995): if an instant t
of the searched range has the eight characters ec and no Jie instant falls inside t's double-hour, then the search
RETURNS (no refusal) and its result contains an instant of that same double-hour. Together with `C09_sound` (every
returned instant has the characters): the result meets every double-hour throughout which the characters hold. -/
theorem C09_complete_real (t : EC.Time) (ec : EightChar) (y0 y1 : Int) (ht : TimeOK t)
    (hy0 : 243 ≤ y0) (hy1 : y1 ≤ 9995) (h0 : y0 ≤ t.1) (h1 : t.1 ≤ y1)
    (hec : EC.ofTime realEph t = some ec)
    (hJ : ∀ g : Nat, g % 2 = 1 → ¬ (doubleHourStart t ≤ realEph.termSec g ∧ realEph.termSec g < doubleHourStart t + 7200)) :
    ∃ l r, solarTimes realEph ec y0 y1 = some l ∧ r ∈ l ∧ doubleHourStart r = doubleHourStart t := by
  -- 1. the view of t
  unfold EC.ofTime at hec
  cases hv : ofSolarTime realEph t.1 t.2.1 t.2.2.1 t.2.2.2.1 t.2.2.2.2.1 t.2.2.2.2.2 with
  | none => simp [hv] at hec
  | some v =>
    simp only [hv, Option.map_some, Option.some.injEq] at hec
    obtain ⟨g, g1, g2, g3, g4, gb1, gb2, ay, am0, am1, am12, am10, ad, ah0, ah1, ah12, ah10⟩ := C09_view_chars t ht (by omega) (by omega) v hv
    have ey : ec.year = v.year := by rw [← hec]
    have em : ec.month = v.month := by rw [← hec]
    have ed : ec.day = v.day := by rw [← hec]
    have eh : ec.hour = v.hour := by rw [← hec]
    obtain ⟨qt, wt1, wt2⟩ := dh_number t ht
    -- 2. the Jie of t's month
    generalize hk : (((g : Int) - 3) % 24) / 2 = k at *
    generalize hYs : ((g : Int) - 3) / 24 + 1 = Ys at *
    have hk0 : 0 ≤ k ∧ k ≤ 11 := by omega
    have hYs1 : t.1 - 1 ≤ Ys ∧ Ys ≤ t.1 := by omega
    have hJidx : (24 * (Ys - 1) + 3 + 2 * k).toNat = 2 * ((g - 1) / 2) + 1 := by omega
    generalize hb : ((t.2.2.2.1 + 1) / 2) % 12 = b at *
    have hb0 : 0 ≤ b ∧ b ≤ 11 := by omega
    generalize hP : pillarDay t = P at *
    -- 3. the candidates of the step Ys
    obtain ⟨ce, cb1, cb2⟩ := candidatesAt_eq ec k hk0 (if ec.hour % 12 * 2 = 0 then [0, 23] else [ec.hour % 12 * 2]) y0 Ys (by omega)
    rw [hJidx] at ce cb1 cb2
    generalize hJn : 2 * ((g - 1) / 2) + 1 = J at *
    have hJodd : J % 2 = 1 := by omega
    have hJg : J ≤ g ∧ g ≤ J + 1 := by omega
    have sJ := termSod_bounds J (by omega) (by omega)
    have esJ : realEph.termSec J = 86400 * realEph.termDay J + realEph.termSod J := rfl
    have leJ := termSec_le J g (by omega) hJg.1 (by omega)
    have leJ2 := termSec_le (g + 1) (J + 2) (by omega) (by omega) (by omega)
    have inc1 := realEph_termInc J (by omega) (by omega)
    have inc2 := realEph_termInc (J + 1) (by omega) (by omega)
    have hsec : secOf t = 86400 * jdn t.1 t.2.1 t.2.2.1 + 3600 * t.2.2.2.1 + 60 * t.2.2.2.2.1 + t.2.2.2.2.2 := rfl
    obtain ⟨_, hh, hmi, hs⟩ := ht
    have hPj : jdn t.1 t.2.1 t.2.2.1 ≤ P ∧ P ≤ jdn t.1 t.2.1 t.2.2.1 + 1 := by
      rw [← hP]; unfold pillarDay; split <;> omega
    have hPtd : 0 ≤ P - realEph.termDay J ∧ P - realEph.termDay J ≤ 33 := by
      have e3 : J + 1 + 1 = J + 2 := rfl
      rw [e3] at inc2
      omega
    have hd : (ec.day - (realEph.termDay J + 49)) % 60 = P - realEph.termDay J := by
      rw [ed, ad]; omega
    rw [hd] at ce
    have etd : realEph.termDay J + (P - realEph.termDay J) = P := by omega
    rw [etd] at ce
    have hh0 : ec.hour % 12 * 2 = 2 * b := by rw [eh, ah12]; omega
    rw [hh0] at ce
    -- the year of the Jie day
    obtain ⟨tdv, _, tdy1, _⟩ := jdn_year_range (realEph.termDay J) Ys (Ys + 1) (by omega) (by omega) (by omega) (by omega) (by
      have := jan1_step (Ys + 1) (by omega); omega)
    have hcond : (ofJdn (realEph.termDay J)).1 ≥ y0 - 1 := by omega
    rw [if_pos hcond] at ce
    -- the special case (candidate carrying the Jie's minute and second) cannot be the one at hour 2b
    have hnsp : ¬ (P - realEph.termDay J = 0 ∧ 2 * b = realEph.termSod J / 3600) := by
      intro hsp
      refine hJ J hJodd ⟨?_, ?_⟩
      · unfold doubleHourStart; rw [qt]; omega
      · unfold doubleHourStart; rw [qt]; omega
    -- 4. our candidate
    have j1 : jdn 1 1 1 = 1721424 := by decide
    have yb := year_bounds t.1 t.2.1 t.2.2.1 (by assumption)
    have jsT := jan1_step (t.1 + 1) (by omega)
    obtain ⟨rok, ry1, ry2, rj⟩ := mkTime_ok P t.1 (t.1 + 1) (2 * b) 0 0 (by omega) (by omega) (by omega) (by omega) (by omega)
      (by omega) (by omega) (by omega)
    have rmem : mkTime P (2 * b) 0 0 ∈ (if 2 * b = 0 then [0, 23] else [2 * b]).map (fun hour =>
        if P - realEph.termDay J = 0 ∧ hour = realEph.termSod J / 3600 then
          mkTime P hour (realEph.termSod J % 3600 / 60) (realEph.termSod J % 60)
        else mkTime P hour 0 0) := by
      apply List.mem_map.2
      refine ⟨2 * b, ?_, ?_⟩
      · split
        · rename_i h2b; rw [h2b]; simp
        · simp
      · rw [if_neg hnsp]
    -- same double-hour
    have rdh : doubleHourStart (mkTime P (2 * b) 0 0) = doubleHourStart t := by
      obtain ⟨qr, _, _⟩ := dh_number _ rok
      have hpr : pillarDay (mkTime P (2 * b) 0 0) = P := by
        unfold pillarDay
        have e23 : ¬ ((mkTime P (2 * b) 0 0).2.2.2.1 = 23) := by
          show ¬ (2 * b = 23); omega
        rw [if_neg e23, rj]; omega
      have hbr : (((mkTime P (2 * b) 0 0).2.2.2.1 + 1) / 2) % 12 = b := by
        show ((2 * b + 1) / 2) % 12 = b; omega
      rw [hpr, hbr] at qr
      unfold doubleHourStart
      rw [qr, qt]
    -- its own view equals t's
    obtain ⟨_, _, _, _, t5⟩ := C02_good_intervals
    obtain ⟨w, hw⟩ := C08_time_total 240 9998 (by omega) (by omega) (by omega) t5 _ _ _ _ _ _ rok.1 rok.2.1 rok.2.2.1 rok.2.2.2 (by omega) (by omega)
    obtain ⟨v1, v2, v3, v4⟩ := C09_same_double_hour t (mkTime P (2 * b) 0 0) ⟨by assumption, hh, hmi, hs⟩ rok (by omega) (by omega) (by omega) (by omega) v w hv hw rdh hJ
    have rver : verify realEph ec y0 (mkTime P (2 * b) 0 0) = some true := by
      unfold verify
      have : (mkTime P (2 * b) 0 0).1 ≥ y0 := by omega
      rw [if_pos this]
      unfold EC.ofTime
      rw [hw]
      simp only [Option.map_some, Option.some.injEq, decide_eq_true_eq]
      rw [← hec, ← v1, ← v2, ← v3, ← v4]
    -- 5. the whole search
    unfold solarTimes candidates
    have e1 : indexOf (ec.month % 12 - 2) 12 = k := by rw [indexOf_12, em]; omega
    have e2 : ¬ (indexOf ((ec.year % 10 + 1) * 2 + k) 10 ≠ ec.month % 10) := by
      rw [indexOf_10, em, ey]; omega
    simp only [e1, e2, if_false]
    -- where the 60-year stride starts
    have eys : cycNext ec.year (-57) + 1 = (v.year - 57) % 60 + 1 := by unfold cycNext; rw [indexOf_60, ey]; omega
    rw [eys]
    have hgt : y0 - 1 > (v.year - 57) % 60 + 1 := by omega
    rw [if_pos hgt]
    unfold ceilDiv60
    generalize hst : (v.year - 57) % 60 + 1 + 60 * ((y0 - 1 - ((v.year - 57) % 60 + 1) + 59) / 60) = ystart
    have hst1 : 242 ≤ ystart := by omega
    have hjex : ∃ j : Nat, Ys = ystart + 60 * (j : Int) ∧ j < ((y1 - ystart) / 60 + 2).toNat := by
      refine ⟨((Ys - ystart) / 60).toNat, ?_, ?_⟩ <;> omega
    obtain ⟨j, hj1, hj2⟩ := hjex
    have hoursOK : ∀ x ∈ (if ec.hour % 12 * 2 = 0 then [0, 23] else [ec.hour % 12 * 2]), 0 ≤ x ∧ x ≤ 23 := by
      intro x hx
      rw [hh0] at hx
      split at hx
      · simp at hx; omega
      · simp at hx; omega
    obtain ⟨L, hL, hLQ, hLm⟩ := loopYears_spec ec (k * 2) (if ec.hour % 12 * 2 = 0 then [0, 23] else [ec.hour % 12 * 2]) y0 y1 242
      (fun c => TimeOK c ∧ 242 ≤ c.1 ∧ c.1 ≤ 9997)
      (fun y hy1' hy2' => candidatesAt_ok ec k hk0 _ hoursOK y0 y ⟨hy1', by omega⟩)
      ((y1 - ystart) / 60 + 2).toNat ystart hst1
    rw [hL]
    rw [hh0] at hLm
    dsimp only
    obtain ⟨R, hR, hRm⟩ := filterM'_total (verify realEph ec y0) L (by
      intro c hc
      obtain ⟨cok, cy1, cy2⟩ := hLQ c hc
      unfold verify
      split
      · obtain ⟨w', hw'⟩ := C08_time_total 240 9998 (by omega) (by omega) (by omega) t5 _ _ _ _ _ _ cok.1 cok.2.1 cok.2.2.1 cok.2.2.2 (by omega) (by omega)
        unfold EC.ofTime
        rw [hw']
        exact ⟨_, rfl⟩
      · exact ⟨false, rfl⟩)
    refine ⟨R, mkTime P (2 * b) 0 0, hR, ?_, rdh⟩
    apply hRm _ _ rver
    have hYsle : ystart + 60 * (j : Int) ≤ y1 := by omega
    rw [hj1] at ce
    exact hLm j hj2 hYsle _ ce _ rmem

end Tyme

namespace Tyme
open EC Lunar
/-- The eight characters as the code reaches them from an instant (`SolarTime::get_lunar_hour().get_eight_char()`: civil
date → lunar date → civil date again → pillars of the instant) ARE the pillars of the instant, for every date on which the
lunar round trip is the identity — all years but the neighbourhoods of the five D4 junction years (C02_roundtrip_real). -/
theorem C09_via_lunar_real (t : EC.Time) (hv : Civil.valid t.1 t.2.1 t.2.2.1 = true)
    (hy : (1 ≤ t.1 ∧ t.1 ≤ 6) ∨ (10 ≤ t.1 ∧ t.1 ≤ 21) ∨ (26 ≤ t.1 ∧ t.1 ≤ 234) ∨ (241 ≤ t.1 ∧ t.1 ≤ 9997)) :
    ofTimeViaLunar realEph t = EC.ofTime realEph t := by
  obtain ⟨r, h1, _, _, _, _, h2, _⟩ := C02_roundtrip_real t.1 t.2.1 t.2.2.1 hv hy
  unfold ofTimeViaLunar
  rw [h1]
  obtain ⟨x, k⟩ := r
  dsimp only at h2 ⊢
  rw [h2]
end Tyme

namespace Tyme
open EC
/-- non-vacuity: 2024-02-10 14:30:00 is a well-formed instant of the range whose double-hour (13:00–15:00) holds no Jie -/
example : TimeOK ((2024, 2, 10, 14, 30, 0) : EC.Time) := by
  refine ⟨by decide, ?_, ?_, ?_⟩ <;> decide
end Tyme
