import Tyme.Facts.Terms
import Tyme.Model.Term
import Tyme.Lemmas.Jd
/-!
C06 — every day belongs to exactly one solar term. Property theorems only (`C06_*`).
Data: `realEph` term table re-extracted from /repo on every run (240,000 terms of years 1..10000, the civil day and
second of each precise instant as the library reports them). Model: `Term.next`, `Term.ofDay`, `Term.ofTime`
(SolarTerm::next, SolarDay::get_term_day, SolarTime::get_term after the `fix:` D6).
-/
namespace Tyme
open Term

/-- TABLE FACT (complete enumeration of 240,000 records): successive terms form one strictly increasing
sequence of instants 14.6–15.8 days apart (1,261,440 s … 1,365,120 s), their civil days 14–16 apart. -/
theorem C06_inc_fact : Packed.adjRec 72 termPair Gen.termsChunks = true := terms_inc_fact

/-- the same as a statement about the extracted ephemeris, for every representable adjacent pair -/
theorem C06_termInc (g : Nat) (h1 : 1 ≤ g) (h2 : g + 1 ≤ 239977) :
    realEph.termSec g + 1261440 ≤ realEph.termSec (g + 1) ∧ realEph.termSec (g + 1) ≤ realEph.termSec g + 1365120 ∧
    realEph.termDay g + 14 ≤ realEph.termDay (g + 1) ∧ realEph.termDay (g + 1) ≤ realEph.termDay g + 16 ∧
    0 ≤ realEph.termSod g ∧ realEph.termSod g < 86400 := realEph_termInc g h1 h2

/-- the helper `index_of` (truncating `%` plus repair) is the mathematical modulo (size 24) -/
theorem C06_indexOf (i : Int) : indexOf i 24 = i % 24 := by
  unfold indexOf
  have e := Int.mul_tdiv_add_tmod i 24
  have b1 := Int.tmod_lt_of_pos i (show (0 : Int) < 24 by decide)
  have b2 := Int.lt_tmod_of_pos i (show (0 : Int) < 24 by decide)
  rcases Int.le_total 0 i with hv | hv
  · have := Int.tmod_nonneg 24 hv
    dsimp only; split <;> omega
  · have hneg : Int.tmod i 24 ≤ 0 := by
      have h := Int.tmod_nonneg (a := -i) 24 (by omega)
      rw [Int.neg_tmod] at h; omega
    dsimp only; split <;> omega

/-- `next n` is the term n places later on the global sequence, crossing years in either direction
(all n with a non-negative total, i.e. results in year ≥ 0). -/
theorem C06_next_pos (y i n : Int) (hi : 0 ≤ i) (hi2 : i < 24) (ht : 0 ≤ y * 24 + i + n) :
    gidx (next (y, i) n) = gidx (y, i) + n ∧ 0 ≤ (next (y, i) n).2 ∧ (next (y, i) n).2 < 24 := by
  unfold next fromIndex gidx
  dsimp only
  rw [C06_indexOf]
  have h1 : Int.tdiv (y * 24 + (i + n)) 24 = (y * 24 + (i + n)) / 24 := Int.tdiv_eq_ediv_of_nonneg (by omega)
  rw [h1]
  have h2 : 0 ≤ (y * 24 + (i + n)) / 24 * 24 + (i + n) % 24 := by omega
  rw [Int.tdiv_eq_ediv_of_nonneg h2, C06_indexOf]
  omega

/-- group laws of stepping (corollaries) -/
theorem C06_next_add (y i a b : Int) (hi : 0 ≤ i) (hi2 : i < 24) (h1 : 0 ≤ y * 24 + i + a) (h2 : 0 ≤ y * 24 + i + a + b) :
    next (next (y, i) a) b = next (y, i) (a + b) := by
  obtain ⟨p1, q1, r1⟩ := C06_next_pos y i a hi hi2 h1
  have e : next (y, i) a = ((next (y, i) a).1, (next (y, i) a).2) := rfl
  obtain ⟨p2, q2, r2⟩ := C06_next_pos (next (y, i) a).1 (next (y, i) a).2 b q1 r1 (by unfold gidx at p1; dsimp only at p1; omega)
  obtain ⟨p3, q3, r3⟩ := C06_next_pos y i (a + b) hi hi2 (by omega)
  rw [← e] at p2 q2 r2
  unfold gidx at p1 p2 p3
  dsimp only at p1 p2 p3
  apply Prod.ext <;> omega

theorem C06_next_zero (y i : Int) (hi : 0 ≤ i) (hi2 : i < 24) (hy : 0 ≤ y) : next (y, i) 0 = (y, i) := by
  obtain ⟨p, q, r⟩ := C06_next_pos y i 0 hi hi2 (by omega)
  unfold gidx at p; dsimp only at p
  apply Prod.ext <;> (dsimp only; omega)

/-- day → term (partial correctness): whatever `get_term_day` returns is a term that starts on or before
the day, the next term (if representable) starts after it, and the day index is the number of days elapsed. -/
theorem C06_ofDay_spec (E : Eph) (Y M D : Int) (g : Nat) (k : Int) (h : ofDay E Y M D = some (g, k)) :
    E.termDay g ≠ 0 ∧ E.termDay g ≤ jdn Y M D ∧ (E.termDay (g + 1) = 0 ∨ jdn Y M D < E.termDay (g + 1)) ∧
    k = jdn Y M D - E.termDay g ∧ 0 ≤ k := by
  have hb : ∀ f g0 j r, backT E f g0 j = some r → E.termDay r ≠ 0 ∧ E.termDay r ≤ j := by
    intro f
    induction f with
    | zero => intro g0 j r h; simp [backT] at h
    | succ f ih =>
      intro g0 j r h
      simp only [backT] at h
      split at h
      · simp at h
      · split at h
        · split at h
          · simp at h
          · exact ih _ _ _ h
        · simp only [Option.some.injEq] at h; subst h
          rename_i h1 h2
          exact ⟨h1, by omega⟩
  have hf : ∀ f g0 j r, E.termDay g0 ≠ 0 → E.termDay g0 ≤ j → fwdT E f g0 j = some r →
      E.termDay r ≠ 0 ∧ E.termDay r ≤ j ∧ (E.termDay (r + 1) = 0 ∨ j < E.termDay (r + 1)) := by
    intro f
    induction f with
    | zero => intro g0 j r _ _ h; simp [fwdT] at h
    | succ f ih =>
      intro g0 j r hn hle h
      simp only [fwdT] at h
      split at h
      · simp only [Option.some.injEq] at h; subst h
        rename_i h1; exact ⟨hn, hle, Or.inl h1⟩
      · split at h
        · simp only [Option.some.injEq] at h; subst h
          rename_i h1 h2; exact ⟨hn, hle, Or.inr h2⟩
        · rename_i h1 h2
          exact ih _ _ _ h1 (by omega) h
  unfold ofDay at h
  dsimp only at h
  split at h
  · simp at h
  · cases h1 : backT E FUEL (24 * (Y - 1) + 2 * M).toNat (jdn Y M D) with
    | none => simp [h1] at h
    | some g1 =>
      simp only [h1] at h
      obtain ⟨a1, a2⟩ := hb _ _ _ _ h1
      cases h2 : fwdT E FUEL g1 (jdn Y M D) with
      | none => simp [h2] at h
      | some g2 =>
        simp only [h2, Option.some.injEq, Prod.mk.injEq] at h
        obtain ⟨b1, b2, b3⟩ := hf _ _ _ _ a1 a2 h2
        obtain ⟨e1, e2⟩ := h
        subst e1; subst e2
        exact ⟨b1, b2, b3, rfl, by omega⟩

/-- …and on the current tree's data that term is the LATEST one starting on or before the day, and the
day index is at most 15 (term days start at index 0 and never exceed 16). -/
theorem C06_ofDay_latest (Y M D : Int) (g : Nat) (k : Int) (h : ofDay realEph Y M D = some (g, k))
    (hg : g + 1 ≤ 239977) :
    (∀ g', g < g' → g' ≤ 239977 → jdn Y M D < realEph.termDay g') ∧ k ≤ 15 := by
  obtain ⟨a1, a2, a3, a4, a5⟩ := C06_ofDay_spec realEph Y M D g k h
  have hg1 : 1 ≤ g := by
    by_cases h0 : g = 0
    · exfalso; subst h0
      exact a1 ((realEph_term_repr 0 (by omega)).2 (Or.inl rfl))
    · omega
  have hn : jdn Y M D < realEph.termDay (g + 1) := by
    rcases a3 with h3 | h3
    · exfalso
      have := (realEph_term_repr (g + 1) (by omega)).1 h3
      omega
    · exact h3
  have hinc := realEph_termInc g hg1 hg
  refine ⟨?_, by omega⟩
  intro g' hlt hle
  -- monotone chain from g+1 up to g'
  have mono : ∀ d : Nat, g + 1 + d ≤ 239977 → realEph.termDay (g + 1) ≤ realEph.termDay (g + 1 + d) := by
    intro d
    induction d with
    | zero => intro _; exact Int.le_refl _
    | succ d ih =>
      intro hd
      have := ih (by omega)
      have := realEph_termInc (g + 1 + d) (by omega) (by omega)
      have e : g + 1 + (d + 1) = g + 1 + d + 1 := by omega
      rw [e]; omega
  have := mono (g' - (g + 1)) (by omega)
  have e : g + 1 + (g' - (g + 1)) = g' := by omega
  rw [e] at this
  omega

/-- non-vacuity on the real data: 2024-02-04 is the first day of Lichun (term 3 of 2024). -/
example : ofDay realEph 2024 2 4 = some (24 * 2023 + 3, 0) := by decide +kernel

end Tyme
