import Tyme.Lemmas.ChildLimit
import Tyme.Spec.ChildLimit
import Tyme.Thm.C02
import Tyme.Thm.C08
import Tyme.Thm.C12
/-!
C16 — child limit and fortunes follow from birth instant, gender and the governing Jie. Property theorems (`C16_*`).
Model: `CL.fromSolarTime` (ChildLimit::from_solar_time), `CL.addNext` (AbstractChildLimitProvider::next), the four
count functions, `CL.dec*` / `CL.fort*` (DecadeFortune / Fortune). Data: `realEph` (term instants re-extracted from
/repo on every run; the term-gap fact `realEph_termInc` is kernel-checked over all 240,000 terms).

KNOWN DEFECT D22 (not repaired): the day-overflow walk of `next` counts October 1582 as 21 days numbered 1..21.
`C16_end_partial` therefore excludes exactly the ends that stop in October 1582 on a day number ≥ 5 (and
`C16_end_sum` also the target month October 1582 with a birth-day label ≥ 5; `C16_end_sum_oct_label` gives back the
one sub-case where the code is right; `C16_end_oct1582` says what happens in the excluded case); `C16_end_full` is
the statement without the exclusion and is refuted in Tyme/Findings/C16.lean.
-/
namespace Tyme
open CL

/-! ## 1. Direction -/

/-- luck runs forward exactly for Yang-year men and Yin-year women (Yang ⇔ the year stem `p mod 10` is even) -/
theorem C16_direction (p : Int) (man : Bool) :
    forward p man = true ↔ ((p % 10 % 2 = 0 ∧ man = true) ∨ (p % 10 % 2 = 1 ∧ man = false)) := by
  unfold forward
  cases man <;> simp <;> omega

/-- the model's direction test is the spec's -/
theorem C16_direction_spec (p : Int) (man : Bool) : forward p man = CLSpec.forward (p % 10) man := by
  unfold forward CLSpec.forward
  have h : p % 10 % 2 = 0 ∨ p % 10 % 2 = 1 := by omega
  rcases h with h | h <;> cases man <;> simp [h]

example : forward 0 true = true ∧ forward 0 false = false ∧ forward 1 true = false ∧ forward 1 false = true := by decide

/-! ## 2. The governing Jie -/

/-- instant → term (partial correctness, any ephemeris): what `get_term` returns starts at or before the instant
and the next term, if representable, starts after it -/
theorem C16_ofTime_spec (E : Eph) (Y M D h mi s : Int) (g : Nat) (hg : Term.ofTime E Y M D h mi s = some g) :
    E.termDay g ≠ 0 ∧ E.termSec g ≤ 86400 * jdn Y M D + 3600 * h + 60 * mi + s ∧
    (E.termDay (g + 1) = 0 ∨ 86400 * jdn Y M D + 3600 * h + 60 * mi + s < E.termSec (g + 1)) := by
  have hb : ∀ f g0 j r, Term.backS E f g0 j = some r → E.termDay r ≠ 0 ∧ E.termSec r ≤ j := by
    intro f
    induction f with
    | zero => intro g0 j r h; simp [Term.backS] at h
    | succ f ih =>
      intro g0 j r h
      simp only [Term.backS] at h
      split at h
      · simp at h
      · split at h
        · split at h
          · simp at h
          · exact ih _ _ _ h
        · simp only [Option.some.injEq] at h; subst h
          rename_i h1 h2
          exact ⟨h1, by omega⟩
  have hf : ∀ f g0 j r, E.termDay g0 ≠ 0 → E.termSec g0 ≤ j → Term.fwdS E f g0 j = some r →
      E.termDay r ≠ 0 ∧ E.termSec r ≤ j ∧ (E.termDay (r + 1) = 0 ∨ j < E.termSec (r + 1)) := by
    intro f
    induction f with
    | zero => intro g0 j r _ _ h; simp [Term.fwdS] at h
    | succ f ih =>
      intro g0 j r hn hle h
      simp only [Term.fwdS] at h
      split at h
      · simp only [Option.some.injEq] at h; subst h
        rename_i h1; exact ⟨hn, hle, Or.inl h1⟩
      · split at h
        · simp only [Option.some.injEq] at h; subst h
          rename_i h1 h2; exact ⟨hn, hle, Or.inr h2⟩
        · rename_i h1 h2
          exact ih _ _ _ h1 (by omega) h
  unfold Term.ofTime at hg
  dsimp only at hg
  split at hg
  · simp at hg
  · cases h1 : Term.backS E Term.FUEL (24 * (Y - 1) + 2 * M).toNat (86400 * jdn Y M D + 3600 * h + 60 * mi + s) with
    | none => simp [h1] at hg
    | some g1 =>
      simp only [h1] at hg
      obtain ⟨a1, a2⟩ := hb _ _ _ _ h1
      exact hf _ _ _ _ a1 a2 hg

private theorem gov_aux (y i : Int) (fwd : Bool) (h1 : 0 ≤ i) (h2 : i < 24) (hpos : 1 ≤ y * 24 + i) :
    Term.gidx (if fwd then Term.next (if !Term.isJie (y, i) then Term.next (y, i) (-1) else (y, i)) 2
               else (if !Term.isJie (y, i) then Term.next (y, i) (-1) else (y, i)))
      = Term.gidx (y, i) - (if i % 2 = 1 then 0 else 1) + (if fwd then 2 else 0) ∧
    Term.isJie (if fwd then Term.next (if !Term.isJie (y, i) then Term.next (y, i) (-1) else (y, i)) 2
               else (if !Term.isJie (y, i) then Term.next (y, i) (-1) else (y, i))) = true := by
  have key : ∀ (y i n : Int), 0 ≤ i → i < 24 → 0 ≤ y * 24 + i + n →
      Term.gidx (Term.next (y, i) n) = Term.gidx (y, i) + n ∧ (Term.next (y, i) n).2 % 2 = (i + n) % 2 ∧
      0 ≤ (Term.next (y, i) n).2 ∧ (Term.next (y, i) n).2 < 24 := by
    intro y i n h1 h2 h3
    obtain ⟨a, b, c⟩ := C06_next_pos y i n h1 h2 h3
    refine ⟨a, ?_, b, c⟩
    unfold Term.gidx at a
    dsimp only at a
    omega
  have jie : ∀ t : Int × Int, t.2 % 2 = 1 → Term.isJie t = true := by
    intro t h; unfold Term.isJie; simp [h]
  have njie : ∀ t : Int × Int, t.2 % 2 = 0 → Term.isJie t = false := by
    intro t h; unfold Term.isJie; simp [h]
  -- the Jie at or before
  have hb : Term.gidx (if !Term.isJie (y, i) then Term.next (y, i) (-1) else (y, i)) = Term.gidx (y, i) - (if i % 2 = 1 then 0 else 1) ∧
      (if !Term.isJie (y, i) then Term.next (y, i) (-1) else (y, i)).2 % 2 = 1 ∧
      0 ≤ (if !Term.isJie (y, i) then Term.next (y, i) (-1) else (y, i)).2 ∧
      (if !Term.isJie (y, i) then Term.next (y, i) (-1) else (y, i)).2 < 24 := by
    by_cases hp : i % 2 = 1
    · rw [jie (y, i) hp]
      simp only [Bool.not_true, Bool.false_eq_true, if_false, hp, if_true]
      exact ⟨by omega, trivial, h1, h2⟩
    · rw [njie (y, i) (by dsimp only; omega)]
      simp only [Bool.not_false, if_true, hp, if_false]
      obtain ⟨a, b, c, d⟩ := key y i (-1) h1 h2 (by omega)
      exact ⟨by omega, by omega, c, d⟩
  generalize (if !Term.isJie (y, i) then Term.next (y, i) (-1) else (y, i)) = t1 at hb ⊢
  obtain ⟨hb1, hb2, hb3, hb4⟩ := hb
  cases fwd
  · simp only [Bool.false_eq_true, if_false]
    exact ⟨by omega, jie t1 hb2⟩
  · simp only [if_true]
    have et : t1 = (t1.1, t1.2) := rfl
    have hg : Term.gidx t1 = 24 * (t1.1 - 1) + t1.2 := rfl
    have hg0 : Term.gidx (y, i) = 24 * (y - 1) + i := rfl
    obtain ⟨a, b, c, d⟩ := key t1.1 t1.2 2 hb3 hb4 (by split at hb1 <;> omega)
    rw [← et] at a b
    exact ⟨by omega, jie _ (by omega)⟩

/-- the governing term is a Jie: the term of the instant stepped back to a Jie if it is a Qi, two further if forward -/
theorem C16_governing (g : Nat) (fwd : Bool) (hg : 1 ≤ g) :
    Term.gidx (governing g fwd) = ((g : Int) - (if g % 2 = 1 then 0 else 1)) + (if fwd then 2 else 0) ∧
    Term.isJie (governing g fwd) = true := by
  have e0 : Term.ofGidx g = (((g / 24 : Nat) : Int) + 1, ((g % 24 : Nat) : Int)) := rfl
  obtain ⟨a, b⟩ := gov_aux (((g / 24 : Nat) : Int) + 1) ((g % 24 : Nat) : Int) fwd (by omega) (by omega) (by omega)
  have hg0 : Term.gidx ((((g / 24 : Nat) : Int) + 1, ((g % 24 : Nat) : Int))) = (g : Int) := by
    unfold Term.gidx; dsimp only; omega
  have hi : (if ((g % 24 : Nat) : Int) % 2 = 1 then (0 : Int) else 1) = (if g % 2 = 1 then 0 else 1) := by
    by_cases hp : g % 2 = 1
    · rw [if_pos hp, if_pos (by omega)]
    · rw [if_neg hp, if_neg (by omega)]
  unfold governing
  rw [e0]
  dsimp only
  rw [hg0, hi] at a
  exact ⟨a, b⟩

/-- On the current tree's term table: with `Gb` the Jie index "term of the instant, stepped back if it is a Qi",
Gb is the LATEST Jie at or before the birth instant, Gb + 2 is the NEXT Jie (strictly after it), the two are at most
2 × 15.8 days apart — so the span to the governing Jie (Gb backward, Gb + 2 forward) never exceeds 2,730,240 s. -/
theorem C16_governing_span (Y M D h mi s : Int) (g : Nat) (hg : Term.ofTime realEph Y M D h mi s = some g)
    (hr : g + 2 ≤ 239977) :
    let sec := 86400 * jdn Y M D + 3600 * h + 60 * mi + s
    let Gb := if g % 2 = 1 then g else g - 1
    1 ≤ Gb ∧ Gb % 2 = 1 ∧ realEph.termSec Gb ≤ sec ∧ sec < realEph.termSec (Gb + 2) ∧
    realEph.termSec (Gb + 2) ≤ realEph.termSec Gb + 2730240 := by
  obtain ⟨a1, a2, a3⟩ := C16_ofTime_spec realEph Y M D h mi s g hg
  have hg1 : 1 ≤ g := by
    by_cases h0 : g = 0
    · exfalso; subst h0
      exact a1 ((realEph_term_repr 0 (by omega)).2 (Or.inl rfl))
    · omega
  have hn : 86400 * jdn Y M D + 3600 * h + 60 * mi + s < realEph.termSec (g + 1) := by
    rcases a3 with h3 | h3
    · exfalso
      have := (realEph_term_repr (g + 1) (by omega)).1 h3
      omega
    · exact h3
  dsimp only
  by_cases hp : g % 2 = 1
  · simp only [hp, if_true]
    have i1 := realEph_termInc g hg1 (by omega)
    have i2 := realEph_termInc (g + 1) (by omega) (by omega)
    have e3 : g + 1 + 1 = g + 2 := rfl
    rw [e3] at i2
    refine ⟨hg1, trivial, a2, by omega, by omega⟩
  · simp only [hp, if_false]
    have i0 := realEph_termInc (g - 1) (by omega) (by omega)
    have e : g - 1 + 1 = g := by omega
    have e2 : g - 1 + 2 = g + 1 := by omega
    rw [e] at i0
    have i1 := realEph_termInc g hg1 (by omega)
    rw [e2]
    refine ⟨by omega, by omega, by omega, hn, by omega⟩

/-- non-vacuity on the real data: 2024-02-04 12:00:00 lies in Dahan (term 2 of 2024, a Qi); the governing Jie is
Xiaohan (2024, 1) backward and Lichun (2024, 3) forward -/
example : Term.ofTime realEph 2024 2 4 12 0 0 = some (24 * 2023 + 2) := by decide +kernel
example : governing (24 * 2023 + 2) true = (2024, 3) ∧ governing (24 * 2023 + 2) false = (2024, 1) := by decide

/-! ## 3. Span → counts, the four strategies -/

/-- Default: for every span s ≥ 0 the counts are the mixed-radix digits of s:
259200 s = 1 year, 21600 s = 1 month, 720 s = 1 day, 30 s = 1 hour, 1 s = 2 minutes -/
theorem C16_counts_default (s : Int) (hs : 0 ≤ s) :
    259200 * (countsDefault s).y + 21600 * (countsDefault s).mo + 720 * (countsDefault s).d + 30 * (countsDefault s).h
      + (countsDefault s).mi / 2 = s ∧
    0 ≤ (countsDefault s).y ∧ 0 ≤ (countsDefault s).mo ∧ (countsDefault s).mo < 12 ∧ 0 ≤ (countsDefault s).d ∧ (countsDefault s).d < 30 ∧
    0 ≤ (countsDefault s).h ∧ (countsDefault s).h < 24 ∧ 0 ≤ (countsDefault s).mi ∧ (countsDefault s).mi < 60 ∧ (countsDefault s).mi % 2 = 0 := by
  unfold countsDefault
  dsimp only
  refine ⟨?_, ?_, ?_, ?_, ?_, ?_, ?_, ?_, ?_, ?_, ?_⟩ <;> omega

theorem C16_counts_default_spec (s : Int) :
    ((countsDefault s).y, (countsDefault s).mo, (countsDefault s).d, (countsDefault s).h, (countsDefault s).mi) = CLSpec.digitsDefault s := by
  unfold countsDefault CLSpec.digitsDefault
  simp only [Prod.mk.injEq]
  have a1 : s / 21600 = 12 * (s / 259200) + s % 259200 / 21600 := by omega
  have a2 : s % 259200 % 21600 = s % 21600 := by omega
  have a3 : s / 720 = 30 * (s / 21600) + s % 21600 / 720 := by omega
  have a4 : s % 21600 % 720 = s % 720 := by omega
  have a5 : s / 30 = 24 * (s / 720) + s % 720 / 30 := by omega
  have a6 : s % 720 % 30 = s % 30 := by omega
  rw [a2, a4, a6]
  refine ⟨trivial, ?_, ?_, ?_, ?_⟩ <;> omega

/-- China95: whole minutes m = ⌊s/60⌋; 4320 min = 1 year, 360 min = 1 month, 12 min = 1 day; the rest is dropped -/
theorem C16_counts_china95 (s : Int) (hs : 0 ≤ s) :
    4320 * (countsChina95 s).y + 360 * (countsChina95 s).mo + 12 * (countsChina95 s).d ≤ s / 60 ∧
    s / 60 < 4320 * (countsChina95 s).y + 360 * (countsChina95 s).mo + 12 * (countsChina95 s).d + 12 ∧
    0 ≤ (countsChina95 s).y ∧ 0 ≤ (countsChina95 s).mo ∧ (countsChina95 s).mo < 12 ∧ 0 ≤ (countsChina95 s).d ∧ (countsChina95 s).d < 30 ∧
    (countsChina95 s).h = 0 ∧ (countsChina95 s).mi = 0 := by
  unfold countsChina95
  dsimp only
  refine ⟨?_, ?_, ?_, ?_, ?_, ?_, ?_, ?_, ?_⟩ <;> omega

theorem C16_counts_china95_spec (s : Int) :
    ((countsChina95 s).y, (countsChina95 s).mo, (countsChina95 s).d, (countsChina95 s).h, (countsChina95 s).mi) = CLSpec.digitsChina95 s := by
  unfold countsChina95 CLSpec.digitsChina95
  simp only [Prod.mk.injEq]
  generalize s / 60 = m
  have a1 : m / 360 = 12 * (m / 4320) + m % 4320 / 360 := by omega
  have a2 : m % 4320 % 360 = m % 360 := by omega
  have a3 : m / 12 = 30 * (m / 360) + m % 360 / 12 := by omega
  rw [a2]
  refine ⟨trivial, ?_, ?_, trivial⟩ <;> omega

/-- LunarSect2: whole minutes; as China95 plus 1 minute = 2 hours, exact on minutes -/
theorem C16_counts_sect2 (s : Int) (hs : 0 ≤ s) :
    4320 * (countsSect2 s).y + 360 * (countsSect2 s).mo + 12 * (countsSect2 s).d + (countsSect2 s).h / 2 = s / 60 ∧
    0 ≤ (countsSect2 s).y ∧ 0 ≤ (countsSect2 s).mo ∧ (countsSect2 s).mo < 12 ∧ 0 ≤ (countsSect2 s).d ∧ (countsSect2 s).d < 30 ∧
    0 ≤ (countsSect2 s).h ∧ (countsSect2 s).h < 24 ∧ (countsSect2 s).h % 2 = 0 ∧ (countsSect2 s).mi = 0 := by
  unfold countsSect2
  dsimp only
  refine ⟨?_, ?_, ?_, ?_, ?_, ?_, ?_, ?_, ?_, ?_⟩ <;> omega

theorem C16_counts_sect2_spec (s : Int) :
    ((countsSect2 s).y, (countsSect2 s).mo, (countsSect2 s).d, (countsSect2 s).h, (countsSect2 s).mi) = CLSpec.digitsSect2 s := by
  unfold countsSect2 CLSpec.digitsSect2
  simp only [Prod.mk.injEq]
  generalize s / 60 = m
  have a1 : m / 360 = 12 * (m / 4320) + m % 4320 / 360 := by omega
  have a2 : m % 4320 % 360 = m % 360 := by omega
  have a3 : m / 12 = 30 * (m / 360) + m % 360 / 12 := by omega
  have a4 : m % 360 % 12 = m % 12 := by omega
  rw [a2, a4]
  refine ⟨trivial, ?_, ?_, ?_, trivial⟩ <;> omega

/-- LunarSect1: with u = 12·(day difference) + (double-hour difference) ≥ 0 whole double-hours between the two
instants: 36 = 1 year, 3 = 1 month, 1 = 10 days (the isize divisions never see a negative operand) -/
theorem C16_counts_sect1 (si ei dd : Int) (h1 : 0 ≤ si) (h2 : si ≤ 11) (h3 : 0 ≤ ei) (h4 : ei ≤ 11)
    (hu : 0 ≤ 12 * dd + (ei - si)) :
    36 * (countsSect1 si ei dd).y + 3 * (countsSect1 si ei dd).mo + (countsSect1 si ei dd).d / 10 = 12 * dd + (ei - si) ∧
    0 ≤ (countsSect1 si ei dd).y ∧ 0 ≤ (countsSect1 si ei dd).mo ∧ (countsSect1 si ei dd).mo < 12 ∧
    0 ≤ (countsSect1 si ei dd).d ∧ (countsSect1 si ei dd).d ≤ 20 ∧ (countsSect1 si ei dd).d % 10 = 0 ∧
    (countsSect1 si ei dd).h = 0 ∧ (countsSect1 si ei dd).mi = 0 ∧
    ((countsSect1 si ei dd).y, (countsSect1 si ei dd).mo, (countsSect1 si ei dd).d, (countsSect1 si ei dd).h, (countsSect1 si ei dd).mi)
      = CLSpec.digitsSect1 (12 * dd + (ei - si)) := by
  -- normalise: hd in 0..11 and dd' ≥ 0 with 12·dd' + hd = u
  have key : ∀ hd d' : Int, 0 ≤ hd → hd ≤ 11 → 0 ≤ d' →
      let monthDiff := Int.tdiv (hd * 10) 30
      let month := d' * 4 + monthDiff
      let day := hd * 10 - monthDiff * 30
      let year := Int.tdiv month 12
      36 * year + 3 * (month - year * 12) + day / 10 = 12 * d' + hd ∧ 0 ≤ year ∧ 0 ≤ month - year * 12 ∧ month - year * 12 < 12 ∧
      0 ≤ day ∧ day ≤ 20 ∧ day % 10 = 0 ∧
      year = (12 * d' + hd) / 36 ∧ month - year * 12 = (12 * d' + hd) / 3 % 12 ∧ day = 10 * ((12 * d' + hd) % 3) := by
    intro hd d' a b c
    dsimp only
    rw [Int.tdiv_eq_ediv_of_nonneg (show 0 ≤ hd * 10 by omega)]
    rw [Int.tdiv_eq_ediv_of_nonneg (show 0 ≤ d' * 4 + hd * 10 / 30 by omega)]
    have e1 : hd * 10 / 30 = hd / 3 := by omega
    rw [e1]
    have e2 : (12 * d' + hd) / 3 = d' * 4 + hd / 3 := by omega
    have e3 : (12 * d' + hd) % 3 = hd % 3 := by omega
    have e4 : (12 * d' + hd) / 36 = (d' * 4 + hd / 3) / 12 := by omega
    rw [e2, e3, e4]
    have hm0 : 0 ≤ d' * 4 + hd / 3 := by omega
    generalize d' * 4 + hd / 3 = mm at *
    refine ⟨?_, ?_, ?_, ?_, ?_, ?_, ?_, ?_, ?_, ?_⟩ <;> omega
  unfold countsSect1 CLSpec.digitsSect1
  dsimp only
  by_cases hneg : ei - si < 0
  · simp only [hneg, if_true]
    have k := key (ei - si + 12) (dd - 1) (by omega) (by omega) (by omega)
    dsimp only at k
    have eu : 12 * dd + (ei - si) = 12 * (dd - 1) + (ei - si + 12) := by omega
    rw [eu]
    obtain ⟨k1, k2, k3, k4, k5, k6, k7, k8, k9, k10⟩ := k
    refine ⟨k1, k2, k3, k4, k5, k6, k7, trivial, trivial, ?_⟩
    rw [← k8, ← k9, ← k10]
  · simp only [hneg, if_false]
    have k := key (ei - si) dd (by omega) (by omega) (by omega)
    dsimp only at k
    obtain ⟨k1, k2, k3, k4, k5, k6, k7, k8, k9, k10⟩ := k
    refine ⟨k1, k2, k3, k4, k5, k6, k7, trivial, trivial, ?_⟩
    rw [← k8, ← k9, ← k10]
/-- the double-hour index LunarSect1 uses is monotone in the hour and stays in 0..11 -/
theorem C16_zhiIndex (h : Int) (h0 : 0 ≤ h) (h1 : h ≤ 23) :
    0 ≤ zhiIndex h ∧ zhiIndex h ≤ 11 ∧ zhiIndex h = CLSpec.dhour h ∧ (∀ h', h ≤ h' → h' ≤ 23 → zhiIndex h ≤ zhiIndex h') := by
  unfold zhiIndex CLSpec.dhour
  refine ⟨by split <;> omega, by split <;> omega, by split <;> split <;> omega, ?_⟩
  intro h' a b
  split <;> split <;> omega

/-- a span of at most two term gaps gives at most 10 whole years in every second/minute-based strategy -/
theorem C16_year_bound (s : Int) (hs : 0 ≤ s) (h : s ≤ 2730240) :
    (countsDefault s).y ≤ 10 ∧ (countsChina95 s).y ≤ 10 ∧ (countsSect2 s).y ≤ 10 := by
  unfold countsDefault countsChina95 countsSect2
  dsimp only
  refine ⟨?_, ?_, ?_⟩ <;> omega

example : countsDefault 2730240 = ⟨10, 6, 12, 0, 0⟩ := by decide
example : countsDefault 691271 = ⟨2, 8, 0, 2, 22⟩ := by decide

/-! ## 4. The end instant: `next` = calendar addition with carries -/

private theorem valid_bounds (y m d : Int) (hv : Civil.valid y m d = true) :
    1 ≤ y ∧ y ≤ 9999 ∧ 1 ≤ m ∧ m ≤ 12 ∧ 1 ≤ d ∧ d ≤ 31 ∧ ¬ (y = 1582 ∧ m = 10 ∧ 5 ≤ d ∧ d ≤ 14) := by
  rw [← C01_accept_iff, solarDayOk_iff] at hv
  have l := monthLen_pos y m
  obtain ⟨a, b, c, d', e, f⟩ := hv
  split at f <;> omega

/-- the carries of `next` conserve the total of days, hours, minutes, seconds and normalise the clock fields -/
theorem C16_carries (d h mi s : Int) (hh : 0 ≤ h) (hmi : 0 ≤ mi) (hs : 0 ≤ s) :
    86400 * (carries d h mi s).1 + 3600 * (carries d h mi s).2.1 + 60 * (carries d h mi s).2.2.1 + (carries d h mi s).2.2.2
      = 86400 * d + 3600 * h + 60 * mi + s ∧
    d ≤ (carries d h mi s).1 ∧ 0 ≤ (carries d h mi s).2.1 ∧ (carries d h mi s).2.1 ≤ 23 ∧ 0 ≤ (carries d h mi s).2.2.1 ∧
    (carries d h mi s).2.2.1 ≤ 59 ∧ 0 ≤ (carries d h mi s).2.2.2 ∧ (carries d h mi s).2.2.2 ≤ 59 :=
  carries_spec d h mi s hh hmi hs

/-- the month step of `next` is addition on the linear month index 12·year + (month − 1) -/
theorem C16_monthNext (y m n : Int) (hy : 0 ≤ y) (hm : 1 ≤ m) (hm2 : m ≤ 12) (hn : 0 ≤ n) :
    monthNext y m n =
      if (12 * y + (m - 1) + n) / 12 < 1 ∨ (12 * y + (m - 1) + n) / 12 > 9999 then none
      else some (ofMonthIdx (12 * y + (m - 1) + n)) := monthNext_eq y m n hy hm hm2 hn

/-- the first of the next month lies `get_day_count` days after the first of this month, for every month of the
range (October 1582 with its 21 days included): the month lengths the walk uses are those of the civil calendar -/
theorem C16_month_succ (y m : Int) (hy : 1 ≤ y) (hy2 : y ≤ 9999) (hm : 1 ≤ m) (hm2 : m ≤ 12) :
    jdn (if m = 12 then y + 1 else y) (if m = 12 then 1 else m + 1) 1 = jdn y m 1 + monthLen y m :=
  jdn_month_succ y m hy hy2 hm hm2

/-- THE WALK (any day number, no bound): it stops in a month where the remaining day number fits, conserves
"first of month + day number" on the day line, never goes back, and is the identity when the day already fits. -/
theorem C16_walk_spec (f : Nat) (d : Int) (sm : Int × Int) (r : Int × Int × Int)
    (h1 : 1 ≤ sm.1) (h2 : sm.1 ≤ 9999) (h3 : 1 ≤ sm.2) (h4 : sm.2 ≤ 12) (h5 : 1 ≤ d) (h : walk f d sm = some r) :
    1 ≤ r.1 ∧ r.1 ≤ 9999 ∧ 1 ≤ r.2.1 ∧ r.2.1 ≤ 12 ∧ 1 ≤ r.2.2 ∧ r.2.2 ≤ monthLen r.1 r.2.1 ∧
    jdn r.1 r.2.1 1 + r.2.2 = jdn sm.1 sm.2 1 + d ∧
    12 * sm.1 + sm.2 ≤ 12 * r.1 + r.2.1 ∧ (d ≤ monthLen sm.1 sm.2 → r = (sm.1, sm.2, d)) :=
  walk_spec f d sm r h1 h2 h3 h4 h5 h

/-- THE WALK TERMINATES: with the fuel the model gives it (day number + 1) it always returns, unless the sum
lies after 9999-12-31 -/
theorem C16_walk_total (d : Int) (sm : Int × Int) (h1 : 1 ≤ sm.1) (h2 : sm.1 ≤ 9999) (h3 : 1 ≤ sm.2) (h4 : sm.2 ≤ 12)
    (h0 : 0 ≤ d) (h6 : jdn sm.1 sm.2 1 + d - 1 ≤ jdnLast) : (walk (d.toNat + 1) d sm).isSome = true :=
  walk_fuel (d.toNat + 1) d sm h1 h2 h3 h4 h0 (by omega) h6

/-- END INSTANT (partial: D22 excluded). For every valid birth instant and all non-negative counts, if `next`
returns e then e is an existing instant and — unless it stopped in October 1582 on a day number ≥ 5 —
e lies exactly (d0 − 1) + D days, H hours and MI minutes (at the birth's clock time) after the first of the target
month T = birth month + 12·Y + M. -/
theorem C16_end_partial (b : Time) (c : Counts) (e : Time) (hb : Clock.valid b = true)
    (_h0 : 0 ≤ c.y) (h1 : 0 ≤ c.mo) (h2 : 0 ≤ c.d) (h3 : 0 ≤ c.h) (h4 : 0 ≤ c.mi)
    (he : addNext b c = some e)
    (hx : ¬ (e.day.1 = 1582 ∧ e.day.2.1 = 10 ∧ 5 ≤ e.day.2.2)) :
    Clock.valid e = true ∧
    1 ≤ (ofMonthIdx (12 * (b.day.1 + c.y) + (b.day.2.1 - 1) + c.mo)).1 ∧
    (ofMonthIdx (12 * (b.day.1 + c.y) + (b.day.2.1 - 1) + c.mo)).1 ≤ 9999 ∧
    secs e = 86400 * (jdn (ofMonthIdx (12 * (b.day.1 + c.y) + (b.day.2.1 - 1) + c.mo)).1
                          (ofMonthIdx (12 * (b.day.1 + c.y) + (b.day.2.1 - 1) + c.mo)).2 1 + (b.day.2.2 - 1) + c.d)
             + 3600 * (b.h + c.h) + 60 * (b.mi + c.mi) + b.s := by
  obtain ⟨vb, b1, b2, b3, b4, b5, b6⟩ := (clock_valid_iff b).1 hb
  obtain ⟨y1, y2, m1, m2, d1, d2, _⟩ := valid_bounds _ _ _ vb
  have ks := carries_spec (b.day.2.2 + c.d) (b.h + c.h) (b.mi + c.mi) b.s (by omega) (by omega) b5
  unfold addNext at he
  dsimp only at he ks
  generalize carries (b.day.2.2 + c.d) (b.h + c.h) (b.mi + c.mi) b.s = k at he ks
  obtain ⟨k1, k2, k3, k4, k5, k6, k7, k8⟩ := ks
  split at he
  · simp at he
  · rename_i hyr
    rw [monthNext_eq (b.day.1 + c.y) b.day.2.1 c.mo (by omega) m1 m2 h1] at he
    by_cases hr : (12 * (b.day.1 + c.y) + (b.day.2.1 - 1) + c.mo) / 12 < 1 ∨ (12 * (b.day.1 + c.y) + (b.day.2.1 - 1) + c.mo) / 12 > 9999
    · rw [if_pos hr] at he; simp at he
    · rw [if_neg hr] at he
      dsimp only at he
      generalize hT : ofMonthIdx (12 * (b.day.1 + c.y) + (b.day.2.1 - 1) + c.mo) = T at he ⊢
      have hT1 : 1 ≤ T.1 ∧ T.1 ≤ 9999 ∧ 1 ≤ T.2 ∧ T.2 ≤ 12 := by
        rw [← hT]; unfold ofMonthIdx; dsimp only; omega
      cases hw : walk (k.1.toNat + 1) k.1 T with
      | none => simp [hw] at he
      | some r =>
        simp only [hw] at he
        obtain ⟨ee, ve⟩ := mkTime_valid r k.2.1 k.2.2.1 k.2.2.2 e he
        obtain ⟨r1, r2, r3, r4, r5, r6, r7, _, _⟩ := walk_spec _ _ _ r hT1.1 hT1.2.1 hT1.2.2.1 hT1.2.2.2 (by omega) hw
        have l := monthLen_pos r.1 r.2.1
        subst ee
        dsimp only at hx
        have off := jdn_day_offset r.1 r.2.1 r.2.2 r3 r4 r5 (by omega) hx
        refine ⟨ve, hT1.1, hT1.2.1, ?_⟩
        unfold secs
        dsimp only
        omega

/-- …so, when moreover the target month is not October 1582 entered with a birth-day label ≥ 5, the end is the
CALENDAR SUM: the birth's day-of-month label and clock time in the target month (a label past the month's end
running over into the next month), plus D days, H hours and MI minutes on the time line. -/
theorem C16_end_sum (b : Time) (c : Counts) (e : Time) (hb : Clock.valid b = true)
    (h0 : 0 ≤ c.y) (h1 : 0 ≤ c.mo) (h2 : 0 ≤ c.d) (h3 : 0 ≤ c.h) (h4 : 0 ≤ c.mi)
    (he : addNext b c = some e)
    (hx : ¬ (e.day.1 = 1582 ∧ e.day.2.1 = 10 ∧ 5 ≤ e.day.2.2))
    (hT : ¬ ((ofMonthIdx (12 * (b.day.1 + c.y) + (b.day.2.1 - 1) + c.mo)) = (1582, 10) ∧ 5 ≤ b.day.2.2)) :
    secs e = secs ⟨((ofMonthIdx (12 * (b.day.1 + c.y) + (b.day.2.1 - 1) + c.mo)).1,
                    (ofMonthIdx (12 * (b.day.1 + c.y) + (b.day.2.1 - 1) + c.mo)).2, b.day.2.2), b.h, b.mi, b.s⟩
             + 86400 * c.d + 3600 * c.h + 60 * c.mi := by
  obtain ⟨_, _, _, hs⟩ := C16_end_partial b c e hb h0 h1 h2 h3 h4 he hx
  obtain ⟨vb, b1, b2, b3, b4, b5, b6⟩ := (clock_valid_iff b).1 hb
  obtain ⟨y1, y2, m1, m2, d1, d2, _⟩ := valid_bounds _ _ _ vb
  rw [hs]
  generalize hTT : ofMonthIdx (12 * (b.day.1 + c.y) + (b.day.2.1 - 1) + c.mo) = T at hT ⊢
  have hT1 : 1 ≤ T.2 ∧ T.2 ≤ 12 := by
    rw [← hTT]; unfold ofMonthIdx; dsimp only; omega
  have off := jdn_day_offset T.1 T.2 b.day.2.2 hT1.1 hT1.2 d1 d2 (by
    rintro ⟨a, b', c'⟩
    exact hT ⟨Prod.ext a b', c'⟩)
  unfold secs
  dsimp only
  omega

/-- NEVER BEFORE BIRTH, AND BOUNDED (D22 excluded): the end lies at or after the birth instant, and at most
31 days per counted month plus the counted days, hours and minutes (plus the ten dropped days) after it. -/
theorem C16_end_after_birth (b : Time) (c : Counts) (e : Time) (hb : Clock.valid b = true)
    (h0 : 0 ≤ c.y) (h1 : 0 ≤ c.mo) (h2 : 0 ≤ c.d) (h3 : 0 ≤ c.h) (h4 : 0 ≤ c.mi)
    (he : addNext b c = some e)
    (hx : ¬ (e.day.1 = 1582 ∧ e.day.2.1 = 10 ∧ 5 ≤ e.day.2.2)) :
    secs b ≤ secs e ∧
    secs b + 86400 * (21 * (12 * c.y + c.mo) + c.d) + 3600 * c.h + 60 * c.mi ≤ secs e ∧
    secs e ≤ secs b + 86400 * (31 * (12 * c.y + c.mo) + c.d + 10) + 3600 * c.h + 60 * c.mi := by
  obtain ⟨_, t1, t2, hs⟩ := C16_end_partial b c e hb h0 h1 h2 h3 h4 he hx
  obtain ⟨vb, b1, b2, b3, b4, b5, b6⟩ := (clock_valid_iff b).1 hb
  obtain ⟨y1, y2, m1, m2, d1, d2, dx⟩ := valid_bounds _ _ _ vb
  have hn : (((12 * c.y + c.mo).toNat : Nat) : Int) = 12 * c.y + c.mo := by omega
  have hi : 12 * b.day.1 + (b.day.2.1 - 1) + ((12 * c.y + c.mo).toNat : Nat) = 12 * (b.day.1 + c.y) + (b.day.2.1 - 1) + c.mo := by omega
  have ha := jdn_idx_add (12 * c.y + c.mo).toNat (12 * b.day.1 + (b.day.2.1 - 1)) (by omega) (by
    rw [hi]; unfold ofMonthIdx at t2; dsimp only at t2; omega)
  rw [hi] at ha
  have e0 : ofMonthIdx (12 * b.day.1 + (b.day.2.1 - 1)) = (b.day.1, b.day.2.1) := by
    unfold ofMonthIdx; apply Prod.ext <;> (dsimp only; omega)
  rw [e0, hn] at ha
  dsimp only at ha
  -- the birth's own day number against the first of its month
  have hbd : jdn b.day.1 b.day.2.1 b.day.2.2 ≤ jdn b.day.1 b.day.2.1 1 + b.day.2.2 - 1 ∧
      jdn b.day.1 b.day.2.1 1 + b.day.2.2 - 1 ≤ jdn b.day.1 b.day.2.1 b.day.2.2 + 10 := by
    by_cases ho : b.day.1 = 1582 ∧ b.day.2.1 = 10 ∧ 5 ≤ b.day.2.2
    · obtain ⟨o1, o2, o3⟩ := ho
      rw [o1, o2]
      have := jdn_oct1582 b.day.2.2 (by omega) d2
      omega
    · have := jdn_day_offset b.day.1 b.day.2.1 b.day.2.2 m1 m2 d1 d2 ho
      omega
  rw [hs]
  unfold secs
  omega

/-- with the counts any strategy can produce from a span of at most two term gaps (Y ≤ 10, M ≤ 11, D ≤ 29,
H ≤ 23, MI ≤ 58) the limit ends less than 4,101 days ≈ 11.2 years after birth: "about eleven years" -/
theorem C16_eleven_years (b : Time) (c : Counts) (e : Time) (hb : Clock.valid b = true)
    (h0 : 0 ≤ c.y) (h1 : 0 ≤ c.mo) (h2 : 0 ≤ c.d) (h3 : 0 ≤ c.h) (h4 : 0 ≤ c.mi)
    (g0 : c.y ≤ 10) (g1 : c.mo ≤ 11) (g2 : c.d ≤ 29) (g3 : c.h ≤ 23) (g4 : c.mi ≤ 58)
    (he : addNext b c = some e)
    (hx : ¬ (e.day.1 = 1582 ∧ e.day.2.1 = 10 ∧ 5 ≤ e.day.2.2)) :
    secs b ≤ secs e ∧ secs e < secs b + 86400 * 4101 := by
  obtain ⟨a, _, c'⟩ := C16_end_after_birth b c e hb h0 h1 h2 h3 h4 he hx
  exact ⟨a, by omega⟩

/-- non-vacuity: the library's own unit test (1989-12-31 23:07:17 + 8 y 1 mo 28 d 20 h 40 min = 1998-03-01 19:47:17:
the day overflow runs from February into March) -/
example : addNext ⟨(1989, 12, 31), 23, 7, 17⟩ ⟨8, 1, 28, 20, 40⟩ = some ⟨(1998, 3, 1), 19, 47, 17⟩ := by decide

/-- ACCEPTANCE of `next`: for a valid birth and non-negative counts it returns an instant whenever the target month
lies in 0001..9999, the sum does not pass 9999-12-31, and the walk does not stop on one of the ten day numbers 5..14
of October 1582 (D22) — the walk itself always terminates. -/
theorem C16_end_exists (b : Time) (c : Counts) (hb : Clock.valid b = true)
    (h0 : 0 ≤ c.y) (h1 : 0 ≤ c.mo) (h2 : 0 ≤ c.d) (h3 : 0 ≤ c.h) (h4 : 0 ≤ c.mi)
    (hT : (ofMonthIdx (12 * (b.day.1 + c.y) + (b.day.2.1 - 1) + c.mo)).1 ≤ 9999)
    (hlast : jdn (ofMonthIdx (12 * (b.day.1 + c.y) + (b.day.2.1 - 1) + c.mo)).1
                 (ofMonthIdx (12 * (b.day.1 + c.y) + (b.day.2.1 - 1) + c.mo)).2 1
             + (carries (b.day.2.2 + c.d) (b.h + c.h) (b.mi + c.mi) b.s).1 - 1 ≤ jdnLast)
    (hx : ∀ r, walk ((carries (b.day.2.2 + c.d) (b.h + c.h) (b.mi + c.mi) b.s).1.toNat + 1)
                 (carries (b.day.2.2 + c.d) (b.h + c.h) (b.mi + c.mi) b.s).1
                 (ofMonthIdx (12 * (b.day.1 + c.y) + (b.day.2.1 - 1) + c.mo)) = some r →
               ¬ (r.1 = 1582 ∧ r.2.1 = 10 ∧ 5 ≤ r.2.2 ∧ r.2.2 ≤ 14)) :
    (addNext b c).isSome = true := by
  obtain ⟨vb, b1, b2, b3, b4, b5, b6⟩ := (clock_valid_iff b).1 hb
  obtain ⟨y1, y2, m1, m2, d1, d2, _⟩ := valid_bounds _ _ _ vb
  have ks := carries_spec (b.day.2.2 + c.d) (b.h + c.h) (b.mi + c.mi) b.s (by omega) (by omega) b5
  unfold addNext
  dsimp only at ks ⊢
  generalize carries (b.day.2.2 + c.d) (b.h + c.h) (b.mi + c.mi) b.s = k at ks hlast hx ⊢
  obtain ⟨k1, k2, k3, k4, k5, k6, k7, k8⟩ := ks
  have hidx : (ofMonthIdx (12 * (b.day.1 + c.y) + (b.day.2.1 - 1) + c.mo)).1 = (12 * (b.day.1 + c.y) + (b.day.2.1 - 1) + c.mo) / 12 := rfl
  have hyr : ¬ (b.day.1 + c.y < 1 ∨ b.day.1 + c.y > 9999) := by omega
  rw [if_neg hyr, monthNext_eq (b.day.1 + c.y) b.day.2.1 c.mo (by omega) m1 m2 h1]
  have hr : ¬ ((12 * (b.day.1 + c.y) + (b.day.2.1 - 1) + c.mo) / 12 < 1 ∨ (12 * (b.day.1 + c.y) + (b.day.2.1 - 1) + c.mo) / 12 > 9999) := by omega
  rw [if_neg hr]
  dsimp only
  generalize hTT : ofMonthIdx (12 * (b.day.1 + c.y) + (b.day.2.1 - 1) + c.mo) = T at hlast hx hidx hT ⊢
  have hT1 : 1 ≤ T.1 ∧ T.1 ≤ 9999 ∧ 1 ≤ T.2 ∧ T.2 ≤ 12 := by
    rw [← hTT]; unfold ofMonthIdx; dsimp only; omega
  have hf := walk_fuel (k.1.toNat + 1) k.1 T hT1.1 hT1.2.1 hT1.2.2.1 hT1.2.2.2 (by omega) (by omega) hlast
  cases hw : walk (k.1.toNat + 1) k.1 T with
  | none => rw [hw] at hf; simp at hf
  | some r =>
    dsimp only
    obtain ⟨r1, r2, r3, r4, r5, r6, _, _, _⟩ := walk_spec _ _ _ r hT1.1 hT1.2.1 hT1.2.2.1 hT1.2.2.2 (by omega) hw
    have hv : Civil.validT r = true := by
      unfold Civil.validT
      rw [← C01_accept_iff, solarDayOk_iff]
      refine ⟨r1, r2, r3, r4, r5, ?_⟩
      split
      · rename_i ho
        have l : monthLen r.1 r.2.1 = 21 := by rw [ho.1, ho.2]; decide
        have := hx r hw
        omega
      · exact r6
    rw [mkTime_some r k.2.1 k.2.2.1 k.2.2.2 hv k3 k4 k5 k6 k7 k8]
    rfl

/-- the full-strength statement (no exclusion) — FALSE on the current tree because of D22; refuted in
Tyme/Findings/C16.lean by `addNext ⟨(1582,9,30),12,0,0⟩ ⟨0,0,5,0,0⟩ = none` and a 10-days-early witness -/
def C16_end_full : Prop :=
  ∀ (b : Time) (c : Counts), Clock.valid b = true → 0 ≤ c.y → 0 ≤ c.mo → 0 ≤ c.d → 0 ≤ c.h → 0 ≤ c.mi →
    (ofMonthIdx (12 * (b.day.1 + c.y) + (b.day.2.1 - 1) + c.mo)).1 ≤ 9998 →
    ∃ e, addNext b c = some e ∧
      secs e = 86400 * (jdn (ofMonthIdx (12 * (b.day.1 + c.y) + (b.day.2.1 - 1) + c.mo)).1
                            (ofMonthIdx (12 * (b.day.1 + c.y) + (b.day.2.1 - 1) + c.mo)).2 1 + (b.day.2.2 - 1) + c.d)
               + 3600 * (b.h + c.h) + 60 * (b.mi + c.mi) + b.s

/-- what D22 does when the walk stops in October 1582 on a day number 15..21: the instant exists but lies exactly
ten days BEFORE the sum (day numbers 5..14 do not exist: `next` is refused) -/
theorem C16_end_oct1582 (b : Time) (c : Counts) (e : Time) (hb : Clock.valid b = true)
    (_h0 : 0 ≤ c.y) (h1 : 0 ≤ c.mo) (h2 : 0 ≤ c.d) (h3 : 0 ≤ c.h) (h4 : 0 ≤ c.mi)
    (he : addNext b c = some e)
    (hx : e.day.1 = 1582 ∧ e.day.2.1 = 10 ∧ 5 ≤ e.day.2.2) :
    15 ≤ e.day.2.2 ∧ e.day.2.2 ≤ 21 ∧
    secs e + 864000 = 86400 * (jdn (ofMonthIdx (12 * (b.day.1 + c.y) + (b.day.2.1 - 1) + c.mo)).1
                          (ofMonthIdx (12 * (b.day.1 + c.y) + (b.day.2.1 - 1) + c.mo)).2 1 + (b.day.2.2 - 1) + c.d)
             + 3600 * (b.h + c.h) + 60 * (b.mi + c.mi) + b.s := by
  obtain ⟨vb, b1, b2, b3, b4, b5, b6⟩ := (clock_valid_iff b).1 hb
  obtain ⟨y1, y2, m1, m2, d1, d2, _⟩ := valid_bounds _ _ _ vb
  have ks := carries_spec (b.day.2.2 + c.d) (b.h + c.h) (b.mi + c.mi) b.s (by omega) (by omega) b5
  unfold addNext at he
  dsimp only at he ks
  generalize carries (b.day.2.2 + c.d) (b.h + c.h) (b.mi + c.mi) b.s = k at he ks
  obtain ⟨k1, k2, k3, k4, k5, k6, k7, k8⟩ := ks
  split at he
  · simp at he
  · rw [monthNext_eq (b.day.1 + c.y) b.day.2.1 c.mo (by omega) m1 m2 h1] at he
    by_cases hr : (12 * (b.day.1 + c.y) + (b.day.2.1 - 1) + c.mo) / 12 < 1 ∨ (12 * (b.day.1 + c.y) + (b.day.2.1 - 1) + c.mo) / 12 > 9999
    · rw [if_pos hr] at he; simp at he
    · rw [if_neg hr] at he
      dsimp only at he
      generalize hT : ofMonthIdx (12 * (b.day.1 + c.y) + (b.day.2.1 - 1) + c.mo) = T at he ⊢
      have hT1 : 1 ≤ T.1 ∧ T.1 ≤ 9999 ∧ 1 ≤ T.2 ∧ T.2 ≤ 12 := by
        rw [← hT]; unfold ofMonthIdx; dsimp only; omega
      cases hw : walk (k.1.toNat + 1) k.1 T with
      | none => simp [hw] at he
      | some r =>
        simp only [hw] at he
        obtain ⟨ee, ve⟩ := mkTime_valid r k.2.1 k.2.2.1 k.2.2.2 e he
        obtain ⟨r1, r2, r3, r4, r5, r6, r7, _, _⟩ := walk_spec _ _ _ r hT1.1 hT1.2.1 hT1.2.2.1 hT1.2.2.2 (by omega) hw
        subst ee
        dsimp only at hx
        obtain ⟨x1, x2, x3⟩ := hx
        have ve1 : Civil.validT r = true := ((clock_valid_iff _).1 ve).1
        unfold Civil.validT at ve1
        have vb2 := valid_bounds _ _ _ ve1
        have l : monthLen r.1 r.2.1 = 21 := by rw [x1, x2]; decide
        have hd : 15 ≤ r.2.2 := by omega
        have off := jdn_oct1582 r.2.2 hd (by omega)
        rw [x1, x2] at r7
        dsimp only
        refine ⟨hd, by omega, ?_⟩
        unfold secs
        dsimp only
        rw [x1, x2]
        omega

/-- …and the one case inside October 1582 where the code IS right: target month October 1582 entered with a birth-day
label 15..31 and the sum still inside the month — label arithmetic and the 21-day count agree there -/
theorem C16_end_sum_oct_label (b : Time) (c : Counts) (e : Time) (hb : Clock.valid b = true)
    (h0 : 0 ≤ c.y) (h1 : 0 ≤ c.mo) (h2 : 0 ≤ c.d) (h3 : 0 ≤ c.h) (h4 : 0 ≤ c.mi)
    (he : addNext b c = some e)
    (hx : e.day.1 = 1582 ∧ e.day.2.1 = 10 ∧ 5 ≤ e.day.2.2)
    (hT : (ofMonthIdx (12 * (b.day.1 + c.y) + (b.day.2.1 - 1) + c.mo)) = (1582, 10)) (hd : 15 ≤ b.day.2.2) :
    secs e = secs ⟨(1582, 10, b.day.2.2), b.h, b.mi, b.s⟩ + 86400 * c.d + 3600 * c.h + 60 * c.mi := by
  obtain ⟨_, _, hs⟩ := C16_end_oct1582 b c e hb h0 h1 h2 h3 h4 he hx
  obtain ⟨vb, b1, b2, b3, b4, b5, b6⟩ := (clock_valid_iff b).1 hb
  obtain ⟨y1, y2, m1, m2, d1, d2, _⟩ := valid_bounds _ _ _ vb
  rw [hT] at hs
  dsimp only at hs
  have off := jdn_oct1582 b.day.2.2 hd d2
  unfold secs at hs ⊢
  dsimp only at hs ⊢
  omega

/-! ## 5. The whole pipeline -/

/-- the eight characters of the birth instant are those of the instant itself (the detour through the lunar hour
is the identity) for every valid birth inside an interval of lunar years where the month table tiles (C02) -/
theorem C16_eightChar_route (E : Eph) (hl : ∀ y, E.leap y ≤ 12) (a b' : Int) (ht : Lunar.TilesOn E a b') (b : Time)
    (hb : Clock.valid b = true) (hY : a ≤ b.day.1) (hY2 : b.day.1 ≤ b')
    (hlo : Lunar.first E ⟨a, 0⟩ ≤ jdn b.day.1 b.day.2.1 b.day.2.2)
    (hhi : jdn b.day.1 b.day.2.1 b.day.2.2 < Lunar.first E ⟨b' + 1, 0⟩)
    (hok : (Lunar.ofSolar E b.day.1 b.day.2.1 b.day.2.2).isSome = true) :
    eightChar E b = SC.ofSolarTime E b.day.1 b.day.2.1 b.day.2.2 b.h b.mi b.s := by
  obtain ⟨vb, b1, b2, b3, b4, b5, b6⟩ := (clock_valid_iff b).1 hb
  cases hr : Lunar.ofSolar E b.day.1 b.day.2.1 b.day.2.2 with
  | none => rw [hr] at hok; simp at hok
  | some r =>
    obtain ⟨s1, s2⟩ := C02_sls E hl a b' ht b.day.1 b.day.2.1 b.day.2.2 vb hY hY2 hlo hhi r hr
    unfold eightChar lunarDayOf
    rw [hr]
    dsimp only
    rw [s2]
    dsimp only
    rw [s1]
    dsimp only
    have : timeOk b.day.1 b.day.2.1 b.day.2.2 b.h b.mi b.s = true :=
      (timeOk_iff _ _ _ _ _ _).2 ⟨vb, b1, b2, b3, b4, b5, b6⟩
    rw [this]
    rfl

/-- the instant of a term as `get_solar_time` reports it sits at `termSec` on the seconds line -/
theorem C16_termTime (E : Eph) (t : Int × Int) (tt : Time) (h : termTime E t = some tt) :
    Clock.valid tt = true ∧ secs tt = E.termSec (Term.gidx t).toNat := by
  unfold termTime at h
  dsimp only at h
  split at h
  · simp at h
  · split at h
    · simp at h
    · obtain ⟨rg1, rg2⟩ := mkTime_range _ _ _ _ tt h
      obtain ⟨ee, ve⟩ := mkTime_valid _ _ _ _ tt h
      obtain ⟨_, hj⟩ := C01_jdn_ofJdn _ rg1 rg2
      refine ⟨ve, ?_⟩
      subst ee
      unfold secs Eph.termSec
      dsimp only
      unfold jdnT at hj
      rw [hj]
      omega

/-- inversion of the model: a limit is assembled from exactly these pieces -/
theorem C16_limit_view (E : Eph) (p : Int) (b : Time) (man : Bool) (l : Limit) (h : fromSolarTime E p b man = some l) :
    ∃ ec g tt, eightChar E b = some ec ∧ Term.ofTime E b.day.1 b.day.2.1 b.day.2.2 b.h b.mi b.s = some g ∧
      l.ec = ec ∧ l.man = man ∧ l.fwd = forward ec.year man ∧ l.start = b ∧
      termTime E (governing g l.fwd) = some tt ∧ countsOf E p b tt = some l.c ∧ addNext b l.c = some l.stop := by
  unfold fromSolarTime at h
  cases h1 : eightChar E b with
  | none => simp [h1] at h
  | some ec =>
    simp only [h1] at h
    cases h2 : Term.ofTime E b.day.1 b.day.2.1 b.day.2.2 b.h b.mi b.s with
    | none => simp [h2] at h
    | some g =>
      simp only [h2] at h
      cases h3 : termTime E (governing g (forward ec.year man)) with
      | none => simp [h3] at h
      | some tt =>
        simp only [h3] at h
        cases h4 : countsOf E p b tt with
        | none => simp [h4] at h
        | some c =>
          simp only [h4] at h
          cases h5 : addNext b c with
          | none => simp [h5] at h
          | some e =>
            simp only [h5, Option.some.injEq] at h
            subst h
            exact ⟨ec, g, tt, rfl, rfl, rfl, rfl, rfl, rfl, h3, h4, h5⟩

/-- core of the pipeline on the current tree's data (any strategy): direction; the governing instant `tt` is the NEXT
Jie after birth when forward and the LATEST Jie at or before birth otherwise; the two are at most 2,730,240 s apart -/
theorem C16_limit_core (p : Int) (b : Time) (man : Bool) (l : Limit) (h : fromSolarTime realEph p b man = some l) :
    ∃ ec g tt, eightChar realEph b = some ec ∧ Term.ofTime realEph b.day.1 b.day.2.1 b.day.2.2 b.h b.mi b.s = some g ∧
      (l.fwd = true ↔ ((ec.year % 10 % 2 = 0 ∧ man = true) ∨ (ec.year % 10 % 2 = 1 ∧ man = false))) ∧
      l.start = b ∧ addNext b l.c = some l.stop ∧ countsOf realEph p b tt = some l.c ∧ Clock.valid tt = true ∧
      (g + 2 ≤ 239977 →
        let Gb := if g % 2 = 1 then g else g - 1
        Gb % 2 = 1 ∧ realEph.termSec Gb ≤ secs b ∧ secs b < realEph.termSec (Gb + 2) ∧
        realEph.termSec (Gb + 2) ≤ realEph.termSec Gb + 2730240 ∧
        secs tt = (if l.fwd then realEph.termSec (Gb + 2) else realEph.termSec Gb)) := by
  obtain ⟨ec, g, tt, e1, e2, e3, e4, e5, e6, e7, e8, e9⟩ := C16_limit_view realEph p b man l h
  obtain ⟨vt, ts⟩ := C16_termTime realEph _ tt e7
  refine ⟨ec, g, tt, e1, e2, ?_, e6, e9, e8, vt, ?_⟩
  · rw [e5]; exact C16_direction ec.year man
  · intro hr
    obtain ⟨s1, s2, s3, s4, s5⟩ := C16_governing_span b.day.1 b.day.2.1 b.day.2.2 b.h b.mi b.s g e2 hr
    dsimp only at s1 s2 s3 s4 s5 ⊢
    have hg1 : 1 ≤ g := by
      by_cases hp : g % 2 = 1
      · omega
      · simp only [hp, if_false] at s1; omega
    obtain ⟨gi, gj⟩ := C16_governing g l.fwd hg1
    generalize hGb : (if g % 2 = 1 then g else g - 1) = Gb at s1 s2 s3 s4 s5 ⊢
    have hGbI : ((Gb : Nat) : Int) = (g : Int) - (if g % 2 = 1 then 0 else 1) := by
      rw [← hGb]; split <;> omega
    rw [← hGbI] at gi
    have hsec : secs b = 86400 * jdn b.day.1 b.day.2.1 b.day.2.2 + 3600 * b.h + 60 * b.mi + b.s := rfl
    rw [← hsec] at s3 s4
    refine ⟨s2, s3, s4, s5, ?_⟩
    cases hf : l.fwd with
    | true =>
      rw [hf] at gi
      simp only [if_true] at gi ⊢
      have hG : (Term.gidx (governing g l.fwd)).toNat = Gb + 2 := by rw [hf]; omega
      rw [hG] at ts; exact ts
    | false =>
      rw [hf] at gi
      simp only [Bool.false_eq_true, if_false] at gi ⊢
      have hG : (Term.gidx (governing g l.fwd)).toNat = Gb := by rw [hf]; omega
      rw [hG] at ts; exact ts

/-- the three second/minute-based strategies feed |governing instant − birth| to their count function -/
theorem C16_countsOf_span (E : Eph) (p : Int) (hp : p ≠ 2) (b tt : Time) :
    countsOf E p b tt = some ((if p = 1 then countsChina95 else if p = 3 then countsSect2 else countsDefault)
      (((secs tt - secs b).natAbs : Nat) : Int)) := by
  unfold countsOf
  dsimp only
  rw [timeSub_eq]
  by_cases h1 : p = 1
  · simp [h1]
  · by_cases h3 : p = 3
    · simp [h3]
    · simp [h1, h3, hp]

/-- THE DEFAULT LIMIT on the current tree's data, all births, both genders: direction from the year stem and gender;
the span runs to the NEXT Jie after birth when forward, back to the LATEST Jie at or before birth otherwise; it is at
most 2,730,240 s; the counts are its digits (so at most 10 years …); the end is `next` of birth and counts.
The same for China95 (p = 1) and LunarSect2 (p = 3) with their own count functions. -/
theorem C16_span_limit (p : Int) (hp : p ≠ 2) (b : Time) (man : Bool) (l : Limit)
    (h : fromSolarTime realEph p b man = some l) :
    ∃ ec g, eightChar realEph b = some ec ∧ Term.ofTime realEph b.day.1 b.day.2.1 b.day.2.2 b.h b.mi b.s = some g ∧
      (l.fwd = true ↔ ((ec.year % 10 % 2 = 0 ∧ man = true) ∨ (ec.year % 10 % 2 = 1 ∧ man = false))) ∧
      addNext b l.c = some l.stop ∧
      (g + 2 ≤ 239977 →
        let Gb := if g % 2 = 1 then g else g - 1
        let span := if l.fwd then realEph.termSec (Gb + 2) - secs b else secs b - realEph.termSec Gb
        realEph.termSec Gb ≤ secs b ∧ secs b < realEph.termSec (Gb + 2) ∧ 0 ≤ span ∧ span ≤ 2730240 ∧
        l.c = (if p = 1 then countsChina95 else if p = 3 then countsSect2 else countsDefault) span ∧
        0 ≤ l.c.y ∧ l.c.y ≤ 10 ∧ 0 ≤ l.c.mo ∧ l.c.mo ≤ 11 ∧ 0 ≤ l.c.d ∧ l.c.d ≤ 29 ∧ 0 ≤ l.c.h ∧ l.c.h ≤ 23 ∧
        0 ≤ l.c.mi ∧ l.c.mi ≤ 58) := by
  obtain ⟨ec, g, tt, e1, e2, e3, e4, e5, e6, e7, e8⟩ := C16_limit_core p b man l h
  refine ⟨ec, g, e1, e2, e3, e5, ?_⟩
  intro hr
  obtain ⟨s2, s3, s4, s5, ts⟩ := e8 hr
  dsimp only at s2 s3 s4 s5 ts ⊢
  generalize (if g % 2 = 1 then g else g - 1) = Gb at s2 s3 s4 s5 ts ⊢
  rw [C16_countsOf_span realEph p hp b tt] at e6
  simp only [Option.some.injEq] at e6
  have hspan : (((secs tt - secs b).natAbs : Nat) : Int) =
      (if l.fwd then realEph.termSec (Gb + 2) - secs b else secs b - realEph.termSec Gb) := by
    rw [ts]; cases l.fwd <;> simp <;> omega
  rw [hspan] at e6
  have h0 : 0 ≤ (if l.fwd then realEph.termSec (Gb + 2) - secs b else secs b - realEph.termSec Gb) ∧
      (if l.fwd then realEph.termSec (Gb + 2) - secs b else secs b - realEph.termSec Gb) ≤ 2730240 := by
    cases l.fwd <;> simp <;> omega
  generalize (if l.fwd then realEph.termSec (Gb + 2) - secs b else secs b - realEph.termSec Gb) = span at e6 h0 ⊢
  refine ⟨s3, s4, h0.1, h0.2, e6.symm, ?_⟩
  have yb := C16_year_bound span h0.1 h0.2
  have c0 := C16_counts_default span h0.1
  have c1 := C16_counts_china95 span h0.1
  have c3 := C16_counts_sect2 span h0.1
  rw [← e6]
  by_cases h1 : p = 1
  · subst h1; simp only [if_true]; omega
  · by_cases h3 : p = 3
    · subst h3; simp only [show ¬ ((3 : Int) = 1) by decide, if_true, if_false]; omega
    · simp only [h1, h3, if_false]; omega

/-- THE LunarSect1 LIMIT: whole double-hours u between the earlier and the later of (birth, governing Jie), counted as
12 per civil day plus the difference of the double-hour indices; u ≥ 0 and the counts are its digits 36 / 3 / 1 -/
theorem C16_sect1_limit (b : Time) (man : Bool) (l : Limit) (hb : Clock.valid b = true)
    (h : fromSolarTime realEph 2 b man = some l) :
    ∃ tt, Clock.valid tt = true ∧
      (let en := if secs tt < secs b then b else tt
       let st := if secs tt < secs b then tt else b
       let u := 12 * (jdn en.day.1 en.day.2.1 en.day.2.2 - jdn st.day.1 st.day.2.1 st.day.2.2) + (zhiIndex en.h - zhiIndex st.h)
       secs st ≤ secs en ∧ 0 ≤ u ∧
       (l.c.y, l.c.mo, l.c.d, l.c.h, l.c.mi) = CLSpec.digitsSect1 u ∧ 36 * l.c.y + 3 * l.c.mo + l.c.d / 10 = u ∧
       0 ≤ l.c.y ∧ 0 ≤ l.c.mo ∧ l.c.mo < 12 ∧ 0 ≤ l.c.d ∧ l.c.d ≤ 20) ∧
      addNext b l.c = some l.stop := by
  obtain ⟨ec, g, tt, e1, e2, e3, e4, e5, e6, e7, e8⟩ := C16_limit_core 2 b man l h
  refine ⟨tt, e7, ?_, e5⟩
  unfold countsOf at e6
  dsimp only at e6
  simp only [show ¬ ((2 : Int) = 1) by decide, show ¬ ((2 : Int) = 3) by decide, if_false, if_true] at e6
  have ha := timeAfter_iff b tt hb e7
  obtain ⟨vb, b1, b2, b3, b4, b5, b6⟩ := (clock_valid_iff b).1 hb
  obtain ⟨vt, t1, t2, t3, t4, t5, t6⟩ := (clock_valid_iff tt).1 e7
  have zb := C16_zhiIndex b.h b1 b2
  have zt := C16_zhiIndex tt.h t1 t2
  unfold daySub at e6
  by_cases hlt : secs tt < secs b
  · have hta : timeAfter b tt = true := ha.2 hlt
    simp only [hta, if_true] at e6
    simp only [hlt, if_true]
    split at e6
    · simp at e6
    · split at e6
      · simp at e6
      · simp only [Option.some.injEq] at e6
        have hu : 0 ≤ 12 * (jdn b.day.1 b.day.2.1 b.day.2.2 - jdn tt.day.1 tt.day.2.1 tt.day.2.2) + (zhiIndex b.h - zhiIndex tt.h) := by
          unfold secs at hlt
          by_cases hd : jdn tt.day.1 tt.day.2.1 tt.day.2.2 < jdn b.day.1 b.day.2.1 b.day.2.2
          · omega
          · have : tt.h ≤ b.h := by omega
            have := zt.2.2.2 b.h this b2
            omega
        have k := C16_counts_sect1 (zhiIndex tt.h) (zhiIndex b.h) (jdn b.day.1 b.day.2.1 b.day.2.2 - jdn tt.day.1 tt.day.2.1 tt.day.2.2)
          zt.1 zt.2.1 zb.1 zb.2.1 hu
        rw [e6] at k
        obtain ⟨k1, k2, k3, k4, k5, k6, _, _, _, k10⟩ := k
        exact ⟨by omega, hu, k10, k1, k2, k3, k4, k5, k6⟩
  · have hta : timeAfter b tt = false := by
      cases hc : timeAfter b tt with
      | true => exact absurd (ha.1 hc) hlt
      | false => rfl
    simp only [hta, Bool.false_eq_true, if_false] at e6
    simp only [hlt, if_false]
    split at e6
    · simp at e6
    · split at e6
      · simp at e6
      · simp only [Option.some.injEq] at e6
        have hu : 0 ≤ 12 * (jdn tt.day.1 tt.day.2.1 tt.day.2.2 - jdn b.day.1 b.day.2.1 b.day.2.2) + (zhiIndex tt.h - zhiIndex b.h) := by
          unfold secs at hlt
          by_cases hd : jdn b.day.1 b.day.2.1 b.day.2.2 < jdn tt.day.1 tt.day.2.1 tt.day.2.2
          · omega
          · have : b.h ≤ tt.h := by omega
            have := zb.2.2.2 tt.h this t2
            omega
        have k := C16_counts_sect1 (zhiIndex b.h) (zhiIndex tt.h) (jdn tt.day.1 tt.day.2.1 tt.day.2.2 - jdn b.day.1 b.day.2.1 b.day.2.2)
          zb.1 zb.2.1 zt.1 zt.2.1 hu
        rw [e6] at k
        obtain ⟨k1, k2, k3, k4, k5, k6, _, _, _, k10⟩ := k
        exact ⟨by omega, hu, k10, k1, k2, k3, k4, k5, k6⟩

/-- non-vacuity of the whole pipeline on the real data (kernel evaluation of the model): a man born 2024-02-04 12:00:00
(before Lichun: Gui-Mao year, Yin) runs backward, 9 y 9 mo 5 d 21 h 20 min, until 2033-11-10 09:20:00 — the library's answer -/
example : (fromSolarTime realEph 0 ⟨(2024, 2, 4), 12, 0, 0⟩ true).map (fun l => (l.fwd, l.c, l.stop))
    = some (false, ⟨9, 9, 5, 21, 20⟩, ⟨(2033, 11, 10), 9, 20, 0⟩) := by decide +kernel

/-! ## 6. Decade fortunes and yearly fortunes -/

/-- `SixtyCycle::next` is addition modulo 60 -/
theorem C16_cycNext (p n : Int) : SC.cycNext p n = (p + n) % 60 := by
  unfold SC.cycNext; exact SC.indexOf_60 _

/-- decade fortunes: start ages 10 apart, each decade 10 years long (end age = start age + 9), the first one
starts at (end year − birth year + 1); start years 10 apart -/
theorem C16_decade_ages (l : Limit) (k : Int) :
    decStartAge l (k + 1) = decStartAge l k + 10 ∧ decEndAge l k = decStartAge l k + 9 ∧
    decStartAge l (k + 1) = decEndAge l k + 1 ∧ decStartAge l 0 = l.stop.day.1 - l.start.day.1 + 1 ∧
    (∀ y y', decStartYear l k = some y → decStartYear l (k + 1) = some y' → y' = y + 10) := by
  unfold decStartAge decEndAge decStartAge decStartYear
  refine ⟨by omega, by omega, by omega, by omega, ?_⟩
  intro y y' h1 h2
  split at h1 <;> split at h2 <;> simp at h1 h2 <;> omega

/-- decade pillar = the month pillar stepped (k + 1) places forward (forward luck) or backward: one place per decade -/
theorem C16_decade_pillar (l : Limit) (k : Int) :
    decPillar l k = (l.ec.month + (if l.fwd then k + 1 else -(k + 1))) % 60 ∧
    decPillar l (k + 1) = SC.cycNext (decPillar l k) (if l.fwd then 1 else -1) := by
  unfold decPillar
  dsimp only
  simp only [C16_cycNext]
  cases l.fwd <;> simp <;> omega

/-- yearly fortunes: age advances by one per index from (end year − birth year + 1), the year by one from the year
the limit ends, the pillar is the hour pillar stepped `age` places forward or backward: one place per year -/
theorem C16_fortune (l : Limit) (k : Int) :
    fortAge l (k + 1) = fortAge l k + 1 ∧ fortAge l 0 = l.stop.day.1 - l.start.day.1 + 1 ∧
    fortPillar l k = (l.ec.hour + (if l.fwd then fortAge l k else -(fortAge l k))) % 60 ∧
    fortPillar l (k + 1) = SC.cycNext (fortPillar l k) (if l.fwd then 1 else -1) ∧
    (∀ y, fortYear l k = some y → y = l.stop.day.1 + k) := by
  unfold fortPillar fortAge fortYear
  dsimp only
  simp only [C16_cycNext]
  refine ⟨by omega, by omega, ?_, ?_, ?_⟩
  · cases l.fwd <;> simp
  · cases l.fwd <;> simp <;> omega
  · intro y h; split at h <;> simp at h; omega

/-- `next` on fortunes and decade fortunes is a group action on the index; a decade's first yearly fortune is
index 10·k, whose age is the decade's start age -/
theorem C16_step_laws (k a b : Int) (l : Limit) :
    stepIndex k 0 = k ∧ stepIndex (stepIndex k a) b = stepIndex k (a + b) ∧ stepIndex (stepIndex k a) (-a) = k ∧
    fortAge l (decStartFortune k) = decStartAge l k := by
  unfold stepIndex decStartFortune fortAge decStartAge
  omega

/-- the end age reported by the limit is the first decade's start age minus one, but at least 1 -/
theorem C16_endAge (l : Limit) : endAge l = max 1 (decStartAge l 0 - 1) := by
  unfold endAge decStartAge
  dsimp only
  omega

end Tyme
