import Tyme.Lemmas.Cycle
import Tyme.Model.EightChar
/-!
C09 — hour pillar, 23:00 day roll-over, eight characters and their inverse. Property theorems (`C09_*`).
Model: `SC.hourPillar` (LunarHour::get_sixty_cycle), `SC.ofSolarTime` (SixtyCycleHour::from_solar_time),
`EC.ofTime` (eight characters, default provider), `EC.solarTimes` (EightChar::get_solar_times after fixes D7, D20).
-/
namespace Tyme
open SC EC

/-- FINITE CORE, all 60 day pillars × 24 hours (complete enumeration): the hour branch is ⌊(h+1)/2⌋ mod 12, the
hour stem follows from the stem of the day pillar in force (the NEXT day's from 23:00) by the Five-Rats rule
stem = (dayStem mod 5)·2 + branch, and the pair is always one of the sixty. -/
theorem C09_hour_core : ∀ dp : Nat, dp < 60 → ∀ h : Nat, h < 24 →
    ∃ p : Int, hourPillar (dp : Int) (h : Int) = some p ∧ 0 ≤ p ∧ p < 60 ∧
      p % 12 = (((h : Int) + 1) / 2) % 12 ∧
      p % 10 = ((((dp : Int) + (if h ≥ 23 then 1 else 0)) % 60) % 10 % 5 * 2 + (((h : Int) + 1) / 2) % 12) % 10 := by
  decide

/-- the same for arbitrary integers (any day pillar index, any hour 0..23), by reduction to the finite core -/
theorem C09_hour (dp h : Int) (hd : 0 ≤ dp) (hd2 : dp < 60) (hh : 0 ≤ h) (hh2 : h < 24) :
    ∃ p : Int, hourPillar dp h = some p ∧ p % 12 = ((h + 1) / 2) % 12 ∧
      p % 10 = (((dp + (if h ≥ 23 then 1 else 0)) % 60) % 10 % 5 * 2 + ((h + 1) / 2) % 12) % 10 := by
  obtain ⟨p, h1, _, _, h4, h5⟩ := C09_hour_core dp.toNat (by omega) h.toNat (by omega)
  have e1 : ((dp.toNat : Nat) : Int) = dp := by omega
  have e2 : ((h.toNat : Nat) : Int) = h := by omega
  simp only [e1, e2] at h1 h4 h5
  refine ⟨p, h1, h4, ?_⟩
  rw [h5]
  have : (h.toNat ≥ 23) ↔ (h ≥ 23) := by omega
  by_cases hc : h ≥ 23
  · have : h.toNat ≥ 23 := by omega
    simp [hc, this]
  · have : ¬ h.toNat ≥ 23 := by omega
    simp [hc, this]

/-- 23:00 roll-over: the instant-level view reports the next day's pillar from 23:00, the civil day's before;
its hour pillar is the lunar-hour pillar of the civil day's pillar (inversion of the model). -/
theorem C09_roll (E : Eph) (Y M D h mi s : Int) (v : HourView) (hv : ofSolarTime E Y M D h mi s = some v) :
    ∃ x k dp, Lunar.ofSolar E Y M D = some (x, k) ∧ dayPillar (Lunar.first E x) k = some dp ∧
      v.day = (if h = 23 then cycNext dp 1 else dp) ∧ hourPillar dp h = some v.hour := by
  unfold ofSolarTime at hv
  split at hv
  · simp at hv
  · split at hv
    · simp at hv
    · dsimp only at hv
      split at hv
      · simp at hv
      · rename_i x k hr
        split at hv
        · simp at hv
        · split at hv
          · simp at hv
          · split at hv
            · simp at hv
            · split at hv
              · simp at hv
              · split at hv
                · simp at hv
                · rename_i dp hdp
                  split at hv
                  · simp at hv
                  · rename_i hp hhp
                    simp only [Option.some.injEq] at hv
                    refine ⟨x, k, dp, hr, hdp, ?_, ?_⟩ <;> rw [← hv] <;> simp [hhp]

/-- the eight characters of an instant are exactly its year, month, day and hour pillars (default strategy) -/
theorem C09_compose (E : Eph) (t : Time) (e : EightChar) (h : ofTime E t = some e) :
    ∃ v, ofSolarTime E t.1 t.2.1 t.2.2.1 t.2.2.2.1 t.2.2.2.2.1 t.2.2.2.2.2 = some v ∧
      e.year = v.year ∧ e.month = v.month ∧ e.day = v.day ∧ e.hour = v.hour := by
  unfold ofTime at h
  cases hv : ofSolarTime E t.1 t.2.1 t.2.2.1 t.2.2.2.1 t.2.2.2.2.1 t.2.2.2.2.2 with
  | none => simp [hv] at h
  | some v =>
    simp only [hv, Option.map_some, Option.some.injEq] at h
    exact ⟨v, rfl, by rw [← h], by rw [← h], by rw [← h], by rw [← h]⟩

theorem filterM'_mem (f : Time → Option Bool) : ∀ (l r : List Time), filterM' f l = some r →
    ∀ t, t ∈ r → t ∈ l ∧ f t = some true := by
  intro l
  induction l with
  | nil => intro r h t ht; simp [filterM'] at h; subst h; simp at ht
  | cons x xs ih =>
    intro r h t ht
    simp only [filterM'] at h
    cases hx : f x with
    | none => simp [hx] at h
    | some b =>
      simp only [hx] at h
      cases hr : filterM' f xs with
      | none => simp [hr] at h
      | some r' =>
        simp only [hr, Option.some.injEq] at h
        subst h
        cases b with
        | true =>
          simp only [if_true, List.mem_cons] at ht
          rcases ht with rfl | ht
          · exact ⟨List.mem_cons_self, hx⟩
          · have := ih r' hr t ht
            exact ⟨List.mem_cons_of_mem _ this.1, this.2⟩
        | false =>
          simp only [Bool.false_eq_true, if_false] at ht
          have := ih r' hr t ht
          exact ⟨List.mem_cons_of_mem _ this.1, this.2⟩

/-- SOUNDNESS of the inverse search, any ephemeris, any range: every returned instant lies in a year ≥ the
start year and has exactly the wanted eight characters. -/
theorem C09_sound (E : Eph) (ec : EightChar) (y0 y1 : Int) (r : List Time) (h : solarTimes E ec y0 y1 = some r) :
    ∀ t, t ∈ r → t.1 ≥ y0 ∧ ofTime E t = some ec := by
  unfold solarTimes at h
  cases hc : candidates E ec y0 y1 with
  | none => simp [hc] at h
  | some l =>
    simp only [hc] at h
    intro t ht
    have := (filterM'_mem _ l r h t ht).2
    unfold verify at this
    split at this
    · rename_i hy
      refine ⟨hy, ?_⟩
      cases he : ofTime E t with
      | none => simp [he] at this
      | some e =>
        simp only [he, Option.map_some, Option.some.injEq, decide_eq_true_eq] at this
        rw [this]
    · simp at this

/-- completeness ingredient 1: the 60-year stride starts at a year with the wanted year pillar
(year 1 = Xin-You, index 57), and every later candidate year has it too -/
theorem C09_year_cycle (yp : Int) (h0 : 0 ≤ yp) (h1 : yp < 60) (k : Int) :
    yearPillar (cycNext yp (-57) + 1 + 60 * k) = yp := by
  unfold yearPillar cycNext
  rw [indexOf_60, indexOf_60]; omega

/-- completeness ingredient 2: the day offset from the Jie day: the unique 0 ≤ d < 60 that turns the Jie
day's pillar p into the wanted day pillar q (a sexagenary month is shorter than 60 days, so at most one day
of the month has it) -/
theorem C09_day_offset (p q : Int) (hp : 0 ≤ p ∧ p < 60) (hq : 0 ≤ q ∧ q < 60) :
    0 ≤ cycNext q (-p) ∧ cycNext q (-p) < 60 ∧ (p + cycNext q (-p)) % 60 = q ∧
    ∀ d, 0 ≤ d → d < 60 → (p + d) % 60 = q → d = cycNext q (-p) := by
  unfold cycNext
  rw [indexOf_60]
  refine ⟨by omega, by omega, by omega, ?_⟩
  intro d h0 h1 h2
  omega

/-- completeness ingredient 3: the month offset from Lichun and the stem test: the search rejects exactly the
year/month pairs that violate Five Tigers, and otherwise m = (month branch − 2) mod 12 -/
theorem C09_month_offset (mp : Int) (h0 : 0 ≤ mp) (h1 : mp < 60) :
    indexOf (mp % 12 - 2) 12 = (mp % 12 + 10) % 12 := by
  rw [indexOf_12]; omega


/-- second on the civil time line (for stating the completeness clause) -/
def secOf (t : Time) : Int := 86400 * jdn t.1 t.2.1 t.2.2.1 + 3600 * t.2.2.2.1 + 60 * t.2.2.2.2.1 + t.2.2.2.2.2

/-- start of the double-hour containing t: 23:00 of the previous day for hour 23/0, else the odd hour -/
def doubleHourStart (t : Time) : Int := (secOf t + 3600) / 7200 * 7200 - 3600

/-- FULL completeness clause of the property (stated, NOT proved — decided by the sweep on random instants and
every double-hour of sampled days; its ingredients are C09_year_cycle, C09_day_offset, C09_month_offset):
if an instant t of the searched range has characters ec and no Jie instant falls inside its double-hour, the
search returns an instant of the same double-hour. -/
def C09_complete_full (E : Eph) : Prop :=
  ∀ (t : Time) (ec : EightChar) (y0 y1 : Int), y0 ≤ t.1 → t.1 ≤ y1 → ofTime E t = some ec →
    (∀ g : Nat, g % 2 = 1 → ¬ (doubleHourStart t ≤ E.termSec g ∧ E.termSec g < doubleHourStart t + 7200)) →
    ∃ l r, solarTimes E ec y0 y1 = some l ∧ r ∈ l ∧ doubleHourStart r = doubleHourStart t

end Tyme
