import Tyme.Thm.C13
import Tyme.Thm.C08c
import Tyme.Thm.Total
/-!
C13, second file — TOTALITY of `SixtyCycleDay::get_hours`.

`C13_scd_hours`, `C13_scd_hours_clock`, `C13_scd_hours_pillars` (Thm/C13.lean) speak about a call that *returns*. Here:
on the data re-extracted from /repo in this run the call DOES return for every valid civil date whose own civil day and
whose PREVIOUS civil day (the 23:00 slot belongs to it — possibly December 31 of the previous year) both lie in the
interior of an interval of lunar years on which the month table tiles: `from_solar_day` returns (Lemmas/ScmTotal),
`SolarDay::next(-1)` and the eleven `SolarTime::next(7200)` stay inside 0001..9999 (C01/C12), and every one of the twelve
instants has an instant-level view (`C08_time_total`: `get_lunar_day`'s walk, `get_term`'s walk, the pillar look-ups).
`C13_scd_hours_total_real` is the combined end-to-end statement, with no "if the call returns" hypothesis.
-/
namespace Tyme
open Cont Lunar SC

/-- The loop `for _ in 0..n { h = h.next(7200); push(h) }` returns as soon as the last instant it reaches is inside
0001..9999 and every instant in between has an instant-level view. -/
theorem C13_hoursLoop_total (E : Eph) : ∀ (n : Nat) (t : Time), Clock.valid t = true →
    secs t + 7200 * (n : Int) ≤ secsLast →
    (∀ t' : Time, Clock.valid t' = true → secs t < secs t' → secs t' ≤ secs t + 7200 * (n : Int) →
      ∃ v, viewOfTime E t' = some v) →
    ∃ L, hoursLoop E 7200 n t = some L := by
  intro n
  induction n with
  | zero => intro t _ _ _; exact ⟨[], rfl⟩
  | succ n ih =>
    intro t hv hl hview
    have hb := secs_bounds t hv
    have e1 : ((n + 1 : Nat) : Int) = (n : Int) + 1 := by omega
    rw [e1] at hl hview
    obtain ⟨t', e, v', s'⟩ := timeNext_spec t 7200 hv (by omega) (by omega)
    obtain ⟨w, hw⟩ := hview t' v' (by omega) (by omega)
    obtain ⟨l, hl'⟩ := ih t' v' (by omega) (fun u hu h1 h2 => hview u hu (by omega) (by omega))
    exact ⟨(t', w) :: l, by simp only [hoursLoop, e, hw, hl']⟩

/-- A civil date whose day number is that of (Y, M, D) or one less lies in year Y or Y−1 — and in year Y itself unless
(Y, M, D) is January 1. -/
theorem C13_year_near (Y M D y' m' d' : Int) (hv : Civil.valid Y M D = true) (dv : Civil.valid y' m' d' = true)
    (h1 : jdn Y M D - 1 ≤ jdn y' m' d') (h2 : jdn y' m' d' ≤ jdn Y M D) :
    Y - 1 ≤ y' ∧ y' ≤ Y ∧ (jdn Y 1 1 < jdn Y M D → y' = Y) := by
  obtain ⟨yb1, yb2⟩ := year_bounds Y M D hv
  obtain ⟨zb1, zb2⟩ := year_bounds y' m' d' dv
  obtain ⟨hY1, _⟩ := (valid_iff Y M D).1 hv
  obtain ⟨hy1, _⟩ := (valid_iff y' m' d').1 dv
  refine ⟨?_, ?_, ?_⟩
  · by_cases hc : Y - 1 ≤ y'
    · exact hc
    · exfalso
      have js := jan1_step (Y - 1) (by omega)
      have e1 : Y - 1 + 1 = Y := by omega
      rw [e1] at js
      have := jan1_mono (y' + 1) (Y - 1) (by omega) (by omega)
      omega
  · by_cases hc : y' ≤ Y
    · exact hc
    · exfalso
      have := jan1_mono (Y + 1) y' (by omega) (by omega)
      omega
  · intro hlt
    exact year_unique y' m' d' Y dv hY1 (by omega) (by omega)

/-- a date other than January 1 comes after January 1 of its year -/
theorem C13_after_jan1 (Y M D : Int) (hv : Civil.valid Y M D = true) (hne : ¬ (M = 1 ∧ D = 1)) : jdn Y 1 1 < jdn Y M D := by
  obtain ⟨h1, h2, h3, h4, h5, h6, h7⟩ := (valid_iff Y M D).1 hv
  have hv1 : Civil.validT (Y, 1, 1) = true := by
    show Civil.valid Y 1 1 = true
    rw [valid_iff, lastDay_eq]; simp; omega
  have hl : Civil.lt (Y, 1, 1) (Y, M, D) := by
    unfold Civil.lt; dsimp only; omega
  exact (C01_lt_iff (Y, 1, 1) (Y, M, D) hv1 hv).1 hl

/-- TOTAL CORRECTNESS of `SixtyCycleDay::get_hours` on the current tree's data, for any interval [a, b] (1 ≤ a, b ≤ 9998)
of lunar years on which the month table tiles: for every valid civil date (Y, M, D) with a+2 ≤ Y (or a+1 ≤ Y and the date
is not January 1 — the 23:00 slot lies in the previous civil day) and Y+1 ≤ b, the call RETURNS a list of 12 existing
instants, slot i starting 3600 s before the civil midnight of the day plus 7200·i seconds, each carrying exactly the
view `SixtyCycleHour::from_solar_time` gives that instant, with the day's own pillar (day number + 49) mod 60 and hour
branch i. -/
theorem C13_scd_hours_total (a b : Nat) (ha1 : 1 ≤ a) (hb : b ≤ 9998) (ht : TilesOn realEph a b)
    (Y M D : Int) (hv : Civil.valid Y M D = true) (hYa : (a : Int) + 1 ≤ Y)
    (hprev : (a : Int) + 2 ≤ Y ∨ ¬ (M = 1 ∧ D = 1)) (hY2 : Y + 1 ≤ b) :
    ∃ L, scdHours realEph Y M D = some L ∧ L.length = 12 ∧ ∀ i (hi : i < L.length),
      Clock.valid L[i].1 = true ∧ secs L[i].1 = 86400 * jdn Y M D - 3600 + 7200 * (i : Int) ∧
      viewOfTime realEph L[i].1 = some L[i].2 ∧
      L[i].2.day = (jdn Y M D + 49) % 60 ∧ L[i].2.hour % 12 = (i : Int) := by
  have ha0 : (0 : Int) ≤ (a : Int) := by omega
  have hb9 : (b : Int) + 1 ≤ 9999 := by omega
  have hab : a + 1 ≤ b := by omega
  obtain ⟨hYge1, _⟩ := (valid_iff Y M D).1 hv
  obtain ⟨yb1, yb2⟩ := year_bounds Y M D hv
  have hprev' : (a : Int) + 2 ≤ Y ∨ jdn Y 1 1 < jdn Y M D := by
    rcases hprev with h | h
    · exact Or.inl h
    · exact Or.inr (C13_after_jan1 Y M D hv h)
  -- every valid date with day number J or J − 1 lies in a year of the interior
  have near : ∀ y' m' d' : Int, Civil.valid y' m' d' = true → jdn Y M D - 1 ≤ jdn y' m' d' → jdn y' m' d' ≤ jdn Y M D →
      (a : Int) + 1 ≤ y' ∧ y' + 1 ≤ b := by
    intro y' m' d' dv j1 j2
    obtain ⟨n1, n2, n3⟩ := C13_year_near Y M D y' m' d' hv dv j1 j2
    rcases hprev' with h | h
    · omega
    · have := n3 h; omega
  -- the SixtyCycleDay itself
  obtain ⟨i1, i2, i3, i4⟩ := C02_interval_of_year realEph C13_newYearFacts_real a b ha0 hb9 Y M D hv (Or.inr hYa) hY2
  have j1 : jdn 1 1 1 = 1721424 := by decide
  have jY := jan1_strict 1 Y (by omega) (by omega)
  have h1 : realEph.termDay 1 ≤ jdn Y M D := by
    have f := C06_first_term_real
    have e : jdn 1 2 1 = jdn 1 1 1 + 31 := by decide
    omega
  obtain ⟨dvw, hdvw⟩ := ofSolarDay_total realEph realEph_leap_le C13_termFacts_real C13_newYearFacts_real C02_first_year_real
    a b ha0 hb9 ht Y M D hv i1 i2 i3 i4 h1
  -- the previous civil day
  have jl := jdn_le_last Y M D hv
  have ej : jdnT (Y, M, D) = jdn Y M D := rfl
  obtain ⟨hp, pv, pj⟩ := dayNext_some (Y, M, D) (-1) (by rw [ej]; unfold jdnFirst; omega) (by rw [ej]; omega)
  generalize ofJdn (jdnT (Y, M, D) + -1) = p at hp pv pj
  rw [ej] at pj
  obtain ⟨py, pm, pd⟩ := p
  have ejp : jdnT (py, pm, pd) = jdn py pm pd := rfl
  rw [ejp] at pj
  have pv' : Civil.valid py pm pd = true := pv
  obtain ⟨pa, pb⟩ := near py pm pd pv' (by omega) (by omega)
  have ht0 := mkTime_some (py, pm, pd) 23 0 0 pv (by omega) (by omega) (by omega) (by omega) (by omega) (by omega)
  have vt0 : Clock.valid ⟨(py, pm, pd), 23, 0, 0⟩ = true := (mkTime_valid _ _ _ _ _ ht0).2
  have st0 : secs ⟨(py, pm, pd), 23, 0, 0⟩ = 86400 * jdn Y M D - 3600 := by
    unfold secs; dsimp only; omega
  -- every instant from 23:00 of the previous day to the end of the day has a view
  have viewAll : ∀ t' : Time, Clock.valid t' = true → 86400 * jdn Y M D - 3600 ≤ secs t' → secs t' < 86400 * jdn Y M D + 86400 →
      ∃ v, viewOfTime realEph t' = some v := by
    intro t' tv s1 s2
    obtain ⟨dv, c1, c2, c3, c4, c5, c6⟩ := (clock_valid_iff _).1 tv
    obtain ⟨td, th, tmi, tsec⟩ := t'
    obtain ⟨y', m', d'⟩ := td
    unfold secs at s1 s2
    dsimp only at dv c1 c2 c3 c4 c5 c6 s1 s2
    have dv' : Civil.valid y' m' d' = true := dv
    obtain ⟨na, nb⟩ := near y' m' d' dv' (by omega) (by omega)
    unfold viewOfTime
    dsimp only
    exact C08_time_total a b ha1 hab hb ht y' m' d' th tmi tsec dv' ⟨c1, c2⟩ ⟨c3, c4⟩ ⟨c5, c6⟩ na nb
  obtain ⟨v0, hv0⟩ := viewAll ⟨(py, pm, pd), 23, 0, 0⟩ vt0 (by omega) (by omega)
  have e11 : ((11 : Nat) : Int) = 11 := rfl
  obtain ⟨l, hl⟩ := C13_hoursLoop_total realEph 11 ⟨(py, pm, pd), 23, 0, 0⟩ vt0
    (by rw [st0, e11]; unfold secsLast; omega)
    (fun u hu u1 u2 => viewAll u hu (by omega) (by rw [st0, e11] at u2; omega))
  have hL : scdHours realEph Y M D = some ((⟨(py, pm, pd), 23, 0, 0⟩, v0) :: l) := by
    unfold scdHours
    simp only [hdvw, hp, ht0, hv0, hl]
  refine ⟨_, hL, ?_⟩
  generalize ((⟨(py, pm, pd), 23, 0, 0⟩, v0) :: l : List (Time × HourView)) = L at hL
  obtain ⟨len, sp⟩ := scdHours_spec realEph Y M D L hL
  obtain ⟨q1, q2, q3, q4⟩ := C02_interval_of_year realEph C13_newYearFacts_real a b ha0 hb9 py pm pd pv' (Or.inr pa) pb
  have pil := scdHours_pillars realEph realEph_leap_le a b ht Y M D hv hYa (by omega) (by omega) i4 L hL
  refine ⟨len, fun i hi => ?_⟩
  obtain ⟨s1, s2, s3⟩ := sp i hi
  obtain ⟨p1, p2⟩ := pil i hi
  exact ⟨s1, s2, s3, p1, p2⟩

/-- END-TO-END, TOTAL, for the data re-extracted from /repo in this run: for EVERY valid civil date of the years
11..21, 27..234, 242..9997 — and of the years 10, 26, 241 except their January 1, whose 23:00 slot falls in a junction
year — `SixtyCycleDay::get_hours` RETURNS a list L of exactly 12 hours;
slot 0 is 23:00:00 of the PREVIOUS civil day (December 31 of the previous year when the date is January 1), slot i ≥ 1 is
(2i−1):00:00 of the day itself; slot i starts 3600 s before the civil midnight plus 7200·i s; each carries the view
`SixtyCycleHour::from_solar_time` gives that instant; all twelve carry the day's own pillar, (day number + 49) mod 60,
and the hour branch of slot i is i (Zi, Chou, …, Hai): the list is the day's twelve double hours, each once, in order. -/
theorem C13_scd_hours_total_real (Y M D : Int) (hv : Civil.valid Y M D = true)
    (hy : (11 ≤ Y ∧ Y ≤ 21) ∨ (27 ≤ Y ∧ Y ≤ 234) ∨ (242 ≤ Y ∧ Y ≤ 9997) ∨
      ((Y = 10 ∨ Y = 26 ∨ Y = 241) ∧ ¬ (M = 1 ∧ D = 1))) :
    ∃ L, scdHours realEph Y M D = some L ∧ L.length = 12 ∧ ∀ i (hi : i < L.length),
      Clock.valid L[i].1 = true ∧ secs L[i].1 = 86400 * jdn Y M D - 3600 + 7200 * (i : Int) ∧
      (i = 0 → jdnT L[i].1.day = jdn Y M D - 1 ∧ L[i].1.h = 23 ∧ L[i].1.mi = 0 ∧ L[i].1.s = 0) ∧
      (1 ≤ i → L[i].1 = ⟨(Y, M, D), 2 * (i : Int) - 1, 0, 0⟩) ∧
      viewOfTime realEph L[i].1 = some L[i].2 ∧
      L[i].2.day = (jdn Y M D + 49) % 60 ∧ L[i].2.hour % 12 = (i : Int) := by
  obtain ⟨_, t2, t3, _, t5⟩ := C02_good_intervals
  have key : ∀ (a b : Nat), 1 ≤ a → b ≤ 9998 → TilesOn realEph a b → (a : Int) + 1 ≤ Y →
      ((a : Int) + 2 ≤ Y ∨ ¬ (M = 1 ∧ D = 1)) → Y + 1 ≤ b →
      ∃ L, scdHours realEph Y M D = some L ∧ L.length = 12 ∧ ∀ i (hi : i < L.length),
        Clock.valid L[i].1 = true ∧ secs L[i].1 = 86400 * jdn Y M D - 3600 + 7200 * (i : Int) ∧
        (i = 0 → jdnT L[i].1.day = jdn Y M D - 1 ∧ L[i].1.h = 23 ∧ L[i].1.mi = 0 ∧ L[i].1.s = 0) ∧
        (1 ≤ i → L[i].1 = ⟨(Y, M, D), 2 * (i : Int) - 1, 0, 0⟩) ∧
        viewOfTime realEph L[i].1 = some L[i].2 ∧
        L[i].2.day = (jdn Y M D + 49) % 60 ∧ L[i].2.hour % 12 = (i : Int) := by
    intro a b ha1 hb ht hYa hprev hY2
    obtain ⟨L, hL, len, sp⟩ := C13_scd_hours_total a b ha1 hb ht Y M D hv hYa hprev hY2
    refine ⟨L, hL, len, fun i hi => ?_⟩
    obtain ⟨s1, s2, s3, s4, s5⟩ := sp i hi
    refine ⟨s1, s2, ?_, fun h1 => C13_scd_hours_clock realEph Y M D L hv hL i hi h1, s3, s4, s5⟩
    intro hi0
    obtain ⟨dv, c1, c2, c3, c4, c5, c6⟩ := (clock_valid_iff _).1 s1
    generalize L[i].1 = t at *
    obtain ⟨td, th, tmi, tsec⟩ := t
    obtain ⟨y', m', d'⟩ := td
    unfold secs at s2
    subst hi0
    dsimp only at dv c1 c2 c3 c4 c5 c6 s2 ⊢
    have ej : jdnT (y', m', d') = jdn y' m' d' := rfl
    rw [ej]
    have e0 : ((0 : Nat) : Int) = 0 := rfl
    rw [e0] at s2
    refine ⟨?_, ?_, ?_, ?_⟩ <;> omega
  rcases hy with hy | hy | hy | ⟨hy | hy | hy, hne⟩
  · exact key 9 22 (by omega) (by omega) t2 (by omega) (Or.inl (by omega)) (by omega)
  · exact key 25 235 (by omega) (by omega) t3 (by omega) (Or.inl (by omega)) (by omega)
  · exact key 240 9998 (by omega) (by omega) t5 (by omega) (Or.inl (by omega)) (by omega)
  · exact key 9 22 (by omega) (by omega) t2 (by omega) (Or.inr hne) (by omega)
  · exact key 25 235 (by omega) (by omega) t3 (by omega) (Or.inr hne) (by omega)
  · exact key 240 9998 (by omega) (by omega) t5 (by omega) (Or.inr hne) (by omega)

/-- January 1: the 23:00 slot is December 31 of the previous year, and the call still returns -/
theorem C13_scd_hours_jan1_real (Y : Int) (hy : (11 ≤ Y ∧ Y ≤ 21) ∨ (27 ≤ Y ∧ Y ≤ 234) ∨ (242 ≤ Y ∧ Y ≤ 9997)) :
    ∃ L, scdHours realEph Y 1 1 = some L ∧ ∃ h0 : 0 < L.length, L[0].1 = ⟨(Y - 1, 12, 31), 23, 0, 0⟩ := by
  have hv : Civil.valid Y 1 1 = true := by
    rw [valid_iff, lastDay_eq]; simp; omega
  obtain ⟨L, hL, len, sp⟩ := C13_scd_hours_total_real Y 1 1 hv (by omega)
  refine ⟨L, hL, by omega, ?_⟩
  obtain ⟨s1, s2, _⟩ := sp 0 (by omega)
  have hv2 : Civil.valid (Y - 1) 12 31 = true := by
    rw [valid_iff, lastDay_eq]; simp; omega
  apply C12_secs_inj _ _ s1
  · rw [clock_valid_iff]
    refine ⟨hv2, ?_, ?_, ?_, ?_, ?_, ?_⟩ <;> dsimp only <;> omega
  · rw [s2]
    unfold secs
    dsimp only
    have e : jdn (Y - 1) 12 31 = jdn Y 1 1 - 1 := by
      rw [jdn_nf (Y - 1) 12 31, jdn_nf Y 1 1]
      have c1 : ¬ ((12 : Int) ≤ 2) := by decide
      have c2 : (1 : Int) ≤ 2 := by decide
      rw [if_neg c1, if_pos c2]
      have e1 : Y - 1 + 4716 = Y + 4715 := by omega
      rw [e1]
      repeat' split
      all_goals omega
    omega

/-! ### non-vacuity -/

/-- the hypotheses of `C13_scd_hours_total_real` are met, e.g. by 2024-02-04 and by 0011-01-01 -/
example : Civil.valid 2024 2 4 = true ∧ (242 ≤ (2024 : Int) ∧ (2024 : Int) ≤ 9997) ∧
    Civil.valid 11 1 1 = true ∧ (11 ≤ (11 : Int) ∧ (11 : Int) ≤ 21) := by decide

/-- the hypotheses of `C13_scd_hours_total` are met by the main interval of this run's data -/
example : ∃ a b : Nat, 1 ≤ a ∧ b ≤ 9998 ∧ TilesOn realEph a b ∧ (a : Int) + 2 ≤ 2024 ∧ (2024 : Int) + 1 ≤ b :=
  ⟨240, 9998, by omega, by omega, C02_good_intervals.2.2.2.2, by decide, by decide⟩

end Tyme
