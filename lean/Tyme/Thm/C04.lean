import Tyme.Facts.MonthsFact
/-!
C04 — month numbers and the leap month follow the no-major-term rule. Property theorems (`C04_*`).
The rule is the executable predicate `suiCore a b` (Facts/Preds.lean, meant to be read): with the library's own
new-moon days (month table) and calendar-making zhongqi days (13 per solstice year, stored in the year record),
the lunation containing each winter solstice is a regular month 11; between two such months there are 12 or 13
lunations; with 13 the first one containing no zhongqi day is the leap month and repeats the previous number;
otherwise there is no leap month; every lunation carries the number this prescribes.
Everything is decided by Lean kernel evaluation on the data re-extracted from /repo on every run.
-/
namespace Tyme
open Packed

/-- TABLE FACT (complete enumeration of 9,999 solstice years): rule numbering = table numbering for every lunar
year 27..9999 except 238, 239, 240. -/
theorem C04_rule_fact : adjRec 1024 suiPair Gen.monthsChunks = true := years_sui_fact

/-- the same, per year, about the record list `yearRecs` (record k = lunar year k) -/
theorem C04_rule (y : Nat) (h1 : 27 ≤ y) (h2 : y ≤ 9999) (h3 : y ≠ 238 ∧ y ≠ 239 ∧ y ≠ 240) :
    suiCore (yearRecs.getD (y - 1) 0) (yearRecs.getD y 0) = true := by
  have hlen := yearRecs_length
  have hp := adjRec_spec 1024 suiPair Gen.monthsChunks years_sui_fact (y - 1) (by
    show y - 1 + 1 < yearRecs.length
    omega)
  change suiPair (y - 1) (yearRecs[y - 1]'(by omega)) (yearRecs[y - 1 + 1]'(by omega)) = true at hp
  have e1 : yearRecs.getD (y - 1) 0 = yearRecs[y - 1]'(by omega) := by
    simp [List.getD, List.getElem?_eq_getElem (show y - 1 < yearRecs.length by omega)]
  have e2 : yearRecs.getD y 0 = yearRecs[y - 1 + 1]'(by omega) := by
    have : y - 1 + 1 = y := by omega
    simp [List.getD, this, List.getElem?_eq_getElem (show y < yearRecs.length by omega)]
  rw [e1, e2]
  unfold suiPair at hp
  have hex : suiExcluded (y - 1 + 1) = false := by
    have : y - 1 + 1 = y := by omega
    rw [this]
    unfold suiExcluded
    have hb : Nat.blt y 27 = false := by
      rw [Bool.eq_false_iff]; intro hh; rw [Nat.blt_eq] at hh; omega
    simp [hb, h3.1, h3.2.1, h3.2.2]
  rw [hex] at hp
  simpa using hp

/-- what `suiCore` asserts, unfolded for the reader: the winter-solstice lunations are regular month 11 (both ends) -/
theorem C04_solstice_month_11 (a b : Nat) (h : suiCore a b = true) :
    ∃ A B, findMonth a (Rec.yQi b 0) (Rec.yCount a) 0 = some A ∧ findMonth b (Rec.yQi b 12) (Rec.yCount b) 0 = some B ∧
      numOf (Rec.yLeap a) A = (11, false) ∧ numOf (Rec.yLeap b) B = (11, false) ∧
      (Rec.yCount a - A + B = 12 ∨ Rec.yCount a - A + B = 13) := by
  unfold suiCore at h
  split at h
  · rename_i A B hA hB
    simp only [Bool.and_eq_true, beq_iff_eq, Bool.or_eq_true] at h
    exact ⟨A, B, hA, hB, h.1.1.1, h.1.1.2, h.1.2⟩
  · simp at h

/-- the three excluded years really violate the rule (so the exclusion list is exact, as the property states) -/
theorem C04_excluded_years_fail :
    suiCore (yearRecs.getD 237 0) (yearRecs.getD 238 0) = false ∧ suiCore (yearRecs.getD 238 0) (yearRecs.getD 239 0) = false ∧
    suiCore (yearRecs.getD 239 0) (yearRecs.getD 240 0) = false := by
  refine ⟨?_, ?_, ?_⟩ <;> decide +kernel

/-- non-vacuity: 2023 has 13 lunations in its solstice year and leap month 2; 2024 has 12 and none -/
example : Rec.yLeap (yearRecs.getD 2023 0) = 2 ∧ Rec.yLeap (yearRecs.getD 2024 0) = 0 ∧
    suiCore (yearRecs.getD 2022 0) (yearRecs.getD 2023 0) = true := by
  refine ⟨?_, ?_, ?_⟩ <;> decide +kernel

end Tyme
