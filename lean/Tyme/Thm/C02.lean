import Tyme.Lemmas.LunarWalk
import Tyme.Thm.C01
/-!
C02 — solar ⇔ lunar conversion is an order-preserving bijection. Property theorems only (`C02_*`).

Generic theorems hold for ANY ephemeris `E` on ANY interval of lunar years [a,b] on which the month table
tiles (`TilesOn E a b`); `C02_tilesOn_real` instantiates the hypothesis for the data re-extracted from /repo
on the five maximal good intervals 0..7, 9..22, 25..235, 237..238, 240..9998 (the excluded years are the D4
reform junctions, listed as known findings with the exact failing dates).
Model: `Lunar.ofSolar` (= SolarDay::get_lunar_day incl. the D3 forward walk), `Lunar.dayNew`, `Lunar.daySolar`,
`Lunar.dayBefore/After` (after D5).
-/
namespace Tyme
open Lunar

/-- the tiling hypothesis holds for the current tree's data on every interval free of the five D4 years -/
theorem C02_tilesOn_real (a b : Nat) (hb : b ≤ 9998) (hgood : ∀ n, a ≤ n → n ≤ b → badYear n = false) :
    TilesOn realEph a b := by
  intro y ha hb'
  have : y = ((y.toNat : Nat) : Int) := by omega
  rw [this]
  exact realEph_tiles y.toNat (by omega) (hgood _ (by omega) (by omega))

theorem C02_good_intervals :
    TilesOn realEph (0 : Nat) (7 : Nat) ∧ TilesOn realEph (9 : Nat) (22 : Nat) ∧ TilesOn realEph (25 : Nat) (235 : Nat) ∧
    TilesOn realEph (237 : Nat) (238 : Nat) ∧ TilesOn realEph (240 : Nat) (9998 : Nat) := by
  refine ⟨C02_tilesOn_real 0 7 (by omega) ?_, C02_tilesOn_real 9 22 (by omega) ?_, C02_tilesOn_real 25 235 (by omega) ?_,
    C02_tilesOn_real 237 238 (by omega) ?_, C02_tilesOn_real 240 9998 (by omega) ?_⟩
  all_goals (intro n h1 h2; simp only [badYear, Bool.or_eq_false_iff, beq_eq_false_iff_ne, ne_eq]; omega)

/-- get_lunar_day returns the month that contains the day, and the day's position in it. -/
theorem C02_walk_spec (E : Eph) (hl : ∀ y, E.leap y ≤ 12) (a b : Int) (ht : TilesOn E a b) (Y M D : Int)
    (hY : a ≤ Y) (hY2 : Y ≤ b) (hlo : first E ⟨a, 0⟩ ≤ jdn Y M D) (hhi : jdn Y M D < first E ⟨b + 1, 0⟩)
    (r : Month × Int) (h : ofSolar E Y M D = some r) :
    WF E r.1 ∧ a ≤ r.1.y ∧ r.1.y ≤ b ∧ first E r.1 + r.2 - 1 = jdn Y M D ∧ 1 ≤ r.2 ∧ r.2 ≤ len E r.1 :=
  ofSolar_spec E hl a b ht Y M D hY hY2 hlo hhi r h

/-- solar → lunar → solar is the identity (every civil date whose conversion is accepted, inside a tiling interval). -/
theorem C02_sls (E : Eph) (hl : ∀ y, E.leap y ≤ 12) (a b : Int) (ht : TilesOn E a b) (Y M D : Int)
    (hv : Civil.valid Y M D = true)
    (hY : a ≤ Y) (hY2 : Y ≤ b) (hlo : first E ⟨a, 0⟩ ≤ jdn Y M D) (hhi : jdn Y M D < first E ⟨b + 1, 0⟩)
    (r : Month × Int) (h : ofSolar E Y M D = some r) :
    daySolar E r.1 r.2 = some (Y, M, D) ∧ dayNew E r.1.y (monthWithLeap E r.1) r.2 = some r := by
  obtain ⟨w, a1, b1, e, k1, k2⟩ := ofSolar_spec E hl a b ht Y M D hY hY2 hlo hhi r h
  constructor
  · unfold daySolar
    rw [e, ofJdn_jdn Y M D hv]
    dsimp only
    rw [C01_accept_iff, hv]; rfl
  · unfold dayNew
    have hm : fromYm E r.1.y (monthWithLeap E r.1) = some r.1 := by
      rw [monthWithLeap_eq]
      have := fromYm_of_pos E r.1.y ((r.1.idx : Int) + 1) w.1 w.2.1 (hl _) (by omega) (by have := w.2.2; omega)
      rw [this]
      have e2 : ((r.1.idx : Int) + 1 - 1).toNat = r.1.idx := by omega
      rw [e2]
    rw [hm]
    have : ¬ (r.2 < 1 ∨ r.2 > len E r.1) := by omega
    simp [this]

/-- lunar → solar → lunar is the identity (every accepted lunar date inside a tiling interval whose civil year
also lies in the interval). -/
theorem C02_lsl (E : Eph) (hl : ∀ y, E.leap y ≤ 12) (a b : Int) (ha0 : 0 ≤ a) (hb9 : b + 1 ≤ 9999) (ht : TilesOn E a b)
    (x : Month) (k : Int) (hx : WF E x) (hxa : a ≤ x.y) (hxb : x.y ≤ b) (hk1 : 1 ≤ k) (hk2 : k ≤ len E x)
    (Y M D : Int) (hd : daySolar E x k = some (Y, M, D)) (hY : a ≤ Y) (hY2 : Y ≤ b)
    (hj1 : jdnFirst ≤ first E x + k - 1) (hj2 : first E x + k - 1 ≤ jdnLast)
    (r : Month × Int) (h : ofSolar E Y M D = some r) : r = (x, k) := by
  -- the civil date of the lunar day
  have hjd : jdn Y M D = first E x + k - 1 := by
    unfold daySolar at hd
    dsimp only at hd
    split at hd
    · simp only [Option.some.injEq] at hd
      have := (C01_jdn_ofJdn (first E x + k - 1) hj1 hj2).2
      rw [hd] at this
      exact this
    · simp at hd
  -- bounds of the interval from monotonicity
  have hwa : WF E ⟨a, 0⟩ := ⟨ha0, by dsimp only; omega, by dsimp only; have := cnt_cases E a; omega⟩
  have hwb : WF E ⟨b + 1, 0⟩ := ⟨by dsimp only; omega, by dsimp only; omega, by dsimp only; have := cnt_cases E (b + 1); omega⟩
  have hlo : first E ⟨a, 0⟩ ≤ jdn Y M D := by
    rw [hjd]
    rcases Int.lt_trichotomy (gpos E ⟨a, 0⟩) (gpos E x) with hg | hg | hg
    · have := first_mono E a b hb9 ht x hx (Or.inl hxb) (gpos E x - gpos E ⟨a, 0⟩ - 1).toNat ⟨a, 0⟩ hwa (Int.le_refl _) (by omega)
      have hl0 := (tiles_step E ⟨a, 0⟩ (ht a (Int.le_refl _) (by omega)) hwa.2.2).2
      omega
    · have := gpos_inj E _ _ hwa hx hg
      rw [← this]; omega
    · exfalso
      have := cumI_le_of_le E a x.y ha0 hxa
      unfold gpos at hg; dsimp only at hg; omega
  have hhi : jdn Y M D < first E ⟨b + 1, 0⟩ := by
    rw [hjd]
    have hgl : gpos E x < gpos E ⟨b + 1, 0⟩ := by
      have := gpos_lt_next_year E x hx
      have := cumI_le_of_le E (x.y + 1) (b + 1) (by have := hx.1; omega) (by omega)
      unfold gpos at *; dsimp only at *; omega
    have := first_mono E a b hb9 ht ⟨b + 1, 0⟩ hwb (Or.inr rfl) (gpos E ⟨b + 1, 0⟩ - gpos E x - 1).toNat x hx hxa (by omega)
    omega
  obtain ⟨w, a1, b1, e, k1, k2⟩ := ofSolar_spec E hl a b ht Y M D hY hY2 hlo hhi r h
  have hu := month_unique E a b hb9 ht r.1 x w hx a1 b1 hxa hxb (jdn Y M D) (by omega) (by omega) (by omega) (by omega)
  obtain ⟨r1, r2⟩ := r
  dsimp only at hu e
  subst hu
  congr 1; omega


/-- Consecutive civil days map to consecutive lunar days: day+1 in the same month, or day 1 of the
following month (the successor in the listing) exactly when the month is over. -/
theorem C02_succ (E : Eph) (hl : ∀ y, E.leap y ≤ 12) (a b : Int) (hb9 : b + 1 ≤ 9999) (ht : TilesOn E a b)
    (j : Int) (x x' : Month) (k k' : Int)
    (hx : WF E x) (hxa : a ≤ x.y) (hxb : x.y ≤ b) (hk : first E x + k - 1 = j) (hk1 : 1 ≤ k) (hk2 : k ≤ len E x)
    (hx' : WF E x') (hxa' : a ≤ x'.y) (hxb' : x'.y ≤ b) (hk' : first E x' + k' - 1 = j + 1) (hk1' : 1 ≤ k') (hk2' : k' ≤ len E x') :
    (x' = x ∧ k' = k + 1) ∨ (x' = succM E x ∧ k' = 1 ∧ k = len E x) := by
  by_cases hin : k < len E x
  · left
    have := month_unique E a b hb9 ht x' x hx' hx hxa' hxb' hxa hxb (j + 1) (by omega) (by omega) (by omega) (by omega)
    subst this
    exact ⟨rfl, by omega⟩
  · right
    have hke : k = len E x := by omega
    have hts := tiles_step E x (ht x.y hxa hxb) hx.2.2
    have hg : gpos E x < gpos E x' := by
      rcases Int.lt_trichotomy (gpos E x) (gpos E x') with h | h | h
      · exact h
      · exfalso; have := gpos_inj E _ _ hx hx' h; subst this; omega
      · exfalso
        have := first_mono E a b hb9 ht x hx (Or.inl hxb) (gpos E x - gpos E x' - 1).toNat x' hx' hxa' (by omega)
        omega
    have hws := WF_succM E x hx (by omega)
    have hgs := gpos_succM E x hx.1 hx.2.2
    have hsa : a ≤ (succM E x).y := by unfold succM; split <;> (dsimp only; omega)
    rcases Int.lt_or_eq_of_le (show gpos E (succM E x) ≤ gpos E x' by omega) with h | h
    · exfalso
      have hsb := year_le_of_gpos_lt E b x' hx' (Or.inl hxb') (succM E x) hws h
      have hls := (tiles_step E (succM E x) (ht _ hsa hsb) hws.2.2).2
      have := first_mono E a b hb9 ht x' hx' (Or.inl hxb') (gpos E x' - gpos E (succM E x) - 1).toNat (succM E x) hws hsa (by omega)
      omega
    · have e := gpos_inj E _ _ hws hx' h
      subst e
      exact ⟨rfl, by omega, hke⟩

/-- Lunar order = chronological order (day numbers), for all pairs inside a tiling interval. -/
theorem C02_order (E : Eph) (a b : Int) (hb9 : b + 1 ≤ 9999) (ht : TilesOn E a b) (p q : Month × Int)
    (hp : WF E p.1) (hq : WF E q.1) (hpa : a ≤ p.1.y) (hpb : p.1.y ≤ b) (hqa : a ≤ q.1.y) (hqb : q.1.y ≤ b)
    (hp1 : 1 ≤ p.2) (hp2 : p.2 ≤ len E p.1) (hq1 : 1 ≤ q.2) (hq2 : q.2 ≤ len E q.1) :
    lunarLt E p q ↔ first E p.1 + p.2 - 1 < first E q.1 + q.2 - 1 :=
  lunarLt_iff_jdn E a b hb9 ht p q hp hq hpa hpb hqa hqb hp1 hp2 hq1 hq2

/-- `LunarDay::is_before` (year, then |month| with the regular month before its leap twin, then day)
is exactly the listing order — any ephemeris, any two accepted lunar dates. -/
theorem C02_before_iff (E : Eph) (hl : ∀ y, E.leap y ≤ 12) (y m d y' m' d' : Int) (p q : Month × Int)
    (hp : dayNew E y m d = some p) (hq : dayNew E y' m' d' = some q) :
    Lunar.dayBefore (y, m, d) (y', m', d') = true ↔ lunarLt E p q := by
  unfold dayNew at hp hq
  cases hx : fromYm E y m with
  | none => simp [hx] at hp
  | some x =>
    cases hx' : fromYm E y' m' with
    | none => simp [hx'] at hq
    | some x' =>
      simp only [hx, hx'] at hp hq
      split at hp
      · simp at hp
      · split at hq
        · simp at hq
        · simp only [Option.some.injEq] at hp hq
          subst hp; subst hq
          obtain ⟨w, ey⟩ := fromYm_WF E hl y m x hx
          obtain ⟨w', ey'⟩ := fromYm_WF E hl y' m' x' hx'
          unfold lunarLt Lunar.dayBefore
          dsimp only
          by_cases hyy : y = y'
          · subst hyy
            simp only [ne_eq, not_true_eq_false, if_false]
            -- same year: compare indices
            have hidx : x.idx = (m.natAbs - 1 + (if m < 0 ∨ (E.leap y > 0 ∧ m.natAbs > E.leap y) then 1 else 0)) := by
              unfold fromYm at hx
              split at hx
              · simp at hx
              · split at hx
                · simp at hx
                · split at hx
                  · simp at hx
                  · simp only [Option.some.injEq] at hx; rw [← hx]
            have hidx' : x'.idx = (m'.natAbs - 1 + (if m' < 0 ∨ (E.leap y > 0 ∧ m'.natAbs > E.leap y) then 1 else 0)) := by
              unfold fromYm at hx'
              split at hx'
              · simp at hx'
              · split at hx'
                · simp at hx'
                · split at hx'
                  · simp at hx'
                  · simp only [Option.some.injEq] at hx'; rw [← hx']
            have hm : ¬ (m = 0 ∨ m > 12 ∨ m < -12) ∧ ¬ (m < 0 ∧ m.natAbs ≠ E.leap y) := by
              unfold fromYm at hx
              split at hx
              · simp at hx
              · split at hx
                · simp at hx
                · rename_i h1
                  split at hx
                  · simp at hx
                  · rename_i h2; exact ⟨h1, h2⟩
            have hm' : ¬ (m' = 0 ∨ m' > 12 ∨ m' < -12) ∧ ¬ (m' < 0 ∧ m'.natAbs ≠ E.leap y) := by
              unfold fromYm at hx'
              split at hx'
              · simp at hx'
              · split at hx'
                · simp at hx'
                · rename_i h1
                  split at hx'
                  · simp at hx'
                  · rename_i h2; exact ⟨h1, h2⟩
            have hgp : gpos E x < gpos E x' ↔ x.idx < x'.idx := by
              unfold gpos; rw [ey, ey']; omega
            have hxe : x = x' ↔ x.idx = x'.idx := by
              constructor
              · intro h; rw [h]
              · intro h; cases x; cases x'; simp only at ey ey' h; subst ey; subst ey'; subst h; rfl
            rw [hgp, hxe, hidx, hidx']
            have n1 := Int.natAbs_eq m
            have n2 := Int.natAbs_eq m'
            have hlp := hl y
            generalize E.leap y = lp at *
            by_cases hmm : m = m'
            · subst hmm
              simp only [ne_eq, not_true_eq_false, if_false, decide_eq_true_eq]
              constructor
              · intro h; right; exact ⟨trivial, h⟩
              · rintro (h | ⟨_, h⟩)
                · omega
                · exact h
            · simp only [ne_eq, hmm, not_false_eq_true, if_true]
              repeat' split
              all_goals (simp only [decide_eq_true_eq])
              all_goals omega
          · simp only [ne_eq, hyy, not_false_eq_true, if_true, decide_eq_true_eq]
            constructor
            · intro h
              left
              exact gpos_lt_of_year_lt E x x' w (by omega)
            · rintro (h | ⟨h, _⟩)
              · by_cases hlt : y < y'
                · exact hlt
                · exfalso
                  have := gpos_lt_of_year_lt E x' x w' (by omega)
                  omega
              · exfalso; rw [h] at ey; omega

end Tyme
