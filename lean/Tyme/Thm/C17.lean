import Tyme.Lemmas.AlmanacCycles
import Tyme.Thm.C07
import Tyme.Thm.C08
/-!
C17 — daily and hourly almanac cycles obey their defining recurrences. Property theorems (`C17_*`).
Model: `Tyme.Alm` (Model/AlmanacCycles.lean) AFTER the repairs D12 (six-day star: unsigned month), D24 (hour nine
star ascends again from the December solstice) and D26 (day nine star of the January days before the winter
turning point). Spec: `Tyme.AlmSpec` (Spec/AlmanacCycles.lean), stated on day numbers, branches, term indices and
lunar dates only. Finite families are decided by complete kernel enumeration (`decide`, which IS a proof for a
finite domain); everything indexed by dates or years is proved for all integers / for every ephemeris.
-/
namespace Tyme
open Alm

/-! ### the index helper -/

/-- `from_index` / `next` wrap by the mathematical modulo for every cycle size used here -/
theorem C17_indexOf (i : Int) :
    indexOf i 6 = i % 6 ∧ indexOf i 7 = i % 7 ∧ indexOf i 9 = i % 9 ∧ indexOf i 12 = i % 12 ∧
    indexOf i 28 = i % 28 ∧ indexOf i 30 = i % 30 :=
  ⟨indexOf_6 i, indexOf_7 i, indexOf_9 i, indexOf_12 i, indexOf_28 i, indexOf_30 i⟩

/-! ### day officer (建除十二神) -/

/-- the officer is (day branch − month branch) mod 12 for all pillar indices; it is "Jian" (0) exactly when the two
branches are equal, and moves one step when the day pillar moves one step under the same month pillar. -/
theorem C17_duty (dp mp : Int) :
    duty dp mp = AlmSpec.duty (dp % 12) (mp % 12) ∧
    (duty dp mp = 0 ↔ dp % 12 = mp % 12) ∧
    duty (dp + 1) mp = (duty dp mp + 1) % 12 := by
  unfold duty AlmSpec.duty
  rw [branch_eq, branch_eq, branch_eq, indexOf_12, indexOf_12]
  refine ⟨rfl, ?_, ?_⟩ <;> omega

/-- the branch of the month pillar the sexagenary-day view reports is the branch of the solar term the day lies
in: Lichun/Yushui → Yin, …, Daxue/winter solstice → Zi, Xiaohan/Dahan → Chou (every ephemeris, every accepted date) -/
theorem C17_month_branch (E : Eph) (Y M D : Int) (v : SC.DayView) (h : SC.ofSolarDay E Y M D = some v) :
    ∃ g kk, Term.ofDay E Y M D = some (g, kk) ∧ v.month % 12 = AlmSpec.monthBranch ((g % 24 : Nat) : Int) := by
  obtain ⟨x, k, g, kk, fm, _, hg, hfm, _, hm⟩ := C08_day_view E Y M D v h
  refine ⟨g, kk, hg, ?_⟩
  obtain ⟨_, _, h3, _⟩ := C08_five_tigers Y
    (SC.monthOffset ((g % 24 : Nat) : Int) (decide (E.termDay g > E.termDay (24 * (Y - 1) + 3).toNat))) fm hfm
  rw [hm, h3]
  have h0 : (0 : Int) ≤ ((g % 24 : Nat) : Int) := by omega
  have h1 : ((g % 24 : Nat) : Int) ≤ 23 := by omega
  rw [C08_monthOffset _ h0 h1]
  unfold AlmSpec.monthBranch
  generalize ((g % 24 : Nat) : Int) = t at h0 h1 ⊢
  split
  · omega
  · split <;> omega

/-- the day officer of a civil date, inside an interval of lunar years where the month table tiles:
(branch of (day number + 49)) − (branch of the day's solar-term month), mod 12. Hence Jian ⇔ equal branches and
+1 per day while the term month does not change (`C17_duty`). -/
theorem C17_duty_civil (E : Eph) (hl : ∀ y, E.leap y ≤ 12) (a b : Int) (ht : Lunar.TilesOn E a b) (Y M D : Int)
    (hY : a ≤ Y) (hY2 : Y ≤ b) (hlo : Lunar.first E ⟨a, 0⟩ ≤ jdn Y M D) (hhi : jdn Y M D < Lunar.first E ⟨b + 1, 0⟩)
    (v : SC.DayView) (h : SC.ofSolarDay E Y M D = some v) :
    ∃ g kk, Term.ofDay E Y M D = some (g, kk) ∧
      duty v.day v.month = AlmSpec.duty (AlmSpec.pillar (jdn Y M D) % 12) (AlmSpec.monthBranch ((g % 24 : Nat) : Int)) ∧
      twelve v.day v.month = (AlmSpec.pillar (jdn Y M D) % 12 + (8 - AlmSpec.monthBranch ((g % 24 : Nat) : Int) % 6) * 2) % 12 := by
  obtain ⟨g, kk, hg, hm⟩ := C17_month_branch E Y M D v h
  have hd := C07_view E hl a b ht Y M D hY hY2 hlo hhi v h
  refine ⟨g, kk, hg, ?_, ?_⟩
  · rw [(C17_duty v.day v.month).1, hm, hd]; unfold AlmSpec.pillar; rfl
  · unfold twelve AlmSpec.pillar
    rw [branch_eq, branch_eq, indexOf_12, hm, hd]
    have : 0 ≤ AlmSpec.monthBranch ((g % 24 : Nat) : Int) := by unfold AlmSpec.monthBranch; omega
    rw [tmod_nonneg_eq _ _ this]

/-- one step per civil day: two consecutive dates with the same month pillar have consecutive officers and
consecutive spirits -/
theorem C17_duty_step (E : Eph) (hl : ∀ y, E.leap y ≤ 12) (a b : Int) (ht : Lunar.TilesOn E a b)
    (Y M D Y' M' D' : Int) (hnext : jdn Y' M' D' = jdn Y M D + 1)
    (hY : a ≤ Y) (hY2 : Y ≤ b) (hlo : Lunar.first E ⟨a, 0⟩ ≤ jdn Y M D) (hhi : jdn Y M D < Lunar.first E ⟨b + 1, 0⟩)
    (hY' : a ≤ Y') (hY2' : Y' ≤ b) (hhi' : jdn Y' M' D' < Lunar.first E ⟨b + 1, 0⟩)
    (v v' : SC.DayView) (h : SC.ofSolarDay E Y M D = some v) (h' : SC.ofSolarDay E Y' M' D' = some v')
    (hsame : v'.month = v.month) :
    duty v'.day v'.month = (duty v.day v.month + 1) % 12 ∧ twelve v'.day v'.month = (twelve v.day v.month + 1) % 12 := by
  have hd := C07_view E hl a b ht Y M D hY hY2 hlo hhi v h
  have hd' := C07_view E hl a b ht Y' M' D' hY' hY2' (by omega) hhi' v' h'
  unfold duty twelve
  simp only [branch_eq, indexOf_12, hsame, hd, hd', hnext]
  have := branch_range v.month
  rw [branch_eq] at this
  rw [tmod_nonneg_eq _ _ this.1]
  constructor <;> omega

/-! ### Yellow / Black path spirits (黄道黑道十二神) -/

/-- COMPLETE ENUMERATION (144 pairs): the code's `branch + (8 − ref % 6)·2` equals the classical start table
(Zi/Wu→Shen, Chou/Wei→Xu, Yin/Shen→Zi, Mao/You→Yin, Chen/Xu→Chen, Si/Hai→Wu) counted on from the dragon's branch -/
theorem C17_twelve_table : ∀ b : Nat, b < 12 → ∀ r : Nat, r < 12 →
    twelve (b : Int) (r : Int) = AlmSpec.twelve (b : Int) (r : Int) := by decide

/-- …hence for all pillar indices (day spirits: p = day pillar, q = month pillar; hour spirits: p = hour pillar,
q = day pillar): the spirit depends on the two branches only, is Azure Dragon exactly on the start branch, and
advances with the branch. -/
theorem C17_twelve (p q : Int) :
    twelve p q = AlmSpec.twelve (p % 12) (q % 12) ∧
    (twelve p q = 0 ↔ p % 12 = AlmSpec.dragonStart (q % 12)) ∧
    twelve (p + 1) q = (twelve p q + 1) % 12 := by
  have e : ∀ p q : Int, twelve p q = twelve (p % 12) (q % 12) := by
    intro p q; unfold twelve; simp only [branch_eq]
    have : p % 12 % 12 = p % 12 := by omega
    have : q % 12 % 12 = q % 12 := by omega
    simp [*]
  have t : ∀ p q : Int, twelve p q = AlmSpec.twelve (p % 12) (q % 12) := by
    intro p q
    rw [e]
    have := C17_twelve_table (p % 12).toNat (by omega) (q % 12).toNat (by omega)
    have e1 : (((p % 12).toNat : Nat) : Int) = p % 12 := by omega
    have e2 : (((q % 12).toNat : Nat) : Int) = q % 12 := by omega
    rw [e1, e2] at this
    exact this
  have ds : 0 ≤ AlmSpec.dragonStart (q % 12) ∧ AlmSpec.dragonStart (q % 12) < 12 := by
    unfold AlmSpec.dragonStart; split <;> omega
  refine ⟨t p q, ?_, ?_⟩
  · rw [t]; unfold AlmSpec.twelve; omega
  · rw [t, t]; unfold AlmSpec.twelve; omega

/-! ### 28 mansions -/

/-- for EVERY day number: the table formula `[10,18,26,6,14,22,2][weekday] − 7·(day branch)` with weekday
(j+1) mod 7 and pillar (j+49) mod 60 is the unbroken 28-cycle (j + 11) mod 28 — never refused. -/
theorem C17_mansion (j : Int) : mansion (weekOfJdn j) ((j + 49) % 60) = some (AlmSpec.mansion j) := by
  unfold mansion AlmSpec.mansion
  rw [C07_week j, mansionBase_of _ (by omega) (by omega)]
  simp only [Option.map]
  rw [branch_eq, indexOf_28, indexOf_28]
  congr 1
  omega

/-- one mansion per day without a break, and the mansion's luminary (七曜) is that day's weekday -/
theorem C17_mansion_step (j : Int) :
    AlmSpec.mansion (j + 1) = (AlmSpec.mansion j + 1) % 28 ∧
    sevenStar (AlmSpec.mansion j) = weekOfJdn j ∧ AlmSpec.luminary (AlmSpec.mansion j) = AlmSpec.weekday j := by
  unfold AlmSpec.mansion sevenStar AlmSpec.luminary AlmSpec.weekday
  rw [C07_week, indexOf_7, tmod_nonneg_eq _ _ (by omega)]
  omega

/-- the mansion of a civil date (sexagenary-day view), inside a tiling interval: (day number + 11) mod 28 -/
theorem C17_mansion_civil (E : Eph) (hl : ∀ y, E.leap y ≤ 12) (a b : Int) (ht : Lunar.TilesOn E a b) (Y M D : Int)
    (hY : a ≤ Y) (hY2 : Y ≤ b) (hlo : Lunar.first E ⟨a, 0⟩ ≤ jdn Y M D) (hhi : jdn Y M D < Lunar.first E ⟨b + 1, 0⟩)
    (v : SC.DayView) (h : SC.ofSolarDay E Y M D = some v) :
    mansion (weekOfJdn (jdn Y M D)) v.day = some (AlmSpec.mansion (jdn Y M D)) := by
  rw [C07_view E hl a b ht Y M D hY hY2 hlo hhi v h]
  exact C17_mansion _

/-! ### six-day star (六曜), moon phase, minor Ren -/

/-- after D12: (month number + day − 2) mod 6 for every month number ≥ 1 and day ≥ 1; it restarts at each month
at (month − 1) mod 6 and advances one per day -/
theorem C17_six (m d : Int) (hm : 1 ≤ m) (hd : 1 ≤ d) :
    six m d = AlmSpec.six m d ∧ six m 1 = (m - 1) % 6 ∧ six m (d + 1) = (six m d + 1) % 6 := by
  unfold six AlmSpec.six
  rw [indexOf_6, indexOf_6, indexOf_6, tmod_nonneg_eq _ _ (by omega), tmod_nonneg_eq _ _ (by omega),
    tmod_nonneg_eq _ _ (by omega)]
  omega

/-- a leap month uses its own number: the month number fed to the star is the same for the leap month (listing
position = leap) and the month it repeats (position leap − 1) -/
theorem C17_six_leap (E : Eph) (y : Int) (L : Nat) (hL : E.leap y = L) (h0 : 0 < L) :
    absMonth E ⟨y, L⟩ = L ∧ absMonth E ⟨y, L - 1⟩ = L := by
  unfold absMonth Lunar.monthWithLeap
  simp only [hL]
  constructor
  · have h1 : ¬ (L = 0 ∨ L < L) := by omega
    simp only [h1, if_false, if_true]
    omega
  · have h1 : (L = 0 ∨ L - 1 < L) := by omega
    simp only [h1, if_true]
    omega

/-- the defect D12 as it was: with the SIGNED month the leap month differs from its twin
(2020 leap-4 day 1 gave 1, regular 4 day 1 gives 3) -/
theorem C17_six_signed_differs : sixSigned (-4) 1 = 1 ∧ six 4 1 = 3 := by decide

/-- moon phase = day − 1 (30 names), minor Ren = ((month−1) + (day−1) + hour index) mod 6, each step by step -/
theorem C17_phase_ren (m d h : Int) (hm : 1 ≤ m) (hd : 1 ≤ d) (hd2 : d ≤ 30) :
    phase d = AlmSpec.phase d ∧ renMonth m = AlmSpec.ren m 1 0 ∧ renDay m d = AlmSpec.ren m d 0 ∧
    renHour m d h = AlmSpec.ren m d ((h + 1) / 2) ∧ renDay m (d + 1) = (renDay m d + 1) % 6 := by
  unfold phase renHour renDay renMonth AlmSpec.phase AlmSpec.ren
  simp only [indexOf_6, indexOf_30]
  rw [tmod_nonneg_eq _ _ (by omega)]
  refine ⟨?_, ?_, ?_, ?_, ?_⟩ <;> omega

/-! ### flying nine stars: year and month -/

/-- for EVERY year: the code's `63 + 3·(era index) − (sexagenary index)` is (1864 − y) mod 9: One-White in 1864
(first year of an Upper Era), one star back per year -/
theorem C17_nine_year (y : Int) :
    yearNine y = AlmSpec.yearNine y ∧ yearNine 1864 = 0 ∧ yearNine (y + 1) = (yearNine y + 8) % 9 := by
  have e : ∀ y : Int, yearNine y = (1864 - y) % 9 := by
    intro y
    unfold yearNine sixtyIdx SC.yearPillar
    rw [indexOf_9, indexOf_9, SC.indexOf_60]
    have h1 : (y - 1864) / 20 % 9 / 3 = (y - 1864) / 60 % 3 := by omega
    have h2 : (y - 4) % 60 = (y - 1864) - 60 * ((y - 1864) / 60) := by omega
    rw [h1, h2]
    omega
  refine ⟨e y, by rw [e]; decide, ?_⟩
  rw [e, e]; omega

/-- COMPLETE ENUMERATION (144 pairs): month star by year-branch group and month branch -/
theorem C17_nine_month_table : ∀ yb : Nat, yb < 12 → ∀ mb : Nat, mb < 12 →
    monthNine (yb : Int) (mb : Int) = AlmSpec.monthNine (yb : Int) (mb : Int) := by decide

/-- …hence for all pillar indices; the Yin month starts at 8-White / 5-Yellow / 2-Black by year group -/
theorem C17_nine_month (yp mp : Int) :
    monthNine yp mp = AlmSpec.monthNine (yp % 12) (mp % 12) ∧
    AlmSpec.monthNine (yp % 12) 2 = (if yp % 12 % 3 = 0 then 7 else if yp % 12 % 3 = 1 then 4 else 1) := by
  constructor
  · have e : monthNine yp mp = monthNine (yp % 12) (mp % 12) := by
      unfold monthNine; simp only [branch_eq]
      have : yp % 12 % 12 = yp % 12 := by omega
      have : mp % 12 % 12 = mp % 12 := by omega
      simp [*]
    rw [e]
    have := C17_nine_month_table (yp % 12).toNat (by omega) (mp % 12).toNat (by omega)
    have e1 : (((yp % 12).toNat : Nat) : Int) = yp % 12 := by omega
    have e2 : (((mp % 12).toNat : Nat) : Int) = mp % 12 := by omega
    rw [e1, e2] at this
    exact this
  · unfold AlmSpec.monthNine
    dsimp only
    split <;> (try split) <;> omega

/-- one star back per month, also from the Chou month of one year to the Yin month of the next -/
theorem C17_nine_month_step (yb mb : Int) (hm : 0 ≤ mb) (hm2 : mb < 12) :
    (mb ≠ 1 → AlmSpec.monthNine yb ((mb + 1) % 12) = (AlmSpec.monthNine yb mb + 8) % 9) ∧
    AlmSpec.monthNine ((yb + 1) % 12) 2 = (AlmSpec.monthNine yb 1 + 8) % 9 := by
  unfold AlmSpec.monthNine
  dsimp only
  constructor
  · intro h; split <;> (try split) <;> omega
  · have : (yb + 1) % 12 % 3 = (yb % 3 + 1) % 3 := by omega
    rw [this]
    split <;> (try split) <;> (try split) <;> (try split) <;> omega

/-- the pillar `LunarMonth::get_sixty_cycle` gives the month at POSITION idx of the year's listing (a leap month
counts as a position — pinned by the library's unit tests lunar::test44..47): branch (idx + 2) mod 12, stem by Five
Tigers; never refused -/
theorem C17_lunar_month_pillar (y idx : Int) :
    SC.lunarMonthPillar y idx = some ((idx + 2 + 12 * (SC.yearPillar y % 10)) % 60) := by
  unfold SC.lunarMonthPillar
  rw [SC.indexOf_10, SC.indexOf_12]
  have e1 : ((SC.yearPillar y % 10 + 1) * 2 + idx) % 10 = (idx + 2 + 12 * (SC.yearPillar y % 10)) % 10 := by omega
  have e2 : (idx + 2) % 12 = (idx + 2 + 12 * (SC.yearPillar y % 10)) % 12 := by omega
  rw [e1, e2]
  exact SC.pairIndex_crt _

/-- nine star of a lunar month = the (year branch, month branch) rule applied to the lunar year's branch and the
branch of the month's listing position -/
theorem C17_nine_lunar_month (x : Lunar.Month) :
    lunarMonthNine x = some (AlmSpec.monthNine ((x.y - 4) % 12) (((x.idx : Int) + 2) % 12)) := by
  unfold lunarMonthNine
  rw [C17_lunar_month_pillar]
  simp only [Option.map]
  rw [(C17_nine_month _ _).1, C08_yearPillar]
  congr 2 <;> omega

/-- nine star of the i-th sexagenary month (0 = Yin) of year y ≥ 0: year branch (y − 4) mod 12, month branch (2 + i) mod 12 -/
theorem C17_nine_sc_month (y i : Int) (hy : 0 ≤ y) (hy2 : y ≤ 9999) (hi : 0 ≤ i) (hi2 : i ≤ 11) :
    scMonthNine y i = some (AlmSpec.monthNine ((y - 4) % 12) ((2 + i) % 12)) := by
  unfold scMonthNine SC.firstMonthPillar
  have n1 : ¬ (y < -1 ∨ y > 9999) := by omega
  simp only [n1, if_false]
  rw [SC.indexOf_10]
  have e1 : ((SC.yearPillar y % 10 + 1) * 2) % 10 = (2 + 12 * (SC.yearPillar y % 10)) % 10 := by omega
  have e2 : (2 : Int) = (2 + 12 * (SC.yearPillar y % 10)) % 12 := by omega
  have hp : SC.pairIndex (((SC.yearPillar y % 10 + 1) * 2) % 10) 2 = some ((2 + 12 * (SC.yearPillar y % 10)) % 60) := by
    have := SC.pairIndex_crt (2 + 12 * (SC.yearPillar y % 10))
    rw [← e1, ← e2] at this
    exact this
  rw [hp]
  have ht : (y * 12 + 0 + i) / 12 = y := by omega
  simp only [ht, n1, if_false]
  rw [(C17_nine_month _ _).1, C08_yearPillar]
  unfold SC.cycNext
  rw [SC.indexOf_60]
  congr 2 <;> omega
/-! ### flying nine stars: day -/

/-- the spec's star sequence between turning points: starts at One-White (0) on a winter turning point and at
Nine-Purple (8) on a summer one, one step up resp. down per day -/
theorem C17_nine_day_step (j t : Int) :
    AlmSpec.dayNine t t true = 0 ∧ AlmSpec.dayNine t t false = 8 ∧
    AlmSpec.dayNine (j + 1) t true = (AlmSpec.dayNine j t true + 1) % 9 ∧
    AlmSpec.dayNine (j + 1) t false = (AlmSpec.dayNine j t false + 8) % 9 := by
  unfold AlmSpec.dayNine
  simp only [if_true, Bool.false_eq_true, if_false]
  refine ⟨?_, ?_, ?_, ?_⟩ <;> omega

/-- the four branches of `get_nine_star` pick the LATEST turning point on or before the day among
(previous summer, winter, summer, next winter) — provided they are in chronological order — and count from it:
ascending from a winter point, descending from a summer point (the fourth branch is the repaired D26) -/
theorem C17_nine_day_offset (j sb nz sb2 : Int) (nz0 : Unit → Option Int) (hord : sb < nz ∧ nz < sb2) :
    (sb ≤ j → j < nz → (nineOffset j sb nz sb2 nz0).map (indexOf · 9) = some (AlmSpec.dayNine j sb true)) ∧
    (nz ≤ j → j < sb2 → (nineOffset j sb nz sb2 nz0).map (indexOf · 9) = some (AlmSpec.dayNine j nz false)) ∧
    (sb2 ≤ j → (nineOffset j sb nz sb2 nz0).map (indexOf · 9) = some (AlmSpec.dayNine j sb2 true)) ∧
    (j < sb → (nineOffset j sb nz sb2 nz0).map (indexOf · 9) = (nz0 ()).map fun t0 => AlmSpec.dayNine j t0 false) := by
  unfold nineOffset AlmSpec.dayNine
  refine ⟨?_, ?_, ?_, ?_⟩
  · intro h1 h2
    have : sb ≤ j ∧ j < nz := ⟨h1, h2⟩
    simp only [this, and_self, if_true, Option.map, indexOf_9]
  · intro h1 h2
    have n1 : ¬ (sb ≤ j ∧ j < nz) := by omega
    have : nz ≤ j ∧ j < sb2 := ⟨h1, h2⟩
    simp only [n1, this, and_self, if_true, if_false, Option.map, indexOf_9, Bool.false_eq_true]
  · intro h1
    have n1 : ¬ (sb ≤ j ∧ j < nz) := by omega
    have n2 : ¬ (nz ≤ j ∧ j < sb2) := by omega
    simp only [n1, n2, h1, if_true, if_false, Option.map, indexOf_9]
  · intro h1
    have n1 : ¬ (sb ≤ j ∧ j < nz) := by omega
    have n2 : ¬ (nz ≤ j ∧ j < sb2) := by omega
    have n3 : ¬ (sb2 ≤ j) := by omega
    simp only [n1, n2, n3, h1, if_true, if_false, Bool.false_eq_true]
    cases nz0 () <;> simp [Option.map, indexOf_9]

/-- a turning point as the code computes it (solstice day → its pillar through the lunar route → ± days) is the
Jiazi day nearest the solstice (a tie at 30 days goes forward): pillar 0, between 29 days before and 30 days
after — for every ephemeris, inside a tiling interval of lunar years -/
theorem C17_turn (E : Eph) (hl : ∀ y, E.leap y ≤ 12) (a b : Int) (ht : Lunar.TilesOn E a b) (g : Nat) (t : Int)
    (hs1 : jdnFirst ≤ E.termDay g) (hs2 : E.termDay g ≤ jdnLast)
    (hY : a ≤ (ofJdn (E.termDay g)).1) (hY2 : (ofJdn (E.termDay g)).1 ≤ b)
    (hlo : Lunar.first E ⟨a, 0⟩ ≤ E.termDay g) (hhi : E.termDay g < Lunar.first E ⟨b + 1, 0⟩)
    (h : turn E g = some t) :
    t = AlmSpec.nearestJiazi (E.termDay g) ∧ AlmSpec.pillar t = 0 ∧
    E.termDay g - 29 ≤ t ∧ t ≤ E.termDay g + 30 := by
  obtain ⟨_, hj⟩ := C01_jdn_ofJdn (E.termDay g) hs1 hs2
  unfold jdnT at hj
  unfold turn at h
  dsimp only at h
  split at h
  · simp at h
  · split at h
    · simp at h
    · split at h
      · simp at h
      · rename_i x k hr
        have hp := C07_pillar E hl a b ht _ _ _ hY hY2 (by rw [hj]; exact hlo) (by rw [hj]; exact hhi) (x, k) hr
        dsimp only at hp
        rw [hj] at hp
        split at h
        · simp at h
        · rename_i p hpp
          rw [hp] at hpp
          simp only [Option.some.injEq] at hpp
          subst hpp
          have key : ∀ (T : Int) (c : Bool), (if c = true then some T else none) = some t → T = t := by
            intro T c; cases c <;> simp
          have e := key _ _ h
          rw [hj] at e
          subst e
          unfold AlmSpec.nearestJiazi AlmSpec.pillar
          dsimp only
          refine ⟨?_, ?_, ?_, ?_⟩ <;> (split <;> (try split) <;> omega)

/-- inversion: an answer of `get_nine_star` for a civil date is built from the year's three turning points
(each a `turn`), the fourth one being consulted only in the D26 branch -/
theorem C17_nine_day (E : Eph) (Y M D r : Int) (h : dayNine E Y M D = some r) :
    ∃ sb nz sb2, turn E (24 * (Y - 1)).toNat = some sb ∧ turn E ((24 * (Y - 1)).toNat + 12) = some nz ∧
      turn E ((24 * (Y - 1)).toNat + 24) = some sb2 ∧
      (nineOffset (jdn Y M D) sb nz sb2
        (fun _ => if 24 * (Y - 1) - 12 < 0 then none else turn E (24 * (Y - 1) - 12).toNat)).map (indexOf · 9) = some r := by
  unfold dayNine at h
  cases hy : yearTurns E Y with
  | none => simp [hy] at h
  | some t =>
    simp only [hy] at h
    unfold yearTurns at hy
    split at hy
    · simp at hy
    · dsimp only at hy
      split at hy
      · simp at hy
      · split at hy
        · rename_i sb sb2 nz e1 e2 e3
          simp only [Option.some.injEq] at hy
          subst hy
          exact ⟨sb, nz, sb2, e1, e3, e2, h⟩
        · simp at hy

/-- what `C17_turn` needs to know about the solstice term g: its day is a civil day of the supported range lying
inside the tiling interval [a, b] of lunar years -/
def SolsticeIn (E : Eph) (a b : Int) (g : Nat) : Prop :=
  jdnFirst ≤ E.termDay g ∧ E.termDay g ≤ jdnLast ∧ a ≤ (ofJdn (E.termDay g)).1 ∧ (ofJdn (E.termDay g)).1 ≤ b ∧
  Lunar.first E ⟨a, 0⟩ ≤ E.termDay g ∧ E.termDay g < Lunar.first E ⟨b + 1, 0⟩

/-- THE day nine star of a civil date (years ≥ 2), every ephemeris, inside a tiling interval, solstices at least 60
days apart: with t0 < sb < nz < sb2 the Jiazi days nearest the previous summer solstice, the winter solstice of
December Y−1, the summer solstice of Y and the winter solstice of December Y, the star counts up from One-White
at the latest winter point on or before the day, resp. down from Nine-Purple at the latest summer point. -/
theorem C17_nine_day_civil (E : Eph) (hl : ∀ y, E.leap y ≤ 12) (a b : Int) (ht : Lunar.TilesOn E a b)
    (Y M D r : Int) (hY : 2 ≤ Y)
    (h0 : SolsticeIn E a b (24 * (Y - 1) - 12).toNat) (h1 : SolsticeIn E a b (24 * (Y - 1)).toNat)
    (h2 : SolsticeIn E a b ((24 * (Y - 1)).toNat + 12)) (h3 : SolsticeIn E a b ((24 * (Y - 1)).toNat + 24))
    (hsp : E.termDay (24 * (Y - 1) - 12).toNat + 60 ≤ E.termDay (24 * (Y - 1)).toNat ∧
      E.termDay (24 * (Y - 1)).toNat + 60 ≤ E.termDay ((24 * (Y - 1)).toNat + 12) ∧
      E.termDay ((24 * (Y - 1)).toNat + 12) + 60 ≤ E.termDay ((24 * (Y - 1)).toNat + 24))
    (h : dayNine E Y M D = some r) :
    let t0 := AlmSpec.nearestJiazi (E.termDay (24 * (Y - 1) - 12).toNat)
    let sb := AlmSpec.nearestJiazi (E.termDay (24 * (Y - 1)).toNat)
    let nz := AlmSpec.nearestJiazi (E.termDay ((24 * (Y - 1)).toNat + 12))
    let sb2 := AlmSpec.nearestJiazi (E.termDay ((24 * (Y - 1)).toNat + 24))
    t0 < sb ∧ sb < nz ∧ nz < sb2 ∧
    (jdn Y M D < sb → r = AlmSpec.dayNine (jdn Y M D) t0 false) ∧
    (sb ≤ jdn Y M D → jdn Y M D < nz → r = AlmSpec.dayNine (jdn Y M D) sb true) ∧
    (nz ≤ jdn Y M D → jdn Y M D < sb2 → r = AlmSpec.dayNine (jdn Y M D) nz false) ∧
    (sb2 ≤ jdn Y M D → r = AlmSpec.dayNine (jdn Y M D) sb2 true) := by
  intro t0 sb nz sb2
  obtain ⟨sb', nz', sb2', e1, e2, e3, hr⟩ := C17_nine_day E Y M D r h
  obtain ⟨a1, a2, a3, a4, a5, a6⟩ := h1
  obtain ⟨b1, b2, b3, b4, b5, b6⟩ := h2
  obtain ⟨c1, c2, c3, c4, c5, c6⟩ := h3
  obtain ⟨d1, d2, d3, d4, d5, d6⟩ := h0
  obtain ⟨p1, _, p3, p4⟩ := C17_turn E hl a b ht _ sb' a1 a2 a3 a4 a5 a6 e1
  obtain ⟨q1, _, q3, q4⟩ := C17_turn E hl a b ht _ nz' b1 b2 b3 b4 b5 b6 e2
  obtain ⟨r1, _, r3, r4⟩ := C17_turn E hl a b ht _ sb2' c1 c2 c3 c4 c5 c6 e3
  have hsb : sb' = sb := p1
  have hnz : nz' = nz := q1
  have hsb2 : sb2' = sb2 := r1
  have t0r : E.termDay (24 * (Y - 1) - 12).toNat - 29 ≤ t0 ∧ t0 ≤ E.termDay (24 * (Y - 1) - 12).toNat + 30 := by
    show _ ≤ AlmSpec.nearestJiazi _ ∧ AlmSpec.nearestJiazi _ ≤ _
    unfold AlmSpec.nearestJiazi AlmSpec.pillar
    dsimp only
    constructor <;> (split <;> omega)
  have hord : sb' < nz' ∧ nz' < sb2' := by omega
  obtain ⟨o1, o2, o3, o4⟩ := C17_nine_day_offset (jdn Y M D) sb' nz' sb2'
    (fun _ => if 24 * (Y - 1) - 12 < 0 then none else turn E (24 * (Y - 1) - 12).toNat) hord
  rw [hsb, hnz, hsb2] at o1 o2 o3 o4 hr
  refine ⟨by omega, by omega, by omega, ?_, ?_, ?_, ?_⟩
  · intro hj
    have := o4 hj
    rw [hr] at this
    have hn : ¬ (24 * (Y - 1) - 12 < 0) := by omega
    simp only [hn, if_false] at this
    cases ht0 : turn E (24 * (Y - 1) - 12).toNat with
    | none => rw [ht0] at this; simp at this
    | some t =>
      rw [ht0] at this
      simp only [Option.map, Option.some.injEq] at this
      obtain ⟨s1, _, _, _⟩ := C17_turn E hl a b ht _ t d1 d2 d3 d4 d5 d6 ht0
      rw [this, s1]
  · intro x y; have := o1 x y; rw [hr] at this; exact Option.some.inj this
  · intro x y; have := o2 x y; rw [hr] at this; exact Option.some.inj this
  · intro x; have := o3 x; rw [hr] at this; exact Option.some.inj this
/-- range edge (class D19): in civil year 1 both getters refuse — they first construct the winter solstice of
December year 0, which the library cannot represent (listed known findings C17-year1-*) -/
theorem C17_year1_refused (M D : Int) : dayNine realEph 1 M D = none ∧ ∀ j, hourAsc realEph 1 j = none := by
  have h0 : realEph.termDay 0 = 0 := (realEph_term_repr 0 (by omega)).2 (Or.inl rfl)
  constructor
  · unfold dayNine yearTurns
    simp [h0]
  · intro j
    unfold hourAsc
    simp [h0]

/-! ### flying nine stars: hour; hour spirits -/

/-- for all day pillars and hour indices: start star by half-year and day-branch group (Zi-Wu-Mao-You 1/9,
Chen-Xu-Chou-Wei 4/6, Yin-Shen-Si-Hai 7/3), one star per double-hour, up in the ascending half, down otherwise -/
theorem C17_nine_hour (asc : Bool) (dp e : Int) :
    hourNineOf asc dp e = AlmSpec.hourNine (if asc then 0 else 12) (dp % 12) e ∧
    hourNineOf asc dp (e + 1) = (hourNineOf asc dp e + (if asc then 1 else 8)) % 9 := by
  unfold hourNineOf hourStart AlmSpec.hourNine
  rw [branch_eq]
  have e3 : dp % 12 % 3 = dp % 3 := by omega
  cases asc <;> simp only [indexOf_9, e3, if_true, if_false, Bool.false_eq_true] <;>
    (constructor <;> (repeat' split) <;> omega)

/-- the half-year test after D24: ascending exactly between the winter and the summer solstice day of the civil
year and again from the December solstice day on -/
theorem C17_hour_asc (E : Eph) (Y j : Int) (b : Bool) (h : hourAsc E Y j = some b) :
    (b = true ↔ (E.termDay (24 * (Y - 1)).toNat ≤ j ∧ j < E.termDay ((24 * (Y - 1)).toNat + 12)) ∨
      E.termDay ((24 * (Y - 1)).toNat + 24) ≤ j) := by
  unfold hourAsc at h
  split at h
  · simp at h
  · dsimp only at h
    split at h
    · simp at h
    · simp only [Option.some.injEq] at h
      rw [← h, decide_eq_true_eq]

/-- …which is: the solar term the day lies in is one of the twelve from the winter solstice up to (not including)
the summer solstice — whenever term days are non-decreasing over the 37 terms from the year's first solstice and
the day's term is one of them (true for every date of years 1..9998 on the extracted table) -/
theorem C17_hour_asc_term (E : Eph) (Y j : Int) (g : Nat) (b : Bool)
    (hmono : ∀ p q : Nat, (24 * (Y - 1)).toNat ≤ p → p ≤ q → q ≤ (24 * (Y - 1)).toNat + 36 → E.termDay p ≤ E.termDay q)
    (hterm : E.termDay g ≤ j ∧ j < E.termDay (g + 1))
    (hrange : (24 * (Y - 1)).toNat ≤ g ∧ g < (24 * (Y - 1)).toNat + 36)
    (h : hourAsc E Y j = some b) : (b = true ↔ g % 24 < 12) := by
  rw [C17_hour_asc E Y j b h]
  generalize hG : (24 * (Y - 1)).toNat = G at *
  have hG24 : G % 24 = 0 := by omega
  by_cases c1 : g < G + 12
  · have m1 := hmono G g (Nat.le_refl _) hrange.1 (by omega)
    have m2 := hmono (g + 1) (G + 12) (by omega) (by omega) (by omega)
    constructor
    · intro _; omega
    · intro _; left; omega
  · by_cases c2 : g < G + 24
    · have m1 := hmono (G + 12) g (by omega) (by omega) (by omega)
      have m2 := hmono (g + 1) (G + 24) (by omega) (by omega) (by omega)
      constructor
      · intro hh; rcases hh with hh | hh <;> omega
      · intro _; omega
    · have m1 := hmono (G + 24) g (by omega) (by omega) (by omega)
      constructor
      · intro _; omega
      · intro _; right; omega

/-- the sexagenary-hour view feeds the formula with the day pillar rolled at 23:00 and hour index 0 for 23:xx;
the lunar-hour view with the lunar day's own pillar and index (hour+1)/2 mod 12 — so at 23:xx the lunar-hour view
repeats the star of the day's first hour (pinned by the library's unit test nine::test11), while the
sexagenary-hour view already shows the next day's first star -/
theorem C17_nine_hour_views (E : Eph) (Y M D h : Int) (v : SC.HourView) (sd : Int × Int × Int) (lp : Int)
    (hh : 0 ≤ h) (hh2 : h ≤ 23) :
    schNine E Y M D h v = (hourAsc E Y (jdn Y M D)).map (fun asc => hourNineOf asc v.day (if h = 23 then 0 else (h + 1) / 2)) ∧
    lhNine E sd lp h = (hourAsc E sd.1 (jdn sd.1 sd.2.1 sd.2.2)).map (fun asc => hourNineOf asc lp ((h + 1) / 2 % 12)) ∧
    (h = 23 → (h + 1) / 2 % 12 = 0) := by
  unfold schNine lhNine
  have e1 : Int.tmod (if h = 23 then 0 else (h + 1) / 2) 12 = (if h = 23 then 0 else (h + 1) / 2) := by
    rw [tmod_nonneg_eq _ _ (by split <;> omega)]; split <;> omega
  have e2 : Int.tmod ((h + 1) / 2) 12 = (h + 1) / 2 % 12 := tmod_nonneg_eq _ _ (by omega)
  rw [e1, e2]
  exact ⟨rfl, rfl, by omega⟩

/-! ### the hypotheses on the extracted data -/

/-- on the extracted table, term days grow by at least 14 per term over the whole representable range -/
theorem C17_real_term_spacing (p : Nat) (d : Nat) (h1 : 1 ≤ p) (h2 : p + d ≤ 239977) :
    realEph.termDay p + 14 * d ≤ realEph.termDay (p + d) := by
  induction d with
  | zero => simp
  | succ d ih =>
    have := ih (by omega)
    have inc := realEph_termInc (p + d) (by omega) (by omega)
    have e : p + (d + 1) = p + d + 1 := by omega
    rw [e]
    omega

/-- …so the hypotheses of `C17_hour_asc_term` (monotone term days) and `C17_nine_day_civil` (solstices ≥ 60 days
apart) hold on the extracted table for every civil year 2..9998 -/
theorem C17_real_hyps (Y : Int) (hY : 2 ≤ Y) (hY2 : Y ≤ 9998) :
    (∀ p q : Nat, (24 * (Y - 1)).toNat ≤ p → p ≤ q → q ≤ (24 * (Y - 1)).toNat + 36 → realEph.termDay p ≤ realEph.termDay q) ∧
    realEph.termDay (24 * (Y - 1) - 12).toNat + 60 ≤ realEph.termDay (24 * (Y - 1)).toNat ∧
    realEph.termDay (24 * (Y - 1)).toNat + 60 ≤ realEph.termDay ((24 * (Y - 1)).toNat + 12) ∧
    realEph.termDay ((24 * (Y - 1)).toNat + 12) + 60 ≤ realEph.termDay ((24 * (Y - 1)).toNat + 24) := by
  refine ⟨?_, ?_, ?_, ?_⟩
  · intro p q h1 h2 h3
    have := C17_real_term_spacing p (q - p) (by omega) (by omega)
    have e : p + (q - p) = q := by omega
    rw [e] at this
    omega
  · have := C17_real_term_spacing (24 * (Y - 1) - 12).toNat 12 (by omega) (by omega)
    have e : (24 * (Y - 1) - 12).toNat + 12 = (24 * (Y - 1)).toNat := by omega
    rw [e] at this
    omega
  · have := C17_real_term_spacing (24 * (Y - 1)).toNat 12 (by omega) (by omega)
    omega
  · have := C17_real_term_spacing ((24 * (Y - 1)).toNat + 12) 12 (by omega) (by omega)
    have e : (24 * (Y - 1)).toNat + 12 + 12 = (24 * (Y - 1)).toNat + 24 := by omega
    rw [e] at this
    omega
/-! ### non-vacuity on the current tree's data -/

/-- 2024-02-10 (Jia-Chen day, Bing-Yin month, lunar 2024-1-1): officer Man (2), spirit 4, mansion Di (2) whose
luminary Saturn (6) is the weekday Saturday (6), day star Five-Yellow (4), six-day star 0, phase 0, minor Ren 0 -/
example : (dayOut realEph 2024 2 10).map (fun o => [o.duty, o.twelve, o.mansion, o.luminary, o.week, o.nine.getD (-1), o.lSix, o.lPhase, o.lRen])
    = some [2, 4, 2, 6, 6, 4, 0, 0, 0] := by decide +kernel

/-- the turning points of 2024 as day numbers: Jiazi days 2023-12-20 + 12 = 2024-01-01 (winter), +180 (summer), +360 -/
example : yearTurns realEph 2024 = some (2460311, 2460491, 2460671) := by decide +kernel

/-- the hypotheses of `C17_nine_day_civil` are satisfiable on the extracted data: the four solstices around 2024
lie inside the tiling interval 240..9998 and are more than 60 days apart -/
example : SolsticeIn realEph 240 9998 48540 ∧ SolsticeIn realEph 240 9998 48552 ∧
    SolsticeIn realEph 240 9998 48564 ∧ SolsticeIn realEph 240 9998 48576 ∧
    realEph.termDay 48540 + 60 ≤ realEph.termDay 48552 ∧ (24 * ((2024 : Int) - 1)).toNat = 48552 := by
  unfold SolsticeIn; decide +kernel

/-- an hour after the December solstice ascends (D24): 2024-12-25 01:30 has star index 7, one above 00:30 -/
example : (hourOut realEph 2024 12 25 1 30 0).map (fun o => [o.nine.getD (-1), o.twelve]) = some [7, 7] := by decide +kernel

end Tyme
