import Tyme.Lemmas.Cache
import Tyme.Model.ObjMemo
import Tyme.Model.ProviderLock
/-!
C10 — answers do not depend on call history, thread interleaving or earlier refusals. Property theorems (`C10_*`).
Model: `Cache.step` / `Cache.run` (one `LunarMonth::from_ym` per step: look up the memo, else construct and
insert; a refused construction leaves the memo untouched — D2), `Cache.mstep` (the two critical sections as
separate atomic steps, for interleavings), `Cache.key` = format!("{}_{}", year, month) as bytes (D1).
`pure` is ANY function (the uncached constructor); nothing below depends on what it computes.
What the model cannot exhibit: the Rust memory model, lock poisoning mechanics, lazy_static initialisation —
those are stress-tested only (16 threads × overlapping, colliding and invalid queries).
-/
namespace Tyme
open Cache

/-- the delimited decimal key identifies the request: no two (year, month) pairs share a key — all integers -/
theorem C10_key_injective (y m y' m' : Int) (h : key y m = key y' m') : y = y' ∧ m = m' := key_inj y m y' m' h

/-- …whereas the key used before the repair (no delimiter) collides: (1,12) and (11,2) both render "112" -/
theorem C10_old_key_collides : keyOld 1 12 = keyOld 11 2 ∧ ((1 : Int), (12 : Int)) ≠ (11, 2) := by decide

/-- one step: under the invariant, the answer IS the pure answer (hit or miss) -/
theorem C10_step_answer (pure : Int → Int → Option Rec) (c : State) (q : Int × Int) (hi : Inv key pure c) :
    (step key pure c q).2 = pure q.1 q.2 := by
  unfold step
  split
  · rename_i v hv
    obtain ⟨y, m, hk, hp⟩ := hi _ _ hv
    obtain ⟨e1, e2⟩ := key_inj _ _ _ _ hk
    rw [← e1, ← e2, hp]
  · split
    · rename_i h; rw [h]
    · rename_i v h; rw [h]

/-- ANY HISTORY: after any sequence of earlier requests (valid or refused, in any order, colliding digits or
not), every answer is the pure function of its own arguments. -/
theorem C10_history (pure : Int → Int → Option Rec) : ∀ (qs : List (Int × Int)) (c : State), Inv key pure c →
    (run key pure c qs).2 = qs.map (fun q => pure q.1 q.2) ∧ Inv key pure (run key pure c qs).1 := by
  intro qs
  induction qs with
  | nil => intro c hi; exact ⟨rfl, hi⟩
  | cons q qs ih =>
    intro c hi
    simp only [run, List.map_cons]
    have h1 := C10_step_answer pure c q hi
    have h2 := inv_step key pure c q hi
    obtain ⟨i1, i2⟩ := ih _ h2
    exact ⟨by rw [h1, i1], i2⟩

/-- from a fresh process (empty memo) in particular -/
theorem C10_fresh (pure : Int → Int → Option Rec) (qs : List (Int × Int)) :
    (run key pure [] qs).2 = qs.map (fun q => pure q.1 q.2) := (C10_history pure qs [] (inv_nil key pure)).1

/-- a refused request changes nothing: the memo is exactly as before -/
theorem C10_refusal_harmless (pure : Int → Int → Option Rec) (c : State) (q : Int × Int) (hi : Inv key pure c)
    (hr : (step key pure c q).2 = none) : (step key pure c q).1 = c := by
  have hp : pure q.1 q.2 = none := by rw [← C10_step_answer pure c q hi]; exact hr
  unfold step
  split
  · rfl
  · simp [hp]

/-- the same query before and after any history (including injected refusals) gives the same answer -/
theorem C10_history_independent (pure : Int → Int → Option Rec) (qs : List (Int × Int)) (q : Int × Int) :
    (step key pure (run key pure [] qs).1 q).2 = (step key pure [] q).2 := by
  rw [C10_step_answer pure _ q (C10_history pure qs [] (inv_nil key pure)).2,
      C10_step_answer pure [] q (inv_nil key pure)]

/-- SCHEDULES (model level): for every interleaving of the critical sections of any number of concurrent
callers — any list of `look` / `ins` micro-steps whatsoever — the invariant is preserved, so every `look` that
hits returns the pure answer of its own request, and a second `ins` of a key stores the same value. -/
theorem C10_interleave (pure : Int → Int → Option Rec) : ∀ (ops : List MOp) (c : State), Inv key pure c →
    Inv key pure (ops.foldl (fun s o => (mstep key pure s o).1) c) := by
  intro ops
  induction ops with
  | nil => intro c hi; exact hi
  | cons o os ih =>
    intro c hi
    simp only [List.foldl_cons]
    apply ih
    cases o with
    | look y m => exact hi
    | ins y m =>
      simp only [mstep]
      split
      · exact hi
      · rename_i v hv; exact inv_insert key pure c y m v hi hv

theorem C10_look_answer (pure : Int → Int → Option Rec) (c : State) (hi : Inv key pure c) (y m : Int) (v : Rec)
    (h : (mstep key pure c (.look y m)).2 = some v) : pure y m = some v := by
  simp only [mstep] at h
  obtain ⟨y', m', hk, hp⟩ := hi _ _ h
  obtain ⟨e1, e2⟩ := key_inj _ _ _ _ hk
  rw [← e1, ← e2]; exact hp

/-- non-vacuity: a concrete history with a collision candidate and a refusal -/
example : (run key (fun y m => if m = 13 then none else some ⟨y, m, 30, 0, 0⟩) [] [(1, 12), (11, 2), (2024, 13), (1, 12)]).2 =
    [some ⟨1, 12, 30, 0, 0⟩, some ⟨11, 2, 30, 0, 0⟩, none, some ⟨1, 12, 30, 0, 0⟩] := by decide


end Tyme

/-! ### per-object lazy memos of LunarDay / LunarHour (Model/ObjMemo.lean) -/
namespace Tyme
open ObjMemo

theorem C10_obj_inv_step {α β : Type} (view : Nat → α → β) (stepArgs : α → Int → α) (o : Obj α β) (op : Op)
    (hi : Inv view o) :
    Inv view (step view stepArgs o op).1 ∧ (step view stepArgs o op).2 = (pureStep view stepArgs o.args op).2 ∧
    (step view stepArgs o op).1.args = (pureStep view stepArgs o.args op).1 := by
  cases op with
  | get i =>
    simp only [step, pureStep, mget]
    cases hm : o.memo i with
    | some v =>
      have := hi i v hm
      simp only [this]
      exact ⟨hi, trivial, trivial⟩
    | none =>
      refine ⟨?_, rfl, rfl⟩
      intro j v hj
      simp only at hj
      by_cases hji : j = i
      · simp only [hji, if_true, Option.some.injEq] at hj; rw [← hj, hji]
      · simp only [hji, if_false] at hj; exact hi j v hj
  | clone => exact ⟨hi, rfl, rfl⟩
  | next n =>
    simp only [step, pureStep, mnext]
    by_cases h0 : n = 0
    · simp only [h0, if_true]; exact ⟨hi, trivial, trivial⟩
    · simp only [h0, if_false]
      refine ⟨?_, rfl, rfl⟩
      intro j v hj
      simp [fresh] at hj

/-- HISTORY INDEPENDENCE of the per-object memos: along ANY history of memoised getters, clones and steps on one value,
every observable output equals that of the memo-free computation on the numbers alone. -/
theorem C10_obj_history {α β : Type} (view : Nat → α → β) (stepArgs : α → Int → α) :
    ∀ (ops : List Op) (o : Obj α β), Inv view o →
      (run view stepArgs o ops).2 = (pureRun view stepArgs o.args ops).2 ∧ Inv view (run view stepArgs o ops).1 := by
  intro ops
  induction ops with
  | nil => intro o hi; exact ⟨rfl, hi⟩
  | cons op ops ih =>
    intro o hi
    obtain ⟨i1, i2, i3⟩ := C10_obj_inv_step view stepArgs o op hi
    obtain ⟨j1, j2⟩ := ih _ i1
    simp only [run, pureRun]
    rw [i3] at j1
    exact ⟨by rw [i2, j1], j2⟩

/-- a freshly constructed value satisfies the invariant, so the theorem applies to every value an API user can hold -/
theorem C10_obj_fresh {α β : Type} (view : Nat → α → β) (stepArgs : α → Int → α) (a : α) (ops : List Op) :
    (run view stepArgs (fresh a : Obj α β) ops).2 = (pureRun view stepArgs a ops).2 :=
  (C10_obj_history view stepArgs ops (fresh a) (by intro i v h; simp [fresh] at h)).1

/-- what the invariant excludes: a step that keeps the filled slots (`Self { hour, ..self.clone() }`) answers with the
old value's view — a concrete two-operation history on which it differs from the memo-free computation -/
example : let view : Nat → Int → Int := fun _ a => a
    let o : Obj Int Int := (mget view (fresh 5) 0).2
    let bad : Obj Int Int := { o with args := o.args + 1 }   -- stepped numbers, slots carried over
    (mget view bad 0).1 = 5 ∧ view 0 bad.args = 6 := by decide

end Tyme

/-! ### the process-wide strategy slots behind a mutex (Model/ProviderLock.lean) -/
namespace Tyme
open ProviderLock

/-- the poison-free reference: only the strategy in force matters -/
def pureAnswers {ρ α : Type} : (ρ → Option α) → List (Op ρ α) → List (Option α)
  | _, [] => []
  | f, .call r :: ops => f r :: pureAnswers f ops
  | _, .set g :: ops => none :: pureAnswers g ops

/-- HISTORY INDEPENDENCE of the strategy slots (code after D24): along any history of requests (refused ones included) and
strategy changes, every answer is the answer of the strategy in force at that point — the poison flag never matters. -/
theorem C10_provider_history {ρ α : Type} : ∀ (ops : List (Op ρ α)) (s : Slot ρ α),
    (run stepRecover s ops).2 = pureAnswers s.strategy ops := by
  intro ops
  induction ops with
  | nil => intro s; rfl
  | cons op ops ih =>
    intro s
    cases op with
    | call r =>
      simp only [run, stepRecover, pureAnswers]
      cases h : s.strategy r with
      | some a => simp only []; rw [ih]
      | none => simp only []; rw [ih]
    | set g =>
      simp only [run, stepRecover, pureAnswers]
      rw [ih]

/-- REFUSAL INDEPENDENCE of the strategy slots (code after D24): after ANY history of requests — refused ones included —
and strategy changes, a request is answered by the strategy set last, exactly as in a process that never saw a refusal. -/
theorem C10_provider_recover {ρ α : Type} (ops : List (Op ρ α)) (s : Slot ρ α) (r : ρ) :
    (stepRecover (run stepRecover s ops).1 (.call r)).2 = (run stepRecover s ops).1.strategy r := by
  simp only [stepRecover]
  cases h : (run stepRecover s ops).1.strategy r <;> rfl

/-- …whereas with `lock().unwrap()` one refused request makes every later request fail: the pre-repair behaviour (D24) -/
theorem C10_provider_unwrap_poisons {ρ α : Type} (s : Slot ρ α) (bad good : ρ) (hb : s.strategy bad = none)
    (a : α) (hg : s.strategy good = some a) (hp : s.poisoned = false) :
    (run stepUnwrap s [.call bad, .call good]).2 = [none, none] ∧
    (run stepRecover s [.call bad, .call good]).2 = [none, some a] := by
  simp [run, stepUnwrap, stepRecover, hb, hg, hp]

end Tyme
