import Tyme.Thm.C15
import Tyme.Lemmas.ScmTotal
import Tyme.Thm.C13
import Tyme.Thm.C02
/-!
C15, second file — TOTALITY of get_dog_day / get_plum_rain_day.

`C15_dog`, `C15_dog_iff`, `C15_plum`, `C15_plum_iff` (Thm/C15.lean) speak about calls that are *not refused*. The only
refusal the models `Series.dog` / `Series.plum` can make on a civil date of the years 2..9998 is that of
`SolarDay::get_lunar_day` (`Lunar.ofSolar`, a guess-and-walk search run with 40 rounds of fuel) on the ANCHOR days —
the Grain-in-Ear, summer-solstice and Slight-Heat days of the civil year — whose sexagenary pillar the code reads
through the lunar calendar. Here: that conversion DOES return on every anchor day (`Cont.ofSolar_total`, the anchor day
lying inside a tiling interval of lunar years), so both series are never refused and the characterisations hold with
no "if the call returns" hypothesis.

* `C15_anchor_total_real`, `C15_dog_total_real`, `C15_plum_total_real`, `C15_dog_none_real`, `C15_plum_none_real`:
  every civil date of the years 2..7, 9..22, 25..235, 237..238, 240..9998 — all years but the five D4 junction years
  8, 23, 24, 236, 239; proved from the tiling theorem (C02) and ten point evaluations (`c15_interval_facts`: the anchor
  days of the first / last civil year of each tiling interval lie between the interval's first and last new moon).
* `C15_dog_total_all`, `C15_plum_total_all`: every civil date of 2..9998, the five junction years included by the
  kernel computation of their 15 anchor days (`c15_bad_year_pillars`, the same computation `C15_dog` rests on).
-/
namespace Tyme
open Term SeriesSpec Series Lunar

local notation "T" => Eph.termDay realEph

/-- the first month of lunar year 1 of this run's data does not start before 0001-01-01 -/
theorem C15_first_year_real : 1721424 ≤ realEph.mFirst 1 0 := by decide +kernel

/-- the years free of the five D4 junction years 8, 23, 24, 236, 239 -/
def C15GoodYear (Y : Int) : Prop :=
  (2 ≤ Y ∧ Y ≤ 7) ∨ (9 ≤ Y ∧ Y ≤ 22) ∨ (25 ≤ Y ∧ Y ≤ 235) ∨ (237 ≤ Y ∧ Y ≤ 238) ∨ (240 ≤ Y ∧ Y ≤ 9998)

theorem C15_goodYear_iff (Y : Int) :
    C15GoodYear Y ↔ 2 ≤ Y ∧ Y ≤ 9998 ∧ Y ≠ 8 ∧ Y ≠ 23 ∧ Y ≠ 24 ∧ Y ≠ 236 ∧ Y ≠ 239 := by
  unfold C15GoodYear; omega

/-- get_lunar_day returns on the anchor days i = 11, 12, 13 of the civil years lo..b of a tiling interval [a,b] whose
first new moon precedes the Grain-in-Ear day of year lo and whose last one follows the Slight-Heat day of year b -/
private theorem pillar_total_interval (a b lo : Int) (ha0 : 0 ≤ a) (hlo : 2 ≤ lo) (hal : a ≤ lo) (hb : b ≤ 9998)
    (ht : TilesOn realEph a b)
    (F1 : realEph.mFirst a 0 ≤ realEph.termDay (24 * (lo - 1) + 11).toNat)
    (F2 : realEph.termDay (24 * (b - 1) + 13).toNat < realEph.mFirst (b + 1) 0)
    (Y : Int) (h1 : lo ≤ Y) (h2 : Y ≤ b) (i : Int) (hi : 11 ≤ i ∧ i ≤ 13) :
    ∃ p, pillarOf realEph (realEph.termDay (24 * (Y - 1) + i).toNat) = some p := by
  obtain ⟨y1, y2, _⟩ := anchor_in_year Y (by omega) (by omega) i (by omega)
  have m1 := term_le (24 * (lo - 1) + 11).toNat (24 * (Y - 1) + i).toNat (by omega) (by omega) (by omega)
  have m2 := term_le (24 * (Y - 1) + i).toNat (24 * (b - 1) + 13).toNat (by omega) (by omega) (by omega)
  generalize realEph.termDay (24 * (Y - 1) + i).toNat = j at *
  obtain ⟨v, e, ya, yb⟩ := Tyme.year_of_jdn j Y Y (by omega) (Int.le_refl _) (by omega) y1 y2
  have vv : Civil.valid (ofJdn j).1 (ofJdn j).2.1 (ofJdn j).2.2 = true := v
  have ej : jdn (ofJdn j).1 (ofJdn j).2.1 (ofJdn j).2.2 = j := e
  obtain ⟨r, hr⟩ := Cont.ofSolar_total realEph realEph_leap_le C13_newYearFacts_real C15_first_year_real a b ha0 (by omega) ht
    (ofJdn j).1 (ofJdn j).2.1 (ofJdn j).2.2 vv (by omega) (by omega)
    (by rw [ej]; show realEph.mFirst a 0 ≤ j; omega) (by rw [ej]; show j < realEph.mFirst (b + 1) 0; omega)
  obtain ⟨x, k⟩ := r
  unfold pillarOf
  rw [hr]
  exact ⟨_, C07_dayPillar _ _⟩

/-- ANCHOR DAYS, TOTAL: on the Grain-in-Ear, summer-solstice and Slight-Heat day (i = 11, 12, 13) of every civil year
but the five junction years, `get_lunar_day().get_sixty_cycle()` returns, and the pillar is (day number + 49) mod 60. -/
theorem C15_anchor_total_real (Y : Int) (hy : C15GoodYear Y) (i : Int) (hi : 11 ≤ i ∧ i ≤ 13) :
    pillarOf realEph (T (24 * (Y - 1) + i).toNat) = some ((T (24 * (Y - 1) + i).toNat + 49) % 60) := by
  obtain ⟨f1, f2, f3, f4, f5, f6, f7, f8, f9, f10⟩ := c15_interval_facts
  obtain ⟨t1, t2, t3, t4, t5⟩ := C02_good_intervals
  have h12 : 2 ≤ Y ∧ Y ≤ 9998 := by unfold C15GoodYear at hy; omega
  have ex : ∃ p, pillarOf realEph (realEph.termDay (24 * (Y - 1) + i).toNat) = some p := by
    rcases hy with c | c | c | c | c
    · exact pillar_total_interval 0 7 2 (by omega) (by omega) (by omega) (by omega) t1
        (by have z := C13_newYearFacts_real.zero
            have a := (anchor_in_year 2 (by omega) (by omega) 11 (by omega)).1
            have m := jdn_jan1_mono 1 2 (by omega)
            have jf : jdn 1 1 1 = 1721424 := by decide
            omega)
        f2 Y c.1 c.2 i hi
    · exact pillar_total_interval 9 22 9 (by omega) (by omega) (by omega) (by omega) t2 f3 f4 Y c.1 c.2 i hi
    · exact pillar_total_interval 25 235 25 (by omega) (by omega) (by omega) (by omega) t3 f5 f6 Y c.1 c.2 i hi
    · exact pillar_total_interval 237 238 237 (by omega) (by omega) (by omega) (by omega) t4 f7 f8 Y c.1 c.2 i hi
    · exact pillar_total_interval 240 9998 240 (by omega) (by omega) (by omega) (by omega) t5 f9 f10 Y c.1 c.2 i hi
  obtain ⟨p, hp⟩ := ex
  rw [hp, pillar_real Y h12.1 h12.2 i hi p hp]

/-- …and on the 15 anchor days of the five junction years by computation: every civil year 2..9998 -/
theorem C15_anchor_total_all (Y : Int) (h1 : 2 ≤ Y) (h2 : Y ≤ 9998) (i : Int) (hi : 11 ≤ i ∧ i ≤ 13) :
    pillarOf realEph (T (24 * (Y - 1) + i).toNat) = some ((T (24 * (Y - 1) + i).toNat + 49) % 60) := by
  by_cases hg : C15GoodYear Y
  · exact C15_anchor_total_real Y hg i hi
  · obtain ⟨b1, b2, b3, b4, b5, b6, b7, b8, b9, b10, b11, b12, b13, b14, b15⟩ := c15_bad_year_pillars
    have hY : Y = 8 ∨ Y = 23 ∨ Y = 24 ∨ Y = 236 ∨ Y = 239 := by unfold C15GoodYear at hg; omega
    have hI : i = 11 ∨ i = 12 ∨ i = 13 := by omega
    have use : ∀ g : Nat, pillarOK g = true → (24 * (Y - 1) + i).toNat = g →
        pillarOf realEph (realEph.termDay (24 * (Y - 1) + i).toNat) = some ((realEph.termDay (24 * (Y - 1) + i).toNat + 49) % 60) := by
      intro g hg e
      rw [e]
      unfold pillarOK at hg
      exact eq_of_beq hg
    rcases hY with e | e | e | e | e <;> rcases hI with e' | e' | e' <;> subst e <;> subst e'
    · exact use 179 b1 (by decide)
    · exact use 180 b2 (by decide)
    · exact use 181 b3 (by decide)
    · exact use 539 b4 (by decide)
    · exact use 540 b5 (by decide)
    · exact use 541 b6 (by decide)
    · exact use 563 b7 (by decide)
    · exact use 564 b8 (by decide)
    · exact use 565 b9 (by decide)
    · exact use 5651 b10 (by decide)
    · exact use 5652 b11 (by decide)
    · exact use 5653 b12 (by decide)
    · exact use 5723 b13 (by decide)
    · exact use 5724 b14 (by decide)
    · exact use 5725 b15 (by decide)

/-! ### Dog days -/

/-- get_dog_day returns once the lunar route answers on the year's summer-solstice day -/
private theorem dog_some (Y M D : Int) (h1 : 2 ≤ Y) (h2 : Y ≤ 9998)
    (hp : pillarOf realEph (realEph.termDay (24 * (Y - 1) + 12).toNat) = some ((realEph.termDay (24 * (Y - 1) + 12).toNat + 49) % 60)) :
    ∃ r, dog realEph Y (jdn Y M D) = some r := by
  have hs := termStart_real (fromIndex Y 12) (24 * (Y - 1) + 12).toNat (gidx_fromIndex Y 12 (by omega) (by omega)) (by omega) (by omega)
  have hl := termStart_real (Term.next (fromIndex Y 12) 3) (24 * (Y - 1) + 12 + 3).toNat (gidx_next Y 12 3 (by omega) (by omega) (by omega)) (by omega) (by omega)
  obtain ⟨a1, a2, a3, a4, a5⟩ := anchor_in_year Y h1 h2 12 (by omega)
  obtain ⟨r1, _⟩ := jdn_dec_range (Y - 1) (by omega) (by omega)
  obtain ⟨_, r2⟩ := jdn_dec_range Y (by omega) (by omega)
  obtain ⟨d1, d2, d3⟩ := jdn_dec_jan Y h1 (by omega)
  have sa := solstice_bounds Y h1 (by omega)
  exact ⟨_, dog_eq realEph Y (jdn Y M D) _ _ hs hp hl (by unfold JFIRST JLAST at *; omega)⟩

private theorem dog_pack (Y M D : Int) (hv : Civil.valid Y M D = true) (h1 : 2 ≤ Y) (h2 : Y ≤ 9998)
    (hp : pillarOf realEph (realEph.termDay (24 * (Y - 1) + 12).toNat) = some ((realEph.termDay (24 * (Y - 1) + 12).toNat + 49) % 60)) :
    ∃ r, dog realEph Y (jdn Y M D) = some r ∧
      (∃ g : Nat, 1 ≤ g ∧ g + 24 ≤ 239977 ∧ IsLatestKind T 12 (jdn Y M D) g ∧ r = dogAt (T g) (T (g + 3)) (jdn Y M D)) ∧
      ∀ k i : Int, r = some (k, i) ↔
        ∃ g : Nat, 1 ≤ g ∧ g + 3 ≤ 239977 ∧ g % 24 = 12 ∧ IsDogOf (T g) (T (g + 3)) (jdn Y M D) k i := by
  obtain ⟨r, hr⟩ := dog_some Y M D h1 h2 hp
  exact ⟨r, hr, C15_dog Y M D hv h1 h2 r hr, C15_dog_iff Y M D hv h1 h2 r hr⟩

/-- DOG DAYS, TOTAL: for every civil date of every year but the five junction years get_dog_day RETURNS (it is never
refused); what it returns is the spec function of the latest summer-solstice day on or before the day and the
Start-of-Autumn day that follows it; and it reports day i of period k exactly when the day is that day of the Dog days
counted from SOME year's summer solstice (third Geng day on or after it; ten days, then ten or twenty according to
whether the fifth Geng day precedes the Start-of-Autumn day, then ten). -/
theorem C15_dog_total_real (Y M D : Int) (hv : Civil.valid Y M D = true) (hy : C15GoodYear Y) :
    ∃ r, dog realEph Y (jdn Y M D) = some r ∧
      (∃ g : Nat, 1 ≤ g ∧ g + 24 ≤ 239977 ∧ IsLatestKind T 12 (jdn Y M D) g ∧ r = dogAt (T g) (T (g + 3)) (jdn Y M D)) ∧
      ∀ k i : Int, r = some (k, i) ↔
        ∃ g : Nat, 1 ≤ g ∧ g + 3 ≤ 239977 ∧ g % 24 = 12 ∧ IsDogOf (T g) (T (g + 3)) (jdn Y M D) k i := by
  have h12 : 2 ≤ Y ∧ Y ≤ 9998 := by unfold C15GoodYear at hy; omega
  exact dog_pack Y M D hv h12.1 h12.2 (C15_anchor_total_real Y hy 12 (by omega))

/-- …every civil date of 2..9998, the junction years by the computed anchor days -/
theorem C15_dog_total_all (Y M D : Int) (hv : Civil.valid Y M D = true) (h1 : 2 ≤ Y) (h2 : Y ≤ 9998) :
    ∃ r, dog realEph Y (jdn Y M D) = some r ∧
      (∃ g : Nat, 1 ≤ g ∧ g + 24 ≤ 239977 ∧ IsLatestKind T 12 (jdn Y M D) g ∧ r = dogAt (T g) (T (g + 3)) (jdn Y M D)) ∧
      ∀ k i : Int, r = some (k, i) ↔
        ∃ g : Nat, 1 ≤ g ∧ g + 3 ≤ 239977 ∧ g % 24 = 12 ∧ IsDogOf (T g) (T (g + 3)) (jdn Y M D) k i :=
  dog_pack Y M D hv h1 h2 (C15_anchor_total_all Y h1 h2 12 (by omega))

/-- "…and no other day is a Dog day": the code answers "not a Dog day" exactly for the days that are no day of the
Dog days counted from any year's summer solstice — every civil date of 2..9998. -/
theorem C15_dog_none_real (Y M D : Int) (hv : Civil.valid Y M D = true) (h1 : 2 ≤ Y) (h2 : Y ≤ 9998) :
    dog realEph Y (jdn Y M D) = some none ↔
      ¬ ∃ (g : Nat) (k i : Int), 1 ≤ g ∧ g + 3 ≤ 239977 ∧ g % 24 = 12 ∧ IsDogOf (T g) (T (g + 3)) (jdn Y M D) k i := by
  obtain ⟨r, hr, _, hiff⟩ := C15_dog_total_all Y M D hv h1 h2
  rw [hr]
  constructor
  · rintro h ⟨g, k, i, hg⟩
    have e : r = none := by simpa using h
    have := (hiff k i).2 ⟨g, hg⟩
    rw [e] at this; cases this
  · intro h
    cases r with
    | none => rfl
    | some q =>
      exfalso
      obtain ⟨k, i⟩ := q
      obtain ⟨g, hg⟩ := (hiff k i).1 rfl
      exact h ⟨g, k, i, hg⟩

/-! ### Plum rains -/

private theorem plum_some (Y M D : Int) (h1 : 2 ≤ Y) (h2 : Y ≤ 9998)
    (hpg : pillarOf realEph (realEph.termDay (24 * (Y - 1) + 11).toNat) = some ((realEph.termDay (24 * (Y - 1) + 11).toNat + 49) % 60))
    (hph : pillarOf realEph (realEph.termDay (24 * (Y - 1) + 13).toNat) = some ((realEph.termDay (24 * (Y - 1) + 13).toNat + 49) % 60)) :
    ∃ r, plum realEph Y (jdn Y M D) = some r := by
  have hg := termStart_real (fromIndex Y 11) (24 * (Y - 1) + 11).toNat (gidx_fromIndex Y 11 (by omega) (by omega)) (by omega) (by omega)
  have hh := termStart_real (Term.next (fromIndex Y 11) 2) (24 * (Y - 1) + 11 + 2).toNat (gidx_next Y 11 2 (by omega) (by omega) (by omega)) (by omega) (by omega)
  have e13 : 24 * (Y - 1) + 11 + 2 = 24 * (Y - 1) + 13 := by omega
  rw [e13] at hh
  obtain ⟨a1, a2, a3, a4, a5⟩ := anchor_in_year Y h1 h2 11 (by omega)
  obtain ⟨b1, b2, b3, b4, b5⟩ := anchor_in_year Y h1 h2 13 (by omega)
  obtain ⟨r1, _⟩ := jdn_dec_range (Y - 1) (by omega) (by omega)
  obtain ⟨_, r2⟩ := jdn_dec_range Y (by omega) (by omega)
  obtain ⟨d1, d2, d3⟩ := jdn_dec_jan Y h1 (by omega)
  have sa := solstice_bounds Y h1 (by omega)
  exact ⟨_, plum_eq realEph Y (jdn Y M D) _ _ hg hpg hh hph (by unfold JFIRST JLAST at *; omega)⟩

private theorem plum_pack (Y M D : Int) (hv : Civil.valid Y M D = true) (h1 : 2 ≤ Y) (h2 : Y ≤ 9998)
    (hpg : pillarOf realEph (realEph.termDay (24 * (Y - 1) + 11).toNat) = some ((realEph.termDay (24 * (Y - 1) + 11).toNat + 49) % 60))
    (hph : pillarOf realEph (realEph.termDay (24 * (Y - 1) + 13).toNat) = some ((realEph.termDay (24 * (Y - 1) + 13).toNat + 49) % 60)) :
    ∃ r, plum realEph Y (jdn Y M D) = some r ∧
      (∃ g : Nat, 1 ≤ g ∧ g + 24 ≤ 239977 ∧ IsLatestKind T 11 (jdn Y M D) g ∧ r = plumAt (T g) (T (g + 2)) (jdn Y M D)) ∧
      ∀ k i : Int, r = some (k, i) ↔
        ∃ g : Nat, 1 ≤ g ∧ g + 2 ≤ 239977 ∧ g % 24 = 11 ∧ IsPlumOf (T g) (T (g + 2)) (jdn Y M D) k i := by
  obtain ⟨r, hr⟩ := plum_some Y M D h1 h2 hpg hph
  exact ⟨r, hr, C15_plum Y M D hv h1 h2 r hr, C15_plum_iff Y M D hv h1 h2 r hr⟩

/-- PLUM RAINS, TOTAL: for every civil date of every year but the five junction years get_plum_rain_day RETURNS (it is
never refused); what it returns is the spec function of the latest Grain-in-Ear day on or before the day and the
Slight-Heat day two terms later; and it reports (k, i) exactly when the day is that day of the Plum rains counted from
SOME year's Grain-in-Ear day (first Bing day on or after it .. first Wei day on or after Slight Heat). -/
theorem C15_plum_total_real (Y M D : Int) (hv : Civil.valid Y M D = true) (hy : C15GoodYear Y) :
    ∃ r, plum realEph Y (jdn Y M D) = some r ∧
      (∃ g : Nat, 1 ≤ g ∧ g + 24 ≤ 239977 ∧ IsLatestKind T 11 (jdn Y M D) g ∧ r = plumAt (T g) (T (g + 2)) (jdn Y M D)) ∧
      ∀ k i : Int, r = some (k, i) ↔
        ∃ g : Nat, 1 ≤ g ∧ g + 2 ≤ 239977 ∧ g % 24 = 11 ∧ IsPlumOf (T g) (T (g + 2)) (jdn Y M D) k i := by
  have h12 : 2 ≤ Y ∧ Y ≤ 9998 := by unfold C15GoodYear at hy; omega
  exact plum_pack Y M D hv h12.1 h12.2 (C15_anchor_total_real Y hy 11 (by omega)) (C15_anchor_total_real Y hy 13 (by omega))

/-- …every civil date of 2..9998, the junction years by the computed anchor days -/
theorem C15_plum_total_all (Y M D : Int) (hv : Civil.valid Y M D = true) (h1 : 2 ≤ Y) (h2 : Y ≤ 9998) :
    ∃ r, plum realEph Y (jdn Y M D) = some r ∧
      (∃ g : Nat, 1 ≤ g ∧ g + 24 ≤ 239977 ∧ IsLatestKind T 11 (jdn Y M D) g ∧ r = plumAt (T g) (T (g + 2)) (jdn Y M D)) ∧
      ∀ k i : Int, r = some (k, i) ↔
        ∃ g : Nat, 1 ≤ g ∧ g + 2 ≤ 239977 ∧ g % 24 = 11 ∧ IsPlumOf (T g) (T (g + 2)) (jdn Y M D) k i :=
  plum_pack Y M D hv h1 h2 (C15_anchor_total_all Y h1 h2 11 (by omega)) (C15_anchor_total_all Y h1 h2 13 (by omega))

/-- "…and no other day is a Plum-rain day" — every civil date of 2..9998 -/
theorem C15_plum_none_real (Y M D : Int) (hv : Civil.valid Y M D = true) (h1 : 2 ≤ Y) (h2 : Y ≤ 9998) :
    plum realEph Y (jdn Y M D) = some none ↔
      ¬ ∃ (g : Nat) (k i : Int), 1 ≤ g ∧ g + 2 ≤ 239977 ∧ g % 24 = 11 ∧ IsPlumOf (T g) (T (g + 2)) (jdn Y M D) k i := by
  obtain ⟨r, hr, _, hiff⟩ := C15_plum_total_all Y M D hv h1 h2
  rw [hr]
  constructor
  · rintro h ⟨g, k, i, hg⟩
    have e : r = none := by simpa using h
    have := (hiff k i).2 ⟨g, hg⟩
    rw [e] at this; cases this
  · intro h
    cases r with
    | none => rfl
    | some q =>
      exfalso
      obtain ⟨k, i⟩ := q
      obtain ⟨g, hg⟩ := (hiff k i).1 rfl
      exact h ⟨g, k, i, hg⟩

/-! ### non-vacuity -/

/-- the hypotheses are met by a concrete date, and by the first and last year of every range -/
example : Civil.valid 2024 7 15 = true ∧ C15GoodYear 2024 ∧ C15GoodYear 2 ∧ C15GoodYear 7 ∧ C15GoodYear 9 ∧ C15GoodYear 22 ∧
    C15GoodYear 25 ∧ C15GoodYear 235 ∧ C15GoodYear 237 ∧ C15GoodYear 238 ∧ C15GoodYear 240 ∧ C15GoodYear 9998 ∧
    ¬ C15GoodYear 8 ∧ ¬ C15GoodYear 239 := by
  refine ⟨by decide, ?_⟩
  simp only [C15_goodYear_iff]
  omega

end Tyme

