import Tyme.Lemmas.Jd
/-!
C01 — civil calendar ⇔ day count, for every date 0001-01-01 .. 9999-12-31.
Property theorems only (helpers live in `Tyme/Lemmas/Jd.lean`); every obligation is named `C01_*`.

Spec: `Tyme.Civil` (valid / next / lt / daysIn / daysInYear / leap), `Civil.iter n` = n-fold successor.
Model: `jdn`, `ofJdn`, `solarDayOk`, `dayNext`, `daySub`, `dayBefore`, `dayAfter`, `monthLen`, `yearLen`,
`isLeap`, `dayIndexInYear` (Tyme/Model/Jd.lean), tied to src/tyme/{jd,solar}.rs by the correspondence run.
-/
namespace Tyme
open Civil

/-- Acceptance: `SolarDay::new` accepts exactly the dates that exist — for ALL integer triples
(month 0/13, day 0/32, years ≤ 0 or ≥ 10000, the ten dropped days of October 1582 …). -/
theorem C01_accept_iff (y m d : Int) : solarDayOk y m d = Civil.valid y m d := by
  rw [Bool.eq_iff_iff, valid_iff, lastDay_eq, solarDayOk_iff, monthLen_eq]
  simp only [leap_iff, isLeap_iff]
  constructor
  · rintro ⟨h1, h2, h3, h4, h5, h6⟩
    refine ⟨h1, h2, h3, h4, h5, ?_⟩
    repeat' split at h6
    all_goals (repeat' split)
    all_goals omega
  · rintro ⟨h1, h2, h3, h4, h5, h6, h7⟩
    refine ⟨h1, h2, h3, h4, h5, ?_⟩
    repeat' split at h6
    all_goals (repeat' split)
    all_goals omega

/-- The day count grows by exactly one per civil day (month ends, year ends, leap days, the 1582 cut-over). -/
theorem C01_jdn_next (y m d : Int) (hv : Civil.valid y m d = true) (hne : ¬ (y = 9999 ∧ m = 12 ∧ d = 31)) :
    jdnT (Civil.next y m d) = jdn y m d + 1 := jdn_next y m d hv hne

/-- Every existing date maps back to itself. -/
theorem C01_ofJdn_jdn (y m d : Int) (hv : Civil.valid y m d = true) : ofJdn (jdn y m d) = (y, m, d) :=
  ofJdn_jdn y m d hv

/-- Every day number of the range maps to an existing date and back to itself. -/
theorem C01_jdn_ofJdn (j : Int) (h1 : jdnFirst ≤ j) (h2 : j ≤ jdnLast) :
    Civil.validT (ofJdn j) = true ∧ jdnT (ofJdn j) = j := by
  obtain ⟨⟨y, m, d⟩, hv, hj⟩ := jdn_surj j h1 h2
  have := ofJdn_jdn y m d hv
  unfold jdnT at hj; dsimp only at hj
  rw [hj] at this
  rw [this]
  exact ⟨hv, hj⟩

/-- Chronological order of existing dates is the order of their day numbers. -/
theorem C01_lt_iff (a b : Int × Int × Int) (ha : Civil.validT a = true) (hb : Civil.validT b = true) :
    Civil.lt a b ↔ jdnT a < jdnT b := by
  have key : ∀ a b : Int × Int × Int, Civil.validT a = true → Civil.validT b = true →
      jdnT a < jdnT b → Civil.lt a b := by
    intro a b ha hb h
    have hbl : jdnT b ≤ jdnLast := jdn_le_last b.1 b.2.1 b.2.2 hb
    have := iter_spec (jdnT b - jdnT a).toNat a ha (by omega)
    obtain ⟨i1, i2, i3⟩ := this
    have e : Civil.iter (jdnT b - jdnT a).toNat a = b := jdn_inj _ _ i1 hb (by rw [i2]; omega)
    rw [e] at i3
    exact i3 (by omega)
  constructor
  · intro h
    rcases Int.lt_trichotomy (jdnT a) (jdnT b) with h' | h' | h'
    · exact h'
    · have := jdn_inj a b ha hb h'; subst this; exact absurd h (lt_irrefl' a)
    · exact absurd (lt_trans' h (key b a hb ha h')) (lt_irrefl' a)
  · exact key a b ha hb

/-- `is_before` is the calendar order, hence the order of day numbers. -/
theorem C01_before_iff (a b : Int × Int × Int) (ha : Civil.validT a = true) (hb : Civil.validT b = true) :
    dayBefore a b = true ↔ jdnT a < jdnT b := by
  rw [← C01_lt_iff a b ha hb]
  unfold dayBefore Civil.lt
  simp only [bne_iff_ne, ne_eq, ite_not]
  repeat' split
  all_goals (simp only [decide_eq_true_eq]; omega)

/-- `is_after` likewise. -/
theorem C01_after_iff (a b : Int × Int × Int) (ha : Civil.validT a = true) (hb : Civil.validT b = true) :
    dayAfter a b = true ↔ jdnT b < jdnT a := by
  rw [← C01_lt_iff b a hb ha]
  unfold dayAfter Civil.lt
  simp only [bne_iff_ne, ne_eq, ite_not]
  repeat' split
  all_goals (simp only [decide_eq_true_eq]; omega)

/-- Stepping forward by n days is the n-fold civil successor (any n, result in range). -/
theorem C01_next_fwd (a : Int × Int × Int) (n : Nat) (ha : Civil.validT a = true) (h : jdnT a + n ≤ jdnLast) :
    dayNext a n = some (Civil.iter n a) := by
  obtain ⟨i1, i2, _⟩ := iter_spec n a ha h
  unfold dayNext
  have e : jdn a.1 a.2.1 a.2.2 + (n : Int) = jdnT (Civil.iter n a) := by rw [i2]; rfl
  generalize Civil.iter n a = c at *
  obtain ⟨y, m, d⟩ := c
  simp only [e]
  have := ofJdn_jdn y m d i1
  unfold jdnT; dsimp only
  rw [this]; dsimp only
  rw [C01_accept_iff]
  unfold Civil.validT at i1; dsimp only at i1
  simp [i1]

/-- Stepping backward by n days is the inverse of the n-fold successor. -/
theorem C01_next_bwd (c : Int × Int × Int) (n : Nat) (hc : Civil.validT c = true) (h : jdnT c + n ≤ jdnLast) :
    dayNext (Civil.iter n c) (-(n : Int)) = some c := by
  obtain ⟨i1, i2, _⟩ := iter_spec n c hc h
  unfold dayNext
  have e : jdn (Civil.iter n c).1 (Civil.iter n c).2.1 (Civil.iter n c).2.2 + -(n : Int) = jdnT c := by
    have : jdnT (Civil.iter n c) = jdn (Civil.iter n c).1 (Civil.iter n c).2.1 (Civil.iter n c).2.2 := rfl
    omega
  obtain ⟨y, m, d⟩ := c
  rw [e]
  have := ofJdn_jdn y m d hc
  unfold jdnT; dsimp only
  rw [this]; dsimp only
  rw [C01_accept_iff]
  unfold Civil.validT at hc; dsimp only at hc
  simp [hc]

/-- Day difference is the number of civil successor steps. -/
theorem C01_subtract (a : Int × Int × Int) (n : Nat) (ha : Civil.validT a = true) (h : jdnT a + n ≤ jdnLast) :
    daySub (Civil.iter n a) a = n ∧ daySub a (Civil.iter n a) = -(n : Int) := by
  obtain ⟨_, i2, _⟩ := iter_spec n a ha h
  unfold daySub
  unfold jdnT at i2
  omega

/-- Leap rule of the code (Julian before 1600) = true rule of the mixed calendar, on the whole range. -/
theorem C01_isLeap (y : Int) (h1 : 1 ≤ y) (h2 : y ≤ 9999) : isLeap y = Civil.leap y := by
  rw [Bool.eq_iff_iff, isLeap_iff, leap_iff]; omega

/-- Month length = number of existing days = distance between successive firsts of month. -/
theorem C01_monthLen (y m : Int) (h1 : 1 ≤ y) (h2 : y ≤ 9999) (h3 : 1 ≤ m) (h4 : m ≤ 12) :
    monthLen y m = Civil.daysIn y m := by
  unfold Civil.daysIn
  rw [monthLen_eq, lastDay_eq]
  simp only [beq_iff_eq, Bool.and_eq_true, isLeap_iff, leap_iff]
  repeat' split
  all_goals omega

/-- …and that number is the distance between successive firsts of month. -/
theorem C01_monthLen_dist (y m : Int) (h1 : 1 ≤ y) (h2 : y ≤ 9999) (h3 : 1 ≤ m) (h4 : m ≤ 12)
    (hlast : ¬ (y = 9999 ∧ m = 12)) :
    (if m = 12 then jdn (y + 1) 1 1 else jdn y (m + 1) 1) - jdn y m 1 = Civil.daysIn y m := by
  unfold Civil.daysIn
  rw [lastDay_eq]
  simp only [beq_iff_eq, Bool.and_eq_true, leap_iff, jdn_nf]
  have hm : m = 1 ∨ m = 2 ∨ m = 3 ∨ m = 4 ∨ m = 5 ∨ m = 6 ∨ m = 7 ∨ m = 8 ∨ m = 9 ∨ m = 10 ∨ m = 11 ∨ m = 12 := by omega
  rcases hm with rfl|rfl|rfl|rfl|rfl|rfl|rfl|rfl|rfl|rfl|rfl|rfl
  all_goals (
    simp
    repeat' split
    all_goals omega)

/-- Year length = distance between successive January firsts (355 in 1582). -/
theorem C01_yearLen (y : Int) (h1 : 1 ≤ y) (h2 : y ≤ 9999) :
    yearLen y = Civil.daysInYear y := by
  unfold yearLen Civil.daysInYear
  simp only [beq_iff_eq, isLeap_iff, leap_iff]
  repeat' split
  all_goals omega

theorem C01_yearLen_dist (y : Int) (h1 : 1 ≤ y) (h2 : y ≤ 9998) :
    jdn (y + 1) 1 1 - jdn y 1 1 = Civil.daysInYear y := by
  unfold Civil.daysInYear
  simp only [beq_iff_eq, leap_iff, jdn_nf]
  simp
  repeat' split
  all_goals omega

/-- Day-of-year = number of successor steps from January 1 of the same year. -/
theorem C01_indexInYear (y m d : Int) (hv : Civil.valid y m d = true) :
    0 ≤ dayIndexInYear (y, m, d) ∧ Civil.iter (dayIndexInYear (y, m, d)).toNat (y, 1, 1) = (y, m, d) := by
  have hv1 : Civil.validT (y, 1, 1) = true := by
    obtain ⟨h1,h2,h3,h4,h5,h6,h7⟩ := (valid_iff y m d).1 hv
    show Civil.valid y 1 1 = true
    rw [valid_iff, lastDay_eq]; simp; omega
  have hle : jdnT (y, 1, 1) ≤ jdnT (y, m, d) := by
    by_cases h : jdnT (y, m, d) < jdnT (y, 1, 1)
    · have := (C01_lt_iff (y, m, d) (y, 1, 1) hv hv1).2 h
      obtain ⟨h1,h2,h3,h4,h5,h6,h7⟩ := (valid_iff y m d).1 hv
      unfold Civil.lt at this; dsimp only at this; omega
    · omega
  have hidx : dayIndexInYear (y, m, d) = jdnT (y, m, d) - jdnT (y, 1, 1) := rfl
  refine ⟨by omega, ?_⟩
  have hl := jdn_le_last y m d hv
  obtain ⟨i1, i2, _⟩ := iter_spec (dayIndexInYear (y, m, d)).toNat (y, 1, 1) hv1 (by
    have : jdnT (y, m, d) = jdn y m d := rfl
    omega)
  exact jdn_inj _ _ i1 hv (by rw [i2]; omega)

/-- Weekday advances by one per civil day (7 ∣ 7000000 folded into the model's offset). -/
theorem C01_week_next (j : Int) : weekOfJdn (j + 1) = (weekOfJdn j + 1) % 7 := by
  unfold weekOfJdn; omega

/-- Non-vacuity: the hypotheses are met by concrete dates, including the cut-over. -/
example : Civil.valid 1582 10 4 = true ∧ Civil.next 1582 10 4 = (1582, 10, 15) ∧
    jdn 1582 10 15 = jdn 1582 10 4 + 1 ∧ Civil.valid 1582 10 10 = false ∧ solarDayOk 1582 10 10 = false ∧
    Civil.valid 2000 2 29 = true ∧ Civil.valid 1900 2 29 = false ∧ Civil.valid 1500 2 29 = true := by decide

end Tyme
