import Tyme.Thm.C02b
import Tyme.Thm.C08b
/-!
TOTALITY of the guess-and-walk look-ups behind C06, C07 and C08, on the data re-extracted from /repo in this run:
`SolarDay::get_term_day` and `SixtyCycleDay::from_solar_day` RETURN for every civil date of the stated ranges (the fuel
the models carry — 30 rounds of the term walk, 40 of the month walk — is never exhausted), and what they return is
what the partial-correctness theorems of Thm/C06, C07, C08b describe. With these, the property statements hold for
every date of the range with no "if the call returns" hypothesis.
-/
namespace Tyme
open Lunar Cont

/-- C06, total: every civil date of the years 1..9998 on or after the first representable term belongs to exactly one
term: the look-up returns, the term it returns starts on or before the day, the next one after it, every later
representable term is later still, and the day index is the distance to the term's first day, 0..15. -/
theorem C06_ofDay_total_real (Y M D : Int) (hv : Civil.valid Y M D = true) (hY : Y ≤ 9998)
    (h1 : realEph.termDay 1 ≤ jdn Y M D) :
    ∃ g k, Term.ofDay realEph Y M D = some (g, k) ∧ 1 ≤ g ∧ g + 1 ≤ 239977 ∧
      realEph.termDay g ≤ jdn Y M D ∧ jdn Y M D < realEph.termDay (g + 1) ∧
      (∀ g', g < g' → g' ≤ 239977 → jdn Y M D < realEph.termDay g') ∧
      k = jdn Y M D - realEph.termDay g ∧ 0 ≤ k ∧ k ≤ 15 := by
  have tf := C13_termFacts_real
  obtain ⟨hY1, _⟩ := (valid_iff Y M D).1 hv
  obtain ⟨⟨g, k⟩, h⟩ := ofDay_total realEph tf Y M D hv hY h1
  obtain ⟨a1, a2, a3, a4, a5⟩ := C06_ofDay_spec realEph Y M D g k h
  obtain ⟨_, yb2⟩ := year_bounds Y M D hv
  have hr := tf.repr g
  have hg1 : 1 ≤ g := by
    by_cases h0 : g = 0
    · exact absurd (hr.2 (Or.inl h0)) a1
    · omega
  have hgu : g ≤ 239977 := by
    by_cases hc : g ≤ 239977
    · exact hc
    · exact absurd (hr.2 (Or.inr (by omega))) a1
  have lc := (tf.lichun (Y.toNat + 1) (by omega) (by omega)).1
  have e2 : ((Y.toNat + 1 : Nat) : Int) = Y + 1 := by omega
  rw [e2] at lc
  have hlt : g < 24 * (Y.toNat + 1 - 1) + 3 := by
    by_cases hc : g < 24 * (Y.toNat + 1 - 1) + 3
    · exact hc
    · exfalso
      have := term_mono realEph tf (24 * (Y.toNat + 1 - 1) + 3) g (by omega) (by omega) hgu
      omega
  have hg : g + 1 ≤ 239977 := by omega
  obtain ⟨l1, l2⟩ := C06_ofDay_latest Y M D g k h hg
  have hn : jdn Y M D < realEph.termDay (g + 1) := l1 (g + 1) (by omega) hg
  exact ⟨g, k, h, hg1, hg, a2, hn, l1, a4, a5, l2⟩

/-- the first representable term of this run's data starts before 0001-02-01 (so only January of year 1 can precede it) -/
theorem C06_first_term_real : realEph.termDay 1 ≤ jdn 1 2 1 := by decide +kernel

/-- C07, total: every civil date of the good years (from the first representable term on) HAS a sexagenary-day view,
and its day pillar is (day number + 49) mod 60. -/
theorem C07_view_total_real (Y M D : Int) (hv : Civil.valid Y M D = true)
    (hy : (1 ≤ Y ∧ Y ≤ 6) ∨ (10 ≤ Y ∧ Y ≤ 21) ∨ (26 ≤ Y ∧ Y ≤ 234) ∨ (241 ≤ Y ∧ Y ≤ 9997))
    (h1 : realEph.termDay 1 ≤ jdn Y M D) :
    ∃ v, SC.ofSolarDay realEph Y M D = some v ∧ v.day = (jdn Y M D + 49) % 60 := by
  obtain ⟨t1, t2, t3, _, t5⟩ := C02_good_intervals
  have key : ∀ (a b : Nat), TilesOn realEph (a : Int) (b : Int) → (b : Int) + 1 ≤ 9999 →
      ((a : Int) = 0 ∨ (a : Int) + 1 ≤ Y) → Y + 1 ≤ (b : Int) →
      ∃ v, SC.ofSolarDay realEph Y M D = some v ∧ v.day = (jdn Y M D + 49) % 60 := by
    intro a b ht hb9 hay hyb
    obtain ⟨i1, i2, i3, i4⟩ := C02_interval_of_year realEph C13_newYearFacts_real a b (Int.natCast_nonneg a) hb9 Y M D hv hay hyb
    obtain ⟨v, hvw⟩ := ofSolarDay_total realEph realEph_leap_le C13_termFacts_real C13_newYearFacts_real C02_first_year_real
      a b (Int.natCast_nonneg a) hb9 ht Y M D hv i1 i2 i3 i4 h1
    exact ⟨v, hvw, C07_view realEph realEph_leap_le a b ht Y M D i1 i2 i3 i4 v hvw⟩
  rcases hy with hy | hy | hy | hy
  · exact key 0 7 t1 (by omega) (Or.inl rfl) (by omega)
  · exact key 9 22 t2 (by omega) (Or.inr (by omega)) (by omega)
  · exact key 25 235 t3 (by omega) (Or.inr (by omega)) (by omega)
  · exact key 240 9998 t5 (by omega) (Or.inr (by omega)) (by omega)

/-- C08, total: every civil date of the years 10..21, 26..234, 241..9997 HAS a sexagenary-day view whose year pillar
is that of the Lichun-delimited year (the year changes at the Lichun day, not on January 1 or at the lunar new year). -/
theorem C08_day_total_real (Y M D : Int) (hv : Civil.valid Y M D = true)
    (hy : (10 ≤ Y ∧ Y ≤ 21) ∨ (26 ≤ Y ∧ Y ≤ 234) ∨ (241 ≤ Y ∧ Y ≤ 9997)) :
    ∃ v, SC.ofSolarDay realEph Y M D = some v ∧
      v.year = ((if jdn Y M D < realEph.termDay (24 * (Y - 1) + 3).toNat then Y - 1 else Y) - 4) % 60 ∧
      v.day = (jdn Y M D + 49) % 60 := by
  have h1 : realEph.termDay 1 ≤ jdn Y M D := by
    obtain ⟨yb1, _⟩ := year_bounds Y M D hv
    have f := C06_first_term_real
    have j2 := jan1_strict 1 Y (by omega) (by omega)
    have e : jdn 1 2 1 = jdn 1 1 1 + 31 := by decide
    omega
  obtain ⟨v, hvw, hd⟩ := C07_view_total_real Y M D hv (by omega) h1
  obtain ⟨_, t2, t3, _, t5⟩ := C02_good_intervals
  refine ⟨v, hvw, ?_, hd⟩
  rcases hy with hy | hy | hy
  · exact (C08_day_spec 9 22 (by omega) (by omega) (by omega) t2 Y M D hv (by omega) (by omega) v hvw).1
  · exact (C08_day_spec 25 235 (by omega) (by omega) (by omega) t3 Y M D hv (by omega) (by omega) v hvw).1
  · exact (C08_day_spec 240 9998 (by omega) (by omega) (by omega) t5 Y M D hv (by omega) (by omega) v hvw).1

/-- non-vacuity -/
example : Civil.valid 2024 2 4 = true ∧ (241 ≤ (2024 : Int) ∧ (2024 : Int) ≤ 9997) := by decide

end Tyme
