import Tyme.Thm.C02
import Tyme.Thm.C13
/-!
C02, second file — TOTALITY of the guess-and-walk conversion and the unconditional round trip.

`C02_sls`/`C02_lsl` (Thm/C02.lean) speak about conversions that *return*. Here: `SolarDay::get_lunar_day` DOES return for
every valid civil date in the interior of a tiling interval (the walk of at most 40 rounds each way suffices — in fact
the guessed month is never more than two months off), so the round trip holds for every such date with no
acceptance hypothesis. `C02_roundtrip_real` instantiates it for the data re-extracted from /repo in this run.
-/
namespace Tyme
open Lunar Cont

/-- a civil date of a year strictly inside a tiling interval lies between the interval's first and last new moon -/
theorem C02_interval_of_year (E : Eph) (nf : NewYearFacts E) (a b : Int) (ha0 : 0 ≤ a) (hb9 : b + 1 ≤ 9999)
    (Y M D : Int) (hv : Civil.valid Y M D = true) (hay : a = 0 ∨ a + 1 ≤ Y) (hyb : Y + 1 ≤ b) :
    a ≤ Y ∧ Y ≤ b ∧ first E ⟨a, 0⟩ ≤ jdn Y M D ∧ jdn Y M D < first E ⟨b + 1, 0⟩ := by
  obtain ⟨yb1, yb2⟩ := year_bounds Y M D hv
  obtain ⟨hY1, _⟩ := (valid_iff Y M D).1 hv
  have nyb := (nf.win (b + 1).toNat (by omega) (by omega)).1
  have eb : (((b + 1).toNat : Nat) : Int) = b + 1 := by omega
  rw [eb] at nyb
  have mb := jan1_strict (Y + 1) (b + 1) (by omega) (by omega)
  refine ⟨by omega, by omega, ?_, ?_⟩
  · unfold first; dsimp only
    by_cases h0 : a = 0
    · subst h0
      have z0 := nf.zero
      have j1 : jdn 1 1 1 = 1721424 := by decide
      have z1 := jan1_mono 1 Y (by omega) hY1
      omega
    · have h1' : a + 1 ≤ Y := by omega
      have nya := (nf.win a.toNat (by omega) (by omega)).2
      have ea : ((a.toNat : Nat) : Int) = a := by omega
      rw [ea] at nya
      have z2 := jan1_strict a Y (by omega) (by omega)
      omega
  · unfold first; dsimp only
    omega

/-- TOTALITY + ROUND TRIP, any ephemeris: every valid civil date of a year strictly inside a tiling interval converts,
the result is a well-formed lunar date on the same day number, and converting back (both by `get_solar_day` and by
re-constructing the lunar date from its numbers) returns the inputs. -/
theorem C02_roundtrip_total (E : Eph) (hl : ∀ y, E.leap y ≤ 12) (nf : NewYearFacts E) (hF1 : 1721424 ≤ E.mFirst 1 0)
    (a b : Int) (ha0 : 0 ≤ a) (hb9 : b + 1 ≤ 9999) (ht : TilesOn E a b)
    (Y M D : Int) (hv : Civil.valid Y M D = true) (hay : a = 0 ∨ a + 1 ≤ Y) (hyb : Y + 1 ≤ b) :
    ∃ r, ofSolar E Y M D = some r ∧ WF E r.1 ∧ 1 ≤ r.2 ∧ r.2 ≤ len E r.1 ∧ first E r.1 + r.2 - 1 = jdn Y M D ∧
      daySolar E r.1 r.2 = some (Y, M, D) ∧ dayNew E r.1.y (monthWithLeap E r.1) r.2 = some r := by
  obtain ⟨i1, i2, i3, i4⟩ := C02_interval_of_year E nf a b ha0 hb9 Y M D hv hay hyb
  obtain ⟨r, hr⟩ := ofSolar_total E hl nf hF1 a b ha0 hb9 ht Y M D hv i1 i2 i3 i4
  obtain ⟨w, _, _, e, k1, k2⟩ := C02_walk_spec E hl a b ht Y M D i1 i2 i3 i4 r hr
  obtain ⟨s1, s2⟩ := C02_sls E hl a b ht Y M D hv i1 i2 i3 i4 r hr
  exact ⟨r, hr, w, k1, k2, e, s1, s2⟩

/-- the first month of lunar year 1 of this run's data does not start before 0001-01-01 -/
theorem C02_first_year_real : 1721424 ≤ realEph.mFirst 1 0 := by decide +kernel

/-- …for the data re-extracted from /repo: every valid civil date of the years 1..6, 10..21, 26..234, 241..9997 (all
years whose lunar neighbourhood is free of the five D4 junction years) converts and round-trips. -/
theorem C02_roundtrip_real (Y M D : Int) (hv : Civil.valid Y M D = true)
    (hy : (1 ≤ Y ∧ Y ≤ 6) ∨ (10 ≤ Y ∧ Y ≤ 21) ∨ (26 ≤ Y ∧ Y ≤ 234) ∨ (241 ≤ Y ∧ Y ≤ 9997)) :
    ∃ r, ofSolar realEph Y M D = some r ∧ WF realEph r.1 ∧ 1 ≤ r.2 ∧ r.2 ≤ len realEph r.1 ∧
      first realEph r.1 + r.2 - 1 = jdn Y M D ∧
      daySolar realEph r.1 r.2 = some (Y, M, D) ∧ dayNew realEph r.1.y (monthWithLeap realEph r.1) r.2 = some r := by
  obtain ⟨t1, t2, t3, _, t5⟩ := C02_good_intervals
  have key := fun (a b : Nat) (ht : TilesOn realEph (a : Int) (b : Int)) (hb9 : (b : Int) + 1 ≤ 9999)
      (hay : (a : Int) = 0 ∨ (a : Int) + 1 ≤ Y) (hyb : Y + 1 ≤ (b : Int)) =>
    C02_roundtrip_total realEph realEph_leap_le C13_newYearFacts_real C02_first_year_real (a : Int) (b : Int)
      (Int.natCast_nonneg a) hb9 ht Y M D hv hay hyb
  rcases hy with hy | hy | hy | hy
  · exact key 0 7 t1 (by omega) (Or.inl rfl) (by omega)
  · exact key 9 22 t2 (by omega) (Or.inr (by omega)) (by omega)
  · exact key 25 235 t3 (by omega) (Or.inr (by omega)) (by omega)
  · exact key 240 9998 t5 (by omega) (Or.inr (by omega)) (by omega)

/-- non-vacuity: a concrete date meets the hypotheses -/
example : Civil.valid 2024 2 10 = true ∧ (241 ≤ (2024 : Int) ∧ (2024 : Int) ≤ 9997) := by decide

end Tyme
