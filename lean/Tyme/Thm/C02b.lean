import Tyme.Thm.C02
import Tyme.Thm.C03
import Tyme.Thm.C13
/-!
C02, second file — TOTALITY of the guess-and-walk conversion and the unconditional round trip.

`C02_sls`/`C02_lsl` (Thm/C02.lean) speak about conversions that *return*. Here: `SolarDay::get_lunar_day` DOES return for
every valid civil date in the interior of a tiling interval (the walk of at most 40 rounds each way suffices — in fact
the guessed month is never more than two months off), so the round trip holds for every such date with no
acceptance hypothesis. `C02_roundtrip_real` instantiates it for the data re-extracted from /repo in this run.
-/
namespace Tyme
open Lunar Cont

/-- a civil date of a year strictly inside a tiling interval lies between the interval's first and last new moon -/
theorem C02_interval_of_year (E : Eph) (nf : NewYearFacts E) (a b : Int) (ha0 : 0 ≤ a) (hb9 : b + 1 ≤ 9999)
    (Y M D : Int) (hv : Civil.valid Y M D = true) (hay : a = 0 ∨ a + 1 ≤ Y) (hyb : Y + 1 ≤ b) :
    a ≤ Y ∧ Y ≤ b ∧ first E ⟨a, 0⟩ ≤ jdn Y M D ∧ jdn Y M D < first E ⟨b + 1, 0⟩ := by
  obtain ⟨yb1, yb2⟩ := year_bounds Y M D hv
  obtain ⟨hY1, _⟩ := (valid_iff Y M D).1 hv
  have nyb := (nf.win (b + 1).toNat (by omega) (by omega)).1
  have eb : (((b + 1).toNat : Nat) : Int) = b + 1 := by omega
  rw [eb] at nyb
  have mb := jan1_strict (Y + 1) (b + 1) (by omega) (by omega)
  refine ⟨by omega, by omega, ?_, ?_⟩
  · unfold first; dsimp only
    by_cases h0 : a = 0
    · subst h0
      have z0 := nf.zero
      have j1 : jdn 1 1 1 = 1721424 := by decide
      have z1 := jan1_mono 1 Y (by omega) hY1
      omega
    · have h1' : a + 1 ≤ Y := by omega
      have nya := (nf.win a.toNat (by omega) (by omega)).2
      have ea : ((a.toNat : Nat) : Int) = a := by omega
      rw [ea] at nya
      have z2 := jan1_strict a Y (by omega) (by omega)
      omega
  · unfold first; dsimp only
    omega

/-- TOTALITY + ROUND TRIP, any ephemeris: every valid civil date of a year strictly inside a tiling interval converts,
the result is a well-formed lunar date on the same day number, and converting back (both by `get_solar_day` and by
re-constructing the lunar date from its numbers) returns the inputs. -/
theorem C02_roundtrip_total (E : Eph) (hl : ∀ y, E.leap y ≤ 12) (nf : NewYearFacts E) (hF1 : 1721424 ≤ E.mFirst 1 0)
    (a b : Int) (ha0 : 0 ≤ a) (hb9 : b + 1 ≤ 9999) (ht : TilesOn E a b)
    (Y M D : Int) (hv : Civil.valid Y M D = true) (hay : a = 0 ∨ a + 1 ≤ Y) (hyb : Y + 1 ≤ b) :
    ∃ r, ofSolar E Y M D = some r ∧ WF E r.1 ∧ 1 ≤ r.2 ∧ r.2 ≤ len E r.1 ∧ first E r.1 + r.2 - 1 = jdn Y M D ∧
      daySolar E r.1 r.2 = some (Y, M, D) ∧ dayNew E r.1.y (monthWithLeap E r.1) r.2 = some r := by
  obtain ⟨i1, i2, i3, i4⟩ := C02_interval_of_year E nf a b ha0 hb9 Y M D hv hay hyb
  obtain ⟨r, hr⟩ := ofSolar_total E hl nf hF1 a b ha0 hb9 ht Y M D hv i1 i2 i3 i4
  obtain ⟨w, _, _, e, k1, k2⟩ := C02_walk_spec E hl a b ht Y M D i1 i2 i3 i4 r hr
  obtain ⟨s1, s2⟩ := C02_sls E hl a b ht Y M D hv i1 i2 i3 i4 r hr
  exact ⟨r, hr, w, k1, k2, e, s1, s2⟩

/-- the first month of lunar year 1 of this run's data does not start before 0001-01-01 -/
theorem C02_first_year_real : 1721424 ≤ realEph.mFirst 1 0 := by decide +kernel

/-- …for the data re-extracted from /repo: every valid civil date of the years 1..6, 10..21, 26..234, 241..9997 (all
years whose lunar neighbourhood is free of the five D4 junction years) converts and round-trips. -/
theorem C02_roundtrip_real (Y M D : Int) (hv : Civil.valid Y M D = true)
    (hy : (1 ≤ Y ∧ Y ≤ 6) ∨ (10 ≤ Y ∧ Y ≤ 21) ∨ (26 ≤ Y ∧ Y ≤ 234) ∨ (241 ≤ Y ∧ Y ≤ 9997)) :
    ∃ r, ofSolar realEph Y M D = some r ∧ WF realEph r.1 ∧ 1 ≤ r.2 ∧ r.2 ≤ len realEph r.1 ∧
      first realEph r.1 + r.2 - 1 = jdn Y M D ∧
      daySolar realEph r.1 r.2 = some (Y, M, D) ∧ dayNew realEph r.1.y (monthWithLeap realEph r.1) r.2 = some r := by
  obtain ⟨t1, t2, t3, _, t5⟩ := C02_good_intervals
  have key := fun (a b : Nat) (ht : TilesOn realEph (a : Int) (b : Int)) (hb9 : (b : Int) + 1 ≤ 9999)
      (hay : (a : Int) = 0 ∨ (a : Int) + 1 ≤ Y) (hyb : Y + 1 ≤ (b : Int)) =>
    C02_roundtrip_total realEph realEph_leap_le C13_newYearFacts_real C02_first_year_real (a : Int) (b : Int)
      (Int.natCast_nonneg a) hb9 ht Y M D hv hay hyb
  rcases hy with hy | hy | hy | hy
  · exact key 0 7 t1 (by omega) (Or.inl rfl) (by omega)
  · exact key 9 22 t2 (by omega) (Or.inr (by omega)) (by omega)
  · exact key 25 235 t3 (by omega) (Or.inr (by omega)) (by omega)
  · exact key 240 9998 t5 (by omega) (Or.inr (by omega)) (by omega)

/-- the civil date of a day number lying between two January firsts has its year between them -/
theorem jdn_year_range (j ya yb : Int) (hya : 1 ≤ ya) (hab : ya ≤ yb) (hyb : yb ≤ 9998) (h1 : jdn ya 1 1 ≤ j) (h2 : j < jdn (yb + 1) 1 1) :
    Civil.validT (ofJdn j) = true ∧ jdnT (ofJdn j) = j ∧ ya ≤ (ofJdn j).1 ∧ (ofJdn j).1 ≤ yb := by
  have j1 : jdn 1 1 1 = 1721424 := by decide
  have m1 := jan1_mono 1 ya (by omega) hya
  have m2 := jan1_mono (yb + 1) 9999 (by omega) (by omega)
  have j9 := jdn_9999
  obtain ⟨hv, hj⟩ := C01_jdn_ofJdn j (by unfold jdnFirst; omega) (by omega)
  refine ⟨hv, hj, ?_, ?_⟩
  · obtain ⟨b1, b2⟩ := year_bounds _ _ _ hv
    have hjj : jdn (ofJdn j).1 (ofJdn j).2.1 (ofJdn j).2.2 = j := hj
    obtain ⟨hy1, _⟩ := (valid_iff _ _ _).1 hv
    by_cases hc : ya ≤ (ofJdn j).1
    · exact hc
    · exfalso
      have := jan1_mono ((ofJdn j).1 + 1) ya (by omega) (by omega)
      omega
  · obtain ⟨b1, b2⟩ := year_bounds _ _ _ hv
    have hjj : jdn (ofJdn j).1 (ofJdn j).2.1 (ofJdn j).2.2 = j := hj
    obtain ⟨hy1, _⟩ := (valid_iff _ _ _).1 hv
    by_cases hc : (ofJdn j).1 ≤ yb
    · exact hc
    · exfalso
      have := jan1_mono (yb + 1) (ofJdn j).1 (by omega) (by omega)
      omega

/-- TOTALITY + ROUND TRIP the other way, any ephemeris: every day k of every well-formed lunar month x of a lunar year
at least two inside a tiling interval HAS a civil date (`get_solar_day` returns), that date lies in the civil years
x.y−1 .. x.y+1, and converting it back returns exactly (x, k). -/
theorem C02_lsl_total (E : Eph) (hl : ∀ y, E.leap y ≤ 12) (nf : NewYearFacts E) (hF1 : 1721424 ≤ E.mFirst 1 0)
    (a b : Int) (ha0 : 0 ≤ a) (hb9 : b + 1 ≤ 9999) (ht : TilesOn E a b)
    (x : Month) (k : Int) (hx : WF E x) (hxa : a + 2 ≤ x.y) (hxb : x.y + 2 ≤ b) (hk1 : 1 ≤ k) (hk2 : k ≤ len E x) :
    ∃ Y M D, daySolar E x k = some (Y, M, D) ∧ Civil.valid Y M D = true ∧ jdn Y M D = first E x + k - 1 ∧
      x.y - 1 ≤ Y ∧ Y ≤ x.y + 1 ∧ ofSolar E Y M D = some (x, k) := by
  obtain ⟨m1, m2⟩ := month_in_year E a b hb9 ht x hx (by omega) (by omega)
  have w0 := nf.win x.y.toNat (by omega) (by omega)
  have w1 := (nf.win (x.y + 1).toNat (by omega) (by omega)).2
  have e0 : ((x.y.toNat : Nat) : Int) = x.y := by omega
  have e1 : (((x.y + 1).toNat : Nat) : Int) = x.y + 1 := by omega
  rw [e0] at w0
  rw [e1] at w1
  have s0 := jan1_step (x.y - 1) (by omega)
  have s1 := jan1_step (x.y + 1) (by omega)
  have e2 : x.y - 1 + 1 = x.y := by omega
  rw [e2] at s0
  obtain ⟨v, ej, y1, y2⟩ := jdn_year_range (first E x + k - 1) (x.y - 1) (x.y + 1) (by omega) (by omega) (by omega) (by omega) (by omega)
  generalize hd : ofJdn (first E x + k - 1) = d at *
  obtain ⟨Y, M, D⟩ := d
  have hv : Civil.valid Y M D = true := v
  have hj : jdn Y M D = first E x + k - 1 := ej
  have hds : daySolar E x k = some (Y, M, D) := by
    unfold daySolar
    rw [hd]
    dsimp only
    rw [C01_accept_iff, hv]; rfl
  obtain ⟨r, hr, _⟩ := C02_roundtrip_total E hl nf hF1 a b ha0 hb9 ht Y M D hv (Or.inr (by dsimp only at y1; omega)) (by dsimp only at y2; omega)
  have j1 : jdn 1 1 1 = 1721424 := by decide
  have mm := jan1_mono 1 (x.y - 1) (by omega) (by omega)
  have m9 := jan1_mono (x.y + 1 + 1) 9999 (by omega) (by omega)
  have j9 := jdn_9999
  have := C02_lsl E hl a b ha0 hb9 ht x k hx (by omega) (by omega) hk1 hk2 Y M D hds (by dsimp only at y1; omega) (by dsimp only at y2; omega)
    (by unfold jdnFirst; omega) (by omega) r hr
  rw [this] at hr
  exact ⟨Y, M, D, hds, hv, hj, y1, y2, hr⟩

/-- …for the data re-extracted from /repo: every day of every lunar month of the lunar years 2..5, 11..20, 27..233,
242..9996 converts to a civil date and back to itself. -/
theorem C02_lsl_total_real (x : Month) (k : Int) (hx : WF realEph x) (hk1 : 1 ≤ k) (hk2 : k ≤ len realEph x)
    (hy : (2 ≤ x.y ∧ x.y ≤ 5) ∨ (11 ≤ x.y ∧ x.y ≤ 20) ∨ (27 ≤ x.y ∧ x.y ≤ 233) ∨ (242 ≤ x.y ∧ x.y ≤ 9996)) :
    ∃ Y M D, daySolar realEph x k = some (Y, M, D) ∧ Civil.valid Y M D = true ∧ jdn Y M D = first realEph x + k - 1 ∧
      ofSolar realEph Y M D = some (x, k) := by
  obtain ⟨t1, t2, t3, _, t5⟩ := C02_good_intervals
  have key := fun (a b : Nat) (ht : TilesOn realEph (a : Int) (b : Int)) (hb9 : (b : Int) + 1 ≤ 9999)
      (h1 : (a : Int) + 2 ≤ x.y) (h2 : x.y + 2 ≤ (b : Int)) =>
    C02_lsl_total realEph realEph_leap_le C13_newYearFacts_real C02_first_year_real (a : Int) (b : Int)
      (Int.natCast_nonneg a) hb9 ht x k hx h1 h2 hk1 hk2
  rcases hy with hy | hy | hy | hy
  · obtain ⟨Y, M, D, q1, q2, q3, _, _, q6⟩ := key 0 7 t1 (by omega) (by omega) (by omega); exact ⟨Y, M, D, q1, q2, q3, q6⟩
  · obtain ⟨Y, M, D, q1, q2, q3, _, _, q6⟩ := key 9 22 t2 (by omega) (by omega) (by omega); exact ⟨Y, M, D, q1, q2, q3, q6⟩
  · obtain ⟨Y, M, D, q1, q2, q3, _, _, q6⟩ := key 25 235 t3 (by omega) (by omega) (by omega); exact ⟨Y, M, D, q1, q2, q3, q6⟩
  · obtain ⟨Y, M, D, q1, q2, q3, _, _, q6⟩ := key 240 9998 t5 (by omega) (by omega) (by omega); exact ⟨Y, M, D, q1, q2, q3, q6⟩

/-- C03, totality of single steps: every well-formed lunar month except the very last one (9999-12) has a successor and
every one except the very first (0-1) a predecessor, exactly one place away on the listing — any ephemeris with leap ≤ 12. -/
theorem C03_step_total (E : Eph) (hl : ∀ y, E.leap y ≤ 12) (x : Month) (hx : WF E x) :
    ((x.idx + 1 < E.cnt x.y ∨ x.y + 1 ≤ 9999) → ∃ x', next E x 1 = some x' ∧ WF E x' ∧ gpos E x' = gpos E x + 1) ∧
    (¬ (x.y = 0 ∧ x.idx = 0) → ∃ x', next E x (-1) = some x' ∧ WF E x' ∧ gpos E x' = gpos E x + -1) := by
  constructor
  · intro h
    obtain ⟨x', h'⟩ := next_fwd_some E hl x hx h
    obtain ⟨w, p⟩ := C03_next_pos E hl x x' hx 1 h'
    exact ⟨x', h', w, p⟩
  · intro h
    obtain ⟨x', h'⟩ := next_back_some E hl x hx h
    obtain ⟨w, p⟩ := C03_next_pos E hl x x' hx (-1) h'
    exact ⟨x', h', w, p⟩

theorem cumI_le_total (E : Eph) (y : Int) (h0 : 0 ≤ y) (h1 : y ≤ 10000) : cumI E y ≤ cumI E 10000 := by
  have := cumI_mono E (10000 - y).toNat y h0
  have e : y + ((10000 - y).toNat : Int) = 10000 := by omega
  rw [e] at this; omega

theorem loopF_total (E : Eph) : ∀ (f : Nat) (m y : Int), 0 ≤ y → y ≤ 9999 → 1 ≤ m → m ≤ 12 * (f : Int) →
    cumI E y + m ≤ cumI E 10000 → ∃ r, loopF E f m y = some r := by
  intro f
  induction f with
  | zero => intro m y _ _ h1 h2 _; omega
  | succ f ih =>
    intro m y hy0 hy9 hm1 hm2 htot
    rw [loopF]
    by_cases hgt : m > (E.cnt y : Int)
    · have hs := cumI_succ E y hy0
      have hc := cnt_cases E y
      have hy1 : ¬ (y + 1 > 9999) := by
        intro hh
        have : y + 1 = 10000 := by omega
        rw [this] at hs
        omega
      simp only [hgt, if_true, hy1, if_false]
      exact ih (m - E.cnt y) (y + 1) (by omega) (by omega) (by omega) (by omega) (by omega)
    · simp only [hgt, if_false]
      exact ⟨_, rfl⟩

theorem loopB_total (E : Eph) : ∀ (f : Nat) (m y : Int), 0 ≤ y → y ≤ 9999 → 1 - 12 * (f : Int) ≤ m →
    1 ≤ cumI E y + m → ∃ r, loopB E (f + 1) m y = some r ∧ 0 ≤ r.2 := by
  intro f
  induction f with
  | zero =>
    intro m y hy0 _ hm hpos
    rw [loopB]
    have hle : ¬ (m ≤ 0) := by omega
    simp only [hle, if_false]
    exact ⟨_, rfl, hy0⟩
  | succ f ih =>
    intro m y hy0 hy9 hm hpos
    rw [loopB]
    by_cases hle : m ≤ 0
    · have hy1 : 1 ≤ y := by
        by_cases h : 1 ≤ y
        · exact h
        · exfalso
          have : y = 0 := by omega
          rw [this] at hpos
          have : cumI E 0 = 0 := rfl
          omega
      have hs := cumI_succ E (y - 1) (by omega)
      have e : y - 1 + 1 = y := by omega
      rw [e] at hs
      have hc := cnt_cases E (y - 1)
      have hn : ¬ (y - 1 < -1) := by omega
      simp only [hle, if_true, hn, if_false]
      exact ih (m + E.cnt (y - 1)) (y - 1) (by omega) (by omega) (by omega) (by omega)
    · simp only [hle, if_false]
      exact ⟨_, rfl, hy0⟩

/-- C03, TOTALITY of `LunarMonth::next(n)` for every n: from a well-formed month, whenever the target position lies on
the listing (0 ≤ position + n < number of months of lunar years 0..9999), the call returns — and (`C03_next_pos`) what it
returns is the month exactly n places away. Any ephemeris with leap ≤ 12. -/
theorem C03_next_total (E : Eph) (hl : ∀ y, E.leap y ≤ 12) (x : Month) (hx : WF E x) (n : Int)
    (h0 : 0 ≤ gpos E x + n) (h1 : gpos E x + n < cumI E 10000) :
    ∃ x', next E x n = some x' ∧ WF E x' ∧ gpos E x' = gpos E x + n := by
  have key : ∃ x', next E x n = some x' := by
    obtain ⟨hx1, hx2, hx3⟩ := hx
    unfold next
    by_cases hn : n = 0
    · simp only [hn, if_true]
      rw [monthWithLeap_eq]
      exact ⟨_, fromYm_of_pos E x.y ((x.idx : Int) + 1) hx1 hx2 (hl _) (by omega) (by omega)⟩
    · simp only [hn, if_false]
      have hg : gpos E x = cumI E x.y + x.idx := rfl
      by_cases hpos : n > 0
      · simp only [hpos, if_true]
        obtain ⟨r, hr⟩ := loopF_total E (n.natAbs + 1) ((x.idx : Int) + 1 + n) x.y hx1 hx2 (by omega)
          (by have := cnt_cases E x.y; omega) (by omega)
        obtain ⟨i1, i2, i3, i4, i5⟩ := loopF_spec E _ _ _ r hx1 hx2 (by omega) hr
        rw [hr]
        obtain ⟨m, y⟩ := r
        dsimp only at i1 i2 i3 i4 i5 ⊢
        exact ⟨_, fromYm_of_pos E y m (by omega) i5 (hl _) i2 i3⟩
      · simp only [hpos, if_false]
        have hcx := cnt_cases E x.y
        obtain ⟨r, hr, hr0⟩ := loopB_total E n.natAbs ((x.idx : Int) + 1 + n) x.y hx1 hx2 (by omega) (by omega)
        obtain ⟨i1, i2, i3, i4⟩ := loopB_spec E _ _ _ r hx2 (by omega) hr hr0
        rw [hr]
        obtain ⟨m, y⟩ := r
        dsimp only at i1 i2 i3 i4 hr0 ⊢
        exact ⟨_, fromYm_of_pos E y m hr0 (by omega) (hl _) i2 i3⟩
  obtain ⟨x', h⟩ := key
  obtain ⟨w, p⟩ := C03_next_pos E hl x x' hx n h
  exact ⟨x', h, w, p⟩


/-- non-vacuity: a concrete date meets the hypotheses -/
example : Civil.valid 2024 2 10 = true ∧ (241 ≤ (2024 : Int) ∧ (2024 : Int) ≤ 9997) := by decide

end Tyme
