import Tyme.Lemmas.Stepping
/-!
C11 — stepping by n is a consistent group action on every time unit and cycle; index<->name lookups.
Property theorems only (helpers in `Tyme/Lemmas/Stepping.lean`; facts about the re-extracted name lists in
`Tyme/Facts/C11Names.lean`); every obligation is named `C11_*`.

Model: `indexOf`, `loopFromIndex`, `loopNext`, `fromName`, `getName` (Tyme/Model/Cycle.lean) for the 42 LoopTyme-based
types; `yearNext`, `linNextT` (truncating carry, as in the code), `linNextF` (floor carry, the two repaired sites),
`halfNext`, `seasonNext`, `monthNext`, `termNext`, `scMonthNext`, `sfestNext`, `lfestNext`, `fortuneNext`
(Tyme/Model/Units.lean).  Spec: `Tyme.Step` (Tyme/Spec/Stepping.lean): `cyc` = (i + n) mod size; `lin` = the unit at
global position `size*year + index + n` if the supported range has it.
All theorems are for ALL integers (indices, step counts, years) and ALL sizes > 0 — nothing is bounded.
-/
namespace Tyme

-- =========================================================================== cyclic types

/-- `index_of` (truncating `%` plus negative repair) is the mathematical remainder, for every integer index. -/
theorem C11_indexOf_emod (i : Int) (size : Nat) (h : 0 < size) : indexOf i size = i % (size : Int) :=
  indexOf_eq_emod i size h

/-- its result is always a valid index. -/
theorem C11_indexOf_range (i : Int) (size : Nat) (h : 0 < size) : 0 ≤ indexOf i size ∧ indexOf i size < (size : Int) :=
  indexOf_range i size h

/-- `from_index(k).get_index()` wraps any integer modulo the size, and is the identity on valid indices
(`from_index ∘ get_index = id`). -/
theorem C11_cyc_fromIndex (size : Nat) (h : 0 < size) (k : Int) :
    loopFromIndex size k = Step.cycOf size k ∧ (0 ≤ k → k < (size : Int) → loopFromIndex size k = k) := by
  refine ⟨indexOf_eq_emod k size h, fun h0 h1 => indexOf_of_range k size h0 h1⟩

/-- `next(n)` of every cyclic type is stepping round the cycle: (i + n) mod size, a valid index. -/
theorem C11_cyc_next_spec (size : Nat) (h : 0 < size) (i n : Int) :
    loopNext size i n = Step.cyc size i n ∧ 0 ≤ loopNext size i n ∧ loopNext size i n < (size : Int) := by
  rw [loopNext_eq size h]
  exact ⟨rfl, Int.emod_nonneg _ (by omega), Int.emod_lt_of_pos _ (by omega)⟩

/-- stepping by 0 returns x. -/
theorem C11_cyc_zero (size : Nat) (i : Int) (h0 : 0 ≤ i) (h1 : i < (size : Int)) : loopNext size i 0 = i := by
  rw [loopNext_eq size (by omega), Int.add_zero]
  exact Int.emod_eq_of_lt h0 h1

/-- stepping by a then b equals stepping by a + b (any integers, also when i + a overflows the cycle many times). -/
theorem C11_cyc_add (size : Nat) (h : 0 < size) (i a b : Int) :
    loopNext size (loopNext size i a) b = loopNext size i (a + b) := by
  rw [loopNext_eq size h, loopNext_eq size h, loopNext_eq size h, Int.emod_add_emod, Int.add_assoc]

/-- stepping by a then -a returns x. -/
theorem C11_cyc_inv (size : Nat) (i a : Int) (h0 : 0 ≤ i) (h1 : i < (size : Int)) :
    loopNext size (loopNext size i a) (-a) = i := by
  rw [C11_cyc_add size (by omega)]
  have : a + -a = 0 := by omega
  rw [this]
  exact C11_cyc_zero size i h0 h1

/-- cyclic values wrap modulo their size: whole turns do not matter. -/
theorem C11_cyc_wrap (size : Nat) (h : 0 < size) (i n k : Int) :
    loopNext size i (n + k * (size : Int)) = loopNext size i n := by
  rw [loopNext_eq size h, loopNext_eq size h, ← Int.add_assoc, Int.add_mul_emod_self_right]

/-- `steps_to(target)` is the number of forward steps that reaches the target element. -/
theorem C11_cyc_stepsTo (size : Nat) (h : 0 < size) (i t : Int) (h0 : 0 ≤ t) (h1 : t < (size : Int)) :
    loopNext size i (loopStepsTo size i t) = t := by
  unfold loopStepsTo
  rw [loopNext_eq size h, indexOf_eq_emod _ _ h, Int.add_emod_emod]
  have : i + (t - i) = t := by omega
  rw [this]
  exact Int.emod_eq_of_lt h0 h1

example : loopNext 10 3 (-1000003) = 0 ∧ loopNext 12 11 1 = 0 ∧ loopFromIndex 60 (-1) = 59 := by decide

-- =========================================================================== index <-> name

/-- `from_name(get_name(i)) = i` for every element of a name list without duplicates. -/
theorem C11_fromName_getName (names : List (List Nat)) (hnd : names.Nodup) (i : Nat) (hi : i < names.length) :
    fromName names (getName names i) = some i := by
  unfold fromName getName
  rw [firstIdxFrom_nodup names hnd i 0 hi]
  simp

/-- `get_name(from_name(s)) = s` whenever `from_name` accepts (duplicates or not), and the index is valid. -/
theorem C11_getName_fromName (names : List (List Nat)) (nm : List Nat) (j : Nat) (h : fromName names nm = some j) :
    j < names.length ∧ getName names j = nm := by
  obtain ⟨_, b, c, _⟩ := firstIdxFrom_spec names nm 0 j h
  simp only [Nat.sub_zero] at b c
  refine ⟨b, ?_⟩
  unfold getName
  rw [List.getD_eq_getElem?_getD, c]
  rfl

/-- unknown names are refused, and only those. -/
theorem C11_fromName_unknown (names : List (List Nat)) (nm : List Nat) : fromName names nm = none ↔ nm ∉ names :=
  firstIdxFrom_none names nm 0

/-- with duplicates, `from_name` returns the FIRST element carrying the name (so the round trip fails exactly on
later duplicates — the `Phase` findings). -/
theorem C11_fromName_first (names : List (List Nat)) (nm : List Nat) (j : Nat) (h : fromName names nm = some j) :
    ∀ m, m < j → getName names m ≠ nm := by
  obtain ⟨_, b, _, d⟩ := firstIdxFrom_spec names nm 0 j h
  simp only [Nat.sub_zero] at b d
  intro m hm e
  apply d m hm
  unfold getName at e
  rw [List.getD_eq_getElem?_getD, List.getElem?_eq_getElem (by omega)] at e
  rw [List.getElem?_eq_getElem (by omega)]
  simpa using e

example : fromName [[1], [2], [2]] (getName [[1], [2], [2]] 2) = some 1 ∧ fromName [[1], [2]] [3] = none := by decide

-- =========================================================================== years

/-- SolarYear / LunarYear / SixtyCycleYear: `next` is the specification (year + n, refused outside the range). -/
theorem C11_year_spec (ok : Int → Bool) (y n : Int) : yearNext ok y n = Step.year ok y n := rfl

/-- the three laws and "moves by exactly n" for years. -/
theorem C11_year_laws (ok : Int → Bool) (y a b y1 : Int) :
    (ok y = true → yearNext ok y 0 = some y) ∧
    (yearNext ok y a = some y1 → y1 = y + a ∧ ok y1 = true) ∧
    (yearNext ok y a = some y1 → yearNext ok y1 b = yearNext ok y (a + b)) ∧
    (ok y = true → yearNext ok y a = some y1 → yearNext ok y1 (-a) = some y) := by
  unfold yearNext
  refine ⟨?_, ?_, ?_, ?_⟩
  · intro h; simp [h]
  · intro h; split at h
    · rename_i hk; have e : y + a = y1 := Option.some.inj h; subst e; exact ⟨rfl, hk⟩
    · exact absurd h (by simp)
  · intro h; split at h
    · have e : y + a = y1 := Option.some.inj h; subst e; rw [Int.add_assoc]
    · exact absurd h (by simp)
  · intro hk h; split at h
    · have e : y + a = y1 := Option.some.inj h; subst e
      have : y + a + -a = y := by omega
      rw [this]; simp [hk]
    · exact absurd h (by simp)

-- =========================================================================== the carry pattern

/-- D15: the code's truncating carry `(year*size + i) / size` is floor division whenever the total is not negative. -/
theorem C11_carry_floor (size : Nat) (y i : Int) (h : 0 ≤ y * (size : Int) + i) :
    carryT size y i = (y * (size : Int) + i) / (size : Int) := carryT_eq_carryF size y i h

/-- …and a total that IS negative can never produce an accepted year ≥ 1 on either side: with a constructor that
refuses years < 1 the truncating pattern equals the specification for ALL step counts (refusals included). -/
theorem C11_lin_trunc_spec (size : Nat) (hs : 0 < size) (ok : Int → Int → Bool)
    (hok : ∀ y i, ok y i = true → 1 ≤ y) (y idx n : Int) :
    linNextT size ok y idx n = Step.lin size ok y idx n := linNextT_eq_spec size hs ok hok y idx n

/-- the repaired (floor) pattern equals the specification for every acceptance predicate (years ≤ 0 included). -/
theorem C11_lin_floor_spec (size : Nat) (hs : 0 < size) (ok : Int → Int → Bool) (y idx n : Int) :
    linNextF size ok y idx n = Step.lin size ok y idx n := linNextF_eq_spec size hs ok y idx n

/-- the hypothesis of `C11_lin_trunc_spec` is needed: with years ≤ 0 accepted the truncating pattern is wrong
(this is the defect repaired in `SixtyCycleMonth::next` and `LunarFestival::next`). -/
example : linNextT 12 (fun y _ => lunarYearOk y) 1 0 (-13) = some (0, 11) ∧
    Step.lin 12 (fun y _ => lunarYearOk y) 1 0 (-13) = some (-1, 11) := by decide

theorem C11_half_spec (y i n : Int) : halfNext y i n = Step.lin 2 solarPartOk y i n :=
  linNextT_eq_spec 2 (by omega) _ (by intro y i h; simp [solarPartOk, solarYearOk] at h; omega) y i n

theorem C11_season_spec (y i n : Int) : seasonNext y i n = Step.lin 4 solarPartOk y i n :=
  linNextT_eq_spec 4 (by omega) _ (by intro y i h; simp [solarPartOk, solarYearOk] at h; omega) y i n

/-- SolarMonth (1-based month number). -/
theorem C11_month_spec (y m n : Int) :
    monthNext y m n = (Step.lin 12 solarPartOk y (m - 1) n).map fun r => (r.1, r.2 + 1) := by
  unfold monthNext
  rw [linNextT_eq_spec 12 (by omega) _ (by intro y i h; simp [solarPartOk, solarYearOk] at h; omega)]

theorem C11_sfest_spec (y i n : Int) : sfestNext y i n = Step.lin 10 sfestOk y i n :=
  linNextT_eq_spec 10 (by omega) _ (by intro y i h; simp [sfestOk, solarYearOk] at h; omega) y i n

/-- LunarFestival (repaired): lunar year 0 is accepted, so floor division is essential here. -/
theorem C11_lfest_spec (y i n : Int) : lfestNext y i n = Step.lin 13 lfestOk y i n :=
  linNextF_eq_spec 13 (by omega) _ y i n

-- =========================================================================== laws of the specification (hence of every unit above)

/-- "moves by exactly n units of its own size": an accepted step lands on the valid unit whose global position
`size*year + index` is n further. -/
theorem C11_lin_exact (size : Nat) (hs : 0 < size) (ok : Int → Int → Bool) (y i n y' i' : Int)
    (h : Step.lin size ok y i n = some (y', i')) :
    Step.pos size y' i' = Step.pos size y i + n ∧ 0 ≤ i' ∧ i' < (size : Int) ∧ ok y' i' = true :=
  lin_some size hs ok y i n y' i' h

/-- …and it is accepted whenever that unit is in the supported range (no spurious refusal). -/
theorem C11_lin_total (size : Nat) (ok : Int → Int → Bool) (y i n : Int)
    (h : ok (Step.unitAt size (Step.pos size y i + n)).1 (Step.unitAt size (Step.pos size y i + n)).2 = true) :
    Step.lin size ok y i n = some (Step.unitAt size (Step.pos size y i + n)) := lin_total size ok y i n h

/-- stepping by 0 returns x. -/
theorem C11_lin_zero (size : Nat) (ok : Int → Int → Bool) (y i : Int)
    (h0 : 0 ≤ i) (h1 : i < (size : Int)) (hk : ok y i = true) : Step.lin size ok y i 0 = some (y, i) :=
  lin_zero size ok y i h0 h1 hk

/-- stepping by a then b equals stepping by a + b — including whether the second step is refused. -/
theorem C11_lin_add (size : Nat) (hs : 0 < size) (ok : Int → Int → Bool) (y i a b y1 i1 : Int)
    (h : Step.lin size ok y i a = some (y1, i1)) :
    Step.lin size ok y1 i1 b = Step.lin size ok y i (a + b) := lin_add size hs ok y i a b y1 i1 h

/-- stepping by a then -a returns x. -/
theorem C11_lin_inv (size : Nat) (hs : 0 < size) (ok : Int → Int → Bool) (y i a y1 i1 : Int)
    (h0 : 0 ≤ i) (h1 : i < (size : Int)) (hk : ok y i = true)
    (h : Step.lin size ok y i a = some (y1, i1)) :
    Step.lin size ok y1 i1 (-a) = some (y, i) := lin_inv size hs ok y i a y1 i1 h0 h1 hk h

example : halfNext 1 0 (-1) = none ∧ halfNext 1 1 (-1) = some (1, 0) ∧ monthNext 2023 12 1 = some (2024, 1) ∧
    monthNext 9999 12 1 = none ∧ seasonNext 2000 0 (-5) = some (1998, 3) := by decide

-- =========================================================================== SolarTerm (no range check in the code)

/-- SolarTerm accepts any year; its `next` (truncating, normalised twice) is the specification exactly when the total
`24*year + index + n` is not negative — which every result in the supported years 1..9999 satisfies. -/
theorem C11_term_next (y idx n : Int) (h : 0 ≤ y * 24 + idx + n) :
    termNext y idx n = Step.unitAt 24 (Step.pos 24 y idx + n) := by
  unfold termNext termFromIndex Step.unitAt Step.pos
  simp only
  have e0 : ((24 : Nat) : Int) = 24 := rfl
  have h1 : carryT 24 y (idx + n) = (y * 24 + idx + n) / 24 := by
    rw [carryT_eq_carryF _ _ _ (by rw [e0]; omega)]; unfold carryF; rw [e0, Int.add_assoc]
  have h2 : indexOf (idx + n) 24 = (y * 24 + idx + n) % 24 := by
    rw [indexOf_eq_emod _ _ (by omega), e0]; omega
  rw [h1, h2]
  have h3 : 0 ≤ (y * 24 + idx + n) / 24 * 24 + (y * 24 + idx + n) % 24 := by omega
  have h4 : carryT 24 ((y * 24 + idx + n) / 24) ((y * 24 + idx + n) % 24) = (y * 24 + idx + n) / 24 := by
    rw [carryT_eq_carryF _ _ _ (by rw [e0]; exact h3)]; unfold carryF; rw [e0]; omega
  have h5 : indexOf ((y * 24 + idx + n) % 24) 24 = (y * 24 + idx + n) % 24 := by
    rw [indexOf_eq_emod _ _ (by omega), e0]; omega
  rw [h4, h5, e0]

/-- in particular (any start, any n): if the code's result OR the specified result lies in the supported years 1..9999
then the code's result is the specified one; the three laws then follow from `C11_lin_*`. -/
theorem C11_term_in_range (y idx n : Int)
    (hr : solarYearOk (termNext y idx n).1 = true ∨ solarYearOk (Step.unitAt 24 (Step.pos 24 y idx + n)).1 = true) :
    some (termNext y idx n) = Step.lin 24 solarPartOk y idx n := by
  have e0 : ((24 : Nat) : Int) = 24 := rfl
  have key : 0 ≤ y * 24 + idx + n := by
    rcases hr with hr | hr
    · -- a truncated quotient ≥ 1 needs a total ≥ 24
      apply Classical.byContradiction; intro hneg
      unfold termNext termFromIndex at hr
      simp only at hr
      have hq : carryT 24 y (idx + n) ≤ 0 := by
        unfold carryT; apply tdiv_nonpos_of_neg; rw [e0]; omega; omega
      have hi := indexOf_range (idx + n) 24 (by omega)
      have : carryT 24 (carryT 24 y (idx + n)) (indexOf (idx + n) 24) ≤ 0 := by
        by_cases hz : carryT 24 y (idx + n) * 24 + indexOf (idx + n) 24 < 0
        · unfold carryT at hz ⊢; apply tdiv_nonpos_of_neg; rw [e0]; exact hz; omega
        · rw [carryT_eq_carryF _ _ _ (by rw [e0]; omega)]; unfold carryF; rw [e0]; rw [e0] at hi; omega
      simp [solarYearOk] at hr; omega
    · unfold Step.unitAt Step.pos at hr
      simp [solarYearOk] at hr; omega
  rw [C11_term_next y idx n key]
  unfold Step.lin
  simp only
  rcases hr with hr | hr
  · rw [C11_term_next y idx n key] at hr; simp [solarPartOk, hr]
  · simp [solarPartOk, hr]

/-- D15 made concrete: below year 0 the truncating carry of SolarTerm is off by one year (outside the supported range). -/
example : termNext 1 0 (-25) = (0, 23) ∧ Step.unitAt 24 (Step.pos 24 1 0 + -25) = (-1, 23) := by decide

-- =========================================================================== SixtyCycleMonth (repaired)

/-- the index-in-year of the month pillar follows the pillar round the 60-cycle. -/
theorem C11_scmonth_index (sc n : Int) :
    scIndexInYear (loopNext 60 sc n) = Step.cyc 12 (scIndexInYear sc) n := by
  unfold scIndexInYear scEarthBranch Step.cyc
  rw [loopNext_eq 12 (by omega), loopNext_eq 12 (by omega), loopNext_eq 60 (by omega)]
  unfold loopFromIndex
  rw [indexOf_eq_emod _ _ (by omega), indexOf_eq_emod _ _ (by omega), Int.tmod_eq_emod, Int.tmod_eq_emod]
  have e12 : ((12 : Nat) : Int) = 12 := rfl
  have e60 : ((60 : Nat) : Int) = 60 := rfl
  rw [e12, e60]
  have a1 : 0 ≤ (sc + n) % 60 := Int.emod_nonneg _ (by omega)
  simp only [a1, true_or, if_true]
  split <;> omega

/-- `SixtyCycleMonth::next` (after the repair): the year/index-in-year part is the linear specification with 12
months per year on sexagenary years -1..9999, the pillar steps round the 60-cycle. -/
theorem C11_scmonth_spec (y sc n : Int) :
    scMonthNext y sc n =
      (Step.lin 12 (fun y _ => lunarYearOk y) y (scIndexInYear sc) n).map fun r => (r.1, loopNext 60 sc n) := by
  unfold scMonthNext Step.lin Step.unitAt Step.pos carryF
  simp only
  rw [Int.add_assoc]
  split <;> simp

/-- the three laws for SixtyCycleMonth states (year, pillar), with results in the accepted years -1..9999. -/
theorem C11_scmonth_laws (y sc a b y1 sc1 : Int) (h0 : 0 ≤ sc) (h1 : sc < 60) :
    (lunarYearOk y = true → scMonthNext y sc 0 = some (y, sc)) ∧
    (scMonthNext y sc a = some (y1, sc1) →
      y1 * 12 + scIndexInYear sc1 = y * 12 + scIndexInYear sc + a ∧ sc1 = Step.cyc 60 sc a) ∧
    (scMonthNext y sc a = some (y1, sc1) → scMonthNext y1 sc1 b = scMonthNext y sc (a + b)) ∧
    (lunarYearOk y = true → scMonthNext y sc a = some (y1, sc1) → scMonthNext y1 sc1 (-a) = some (y, sc)) := by
  have hr : 0 ≤ scIndexInYear sc ∧ scIndexInYear sc < 12 := by
    unfold scIndexInYear; have := (C11_cyc_next_spec 12 (by omega) (scEarthBranch sc) (-2)).2; exact this
  have e12 : ((12 : Nat) : Int) = 12 := rfl
  have zero : lunarYearOk y = true → scMonthNext y sc 0 = some (y, sc) := by
    intro hk
    rw [C11_scmonth_spec, lin_zero 12 _ y _ hr.1 (by rw [e12]; exact hr.2) hk]
    simp [C11_cyc_zero 60 sc h0 (by exact h1)]
  have split1 : scMonthNext y sc a = some (y1, sc1) →
      Step.lin 12 (fun y _ => lunarYearOk y) y (scIndexInYear sc) a = some (y1, scIndexInYear sc1) ∧ sc1 = loopNext 60 sc a := by
    intro h
    rw [C11_scmonth_spec] at h
    cases hl : Step.lin 12 (fun y _ => lunarYearOk y) y (scIndexInYear sc) a with
    | none => rw [hl] at h; simp at h
    | some r =>
      rw [hl] at h
      simp only [Option.map_some] at h
      have e := Option.some.inj h
      have e1 : r.1 = y1 := congrArg Prod.fst e
      have e2 : loopNext 60 sc a = sc1 := congrArg Prod.snd e
      obtain ⟨hp, _, _, _⟩ := lin_some 12 (by omega) _ y _ a r.1 r.2 (by rw [hl])
      have hi : r.2 = scIndexInYear sc1 := by
        rw [← e2, C11_scmonth_index]
        unfold Step.pos at hp
        unfold Step.lin Step.unitAt Step.pos at hl
        simp only at hl
        split at hl
        · have := Option.some.inj hl; rw [← this]; unfold Step.cyc; simp only; rw [e12]; omega
        · exact absurd hl (by simp)
      refine ⟨?_, e2.symm⟩
      rw [← e1, ← hi]
  refine ⟨zero, ?_, ?_, ?_⟩
  · intro h
    obtain ⟨hl, hs⟩ := split1 h
    obtain ⟨hp, _, _, _⟩ := lin_some 12 (by omega) _ y _ a y1 _ hl
    unfold Step.pos at hp
    rw [e12] at hp
    refine ⟨hp, ?_⟩
    rw [hs]; exact (C11_cyc_next_spec 60 (by omega) sc a).1
  · intro h
    obtain ⟨hl, hs⟩ := split1 h
    rw [C11_scmonth_spec, C11_scmonth_spec, lin_add 12 (by omega) _ y _ a b y1 _ hl, hs, C11_cyc_add 60 (by omega)]
  · intro hk h
    obtain ⟨hl, hs⟩ := split1 h
    rw [C11_scmonth_spec, lin_inv 12 (by omega) _ y _ a y1 _ hr.1 (by rw [e12]; exact hr.2) hk hl, hs]
    simp [C11_cyc_inv 60 sc a h0 (by exact h1)]

/-- `SixtyCycleYear::get_first_month` exists for every year, is the 寅 month (index-in-year 0) and carries the stem
given by the five-tigers rule `((year stem) + 1) * 2`. -/
theorem C11_scmonth_first (y : Int) : ∃ sc, scFirstMonth y = some sc ∧ 0 ≤ sc ∧ sc < 60 ∧ scIndexInYear sc = 0 ∧
    sc % 10 = (((y - 4) % 10 + 1) * 2) % 10 := by
  unfold scFirstMonth
  simp only
  have e10 : ((10 : Nat) : Int) = 10 := rfl
  have e60 : ((60 : Nat) : Int) = 60 := rfl
  have hh : loopFromIndex 10 ((scHeavenStem (loopFromIndex 60 (y - 4)) + 1) * 2) = (((y - 4) % 10 + 1) * 2) % 10 := by
    unfold scHeavenStem loopFromIndex
    rw [indexOf_eq_emod _ _ (by omega), indexOf_eq_emod _ _ (by omega), indexOf_eq_emod _ _ (by omega), Int.tmod_eq_emod, e10, e60]
    have a1 : 0 ≤ (y - 4) % 60 := Int.emod_nonneg _ (by omega)
    simp only [a1, true_or, if_true]
    omega
  rw [hh]
  have hc : ∃ r : Int, (0 ≤ r ∧ r < 5) ∧ (((y - 4) % 10 + 1) * 2) % 10 = 2 * r :=
    ⟨(((y - 4) % 10 + 1) * 2) % 10 / 2, by omega, by omega⟩
  obtain ⟨r, hr, e⟩ := hc
  rw [e]
  have : r = 0 ∨ r = 1 ∨ r = 2 ∨ r = 3 ∨ r = 4 := by omega
  rcases this with rfl | rfl | rfl | rfl | rfl
  · exact ⟨50, by decide, by decide, by decide, by decide, by decide⟩
  · exact ⟨2, by decide, by decide, by decide, by decide, by decide⟩
  · exact ⟨14, by decide, by decide, by decide, by decide, by decide⟩
  · exact ⟨26, by decide, by decide, by decide, by decide, by decide⟩
  · exact ⟨38, by decide, by decide, by decide, by decide, by decide⟩

/-- `SixtyCycleMonth::from_index(year, k)` for ANY integer k: the month at position `12*year + k` (year carried by
floor division, refused outside -1..9999), pillar = first month's pillar stepped by k. -/
theorem C11_scmonth_fromIndex (y k : Int) (hy : lunarYearOk y = true) :
    ∃ sc0, scFirstMonth y = some sc0 ∧
      scMonthFromIndex y k = (Step.lin 12 (fun y _ => lunarYearOk y) y 0 k).map fun r => (r.1, loopNext 60 sc0 k) := by
  obtain ⟨sc0, h, _, _, hi, _⟩ := C11_scmonth_first y
  refine ⟨sc0, h, ?_⟩
  unfold scMonthFromIndex
  simp only [hy, if_true, h, Option.bind_some]
  rw [C11_scmonth_spec, hi]

example : scMonthNext 1 2 (-13) = some (-1, 49) ∧ scMonthNext (-1) 49 13 = some (1, 2) ∧ scIndexInYear 2 = 0 := by decide

-- =========================================================================== fortunes

/-- DecadeFortune / Fortune: the index moves by exactly n; the three laws. -/
theorem C11_fortune_laws (i a b : Int) :
    fortuneNext i 0 = i ∧ fortuneNext (fortuneNext i a) b = fortuneNext i (a + b) ∧ fortuneNext (fortuneNext i a) (-a) = i := by
  unfold fortuneNext; omega

end Tyme
