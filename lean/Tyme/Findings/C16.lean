import Tyme.Thm.C16
/-!
Findings for C16 (built, NOT an obligation): the full-strength end-instant statement `C16_end_full` is false on the
current tree — defect D22, the day-overflow walk of `AbstractChildLimitProvider::next` counts October 1582 as 21 days
numbered 1..21. Witnesses at the level of `next` (the sweep replays whole births against the implementation, e.g.
`limit 1572 6 28 6 0 0 1 0 => refused`, `limit 1572 5 27 6 0 0 0 0 => … 1582 11 6 …` where the sum is 1582-10-27).
-/
namespace Tyme
open CL

/-- refused: 1582-09-30 + 5 days stops in October on day number 5, which does not exist -/
theorem findings_C16_refused : addNext ⟨(1582, 9, 30), 12, 0, 0⟩ ⟨0, 0, 5, 0, 0⟩ = none := by decide

/-- ten days early: 1582-10-01 + 14 days stops on day number 15 = the 5th existing day (the sum is 1582-10-25) -/
theorem findings_C16_early : addNext ⟨(1582, 10, 1), 12, 0, 0⟩ ⟨0, 0, 14, 0, 0⟩ = some ⟨(1582, 10, 15), 12, 0, 0⟩ := by decide

/-- ten days late against the calendar sum: 1581-10-25 + 1 year is 1582-10-25, the walk leaves the "21-day" month and
reports 1582-11-04 (this one satisfies `C16_end_partial` — first of the month + 24 days — but not `C16_end_sum`) -/
theorem findings_C16_late : addNext ⟨(1581, 10, 25), 12, 0, 0⟩ ⟨1, 0, 0, 0, 0⟩ = some ⟨(1582, 11, 4), 12, 0, 0⟩ := by decide

theorem findings_C16_end_full_false : ¬ C16_end_full := by
  intro h
  obtain ⟨e, he, _⟩ := h ⟨(1582, 9, 30), 12, 0, 0⟩ ⟨0, 0, 5, 0, 0⟩ (by decide) (by decide) (by decide) (by decide) (by decide) (by decide) (by decide)
  rw [findings_C16_refused] at he
  cases he

end Tyme
