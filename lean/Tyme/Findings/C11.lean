import Tyme.Facts.C11Names
/-!
C11 findings (built, not an obligation): the full index<->name statement is FALSE on the library's data.
Witness: `Phase`, index 3 — `PHASE_NAMES[2] = PHASE_NAMES[3] = "蛾眉新月"`, so `from_name(get_name(3)) = 2`.
The sweep replays it on the implementation (stream `c11.names`, line `Phase name 3 2`).
-/
namespace Tyme
open C11Gen

theorem not_C11_names_full : ¬ C11_names_full := by
  intro h
  have := h 12 (by decide +kernel) (by decide +kernel) 3 (by decide +kernel)
  revert this
  decide +kernel

/-- the witness is the `Phase` table -/
example : (tableAt 12).1 = "Phase" := rfl

end Tyme
