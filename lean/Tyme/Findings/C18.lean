import Tyme.Thm.C18
/-!
C18 findings (built on demand, NOT an obligation; names deliberately do not start with `C18_`):
the full-strength kitchen-god statement is false on the pinned tree, witnessed by lunar year −1 — the known finding
`C18-kitchen-year-minus-1` of known_findings.json, which the sweep replays on the implementation (`kitchen -1 refused`).
If upstream makes year −1 constructible this file stops compiling; the check then prints STALE-FINDING.
-/
namespace Tyme
open Almanac

/-- the API refuses lunar year −1 -/
theorem finding_C18_kitchen_year_minus_1 : extKitchen (-1) = none := by decide +kernel

theorem finding_C18_kitchen_full_fails : ¬ C18_kitchen_full := by
  intro h
  obtain ⟨p, nums, h1, _⟩ := h (-1) (by decide) (by decide)
  rw [finding_C18_kitchen_year_minus_1] at h1
  cases h1

end Tyme
