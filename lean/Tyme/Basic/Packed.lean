/-
Bit-packed tables: a table is a list of chunks `(count, value)`; chunk value holds `count`
records of `w` bits each, least significant first. `records` is the specification-level flat list
(used by the compiled driver and in theorem statements); `foldAll` walks the same records
sequentially without building the list and is what the kernel evaluates (`decide +kernel`).
Core Lean only.
-/
namespace Tyme.Packed

/-- the `n` `w`-bit records of one packed value, least significant first -/
def unpack (w : Nat) : Nat → Nat → List Nat
  | 0, _ => []
  | n+1, t => t % 2 ^ w :: unpack w n (t / 2 ^ w)

/-- all records of a table -/
def records (w : Nat) : List (Nat × Nat) → List Nat
  | [] => []
  | c :: cs => unpack w c.1 c.2 ++ records w cs

/-- fold over the records of one chunk without building the list -/
def foldChunk {σ : Type} (w : Nat) (f : σ → Nat → σ) : Nat → Nat → σ → σ
  | 0, _, s => s
  | n+1, t, s => foldChunk w f n (t / 2 ^ w) (f s (t % 2 ^ w))

/-- fold over all records of a table without building the list -/
def foldAll {σ : Type} (w : Nat) (f : σ → Nat → σ) : List (Nat × Nat) → σ → σ
  | [], s => s
  | c :: cs, s => foldAll w f cs (foldChunk w f c.1 c.2 s)

theorem foldChunk_eq {σ : Type} (w : Nat) (f : σ → Nat → σ) :
    ∀ (n t : Nat) (s : σ), foldChunk w f n t s = (unpack w n t).foldl f s := by
  intro n
  induction n with
  | zero => intro t s; rfl
  | succ n ih => intro t s; simp only [foldChunk, unpack, List.foldl_cons]; exact ih _ _

theorem foldAll_eq {σ : Type} (w : Nat) (f : σ → Nat → σ) :
    ∀ (cs : List (Nat × Nat)) (s : σ), foldAll w f cs s = (records w cs).foldl f s := by
  intro cs
  induction cs with
  | nil => intro s; rfl
  | cons c cs ih =>
    intro s
    simp only [foldAll, records, List.foldl_append, foldChunk_eq]
    exact ih _

/-! ### adjacent pairs, direct recursion (fast in the kernel: no lazily growing state) -/

/-- walk the `n` records of chunk value `t`; `i` = index of the record about to be read, `prev` = the
record before it; returns the last record read, or `none` if a pair fails -/
def adjChunk (w : Nat) (p : Nat → Nat → Nat → Bool) : Nat → Nat → Nat → Nat → Option Nat
  | 0, _, _, prev => some prev
  | n+1, t, i, prev => if p i prev (t % 2 ^ w) then adjChunk w p n (t / 2 ^ w) (i + 1) (t % 2 ^ w) else none

def adjChunks (w : Nat) (p : Nat → Nat → Nat → Bool) : List (Nat × Nat) → Nat → Nat → Option Nat
  | [], _, prev => some prev
  | c :: cs, i, prev =>
    match adjChunk w p c.1 c.2 i prev with
    | none => none
    | some last => adjChunks w p cs (i + c.1) last

/-- list-level twin -/
def adjList (p : Nat → Nat → Nat → Bool) : List Nat → Nat → Nat → Option Nat
  | [], _, prev => some prev
  | x :: xs, i, prev => if p i prev x then adjList p xs (i + 1) x else none

theorem unpack_length (w : Nat) : ∀ n t, (unpack w n t).length = n := by
  intro n; induction n with
  | zero => intro t; rfl
  | succ n ih => intro t; simp [unpack, ih]

theorem adjChunk_eq (w : Nat) (p : Nat → Nat → Nat → Bool) :
    ∀ n t i prev, adjChunk w p n t i prev = adjList p (unpack w n t) i prev := by
  intro n; induction n with
  | zero => intro t i prev; rfl
  | succ n ih => intro t i prev; simp only [adjChunk, unpack, adjList]; split <;> simp [ih]

theorem adjList_append (p : Nat → Nat → Nat → Bool) :
    ∀ (l1 l2 : List Nat) (i prev : Nat),
      adjList p (l1 ++ l2) i prev =
        match adjList p l1 i prev with
        | none => none
        | some last => adjList p l2 (i + l1.length) last := by
  intro l1; induction l1 with
  | nil => intro l2 i prev; simp [adjList]
  | cons x xs ih =>
    intro l2 i prev
    simp only [List.cons_append, adjList]
    split
    · rw [ih]; simp [Nat.add_assoc, Nat.add_comm 1]
    · rfl

theorem adjChunks_eq (w : Nat) (p : Nat → Nat → Nat → Bool) :
    ∀ cs i prev, adjChunks w p cs i prev = adjList p (records w cs) i prev := by
  intro cs; induction cs with
  | nil => intro i prev; rfl
  | cons c cs ih =>
    intro i prev
    simp only [adjChunks, records, adjList_append, adjChunk_eq, unpack_length]
    split <;> simp_all

theorem adjList_spec (p : Nat → Nat → Nat → Bool) :
    ∀ (l : List Nat) (i prev : Nat), (adjList p l i prev).isSome = true →
      (∀ (h : 0 < l.length), p i prev (l[0]'h) = true) ∧
        ∀ k (h : k + 1 < l.length), p (i + 1 + k) (l[k]'(by omega)) (l[k+1]'h) = true := by
  intro l; induction l with
  | nil => intro i prev _; exact ⟨fun h => absurd h (Nat.lt_irrefl 0), fun k hk => absurd hk (Nat.not_lt_zero _)⟩
  | cons x xs ih =>
    intro i prev h
    simp only [adjList] at h
    split at h
    · rename_i hp
      obtain ⟨h2, h3⟩ := ih (i + 1) x h
      refine ⟨fun _ => by simpa using hp, ?_⟩
      intro k hk
      cases k with
      | zero => simpa using h2 (by simpa using hk)
      | succ k =>
        have := h3 k (by simpa using hk)
        have e : i + 1 + 1 + k = i + 1 + (k + 1) := by omega
        rw [e] at this
        simpa using this
    · simp at h

/-- every adjacent pair of records satisfies `p k r_k r_{k+1}` (k = index of the first of the pair);
kernel-evaluated form -/
def adjRec (w : Nat) (p : Nat → Nat → Nat → Bool) (cs : List (Nat × Nat)) : Bool :=
  (adjChunks w (fun i a b => i == 0 || p (i - 1) a b) cs 0 0).isSome

theorem adjRec_spec (w : Nat) (p : Nat → Nat → Nat → Bool) (cs : List (Nat × Nat)) (h : adjRec w p cs = true) :
    ∀ k (hk : k + 1 < (records w cs).length),
      p k ((records w cs)[k]'(by omega)) ((records w cs)[k+1]'hk) = true := by
  unfold adjRec at h
  rw [adjChunks_eq] at h
  have := (adjList_spec _ _ 0 0 h).2
  intro k hk
  have := this k hk
  simpa using this

/-! ### all records, direct recursion -/

def allChunk (w : Nat) (p : Nat → Nat → Bool) : Nat → Nat → Nat → Bool
  | 0, _, _ => true
  | n+1, t, i => p i (t % 2 ^ w) && allChunk w p n (t / 2 ^ w) (i + 1)

def allChunks (w : Nat) (p : Nat → Nat → Bool) : List (Nat × Nat) → Nat → Bool
  | [], _ => true
  | c :: cs, i => allChunk w p c.1 c.2 i && allChunks w p cs (i + c.1)

def allList (p : Nat → Nat → Bool) : List Nat → Nat → Bool
  | [], _ => true
  | x :: xs, i => p i x && allList p xs (i + 1)

theorem allChunk_eq (w : Nat) (p : Nat → Nat → Bool) :
    ∀ n t i, allChunk w p n t i = allList p (unpack w n t) i := by
  intro n; induction n with
  | zero => intro t i; rfl
  | succ n ih => intro t i; simp only [allChunk, unpack, allList, ih]

theorem allList_append (p : Nat → Nat → Bool) :
    ∀ (l1 l2 : List Nat) (i : Nat), allList p (l1 ++ l2) i = (allList p l1 i && allList p l2 (i + l1.length)) := by
  intro l1; induction l1 with
  | nil => intro l2 i; simp [allList]
  | cons x xs ih => intro l2 i; simp [allList, ih, Bool.and_assoc, Nat.add_assoc, Nat.add_comm 1]

theorem allChunks_eq (w : Nat) (p : Nat → Nat → Bool) :
    ∀ cs i, allChunks w p cs i = allList p (records w cs) i := by
  intro cs; induction cs with
  | nil => intro i; rfl
  | cons c cs ih => intro i; simp only [allChunks, records, allList_append, allChunk_eq, unpack_length, ih]

theorem allList_spec (p : Nat → Nat → Bool) :
    ∀ (l : List Nat) (i : Nat), allList p l i = true → ∀ k (h : k < l.length), p (i + k) (l[k]'h) = true := by
  intro l; induction l with
  | nil => intro i _ k hk; exact absurd hk (Nat.not_lt_zero _)
  | cons x xs ih =>
    intro i h k hk
    simp only [allList, Bool.and_eq_true] at h
    cases k with
    | zero => simpa using h.1
    | succ k =>
      have := ih (i + 1) h.2 k (by simpa using hk)
      have e : i + 1 + k = i + (k + 1) := by omega
      rw [e] at this
      simpa using this

/-- every record satisfies `p index record`; kernel-evaluated form -/
def allRec (w : Nat) (p : Nat → Nat → Bool) (cs : List (Nat × Nat)) : Bool := allChunks w p cs 0

theorem allRec_spec (w : Nat) (p : Nat → Nat → Bool) (cs : List (Nat × Nat)) (h : allRec w p cs = true) :
    ∀ k (hk : k < (records w cs).length), p k ((records w cs)[k]'hk) = true := by
  unfold allRec at h
  rw [allChunks_eq] at h
  intro k hk
  simpa using allList_spec p _ 0 h k hk


/-! ### gluing facts proved part by part (so that Lake can check the parts in parallel) -/

theorem records_append (w : Nat) : ∀ (A B : List (Nat × Nat)), records w (A ++ B) = records w A ++ records w B := by
  intro A; induction A with
  | nil => intro B; rfl
  | cons c cs ih => intro B; simp [records, ih]

theorem records_length (w : Nat) : ∀ cs : List (Nat × Nat), (records w cs).length = (cs.map (·.1)).sum := by
  intro cs; induction cs with
  | nil => rfl
  | cons c cs ih => simp [records, unpack_length, ih]

theorem adjChunks_append (w : Nat) (p : Nat → Nat → Nat → Bool) (A B : List (Nat × Nat)) (i prev : Nat) :
    adjChunks w p (A ++ B) i prev =
      match adjChunks w p A i prev with
      | none => none
      | some last => adjChunks w p B (i + (records w A).length) last := by
  simp only [adjChunks_eq, records_append, adjList_append]

theorem allChunks_append (w : Nat) (p : Nat → Nat → Bool) (A B : List (Nat × Nat)) (i : Nat) :
    allChunks w p (A ++ B) i = (allChunks w p A i && allChunks w p B (i + (records w A).length)) := by
  simp only [allChunks_eq, records_append, allList_append]

/-- the shifted predicate used by `adjRec` -/
def adjP (p : Nat → Nat → Nat → Bool) : Nat → Nat → Nat → Bool := fun i a b => i == 0 || p (i - 1) a b

theorem adjRec_def (w : Nat) (p : Nat → Nat → Nat → Bool) (cs : List (Nat × Nat)) :
    adjRec w p cs = (adjChunks w (adjP p) cs 0 0).isSome := rfl

end Tyme.Packed
