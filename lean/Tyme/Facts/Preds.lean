import Tyme.Model.Eph
/-! Predicates of the table facts (static; the facts themselves are generated per part in Gen/*Fact*.lean
with the walker's entry and exit state as literals, and glued in Facts/*Fact.lean). -/
namespace Tyme
open Packed

/-! #### months (one 512-bit record per lunar year) -/

/-- months i..i+n-1 of year record r: first = cur, abut, 29/30 days -/
def slotsOK (r : Nat) : Nat → Nat → Nat → Bool
  | 0, _, _ => true
  | n+1, i, cur =>
    Rec.sFirst (Rec.slot r i) == cur && (Rec.sLen (Rec.slot r i) == 29 || Rec.sLen (Rec.slot r i) == 30) &&
      slotsOK r n (i + 1) (cur + Rec.sLen (Rec.slot r i))

def yearEnd (r : Nat) : Nat :=
  Rec.sFirst (Rec.slot r (Rec.yCount r - 1)) + Rec.sLen (Rec.slot r (Rec.yCount r - 1))

def yearInner (r : Nat) : Bool :=
  decide (Rec.yLeap r ≤ 12) && Rec.yCount r == (if Rec.yLeap r > 0 then 13 else 12) &&
  slotsOK r (Rec.yCount r) 0 (Rec.sFirst (Rec.slot r 0))

def yearLenOK (n : Nat) : Bool := (decide (353 ≤ n) && decide (n ≤ 355)) || (decide (383 ≤ n) && decide (n ≤ 385))

/-- lunar years whose own months or whose junction to the next year do not tile (D4) -/
def badYear (y : Nat) : Bool := y == 8 || y == 23 || y == 24 || y == 236 || y == 239

def yearPair (y a b : Nat) : Bool :=
  (yearInner a && Rec.sFirst (Rec.slot b 0) == yearEnd a && yearLenOK (yearEnd a - Rec.sFirst (Rec.slot a 0)))
  || badYear y

def yearLeapOK (_ r : Nat) : Bool :=
  decide (Rec.yLeap r ≤ 12) && Rec.yCount r == (if Rec.yLeap r > 0 then 13 else 12)

/-! #### terms (72-bit records, global index 24*(y-1)+i) -/

/-- seconds on the civil time line of a term record -/
def recSec (r : Nat) : Nat := 86400 * Rec.tDay r + Rec.tSod r

/-- adjacent terms (both representable): strictly increasing instants 14.6–15.8 days apart, term days 14–16
apart, second-of-day < 86400 -/
def termPair (_ a b : Nat) : Bool :=
  Rec.tDayRaw a == 0 || Rec.tDayRaw b == 0 ||
  (Nat.ble (recSec a + 1261440) (recSec b) && Nat.ble (recSec b) (recSec a + 1365120) &&
   Nat.ble (Rec.tDay a + 14) (Rec.tDay b) && Nat.ble (Rec.tDay b) (Rec.tDay a + 16) &&
   Nat.blt (Rec.tSod a) 86400 && Nat.blt (Rec.tSod b) 86400)

/-- representability pattern: exactly term 0 (the winter solstice of December of year 0) and the terms
after (10000, 1) are not representable -/
def termRepr (g r : Nat) : Bool :=
  (Rec.tDayRaw r == 0) == (g == 0 || Nat.ble 239978 g)

end Tyme
