import Tyme.Model.Eph
/-! Predicates of the table facts (static; the facts themselves are generated per part in Gen/*Fact*.lean
with the walker's entry and exit state as literals, and glued in Facts/*Fact.lean). -/
namespace Tyme
open Packed

/-! #### months (one 512-bit record per lunar year) -/

/-- months i..i+n-1 of year record r: first = cur, abut, 29/30 days -/
def slotsOK (r : Nat) : Nat → Nat → Nat → Bool
  | 0, _, _ => true
  | n+1, i, cur =>
    Rec.sFirst (Rec.slot r i) == cur && (Rec.sLen (Rec.slot r i) == 29 || Rec.sLen (Rec.slot r i) == 30) &&
      slotsOK r n (i + 1) (cur + Rec.sLen (Rec.slot r i))

def yearEnd (r : Nat) : Nat :=
  Rec.sFirst (Rec.slot r (Rec.yCount r - 1)) + Rec.sLen (Rec.slot r (Rec.yCount r - 1))

def yearInner (r : Nat) : Bool :=
  decide (Rec.yLeap r ≤ 12) && Rec.yCount r == (if Rec.yLeap r > 0 then 13 else 12) &&
  slotsOK r (Rec.yCount r) 0 (Rec.sFirst (Rec.slot r 0))

def yearLenOK (n : Nat) : Bool := (decide (353 ≤ n) && decide (n ≤ 355)) || (decide (383 ≤ n) && decide (n ≤ 385))

/-- lunar years whose own months or whose junction to the next year do not tile (D4) -/
def badYear (y : Nat) : Bool := y == 8 || y == 23 || y == 24 || y == 236 || y == 239

def yearPair (y a b : Nat) : Bool :=
  (yearInner a && Rec.sFirst (Rec.slot b 0) == yearEnd a && yearLenOK (yearEnd a - Rec.sFirst (Rec.slot a 0)))
  || badYear y

def yearLeapOK (_ r : Nat) : Bool :=
  decide (Rec.yLeap r ≤ 12) && Rec.yCount r == (if Rec.yLeap r > 0 then 13 else 12)

/-! #### C04: the no-major-term rule, evaluated on a pair of consecutive year records
(a = lunar year y−1, b = lunar year y; b carries the 13 zhongqi days of the solstice year ending in December y) -/

/-- number and leap flag of the month with index idx in a year whose leap month is lp -/
def numOf (lp idx : Nat) : Nat × Bool :=
  if lp = 0 ∨ idx < lp then (idx + 1, false) else if idx = lp then (lp, true) else (idx, false)

/-- index of the month of year record r containing day q (searching idx i.., n months left) -/
def findMonth (r q : Nat) : Nat → Nat → Option Nat
  | 0, _ => none
  | n+1, i =>
    if Nat.ble (Rec.sFirst (Rec.slot r i)) q && Nat.blt q (Rec.sFirst (Rec.slot r i) + Rec.sLen (Rec.slot r i))
    then some i else findMonth r q n (i + 1)

/-- does [f, f+l) contain one of the zhongqi days k.. (n left) of record b -/
def hasQi (b f l : Nat) : Nat → Nat → Bool
  | 0, _ => false
  | n+1, k => (Nat.ble f (Rec.yQi b k) && Nat.blt (Rec.yQi b k) (f + l)) || hasQi b f l n (k + 1)

/-- walk the months idx i.. (n left) of record r (leap month lp; zhongqi from b): each must carry the number the
rule prescribes. State: previous number, leap already placed; `thirteen` = the solstice year has 13 lunations.
Returns the final (number, leapPlaced) or none on a mismatch. -/
def ruleWalk (thirteen : Bool) (b r lp : Nat) : Nat → Nat → Nat → Bool → Option (Nat × Bool)
  | 0, _, prev, used => some (prev, used)
  | n+1, i, prev, used =>
    let f := Rec.sFirst (Rec.slot r i)
    let l := Rec.sLen (Rec.slot r i)
    let isLeapByRule := thirteen && !used && !hasQi b f l 13 0
    let expected : Nat × Bool := if isLeapByRule then (prev, true) else (prev % 12 + 1, false)
    if numOf lp i == expected then ruleWalk thirteen b r lp n (i + 1) expected.1 (used || isLeapByRule) else none

/-- years outside the claim: before 27 (first reform period) and the AD 237–240 reform -/
def suiExcluded (y : Nat) : Bool := Nat.blt y 27 || y == 238 || y == 239 || y == 240

/-- C04 for one solstice year: a = record of lunar year y−1, b = record of lunar year y (the solstice year from
the winter solstice of December y−1 to that of December y). The adjacent-pair index k has a = year k, b = year k+1. -/
def suiCore (a b : Nat) : Bool :=
  (match findMonth a (Rec.yQi b 0) (Rec.yCount a) 0, findMonth b (Rec.yQi b 12) (Rec.yCount b) 0 with
   | some A, some B =>
     let n := Rec.yCount a - A + B     -- lunations after A up to and including B
     numOf (Rec.yLeap a) A == (11, false) && numOf (Rec.yLeap b) B == (11, false) && (n == 12 || n == 13) &&
     (match ruleWalk (n == 13) b a (Rec.yLeap a) (Rec.yCount a - 1 - A) (A + 1) 11 false with
      | none => false
      | some (p, u) =>
        match ruleWalk (n == 13) b b (Rec.yLeap b) (B + 1) 0 p u with
        | none => false
        | some (p2, u2) => p2 == 11 && (u2 == (n == 13)))
   | _, _ => false)

def suiPair (k a b : Nat) : Bool := suiExcluded (k + 1) || suiCore a b

/-! #### C08: windows of the lunar new year and of the terms around January 1 -/

/-- day number of January 1 of civil year y in Nat arithmetic (= jdn y 1 1 for y ≥ 1, proved in Facts/Windows.lean) -/
def jan1 (y : Nat) : Nat :=
  365 * (y + 4715) + (y + 4715) / 4 + 429 + (if 1583 ≤ y then 2 + (y - 1) / 100 / 4 else 0) - (if 1583 ≤ y then (y - 1) / 100 else 0) - 1524

/-- lunar new year of year y falls between 5 days before and 59 days after January 1 of civil year y (y ≥ 1) -/
def yearNewYearOK (y r : Nat) : Bool :=
  y == 0 || (Nat.ble (jan1 y) (Rec.sFirst (Rec.slot r 0) + 5) && Nat.ble (Rec.sFirst (Rec.slot r 0)) (jan1 y + 59))

/-- term windows relative to January 1 of the term's year y = g/24 + 1 (representable terms only):
index 0 (winter solstice) before Jan 1; index 2 on/after Jan 1; index 3 (Lichun) 1..40 days after Jan 1 -/
def termWinOK (g r : Nat) : Bool :=
  Rec.tDayRaw r == 0 ||
  (if g % 24 == 0 then Nat.blt (Rec.tDay r) (jan1 (g / 24 + 1))
   else if g % 24 == 2 then Nat.ble (jan1 (g / 24 + 1)) (Rec.tDay r)
   else if g % 24 == 3 then Nat.blt (jan1 (g / 24 + 1)) (Rec.tDay r) && Nat.ble (Rec.tDay r) (jan1 (g / 24 + 1) + 40)
   else true)

/-! #### C05 clause (i): calendar path = precise path -/

def shuoSlots (r : Nat) : Nat → Nat → Bool
  | 0, _ => true
  | n+1, i => Rec.yShuoCode r i == 1 && shuoSlots r n (i + 1)

/-- lunar years 1961..8000: the first day of every month is the civil day of the precisely computed conjunction -/
def yearShuoOK (y r : Nat) : Bool := Nat.blt y 1961 || Nat.blt 8000 y || shuoSlots r (Rec.yCount r) 0

/-! #### terms (72-bit records, global index 24*(y-1)+i) -/

/-- seconds on the civil time line of a term record -/
def recSec (r : Nat) : Nat := 86400 * Rec.tDay r + Rec.tSod r

/-- adjacent terms (both representable): strictly increasing instants 14.6–15.8 days apart, term days 14–16
apart, second-of-day < 86400 -/
def termPair (_ a b : Nat) : Bool :=
  Rec.tDayRaw a == 0 || Rec.tDayRaw b == 0 ||
  (Nat.ble (recSec a + 1261440) (recSec b) && Nat.ble (recSec b) (recSec a + 1365120) &&
   Nat.ble (Rec.tDay a + 14) (Rec.tDay b) && Nat.ble (Rec.tDay b) (Rec.tDay a + 16) &&
   Nat.blt (Rec.tSod a) 86400 && Nat.blt (Rec.tSod b) 86400)

/-- representability pattern: exactly term 0 (the winter solstice of December of year 0) and the terms
after (10000, 1) are not representable -/
def termRepr (g r : Nat) : Bool :=
  (Rec.tDayRaw r == 0) == (g == 0 || Nat.ble 239978 g)

/-- terms of years 1961.. (global index ≥ 24·1960): the calendar-making day is the civil day of the precise instant; the
library reports an instant in the last half second of a day as 00:00:00 of the next day, which is the only other case -/
def termCalOK (g r : Nat) : Bool :=
  Nat.blt g 47040 || Rec.tDayRaw r == 0 || Rec.tQi r == Rec.tDay r || (Rec.tDay r == Rec.tQi r + 1 && Rec.tSod r == 0)

end Tyme
