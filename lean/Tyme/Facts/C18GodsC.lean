import Tyme.Facts.C18Defs
/-! C18 table facts (kernel enumeration of the generated data, `decide +kernel`): day spirits (`DAY_GODS` against `God::get_day_gods`), month branches 6..8.
Each theorem walks one row = 60 (branch, day pillar) pairs; re-checked whenever the Gen data change. -/
namespace Tyme
open Almanac Gen

theorem C18_fact_gods_6 : godsRowOk 6 = true := by decide +kernel
theorem C18_fact_gods_7 : godsRowOk 7 = true := by decide +kernel
theorem C18_fact_gods_8 : godsRowOk 8 = true := by decide +kernel

end Tyme
