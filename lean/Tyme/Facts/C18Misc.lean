import Tyme.Facts.C18Defs
/-! C18 table facts (kernel enumeration of the generated data, `decide +kernel`): name lists, luck classes of all
spirits, kitchen-god numbers of all lunar years −1..9999. Re-checked whenever the Gen data change. -/
namespace Tyme
open Almanac AlmanacSpec Gen

/-- the source translator lifted something (false = a source pattern no longer matched: broken tie) -/
theorem C18_fact_lifted : C18Raw.lifted = true := by decide +kernel

/-- the name lists lifted from the source text are the names the API returns, and have the sizes the API reports -/
theorem C18_fact_names :
    rawGodNames = extGodNames ∧ rawTabooNames = extTabooNames ∧
    godCount = C18Ext.godSize ∧ tabooCount = C18Ext.tabooSize := by decide +kernel

/-- the table sizes of the pinned tree (151 spirits, 141 activities, 12 strings per table) -/
theorem C18_fact_sizes :
    godCount = 151 ∧ tabooCount = 141 ∧ rawDayGods.length = 12 ∧ rawDayTaboo.length = 12 ∧ rawHourTaboo.length = 12 := by
  decide +kernel

/-- the auspicious part of the spirit list is exactly positions 0..59: 解除 is entry 59 and 五虚 is entry 60 -/
theorem C18_fact_split :
    position firstOminous rawGodNames = 60 ∧ rawGodNames[59]? = some lastAuspicious ∧ rawGodNames[60]? = some firstOminous := by
  decide +kernel

/-- every spirit: API luck = model = spec -/
theorem C18_fact_luck : luckOk = true := by decide +kernel

/-- every lunar year −1..9999 that is not a listed known finding: numbers = model = spec -/
theorem C18_fact_kitchen : kitchenOk = true := by decide +kernel

end Tyme
