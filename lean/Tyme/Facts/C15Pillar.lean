import Tyme.Model.Series
import Tyme.Model.RealEph
/-!
C15: point evaluations of the extracted ephemeris (kernel computation on the Gen tables):
* for each maximal tiling interval [a,b] of lunar years (C02), the lunar new year of year a precedes the
  Grain-in-Ear day of its first civil year and the Slight-Heat day of civil year b precedes the lunar new year of b+1;
* in the five D4 junction years 8, 23, 24, 236, 239 (no tiling theorem) the lunar-route pillar of the Grain-in-Ear,
  summer-solstice and Slight-Heat days is computed outright (15 days).
-/
namespace Tyme
open Series

set_option maxRecDepth 100000 in
theorem c15_interval_facts :
    realEph.mFirst 1 0 ≤ realEph.termDay 35 ∧ realEph.termDay 157 < realEph.mFirst 8 0 ∧
    realEph.mFirst 9 0 ≤ realEph.termDay 203 ∧ realEph.termDay 517 < realEph.mFirst 23 0 ∧
    realEph.mFirst 25 0 ≤ realEph.termDay 587 ∧ realEph.termDay 5629 < realEph.mFirst 236 0 ∧
    realEph.mFirst 237 0 ≤ realEph.termDay 5675 ∧ realEph.termDay 5701 < realEph.mFirst 239 0 ∧
    realEph.mFirst 240 0 ≤ realEph.termDay 5747 ∧ realEph.termDay 239941 < realEph.mFirst 9999 0 := by decide +kernel

/-- the lunar-route pillar of term day g is (day number + 49) mod 60 -/
def pillarOK (g : Nat) : Bool := pillarOf realEph (realEph.termDay g) == some ((realEph.termDay g + 49) % 60)

set_option maxRecDepth 100000 in
theorem c15_bad_year_pillars :
    pillarOK 179 ∧ pillarOK 180 ∧ pillarOK 181 ∧          -- year 8: 24·7 + 11, 12, 13
    pillarOK 539 ∧ pillarOK 540 ∧ pillarOK 541 ∧          -- year 23
    pillarOK 563 ∧ pillarOK 564 ∧ pillarOK 565 ∧          -- year 24
    pillarOK 5651 ∧ pillarOK 5652 ∧ pillarOK 5653 ∧       -- year 236
    pillarOK 5723 ∧ pillarOK 5724 ∧ pillarOK 5725 := by decide +kernel   -- year 239

end Tyme
