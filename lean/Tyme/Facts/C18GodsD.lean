import Tyme.Facts.C18Defs
/-! C18 table facts (kernel enumeration of the generated data, `decide +kernel`): day spirits (`DAY_GODS` against `God::get_day_gods`), month branches 9..11.
Each theorem walks one row = 60 (branch, day pillar) pairs; re-checked whenever the Gen data change. -/
namespace Tyme
open Almanac Gen

theorem C18_fact_gods_9 : godsRowOk 9 = true := by decide +kernel
theorem C18_fact_gods_10 : godsRowOk 10 = true := by decide +kernel
theorem C18_fact_gods_11 : godsRowOk 11 = true := by decide +kernel

end Tyme
