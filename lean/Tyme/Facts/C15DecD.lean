import Tyme.Facts.C15Preds
import Tyme.Basic.Packed
import Tyme.Gen.Terms6
import Tyme.Gen.Terms7
/-! C15 table fact, parts 6 and 7 of the term table (30,000 records each): every winter solstice lies in December. -/
namespace Tyme
open Packed Gen

set_option maxRecDepth 100000 in
theorem c15_dec_part6 : allChunks 72 solDec termsPart6 180000 = true := by decide +kernel

set_option maxRecDepth 100000 in
theorem c15_dec_part7 : allChunks 72 solDec termsPart7 210000 = true := by decide +kernel

end Tyme
