import Tyme.Facts.C15Preds
import Tyme.Basic.Packed
import Tyme.Gen.Terms2
import Tyme.Gen.Terms3
/-! C15 table fact, parts 2 and 3 of the term table (30,000 records each): every winter solstice lies in December. -/
namespace Tyme
open Packed Gen

set_option maxRecDepth 100000 in
theorem c15_dec_part2 : allChunks 72 solDec termsPart2 60000 = true := by decide +kernel

set_option maxRecDepth 100000 in
theorem c15_dec_part3 : allChunks 72 solDec termsPart3 90000 = true := by decide +kernel

end Tyme
