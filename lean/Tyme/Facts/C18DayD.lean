import Tyme.Facts.C18Defs
/-! C18 table facts (kernel enumeration of the generated data, `decide +kernel`): day activities (`DAY_TABOO` against `Taboo::get_day_recommends/avoids`), month branches 9..11.
Each theorem walks one row = 60 (branch, day pillar) pairs; re-checked whenever the Gen data change. -/
namespace Tyme
open Almanac Gen

theorem C18_fact_day_9 : tabooRowOk rawDayTaboo C18Ext.dayRec C18Ext.dayAvoid 9 = true := by decide +kernel
theorem C18_fact_day_10 : tabooRowOk rawDayTaboo C18Ext.dayRec C18Ext.dayAvoid 10 = true := by decide +kernel
theorem C18_fact_day_11 : tabooRowOk rawDayTaboo C18Ext.dayRec C18Ext.dayAvoid 11 = true := by decide +kernel

end Tyme
