import Tyme.Lemmas.Almanac
import Tyme.Model.AlmanacTables
/-!
C18 table facts — the Boolean checkers the kernel evaluates on the generated data (one sequential walk per table
row) and the lemmas that turn `checker = true` into the per-pair statements of `Thm/C18.lean`.
The `decide +kernel` evaluations themselves are in `C18Gods*.lean`, `C18Day*.lean`, `C18Hour.lean`, `C18Misc.lean`.
-/
namespace Tyme.Almanac
open Tyme.AlmanacSpec Tyme.Gen

/-! ### one (branch, pillar) pair -/

/-- what C18 asks of the spirits of one (month branch, day pillar) pair, with the record and the values exhibited -/
structure GodsPair (monthBranch day : Nat) (r : List Nat) (e : List Nat) : Prop where
  /-- the leftmost match of `;HH(.[^;]*)` in the month's string exists and captures `r` -/
  found : godRecord rawDayGods monthBranch day = some (some r)
  /-- `r` is an even number of hex digits whose pairs are the numbers `e` -/
  parses : fieldValues r = some e
  /-- every number is a position of `GOD_NAMES` (so `from_index` never wraps) -/
  inRange : ∀ v ∈ e, v < godCount
  /-- at least one spirit -/
  nonempty : e ≠ []
  /-- the API returns exactly these indices -/
  api : extGods monthBranch day = some e

/-- what C18 asks of the activities of one pair: `sup` = row of the table (month branch resp. hour branch),
`sub` = day pillar; `fr`, `fa` the two fields of the record, `er`, `ea` their values -/
structure TabooPair (tbl : List (List Nat)) (extR extA : Option (List Nat)) (sup sub : Nat)
    (fr fa : List Nat) (er ea : List Nat) : Prop where
  /-- the record exists and consists of exactly two `,`-separated fields -/
  record : ∃ rec, tabooRecord tbl sup sub = some rec ∧ splitOn 44 rec = [fr, fa]
  parsesR : fieldValues fr = some er
  parsesA : fieldValues fa = some ea
  inRangeR : ∀ v ∈ er, v < tabooCount
  inRangeA : ∀ v ∈ ea, v < tabooCount
  /-- no activity both recommended and avoided -/
  disjoint : ∀ v ∈ er, v ∉ ea
  apiR : extR = some er
  apiA : extA = some ea

/-! ### checkers -/

def valuesOk (size : Nat) (f : List Nat) (e : List Nat) : Bool :=
  decide (fieldValues f = some e) && e.all (fun v => Nat.blt v size)

/-- entry `d` of a gods row: `blocks` the records of the month's string, `oe` what the API returned -/
def godsEntryOk (blocks : List (Nat × Nat × List Nat)) (d : Nat) (oe : Option (List Nat)) : Bool :=
  match oe, blockField blocks (hex2 d).1 (hex2 d).2 with
  | some e, some r => valuesOk godCount r e && !e.isEmpty
  | _, _ => false

/-- all 60 day pillars of one month branch: the string is laid out as clean labelled records (so, by
`findRecord_of_layout`, the regex scan returns the aligned record), and every day's record is well formed and equals the API -/
def godsRowOk (monthBranch : Nat) : Bool :=
  match rawDayGods[godTableIndex monthBranch]?, C18Ext.gods[monthBranch]? with
  | some s, some p => layoutOk s (blocksOf s) && allN (godsEntryOk (blocksOf s)) 60 0 (unpackLists 60 (bytesOf p))
  | _, _ => false

def tabooEntryOk (_ : Nat) (rec : List Nat) (oer oea : Option (List Nat)) : Bool :=
  match splitOn 44 rec, oer, oea with
  | [fr, fa], some er, some ea => valuesOk tabooCount fr er && valuesOk tabooCount fa ea && AlmanacSpec.disjoint er ea
  | _, _, _ => false

/-- all 60 day pillars of one row (month branch of `DAY_TABOO`, hour branch of `HOUR_TABOO`) -/
def tabooRowOk (tbl : List (List Nat)) (extR extA : List (Nat × Nat)) (sup : Nat) : Bool :=
  match tbl[sup]?, extR[sup]?, extA[sup]? with
  | some s, some pr, some pa =>
    all3 tabooEntryOk 60 0 (splitOn 59 s) (unpackLists 60 (bytesOf pr)) (unpackLists 60 (bytesOf pa))
  | _, _, _ => false

/-! ### soundness of the checkers -/

theorem valuesOk_spec {size : Nat} {f e : List Nat} (h : valuesOk size f e = true) :
    fieldValues f = some e ∧ ∀ v ∈ e, v < size := by
  unfold valuesOk at h
  simp only [Bool.and_eq_true, decide_eq_true_eq, List.all_eq_true] at h
  refine ⟨h.1, fun v hv => ?_⟩
  have := h.2 v hv
  simpa [Nat.blt_eq] using this

theorem godsRowOk_spec {mb : Nat} (h : godsRowOk mb = true) :
    ∀ d, d < 60 → ∃ r e, GodsPair mb d r e := by
  intro d hd
  unfold godsRowOk at h
  split at h
  · rename_i s p hs hp
    simp only [Bool.and_eq_true] at h
    obtain ⟨hlay, hall⟩ := h
    obtain ⟨oe, hoe, hok⟩ := allN_spec _ _ _ _ hall d hd
    rw [Nat.zero_add] at hok
    unfold godsEntryOk at hok
    split at hok
    · rename_i e r hfind
      simp only [Bool.and_eq_true, Bool.not_eq_true', List.isEmpty_eq_false_iff] at hok
      obtain ⟨hv, hr⟩ := valuesOk_spec hok.1
      refine ⟨r, e, ⟨?_, hv, hr, hok.2, ?_⟩⟩
      · unfold godRecord; rw [hs]; simp only [findRecord_of_layout hlay, hfind]
      · unfold extGods extRow; rw [hp]; simp only [hoe, Option.join_some]
    · cases hok
  · cases h

theorem godsRowOk_layout {mb : Nat} (h : godsRowOk mb = true) :
    ∃ s, rawDayGods[godTableIndex mb]? = some s ∧ layoutOk s (blocksOf s) = true := by
  unfold godsRowOk at h
  split at h
  · rename_i s p hs hp
    simp only [Bool.and_eq_true] at h
    exact ⟨s, hs, h.1⟩
  · cases h

theorem tabooRowOk_spec {tbl : List (List Nat)} {extR extA : List (Nat × Nat)} {sup : Nat}
    (h : tabooRowOk tbl extR extA sup = true) :
    ∀ d, d < 60 → ∃ fr fa er ea, TabooPair tbl (extRow extR sup d) (extRow extA sup d) sup d fr fa er ea := by
  intro d hd
  unfold tabooRowOk at h
  split at h
  · rename_i s pr pa hs hpr hpa
    obtain ⟨rec, oer, oea, hrec, hoer, hoea, hok⟩ := all3_spec _ _ _ _ _ _ h d hd
    unfold tabooEntryOk at hok
    split at hok
    · rename_i fr fa er ea hsplit
      simp only [Bool.and_eq_true] at hok
      obtain ⟨⟨h1, h2⟩, h3⟩ := hok
      obtain ⟨hvr, hrr⟩ := valuesOk_spec h1
      obtain ⟨hva, hra⟩ := valuesOk_spec h2
      refine ⟨fr, fa, er, ea, ⟨⟨rec, ?_, hsplit⟩, hvr, hva, hrr, hra, ?_, ?_, ?_⟩⟩
      · unfold tabooRecord; rw [hs]; exact hrec
      · intro v hv hva'
        unfold AlmanacSpec.disjoint at h3
        have := (List.all_eq_true.mp h3) v hv
        simp [hva'] at this
      · unfold extRow; rw [hpr]; simp only [hoer, Option.join_some]
      · unfold extRow; rw [hpa]; simp only [hoea, Option.join_some]
    · cases hok
  · cases h

/-! ### consequences for the model of the API (decode(raw) = extension, nothing wraps) -/

theorem GodsPair.decode {mb d : Nat} {r e : List Nat} (h : GodsPair mb d r e) :
    dayGodsRaw rawDayGods mb d = some (e.map Int.ofNat) := by
  unfold dayGodsRaw; rw [h.found]; exact hexPairs_of_fieldValues r e h.parses

theorem TabooPair.fieldR {tbl : List (List Nat)} {xr xa : Option (List Nat)} {sup sub : Nat} {fr fa er ea : List Nat}
    (h : TabooPair tbl xr xa sup sub fr fa er ea) : tabooField tbl sup sub 0 = some fr := by
  obtain ⟨rec, h1, h2⟩ := h.record
  unfold tabooField; rw [h1]; simp only [h2]; rfl

theorem TabooPair.fieldA {tbl : List (List Nat)} {xr xa : Option (List Nat)} {sup sub : Nat} {fr fa er ea : List Nat}
    (h : TabooPair tbl xr xa sup sub fr fa er ea) : tabooField tbl sup sub 1 = some fa := by
  obtain ⟨rec, h1, h2⟩ := h.record
  unfold tabooField; rw [h1]; simp only [h2]; rfl

theorem TabooPair.decodeR {tbl : List (List Nat)} {xr xa : Option (List Nat)} {sup sub : Nat} {fr fa er ea : List Nat}
    (h : TabooPair tbl xr xa sup sub fr fa er ea) : taboosRaw tbl sup sub 0 = some (er.map Int.ofNat) := by
  unfold taboosRaw; rw [h.fieldR]; exact hexPairs_of_fieldValues fr er h.parsesR

theorem TabooPair.decodeA {tbl : List (List Nat)} {xr xa : Option (List Nat)} {sup sub : Nat} {fr fa er ea : List Nat}
    (h : TabooPair tbl xr xa sup sub fr fa er ea) : taboosRaw tbl sup sub 1 = some (ea.map Int.ofNat) := by
  unfold taboosRaw; rw [h.fieldA]; exact hexPairs_of_fieldValues fa ea h.parsesA

end Tyme.Almanac

namespace Tyme.Almanac
open Tyme.AlmanacSpec Tyme.Gen

/-! ### luck, names, kitchen god -/

/-- luck index the API reports for spirit `i`; `none` = refused / no such spirit -/
def extLuck (i : Nat) : Option Nat :=
  match extLuckTable[i]? with
  | some v => if v == 255 then none else some v
  | none => none

/-- spirit `i`: API = model (`index < 60`) = spec (position relative to 五虚 in the lifted name list) -/
def luckEntryOk (i v : Nat) : Bool := v == luck i && luck i == luckOf rawGodNames i

def luckOk : Bool := allN luckEntryOk godCount 0 extLuckTable && extLuckTable.length == godCount

theorem luckOk_spec (h : luckOk = true) : ∀ i, i < godCount →
    extLuck i = some (luck i) ∧ luck i = luckOf rawGodNames i := by
  intro i hi
  unfold luckOk at h
  simp only [Bool.and_eq_true] at h
  obtain ⟨v, hv, hok⟩ := allN_spec _ _ _ _ h.1 i hi
  unfold luckEntryOk at hok
  simp only [Nat.zero_add, Bool.and_eq_true, beq_iff_eq] at hok
  refine ⟨?_, hok.2⟩
  unfold extLuck; rw [hv]; simp only [hok.1]
  have : luck i ≠ 255 := by unfold luck; split <;> omega
  simp [this]

/-- entry `i` (lunar year `i − 1`) with 136-bit record `r`: beyond year 9999 nothing is asked; a listed known finding is
skipped; otherwise the pillar is a pillar and the whole record is the model's record for that pillar -/
def kitchenEntryOk (i r : Nat) : Bool :=
  Nat.ble 10001 i || C18Known.kitchenYears.contains ((i : Int) - 1) ||
  (Nat.blt (r % 256) 60 && Nat.beq r (kitchenT60At (r % 256)))

/-- chunk `k` = entries 200k .. 200k+199 -/
def kitchenChunkOk (k : Nat) (p : Nat × Nat) : Bool := walkRecs 136 kitchenEntryOk 200 (200 * k) p.2

/-- all 10,001 lunar years −1..9999 (51 literals of 200 records) -/
def kitchenOk : Bool := allN kitchenChunkOk 51 0 C18Ext.kitchen

theorem kitchenOk_spec (h : kitchenOk = true) : ∀ y : Int, -1 ≤ y → y ≤ 9999 → y ∉ C18Known.kitchenYears →
    ∃ p nums, extKitchen y = some (p, nums) ∧ p < 60 ∧ kitchen p = some nums ∧
      AlmanacSpec.kitchen p = nums.map some ∧ ∀ x ∈ nums, 1 ≤ x ∧ x ≤ 12 := by
  intro y h1 h2 hk
  have hi : (y + 1).toNat < 10001 := by omega
  generalize hidef : (y + 1).toNat = i at hi
  have hyi : (i : Int) - 1 = y := by omega
  obtain ⟨c, hc, hok⟩ := allN_spec _ _ _ _ h (i / 200) (by omega)
  unfold kitchenChunkOk at hok
  have hrec := walkRecs_spec _ _ _ _ _ hok (i % 200) (Nat.mod_lt _ (by omega))
  have hidx : 200 * (0 + i / 200) + i % 200 = i := by omega
  rw [hidx] at hrec
  have hr : extKitchenRec i = (c.2 >>> (136 * (i % 200))) % 2 ^ 136 := by
    unfold extKitchenRec; rw [hc]
  rw [← hr] at hrec
  unfold kitchenEntryOk at hrec
  have hk' : C18Known.kitchenYears.contains ((i : Int) - 1) = false := by
    rw [hyi]
    cases hcn : C18Known.kitchenYears.contains y with
    | false => rfl
    | true => exact absurd (List.contains_iff_mem.mp hcn) hk
  have hble : Nat.ble 10001 i = false := by
    cases hb : Nat.ble 10001 i with
    | false => rfl
    | true => have := Nat.le_of_ble_eq_true hb; omega
  rw [hk', hble] at hrec
  simp only [Bool.false_or, Bool.and_eq_true, Nat.blt_eq] at hrec
  obtain ⟨hp, hrB⟩ := hrec
  have hrT : extKitchenRec i = kitchenT60At (extKitchenRec i % 256) := Nat.eq_of_beq_eq_true hrB
  obtain ⟨t1, t2, t3, t4⟩ := kitchenT60_spec _ hp
  refine ⟨extKitchenRec i % 256, numsOfRec (extKitchenRec i), ?_, hp, ?_, ?_, ?_⟩
  · unfold extKitchen
    rw [hidef]
    have : (extKitchenRec i % 256 == 255) = false := by
      cases hb : extKitchenRec i % 256 == 255 with
      | false => rfl
      | true => have := beq_iff_eq.mp hb; omega
    simp only [this]
    rfl
  · rw [← hrT] at t2; exact t2
  · rw [← hrT] at t3; exact t3
  · rw [← hrT] at t4; exact t4

end Tyme.Almanac
