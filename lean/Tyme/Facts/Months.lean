import Tyme.Facts.MonthsFact
/-! Lifting of the kernel-decided month-table fact to statements about `realEph`. -/
namespace Tyme
open Packed

theorem slotsOK_spec (r : Nat) : ∀ n i cur, slotsOK r n i cur = true →
    (0 < n → Rec.sFirst (Rec.slot r i) = cur) ∧
    (∀ j, j + 1 < n → Rec.sFirst (Rec.slot r (i + j + 1)) = Rec.sFirst (Rec.slot r (i + j)) + Rec.sLen (Rec.slot r (i + j))) ∧
    (∀ j, j < n → Rec.sLen (Rec.slot r (i + j)) = 29 ∨ Rec.sLen (Rec.slot r (i + j)) = 30) := by
  intro n
  induction n with
  | zero => intro i cur _; exact ⟨fun h => absurd h (Nat.lt_irrefl 0), fun j h => absurd h (Nat.not_lt_zero _), fun j h => absurd h (Nat.not_lt_zero _)⟩
  | succ n ih =>
    intro i cur h
    simp only [slotsOK, Bool.and_eq_true, beq_iff_eq, Bool.or_eq_true] at h
    obtain ⟨⟨h1, h2⟩, h3⟩ := h
    obtain ⟨i1, i2, i3⟩ := ih (i + 1) _ h3
    refine ⟨fun _ => h1, ?_, ?_⟩
    · intro j hj
      cases j with
      | zero =>
        have := i1 (by omega)
        simp only [Nat.add_zero]
        rw [this, h1]
      | succ j =>
        have := i2 j (by omega)
        have e1 : i + 1 + j + 1 = i + (j + 1) + 1 := by omega
        have e2 : i + 1 + j = i + (j + 1) := by omega
        rw [e1, e2] at this
        exact this
    · intro j hj
      cases j with
      | zero => simpa using h2
      | succ j =>
        have := i3 j (by omega)
        have e2 : i + 1 + j = i + (j + 1) := by omega
        rw [e2] at this
        exact this

/-- what the table fact says about one lunar year of an ephemeris -/
structure TilesYear (E : Eph) (y : Int) : Prop where
  leap_le : E.leap y ≤ 12
  inner : ∀ i, i + 1 < E.cnt y → E.mFirst y (i + 1) = E.mFirst y i + E.mLen y i
  len : ∀ i, i < E.cnt y → E.mLen y i = 29 ∨ E.mLen y i = 30
  junction : E.mFirst (y + 1) 0 = E.mFirst y (E.cnt y - 1) + E.mLen y (E.cnt y - 1)
  yearLen : (353 ≤ E.mFirst (y + 1) 0 - E.mFirst y 0 ∧ E.mFirst (y + 1) 0 - E.mFirst y 0 ≤ 355) ∨
            (383 ≤ E.mFirst (y + 1) 0 - E.mFirst y 0 ∧ E.mFirst (y + 1) 0 - E.mFirst y 0 ≤ 385)

/-- LIFTED FACT: every lunar year 0..9998 of the extracted data tiles, except the five D4 years. -/
theorem realEph_tiles (y : Nat) (hy : y ≤ 9998) (hb : badYear y = false) : TilesYear realEph y := by
  have hlen := yearRecs_length
  have hp := adjRec_spec 1024 yearPair Gen.monthsChunks years_tile_fact y (by
    show y + 1 < yearRecs.length
    omega)
  have ea : yearRecs.getD y 0 = yearRecs[y]'(by omega) := by
    simp [List.getD, List.getElem?_eq_getElem (show y < yearRecs.length by omega)]
  have eb : yearRecs.getD (y + 1) 0 = yearRecs[y + 1]'(by omega) := by
    simp [List.getD, List.getElem?_eq_getElem (show y + 1 < yearRecs.length by omega)]
  change yearPair y (yearRecs[y]'(by omega)) (yearRecs[y+1]'(by omega)) = true at hp
  generalize yearRecs[y]'(by omega) = a at *
  generalize yearRecs[y+1]'(by omega) = b at *
  simp only [yearPair, hb, Bool.or_false, Bool.and_eq_true, beq_iff_eq] at hp
  obtain ⟨⟨hin, hj⟩, hl⟩ := hp
  simp only [yearInner, Bool.and_eq_true, decide_eq_true_eq, beq_iff_eq] at hin
  obtain ⟨⟨hle, hc⟩, hs⟩ := hin
  obtain ⟨_, s2, s3⟩ := slotsOK_spec a _ 0 _ hs
  have hy0 : (0 : Int) ≤ (y : Int) := Int.natCast_nonneg y
  have hne : ((y : Int) = -1) = False := eq_false (by omega)
  have hleapE : realEph.leap (y : Int) = Rec.yLeap a := by
    simp only [realEph, hne, if_false, hy0, if_true, Int.toNat_natCast]; rw [ea]
  have hcnt : realEph.cnt (y : Int) = Rec.yCount a := by
    unfold Eph.cnt; rw [hleapE, hc]
  have hF : ∀ i, realEph.mFirst (y : Int) i = Rec.sFirst (Rec.slot a i) := by
    intro i; simp only [realEph, Int.toNat_natCast]; rw [ea]
  have hL : ∀ i, realEph.mLen (y : Int) i = Rec.sLen (Rec.slot a i) := by
    intro i; simp only [realEph, Int.toNat_natCast]; rw [ea]
  have hF1 : realEph.mFirst ((y : Int) + 1) 0 = Rec.sFirst (Rec.slot b 0) := by
    have : ((y : Int) + 1).toNat = y + 1 := by omega
    simp only [realEph, this]; rw [eb]
  have hcpos : 0 < Rec.yCount a := by rw [hc]; split <;> omega
  refine ⟨by rw [hleapE]; exact hle, ?_, ?_, ?_, ?_⟩
  · intro i hi
    rw [hcnt] at hi
    have := s2 i hi
    simp only [Nat.zero_add] at this
    rw [hF, hF, hL, this]; simp
  · intro i hi
    rw [hcnt] at hi
    have := s3 i hi
    simp only [Nat.zero_add] at this
    rw [hL]; omega
  · rw [hF1, hj, hcnt, hF, hL]; simp [yearEnd]
  · rw [hF1, hj, hF]
    simp only [yearLenOK, Bool.or_eq_true, Bool.and_eq_true, decide_eq_true_eq] at hl
    have hge : Rec.sFirst (Rec.slot a 0) ≤ yearEnd a := by omega
    omega


/-- LIFTED FACT: every lunar year of the ephemeris has a leap month number ≤ 12 (all integers y). -/
theorem realEph_leap_le (y : Int) : realEph.leap y ≤ 12 := by
  simp only [realEph]
  split
  · decide
  · split
    · rename_i h1 h2
      by_cases hlt : y.toNat < yearRecs.length
      · have := allRec_spec 1024 _ Gen.monthsChunks years_leap_fact y.toNat hlt
        simp only [yearLeapOK, Bool.and_eq_true, decide_eq_true_eq] at this
        have e : yearRecs.getD y.toNat 0 = yearRecs[y.toNat]'hlt := by
          simp [List.getD, List.getElem?_eq_getElem hlt]
        rw [e]; exact this.1
      · have e : yearRecs.getD y.toNat 0 = 0 := by
          simp only [List.getD]
          rw [List.getElem?_eq_none (by omega)]; rfl
        rw [e]; decide
    · decide

end Tyme
