import Tyme.Facts.TermsFact
/-! Lifting of the kernel-decided term-table facts to statements about `realEph`. -/
namespace Tyme
open Packed

theorem termRecs_getD (g : Nat) (h : g < 240000) : termRecs.getD g 0 = termRecs[g]'(by rw [termRecs_length]; exact h) := by
  simp [List.getD, List.getElem?_eq_getElem (show g < termRecs.length by rw [termRecs_length]; exact h)]

theorem tDay_eq_zero_iff (r : Nat) : Rec.tDay r = 0 ↔ Rec.tDayRaw r = 0 := by
  unfold Rec.tDay Rec.BASE
  split <;> simp_all

/-- representable terms: global index 1 .. 239977 -/
theorem realEph_term_repr (g : Nat) (h : g < 240000) : (realEph.termDay g = 0) ↔ (g = 0 ∨ 239978 ≤ g) := by
  have := allRec_spec 72 termRepr Gen.termsChunks terms_repr_fact g (by
    show g < termRecs.length
    rw [termRecs_length]; exact h)
  change termRepr g (termRecs[g]'(by rw [termRecs_length]; exact h)) = true at this
  rw [← termRecs_getD g h] at this
  simp only [realEph]
  generalize termRecs.getD g 0 = r at *
  have e : ((Rec.tDay r : Nat) : Int) = 0 ↔ Rec.tDayRaw r = 0 := by
    rw [← tDay_eq_zero_iff]; omega
  rw [e]
  unfold termRepr at this
  by_cases h1 : Rec.tDayRaw r = 0 <;> by_cases h2 : (g = 0 ∨ 239978 ≤ g)
  · simp [h1, h2]
  · exfalso
    have : ¬ (g = 0) ∧ ¬ (239978 ≤ g) := by omega
    simp [h1, this.1, Nat.ble_eq, this.2] at *
  · exfalso
    rcases h2 with h2 | h2
    · simp [h1, h2] at this
    · have hb : Nat.ble 239978 g = true := by simp [Nat.ble_eq]; exact h2
      simp [h1, hb] at this
  · simp [h1, h2]

/-- LIFTED FACT: adjacent representable terms are strictly increasing, 14.6–15.8 days apart in seconds,
their civil days 14–16 apart. -/
theorem realEph_termInc (g : Nat) (h1 : 1 ≤ g) (h2 : g + 1 ≤ 239977) :
    realEph.termSec g + 1261440 ≤ realEph.termSec (g + 1) ∧ realEph.termSec (g + 1) ≤ realEph.termSec g + 1365120 ∧
    realEph.termDay g + 14 ≤ realEph.termDay (g + 1) ∧ realEph.termDay (g + 1) ≤ realEph.termDay g + 16 ∧
    0 ≤ realEph.termSod g ∧ realEph.termSod g < 86400 := by
  have hp := adjRec_spec 72 termPair Gen.termsChunks terms_inc_fact g (by
    show g + 1 < termRecs.length
    rw [termRecs_length]; omega)
  change termPair g (termRecs[g]'(by rw [termRecs_length]; omega)) (termRecs[g+1]'(by rw [termRecs_length]; omega)) = true at hp
  rw [← termRecs_getD g (by omega), ← termRecs_getD (g + 1) (by omega)] at hp
  have r1 : ¬ realEph.termDay g = 0 := fun h => by have := (realEph_term_repr g (by omega)).1 h; omega
  have r2 : ¬ realEph.termDay (g + 1) = 0 := fun h => by have := (realEph_term_repr (g + 1) (by omega)).1 h; omega
  simp only [realEph, Eph.termSec] at r1 r2 ⊢
  generalize termRecs.getD g 0 = a at *
  generalize termRecs.getD (g + 1) 0 = b at *
  have ea : ¬ Rec.tDayRaw a = 0 := by rw [← tDay_eq_zero_iff]; omega
  have eb : ¬ Rec.tDayRaw b = 0 := by rw [← tDay_eq_zero_iff]; omega
  have ea' : (Rec.tDayRaw a == 0) = false := by simp [ea]
  have eb' : (Rec.tDayRaw b == 0) = false := by simp [eb]
  simp only [termPair, ea', eb', Bool.false_or, Bool.and_eq_true, Nat.ble_eq, Nat.blt_eq, recSec] at hp
  omega

end Tyme
