import Tyme.Gen.C20
/-! Reference copy of the two festival definition tables (trusted base: transcribed from the pinned upstream source; the civil
rows are `@ii0MMDDyyyy` = index, kind, month, day, founding year — e.g. Arbor Day 12 March from 1979, Teachers' Day 10 September
from 1985; the lunar rows are fixed dates `@ii0MMDD`, term days `@ii1tt`, New Year's Eve `@ii2`). "From its founding year on and
never before" is only as good as the founding years: the tables the library ships in THIS run (`Gen.C20`, re-extracted on every
run) must begin with these rows. Rows appended after them are allowed (a new festival does not falsify the property). -/
namespace Tyme.C20Ref

def solar : List Nat := [64, 48, 48, 48, 48, 49, 48, 49, 49, 57, 53, 48, 64, 48, 49, 48, 48, 51, 48, 56, 49, 57, 53, 48, 64, 48, 50, 48, 48, 51, 49, 50, 49, 57, 55, 57, 64, 48, 51, 48, 48, 53, 48, 49, 49, 57, 53, 48, 64, 48, 52, 48, 48, 53, 48, 52, 49, 57, 53, 48, 64, 48, 53, 48, 48, 54, 48, 49, 49, 57, 53, 48, 64, 48, 54, 48, 48, 55, 48, 49, 49, 57, 52, 49, 64, 48, 55, 48, 48, 56, 48, 49, 49, 57, 51, 51, 64, 48, 56, 48, 48, 57, 49, 48, 49, 57, 56, 53, 64, 48, 57, 48, 49, 48, 48, 49, 49, 57, 53, 48]

def lunar : List Nat := [64, 48, 48, 48, 48, 49, 48, 49, 64, 48, 49, 48, 48, 49, 49, 53, 64, 48, 50, 48, 48, 50, 48, 50, 64, 48, 51, 48, 48, 51, 48, 51, 64, 48, 52, 49, 48, 55, 64, 48, 53, 48, 48, 53, 48, 53, 64, 48, 54, 48, 48, 55, 48, 55, 64, 48, 55, 48, 48, 55, 49, 53, 64, 48, 56, 48, 48, 56, 49, 53, 64, 48, 57, 48, 48, 57, 48, 57, 64, 49, 48, 49, 50, 52, 64, 49, 49, 48, 49, 50, 48, 56, 64, 49, 50, 50]

def isPrefix : List Nat → List Nat → Bool
  | [], _ => true
  | _ :: _, [] => false
  | a :: as, b :: bs => a == b && isPrefix as bs

end Tyme.C20Ref

namespace Tyme

theorem C20_solar_reference : C20Ref.isPrefix C20Ref.solar Gen.C20.solarData = true := by decide +kernel

theorem C20_lunar_reference : C20Ref.isPrefix C20Ref.lunar Gen.C20.lunarData = true := by decide +kernel

end Tyme
