import Tyme.Facts.C18Defs
/-! C18 table facts (kernel enumeration of the generated data, `decide +kernel`): day spirits (`DAY_GODS` against `God::get_day_gods`), month branches 0..2.
Each theorem walks one row = 60 (branch, day pillar) pairs; re-checked whenever the Gen data change. -/
namespace Tyme
open Almanac Gen

theorem C18_fact_gods_0 : godsRowOk 0 = true := by decide +kernel
theorem C18_fact_gods_1 : godsRowOk 1 = true := by decide +kernel
theorem C18_fact_gods_2 : godsRowOk 2 = true := by decide +kernel

end Tyme
