import Tyme.Lemmas.FestHoliday
import Tyme.Gen.C20
/- C20 table facts, second module (built in parallel with Facts/C20.lean). -/
namespace Tyme
open Fest FestSpec Gen.C20

/-- holiday table: the year blocks concatenate to the table, the years are contiguous, each record is the first of its
block with its date prefix -/
theorem C20_tf_holiday_blocks : blocksOk (chunksOf holidayData) = true := by decide +kernel

/-- holiday table: every record's signed offset points at a record of the table that is a rest day -/
theorem C20_tf_holiday_target : targetWalk [] (holRecs holidayData) = true := by decide +kernel

end Tyme
