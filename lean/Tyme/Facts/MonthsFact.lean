import Tyme.Model.RealEph
import Tyme.Facts.Preds
import Tyme.Gen.MonthsFact0
import Tyme.Gen.MonthsFact1
import Tyme.Gen.MonthsFact2
import Tyme.Gen.MonthsFact3
/-!
Table facts about the lunar-month data extracted from /repo (Gen/Months*): decided by kernel
evaluation over ALL 10,000 lunar years (complete enumeration; part by part in Gen/MonthsFact*.lean, glued here).
The five exception years are the D4 junctions (known findings, see known_findings.json).
-/
namespace Tyme
open Packed Gen

/-- TABLE FACT (complete enumeration, 10,000 year records / 123,684 lunations). -/
theorem years_tile_fact : adjRec 1024 yearPair Gen.monthsChunks = true := by
  rw [adjRec_def]
  unfold Gen.monthsChunks
  simp only [adjChunks_append, months_yearPair_part0, months_yearPair_part1, months_yearPair_part2, months_yearPair_part3,
    months_len_part0, months_len_part1, months_len_part2, records_append, List.length_append, Nat.zero_add, Nat.reduceAdd]
  rfl

/-- TABLE FACT: every year record has leap month ≤ 12 and 12 or 13 months (no exceptions). -/
theorem years_leap_fact : allRec 1024 yearLeapOK Gen.monthsChunks = true := by
  unfold allRec Gen.monthsChunks
  simp only [allChunks_append, months_yearLeapOK_part0, months_yearLeapOK_part1, months_yearLeapOK_part2, months_yearLeapOK_part3,
    months_len_part0, months_len_part1, months_len_part2, records_append, List.length_append, Nat.zero_add, Nat.reduceAdd, Bool.and_self]

/-- TABLE FACT (C04): in every solstice year 27..9999 except 238, 239, 240 the table's month numbers and leap
month are exactly what the no-major-term rule prescribes from the library's own new-moon and zhongqi days. -/
theorem years_sui_fact : adjRec 1024 suiPair Gen.monthsChunks = true := by
  rw [adjRec_def]
  unfold Gen.monthsChunks
  simp only [adjChunks_append, months_suiPair_part0, months_suiPair_part1, months_suiPair_part2, months_suiPair_part3,
    months_len_part0, months_len_part1, months_len_part2, records_append, List.length_append, Nat.zero_add, Nat.reduceAdd]
  rfl

/-- TABLE FACT (C05 i): for every lunar month of lunar years 1961..8000 the table's first day equals the civil day
(UTC+8) on which the conjunction computed by the full-precision inverse solver falls. -/
theorem years_shuo_fact : allRec 1024 yearShuoOK Gen.monthsChunks = true := by
  unfold allRec Gen.monthsChunks
  simp only [allChunks_append, months_yearShuoOK_part0, months_yearShuoOK_part1, months_yearShuoOK_part2, months_yearShuoOK_part3,
    months_len_part0, months_len_part1, months_len_part2, records_append, List.length_append, Nat.zero_add, Nat.reduceAdd, Bool.and_self]

/-- TABLE FACT (C08): the lunar new year of every year 1..9999 lies within [Jan 1 − 5 d, Jan 1 + 59 d] of the same civil year. -/
theorem years_newyear_fact : allRec 1024 yearNewYearOK Gen.monthsChunks = true := by
  unfold allRec Gen.monthsChunks
  simp only [allChunks_append, months_yearNewYearOK_part0, months_yearNewYearOK_part1, months_yearNewYearOK_part2, months_yearNewYearOK_part3,
    months_len_part0, months_len_part1, months_len_part2, records_append, List.length_append, Nat.zero_add, Nat.reduceAdd, Bool.and_self]

theorem yearRecs_length : yearRecs.length = 10000 := by
  unfold yearRecs Gen.monthsChunks
  simp only [records_append, List.length_append, months_len_part0, months_len_part1, months_len_part2, months_len_part3]

end Tyme
