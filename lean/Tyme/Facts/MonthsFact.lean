import Tyme.Model.RealEph
/-!
Table facts about the lunar-month data extracted from /repo (Gen/Months*): decided by kernel
evaluation over ALL 10,000 lunar years (complete enumeration), then lifted to statements about `realEph`.
The five exception years are the D4 junctions (known findings, see known_findings.json).
-/
namespace Tyme
open Packed

/-- months i..i+n-1 of year record r: first = cur, abut, 29/30 days -/
def slotsOK (r : Nat) : Nat → Nat → Nat → Bool
  | 0, _, _ => true
  | n+1, i, cur =>
    Rec.sFirst (Rec.slot r i) == cur && (Rec.sLen (Rec.slot r i) == 29 || Rec.sLen (Rec.slot r i) == 30) &&
      slotsOK r n (i + 1) (cur + Rec.sLen (Rec.slot r i))

def yearEnd (r : Nat) : Nat :=
  Rec.sFirst (Rec.slot r (Rec.yCount r - 1)) + Rec.sLen (Rec.slot r (Rec.yCount r - 1))

def yearInner (r : Nat) : Bool :=
  decide (Rec.yLeap r ≤ 12) && Rec.yCount r == (if Rec.yLeap r > 0 then 13 else 12) &&
  slotsOK r (Rec.yCount r) 0 (Rec.sFirst (Rec.slot r 0))

def yearLenOK (n : Nat) : Bool := (decide (353 ≤ n) && decide (n ≤ 355)) || (decide (383 ≤ n) && decide (n ≤ 385))

/-- lunar years whose own months or whose junction to the next year do not tile (D4) -/
def badYear (y : Nat) : Bool := y == 8 || y == 23 || y == 24 || y == 236 || y == 239

def yearPair (y a b : Nat) : Bool :=
  (yearInner a && Rec.sFirst (Rec.slot b 0) == yearEnd a && yearLenOK (yearEnd a - Rec.sFirst (Rec.slot a 0)))
  || badYear y

-- TABLE FACT (complete enumeration, 10,000 year records / 123,684 lunations).
set_option maxRecDepth 100000 in
theorem years_tile_fact : adjRec 512 yearPair Gen.monthsChunks = true := by decide +kernel

-- TABLE FACT: every year record has leap month ≤ 12 and 12 or 13 months (no exceptions).
set_option maxRecDepth 100000 in
theorem years_leap_fact : allRec 512 (fun _ r => decide (Rec.yLeap r ≤ 12) && Rec.yCount r == (if Rec.yLeap r > 0 then 13 else 12)) Gen.monthsChunks = true := by
  decide +kernel

theorem records_length (w : Nat) : ∀ cs : List (Nat × Nat), (records w cs).length = (cs.map (·.1)).sum := by
  intro cs; induction cs with
  | nil => rfl
  | cons c cs ih => simp [records, unpack_length, ih]

set_option maxRecDepth 100000 in
theorem yearRecs_length : yearRecs.length = 10000 := by
  unfold yearRecs; rw [records_length]; decide +kernel

end Tyme
