import Tyme.Lemmas.FestHoliday
import Tyme.Lemmas.FestSolar
import Tyme.Lemmas.FestLunar
import Tyme.Gen.C20
/- C20 table facts: each is a closed Bool computation on the data dumped from the crate (Tyme/Gen/C20.lean,
regenerated on every run), decided by the kernel (`decide +kernel`: complete evaluation, no sampling). -/
namespace Tyme
open Fest FestSpec Gen.C20

/-- civil festivals: by-date regex look-up = first record with that month-day, for every month 0..12 × day 0..31 -/
theorem C20_tf_solar_ymd : solarYmdOk solarData = true := by decide +kernel
/-- civil festivals: by-index regex look-up = the record with that index, for every index below the name count -/
theorem C20_tf_solar_idx : solarIdxOk solarNames.length solarData = true := by decide +kernel
/-- civil festival records: founded 1583..9999, month-day exists in every year, indices and month-days pairwise distinct -/
theorem C20_tf_solar_recs : solarRecsOk solarNames.length solarData = true := by decide +kernel

theorem C20_tf_solar_wf : SolarWF solarNames.length solarData :=
  ⟨by decide, C20_tf_solar_ymd, C20_tf_solar_idx, C20_tf_solar_recs⟩

/-- lunar festivals: by-index regex look-up = the record at that position, for every index; as many records as names -/
theorem C20_tf_lunar_idx : lunarIdxOk lunarNames.length lunarData = true := by decide +kernel
/-- lunar festivals: by-date regex look-up of fixed-date records, for every month -12..12 × day 0..31 -/
theorem C20_tf_lunar_ymd : lunarYmdOk lunarData = true := by decide +kernel
/-- lunar festivals: `find_iter` of the term pattern yields exactly the term records, in order -/
theorem C20_tf_lunar_terms : lunarTermsOk lunarData = true := by decide +kernel
/-- lunar festivals: the eve pattern finds the eve record -/
theorem C20_tf_lunar_eve : lunarEveOk lunarData = true := by decide +kernel
/-- lunar festival records: index = position, fixed dates pairwise distinct, term records in index order, one eve record after them -/
theorem C20_tf_lunar_struct : lunarStructOk (lunarRecs lunarData) = true := by decide +kernel

theorem C20_tf_lunar_wf : LunarWF lunarNames.length lunarData :=
  ⟨C20_tf_lunar_idx, C20_tf_lunar_ymd, C20_tf_lunar_terms, C20_tf_lunar_eve, C20_tf_lunar_struct⟩

/-- all three data strings are pure ASCII (so the byte-level reading of `\\d` is the regex crate's) -/
theorem C20_tf_ascii : (solarData ++ lunarData ++ holidayData).all (fun b => decide (b < 128)) = true := by decide +kernel

/-- holiday table: length is a multiple of 13 -/
theorem C20_tf_holiday_len : holidayData.length % 13 = 0 := by decide +kernel
/-- holiday table: the record shape `\d{8}[0-1][0-8][+|-]\d{2}` matches at every multiple of 13 and at NO other offset
(all 10,673 offsets) -/
theorem C20_tf_holiday_aligned : alignedWalk holidayData 0 = true := by decide +kernel
/-- holiday table: every record is a real civil date, has a name index below the name count, canonical digits -/
theorem C20_tf_holiday_recs : (chunksOf holidayData).all (holRecOk holidayNames.length) = true := by decide +kernel
/-- holiday table: dates strictly increasing -/
theorem C20_tf_holiday_sorted : strictInc ((holRecs holidayData).map HolRec.key) = true := by decide +kernel

end Tyme
