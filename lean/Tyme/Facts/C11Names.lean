import Tyme.Thm.C11
import Tyme.Gen.C11Names
import Tyme.Gen.C11Known
/-!
C11 table facts about the name lists re-extracted from the library on every run (`Tyme/Gen/C11Names.lean`,
written by `props_c11.gen_c11_names` from `tymeh enum c11.namedump`).  Each fact is decided by evaluation over the
complete finite table (815 names in 47 lists) — a complete proof on this finite domain, labelled as enumeration.
The known (type, index) pairs come from known_findings.json via `Tyme/Gen/C11Known.lean`.
-/
namespace Tyme
open C11Gen

/-- Bool check: the list has no duplicates -/
def nodupB : List (List Nat) → Bool
  | [] => true
  | x :: xs => !(xs.contains x) && nodupB xs

theorem nodupB_sound (l : List (List Nat)) (h : nodupB l = true) : l.Nodup := by
  induction l with
  | nil => exact List.nodup_nil
  | cons x xs ih =>
    unfold nodupB at h
    simp only [Bool.and_eq_true, Bool.not_eq_true', List.contains_eq_mem, decide_eq_false_iff_not] at h
    exact List.nodup_cons.mpr ⟨h.1, ih h.2⟩

/-- the k-th table of the dump: (type name, is a plain enum, has `from_name`, names) -/
def tableAt (k : Nat) : String × Bool × Bool × List (List Nat) := nameTables.getD k ("", false, false, [])

/-- Bool check: `from_name(get_name(i)) = i` for every element of table `k` except the listed (k, i) -/
def roundTripB (k : Nat) (known : List (Nat × Nat)) : Bool :=
  let names := (tableAt k).2.2.2
  (List.range names.length).all fun i => known.contains (k, i) || fromName names (getName names i) == some i

/-- the model's table of types (names, sizes, which ones have `from_name`) is the library's. -/
theorem C11_sizes_match :
    (nameTables.filter fun t => !t.2.1).map (fun t => (t.1, t.2.2.2.length, t.2.2.1)) = cycTypes ∧
    (nameTables.filter fun t => t.2.1).map (fun t => (t.1, t.2.2.2.length)) = enumTypes := by
  constructor <;> rfl

/-- the known pairs by position are the known pairs by type name. -/
theorem C11_known_tie : knownNamePairs = knownNameIdx.map fun p => ((tableAt p.1).1, p.2) := by rfl

/-- every name list that has a `from_name` lookup, except the `Phase` list, is free of duplicates … -/
theorem C11_names_nodup : ∀ t ∈ nameTables, t.2.2.1 = true → t.2.2.2 ≠ names_Phase → t.2.2.2.Nodup := by
  have h : (nameTables.all fun t => !t.2.2.1 || nodupB t.2.2.2 || t.2.2.2 == names_Phase) = true := by decide +kernel
  intro t ht hf hne
  have := List.all_eq_true.mp h t ht
  simp only [Bool.or_eq_true, beq_iff_eq, Bool.not_eq_true'] at this
  rcases this with (e | e) | e
  · rw [hf] at e; exact absurd e (by simp)
  · exact nodupB_sound _ e
  · exact absurd e hne

/-- … hence index<->name are mutually inverse on all of them (40 cycles with names and the 5 enums). -/
theorem C11_names_inverse : ∀ t ∈ nameTables, t.2.2.1 = true → t.2.2.2 ≠ names_Phase → ∀ i, i < t.2.2.2.length →
    fromName t.2.2.2 (getName t.2.2.2 i) = some i :=
  fun t ht hf hne i hi => C11_fromName_getName _ (C11_names_nodup t ht hf hne) i hi

/-- The full statement (FALSE on the current data, see `Tyme/Findings/C11.lean`): for every type that has a
`from_name` lookup and every element, `from_name(get_name(i)) = i`. -/
def C11_names_full : Prop :=
  ∀ k, k < nameTables.length → (tableAt k).2.2.1 = true → ∀ i, i < (tableAt k).2.2.2.length →
    fromName (tableAt k).2.2.2 (getName (tableAt k).2.2.2 i) = some i

/-- The proved statement: the same, excluding exactly the (type, index) pairs listed in known_findings.json
(`knownNameIdx`, tied to the names by `C11_known_tie`). -/
theorem C11_names_partial : ∀ k, k < nameTables.length → (tableAt k).2.2.1 = true → ∀ i, i < (tableAt k).2.2.2.length →
    (k, i) ∉ knownNameIdx → fromName (tableAt k).2.2.2 (getName (tableAt k).2.2.2 i) = some i := by
  have h : ((List.range nameTables.length).all fun k => !(tableAt k).2.2.1 || roundTripB k knownNameIdx) = true := by
    decide +kernel
  intro k hk hf i hi hn
  have h1 := List.all_eq_true.mp h k (List.mem_range.mpr hk)
  rw [hf] at h1
  simp only [Bool.not_true, Bool.false_or] at h1
  unfold roundTripB at h1
  have h2 := List.all_eq_true.mp h1 i (List.mem_range.mpr hi)
  simp only [Bool.or_eq_true, List.contains_eq_mem, decide_eq_true_eq, beq_iff_eq] at h2
  rcases h2 with e | e
  · exact absurd e hn
  · exact e

/-- the listed pairs are exactly the failing ones: each of them really fails (no superfluous exclusion). -/
theorem C11_names_known_exact : ∀ p ∈ knownNameIdx, p.1 < nameTables.length ∧ (tableAt p.1).2.2.1 = true ∧
    p.2 < (tableAt p.1).2.2.2.length ∧
    fromName (tableAt p.1).2.2.2 (getName (tableAt p.1).2.2.2 p.2) ≠ some p.2 := by
  have h : (knownNameIdx.all fun p => decide (p.1 < nameTables.length) && (tableAt p.1).2.2.1 &&
      decide (p.2 < (tableAt p.1).2.2.2.length) &&
      !(fromName (tableAt p.1).2.2.2 (getName (tableAt p.1).2.2.2 p.2) == some p.2)) = true := by
    decide +kernel
  intro p hp
  have h1 := List.all_eq_true.mp h p hp
  simp only [Bool.and_eq_true, decide_eq_true_eq, Bool.not_eq_true', beq_eq_false_iff_ne, ne_eq] at h1
  exact ⟨h1.1.1.1, h1.1.1.2, h1.1.2, h1.2⟩

/-- the sixty-cycle names are stem k%10 followed by branch k%12 (what `SixtyCycleYear::get_first_month` relies on
when it looks a pillar up by the concatenated name). -/
theorem C11_sixty_names : ∀ k, k < 60 →
    getName names_SixtyCycle k = getName names_HeavenStem (k % 10) ++ getName names_EarthBranch (k % 12) := by
  have h : ((List.range 60).all fun k =>
      getName names_SixtyCycle k == getName names_HeavenStem (k % 10) ++ getName names_EarthBranch (k % 12)) = true := by
    decide +kernel
  intro k hk
  have := List.all_eq_true.mp h k (List.mem_range.mpr hk)
  simpa using this

end Tyme
