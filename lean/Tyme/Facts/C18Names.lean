import Tyme.Facts.C18Defs
/-! C18 table fact (kernel enumeration, `decide +kernel`): the name lists have no duplicates (all pairs compared). -/
namespace Tyme
open Almanac AlmanacSpec Gen

/-- no two activities (no two spirits) share a name: equality of `Taboo`/`God` objects (by name) is equality of indices -/
theorem C18_fact_names_nodup : rawTabooNames.Nodup ∧ rawGodNames.Nodup := by decide +kernel

end Tyme
