import Tyme.Facts.Terms
import Tyme.Facts.C15DecA
import Tyme.Facts.C15DecB
import Tyme.Facts.C15DecC
import Tyme.Facts.C15DecD
import Tyme.Model.Jd
/-!
C15 table fact about the solar-term data extracted from /repo (Gen/Terms*), kernel-checked part by part over all
240,000 records and glued here: the winter solstice that closes civil year y (term 0 of year y+1, global index 24·y)
falls on a day of December y, for every representable one (y = 1..9999).
-/
namespace Tyme
open Packed Gen

/-- TABLE FACT (complete enumeration) -/
theorem terms_dec_fact : allRec 72 solDec Gen.termsChunks = true := by
  unfold allRec Gen.termsChunks
  simp only [allChunks_append, c15_dec_part0, c15_dec_part1, c15_dec_part2, c15_dec_part3,
    c15_dec_part4, c15_dec_part5, c15_dec_part6, c15_dec_part7,
    terms_len_part0, terms_len_part1, terms_len_part2, terms_len_part3, terms_len_part4, terms_len_part5, terms_len_part6,
    records_append, List.length_append, Nat.zero_add, Nat.reduceAdd, Bool.and_self]

/-- the `Nat` formula is the model's day number of December 1 -/
theorem dec1N_eq (y : Nat) (h : 1 ≤ y) : ((dec1N y : Nat) : Int) = jdn (y : Int) 12 1 := by
  unfold dec1N jdn
  have h12 : ¬ ((12 : Int) ≤ 2) := by decide
  simp only [h12, if_false, decide_eq_true_eq]
  by_cases hy : y ≥ 1582
  · have hg : (y : Int) * 372 + 12 * 31 + 1 ≥ 588829 := by omega
    rw [if_pos hy, if_pos hg]
    have e1 : (306001 * ((12:Int) + 1)) / 10000 = 397 := by decide
    rw [e1]
    generalize hb : (1461 * (y + 4716)) / 4 = b
    have hb' : (1461 * ((y:Int) + 4716)) / 4 = (b : Int) := by omega
    rw [hb']
    generalize ha : y / 100 = a
    have ha' : (y : Int) / 100 = (a : Int) := by omega
    rw [ha']
    have : a ≤ b := by omega
    omega
  · have hg : ¬ ((y : Int) * 372 + 12 * 31 + 1 ≥ 588829) := by omega
    rw [if_neg hy, if_neg hg]
    omega
/-- LIFTED FACT: the winter solstice of December y (y = 1..9999) lies in December 1..31 of civil year y. -/
theorem realEph_solstice_december (y : Nat) (h1 : 1 ≤ y) (h2 : y ≤ 9999) :
    jdn (y : Int) 12 1 ≤ realEph.termDay (24 * y) ∧ realEph.termDay (24 * y) ≤ jdn (y : Int) 12 1 + 30 := by
  have hlt : 24 * y < 240000 := by omega
  have hp := allRec_spec 72 solDec Gen.termsChunks terms_dec_fact (24 * y) (by
    show 24 * y < termRecs.length
    rw [termRecs_length]; exact hlt)
  change solDec (24 * y) (termRecs[24 * y]'(by rw [termRecs_length]; exact hlt)) = true at hp
  rw [← termRecs_getD (24 * y) hlt] at hp
  have hr : ¬ realEph.termDay (24 * y) = 0 := fun h => by
    have := (realEph_term_repr (24 * y) hlt).1 h; omega
  rw [← dec1N_eq y h1]
  simp only [realEph] at hr ⊢
  generalize termRecs.getD (24 * y) 0 = r at *
  have er : ¬ Rec.tDayRaw r = 0 := by rw [← tDay_eq_zero_iff]; omega
  have er' : (Rec.tDayRaw r == 0) = false := by simp [er]
  have e24 : (24 * y % 24 == 0) = true := by simp
  have ediv : 24 * y / 24 = y := by omega
  simp only [solDec, e24, er', ediv, Bool.not_true, Bool.false_or, Bool.and_eq_true, Nat.ble_eq] at hp
  omega

end Tyme
