import Tyme.Facts.Months
import Tyme.Facts.Terms
import Tyme.Lemmas.Jd
/-! Lifting of the window facts (lunar new year and terms relative to January 1) to `realEph`. -/
namespace Tyme
open Packed

/-- the Nat formula of the facts is the model's day number of January 1 -/
theorem jan1_eq (y : Nat) (h : 1 ≤ y) : ((jan1 y : Nat) : Int) = jdn (y : Int) 1 1 := by
  rw [jdn_nf]
  unfold jan1
  simp only [show ((1 : Int) ≤ 2) from by decide, if_true]
  by_cases hg : 1583 ≤ y
  · have hg' : (y : Int) * 372 + 1 * 31 + 1 ≥ 588829 := by omega
    simp only [hg, hg', if_true]
    omega
  · have hg' : ¬ ((y : Int) * 372 + 1 * 31 + 1 ≥ 588829) := by omega
    simp only [hg, hg', if_false]
    omega

/-- lunar new year of year y within [Jan 1 − 5, Jan 1 + 59] of civil year y, y = 1..9999 -/
theorem realEph_newyear (y : Nat) (h1 : 1 ≤ y) (h2 : y ≤ 9999) :
    jdn (y : Int) 1 1 - 5 ≤ realEph.mFirst (y : Int) 0 ∧ realEph.mFirst (y : Int) 0 ≤ jdn (y : Int) 1 1 + 59 := by
  have hlen := yearRecs_length
  have := allRec_spec 1024 yearNewYearOK Gen.monthsChunks years_newyear_fact y (by
    show y < yearRecs.length
    omega)
  change yearNewYearOK y (yearRecs[y]'(by omega)) = true at this
  have e : yearRecs.getD y 0 = yearRecs[y]'(by omega) := by
    simp [List.getD, List.getElem?_eq_getElem (show y < yearRecs.length by omega)]
  rw [← e] at this
  rw [← jan1_eq y h1]
  simp only [realEph, Int.toNat_natCast]
  generalize yearRecs.getD y 0 = r at *
  have hy0 : (y == 0) = false := by simp; omega
  simp only [yearNewYearOK, hy0, Bool.false_or, Bool.and_eq_true, Nat.ble_eq] at this
  omega

/-- term windows: winter solstice (index 0) before January 1 of its year, Dahan (index 2) on/after it,
Lichun (index 3) 1..40 days after it — every representable term -/
theorem realEph_termWin (g : Nat) (h1 : 1 ≤ g) (h2 : g ≤ 239977) :
    (g % 24 = 0 → realEph.termDay g < jdn ((g / 24 + 1 : Nat) : Int) 1 1) ∧
    (g % 24 = 2 → jdn ((g / 24 + 1 : Nat) : Int) 1 1 ≤ realEph.termDay g) ∧
    (g % 24 = 3 → jdn ((g / 24 + 1 : Nat) : Int) 1 1 < realEph.termDay g ∧ realEph.termDay g ≤ jdn ((g / 24 + 1 : Nat) : Int) 1 1 + 40) := by
  have := allRec_spec 72 termWinOK Gen.termsChunks terms_win_fact g (by
    show g < termRecs.length
    rw [termRecs_length]; omega)
  change termWinOK g (termRecs[g]'(by rw [termRecs_length]; omega)) = true at this
  rw [← termRecs_getD g (by omega)] at this
  have hr : ¬ realEph.termDay g = 0 := fun h => by have := (realEph_term_repr g (by omega)).1 h; omega
  rw [← jan1_eq (g / 24 + 1) (by omega)]
  simp only [realEph] at hr ⊢
  generalize termRecs.getD g 0 = r at *
  have hraw : (Rec.tDayRaw r == 0) = false := by
    have : ¬ Rec.tDayRaw r = 0 := by rw [← tDay_eq_zero_iff]; omega
    simp [this]
  simp only [termWinOK, hraw, Bool.false_or] at this
  refine ⟨?_, ?_, ?_⟩
  · intro hm
    have : (g % 24 == 0) = true := by simp [hm]
    simp_all only [if_true, Nat.blt_eq]
    omega
  · intro hm
    have h0 : (g % 24 == 0) = false := by simp [hm]
    have h2' : (g % 24 == 2) = true := by simp [hm]
    simp only [h0, h2', if_true, Bool.false_eq_true, if_false, Nat.ble_eq] at this
    omega
  · intro hm
    have h0 : (g % 24 == 0) = false := by simp [hm]
    have h2' : (g % 24 == 2) = false := by simp [hm]
    have h3 : (g % 24 == 3) = true := by simp [hm]
    simp only [h0, h2', h3, if_true, Bool.false_eq_true, if_false, Bool.and_eq_true, Nat.blt_eq, Nat.ble_eq] at this
    omega

end Tyme
