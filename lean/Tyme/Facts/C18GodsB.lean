import Tyme.Facts.C18Defs
/-! C18 table facts (kernel enumeration of the generated data, `decide +kernel`): day spirits (`DAY_GODS` against `God::get_day_gods`), month branches 3..5.
Each theorem walks one row = 60 (branch, day pillar) pairs; re-checked whenever the Gen data change. -/
namespace Tyme
open Almanac Gen

theorem C18_fact_gods_3 : godsRowOk 3 = true := by decide +kernel
theorem C18_fact_gods_4 : godsRowOk 4 = true := by decide +kernel
theorem C18_fact_gods_5 : godsRowOk 5 = true := by decide +kernel

end Tyme
