import Tyme.Facts.C18Defs
/-! C18 table facts (kernel enumeration of the generated data, `decide +kernel`): day activities (`DAY_TABOO` against `Taboo::get_day_recommends/avoids`), month branches 0..2.
Each theorem walks one row = 60 (branch, day pillar) pairs; re-checked whenever the Gen data change. -/
namespace Tyme
open Almanac Gen

theorem C18_fact_day_0 : tabooRowOk rawDayTaboo C18Ext.dayRec C18Ext.dayAvoid 0 = true := by decide +kernel
theorem C18_fact_day_1 : tabooRowOk rawDayTaboo C18Ext.dayRec C18Ext.dayAvoid 1 = true := by decide +kernel
theorem C18_fact_day_2 : tabooRowOk rawDayTaboo C18Ext.dayRec C18Ext.dayAvoid 2 = true := by decide +kernel

end Tyme
