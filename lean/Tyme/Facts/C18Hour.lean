import Tyme.Facts.C18Defs
/-! C18 table facts (kernel enumeration of the generated data, `decide +kernel`): hour activities (`HOUR_TABOO` against `Taboo::get_hour_recommends/avoids`), hour branches 0..11.
Each theorem walks one row = 60 (branch, day pillar) pairs; re-checked whenever the Gen data change. -/
namespace Tyme
open Almanac Gen

theorem C18_fact_hour_0 : tabooRowOk rawHourTaboo C18Ext.hourRec C18Ext.hourAvoid 0 = true := by decide +kernel
theorem C18_fact_hour_1 : tabooRowOk rawHourTaboo C18Ext.hourRec C18Ext.hourAvoid 1 = true := by decide +kernel
theorem C18_fact_hour_2 : tabooRowOk rawHourTaboo C18Ext.hourRec C18Ext.hourAvoid 2 = true := by decide +kernel
theorem C18_fact_hour_3 : tabooRowOk rawHourTaboo C18Ext.hourRec C18Ext.hourAvoid 3 = true := by decide +kernel
theorem C18_fact_hour_4 : tabooRowOk rawHourTaboo C18Ext.hourRec C18Ext.hourAvoid 4 = true := by decide +kernel
theorem C18_fact_hour_5 : tabooRowOk rawHourTaboo C18Ext.hourRec C18Ext.hourAvoid 5 = true := by decide +kernel
theorem C18_fact_hour_6 : tabooRowOk rawHourTaboo C18Ext.hourRec C18Ext.hourAvoid 6 = true := by decide +kernel
theorem C18_fact_hour_7 : tabooRowOk rawHourTaboo C18Ext.hourRec C18Ext.hourAvoid 7 = true := by decide +kernel
theorem C18_fact_hour_8 : tabooRowOk rawHourTaboo C18Ext.hourRec C18Ext.hourAvoid 8 = true := by decide +kernel
theorem C18_fact_hour_9 : tabooRowOk rawHourTaboo C18Ext.hourRec C18Ext.hourAvoid 9 = true := by decide +kernel
theorem C18_fact_hour_10 : tabooRowOk rawHourTaboo C18Ext.hourRec C18Ext.hourAvoid 10 = true := by decide +kernel
theorem C18_fact_hour_11 : tabooRowOk rawHourTaboo C18Ext.hourRec C18Ext.hourAvoid 11 = true := by decide +kernel

end Tyme
