import Tyme.Facts.C18Defs
/-! C18 table facts (kernel enumeration of the generated data, `decide +kernel`): day activities (`DAY_TABOO` against `Taboo::get_day_recommends/avoids`), month branches 3..5.
Each theorem walks one row = 60 (branch, day pillar) pairs; re-checked whenever the Gen data change. -/
namespace Tyme
open Almanac Gen

theorem C18_fact_day_3 : tabooRowOk rawDayTaboo C18Ext.dayRec C18Ext.dayAvoid 3 = true := by decide +kernel
theorem C18_fact_day_4 : tabooRowOk rawDayTaboo C18Ext.dayRec C18Ext.dayAvoid 4 = true := by decide +kernel
theorem C18_fact_day_5 : tabooRowOk rawDayTaboo C18Ext.dayRec C18Ext.dayAvoid 5 = true := by decide +kernel

end Tyme
