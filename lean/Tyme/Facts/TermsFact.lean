import Tyme.Model.RealEph
import Tyme.Facts.Preds
import Tyme.Gen.TermsFact0
import Tyme.Gen.TermsFact1
import Tyme.Gen.TermsFact2
import Tyme.Gen.TermsFact3
import Tyme.Gen.TermsFact4
import Tyme.Gen.TermsFact5
import Tyme.Gen.TermsFact6
import Tyme.Gen.TermsFact7
/-!
Table facts about the solar-term data extracted from /repo (Gen/Terms*): all 240,000 terms of years 1..10000,
kernel-checked part by part (Gen/TermsFact*.lean, generated with the walker's entry/exit state as literals)
and glued here by `adjChunks_append` / `allChunks_append`.
-/
namespace Tyme
open Packed Gen

/-- TABLE FACT (complete enumeration): adjacent terms are 14.6–15.8 days apart, strictly increasing. -/
theorem terms_inc_fact : adjRec 72 termPair Gen.termsChunks = true := by
  rw [adjRec_def]
  unfold Gen.termsChunks
  simp only [adjChunks_append, terms_termPair_part0, terms_termPair_part1, terms_termPair_part2, terms_termPair_part3,
    terms_termPair_part4, terms_termPair_part5, terms_termPair_part6, terms_termPair_part7,
    terms_len_part0, terms_len_part1, terms_len_part2, terms_len_part3, terms_len_part4, terms_len_part5, terms_len_part6,
    records_append, List.length_append, Nat.zero_add, Nat.reduceAdd]
  rfl

/-- TABLE FACT: exactly term 0 and the terms after (10000, 1) are not representable as civil instants. -/
theorem terms_repr_fact : allRec 72 termRepr Gen.termsChunks = true := by
  unfold allRec Gen.termsChunks
  simp only [allChunks_append, terms_termRepr_part0, terms_termRepr_part1, terms_termRepr_part2, terms_termRepr_part3,
    terms_termRepr_part4, terms_termRepr_part5, terms_termRepr_part6, terms_termRepr_part7,
    terms_len_part0, terms_len_part1, terms_len_part2, terms_len_part3, terms_len_part4, terms_len_part5, terms_len_part6,
    records_append, List.length_append, Nat.zero_add, Nat.reduceAdd, Bool.and_self]

/-- TABLE FACT (C05 i): for every term of years 1961..10000 the calendar-making day equals the civil day of the
precise instant (an instant in the last half second of a day being reported as 00:00:00 of the next day). -/
theorem terms_cal_fact : allRec 72 termCalOK Gen.termsChunks = true := by
  unfold allRec Gen.termsChunks
  simp only [allChunks_append, terms_termCalOK_part0, terms_termCalOK_part1, terms_termCalOK_part2, terms_termCalOK_part3,
    terms_termCalOK_part4, terms_termCalOK_part5, terms_termCalOK_part6, terms_termCalOK_part7,
    terms_len_part0, terms_len_part1, terms_len_part2, terms_len_part3, terms_len_part4, terms_len_part5, terms_len_part6,
    records_append, List.length_append, Nat.zero_add, Nat.reduceAdd, Bool.and_self]

/-- TABLE FACT (C08): winter solstice before January 1, Dahan on/after it, Lichun 1..40 days after it — every year. -/
theorem terms_win_fact : allRec 72 termWinOK Gen.termsChunks = true := by
  unfold allRec Gen.termsChunks
  simp only [allChunks_append, terms_termWinOK_part0, terms_termWinOK_part1, terms_termWinOK_part2, terms_termWinOK_part3,
    terms_termWinOK_part4, terms_termWinOK_part5, terms_termWinOK_part6, terms_termWinOK_part7,
    terms_len_part0, terms_len_part1, terms_len_part2, terms_len_part3, terms_len_part4, terms_len_part5, terms_len_part6,
    records_append, List.length_append, Nat.zero_add, Nat.reduceAdd, Bool.and_self]

theorem termRecs_length : termRecs.length = 240000 := by
  unfold termRecs Gen.termsChunks
  simp only [records_append, List.length_append, terms_len_part0, terms_len_part1, terms_len_part2, terms_len_part3,
    terms_len_part4, terms_len_part5, terms_len_part6, terms_len_part7]

end Tyme
