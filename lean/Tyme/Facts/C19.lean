import Tyme.Spec.Classical
import Tyme.Gen.C19
/-
C19, table facts — every getter family equals the classical table on its whole domain.

`Gen.C19.*` is the extension of every attribute getter of the library on its complete (finite) domain,
re-extracted from the code ON EVERY RUN (props_c19.gen_c19 → `tymeh enum c19.ext`).  `Classical.table f` is the
same table computed from the first-principles specification (Spec/Classical.lean): `f.args.map (answer f)`.
Each `C19_<family>` states that the two are EQUAL ROW BY ROW on the whole domain and is decided by the kernel
(`decide +kernel`): a complete enumeration of a finite domain, i.e. a proof, not a sample.  A changed array
element in the source changes one row of `Gen.C19.<family>`, and the theorem of that family no longer checks.

Own sign / body sign (D23): the statements hold for the REPAIRED code (fixes/C19-own-body-sign.diff).
-/
namespace Tyme
open Tyme.Classical

/-- stem → element (甲乙木 丙丁火 戊己土 庚辛金 壬癸水) — 10 rows -/
theorem C19_stem_element : Gen.C19.stem_element = table .stemElement := by decide +kernel
example : (table .stemElement).length = 10 := by decide +kernel

/-- stem → polarity (parity) — 10 rows -/
theorem C19_stem_yinyang : Gen.C19.stem_yinyang = table .stemYinYang := by decide +kernel
example : (table .stemYinYang).length = 10 := by decide +kernel

/-- stem → direction of its element — 10 rows -/
theorem C19_stem_direction : Gen.C19.stem_direction = table .stemDirection := by decide +kernel
example : (table .stemDirection).length = 10 := by decide +kernel

/-- 喜神方位歌 — 10 rows -/
theorem C19_stem_joy : Gen.C19.stem_joy = table .stemJoy := by decide +kernel
example : (table .stemJoy).length = 10 := by decide +kernel

/-- 阳贵神歌 — 10 rows -/
theorem C19_stem_yang : Gen.C19.stem_yang = table .stemYang := by decide +kernel
example : (table .stemYang).length = 10 := by decide +kernel

/-- 阴贵神歌 (animals → branches → compass sector) — 10 rows -/
theorem C19_stem_yin : Gen.C19.stem_yin = table .stemYin := by decide +kernel
example : (table .stemYin).length = 10 := by decide +kernel

/-- 财神方位歌 — 10 rows -/
theorem C19_stem_wealth : Gen.C19.stem_wealth = table .stemWealth := by decide +kernel
example : (table .stemWealth).length = 10 := by decide +kernel

/-- 福神方位歌 — 10 rows -/
theorem C19_stem_mascot : Gen.C19.stem_mascot = table .stemMascot := by decide +kernel
example : (table .stemMascot).length = 10 := by decide +kernel

/-- twelve growth stages, all 10×12 (forward from the birth branch for Yang stems, backward for Yin) — 120 rows -/
theorem C19_stem_terrain : Gen.C19.stem_terrain = table .stemTerrain := by decide +kernel
example : (table .stemTerrain).length = 120 := by decide +kernel

/-- ten gods, all 10×10 (relation of the two elements + same/opposite polarity) — 100 rows -/
theorem C19_stem_tenstar : Gen.C19.stem_tenstar = table .stemTenStar := by decide +kernel
example : (table .stemTenStar).length = 100 := by decide +kernel

/-- five combinations (partner) — 10 rows -/
theorem C19_stem_combine : Gen.C19.stem_combine = table .stemCombine := by decide +kernel
example : (table .stemCombine).length = 10 := by decide +kernel

/-- five combinations (transformed element, None for the other 90 ordered pairs) — 100 rows -/
theorem C19_stem_combine2 : Gen.C19.stem_combine2 = table .stemCombine2 := by decide +kernel
example : (table .stemCombine2).length = 100 := by decide +kernel

/-- branch → element (seasons; 辰未戌丑 earth) — 12 rows -/
theorem C19_branch_element : Gen.C19.branch_element = table .branchElement := by decide +kernel
example : (table .branchElement).length = 12 := by decide +kernel

/-- branch → polarity (parity) — 12 rows -/
theorem C19_branch_yinyang : Gen.C19.branch_yinyang = table .branchYinYang := by decide +kernel
example : (table .branchYinYang).length = 12 := by decide +kernel

/-- hidden stems: main, middle, residual (地支藏干歌) — 12 rows -/
theorem C19_branch_hide : Gen.C19.branch_hide = table .branchHide := by decide +kernel
example : (table .branchHide).length = 12 := by decide +kernel

/-- hidden stems as the list getter returns them, with their kinds — 12 rows -/
theorem C19_branch_hidelist : Gen.C19.branch_hidelist = table .branchHideList := by decide +kernel
example : (table .branchHideList).length = 12 := by decide +kernel

/-- branch → animal — 12 rows -/
theorem C19_branch_zodiac : Gen.C19.branch_zodiac = table .branchZodiac := by decide +kernel
example : (table .branchZodiac).length = 12 := by decide +kernel

/-- branch → direction of its element — 12 rows -/
theorem C19_branch_direction : Gen.C19.branch_direction = table .branchDirection := by decide +kernel
example : (table .branchDirection).length = 12 := by decide +kernel

/-- six clashes — 12 rows -/
theorem C19_branch_opposite : Gen.C19.branch_opposite = table .branchOpposite := by decide +kernel
example : (table .branchOpposite).length = 12 := by decide +kernel

/-- 煞 direction of the three-harmony groups — 12 rows -/
theorem C19_branch_ominous : Gen.C19.branch_ominous = table .branchOminous := by decide +kernel
example : (table .branchOminous).length = 12 := by decide +kernel

/-- six combinations (partner) — 12 rows -/
theorem C19_branch_combine : Gen.C19.branch_combine = table .branchCombine := by decide +kernel
example : (table .branchCombine).length = 12 := by decide +kernel

/-- six combinations (transformed element, None for the other 132 ordered pairs) — 144 rows -/
theorem C19_branch_combine2 : Gen.C19.branch_combine2 = table .branchCombine2 := by decide +kernel
example : (table .branchCombine2).length = 144 := by decide +kernel

/-- six harms — 12 rows -/
theorem C19_branch_harm : Gen.C19.branch_harm = table .branchHarm := by decide +kernel
example : (table .branchHarm).length = 12 := by decide +kernel

/-- pillar → stem, branch — 60 rows -/
theorem C19_cycle_parts : Gen.C19.cycle_parts = table .cycleParts := by decide +kernel
example : (table .cycleParts).length = 60 := by decide +kernel

/-- Nayin: sound index and the element its name ends in = the counting rule — 60 rows -/
theorem C19_cycle_sound : Gen.C19.cycle_sound = table .cycleSound := by decide +kernel
example : (table .cycleSound).length = 60 := by decide +kernel

/-- decade (Xun) — 60 rows -/
theorem C19_cycle_ten : Gen.C19.cycle_ten = table .cycleTen := by decide +kernel
example : (table .cycleTen).length = 60 := by decide +kernel

/-- void branches of the decade — 60 rows -/
theorem C19_cycle_extra : Gen.C19.cycle_extra = table .cycleExtra := by decide +kernel
example : (table .cycleExtra).length = 60 := by decide +kernel

/-- Peng Zu taboos are indexed by the pillar's stem and branch — 60 rows -/
theorem C19_cycle_pengzu : Gen.C19.cycle_pengzu = table .cyclePengZu := by decide +kernel
example : (table .cyclePengZu).length = 60 := by decide +kernel

/-- generates / overcomes / generated by / overcome by — 5 rows -/
theorem C19_element_cycle : Gen.C19.element_cycle = table .elementCycle := by decide +kernel
example : (table .elementCycle).length = 5 := by decide +kernel

/-- element → direction — 5 rows -/
theorem C19_element_direction : Gen.C19.element_direction = table .elementDirection := by decide +kernel
example : (table .elementDirection).length = 5 := by decide +kernel

/-- direction (palace) → element — 9 rows -/
theorem C19_direction_element : Gen.C19.direction_element = table .directionElement := by decide +kernel
example : (table .directionElement).length = 9 := by decide +kernel

/-- nine fields are indexed by their direction — 9 rows -/
theorem C19_land_direction : Gen.C19.land_direction = table .landDirection := by decide +kernel
example : (table .landDirection).length = 9 := by decide +kernel

/-- zone → direction, beast — 4 rows -/
theorem C19_zone_attr : Gen.C19.zone_attr = table .zoneAttr := by decide +kernel
example : (table .zoneAttr).length = 4 := by decide +kernel

/-- 28 mansions → luminary, field, zone, animal, luck — 28 rows -/
theorem C19_mansion_attr : Gen.C19.mansion_attr = table .mansionAttr := by decide +kernel
example : (table .mansionAttr).length = 28 := by decide +kernel

/-- nine stars → element, dipper star, direction — 9 rows -/
theorem C19_ninestar_attr : Gen.C19.ninestar_attr = table .nineStarAttr := by decide +kernel
example : (table .nineStarAttr).length = 9 := by decide +kernel

/-- twelve day spirits → yellow/black path and its luck — 12 rows -/
theorem C19_twelvestar_ecliptic : Gen.C19.twelvestar_ecliptic = table .twelveStarEcliptic := by decide +kernel
example : (table .twelveStarEcliptic).length = 12 := by decide +kernel

/-- yellow path lucky, black path unlucky — 2 rows -/
theorem C19_ecliptic_luck : Gen.C19.ecliptic_luck = table .eclipticLuck := by decide +kernel
example : (table .eclipticLuck).length = 2 := by decide +kernel

/-- minor Liu Ren → luck, element — 6 rows -/
theorem C19_minorren_attr : Gen.C19.minorren_attr = table .minorRenAttr := by decide +kernel
example : (table .minorRenAttr).length = 6 := by decide +kernel

/-- daily foetus spirit for the 60 day pillars: stem place, branch place, inside/outside, direction — 60 rows -/
theorem C19_fetus_day : Gen.C19.fetus_day = table .fetusDay := by decide +kernel
example : (table .fetusDay).length = 60 := by decide +kernel

/-- monthly foetus spirit: month m ↦ entry m−1, leap month ↦ none — 13 rows -/
theorem C19_fetus_month : Gen.C19.fetus_month = table .fetusMonth := by decide +kernel
example : (table .fetusMonth).length = 13 := by decide +kernel

/-- zodiac sign of each of the 366 month-days — 366 rows -/
theorem C19_day_constellation : Gen.C19.day_constellation = table .dayConstellation := by decide +kernel
example : (table .dayConstellation).length = 366 := by decide +kernel

/-- foetal origin (胎元) for every month pillar — 60 rows -/
theorem C19_ec_origin : Gen.C19.ec_origin = table .ecOrigin := by decide +kernel
example : (table .ecOrigin).length = 60 := by decide +kernel

/-- foetal breath (胎息) for every day pillar — 60 rows -/
theorem C19_ec_breath : Gen.C19.ec_breath = table .ecBreath := by decide +kernel
example : (table .ecBreath).length = 60 := by decide +kernel

/-- own sign (命宫) for every (year stem, month branch, hour branch) — 1440 rows -/
theorem C19_ec_own : Gen.C19.ec_own = table .ecOwn := by decide +kernel
example : (table .ecOwn).length = 1440 := by decide +kernel

/-- body sign (身宫) for every (year stem, month branch, hour branch) — 1440 rows -/
theorem C19_ec_body : Gen.C19.ec_body = table .ecBody := by decide +kernel
example : (table .ecBody).length = 1440 := by decide +kernel

/-- the thirty Nayin names (code points) — 30 rows -/
theorem C19_name_sound : Gen.C19.name_sound = table .nameSound := by decide +kernel
example : (table .nameSound).length = 30 := by decide +kernel

/-- the twelve monthly foetus-spirit entries (code points) — 12 rows -/
theorem C19_name_fetusmonth : Gen.C19.name_fetusmonth = table .nameFetusMonth := by decide +kernel
example : (table .nameFetusMonth).length = 12 := by decide +kernel

/-- 天干六甲胎神歌 places (code points) — 5 rows -/
theorem C19_name_fetusstem : Gen.C19.name_fetusstem = table .nameFetusStem := by decide +kernel
example : (table .nameFetusStem).length = 5 := by decide +kernel

/-- 地支六甲胎神歌 places (code points) — 6 rows -/
theorem C19_name_fetusbranch : Gen.C19.name_fetusbranch = table .nameFetusBranch := by decide +kernel
example : (table .nameFetusBranch).length = 6 := by decide +kernel

/-- colours of the nine stars 白黑碧绿黄白赤白紫 (code points) — 9 rows -/
theorem C19_name_ninecolor : Gen.C19.name_ninecolor = table .nameNineColor := by decide +kernel
example : (table .nameNineColor).length = 9 := by decide +kernel

/-- the public name lists that fix what every index above MEANS (25 types, 275 names, code points): stems, branches, elements,
    directions, animals, growth stages, ten gods, decades, luminaries, fields, zones, beasts, mansions and their animals, luck,
    zodiac signs, minor Ren, twelve spirits, paths, dipper stars, nine stars, 阴阳 / 内外 / 余中本 codes, and the sixty pillar
    names (= stem name followed by branch name) — 275 rows -/
theorem C19_name_of : Gen.C19.name_of = table .nameOf := by decide +kernel
example : (table .nameOf).length = 275 := by decide +kernel

end Tyme
