import Tyme.Facts.C15Preds
import Tyme.Basic.Packed
import Tyme.Gen.Terms0
import Tyme.Gen.Terms1
/-! C15 table fact, parts 0 and 1 of the term table (30,000 records each): every winter solstice lies in December. -/
namespace Tyme
open Packed Gen

set_option maxRecDepth 100000 in
theorem c15_dec_part0 : allChunks 72 solDec termsPart0 0 = true := by decide +kernel

set_option maxRecDepth 100000 in
theorem c15_dec_part1 : allChunks 72 solDec termsPart1 30000 = true := by decide +kernel

end Tyme
