import Tyme.Model.Eph
/-! Predicates of the C13 table facts (static). The facts themselves are generated per part by tools/gen_c13.py
(Gen/C13TermsFact*.lean, Gen/C13MonthsFact*.lean, glued in Gen/C13Glue.lean) over the SAME packed tables
Gen/Terms*, Gen/Months* that tools/gen_eph.py extracts from /repo. Nat only (kernel evaluation). -/
namespace Tyme

/-- day number of January 1 of civil year Y ≥ 1 in closed form (= `jdn Y 1 1`, lemma `ysN_eq`) -/
def ysN (Y : Nat) : Nat :=
  if 1583 ≤ Y then 1461 * (Y + 4715) / 4 + 2 + (Y - 1) / 100 / 4 - (1095 + (Y - 1) / 100)
  else 1461 * (Y + 4715) / 4 - 1095

/-- where the terms lie in the civil year: Lichun (index 3) of term-year Y falls 24..36 days after January 1 of Y;
the winter solstice (index 0) of term-year Y falls at least 9 days before January 1 of Y (i.e. in December of Y−1) -/
def termWin (g r : Nat) : Bool :=
  if g % 24 == 3 then
    Rec.tDayRaw r == 0 || (Nat.ble (ysN (g / 24 + 1) + 24) (Rec.tDay r) && Nat.ble (Rec.tDay r) (ysN (g / 24 + 1) + 36))
  else if g % 24 == 0 then Rec.tDayRaw r == 0 || Nat.ble (Rec.tDay r + 9) (ysN (g / 24 + 1))
  else true

/-- where the lunar new year lies in the civil year: day 1 of lunar year y falls between 5 days before and 59 days after
January 1 of civil year y (y ≥ 1); lunar year 0 begins before 0001-01-01 -/
def yearWin (y r : Nat) : Bool :=
  if y == 0 then Nat.ble (Rec.sFirst (Rec.slot r 0)) 1721424
  else Nat.ble (ysN y) (Rec.sFirst (Rec.slot r 0) + 5) && Nat.ble (Rec.sFirst (Rec.slot r 0)) (ysN y + 59)

end Tyme
