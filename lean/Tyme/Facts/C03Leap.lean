import Tyme.Model.LeapTable
import Tyme.Model.RealEph
import Tyme.Gen.C03Leap
/-! Translator tie for the packed leap-month table: the 12 base-64 delta strings lifted from the TEXT of
src/tyme/lunar.rs decode (under the model of the decoder, `Leap.decodeMonth`) to twelve strictly increasing, pairwise
disjoint year lists, and the look-up over them answers, for every lunar year 0..9999, exactly the leap month that the
library reported in this run's dump (`Gen.leapOfYearP`, the same column the year records of `realEph` are built from). -/
namespace Tyme
open Packed

def leapAlphabet : List Nat := unpack 8 Gen.leapAlphabetP.1 Gen.leapAlphabetP.2
def leapRaw : List (List Nat) := Gen.leapRawP.map fun p => unpack 8 p.1 p.2
def leapOfYear : List Nat := unpack 4 Gen.leapOfYearP.1 Gen.leapOfYearP.2

theorem C03_leap_table : Leap.tableOK leapAlphabet leapRaw leapOfYear = true := by decide +kernel

/-- year `i`'s leap month in the packed extension -/
def leapNib (i : Nat) : Nat := Gen.leapOfYearP.2 / 16 ^ i % 16

def leapSame (i r : Nat) : Bool := decide (10000 ≤ i) || Rec.yLeap r == leapNib i

/-- the extension used here is the leap column of the year records behind `realEph` -/
theorem C03_leap_table_is_realEph : allRec 1024 leapSame Gen.monthsChunks = true := by decide +kernel

end Tyme
