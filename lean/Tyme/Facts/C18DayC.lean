import Tyme.Facts.C18Defs
/-! C18 table facts (kernel enumeration of the generated data, `decide +kernel`): day activities (`DAY_TABOO` against `Taboo::get_day_recommends/avoids`), month branches 6..8.
Each theorem walks one row = 60 (branch, day pillar) pairs; re-checked whenever the Gen data change. -/
namespace Tyme
open Almanac Gen

theorem C18_fact_day_6 : tabooRowOk rawDayTaboo C18Ext.dayRec C18Ext.dayAvoid 6 = true := by decide +kernel
theorem C18_fact_day_7 : tabooRowOk rawDayTaboo C18Ext.dayRec C18Ext.dayAvoid 7 = true := by decide +kernel
theorem C18_fact_day_8 : tabooRowOk rawDayTaboo C18Ext.dayRec C18Ext.dayAvoid 8 = true := by decide +kernel

end Tyme
