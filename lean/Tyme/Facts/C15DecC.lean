import Tyme.Facts.C15Preds
import Tyme.Basic.Packed
import Tyme.Gen.Terms4
import Tyme.Gen.Terms5
/-! C15 table fact, parts 4 and 5 of the term table (30,000 records each): every winter solstice lies in December. -/
namespace Tyme
open Packed Gen

set_option maxRecDepth 100000 in
theorem c15_dec_part4 : allChunks 72 solDec termsPart4 120000 = true := by decide +kernel

set_option maxRecDepth 100000 in
theorem c15_dec_part5 : allChunks 72 solDec termsPart5 150000 = true := by decide +kernel

end Tyme
