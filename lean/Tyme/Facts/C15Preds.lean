import Tyme.Model.Eph
/-! C15 table-fact predicate: every winter solstice falls in December (static; the fact is kernel-checked per part in
Facts/C15DecA..D.lean and glued in Facts/C15Dec.lean). -/
namespace Tyme

/-- day number of December 1 of civil year y in `Nat` arithmetic (= `jdn y 12 1`, see `dec1N_eq`) -/
def dec1N (y : Nat) : Nat :=
  if y ≥ 1582 then (1461 * (y + 4716)) / 4 + 400 + y / 100 / 4 - y / 100 - 1524
  else (1461 * (y + 4716)) / 4 + 398 - 1524

/-- term record r with global index g: if g = 24·y (term 0 of year y+1: the winter solstice of December y) and the
term is representable, its civil day lies in December 1..31 of year y -/
def solDec (g r : Nat) : Bool :=
  !(g % 24 == 0) || Rec.tDayRaw r == 0 ||
    (Nat.ble (dec1N (g / 24)) (Rec.tDay r) && Nat.ble (Rec.tDay r) (dec1N (g / 24) + 30))

end Tyme
