import Tyme.Gen.C13Glue
import Tyme.Facts.Terms
import Tyme.Facts.Months
import Tyme.Lemmas.Jd
/-!
C13 table facts lifted to statements about `realEph` (the tables re-extracted from /repo on every run):
where Lichun and the winter solstice lie in the civil year, and where the lunar new year lies.
Kernel-checked over ALL 240,000 term records and ALL 10,000 lunar-year records (Gen/C13*Fact*.lean).
-/
namespace Tyme
open Packed

/-- the closed form is the model's day number of January 1 -/
theorem ysN_eq (Y : Nat) (h : 1 ≤ Y) : ((ysN Y : Nat) : Int) = jdn (Y : Int) 1 1 := by
  obtain ⟨k, rfl⟩ : ∃ k, Y = k + 1 := ⟨Y - 1, by omega⟩
  rw [jdn_nf]
  have h12 : (1 : Int) ≤ 2 := by decide
  simp only [h12, if_true]
  unfold ysN
  simp only [Nat.add_sub_cancel]
  have ef : 1461 * (k + 1 + 4715) / 4 = 365 * (k + 1 + 4715) + (k + 1 + 4715) / 4 := by omega
  rw [ef]
  by_cases hy : 1583 ≤ k + 1
  · have hg : ((k + 1 : Nat) : Int) * 372 + 1 * 31 + 1 ≥ 588829 := by omega
    simp only [hy, hg, if_true]
    have hle : 1095 + k / 100 ≤ 365 * (k + 1 + 4715) + (k + 1 + 4715) / 4 + 2 + k / 100 / 4 := by omega
    rw [Int.ofNat_sub hle]
    simp only [Int.natCast_add, Int.natCast_mul, Int.natCast_ediv]
    omega
  · have hg : ¬ (((k + 1 : Nat) : Int) * 372 + 1 * 31 + 1 ≥ 588829) := by omega
    simp only [hy, hg, if_false]
    have hle : 1095 ≤ 365 * (k + 1 + 4715) + (k + 1 + 4715) / 4 := by omega
    rw [Int.ofNat_sub hle]
    simp only [Int.natCast_add, Int.natCast_mul, Int.natCast_ediv]
    omega

theorem termWin_at (g : Nat) (h : g < 240000) : termWin g (termRecs.getD g 0) = true := by
  have := allRec_spec 72 termWin Gen.termsChunks Gen.c13_termWin_all g (by
    show g < termRecs.length
    rw [termRecs_length]; exact h)
  rw [termRecs_getD g h]; exact this

/-- LIFTED FACT: Lichun of civil year Y (1..9999) falls 24..36 days after January 1 of Y. -/
theorem realEph_lichun_win (Y : Nat) (h1 : 1 ≤ Y) (h2 : Y ≤ 9999) :
    jdn (Y : Int) 1 1 + 24 ≤ realEph.termDay (24 * (Y - 1) + 3) ∧ realEph.termDay (24 * (Y - 1) + 3) ≤ jdn (Y : Int) 1 1 + 36 := by
  have hw := termWin_at (24 * (Y - 1) + 3) (by omega)
  have hr : ¬ realEph.termDay (24 * (Y - 1) + 3) = 0 := fun h => by
    have := (realEph_term_repr (24 * (Y - 1) + 3) (by omega)).1 h; omega
  simp only [realEph] at hr ⊢
  generalize termRecs.getD (24 * (Y - 1) + 3) 0 = r at *
  have e1 : (24 * (Y - 1) + 3) % 24 = 3 := by omega
  have e2 : (24 * (Y - 1) + 3) / 24 + 1 = Y := by omega
  have er : ¬ Rec.tDayRaw r = 0 := by rw [← tDay_eq_zero_iff]; omega
  have er' : (Rec.tDayRaw r == 0) = false := by simp [er]
  unfold termWin at hw
  rw [e1, e2] at hw
  simp only [beq_self_eq_true, if_true, er', Bool.false_or, Bool.and_eq_true, Nat.ble_eq] at hw
  rw [← ysN_eq Y h1]
  omega

/-- LIFTED FACT: the winter solstice that opens term-year Y (2..10000) falls at least 9 days before January 1 of Y. -/
theorem realEph_dongzhi_win (Y : Nat) (h1 : 2 ≤ Y) (h2 : Y ≤ 10000) :
    realEph.termDay (24 * (Y - 1)) + 9 ≤ jdn (Y : Int) 1 1 := by
  have hw := termWin_at (24 * (Y - 1)) (by omega)
  have hr : ¬ realEph.termDay (24 * (Y - 1)) = 0 := fun h => by
    have := (realEph_term_repr (24 * (Y - 1)) (by omega)).1 h; omega
  simp only [realEph] at hr ⊢
  generalize termRecs.getD (24 * (Y - 1)) 0 = r at *
  have e1 : (24 * (Y - 1)) % 24 = 0 := by omega
  have e2 : (24 * (Y - 1)) / 24 + 1 = Y := by omega
  have er : ¬ Rec.tDayRaw r = 0 := by rw [← tDay_eq_zero_iff]; omega
  have er' : (Rec.tDayRaw r == 0) = false := by simp [er]
  unfold termWin at hw
  rw [e1, e2] at hw
  have e3 : ((0 : Nat) == 3) = false := by decide
  simp only [e3, Bool.false_eq_true, if_false, beq_self_eq_true, if_true, er', Bool.false_or, Nat.ble_eq] at hw
  rw [← ysN_eq Y (by omega)]
  omega

theorem yearWin_at (y : Nat) (h : y < 10000) : yearWin y (yearRecs.getD y 0) = true := by
  have hlen := yearRecs_length
  have := allRec_spec 1024 yearWin Gen.monthsChunks Gen.c13_yearWin_all y (by
    show y < yearRecs.length
    omega)
  have e : yearRecs.getD y 0 = yearRecs[y]'(by omega) := by
    simp [List.getD, List.getElem?_eq_getElem (show y < yearRecs.length by omega)]
  rw [e]; exact this

/-- LIFTED FACT: day 1 of lunar year y (1..9999) falls between 5 days before and 59 days after January 1 of civil year y. -/
theorem realEph_newyear_win (y : Nat) (h1 : 1 ≤ y) (h2 : y ≤ 9999) :
    jdn (y : Int) 1 1 ≤ realEph.mFirst (y : Int) 0 + 5 ∧ realEph.mFirst (y : Int) 0 ≤ jdn (y : Int) 1 1 + 59 := by
  have hw := yearWin_at y (by omega)
  simp only [realEph, Int.toNat_natCast]
  generalize yearRecs.getD y 0 = r at *
  unfold yearWin at hw
  have e0 : (y == 0) = false := by simp; omega
  simp only [e0, Bool.false_eq_true, if_false, Bool.and_eq_true, Nat.ble_eq] at hw
  rw [← ysN_eq y h1]
  omega

/-- LIFTED FACT: lunar year 0 begins before 0001-01-01. -/
theorem realEph_newyear0 : realEph.mFirst 0 0 ≤ 1721424 := by
  have hw := yearWin_at 0 (by omega)
  simp only [realEph]
  have : (0 : Int).toNat = 0 := rfl
  rw [this]
  generalize yearRecs.getD 0 0 = r at *
  unfold yearWin at hw
  simp only [beq_self_eq_true, if_true, Nat.ble_eq] at hw
  omega

end Tyme
