import Tyme.Thm.C20
/- C20 findings in the model (built on demand, NOT an obligation: a repair of the look-up order would make it fail,
which is no violation). -/
namespace Tyme
open Fest FestSpec Gen.C20

/-- a calendar in which every term day is lunar 12-08 of year 19 (what the library computes for the winter solstice of AD 19) -/
def calSolsticeOnLaba : Cal := ⟨fun _ _ _ => true, fun _ _ _ => some 0, fun _ => some (19, 12, 8), fun _ _ => some 0⟩

/-- D18 in the model: the winter-solstice festival (index 10) found by index falls on 12-08, and the by-date look-up
of that day answers the LATER-listed festival 11 (fixed-date records are consulted before term records). -/
theorem Finding_C20_later_listed :
    lunarFromIndex calSolsticeOnLaba lunarNames.length lunarData 19 10 = .found ⟨10, 1, 19, 12, 8, 0⟩ ∧
    lunarFromYmd calSolsticeOnLaba lunarData 19 12 8 = .found ⟨11, 0, 19, 12, 8, -1⟩ := by decide +kernel

theorem Finding_C20_not_full : ¬ C20_lunar_back_full := by
  intro h
  obtain ⟨g, hg, hle, _⟩ := h calSolsticeOnLaba 19 10 _ Finding_C20_later_listed.1
  rw [Finding_C20_later_listed.2] at hg
  cases hg
  simp only [] at hle
  omega

/-- D13 in the model: the unrepaired by-date look-up (first term record only) does not find the winter-solstice festival
on its own day, the repaired one does. -/
def calPlain : Cal := ⟨fun _ _ _ => true, fun _ _ _ => some 0,
  fun j => if j == 24 then some (2023, 11, 10) else some (2023, -2, 15), fun _ t => some t⟩

theorem Finding_C20_D13 :
    lunarFromIndex calPlain lunarNames.length lunarData 2023 10 = .found ⟨10, 1, 2023, 11, 10, 0⟩ ∧
    lunarFromYmd calPlain lunarData 2023 11 10 (termFirstOnly := true) = .absent ∧
    lunarFromYmd calPlain lunarData 2023 11 10 = .found ⟨10, 1, 2023, 11, 10, 0⟩ := by decide +kernel

end Tyme
