def hello := "world"
