import Tyme.Spec.Civil
/-
Independent specification of "the weeks of a month" (C14), written on ordinals (days since 0001-01-01,
`Tyme.Civil.ord`) and sharing nothing with the model.

Fix a week-start weekday `s` (0 = Sunday .. 6 = Saturday).  Time is cut into start-aligned 7-day BLOCKS;
block `k` is the set of days whose `block s x = k`.  The weeks of a month are the blocks that meet the month,
in order; week `i` of the month is the `i`-th of them.  Nothing else is assumed.
-/
namespace Tyme.WeekSpec
open Tyme.Civil

/-- weekday of ordinal x: 0001-01-01 (ordinal 0) was a Saturday (6) -/
def weekday (x : Int) : Int := (x + 6) % 7

/-- index of the start-aligned block containing ordinal x (ordinal `s + 1` has weekday `s`) -/
def block (s x : Int) : Int := (x - (s + 1)) / 7

/-- first ordinal of block k -/
def blockStart (s k : Int) : Int := 7 * k + s + 1

/-- the blocks meeting the days `F .. F+L-1` -/
def firstBlock (s F : Int) : Int := block s F
def lastBlock (s F L : Int) : Int := block s (F + L - 1)
def blockCount (s F L : Int) : Int := lastBlock s F L - firstBlock s F + 1

/-- ordinal of day 1 of month (y, m) -/
def monthStart (y m : Int) : Int := sumYears y + sumMonths y m

def monthOk (y m : Int) : Bool := decide (1 ≤ y ∧ y ≤ 9999 ∧ 1 ≤ m ∧ m ≤ 12)

/-- number of weeks of month (y,m) -/
def weekCount (y m s : Int) : Int := blockCount s (monthStart y m) (daysIn y m)

/-- (y,m,i,s) names a week: the month exists, s is a weekday, i counts one of the month's blocks -/
def weekOk (y m i s : Int) : Bool :=
  monthOk y m && decide (0 ≤ s ∧ s ≤ 6) && decide (0 ≤ i ∧ i < weekCount y m s)

/-- ordinal of the first day of week i of month (y,m) -/
def weekFirst (y m i s : Int) : Int := blockStart s (firstBlock s (monthStart y m) + i)

/-- index of the week of (y,m) that contains the date -/
def weekIndexOf (y m d s : Int) : Int := block s (ord y m d) - firstBlock s (monthStart y m)

/-- index in the year: blocks counted from the block containing January 1 -/
def indexInYear (y m i s : Int) : Int := (firstBlock s (monthStart y m) + i) - block s (monthStart y 1)

end Tyme.WeekSpec
