/-
Record-level reading of the three C20 data strings — the specification side.
No regular expressions here: the strings are cut into records by position ('@'-separated
festival records, 13-character holiday records) and look-ups are plain searches in the record list.

  civil festival record  `@II0MMDDYYYY`   index, type 0, month, day, founding year
  lunar festival record  `@II0MMDD` (fixed lunar date) | `@II1TT` (solar term TT) | `@II2` (New Year's Eve)
  holiday record         `YYYYMMDDwi±dd`  date, w = '0' work day / '1' rest day, i = name index,
                         ±dd = signed distance in days to the festival day the record belongs to
-/
namespace Tyme.FestSpec

abbrev Bytes := List Nat

/-- decimal value of a digit string -/
def num (l : Bytes) : Nat := l.foldl (fun a b => 10 * a + (b - 48)) 0

/-- scan: `cur` = the record being read (none before the first '@'), `acc` = finished records -/
def recGo : Bytes → Option Bytes → List Bytes → List Bytes
  | [], cur, acc => (match cur with | some c => acc ++ [c] | none => acc)
  | b :: t, cur, acc =>
    if b == 64 then recGo t (some []) (match cur with | some c => acc ++ [c] | none => acc)
    else recGo t (cur.map (· ++ [b])) acc

/-- the byte strings that follow each '@' (byte 64), in reading order -/
def records (l : Bytes) : List Bytes := recGo l none []

structure SolarRec where
  idx : Nat
  m : Nat
  d : Nat
  start : Nat
  deriving Repr, DecidableEq, Inhabited

/-- civil festival records: `II 0 MM DD YYYY` (after the '@') -/
def solarRecs (data : Bytes) : List SolarRec :=
  (records data).filterMap fun r =>
    if r.length ≥ 8 ∧ r.getD 2 0 == 48 then
      some ⟨num (r.take 2), num ((r.drop 3).take 2), num ((r.drop 5).take 2), num (r.drop 7)⟩
    else none

/-- the civil festival of a date: the record with that month-day, from its founding year on -/
def solarOn (recs : List SolarRec) (y m d : Int) : Option SolarRec :=
  recs.find? fun r => (r.m : Int) == m && (r.d : Int) == d && decide ((r.start : Int) ≤ y)

/-- the civil festival with a given index (position in the name list) -/
def solarAt (recs : List SolarRec) (y i : Int) : Option SolarRec :=
  recs.find? fun r => (r.idx : Int) == i && decide ((r.start : Int) ≤ y)

inductive LunarRec where
  | day (idx m d : Nat)
  | term (idx t : Nat)
  | eve (idx : Nat)
  deriving Repr, DecidableEq, Inhabited

def lunarRecs (data : Bytes) : List LunarRec :=
  (records data).filterMap fun r =>
    let idx := num (r.take 2)
    match r.getD 2 0 with
    | 48 => if r.length == 7 then some (.day idx (num ((r.drop 3).take 2)) (num ((r.drop 5).take 2))) else none
    | 49 => if r.length == 5 then some (.term idx (num (r.drop 3))) else none
    | 50 => if r.length == 3 then some (.eve idx) else none
    | _ => none

structure HolRec where
  y : Nat
  m : Nat
  d : Nat
  idx : Nat
  work : Bool
  off : Int
  deriving Repr, DecidableEq, Inhabited

/-- cut into `n` records of 13 bytes -/
def chunks : Nat → Bytes → List Bytes
  | 0, _ => []
  | n + 1, l => l.take 13 :: chunks n (l.drop 13)

def parseHol (r : Bytes) : HolRec :=
  ⟨num (r.take 4), num ((r.drop 4).take 2), num ((r.drop 6).take 2), r.getD 9 48 - 48, r.getD 8 0 == 48,
   (if r.getD 10 0 == 45 then -1 else 1) * (num (r.drop 11) : Int)⟩

def holRecs (data : Bytes) : List HolRec := (chunks (data.length / 13) data).map parseHol

def HolRec.isDate (r : HolRec) (y m d : Int) : Bool := (r.y : Int) == y && (r.m : Int) == m && (r.d : Int) == d

/-- the holiday record of a date -/
def holOn (recs : List HolRec) (y m d : Int) : Option HolRec := recs.find? (·.isDate y m d)

/-- position of the record of a date -/
def holPos (recs : List HolRec) (y m d : Int) : Option Nat :=
  let i := recs.findIdx (·.isDate y m d)
  if i < recs.length then some i else none

/-- `n` records further along the table -/
def holStep (recs : List HolRec) (k : Nat) (n : Int) : Option HolRec :=
  if (k : Int) + n < 0 then none else recs[((k : Int) + n).toNat]?

/-- numeric key of a date, for ordering -/
def HolRec.key (r : HolRec) : Nat := r.y * 10000 + r.m * 100 + r.d

end Tyme.FestSpec
