import Tyme.Spec.Civil
/-
Independent statement of the child-limit arithmetic (C16), written from the rule, not from the code:
  * luck runs forward exactly for Yang-year men and Yin-year women (Yang year = even year stem);
  * the span between birth and the governing Jie converts at 3 days = 1 year, 1 day = 4 months,
    1 hour = 5 days, 1 minute = 2 hours, 1 second = 2 minutes — read off as mixed-radix digits of the span;
  * the limit ends at birth plus that many calendar years and months (same day-of-month label; a label that
    does not exist in the target month runs over into the following month), then plus the days, hours and
    minutes on the civil time line.
Executable (used by the sweep); shares nothing with the model but `Civil`.
-/
namespace Tyme.CLSpec
open Tyme

/-- forward ⇔ (Yang ∧ man) ∨ (Yin ∧ woman); Yang ⇔ the year stem index is even -/
def forward (yearStem : Int) (man : Bool) : Bool := (yearStem % 2 == 0) == man

/-- default strategy: digits of the span in seconds. 259200 s = 1 y, 21600 s = 1 mo, 720 s = 1 d, 30 s = 1 h, 1 s = 2 min -/
def digitsDefault (s : Int) : Int × Int × Int × Int × Int :=
  (s / 259200, s / 21600 % 12, s / 720 % 30, s / 30 % 24, 2 * (s % 30))

/-- China95: whole minutes; 4320 min = 1 y, 360 min = 1 mo, 12 min = 1 d; nothing finer -/
def digitsChina95 (s : Int) : Int × Int × Int × Int × Int :=
  let m := s / 60
  (m / 4320, m / 360 % 12, m / 12 % 30, 0, 0)

/-- LunarSect2: whole minutes; as China95 plus 1 min = 2 h -/
def digitsSect2 (s : Int) : Int × Int × Int × Int × Int :=
  let m := s / 60
  (m / 4320, m / 360 % 12, m / 12 % 30, 2 * (m % 12), 0)

/-- LunarSect1: whole double-hours u between the two instants; 36 = 1 y, 3 = 1 mo, 1 = 10 d -/
def digitsSect1 (u : Int) : Int × Int × Int × Int × Int :=
  (u / 36, u / 3 % 12, 10 * (u % 3), 0, 0)

/-- double-hour of the day as LunarSect1 counts it: 23:00 belongs to the last one (11) -/
def dhour (h : Int) : Int := if h ≥ 23 then 11 else (h + 1) / 2

/-- calendar sum: (date, second of day) ⊕ (Y, M, D, H, MI). `none` = outside 0001..9999. -/
def calAdd (y m d sod Y M D H MI : Int) : Option ((Int × Int × Int) × Int) :=
  let n := 12 * (y + Y) + (m - 1) + M
  let y' := n / 12
  let m' := n % 12 + 1
  if y' < 1 ∨ y' > 9999 then none else
  -- the day-of-month label d in the target month; a label that does not exist runs over
  let base := if Civil.valid y' m' d then Civil.ord y' m' d else Civil.ord y' m' 1 + (d - 1)
  let t := sod + 3600 * H + 60 * MI
  (Civil.ofOrd (base + D + t / 86400)).map fun x => (x, t % 86400)

end Tyme.CLSpec
