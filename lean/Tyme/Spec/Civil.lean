/-
Independent specification of the civil calendar 0001-01-01 .. 9999-12-31:
Julian through 1582-10-04, Gregorian from 1582-10-15, ten days nonexistent.
Short and meant to be read; shares nothing with the model.
-/
namespace Tyme.Civil

/-- true leap rule of the mixed calendar: Julian up to 1582, Gregorian after. -/
def leap (y : Int) : Bool :=
  if y ≤ 1582 then y % 4 == 0 else (y % 4 == 0 && (y % 100 != 0 || y % 400 == 0))

/-- last day number of the month (31 for Oct 1582: its days are numbered 1–4, 15–31). -/
def lastDay (y m : Int) : Int :=
  if m == 2 then (if leap y then 29 else 28)
  else if m == 4 || m == 6 || m == 9 || m == 11 then 30 else 31

/-- the date exists in the civil calendar and lies in 0001..9999 -/
def valid (y m d : Int) : Bool :=
  decide (1 ≤ y ∧ y ≤ 9999 ∧ 1 ≤ m ∧ m ≤ 12 ∧ 1 ≤ d ∧ d ≤ lastDay y m) &&
  !(y == 1582 && m == 10 && decide (5 ≤ d ∧ d ≤ 14))

/-- the civil day after (y,m,d) -/
def next (y m d : Int) : Int × Int × Int :=
  if y == 1582 && m == 10 && d == 4 then (1582, 10, 15)
  else if d < lastDay y m then (y, m, d + 1)
  else if m < 12 then (y, m + 1, 1) else (y + 1, 1, 1)

/-- number of days that exist in month (y,m) -/
def daysIn (y m : Int) : Int := if y == 1582 && m == 10 then 21 else lastDay y m

/-- number of days in year y -/
def daysInYear (y : Int) : Int := if y == 1582 then 355 else if leap y then 366 else 365

/-- chronological (lexicographic) order -/
def lt (a b : Int × Int × Int) : Prop :=
  a.1 < b.1 ∨ (a.1 = b.1 ∧ (a.2.1 < b.2.1 ∨ (a.2.1 = b.2.1 ∧ a.2.2 < b.2.2)))

end Tyme.Civil

namespace Tyme.Civil
/-! Executable ordinal (days since 0001-01-01), written by summation — used by the sweep only. -/

def sumYears (y : Int) : Int := Id.run do
  let mut s : Int := 0
  for k in [1:y.toNat] do
    s := s + daysInYear k
  return s

def sumMonths (y m : Int) : Int := Id.run do
  let mut s : Int := 0
  for k in [1:m.toNat] do
    s := s + daysIn y k
  return s

/-- position of day d inside its month, 0-based, counting only days that exist -/
def posInMonth (y m d : Int) : Int := if y == 1582 && m == 10 && d ≥ 15 then d - 11 else d - 1

def ord (y m d : Int) : Int := sumYears y + sumMonths y m + posInMonth y m d

def totalDays : Int := sumYears 10000

def ofOrd (k : Int) : Option (Int × Int × Int) := Id.run do
  if k < 0 ∨ k ≥ totalDays then return none
  let mut r := k
  let mut y : Int := 1
  while r ≥ daysInYear y do
    r := r - daysInYear y
    y := y + 1
  let mut m : Int := 1
  while r ≥ daysIn y m do
    r := r - daysIn y m
    m := m + 1
  let d := if y == 1582 && m == 10 && r ≥ 4 then r + 11 else r + 1
  return some (y, m, d)

end Tyme.Civil
