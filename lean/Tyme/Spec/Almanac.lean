/-
C18 specification, written from first principles (no reference to how the Rust code decodes):

* what a well-formed index field is (an even number of hex digits, read two at a time, every value an
  existing position of the name list),
* where the spirit list splits into auspicious and ominous names,
* what a kitchen-god number is (the ordinal, within the year, of the first day carrying a given stem / branch).

Meant to be read. No imports (linked into the driver).
-/
namespace Tyme.AlmanacSpec

/-! ### index fields -/

/-- value of a hex digit `0-9A-Fa-f` given as a byte -/
def digit? (c : Nat) : Option Nat :=
  if 48 ≤ c ∧ c ≤ 57 then some (c - 48)
  else if 65 ≤ c ∧ c ≤ 70 then some (c - 55)
  else if 97 ≤ c ∧ c ≤ 102 then some (c - 87)
  else none

/-- the values of a field: it must consist of hex digits only, an even number of them; each pair `hi lo`
is the number `16·hi + lo`. `none` = malformed. -/
def fieldValues : List Nat → Option (List Nat)
  | [] => some []
  | [_] => none
  | a :: b :: r =>
    match digit? a, digit? b, fieldValues r with
    | some x, some y, some t => some ((16 * x + y) :: t)
    | _, _, _ => none

/-- a field is well formed for a name list of `size` entries when it parses and every value is a position of the list -/
def wfField (size : Nat) (f : List Nat) : Bool :=
  match fieldValues f with
  | none => false
  | some vals => vals.all (· < size)

/-- no common element -/
def disjoint (a b : List Nat) : Bool := a.all fun x => !b.contains x

/-! ### auspicious / ominous -/

/-- UTF-8 of 五虚, the first ominous spirit of the list: everything before it is auspicious (天恩 … 解除),
everything from it on is ominous (五虚 … 阳破阴冲) -/
def firstOminous : List Nat := [0xE4, 0xBA, 0x94, 0xE8, 0x99, 0x9A]

/-- UTF-8 of 解除, the last auspicious spirit -/
def lastAuspicious : List Nat := [0xE8, 0xA7, 0xA3, 0xE9, 0x99, 0xA4]

/-- position of the first occurrence of `x` (length of the list if absent) -/
def position (x : List Nat) : List (List Nat) → Nat
  | [] => 0
  | n :: r => if n == x then 0 else position x r + 1

/-- luck class (0 = auspicious 吉, 1 = ominous 凶) of the spirit at position `i` of the name list `names` -/
def luckOf (names : List (List Nat)) (i : Nat) : Nat := if i < position firstOminous names then 0 else 1

/-! ### kitchen god -/

/-- ordinal (1-based, New Year's day = 1) of the first day whose cyclic sign is `target`, when New Year's day
carries sign `start` and signs advance by one per day in a cycle of `cycle` signs; searched over one full cycle -/
def firstDay (cycle start target : Nat) : Option Nat :=
  ((List.range cycle).find? fun k => (start + k) % cycle == target % cycle).map (· + 1)

/-- 几鼠偷粮 etc.: New Year day pillar `p` has branch `p mod 12` and stem `p mod 10`.
Order: mouse 子, grass 子, cattle 丑, flower 卯, dragon 辰, horse 午, chicken 酉, silkworm 酉, pig 亥,
field 甲, cake 丙, gold 辛, people-cakes (寅, 丙), people-hoes (寅, 丁). -/
def kitchen (p : Nat) : List (Option Nat) :=
  let br := fun t => firstDay 12 (p % 12) t
  let st := fun t => firstDay 10 (p % 10) t
  [br 0, br 0, br 1, br 3, br 4, br 6, br 9, br 9, br 11, st 0, st 2, st 7, br 2, st 2, br 2, st 3]

end Tyme.AlmanacSpec
