/-
Specification of the daily / hourly almanac cycles, from first principles (no reference to the model).
Inputs are the plain facts of a day: its day number j (noon-based Julian day number), hence its weekday
(j + 1) mod 7 (0 = Sunday) and its sexagenary pillar (j + 49) mod 60 (branch = pillar mod 12, 0 = Zi);
the index i of the solar term the day lies in (0 = winter solstice, 3 = Lichun, 12 = summer solstice, odd = Jie);
its lunar date (month number 1..12 — a leap month carries the number of the month it repeats —, day 1..30).
-/
namespace Tyme.AlmSpec

/-- branch of the sexagenary month in force during solar term i: Lichun (3) opens Yin (2), each later Jie
(odd index) opens the next branch; Daxue (23), the winter solstice (0) → Zi (0); Xiaohan (1), Dahan (2) → Chou (1) -/
def monthBranch (termIdx : Int) : Int := ((termIdx + 1) / 2) % 12

/-- 建除十二神: the officer is counted from "Jian" on the day whose branch equals the month branch -/
def duty (dayBranch monthBranch : Int) : Int := (dayBranch - monthBranch) % 12

/-- 黄道黑道: the branch on which Azure Dragon (spirit 0) stands, by reference branch (month for days, day for
hours) — the classical table: 子午→申, 丑未→戌, 寅申→子, 卯酉→寅, 辰戌→辰, 巳亥→午 -/
def dragonStart (refBranch : Int) : Int :=
  match refBranch % 12 with
  | 0 => 8 | 6 => 8      -- Zi, Wu   → Shen
  | 1 => 10 | 7 => 10    -- Chou, Wei → Xu
  | 2 => 0 | 8 => 0      -- Yin, Shen → Zi
  | 3 => 2 | 9 => 2      -- Mao, You  → Yin
  | 4 => 4 | 10 => 4     -- Chen, Xu  → Chen
  | _ => 6               -- Si, Hai   → Wu

/-- the spirits follow the branches from the dragon's branch -/
def twelve (branch refBranch : Int) : Int := (branch - dragonStart refBranch) % 12

/-- 二十八宿: one mansion per day without a break; anchored so that 2020-05-05 (day number 2458975, lunar
2020-4-13 of the library's unit test) is Yi (26): mansion = (j + 11) mod 28 -/
def mansion (j : Int) : Int := (j + 11) % 28

/-- 七曜 of a mansion: Jiao (0) belongs to Jupiter = Thursday (4), then in weekday order -/
def luminary (mansion : Int) : Int := (mansion + 4) % 7

def weekday (j : Int) : Int := (j + 1) % 7
def pillar (j : Int) : Int := (j + 49) % 60

/-- 六曜: day 1 of months 1/7 is Sensho (0), of 2/8 Tomobiki (1), … one step per month number and per day -/
def six (month day : Int) : Int := (month + day - 2) % 6

/-- 月相: one name per day of the lunation -/
def phase (day : Int) : Int := day - 1

/-- 小六壬: start at Da'an (0) for month 1, count on to the month, from there to the day, from there to the hour -/
def ren (month day hourIndex : Int) : Int := ((month - 1) + (day - 1) + hourIndex) % 6

/-- 年九星: one star back per year; 1864 (first year of an Upper Era, Jiazi) is One-White (0) -/
def yearNine (y : Int) : Int := (1864 - y) % 9

/-- 月九星: star of the Yin month by year-branch group — Zi/Wu/Mao/You years Eight-White (7), Chen/Xu/Chou/Wei
Five-Yellow (4), Yin/Shen/Si/Hai Two-Black (1) — then one star back per month (Yin, Mao, …, Zi, Chou) -/
def monthNine (yearBranch monthBranch : Int) : Int :=
  let start := if yearBranch % 3 = 0 then 7 else if yearBranch % 3 = 1 then 4 else 1
  (start - (monthBranch - 2) % 12) % 9

/-- the Jiazi day nearest to day s (a tie at 30 days goes to the later one) -/
def nearestJiazi (s : Int) : Int :=
  let p := pillar s
  if p ≤ 29 then s - p else s + (60 - p)

/-- 日九星: from the Jiazi day nearest a winter solstice the stars ascend from One-White, from the Jiazi day
nearest a summer solstice they descend from Nine-Purple. `winter` tells the kind of the latest turning point
`t ≤ j`. -/
def dayNine (j t : Int) (winter : Bool) : Int := if winter then (j - t) % 9 else (8 - (j - t)) % 9

/-- 时九星: ascending in the half-year from the winter solstice to the summer solstice (terms 0..11); the Zi
hour starts at 1/4/7 (ascending) or 9/6/3 (descending) by day-branch group Zi-Wu-Mao-You / Chen-Xu-Chou-Wei /
Yin-Shen-Si-Hai; one star per double-hour -/
def hourNine (termIdx dayBranch hourIndex : Int) : Int :=
  let g := dayBranch % 3
  if termIdx < 12 then ((if g = 0 then 0 else if g = 1 then 3 else 6) + hourIndex) % 9
  else ((if g = 0 then 8 else if g = 1 then 5 else 2) - hourIndex) % 9

end Tyme.AlmSpec
