import Tyme.Spec.Civil
/-
Independent statement of what the containers of C13 must list. Short and meant to be read; shares nothing with the model.
A container lists a part exactly when the part lies inside it, in chronological order:
  month m lies in season s (0..3) iff 3s < m ≤ 3s+3;  season s lies in half-year h (0..1) iff 2h ≤ s ≤ 2h+1;
  the days of a month are the dates (y, m, d), d = 1..31, that exist (`Civil.valid`).
-/
namespace Tyme.Civil

def inSeason (m s : Int) : Bool := decide (3 * s < m ∧ m ≤ 3 * s + 3)
def seasonInHalf (s h : Int) : Bool := decide (2 * h ≤ s ∧ s ≤ 2 * h + 1)
def inHalf (m h : Int) : Bool := decide (6 * h < m ∧ m ≤ 6 * h + 6)

/-- 1, 2, …, n -/
def upTo (n : Nat) : List Int := (List.range n).map fun (k : Nat) => (k : Int) + 1
/-- 0, 1, …, n−1 -/
def below (n : Nat) : List Int := (List.range n).map fun (k : Nat) => (k : Int)

def yearOk (y : Int) : Bool := decide (1 ≤ y ∧ y ≤ 9999)

/-- the twelve months of a year -/
def monthsOfYear (y : Int) : List (Int × Int) := (upTo 12).map fun m => (y, m)
def seasonsOfYear (y : Int) : List (Int × Int) := (below 4).map fun s => (y, s)
def halvesOfYear (y : Int) : List (Int × Int) := (below 2).map fun h => (y, h)
/-- the months lying in a season / half-year, the seasons lying in a half-year: selected by membership -/
def monthsOfSeason (y s : Int) : List (Int × Int) := ((upTo 12).filter fun m => inSeason m s).map fun m => (y, m)
def monthsOfHalf (y h : Int) : List (Int × Int) := ((upTo 12).filter fun m => inHalf m h).map fun m => (y, m)
def seasonsOfHalf (y h : Int) : List (Int × Int) := ((below 4).filter fun s => seasonInHalf s h).map fun s => (y, s)
/-- the dates that exist in month (y, m), by day number -/
def datesOfMonth (y m : Int) : List (Int × Int × Int) := ((upTo 31).filter fun d => valid y m d).map fun d => (y, m, d)

/-- the 13 double-hour slots of a lunar day start where the slot number (h+1)/2 changes: 0:00, 1:00, 3:00, …, 23:00 -/
def slotStarts : List Int := (below 24).filter fun h => h == 0 || (h + 1) / 2 != h / 2

end Tyme.Civil
