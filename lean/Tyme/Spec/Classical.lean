/-
Independent first-principles encoding of the classical correspondence rules behind the stem, branch,
pillar and star attribute getters (property C19).  Nothing here is copied from the Rust arrays: every
table is either derived from a rule (element cycles, polarity, ten gods, growth stages, Nayin, decades)
or transcribed from the classical list / rhyme that the source itself quotes.  Short, meant to be read.

Indices (the library's, fixed by its public name lists):
  stems     甲0 乙1 丙2 丁3 戊4 己5 庚6 辛7 壬8 癸9
  branches  子0 丑1 寅2 卯3 辰4 巳5 午6 未7 申8 酉9 戌10 亥11      (animal i = 鼠牛虎兔龙蛇马羊猴鸡狗猪)
  elements  木0 火1 土2 金3 水4                                        polarity 阴0 阳1
  direction = Luoshu number − 1 of its trigram:
            坎北0 坤西南1 震东2 巽东南3 中4 乾西北5 兑西6 艮东北7 离南8
-/
namespace Tyme.Classical

/-! ## small list helpers (own definitions, so that nothing depends on library lemma names) -/

/-- value paired with key `k` in an association list (`d` if absent) -/
def assoc (l : List (Nat × Nat)) (k d : Nat) : Nat :=
  match l with
  | [] => d
  | (a, b) :: t => if a == k then b else assoc t k d

/-- key paired with value `v` (inverse look-up) -/
def assocInv (l : List (Nat × Nat)) (v d : Nat) : Nat :=
  match l with
  | [] => d
  | (a, b) :: t => if b == v then a else assocInv t v d

/-- the other member of the unordered pair containing `x` (`x` itself if in no pair) -/
def partner (l : List (Nat × Nat)) (x : Nat) : Nat :=
  match l with
  | [] => x
  | (a, b) :: t => if a == x then b else if b == x then a else partner t x

/-- position of the first pair containing `x` -/
def pairIndex (l : List (Nat × Nat)) (x : Nat) : Nat :=
  match l with
  | [] => 0
  | (a, b) :: t => if a == x || b == x then 0 else pairIndex t x + 1

/-- position of the first group containing `x` -/
def groupIndex (l : List (List Nat)) (x : Nat) : Nat :=
  match l with
  | [] => 0
  | g :: t => if g.contains x then 0 else groupIndex t x + 1

def nth (l : List Nat) (i d : Nat) : Nat := (l[i]?).getD d

/-- run-length expansion: `[(v, n), …]` ↦ v repeated n times, … -/
def expand (l : List (Nat × Nat)) : List Nat :=
  match l with
  | [] => []
  | (v, n) :: t => List.replicate n v ++ expand t

/-! ## names of the indices -/

def jia := 0  def yi := 1  def bing := 2  def ding := 3  def wu := 4
def ji := 5   def geng := 6  def xin := 7  def ren := 8  def gui := 9

def zi := 0   def chou := 1  def yin := 2  def mao := 3  def chen := 4   def si := 5
def wuB := 6  def wei := 7   def shen := 8 def you := 9  def xu := 10    def hai := 11

-- animals of the branches
def rat := zi  def ox := chou  def tiger := yin  def rabbit := mao  def dragon := chen  def snake := si
def horse := wuB  def goat := wei  def monkey := shen  def rooster := you  def dog := xu  def pig := hai

def wood := 0  def fire := 1  def earth := 2  def metal := 3  def water := 4

def yinP := 0  def yangP := 1

-- trigrams / directions by Luoshu number (1 坎, 2 坤, 3 震, 4 巽, 5 中, 6 乾, 7 兑, 8 艮, 9 离)
def kan := 1 - 1   /-- north -/      def north := kan
def kun := 2 - 1   /-- south-west -/ def southWest := kun
def zhen := 3 - 1  /-- east -/       def east := zhen
def xun := 4 - 1   /-- south-east -/ def southEast := xun
def centre := 5 - 1
def qian := 6 - 1  /-- north-west -/ def northWest := qian
def dui := 7 - 1   /-- west -/       def west := dui
def gen := 8 - 1   /-- north-east -/ def northEast := gen
def li := 9 - 1    /-- south -/      def south := li

/-! ## the five elements -/

/-- 相生: 木生火 火生土 土生金 金生水 水生木 -/
def generating : List (Nat × Nat) := [(wood, fire), (fire, earth), (earth, metal), (metal, water), (water, wood)]
/-- 相克: 木克土 土克水 水克火 火克金 金克木 -/
def overcoming : List (Nat × Nat) := [(wood, earth), (earth, water), (water, fire), (fire, metal), (metal, wood)]

def generates (e : Nat) : Nat := assoc generating e 99       -- 我生者
def overcomes (e : Nat) : Nat := assoc overcoming e 99       -- 我克者
def generatedBy (e : Nat) : Nat := assocInv generating e 99  -- 生我者
def overcomeBy (e : Nat) : Nat := assocInv overcoming e 99   -- 克我者

/-- 木东 火南 土中 金西 水北 -/
def elementDirection (e : Nat) : Nat := assoc [(wood, east), (fire, south), (earth, centre), (metal, west), (water, north)] e 99

/-- elements of the nine palaces: 坎水 坤土 震木 巽木 中土 乾金 兑金 艮土 离火 -/
def directionElement (d : Nat) : Nat :=
  assoc [(kan, water), (kun, earth), (zhen, wood), (xun, wood), (centre, earth), (qian, metal), (dui, metal), (gen, earth), (li, fire)] d 99

/-! ## stems -/

/-- 甲乙木 丙丁火 戊己土 庚辛金 壬癸水: stems pair up in order along the generating cycle from wood -/
def stemElement (s : Nat) : Nat := s / 2
/-- odd positions (甲 first) are Yang: 甲丙戊庚壬 阳, 乙丁己辛癸 阴 -/
def stemPolarity (s : Nat) : Nat := if s % 2 == 0 then yangP else yinP
def stemDirection (s : Nat) : Nat := elementDirection (stemElement s)

/-- 五合: 甲己 乙庚 丙辛 丁壬 戊癸 -/
def stemPairs : List (Nat × Nat) := [(jia, ji), (yi, geng), (bing, xin), (ding, ren), (wu, gui)]
/-- 合化: 甲己化土 乙庚化金 丙辛化水 丁壬化木 戊癸化火 (same order as `stemPairs`) -/
def stemPairElement : List Nat := [earth, metal, water, wood, fire]
def stemCombine (s : Nat) : Nat := partner stemPairs s
def stemCombineElement (s t : Nat) : Option Nat :=
  if stemCombine s == t then some (nth stemPairElement (pairIndex stemPairs s) 99) else none

/-- 喜神方位歌: 甲己在艮 乙庚乾 丙辛坤位 丁壬离宫 戊癸巽间 (one trigram per five-combination pair) -/
def joyDirection (s : Nat) : Nat := nth [gen, qian, kun, li, xun] (pairIndex stemPairs s) 99

/-- 阳贵神歌: 甲戊坤艮位 乙己是坤坎 庚辛居离艮 丙丁兑与乾 震巽属何日 壬癸贵神安
    (each line names two stems and, respectively, their two trigrams) -/
def yangNobleDirection (s : Nat) : Nat :=
  assoc [(jia, kun), (wu, gen), (yi, kun), (ji, kan), (geng, li), (xin, gen), (bing, dui), (ding, qian), (ren, zhen), (gui, xun)] s 99

/-- the compass sector (eight directions) in which a branch lies on the 24-mountain ring:
    子北 丑寅东北 卯东 辰巳东南 午南 未申西南 酉西 戌亥西北 -/
def branchSector (b : Nat) : Nat :=
  assoc [(zi, north), (chou, northEast), (yin, northEast), (mao, east), (chen, southEast), (si, southEast),
         (wuB, south), (wei, southWest), (shen, southWest), (you, west), (xu, northWest), (hai, northWest)] b 99

/-- 阴贵神歌: 甲戊见牛羊 乙己鼠猴乡 丙丁猪鸡位 壬癸蛇兔藏 庚辛逢虎马 (animals, respectively) -/
def yinNobleAnimal (s : Nat) : Nat :=
  assoc [(jia, ox), (wu, goat), (yi, rat), (ji, monkey), (bing, pig), (ding, rooster), (ren, snake), (gui, rabbit), (geng, tiger), (xin, horse)] s 99
def yinNobleDirection (s : Nat) : Nat := branchSector (yinNobleAnimal s)

/-- 财神方位歌: 甲乙东北 丙丁西南 戊己正北 庚辛正东 壬癸正南 (by element of the stem) -/
def wealthDirection (s : Nat) : Nat := nth [northEast, southWest, north, east, south] (stemElement s) 99

/-- 福神方位歌: 甲乙东南 丙丁正东 戊北己南 庚辛坤 壬在乾方癸在西 -/
def mascotDirection (s : Nat) : Nat :=
  assoc [(jia, southEast), (yi, southEast), (bing, east), (ding, east), (wu, north), (ji, south), (geng, kun), (xin, kun), (ren, qian), (gui, west)] s 99

/-- relation of another element to mine: 0 同我, 1 我生, 2 我克, 3 克我, 4 生我 -/
def relation (me other : Nat) : Nat :=
  if other == me then 0
  else if other == generates me then 1
  else if other == overcomes me then 2
  else if other == overcomeBy me then 3
  else if other == generatedBy me then 4
  else 99

/-- 十神: 比肩0 劫财1 食神2 伤官3 偏财4 正财5 七杀6 正官7 偏印8 正印9 — decided by the relation of the
    two elements and by same (even) / opposite (odd) polarity, nothing else -/
def tenStar (me other : Nat) : Nat :=
  2 * relation (stemElement me) (stemElement other) + (if stemPolarity me == stemPolarity other then 0 else 1)

/-- 长生 of each element (Yang stem): 木亥 火寅 土寅(火土同宫) 金巳 水申 -/
def birthBranchOfElement (e : Nat) : Nat := nth [hai, yin, yin, si, shen] e 99
/-- Yang stems are born where their element is born; a Yin stem is born where its Yang partner dies
    (阳死阴生; 死 is the eighth stage, seven steps after 长生) -/
def birthBranch (s : Nat) : Nat :=
  if stemPolarity s == yangP then birthBranchOfElement (stemElement s) else (birthBranchOfElement (stemElement s) + 7) % 12

/-- 长生十二神: 长生0 沐浴1 冠带2 临官3 帝旺4 衰5 病6 死7 墓8 绝9 胎10 养11 —
    counted forward from the birth branch for Yang stems, backward for Yin stems -/
def terrain (s b : Nat) : Nat :=
  if stemPolarity s == yangP then (b + 12 - birthBranch s) % 12 else (birthBranch s + 12 - b) % 12

/-! ## branches -/

/-- 寅卯(春)木 巳午(夏)火 申酉(秋)金 亥子(冬)水; the last branch of each season 辰未戌丑 is earth -/
def branchElement (b : Nat) : Nat :=
  if b % 3 == 1 then earth else nth [wood, fire, metal, water] (((b + 10) % 12) / 3) 99
def branchPolarity (b : Nat) : Nat := if b % 2 == 0 then yangP else yinP
def branchDirection (b : Nat) : Nat := elementDirection (branchElement b)
def zodiac (b : Nat) : Nat := b

/-- 地支藏干歌: 子癸; 丑己癸辛; 寅甲丙戊; 卯乙; 辰戊乙癸; 巳丙庚戊; 午丁己; 未己丁乙; 申庚壬戊; 酉辛; 戌戊辛丁; 亥壬甲
    (本气, 中气, 余气 in this order) -/
def hiddenStems (b : Nat) : List Nat :=
  (([ [gui], [ji, gui, xin], [jia, bing, wu], [yi], [wu, yi, gui], [bing, geng, wu],
      [ding, ji], [ji, ding, yi], [geng, ren, wu], [xin], [wu, xin, ding], [ren, jia] ] : List (List Nat))[b]?).getD []

/-- 六冲: 子午 丑未 寅申 卯酉 辰戌 巳亥 — the branch opposite on the ring -/
def clashPairs : List (Nat × Nat) := [(zi, wuB), (chou, wei), (yin, shen), (mao, you), (chen, xu), (si, hai)]
def clash (b : Nat) : Nat := (b + 6) % 12

/-- 六合: 子丑 寅亥 卯戌 辰酉 巳申 午未, 合化 土木火金水土 -/
def branchPairs : List (Nat × Nat) := [(zi, chou), (yin, hai), (mao, xu), (chen, you), (si, shen), (wuB, wei)]
def branchPairElement : List Nat := [earth, wood, fire, metal, water, earth]
def branchCombine (b : Nat) : Nat := partner branchPairs b
def branchCombineElement (b c : Nat) : Option Nat :=
  if branchCombine b == c then some (nth branchPairElement (pairIndex branchPairs b) 99) else none

/-- 六害: 子未 丑午 寅巳 卯辰 申亥 酉戌 -/
def harmPairs : List (Nat × Nat) := [(zi, wei), (chou, wuB), (yin, si), (mao, chen), (shen, hai), (you, xu)]
def harm (b : Nat) : Nat := partner harmPairs b

/-- 煞: 巳酉丑煞东 亥卯未煞西 申子辰煞南 寅午戌煞北 -/
def ominousGroups : List (List Nat) := [[si, you, chou], [hai, mao, wei], [shen, zi, chen], [yin, wuB, xu]]
def ominous (b : Nat) : Nat := nth [east, west, south, north] (groupIndex ominousGroups b) 99

/-! ## the sixty pillars -/

def pillarStem (p : Nat) : Nat := p % 10
def pillarBranch (p : Nat) : Nat := p % 12

/-- the pillar with stem `s` and branch `b`, if there is one: the six pillars with stem `s` are s, s+10, …, s+50
    (`C19_pillar_search` shows this is the same as searching all sixty) -/
def pillarOf (s b : Nat) : Option Nat := ((List.range 6).map (fun k => s + 10 * k)).find? (fun p => pillarBranch p == b)

/-- 纳音 by the counting rule: 甲乙1 丙丁2 戊己3 庚辛4 壬癸5; 子丑午未1 寅卯申酉2 辰巳戌亥3;
    add, cast out fives; 1木 2金 3水 4火 5土 -/
def nayinElement (p : Nat) : Nat :=
  let a := pillarStem p / 2 + 1
  let b := (pillarBranch p / 2) % 3 + 1
  nth [earth, wood, metal, water, fire] ((a + b) % 5) 99
/-- two consecutive pillars (Yang then Yin) share one of the thirty sounds -/
def nayinIndex (p : Nat) : Nat := p / 2

/-- 旬: 甲子0 甲戌1 甲申2 甲午3 甲辰4 甲寅5 — the decade opened by the latest 甲 pillar -/
def decade (p : Nat) : Nat := p / 10
/-- 旬空: the branches that no pillar of the decade uses -/
def voidBranches (p : Nat) : List Nat :=
  let used := (List.range 10).map (fun j => pillarBranch (10 * decade p + j))
  (List.range 12).filter (fun b => !used.contains b)

/-! ## stars -/

/-- luminaries in week order: 日0 月1 火2 水3 木4 金5 土6.
    角木蛟 亢金龙 氐土貉 房日兔 心月狐 尾火虎 箕水豹 | 斗木獬 牛金牛 女土蝠 虚日鼠 危月燕 室火猪 壁水獝 |
    奎木狼 娄金狗 胃土彘 昴日鸡 毕月乌 觜火猴 参水猿 | 井木犴 鬼金羊 柳土獐 星日马 张月鹿 翼火蛇 轸水蚓 -/
def mansionLuminary (i : Nat) : Nat :=
  let sun := 0; let moon := 1; let mars := 2; let mercury := 3; let jupiter := 4; let venus := 5; let saturn := 6
  nth (let q := [jupiter, venus, saturn, sun, moon, mars, mercury]; q ++ q ++ q ++ q) i 99

/-- 九野 (吕氏春秋·有始): 中央钧天 角亢氐; 东方苍天 房心尾; 东北变天 箕斗牛; 北方玄天 女虚危室; 西北幽天 壁奎娄;
    西方颢天 胃昴毕; 西南朱天 觜参井; 南方炎天 鬼柳星; 东南阳天 张翼轸.  A field is indexed by its direction. -/
def mansionLand (i : Nat) : Nat :=
  nth (expand [(centre, 3), (east, 3), (northEast, 3), (north, 4), (northWest, 3), (west, 3), (southWest, 3), (south, 3), (southEast, 3)]) i 99

/-- 四象: 东方青龙 角..箕, 北方玄武 斗..壁, 西方白虎 奎..参, 南方朱雀 井..轸 (zones 东0 北1 西2 南3) -/
def mansionZone (i : Nat) : Nat := i / 7
def zoneDirection (z : Nat) : Nat := nth [east, north, west, south] z 99

/-- 二十八宿吉凶 (吉0 凶1): 角吉亢凶氐凶房吉心凶尾吉箕吉 斗吉牛凶女凶虚凶危凶室吉壁吉 奎凶娄吉胃吉昴凶毕吉觜凶参吉 井吉鬼凶柳凶星凶张吉翼凶轸吉 -/
def mansionLuck (i : Nat) : Nat :=
  let good := 0; let bad := 1
  nth [good, bad, bad, good, bad, good, good,  good, bad, bad, bad, bad, good, good,
       bad, good, good, bad, good, bad, good,  good, bad, bad, bad, good, bad, good] i 99

/-- 九星: star n sits in palace n of the Luoshu and has that palace's element (一白水 二黑土 三碧木 四绿木 五黄土 六白金 七赤金 八白土 九紫火) -/
def nineStarDirection (i : Nat) : Nat := i
def nineStarElement (i : Nat) : Nat := directionElement i
def nineStarColor (i : Nat) : List Char := [(['白', '黑', '碧', '绿', '黄', '白', '赤', '白', '紫'] : List Char)[i]?.getD ' ']

/-- 黄道: 青龙0 明堂1 金匮4 天德5 玉堂7 司命10; the other six are 黑道 (黄道0 黑道1) -/
def twelveStarEcliptic (i : Nat) : Nat := if [0, 1, 4, 5, 7, 10].contains i then 0 else 1

/-- 小六壬: 大安 留连 速喜 赤口 小吉 空亡 alternate 吉/凶; elements 木 水 火 金 木 土 (as documented by the library's author) -/
def minorRenLuck (i : Nat) : Nat := i % 2
def minorRenElement (i : Nat) : Nat := nth [wood, water, fire, metal, wood, earth] i 99

/-! ## zodiac signs -/

/-- first day of each sign (month, day, sign): 白羊0 3/21, 金牛1 4/20, 双子2 5/21, 巨蟹3 6/22, 狮子4 7/23, 处女5 8/23,
    天秤6 9/23, 天蝎7 10/24, 射手8 11/23, 摩羯9 12/22, 水瓶10 1/20, 双鱼11 2/19 -/
def signStarts : List (Nat × Nat × Nat) :=
  [(3, 21, 0), (4, 20, 1), (5, 21, 2), (6, 22, 3), (7, 23, 4), (8, 23, 5), (9, 23, 6), (10, 24, 7), (11, 23, 8), (12, 22, 9), (1, 20, 10), (2, 19, 11)]

/-- a date belongs to the sign whose first day is the latest one not after it (Capricorn runs over the new year) -/
def constellation (m d : Nat) : Nat :=
  let begun := signStarts.filter (fun s => s.1 < m || (s.1 == m && s.2.1 ≤ d))
  match begun with
  | [] => 9
  | h :: t => (t.foldl (fun best s => if best.1 < s.1 || (best.1 == s.1 && best.2.1 < s.2.1) then s else best) h).2.2

/-- month lengths of a leap year (the 366 month-days) -/
def leapMonthLen (m : Nat) : Nat := nth [31, 29, 31, 30, 31, 30, 31, 31, 30, 31, 30, 31] (m - 1) 0

/-! ## foetus spirit -/

/-- 天干六甲胎神歌: 甲己门 乙庚碓磨 丙辛厨灶 丁壬仓库 戊癸房床 (one place per five-combination pair) -/
def fetusStem (s : Nat) : Nat := pairIndex stemPairs s
/-- 地支六甲胎神歌: 子午碓 丑未厕 寅申炉 卯酉门 辰戌栖 巳亥床 (one place per clash pair) -/
def fetusBranch (b : Nat) : Nat := pairIndex clashPairs b

/-- 逐日胎神方位, run lengths over the sixty days from 甲子: the spirit stays 6 days in a corner and 5 in a cardinal
    direction, going round 东南→南→西南→西→西北→北, spends 16 days indoors from 癸巳 (北5 中2 南3 西1 东4 中1),
    then 东北 6, 东 5, and is back in 东南 for the last four days.  (side 内0 外1, direction) -/
def fetusDayRuns : List ((Nat × Nat) × Nat) :=
  [((1, southEast), 2), ((1, south), 5), ((1, southWest), 6), ((1, west), 5), ((1, northWest), 6), ((1, north), 5),
   ((0, north), 5), ((0, centre), 2), ((0, south), 3), ((0, west), 1), ((0, east), 4), ((0, centre), 1),
   ((1, northEast), 6), ((1, east), 5), ((1, southEast), 4)]
def fetusDayPlace (p : Nat) : Nat × Nat :=
  ((fetusDayRuns.foldr (fun r acc => List.replicate r.2 r.1 ++ acc) [])[p]?).getD (9, 99)

/-- 逐月胎神: regular month m has the m-th entry; a leap month has none -/
def fetusMonth (m : Nat) (leap : Bool) : Option Nat := if leap then none else some (m - 1)

/-! ## signs derived from the eight characters -/

/-- 五虎遁: 甲己之年丙作首 乙庚之岁戊为头 丙辛必定寻庚起 丁壬壬位顺行流 戊癸甲寅好追求 — stem of the 寅 month -/
def firstMonthStem (yearStem : Nat) : Nat := nth [bing, wu, geng, ren, jia] (pairIndex stemPairs yearStem) 99
/-- months run 寅, 卯, …, 丑 within a year, the stem advancing by one each month -/
def monthNumber (b : Nat) : Nat := (b + 12 - yin) % 12 + 1           -- 寅1 … 丑12
def monthPillarIn (yearStem b : Nat) : Option Nat := pillarOf ((firstMonthStem yearStem + (monthNumber b - 1)) % 10) b

/-- 胎元: one stem after, three branches after the month pillar -/
def fetalOrigin (monthPillar : Nat) : Option Nat := pillarOf ((pillarStem monthPillar + 1) % 10) ((pillarBranch monthPillar + 3) % 12)
/-- 胎息: the pillar that combines with the day pillar (stem by 五合, branch by 六合) -/
def fetalBreath (dayPillar : Nat) : Option Nat := pillarOf (stemCombine (pillarStem dayPillar)) (branchCombine (pillarBranch dayPillar))

/-- 命宫 (掌诀): 子上起正月逆数至生月, 生月上起生时顺数至卯; its stem by 五虎遁 from the year stem -/
def ownSignBranch (monthBranch hourBranch : Nat) : Nat :=
  let start := (zi + 12 - (monthNumber monthBranch - 1)) % 12   -- palace of the birth month, counting backwards from 子
  let steps := (mao + 12 - hourBranch) % 12                     -- hours from the birth hour forward to 卯
  (start + steps) % 12
def ownSign (yearStem monthBranch hourBranch : Nat) : Option Nat := monthPillarIn yearStem (ownSignBranch monthBranch hourBranch)

/-- 身宫 (掌诀): 子上起正月顺数至生月, 生月上起生时逆数至酉; stem by 五虎遁 -/
def bodySignBranch (monthBranch hourBranch : Nat) : Nat :=
  let start := (zi + (monthNumber monthBranch - 1)) % 12
  let steps := (you + 12 - hourBranch) % 12
  (start + 12 - steps) % 12
def bodySign (yearStem monthBranch hourBranch : Nat) : Option Nat := monthPillarIn yearStem (bodySignBranch monthBranch hourBranch)

/-! ## name tables that are themselves the data -/

/-- 纳音歌: 甲子乙丑海中金 丙寅丁卯炉中火 戊辰己巳大林木 庚午辛未路旁土 壬申癸酉剑锋金 甲戌乙亥山头火 丙子丁丑涧下水 戊寅己卯城头土
    庚辰辛巳白蜡金 壬午癸未杨柳木 甲申乙酉泉中水 丙戌丁亥屋上土 戊子己丑霹雳火 庚寅辛卯松柏木 壬辰癸巳长流水 甲午乙未沙中金
    丙申丁酉山下火 戊戌己亥平地木 庚子辛丑壁上土 壬寅癸卯金箔金 甲辰乙巳覆灯火 丙午丁未天河水 戊申己酉大驿土 庚戌辛亥钗钏金
    壬子癸丑桑柘木 甲寅乙卯大溪水 丙辰丁巳沙中土 戊午己未天上火 庚申辛酉石榴木 壬戌癸亥大海水 -/
def soundNames : List (List Char) :=
  [['海','中','金'], ['炉','中','火'], ['大','林','木'], ['路','旁','土'], ['剑','锋','金'], ['山','头','火'],
   ['涧','下','水'], ['城','头','土'], ['白','蜡','金'], ['杨','柳','木'], ['泉','中','水'], ['屋','上','土'],
   ['霹','雳','火'], ['松','柏','木'], ['长','流','水'], ['沙','中','金'], ['山','下','火'], ['平','地','木'],
   ['壁','上','土'], ['金','箔','金'], ['覆','灯','火'], ['天','河','水'], ['大','驿','土'], ['钗','钏','金'],
   ['桑','柘','木'], ['大','溪','水'], ['沙','中','土'], ['天','上','火'], ['石','榴','木'], ['大','海','水']]

def elementOfChar (c : Char) : Nat :=
  if c == '木' then wood else if c == '火' then fire else if c == '土' then earth else if c == '金' then metal else if c == '水' then water else 99

/-- 逐月胎神歌: 正十二月在床房 二三九十门户中 四六十一灶勿犯 五甲七子八厕凶; the almanac's twelve entries -/
def fetusMonthNames : List (List Char) :=
  [['占','房','床'], ['占','户','窗'], ['占','门','堂'], ['占','厨','灶'], ['占','房','床'], ['占','床','仓'],
   ['占','碓','磨'], ['占','厕','户'], ['占','门','房'], ['占','房','床'], ['占','灶','炉'], ['占','房','床']]
def fetusStemNames : List (List Char) := [['门'], ['碓','磨'], ['厨','灶'], ['仓','库'], ['房','床']]
def fetusBranchNames : List (List Char) := [['碓'], ['厕'], ['炉'], ['门'], ['栖'], ['床']]

/-- the name lists that fix what an index means, by type number (type 24, the sixty pillars, is derived below) -/
def nameTables : List (List (List Char)) :=
  [
   -- 0 stem: 十天干
   [['甲'], ['乙'], ['丙'], ['丁'], ['戊'], ['己'], ['庚'], ['辛'], ['壬'], ['癸']],
   -- 1 branch: 十二地支
   [['子'], ['丑'], ['寅'], ['卯'], ['辰'], ['巳'], ['午'], ['未'], ['申'], ['酉'], ['戌'], ['亥']],
   -- 2 element: 五行 in generating order from wood
   [['木'], ['火'], ['土'], ['金'], ['水']],
   -- 3 direction: Luoshu 1..9: 坎北 坤西南 震东 巽东南 中 乾西北 兑西 艮东北 离南
   [['北'], ['西','南'], ['东'], ['东','南'], ['中'], ['西','北'], ['西'], ['东','北'], ['南']],
   -- 4 zodiac: 十二生肖 from 子
   [['鼠'], ['牛'], ['虎'], ['兔'], ['龙'], ['蛇'], ['马'], ['羊'], ['猴'], ['鸡'], ['狗'], ['猪']],
   -- 5 terrain: 长生十二神
   [['长','生'], ['沐','浴'], ['冠','带'], ['临','官'], ['帝','旺'], ['衰'], ['病'], ['死'], ['墓'], ['绝'], ['胎'], ['养']],
   -- 6 tenstar: 十神: 同我 我生 我克 克我 生我 × (同性, 异性)
   [['比','肩'], ['劫','财'], ['食','神'], ['伤','官'], ['偏','财'], ['正','财'], ['七','杀'], ['正','官'], ['偏','印'], ['正','印']],
   -- 7 ten: 六旬 by their first pillar
   [['甲','子'], ['甲','戌'], ['甲','申'], ['甲','午'], ['甲','辰'], ['甲','寅']],
   -- 8 sevenstar: 七曜 in week order
   [['日'], ['月'], ['火'], ['水'], ['木'], ['金'], ['土']],
   -- 9 land: 九野 by direction index: 北玄天 西南朱天 东苍天 东南阳天 中央钧天 西北幽天 西颢天 东北变天 南炎天
   [['玄','天'], ['朱','天'], ['苍','天'], ['阳','天'], ['钧','天'], ['幽','天'], ['颢','天'], ['变','天'], ['炎','天']],
   -- 10 zone: 四宫 in mansion order 角→轸
   [['东'], ['北'], ['西'], ['南']],
   -- 11 beast: 四象 of the zones 东 北 西 南
   [['青','龙'], ['玄','武'], ['白','虎'], ['朱','雀']],
   -- 12 animal: 二十八宿禽星 角木蛟 … 轸水蚓
   [['蛟'], ['龙'], ['貉'], ['兔'], ['狐'], ['虎'], ['豹'], ['獬'], ['牛'], ['蝠'], ['鼠'], ['燕'], ['猪'], ['獝'], ['狼'], ['狗'], ['彘'], ['鸡'], ['乌'], ['猴'], ['猿'
     ], ['犴'], ['羊'], ['獐'], ['马'], ['鹿'], ['蛇'], ['蚓']],
   -- 13 mansion: 二十八宿
   [['角'], ['亢'], ['氐'], ['房'], ['心'], ['尾'], ['箕'], ['斗'], ['牛'], ['女'], ['虚'], ['危'], ['室'], ['壁'], ['奎'], ['娄'], ['胃'], ['昴'], ['毕'], ['觜'], ['参'
     ], ['井'], ['鬼'], ['柳'], ['星'], ['张'], ['翼'], ['轸']],
   -- 14 luck
   [['吉'], ['凶']],
   -- 15 constellation: 黄道十二宫 from Aries
   [['白','羊'], ['金','牛'], ['双','子'], ['巨','蟹'], ['狮','子'], ['处','女'], ['天','秤'], ['天','蝎'], ['射','手'], ['摩','羯'], ['水','瓶'], ['双','鱼']],
   -- 16 minorren: 小六壬
   [['大','安'], ['留','连'], ['速','喜'], ['赤','口'], ['小','吉'], ['空','亡']],
   -- 17 twelvestar: 黄道黑道十二神
   [['青','龙'], ['明','堂'], ['天','刑'], ['朱','雀'], ['金','匮'], ['天','德'], ['白','虎'], ['玉','堂'], ['天','牢'], ['玄','武'], ['司','命'], ['勾','陈']],
   -- 18 ecliptic
   [['黄','道'], ['黑','道']],
   -- 19 dipper: 北斗九星
   [['天','枢'], ['天','璇'], ['天','玑'], ['天','权'], ['玉','衡'], ['开','阳'], ['摇','光'], ['洞','明'], ['隐','元']],
   -- 20 ninestar: 九星 numbers
   [['一'], ['二'], ['三'], ['四'], ['五'], ['六'], ['七'], ['八'], ['九']],
   -- 21 yinyang: codes 0, 1
   [['阴'], ['阳']],
   -- 22 side: codes 0, 1
   [['内'], ['外']],
   -- 23 hidetype: codes 0, 1, 2
   [['余','气'], ['中','气'], ['本','气']]
  ]

/-- number of names of type `t` -/
def nameCount (t : Nat) : Nat := if t == 24 then 60 else (nameTables[t]?.getD []).length
/-- name `i` of type `t`; a pillar is named by its stem followed by its branch -/
def nameOf (t i : Nat) : List Char :=
  let get (t i : Nat) : List Char := (nameTables[t]?.getD [])[i]?.getD []
  if t == 24 then get 0 (pillarStem i) ++ get 1 (pillarBranch i) else get t i

/-! ## families: one per getter (group); `answer` is the canonical integer line of a family at an argument tuple -/

inductive Fam where
  | stemElement | stemYinYang | stemDirection | stemJoy | stemYang | stemYin | stemWealth | stemMascot
  | stemTerrain | stemTenStar | stemCombine | stemCombine2
  | branchElement | branchYinYang | branchHide | branchHideList | branchZodiac | branchDirection | branchOpposite
  | branchOminous | branchCombine | branchCombine2 | branchHarm
  | cycleParts | cycleSound | cycleTen | cycleExtra | cyclePengZu
  | elementCycle | elementDirection | directionElement | landDirection | zoneAttr
  | mansionAttr | nineStarAttr | twelveStarEcliptic | eclipticLuck | minorRenAttr
  | fetusDay | fetusMonth | dayConstellation
  | ecOrigin | ecBreath | ecOwn | ecBody
  | nameSound | nameFetusMonth | nameFetusStem | nameFetusBranch | nameNineColor | nameOf
  deriving DecidableEq, Repr

def Fam.all : List Fam :=
  [.stemElement, .stemYinYang, .stemDirection, .stemJoy, .stemYang, .stemYin, .stemWealth, .stemMascot,
   .stemTerrain, .stemTenStar, .stemCombine, .stemCombine2,
   .branchElement, .branchYinYang, .branchHide, .branchHideList, .branchZodiac, .branchDirection, .branchOpposite,
   .branchOminous, .branchCombine, .branchCombine2, .branchHarm,
   .cycleParts, .cycleSound, .cycleTen, .cycleExtra, .cyclePengZu,
   .elementCycle, .elementDirection, .directionElement, .landDirection, .zoneAttr,
   .mansionAttr, .nineStarAttr, .twelveStarEcliptic, .eclipticLuck, .minorRenAttr,
   .fetusDay, .fetusMonth, .dayConstellation,
   .ecOrigin, .ecBreath, .ecOwn, .ecBody,
   .nameSound, .nameFetusMonth, .nameFetusStem, .nameFetusBranch, .nameNineColor, .nameOf]

/-- op / stream name of the family (same text as the harness) -/
def Fam.name : Fam → String
  | .stemElement => "stem.element" | .stemYinYang => "stem.yinyang" | .stemDirection => "stem.direction"
  | .stemJoy => "stem.joy" | .stemYang => "stem.yang" | .stemYin => "stem.yin" | .stemWealth => "stem.wealth"
  | .stemMascot => "stem.mascot" | .stemTerrain => "stem.terrain" | .stemTenStar => "stem.tenstar"
  | .stemCombine => "stem.combine" | .stemCombine2 => "stem.combine2"
  | .branchElement => "branch.element" | .branchYinYang => "branch.yinyang" | .branchHide => "branch.hide"
  | .branchHideList => "branch.hidelist" | .branchZodiac => "branch.zodiac" | .branchDirection => "branch.direction"
  | .branchOpposite => "branch.opposite" | .branchOminous => "branch.ominous" | .branchCombine => "branch.combine"
  | .branchCombine2 => "branch.combine2" | .branchHarm => "branch.harm"
  | .cycleParts => "cycle.parts" | .cycleSound => "cycle.sound" | .cycleTen => "cycle.ten" | .cycleExtra => "cycle.extra"
  | .cyclePengZu => "cycle.pengzu"
  | .elementCycle => "element.cycle" | .elementDirection => "element.direction" | .directionElement => "direction.element"
  | .landDirection => "land.direction" | .zoneAttr => "zone.attr"
  | .mansionAttr => "mansion.attr" | .nineStarAttr => "ninestar.attr" | .twelveStarEcliptic => "twelvestar.ecliptic"
  | .eclipticLuck => "ecliptic.luck" | .minorRenAttr => "minorren.attr"
  | .fetusDay => "fetus.day" | .fetusMonth => "fetus.month" | .dayConstellation => "day.constellation"
  | .ecOrigin => "ec.origin" | .ecBreath => "ec.breath" | .ecOwn => "ec.own" | .ecBody => "ec.body"
  | .nameSound => "name.sound" | .nameFetusMonth => "name.fetusmonth" | .nameFetusStem => "name.fetusstem"
  | .nameFetusBranch => "name.fetusbranch" | .nameNineColor => "name.ninecolor" | .nameOf => "name.of"

/-- sizes of the argument ranges (arguments are 0-based indices) -/
def Fam.dims : Fam → List Nat
  | .stemElement | .stemYinYang | .stemDirection | .stemJoy | .stemYang | .stemYin | .stemWealth | .stemMascot
  | .stemCombine => [10]
  | .stemTerrain => [10, 12] | .stemTenStar | .stemCombine2 => [10, 10]
  | .branchElement | .branchYinYang | .branchHide | .branchHideList | .branchZodiac | .branchDirection
  | .branchOpposite | .branchOminous | .branchCombine | .branchHarm => [12]
  | .branchCombine2 => [12, 12]
  | .cycleParts | .cycleSound | .cycleTen | .cycleExtra | .cyclePengZu | .fetusDay | .ecOrigin | .ecBreath => [60]
  | .elementCycle | .elementDirection => [5]
  | .directionElement | .landDirection | .nineStarAttr | .nameNineColor => [9]
  | .zoneAttr => [4] | .mansionAttr => [28] | .twelveStarEcliptic => [12] | .eclipticLuck => [2] | .minorRenAttr => [6]
  | .fetusMonth => [13] | .dayConstellation => [12, 31]
  | .ecOwn | .ecBody => [10, 12, 12]
  | .nameSound => [30] | .nameFetusMonth => [12] | .nameFetusStem => [5] | .nameFetusBranch => [6]
  | .nameOf => [25, 60]

/-- all tuples of the box `dims`, in lexicographic order -/
def box : List Nat → List (List Nat)
  | [] => [[]]
  | n :: t => (List.range n).flatMap (fun i => (box t).map (fun r => i :: r))

/-- the complete domain of a family, in the order of the stream `c19.ext`
    (`day.constellation`: only the 366 month-days that exist; arguments are month−1, day−1;
     `name.of`: type t, index i below the number of names of that type) -/
def Fam.args (f : Fam) : List (List Nat) :=
  match f with
  | .dayConstellation => (box f.dims).filter (fun a => match a with | [m, d] => d + 1 ≤ leapMonthLen (m + 1) | _ => false)
  | .nameOf => (box f.dims).filter (fun a => match a with | [t, i] => i < nameCount t | _ => false)
  | _ => box f.dims

def optI : Option Nat → Int
  | some v => v
  | none => -1

def natsI (l : List Nat) : List Int := l.map Int.ofNat
def charsI (l : List Char) : List Int := l.map (fun c => Int.ofNat c.toNat)

/-- 余气0 中气1 本气2 -/
def hideTypes : List Nat := [2, 1, 0]

/-- THE SPECIFICATION: canonical answer of family `f` at argument tuple `a` -/
def answer (f : Fam) (a : List Nat) : List Int :=
  match f, a with
  | .stemElement, [s] => natsI [stemElement s]
  | .stemYinYang, [s] => natsI [stemPolarity s]
  | .stemDirection, [s] => natsI [stemDirection s]
  | .stemJoy, [s] => natsI [joyDirection s]
  | .stemYang, [s] => natsI [yangNobleDirection s]
  | .stemYin, [s] => natsI [yinNobleDirection s]
  | .stemWealth, [s] => natsI [wealthDirection s]
  | .stemMascot, [s] => natsI [mascotDirection s]
  | .stemTerrain, [s, b] => natsI [terrain s b]
  | .stemTenStar, [s, t] => natsI [tenStar s t]
  | .stemCombine, [s] => natsI [stemCombine s]
  | .stemCombine2, [s, t] => [optI (stemCombineElement s t)]
  | .branchElement, [b] => natsI [branchElement b]
  | .branchYinYang, [b] => natsI [branchPolarity b]
  | .branchHide, [b] => let h := hiddenStems b; [optI h[0]?, optI h[1]?, optI h[2]?]
  | .branchHideList, [b] => natsI ((hiddenStems b).zip hideTypes |>.flatMap (fun p => [p.1, p.2]))
  | .branchZodiac, [b] => natsI [zodiac b]
  | .branchDirection, [b] => natsI [branchDirection b]
  | .branchOpposite, [b] => natsI [clash b]
  | .branchOminous, [b] => natsI [ominous b]
  | .branchCombine, [b] => natsI [branchCombine b]
  | .branchCombine2, [b, c] => [optI (branchCombineElement b c)]
  | .branchHarm, [b] => natsI [harm b]
  | .cycleParts, [p] => natsI [pillarStem p, pillarBranch p]
  | .cycleSound, [p] => natsI [nayinIndex p, nayinElement p]
  | .cycleTen, [p] => natsI [decade p]
  | .cycleExtra, [p] => natsI (voidBranches p)
  | .cyclePengZu, [p] => natsI [pillarStem p, pillarBranch p]
  | .elementCycle, [e] => natsI [generates e, overcomes e, generatedBy e, overcomeBy e]
  | .elementDirection, [e] => natsI [elementDirection e]
  | .directionElement, [d] => natsI [directionElement d]
  | .landDirection, [l] => natsI [l]
  | .zoneAttr, [z] => natsI [zoneDirection z, z]
  | .mansionAttr, [i] => natsI [mansionLuminary i, mansionLand i, mansionZone i, i, mansionLuck i]
  | .nineStarAttr, [i] => natsI [nineStarElement i, i, nineStarDirection i]
  | .twelveStarEcliptic, [i] => natsI [twelveStarEcliptic i, twelveStarEcliptic i]
  | .eclipticLuck, [i] => natsI [i]
  | .minorRenAttr, [i] => natsI [minorRenLuck i, minorRenElement i]
  | .fetusDay, [p] => natsI [fetusStem (pillarStem p), fetusBranch (pillarBranch p), (fetusDayPlace p).1, (fetusDayPlace p).2]
  | .fetusMonth, [k] => [optI (if k == 12 then fetusMonth 2 true else fetusMonth (k + 1) false)]
  | .dayConstellation, [m, d] => natsI [constellation (m + 1) (d + 1)]
  | .ecOrigin, [p] => [optI (fetalOrigin p)]
  | .ecBreath, [p] => [optI (fetalBreath p)]
  | .ecOwn, [y, m, h] => [optI (ownSign y m h)]
  | .ecBody, [y, m, h] => [optI (bodySign y m h)]
  | .nameSound, [i] => charsI (soundNames[i]?.getD [])
  | .nameFetusMonth, [i] => charsI (fetusMonthNames[i]?.getD [])
  | .nameFetusStem, [i] => charsI (fetusStemNames[i]?.getD [])
  | .nameFetusBranch, [i] => charsI (fetusBranchNames[i]?.getD [])
  | .nameNineColor, [i] => charsI (nineStarColor i)
  | .nameOf, [t, i] => charsI (nameOf t i)
  | _, _ => []

/-- the whole extension of a family according to the specification -/
def table (f : Fam) : List (List Int) := f.args.map (answer f)

end Tyme.Classical
