import Tyme.Model.Festival
import Tyme.Spec.Festival
/-
Record-level reading of lunar festivals over the abstract calendar `Cal` (no regular expressions):
what each kind of record means, by index and by date.
-/
namespace Tyme.FestSpec
open Tyme.Fest

/-- the festival a record denotes in lunar year `y` -/
def lunarRecEval (C : Cal) (y : Int) : LunarRec → Res LunarFest
  | .day idx m d => if C.valid y m d then .found ⟨idx, 0, y, m, d, -1⟩ else .refused
  | .term idx t =>
    match C.termLunar y t with
    | none => .refused
    | some l => .found ⟨idx, 1, l.1, l.2.1, l.2.2, indexOf t 24⟩
  | .eve idx =>
    if C.valid (y + 1) 1 1 then
      match C.step (y + 1, 1, 1) (-1) with
      | none => .refused
      | some l => .found ⟨idx, 2, l.1, l.2.1, l.2.2, -1⟩
    else .refused

/-- by index: the record at that position of the list -/
def lunarAt (C : Cal) (recs : List LunarRec) (y i : Int) : Res LunarFest :=
  if i < 0 then .refused else
  match recs[i.toNat]? with
  | some r => lunarRecEval C y r
  | none => .absent

def dayIdxOf (m d : Int) : LunarRec → Option Nat
  | .day idx m' d' => if (m' : Int) = m ∧ (d' : Int) = d then some idx else none
  | _ => none

def termOf : LunarRec → Option (Nat × Nat)
  | .term idx t => some (idx, t)
  | _ => none

def eveOf : LunarRec → Option Nat
  | .eve idx => some idx
  | _ => none

/-- the term records, in list order: the first whose term day of lunar-calendar year `y` is the date -/
def termLoopSpec (C : Cal) (y m d : Int) : List (Nat × Nat) → Res LunarFest
  | [] => .absent
  | (idx, t) :: rest =>
    match C.termLunar y t with
    | none => .refused
    | some l =>
      if l.1 == y && l.2.1 == m && l.2.2 == d then .found ⟨idx, 1, l.1, l.2.1, l.2.2, indexOf t 24⟩
      else termLoopSpec C y m d rest

/-- by date: fixed-date records first, then term records, then New Year's Eve (the order of the code) -/
def lunarOn (C : Cal) (recs : List LunarRec) (y m d : Int) : Res LunarFest :=
  match recs.findSome? (dayIdxOf m d) with
  | some idx => if C.valid y m d then .found ⟨idx, 0, y, m, d, -1⟩ else .refused
  | none =>
    match termLoopSpec C y m d (recs.filterMap termOf) with
    | .refused => .refused
    | .found f => .found f
    | .absent =>
      match recs.findSome? eveOf with
      | none => .absent
      | some idx =>
        if C.valid y m d then
          match C.step (y, m, d) 1 with
          | none => .refused
          | some nx => if nx.2.1 == 1 && nx.2.2 == 1 then .found ⟨idx, 2, y, m, d, -1⟩ else .absent
        else .refused

end Tyme.FestSpec
