/-!
Specification of stepping (C11), from first principles; independent of the code's arithmetic.

* A cycle of `size` elements 0..size-1: stepping by `n` wraps modulo `size` (mathematical, non-negative remainder).
* A linear unit with `size` parts per year: part `i` of year `y` sits at global position `size*y + i`; stepping by `n`
  is the unit at position `+ n`, provided the supported range `ok` contains it (otherwise the step is refused).
* A name list: `nameOf i` and `indexOfName` are mutually inverse, unknown names are refused.
Core Lean only (linked into the driver).
-/
namespace Tyme.Step

/-- element reached from element `i` by `n` steps round a cycle of `size` elements -/
def cyc (size : Nat) (i n : Int) : Int := (i + n) % (size : Int)

/-- element denoted by an arbitrary integer index -/
def cycOf (size : Nat) (k : Int) : Int := k % (size : Int)

/-- global position of part `i` of year `y` -/
def pos (size : Nat) (y i : Int) : Int := y * (size : Int) + i

/-- the (year, part) at a global position -/
def unitAt (size : Nat) (p : Int) : Int × Int := (p / (size : Int), p % (size : Int))

/-- stepping a linear unit: the unit `n` positions further, if it is in the supported range -/
def lin (size : Nat) (ok : Int → Int → Bool) (y i n : Int) : Option (Int × Int) :=
  let r := unitAt size (pos size y i + n)
  if ok r.1 r.2 then some r else none

/-- stepping a year -/
def year (ok : Int → Bool) (y n : Int) : Option Int := if ok (y + n) then some (y + n) else none

/-- a valid state of a linear unit -/
def validPart (size : Nat) (ok : Int → Int → Bool) (y i : Int) : Prop := 0 ≤ i ∧ i < (size : Int) ∧ ok y i = true

end Tyme.Step
