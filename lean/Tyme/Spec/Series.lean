/-
C15 specification — the term-anchored day series, from first principles. Meant to be read.

Everything is stated on DAY NUMBERS (one integer per civil day, consecutive days differ by 1) and on
`T : Nat → Int`, the day of the g-th solar term of one global sequence (g = 24·(year − 1) + index, index 0 =
winter solstice of the preceding December, 1 = Xiaohan, 3 = Lichun, … 11 = Grain in Ear, 12 = summer solstice,
13 = Slight Heat, 15 = Start of Autumn, … 23 = Daxue; odd indices are the Jie that begin the months).
The sexagenary pillar of day j is (j + 49) mod 60 (C07), so its heavenly stem is (j + 49) mod 10
(0 = Jia, 2 = Bing, 6 = Geng) and its earthly branch (j + 49) mod 12 (7 = Wei).

Shares nothing with the model of the Rust code (Model/Series.lean); no civil years, no packed strings.
No imports (linked into the driver).
-/
namespace Tyme.SeriesSpec

def stemOf (j : Int) : Int := (j + 49) % 10
def branchOf (j : Int) : Int := (j + 49) % 12

/-! ### "the first / the n-th day on or after s such that …" -/

/-- j is the first day on or after s with property p -/
def IsFirst (p : Int → Bool) (s j : Int) : Prop := s ≤ j ∧ p j = true ∧ ∀ i, s ≤ i → i < j → p i = false

/-- j is the (n+1)-th day on or after s with property p: the first one for n = 0, and each further one is the
first after the one before -/
def IsNth (p : Int → Bool) (s : Int) : Nat → Int → Prop
  | 0, j => IsFirst p s j
  | n+1, j => ∃ j', IsNth p s n j' ∧ IsFirst p (j' + 1) j

/-- executable search: the first day with p among s, s+1, …, s+n−1 -/
def firstFrom (p : Int → Bool) (s : Int) : Nat → Option Int
  | 0 => none
  | n+1 => if p s then some s else firstFrom p (s + 1) n

/-- executable: the (n+1)-th such day, each search limited to 60 days (a stem recurs within 10, a branch within 12) -/
def nthFrom (p : Int → Bool) (s : Int) : Nat → Option Int
  | 0 => firstFrom p s 60
  | n+1 => match nthFrom p s n with
           | none => none
           | some j' => firstFrom p (j' + 1) 60

def isGeng (j : Int) : Bool := stemOf j == 6
def isBing (j : Int) : Bool := stemOf j == 2
def isWei (j : Int) : Bool := branchOf j == 7

/-! ### anchors -/

/-- g is the latest term of kind r (index r of its year) that starts on or before day j: the next one of the
kind, a year (24 terms) later, starts after j -/
def IsLatestKind (T : Nat → Int) (r : Nat) (j : Int) (g : Nat) : Prop := g % 24 = r ∧ T g ≤ j ∧ j < T (g + 24)

/-- g is the latest term (of any kind) that starts on or before day j -/
def IsLatest (T : Nat → Int) (j : Int) (g : Nat) : Prop := T g ≤ j ∧ j < T (g + 1)

/-! ### Nines (数九): the 81 days from each winter-solstice day, nine blocks of nine; nothing else -/

/-- day j is day i (0-based) of the k-th Nine (0-based), counted from the winter solstice with global index g -/
def IsNineOf (T : Nat → Int) (g : Nat) (j k i : Int) : Prop :=
  g % 24 = 0 ∧ 0 ≤ k ∧ k < 9 ∧ 0 ≤ i ∧ i < 9 ∧ j = T g + 9 * k + i

/-- function form, from the latest winter-solstice day w on or before j -/
def nineAt (w j : Int) : Option (Int × Int) := if j - w < 81 then some ((j - w) / 9, (j - w) % 9) else none

/-! ### Dog days (三伏): from the third Geng day on or after the summer-solstice day s:
ten days (first, 0), then the middle period (1) of ten days — or twenty when the fifth Geng day still precedes
the Start-of-Autumn day l — then ten days (last, 2). Nothing else is a Dog day. -/

/-- relational form for one year's solstice day s and Start-of-Autumn day l -/
def IsDogOf (s l j k i : Int) : Prop :=
  ∃ g3 g5, IsNth isGeng s 2 g3 ∧ IsNth isGeng s 4 g5 ∧ 0 ≤ i ∧
    ((k = 0 ∧ i < 10 ∧ j = g3 + i) ∨
     (k = 1 ∧ i < (if g5 < l then 20 else 10) ∧ j = g3 + 10 + i) ∨
     (k = 2 ∧ i < 10 ∧ j = g3 + 10 + (if g5 < l then 20 else 10) + i))

/-- function form -/
def dogAt (s l j : Int) : Option (Int × Int) :=
  match nthFrom isGeng s 2, nthFrom isGeng s 4 with
  | some g3, some g5 =>
    let mid : Int := if g5 < l then 20 else 10
    if j < g3 then none
    else if j < g3 + 10 then some (0, j - g3)
    else if j < g3 + 10 + mid then some (1, j - (g3 + 10))
    else if j < g3 + 20 + mid then some (2, j - (g3 + 10 + mid))
    else none
  | _, _ => none

/-! ### Plum rains (梅雨): entered on the first Bing day on or after the Grain-in-Ear day m, left on the first
Wei day on or after the Slight-Heat day h. The library reports the days from the entering day up to the day
before the leaving day as "entering plum rains (入梅, 0), day 0, 1, 2, …" and the leaving day itself as
"leaving plum rains (出梅, 1), day 0"; every other day is none. -/

def IsPlumOf (m h j k i : Int) : Prop :=
  ∃ a b, IsFirst isBing m a ∧ IsFirst isWei h b ∧
    ((k = 0 ∧ a ≤ j ∧ j < b ∧ i = j - a) ∨ (k = 1 ∧ j = b ∧ i = 0))

def plumAt (m h j : Int) : Option (Int × Int) :=
  match firstFrom isBing m 60, firstFrom isWei h 60 with
  | some a, some b => if j < a ∨ b < j then none else if j = b then some (1, 0) else some (0, j - a)
  | _, _ => none

/-! ### Pentads (七十二候): three per term — days 0–4, 5–9 and 10+ of the term of the day; 72 in all -/

/-- (pentad 0..71, which of the three, day inside the pentad) for the day that is n days into the term of index r -/
def pentadAt (r : Nat) (n : Int) : Int × Int × Int :=
  let q := if n / 5 < 2 then n / 5 else 2
  (3 * (r : Int) + q, q, n - 5 * q)

/-! ### Commanding stem (人元司令分野): each month — from its Jie day to the next — is allotted to the stems
hidden in the month's branch, in the classical order residual qi (余气) → middle qi (中气) → main qi (本气),
for fixed numbers of days counted from the Jie day; the main qi commands whatever remains of the month.
The table is the traditional one (渊海子平 / 三命通会); stems: 0 甲 1 乙 2 丙 3 丁 4 戊 5 己 6 庚 7 辛 8 壬 9 癸.
The day count of the last entry is the nominal one (the allotments of a month sum to 30). -/

/-- month that starts at the Jie of index r (1 = Xiaohan: Chou 丑, 3 = Lichun: Yin 寅, …, 23 = Daxue: Zi 子) -/
def allotment (r : Nat) : List (Int × Int) :=
  match r with
  | 3  => [(4, 7), (2, 7), (0, 16)]     -- 寅: 戊 7, 丙 7, 甲 16
  | 5  => [(0, 10), (1, 20)]            -- 卯: 甲 10, 乙 20
  | 7  => [(1, 9), (9, 3), (4, 18)]     -- 辰: 乙 9, 癸 3, 戊 18
  | 9  => [(4, 5), (6, 9), (2, 16)]     -- 巳: 戊 5, 庚 9, 丙 16
  | 11 => [(2, 10), (5, 9), (3, 11)]    -- 午: 丙 10, 己 9, 丁 11
  | 13 => [(3, 9), (1, 3), (5, 18)]     -- 未: 丁 9, 乙 3, 己 18
  | 15 => [(4, 10), (8, 3), (6, 17)]    -- 申: 戊(己) 10, 壬 3, 庚 17
  | 17 => [(6, 10), (7, 20)]            -- 酉: 庚 10, 辛 20
  | 19 => [(7, 9), (3, 3), (4, 18)]     -- 戌: 辛 9, 丁 3, 戊 18
  | 21 => [(4, 7), (0, 5), (8, 18)]     -- 亥: 戊 7, 甲 5, 壬 18
  | 23 => [(8, 10), (9, 20)]            -- 子: 壬 10, 癸 20
  | 1  => [(9, 9), (7, 3), (5, 18)]     -- 丑: 癸 9, 辛 3, 己 18
  | _  => []

/-- walk the allotment: n days after the start of the current entry; `pos` = entries passed.
The last entry (main qi, type 2) takes every remaining day. Result (stem, type, day inside the allotment). -/
def commandAt : List (Int × Int) → Int → Int → Option (Int × Int × Int)
  | [], _, _ => none
  | (s, c) :: rest, pos, n =>
    if rest.isEmpty then some (s, 2, n)
    else if n < c then some (s, pos, n) else commandAt rest (pos + 1) (n - c)

/-- days allotted by a list of entries -/
def total : List (Int × Int) → Int
  | [] => 0
  | e :: r => e.2 + total r

/-- relational form: in a month with allotment list L, n days after the Jie day, stem s (of type ty) is in command
and the day is day d (0-based) of its allotment: the entries before it are used up exactly, d lies inside its own
count — or it is the last entry (main qi, type 2), which takes all remaining days -/
def Commands (L : List (Int × Int)) (n s ty d : Int) : Prop :=
  ∃ pre c post, L = pre ++ (s, c) :: post ∧ d = n - total pre ∧ 0 ≤ d ∧
    ((post = [] ∧ ty = 2) ∨ (post ≠ [] ∧ ty = pre.length ∧ d < c))

/-- relational form of the pentads: three per term — days 0–4, 5–9, 10 and later -/
def InPentad (r : Nat) (n p q d : Int) : Prop :=
  p = 3 * (r : Int) + q ∧ d = n - 5 * q ∧
    ((q = 0 ∧ 0 ≤ n ∧ n ≤ 4) ∨ (q = 1 ∧ 5 ≤ n ∧ n ≤ 9) ∨ (q = 2 ∧ 10 ≤ n))

/-- the Jie on or before: the latest term of odd index -/
def jieOf (g : Nat) : Nat := if g % 2 = 1 then g else g - 1

end Tyme.SeriesSpec
