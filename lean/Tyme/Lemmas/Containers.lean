import Tyme.Model.Containers
import Tyme.Spec.Containers
import Tyme.Thm.C01
import Tyme.Lemmas.Lunar
import Tyme.Lemmas.Clock
import Tyme.Thm.C08
import Tyme.Thm.C12
/-! Helper lemmas for C13 (containers list exactly their parts). -/
namespace Tyme.Cont
open Tyme

/-! ### `collect` -/

theorem collect_map_some {α β : Type} (f : α → Option β) (g : α → β) :
    ∀ (l : List α), (∀ x ∈ l, f x = some (g x)) → collect (l.map f) = some (l.map g) := by
  intro l
  induction l with
  | nil => intro _; rfl
  | cons a t ih =>
    intro h
    have ha := h a (by simp)
    have ht := ih (fun x hx => h x (by simp [hx]))
    simp only [List.map, collect, ha, ht]

theorem collect_some_length {α : Type} : ∀ (l : List (Option α)) (r : List α), collect l = some r → r.length = l.length := by
  intro l
  induction l with
  | nil => intro r h; simp [collect] at h; subst h; rfl
  | cons a t ih =>
    intro r h
    cases a with
    | none => simp [collect] at h
    | some a =>
      simp only [collect] at h
      cases ht : collect t with
      | none => simp [ht] at h
      | some l =>
        simp only [ht, Option.some.injEq] at h
        subst h
        simp [ih l ht]

/-- every pushed value was constructed -/
theorem collect_some_get {α : Type} : ∀ (l : List (Option α)) (r : List α), collect l = some r →
    ∀ i (h1 : i < l.length) (h2 : i < r.length), l[i] = some r[i] := by
  intro l
  induction l with
  | nil => intro r _ i h1; simp at h1
  | cons a t ih =>
    intro r h i h1 h2
    cases a with
    | none => simp [collect] at h
    | some a =>
      simp only [collect] at h
      cases ht : collect t with
      | none => simp [ht] at h
      | some l =>
        simp only [ht, Option.some.injEq] at h
        subst h
        cases i with
        | zero => rfl
        | succ i =>
          simp only [List.getElem_cons_succ]
          exact ih l ht i (by simpa using h1) (by simpa using h2)

/-! ### ranges -/

theorem rangeI_eq_upTo (n : Nat) : rangeI 1 ((n : Int) + 1) = Civil.upTo n := by
  unfold rangeI Civil.upTo
  have : ((n : Int) + 1 - 1).toNat = n := by omega
  rw [this]
  apply List.map_congr_left
  intro k _
  omega

theorem mem_upTo (n : Nat) (d : Int) : d ∈ Civil.upTo n ↔ 1 ≤ d ∧ d ≤ n := by
  unfold Civil.upTo
  simp only [List.mem_map, List.mem_range]
  constructor
  · rintro ⟨k, hk, rfl⟩; omega
  · rintro ⟨h1, h2⟩; exact ⟨(d - 1).toNat, by omega, by omega⟩

theorem upTo_length (n : Nat) : (Civil.upTo n).length = n := by simp [Civil.upTo]

theorem upTo_get (n : Nat) (i : Nat) (h : i < (Civil.upTo n).length) : (Civil.upTo n)[i] = (i : Int) + 1 := by
  simp [Civil.upTo]

/-- a threshold filter keeps an initial segment -/
theorem filter_upTo_le (n c : Nat) (hc : c ≤ n) :
    (Civil.upTo n).filter (fun d => decide (1 ≤ d ∧ d ≤ (c : Int))) = Civil.upTo c := by
  induction n with
  | zero =>
    have : c = 0 := by omega
    subst this; rfl
  | succ n ih =>
    unfold Civil.upTo at *
    rw [List.range_succ, List.map_append, List.filter_append]
    by_cases h : c ≤ n
    · rw [ih h]
      have : ¬ (1 ≤ (n : Int) + 1 ∧ (n : Int) + 1 ≤ (c : Int)) := by omega
      simp [this]
    · have hc' : c = n + 1 := by omega
      subst hc'
      have e : List.filter (fun d => decide (1 ≤ d ∧ d ≤ ((n + 1 : Nat) : Int))) (List.map (fun (k : Nat) => (k : Int) + 1) (List.range n))
          = List.map (fun (k : Nat) => (k : Int) + 1) (List.range n) := by
        apply List.filter_eq_self.2
        intro a ha
        simp only [List.mem_map, List.mem_range] at ha
        obtain ⟨k, hk, rfl⟩ := ha
        simp only [decide_eq_true_eq]; omega
      rw [e, List.range_succ, List.map_append]
      have : (1 ≤ (n : Int) + 1 ∧ (n : Int) + 1 ≤ ((n + 1 : Nat) : Int)) := by omega
      simp [this]

/-! ### the days of a civil month -/

theorem lastDay_cases (y m : Int) : Civil.lastDay y m = 28 ∨ Civil.lastDay y m = 29 ∨ Civil.lastDay y m = 30 ∨ Civil.lastDay y m = 31 := by
  rw [lastDay_eq]; repeat' split
  all_goals omega

/-- outside October 1582 a date exists iff its day number is 1..lastDay -/
theorem valid_plain (y m d : Int) (hy : 1 ≤ y ∧ y ≤ 9999) (hm : 1 ≤ m ∧ m ≤ 12) (hc : ¬ (y = 1582 ∧ m = 10)) :
    Civil.valid y m d = decide (1 ≤ d ∧ d ≤ (((Civil.lastDay y m).toNat : Nat) : Int)) := by
  rw [Bool.eq_iff_iff, valid_iff, decide_eq_true_eq]
  have := lastDay_cases y m
  constructor
  · rintro ⟨_, _, _, _, h5, h6, _⟩; omega
  · rintro ⟨h1, h2⟩; refine ⟨hy.1, hy.2, hm.1, hm.2, h1, by omega, ?_⟩; intro h; exact absurd ⟨h.1, h.2.1⟩ hc

theorem datesOfMonth_plain (y m : Int) (hy : 1 ≤ y ∧ y ≤ 9999) (hm : 1 ≤ m ∧ m ≤ 12) (hc : ¬ (y = 1582 ∧ m = 10)) :
    Civil.datesOfMonth y m = (Civil.upTo (Civil.lastDay y m).toNat).map fun d => (y, m, d) := by
  unfold Civil.datesOfMonth
  have e : (fun d => Civil.valid y m d) = fun d => decide (1 ≤ d ∧ d ≤ (((Civil.lastDay y m).toNat : Nat) : Int)) := by
    funext d; exact valid_plain y m d hy hm hc
  rw [e, filter_upTo_le 31 _ (by have := lastDay_cases y m; omega)]

theorem datesOfMonth_cut : Civil.datesOfMonth 1582 10 =
    [(1582,10,1),(1582,10,2),(1582,10,3),(1582,10,4),(1582,10,15),(1582,10,16),(1582,10,17),(1582,10,18),(1582,10,19),(1582,10,20),
     (1582,10,21),(1582,10,22),(1582,10,23),(1582,10,24),(1582,10,25),(1582,10,26),(1582,10,27),(1582,10,28),(1582,10,29),(1582,10,30),(1582,10,31)] := by
  decide

theorem monthDays_cut : monthDays 1582 10 = some (Civil.datesOfMonth 1582 10) := by
  rw [datesOfMonth_cut]; decide

theorem monthNew_ok (y m : Int) (hy : 1 ≤ y ∧ y ≤ 9999) (hm : 1 ≤ m ∧ m ≤ 12) : monthNew y m = some (y, m) := by
  unfold monthNew yearOk; simp [hy, hm]

/-- `SolarMonth::get_days` (after the D9 repair) lists exactly the dates that exist in the month, by day number -/
theorem monthDays_eq (y m : Int) (hy : 1 ≤ y ∧ y ≤ 9999) (hm : 1 ≤ m ∧ m ≤ 12) :
    monthDays y m = some (Civil.datesOfMonth y m) := by
  by_cases hc : y = 1582 ∧ m = 10
  · obtain ⟨rfl, rfl⟩ := hc; exact monthDays_cut
  · rw [datesOfMonth_plain y m hy hm hc]
    unfold monthDays
    rw [monthNew_ok y m hy hm]
    dsimp only
    have hlen : monthLen y m = (((Civil.lastDay y m).toNat : Nat) : Int) := by
      have := C01_monthLen y m hy.1 hy.2 hm.1 hm.2
      have hl := lastDay_cases y m
      unfold Civil.daysIn at this
      have hb : (y == 1582 && m == 10) = false := by
        rw [Bool.eq_false_iff]; intro h; simp only [Bool.and_eq_true, beq_iff_eq] at h; exact hc h
      rw [hb] at this; simp only [Bool.false_eq_true, if_false] at this
      omega
    rw [hlen, rangeI_eq_upTo]
    apply collect_map_some
    intro d hd
    rw [mem_upTo] at hd
    have hp : dayOfPos y m d = d := by
      unfold dayOfPos
      have : ¬ (y = 1582 ∧ m = 10 ∧ d > 4) := by intro h; exact hc ⟨h.1, h.2.1⟩
      simp [this]
    rw [hp]
    unfold dayNew
    have hv : Civil.valid y m d = true := by rw [valid_plain y m d hy hm hc, decide_eq_true_eq]; exact hd
    rw [C01_accept_iff, hv]; rfl

/-! ### consecutive day numbers -/

/-- the list runs through consecutive day numbers starting at j -/
def Consec : Int → List (Int × Int × Int) → Prop
  | _, [] => True
  | j, d :: t => jdnT d = j ∧ Consec (j + 1) t

theorem consec_append : ∀ (A B : List (Int × Int × Int)) (j : Int), Consec j A → Consec (j + A.length) B → Consec j (A ++ B) := by
  intro A
  induction A with
  | nil => intro B j _ h; simpa using h
  | cons a t ih =>
    intro B j h1 h2
    obtain ⟨ha, ht⟩ := h1
    refine ⟨ha, ih B (j + 1) ht ?_⟩
    have : j + 1 + (t.length : Int) = j + ((a :: t).length : Nat) := by simp; omega
    rw [this]; exact h2

theorem consec_get : ∀ (L : List (Int × Int × Int)) (j : Int), Consec j L → ∀ i (h : i < L.length), jdnT L[i] = j + i := by
  intro L
  induction L with
  | nil => intro j _ i h; simp at h
  | cons a t ih =>
    intro j hc i h
    obtain ⟨ha, ht⟩ := hc
    cases i with
    | zero => simp [ha]
    | succ i =>
      simp only [List.getElem_cons_succ]
      rw [ih (j + 1) ht i (by simpa using h)]
      omega

theorem consec_of_get : ∀ (L : List (Int × Int × Int)) (j : Int), (∀ i (h : i < L.length), jdnT L[i] = j + i) → Consec j L := by
  intro L
  induction L with
  | nil => intro _ _; trivial
  | cons a t ih =>
    intro j h
    refine ⟨by have := h 0 (by simp); simpa using this, ih (j + 1) ?_⟩
    intro i hi
    have := h (i + 1) (by simpa using hi)
    simp only [List.getElem_cons_succ] at this
    rw [this]; omega

/-- within a month other than October 1582 the day number is linear in the day of month -/
theorem jdn_linear (y m d : Int) (hc : ¬ (y = 1582 ∧ m = 10)) (hm : 1 ≤ m ∧ m ≤ 12) (hd : 1 ≤ d ∧ d ≤ 31) :
    jdn y m d = jdn y m 1 + (d - 1) := by
  rw [jdn_nf, jdn_nf]
  by_cases h : y * 372 + m * 31 ≥ 588845
  · have h1 : y * 372 + m * 31 + d ≥ 588829 := by omega
    have h2 : y * 372 + m * 31 + 1 ≥ 588829 := by omega
    simp only [h1, h2]
    split <;> simp <;> omega
  · have h0 : y * 372 + m * 31 ≤ 588783 := by
      have hc' : y ≠ 1582 ∨ m ≠ 10 := by
        by_cases hy : y = 1582
        · right; intro hm'; exact hc ⟨hy, hm'⟩
        · left; exact hy
      omega
    have h1 : ¬ (y * 372 + m * 31 + d ≥ 588829) := by omega
    have h2 : ¬ (y * 372 + m * 31 + 1 ≥ 588829) := by omega
    simp only [h1, h2]
    split <;> simp <;> omega

theorem datesOfMonth_length (y m : Int) (hy : 1 ≤ y ∧ y ≤ 9999) (hm : 1 ≤ m ∧ m ≤ 12) :
    ((Civil.datesOfMonth y m).length : Int) = Civil.daysIn y m := by
  by_cases hc : y = 1582 ∧ m = 10
  · obtain ⟨rfl, rfl⟩ := hc; rw [datesOfMonth_cut]; decide
  · rw [datesOfMonth_plain y m hy hm hc, List.length_map, upTo_length]
    have hb : (y == 1582 && m == 10) = false := by
      rw [Bool.eq_false_iff]; intro h; simp only [Bool.and_eq_true, beq_iff_eq] at h; exact hc h
    unfold Civil.daysIn
    rw [hb]
    have := lastDay_cases y m
    simp only [Bool.false_eq_true, if_false]; omega

theorem datesOfMonth_consec (y m : Int) (hy : 1 ≤ y ∧ y ≤ 9999) (hm : 1 ≤ m ∧ m ≤ 12) :
    Consec (jdn y m 1) (Civil.datesOfMonth y m) := by
  by_cases hc : y = 1582 ∧ m = 10
  · obtain ⟨rfl, rfl⟩ := hc; rw [datesOfMonth_cut]; simp only [Consec]; decide
  · rw [datesOfMonth_plain y m hy hm hc]
    apply consec_of_get
    intro i hi
    rw [List.length_map, upTo_length] at hi
    rw [List.getElem_map, upTo_get]
    have := lastDay_cases y m
    show jdn y m ((i : Int) + 1) = _
    rw [jdn_linear y m _ hc hm (by omega)]
    omega

theorem mem_datesOfMonth (y m : Int) (a : Int × Int × Int) :
    a ∈ Civil.datesOfMonth y m ↔ a.1 = y ∧ a.2.1 = m ∧ Civil.valid y m a.2.2 = true := by
  unfold Civil.datesOfMonth
  simp only [List.mem_map, List.mem_filter, mem_upTo]
  constructor
  · rintro ⟨d, ⟨_, hv⟩, rfl⟩; exact ⟨rfl, rfl, hv⟩
  · rintro ⟨h1, h2, hv⟩
    obtain ⟨a1, a2, a3⟩ := a
    dsimp only at h1 h2 hv
    subst h1; subst h2
    refine ⟨a3, ⟨?_, hv⟩, rfl⟩
    obtain ⟨_, _, _, _, h5, h6, _⟩ := (valid_iff _ _ _).1 hv
    have := lastDay_cases a1 a2
    exact ⟨h5, by show a3 ≤ ((31 : Nat) : Int); omega⟩

/-! ### the year -/

theorem upTo12 : Civil.upTo 12 = [1, 2, 3, 4, 5, 6, 7, 8, 9, 10, 11, 12] := by decide

theorem yearMonths_eq (y : Int) (hy : 1 ≤ y ∧ y ≤ 9999) : yearMonths y = some (Civil.monthsOfYear y) := by
  unfold yearMonths Civil.monthsOfYear
  have h0 : yearOk y = true := by unfold yearOk; simp [hy]
  rw [h0]
  have : rangeI 1 13 = Civil.upTo 12 := rangeI_eq_upTo 12
  rw [this]
  simp only [Bool.not_true, Bool.false_eq_true, if_false]
  apply collect_map_some
  intro m hm
  rw [mem_upTo] at hm
  exact monthNew_ok y m hy ⟨hm.1, by omega⟩

/-- the concatenated day lists of the year's months -/
theorem yearDays_eq (y : Int) (hy : 1 ≤ y ∧ y ≤ 9999) :
    yearDays y = some (((Civil.upTo 12).map fun m => Civil.datesOfMonth y m).flatten) := by
  unfold yearDays
  rw [yearMonths_eq y hy]
  dsimp only
  unfold Civil.monthsOfYear
  rw [List.map_map]
  have : collect (List.map ((fun p : Int × Int => monthDays p.1 p.2) ∘ fun m => (y, m)) (Civil.upTo 12))
      = some ((Civil.upTo 12).map fun m => Civil.datesOfMonth y m) := by
    apply collect_map_some
    intro m hm
    rw [mem_upTo] at hm
    exact monthDays_eq y m hy ⟨hm.1, by omega⟩
  rw [this]; rfl

theorem consec_step (y m m' : Int) (hy : 1 ≤ y ∧ y ≤ 9999) (hm : 1 ≤ m ∧ m ≤ 11) (e : m' = m + 1) (rest : List (Int × Int × Int))
    (h : Consec (jdn y m' 1) rest) : Consec (jdn y m 1) (Civil.datesOfMonth y m ++ rest) := by
  apply consec_append _ _ _ (datesOfMonth_consec y m hy ⟨hm.1, by omega⟩)
  rw [datesOfMonth_length y m hy ⟨hm.1, by omega⟩]
  have := C01_monthLen_dist y m hy.1 hy.2 hm.1 (by omega) (by omega)
  have hne : ¬ (m = 12) := by omega
  simp only [hne, if_false] at this
  subst e
  have e2 : jdn y m 1 + Civil.daysIn y m = jdn y (m + 1) 1 := by omega
  rw [e2]; exact h

theorem yearDays_consec (y : Int) (hy : 1 ≤ y ∧ y ≤ 9999) :
    Consec (jdn y 1 1) (((Civil.upTo 12).map fun m => Civil.datesOfMonth y m).flatten) := by
  rw [upTo12]
  simp only [List.map, List.flatten_cons, List.flatten_nil, List.append_nil]
  refine consec_step y 1 2 hy (by omega) (by omega) _ ?_
  refine consec_step y 2 3 hy (by omega) (by omega) _ ?_
  refine consec_step y 3 4 hy (by omega) (by omega) _ ?_
  refine consec_step y 4 5 hy (by omega) (by omega) _ ?_
  refine consec_step y 5 6 hy (by omega) (by omega) _ ?_
  refine consec_step y 6 7 hy (by omega) (by omega) _ ?_
  refine consec_step y 7 8 hy (by omega) (by omega) _ ?_
  refine consec_step y 8 9 hy (by omega) (by omega) _ ?_
  refine consec_step y 9 10 hy (by omega) (by omega) _ ?_
  refine consec_step y 10 11 hy (by omega) (by omega) _ ?_
  refine consec_step y 11 12 hy (by omega) (by omega) _ ?_
  exact datesOfMonth_consec y 12 hy (by omega)

theorem sum_daysIn (y : Int) :
    Civil.daysIn y 1 + Civil.daysIn y 2 + Civil.daysIn y 3 + Civil.daysIn y 4 + Civil.daysIn y 5 + Civil.daysIn y 6 +
    Civil.daysIn y 7 + Civil.daysIn y 8 + Civil.daysIn y 9 + Civil.daysIn y 10 + Civil.daysIn y 11 + Civil.daysIn y 12 = Civil.daysInYear y := by
  by_cases h : y = 1582
  · subst h; decide
  · have hb : (y == 1582) = false := by simp [h]
    unfold Civil.daysIn Civil.daysInYear Civil.lastDay
    simp [hb]
    split <;> rfl

theorem yearDays_length (y : Int) (hy : 1 ≤ y ∧ y ≤ 9999) :
    ((((Civil.upTo 12).map fun m => Civil.datesOfMonth y m).flatten).length : Int) = Civil.daysInYear y := by
  rw [upTo12]
  simp only [List.map, List.flatten_cons, List.flatten_nil, List.append_nil, List.length_append, Int.natCast_add]
  rw [← sum_daysIn y]
  have l := fun m (hm : 1 ≤ m ∧ m ≤ 12) => datesOfMonth_length y m hy hm
  rw [l 1 (by omega), l 2 (by omega), l 3 (by omega), l 4 (by omega), l 5 (by omega), l 6 (by omega), l 7 (by omega),
    l 8 (by omega), l 9 (by omega), l 10 (by omega), l 11 (by omega), l 12 (by omega)]
  omega

/-! ### lunar lists -/
open Lunar

/-- the month after ⟨y, i⟩ inside the same year -/
theorem next_one_in_year (E : Eph) (hl : ∀ y, E.leap y ≤ 12) (y : Int) (i : Nat) (hy : 0 ≤ y ∧ y ≤ 9999) (hi : i + 1 < E.cnt y) :
    Lunar.next E ⟨y, i⟩ 1 = some ⟨y, i + 1⟩ := by
  unfold Lunar.next
  have h1 : ¬ ((1 : Int) = 0) := by decide
  simp only [h1, if_false]
  have h2 : (1 : Int) > 0 := by decide
  simp only [h2, if_true]
  have h3 : (1 : Int).natAbs + 1 = 2 := rfl
  rw [h3]
  have hlt : ¬ ((i : Int) + 1 + 1 > (E.cnt y : Int)) := by omega
  simp only [loopF, hlt, if_false]
  have := fromYm_of_pos E y ((i : Int) + 1 + 1) hy.1 hy.2 (hl y) (by omega) (by omega)
  rw [this]
  congr 2
  omega

theorem fromYm_first (E : Eph) (hl : ∀ y, E.leap y ≤ 12) (y : Int) (hy : 0 ≤ y ∧ y ≤ 9999) : fromYm E y 1 = some ⟨y, 0⟩ := by
  have hc := cnt_cases E y
  have := fromYm_of_pos E y 1 hy.1 hy.2 (hl y) (by omega) (by omega)
  have e : (if decide (((E.leap y : Nat) : Int) > 0 ∧ (1 : Int) = ((E.leap y : Nat) : Int) + 1) = true
                then -(if ((E.leap y : Nat) : Int) > 0 ∧ (1 : Int) > ((E.leap y : Nat) : Int) then (1 : Int) - 1 else 1)
                else (if ((E.leap y : Nat) : Int) > 0 ∧ (1 : Int) > ((E.leap y : Nat) : Int) then (1 : Int) - 1 else 1)) = 1 := by
    have a : ¬ (((E.leap y : Nat) : Int) > 0 ∧ (1 : Int) = ((E.leap y : Nat) : Int) + 1) := by omega
    have b : ¬ (((E.leap y : Nat) : Int) > 0 ∧ (1 : Int) > ((E.leap y : Nat) : Int)) := by omega
    simp only [a, b, decide_false, if_false, Bool.false_eq_true]
  rw [e] at this
  exact this

theorem stepMonths_eq (E : Eph) (hl : ∀ y, E.leap y ≤ 12) (y : Int) (hy : 0 ≤ y ∧ y ≤ 9999) :
    ∀ (n i : Nat), i + n < E.cnt y → stepMonths E n ⟨y, i⟩ = some ((List.range n).map fun k => (⟨y, i + 1 + k⟩ : Month)) := by
  intro n
  induction n with
  | zero => intro i _; rfl
  | succ n ih =>
    intro i h
    simp only [stepMonths]
    rw [next_one_in_year E hl y i hy (by omega)]
    dsimp only
    rw [ih (i + 1) (by omega)]
    dsimp only
    rw [List.range_succ_eq_map, List.map_cons, List.map_map]
    congr 2
    apply List.map_congr_left
    intro k _
    simp only [Function.comp]
    congr 1; omega

/-- `LunarYear::get_months` (after the D10 repair) = the listed months ⟨y,0⟩ … ⟨y,cnt−1⟩ -/
theorem lunarYearMonths_eq (E : Eph) (hl : ∀ y, E.leap y ≤ 12) (y : Int) (hy : 0 ≤ y ∧ y ≤ 9999) :
    lunarYearMonths E y = some ((List.range (E.cnt y)).map fun i => (⟨y, i⟩ : Month)) := by
  unfold lunarYearMonths
  have h0 : ¬ (y < -1 ∨ y > 9999) := by omega
  simp only [h0, if_false]
  rw [fromYm_first E hl y hy]
  dsimp only
  have hc := cnt_cases E y
  rw [stepMonths_eq E hl y hy (E.cnt y - 1) 0 (by omega)]
  dsimp only
  have e : E.cnt y = (E.cnt y - 1) + 1 := by omega
  conv => rhs; rw [e, List.range_succ_eq_map, List.map_cons, List.map_map]
  congr 2
  apply List.map_congr_left
  intro k _
  simp only [Function.comp]
  congr 1; omega

/-- a listed month constructs back to itself from (year, signed month) -/
theorem fromYm_monthWithLeap (E : Eph) (hl : ∀ y, E.leap y ≤ 12) (x : Month) (hx : WF E x) :
    fromYm E x.y (monthWithLeap E x) = some x := by
  obtain ⟨h1, h2, h3⟩ := hx
  rw [monthWithLeap_eq]
  have := fromYm_of_pos E x.y ((x.idx : Int) + 1) h1 h2 (hl _) (by omega) (by omega)
  rw [this]
  have e : ((x.idx : Int) + 1 - 1).toNat = x.idx := by omega
  rw [e]

/-- `LunarMonth::get_days` = days 1..len of that month -/
theorem lunarMonthDays_eq (E : Eph) (hl : ∀ y, E.leap y ≤ 12) (x : Month) (hx : WF E x) :
    lunarMonthDays E x = some ((Civil.upTo (len E x).toNat).map fun d => (x, d)) := by
  unfold lunarMonthDays
  have e : rangeI 0 (len E x) = (List.range (len E x).toNat).map fun (k : Nat) => (k : Int) := by
    unfold rangeI
    have : (len E x - 0).toNat = (len E x).toNat := by omega
    rw [this]
    apply List.map_congr_left
    intro k _; omega
  rw [e, List.map_map]
  unfold Civil.upTo
  rw [List.map_map]
  apply collect_map_some
  intro k hk
  rw [List.mem_range] at hk
  simp only [Function.comp]
  unfold Lunar.dayNew
  rw [fromYm_monthWithLeap E hl x hx]
  dsimp only
  have : ¬ ((k : Int) + 1 < 1 ∨ (k : Int) + 1 > len E x) := by omega
  simp only [this, if_false]

theorem slotStarts_eq : Civil.slotStarts = [0, 1, 3, 5, 7, 9, 11, 13, 15, 17, 19, 21, 23] := by decide

theorem stepBy_0_24_2 : stepBy 0 24 2 = [0, 2, 4, 6, 8, 10, 12, 14, 16, 18, 20, 22] := by decide

/-- `LunarDay::get_hours` = the 13 slot starts of that lunar day -/
theorem lunarDayHours_eq (E : Eph) (hl : ∀ y, E.leap y ≤ 12) (x : Month) (hx : WF E x) (d : Int) (hd : 1 ≤ d ∧ d ≤ len E x) :
    lunarDayHours E x d = some (Civil.slotStarts.map fun h => (⟨x, d, h, 0, 0⟩ : LHour)) := by
  unfold lunarDayHours
  dsimp only
  rw [stepBy_0_24_2, slotStarts_eq]
  have hd' : Lunar.dayNew E x.y (monthWithLeap E x) d = some (x, d) := by
    unfold Lunar.dayNew
    rw [fromYm_monthWithLeap E hl x hx]
    dsimp only
    have : ¬ (d < 1 ∨ d > len E x) := by omega
    simp only [this, if_false]
  have hh : ∀ h : Int, 0 ≤ h ∧ h ≤ 23 → lunarHourNew E x.y (monthWithLeap E x) d h 0 0 = some ⟨x, d, h, 0, 0⟩ := by
    intro h hh
    unfold lunarHourNew
    have : ¬ (h < 0 ∨ h > 23 ∨ (0 : Int) < 0 ∨ (0 : Int) > 59 ∨ (0 : Int) < 0 ∨ (0 : Int) > 59) := by omega
    simp only [this, if_false, hd']
  simp only [List.map, collect, hh 0 (by omega), hh (0 + 1) (by omega), hh (2 + 1) (by omega), hh (4 + 1) (by omega), hh (6 + 1) (by omega),
    hh (8 + 1) (by omega), hh (10 + 1) (by omega), hh (12 + 1) (by omega), hh (14 + 1) (by omega), hh (16 + 1) (by omega),
    hh (18 + 1) (by omega), hh (20 + 1) (by omega), hh (22 + 1) (by omega)]
  rfl

/-! ### civil day stepping -/

theorem dayNext_spec (a r : Int × Int × Int) (k : Int) (h : dayNext a k = some r) :
    Civil.validT r = true ∧ jdnT r = jdnT a + k := by
  unfold dayNext at h
  dsimp only at h
  split at h
  · rename_i hok
    simp only [Option.some.injEq] at h
    subst h
    obtain ⟨r1, r2⟩ := ofJdn_ok_range _ hok
    exact C01_jdn_ofJdn _ r1 r2
  · cases h

/-! ### the hours of a sexagenary day -/

theorem hoursLoop_spec (E : Eph) : ∀ (n : Nat) (t : Time) (L : List (Time × SC.HourView)), hoursLoop E 7200 n t = some L →
    Clock.valid t = true →
    L.length = n ∧ ∀ i (h : i < L.length), Clock.valid L[i].1 = true ∧ secs L[i].1 = secs t + 7200 * ((i : Int) + 1) ∧
      viewOfTime E L[i].1 = some L[i].2 := by
  intro n
  induction n with
  | zero =>
    intro t L h _
    simp only [hoursLoop, Option.some.injEq] at h
    subst h
    exact ⟨rfl, fun i h => absurd h (by simp)⟩
  | succ n ih =>
    intro t L h hv
    simp only [hoursLoop] at h
    split at h
    · cases h
    · rename_i t' ht'
      split at h
      · cases h
      · rename_i v hv'
        split at h
        · cases h
        · rename_i l hl
          simp only [Option.some.injEq] at h
          subst h
          obtain ⟨v1, s1⟩ := (C12_next_iff t t' 7200 hv).1 ht'
          obtain ⟨l1, l2⟩ := ih t' l hl v1
          refine ⟨by simp [l1], ?_⟩
          intro i hi
          cases i with
          | zero => exact ⟨v1, by simp [s1], hv'⟩
          | succ i =>
            simp only [List.getElem_cons_succ]
            obtain ⟨a1, a2, a3⟩ := l2 i (by simpa using hi)
            refine ⟨a1, ?_, a3⟩
            rw [a2, s1]; push_cast; omega

/-- `SixtyCycleDay::get_hours`: 12 instants, slot k starting 3600 s before the civil midnight plus 7200·k seconds,
each with the view `from_solar_time` gives it -/
theorem scdHours_spec (E : Eph) (Y M D : Int) (L : List (Time × SC.HourView))
    (h : scdHours E Y M D = some L) :
    L.length = 12 ∧ ∀ i (hi : i < L.length), Clock.valid L[i].1 = true ∧
      secs L[i].1 = 86400 * jdn Y M D - 3600 + 7200 * (i : Int) ∧ viewOfTime E L[i].1 = some L[i].2 := by
  unfold scdHours at h
  split at h
  · cases h
  · split at h
    · cases h
    · rename_i p hp
      split at h
      · cases h
      · rename_i t0 ht0
        split at h
        · cases h
        · rename_i v0 hv0
          split at h
          · cases h
          · rename_i l hl
            simp only [Option.some.injEq] at h
            subst h
            obtain ⟨p1, p2⟩ := dayNext_spec _ _ _ hp
            obtain ⟨et0, vt0⟩ := mkTime_valid p 23 0 0 t0 ht0
            have st0 : secs t0 = 86400 * jdn Y M D - 3600 := by
              rw [et0]; unfold secs; dsimp only
              have : jdnT p = jdn p.1 p.2.1 p.2.2 := rfl
              have e2 : jdnT (Y, M, D) = jdn Y M D := rfl
              omega
            obtain ⟨l1, l2⟩ := hoursLoop_spec E 11 t0 l hl vt0
            refine ⟨by simp [l1], ?_⟩
            intro i hi
            cases i with
            | zero => exact ⟨vt0, by simp [st0], hv0⟩
            | succ i =>
              simp only [List.getElem_cons_succ]
              obtain ⟨a1, a2, a3⟩ := l2 i (by simpa using hi)
              refine ⟨a1, ?_, a3⟩
              rw [a2, st0]; push_cast; omega

/-! ### sexagenary year → months -/

theorem firstMonth_some (y : Int) :
    ∃ fm, SC.firstMonthPillar y = some fm ∧ SC.lunarMonthPillar y 0 = some fm ∧ 0 ≤ fm ∧ fm < 60 := by
  have e : SC.firstMonthPillar y = SC.lunarMonthPillar y 0 := by
    unfold SC.firstMonthPillar SC.lunarMonthPillar
    have : SC.indexOf (0 + 2) 12 = 2 := by decide
    rw [this, Int.add_zero]
  unfold SC.lunarMonthPillar at e ⊢
  rw [e]
  rw [SC.indexOf_10, SC.indexOf_12]
  have hs : ∃ n : Int, n % 10 = ((SC.yearPillar y % 10 + 1) * 2 + 0) % 10 ∧ n % 12 = (0 + 2) % 12 := by
    refine ⟨6 * ((SC.yearPillar y % 10 + 1) * 2) - 10, ?_, ?_⟩ <;> omega
  obtain ⟨n, n1, n2⟩ := hs
  rw [← n1, ← n2, SC.pairIndex_crt]
  exact ⟨n % 60, rfl, rfl, by omega, by omega⟩

theorem scmIndexInYear_eq (p : Int) : scmIndexInYear p = (p % 12 - 2) % 12 := by
  unfold scmIndexInYear; rw [SC.indexOf_12]

/-- `SixtyCycleYear::get_months`: twelve months of the same year, pillar = first month's pillar + k, index in year k -/
theorem scyMonths_eq (y : Int) (hy : -1 ≤ y ∧ y ≤ 9999) :
    ∃ fm, SC.firstMonthPillar y = some fm ∧ 0 ≤ fm ∧ fm < 60 ∧ fm % 12 = 2 ∧
      scyMonths y = some ((List.range 12).map fun (k : Nat) => (⟨y, SC.cycNext fm k⟩ : SCMonth)) ∧
      ∀ k : Nat, k < 12 → scmIndexInYear (SC.cycNext fm k) = k := by
  obtain ⟨fm, f1, f2, f3, f4⟩ := firstMonth_some y
  have ft := fun k => C08_five_tigers y k fm f2
  have h12 : fm % 12 = 2 := (ft 0).1
  refine ⟨fm, f1, f3, f4, h12, ?_, ?_⟩
  · unfold scyMonths scyFirstMonth
    have ok : scYearOk y = true := by unfold scYearOk; simp; omega
    rw [ok, f1]
    simp only [Bool.not_true, Bool.false_eq_true, if_false]
    have hr : rangeI 1 12 = (List.range 11).map fun (k : Nat) => (k : Int) + 1 := by
      have := rangeI_eq_upTo 11
      simpa [Civil.upTo] using this
    rw [hr, List.map_map]
    have hc : collect (List.map ((fun i => scmNext ⟨y, fm⟩ i) ∘ fun (k : Nat) => (k : Int) + 1) (List.range 11))
        = some ((List.range 11).map fun (k : Nat) => (⟨y, SC.cycNext fm ((k : Int) + 1)⟩ : SCMonth)) := by
      apply collect_map_some
      intro k hk
      rw [List.mem_range] at hk
      simp only [Function.comp]
      unfold scmNext
      dsimp only
      rw [scmIndexInYear_eq, h12]
      have e0 : ((2 : Int) - 2) % 12 = 0 := by decide
      rw [e0]
      have e1 : (y * 12 + 0 + ((k : Int) + 1)) / 12 = y := by omega
      rw [e1, ok]; rfl
    rw [hc]
    dsimp only
    have er : ∀ g : Nat → SCMonth, (List.range 12).map g = g 0 :: (List.range 11).map (fun k => g (k + 1)) := by
      intro g; rfl
    have e0 : SC.cycNext fm ((0 : Nat) : Int) = fm := by
      unfold SC.cycNext; rw [SC.indexOf_60]; simp; omega
    rw [er, e0]
    simp only [Int.natCast_add, Int.cast_ofNat_Int]
  · intro k hk
    rw [scmIndexInYear_eq, (ft k).2.2.1]
    omega

/-! ### sexagenary month → days: the loop -/

theorem scmDaysLoop_spec (E : Eph) (x : SCMonth) : ∀ (f : Nat) (d : Int × Int × Int) (L : List (Int × Int × Int)),
    scmDaysLoop E x (fun a => dayNext a 1) f d = some L → Civil.validT d = true →
    Consec (jdnT d) L ∧
    (∀ a ∈ L, Civil.validT a = true ∧ ∃ v, SC.ofSolarDay E a.1 a.2.1 a.2.2 = some v ∧ scmSame x v = true) ∧
    (∃ e v, Civil.validT e = true ∧ jdnT e = jdnT d + L.length ∧ SC.ofSolarDay E e.1 e.2.1 e.2.2 = some v ∧ scmSame x v = false) := by
  intro f
  induction f with
  | zero => intro d L h _; rw [scmDaysLoop] at h; cases h
  | succ f ih =>
    intro d L h hv
    rw [scmDaysLoop] at h
    split at h
    · cases h
    · rename_i v hview
      split at h
      · rename_i hsame
        split at h
        · cases h
        · rename_i d' hd'
          split at h
          · cases h
          · rename_i l hl
            simp only [Option.some.injEq] at h
            subst h
            obtain ⟨v1, j1⟩ := dayNext_spec _ _ _ hd'
            obtain ⟨c1, c2, e, ve, e1, e2, e3, e4⟩ := ih d' l hl v1
            refine ⟨⟨rfl, by rw [← j1]; exact c1⟩, ?_, ⟨e, ve, e1, ?_, e3, e4⟩⟩
            · intro a ha
              rcases List.mem_cons.1 ha with rfl | ha
              · exact ⟨hv, v, hview, hsame⟩
              · exact c2 a ha
            · rw [e2, j1]; simp; omega
      · rename_i hsame
        simp only [Option.some.injEq] at h
        subst h
        refine ⟨trivial, fun a ha => absurd ha (by simp), ⟨d, v, hv, by simp, hview, by simpa using hsame⟩⟩

/-- the fuel is never the reason for a refusal: beyond the number of days left in the range, more fuel changes nothing -/
theorem scmDaysLoop_fuel (E : Eph) (x : SCMonth) : ∀ (f : Nat) (d : Int × Int × Int), Civil.validT d = true →
    jdnLast - jdnT d < f → scmDaysLoop E x (fun a => dayNext a 1) (f + 1) d = scmDaysLoop E x (fun a => dayNext a 1) f d := by
  intro f
  induction f with
  | zero =>
    intro d hv hlt
    have := jdn_le_last d.1 d.2.1 d.2.2 hv
    have e : jdnT d = jdn d.1 d.2.1 d.2.2 := rfl
    omega
  | succ f ih =>
    intro d hv hlt
    rw [scmDaysLoop, scmDaysLoop]
    split
    · rfl
    · split
      · split
        · rfl
        · rename_i d' hd'
          obtain ⟨v1, j1⟩ := dayNext_spec _ _ _ hd'
          rw [ih d' v1 (by omega)]
      · rfl

end Tyme.Cont
