import Tyme.Model.SixtyCycle
/-! Helper lemmas for the sexagenary cycle: `index_of` = modulo, CRT pairing. -/
namespace Tyme.SC
open Tyme

theorem indexOf_10 (i : Int) : indexOf i 10 = i % 10 := by
  unfold indexOf Term.indexOf
  have e := Int.mul_tdiv_add_tmod i 10
  have b1 := Int.tmod_lt_of_pos i (show (0 : Int) < 10 by decide)
  have b2 := Int.lt_tmod_of_pos i (show (0 : Int) < 10 by decide)
  rcases Int.le_total 0 i with hv | hv
  · have := Int.tmod_nonneg 10 hv
    dsimp only; split <;> omega
  · have hneg : Int.tmod i 10 ≤ 0 := by
      have h := Int.tmod_nonneg (a := -i) 10 (by omega)
      rw [Int.neg_tmod] at h; omega
    dsimp only; split <;> omega

theorem indexOf_12 (i : Int) : indexOf i 12 = i % 12 := by
  unfold indexOf Term.indexOf
  have e := Int.mul_tdiv_add_tmod i 12
  have b1 := Int.tmod_lt_of_pos i (show (0 : Int) < 12 by decide)
  have b2 := Int.lt_tmod_of_pos i (show (0 : Int) < 12 by decide)
  rcases Int.le_total 0 i with hv | hv
  · have := Int.tmod_nonneg 12 hv
    dsimp only; split <;> omega
  · have hneg : Int.tmod i 12 ≤ 0 := by
      have h := Int.tmod_nonneg (a := -i) 12 (by omega)
      rw [Int.neg_tmod] at h; omega
    dsimp only; split <;> omega

theorem indexOf_60 (i : Int) : indexOf i 60 = i % 60 := by
  unfold indexOf Term.indexOf
  have e := Int.mul_tdiv_add_tmod i 60
  have b1 := Int.tmod_lt_of_pos i (show (0 : Int) < 60 by decide)
  have b2 := Int.lt_tmod_of_pos i (show (0 : Int) < 60 by decide)
  rcases Int.le_total 0 i with hv | hv
  · have := Int.tmod_nonneg 60 hv
    dsimp only; split <;> omega
  · have hneg : Int.tmod i 60 ≤ 0 := by
      have h := Int.tmod_nonneg (a := -i) 60 (by omega)
      rw [Int.neg_tmod] at h; omega
    dsimp only; split <;> omega

/-- Chinese remainder pairing: the pillar with stem n mod 10 and branch n mod 12 is n mod 60 -/
theorem pairIndex_of_nat : ∀ r : Nat, r < 60 → pairIndex ((r : Int) % 10) ((r : Int) % 12) = some (r : Int) := by
  decide

theorem pairIndex_crt (n : Int) : pairIndex (n % 10) (n % 12) = some (n % 60) := by
  have h0 : 0 ≤ n % 60 := Int.emod_nonneg n (by decide)
  have h1 : n % 60 < 60 := Int.emod_lt_of_pos n (by decide)
  have := pairIndex_of_nat (n % 60).toNat (by omega)
  have e : (((n % 60).toNat : Nat) : Int) = n % 60 := by omega
  rw [e] at this
  have e10 : n % 60 % 10 = n % 10 := by omega
  have e12 : n % 60 % 12 = n % 12 := by omega
  rw [e10, e12] at this
  exact this

/-- a pair is one of the sixty iff stem and branch have the same parity -/
theorem pairIndex_some_iff : ∀ s : Nat, s < 10 → ∀ b : Nat, b < 12 →
    ((pairIndex (s : Int) (b : Int)).isSome = true ↔ s % 2 = b % 2) := by decide

end Tyme.SC
