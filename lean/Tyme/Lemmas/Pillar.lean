import Tyme.Facts.Windows
import Tyme.Lemmas.LunarWalk
import Tyme.Thm.C01
import Tyme.Thm.C06
import Tyme.Thm.C08
/-! Helper lemmas for the end-to-end C08 theorem: where the lunar month and the term of a civil date lie. -/
namespace Tyme
open Lunar SC

theorem civil_year_bounds (Y M D : Int) (hv : Civil.valid Y M D = true) (hY : Y ≤ 9998) :
    jdn Y 1 1 ≤ jdn Y M D ∧ jdn Y M D < jdn (Y + 1) 1 1 := by
  obtain ⟨h1, h2, h3, h4, h5, h6, h7⟩ := (valid_iff Y M D).1 hv
  constructor
  · have := (C01_indexInYear Y M D hv).1
    unfold dayIndexInYear daySub at this; dsimp only at this; omega
  · have hv2 : Civil.validT (Y + 1, 1, 1) = true := by
      show Civil.valid (Y + 1) 1 1 = true
      rw [valid_iff, lastDay_eq]; simp; omega
    have := (C01_lt_iff (Y, M, D) (Y + 1, 1, 1) hv hv2).1 (by unfold Civil.lt; dsimp only; omega)
    exact this

/-- term days are strictly increasing over the representable range -/
theorem termDay_mono (a : Nat) (ha : 1 ≤ a) : ∀ d : Nat, a + d ≤ 239977 → realEph.termDay a + 14 * d ≤ realEph.termDay (a + d) := by
  intro d
  induction d with
  | zero => intro _; simp
  | succ d ih =>
    intro h
    have := ih (by omega)
    have := realEph_termInc (a + d) (by omega) (by omega)
    have e : a + (d + 1) = a + d + 1 := by omega
    rw [e]; omega

theorem termDay_lt (a b : Nat) (ha : 1 ≤ a) (hab : a < b) (hb : b ≤ 239977) : realEph.termDay a < realEph.termDay b := by
  have := termDay_mono a ha (b - a) (by omega)
  have e : a + (b - a) = b := by omega
  rw [e] at this; omega

theorem termDay_le (a b : Nat) (ha : 1 ≤ a) (hab : a ≤ b) (hb : b ≤ 239977) : realEph.termDay a ≤ realEph.termDay b := by
  rcases Nat.lt_or_ge a b with h | h
  · exact Int.le_of_lt (termDay_lt a b ha h hb)
  · have : a = b := by omega
    rw [this]; exact Int.le_refl _

/-- the term of a civil date of year Y (2 ≤ Y ≤ 9998) lies between the winter solstice of Y and the Xiaohan of Y+1 -/
theorem term_of_day_bounds (Y M D : Int) (hv : Civil.valid Y M D = true) (hY1 : 2 ≤ Y) (hY2 : Y ≤ 9998)
    (g : Nat) (k : Int) (h : Term.ofDay realEph Y M D = some (g, k)) :
    24 * (Y - 1) ≤ (g : Int) ∧ (g : Int) ≤ 24 * (Y - 1) + 25 := by
  obtain ⟨a1, a2, a3, a4, a5⟩ := C06_ofDay_spec realEph Y M D g k h
  obtain ⟨c1, c2⟩ := civil_year_bounds Y M D hv hY2
  have hg1 : 1 ≤ g := by
    by_cases h0 : g = 0
    · exfalso; subst h0; exact a1 ((realEph_term_repr 0 (by omega)).2 (Or.inl rfl))
    · omega
  have hg2 : g ≤ 239977 := by
    by_cases hh : g ≤ 239977
    · exact hh
    · exfalso
      by_cases hlt : g < 240000
      · exact a1 ((realEph_term_repr g hlt).2 (Or.inr (by omega)))
      · have : realEph.termDay g = 0 := by
          simp only [realEph]
          have : termRecs.getD g 0 = 0 := by
            simp only [List.getD]
            rw [List.getElem?_eq_none (by rw [termRecs_length]; omega)]; rfl
          rw [this]; decide
        exact a1 this
  have hg0' : (((24 * (Y - 1)).toNat : Nat) : Int) = 24 * (Y - 1) := by omega
  generalize (24 * (Y - 1)).toNat = g0 at hg0'
  constructor
  · -- otherwise the next term is still not later than the winter solstice of Y, which precedes January 1
    by_cases hge : (g0 : Int) ≤ g
    · omega
    · exfalso
      have hlt : g + 1 ≤ g0 := by omega
      have hw := (realEph_termWin g0 (by omega) (by omega)).1 (by omega)
      have hy : ((g0 / 24 + 1 : Nat) : Int) = Y := by omega
      rw [hy] at hw
      have hle := termDay_le (g + 1) g0 (by omega) hlt (by omega)
      rcases a3 with h3 | h3
      · have := (realEph_term_repr (g + 1) (by omega)).1 h3; omega
      · omega
  · by_cases hle : (g : Int) ≤ g0 + 25
    · omega
    · exfalso
      have hw := (realEph_termWin (g0 + 26) (by omega) (by omega)).2.1 (by omega)
      have hy : (((g0 + 26) / 24 + 1 : Nat) : Int) = Y + 1 := by omega
      rw [hy] at hw
      have := termDay_le (g0 + 26) g (by omega) (by omega) hg2
      omega


/-- first days of lunar years are non-decreasing inside a tiling interval (years a..b+1) -/
theorem year_first_mono (E : Eph) (a b : Int) (ha : 0 ≤ a) (hb9 : b + 1 ≤ 9999) (ht : TilesOn E a b) (p q : Int)
    (hp : a ≤ p) (hpq : p ≤ q) (hq : q ≤ b + 1) : first E ⟨p, 0⟩ ≤ first E ⟨q, 0⟩ := by
  rcases Int.lt_or_eq_of_le hpq with hlt | heq
  · have hwp : WF E ⟨p, 0⟩ := ⟨by dsimp only; omega, by dsimp only; omega, by dsimp only; have := cnt_cases E p; omega⟩
    have hwq : WF E ⟨q, 0⟩ := ⟨by dsimp only; omega, by dsimp only; omega, by dsimp only; have := cnt_cases E q; omega⟩
    have hg : gpos E ⟨p, 0⟩ < gpos E ⟨q, 0⟩ := gpos_lt_of_year_lt E _ _ hwp (by dsimp only; exact hlt)
    have hvb : (⟨q, 0⟩ : Month).y ≤ b ∨ (⟨q, 0⟩ : Month) = ⟨b + 1, 0⟩ := by
      by_cases h : q ≤ b
      · left; exact h
      · right; have : q = b + 1 := by omega
        rw [this]
    have := first_mono E a b hb9 ht ⟨q, 0⟩ hwq hvb (gpos E ⟨q, 0⟩ - gpos E ⟨p, 0⟩ - 1).toNat ⟨p, 0⟩ hwp hp (by omega)
    have hl := (tiles_step E ⟨p, 0⟩ (ht p hp (by omega)) hwp.2.2).2
    omega
  · rw [heq]; exact Int.le_refl _

theorem month_ge_year_first (E : Eph) (a b : Int) (ha : 0 ≤ a) (hb9 : b + 1 ≤ 9999) (ht : TilesOn E a b) (x : Month)
    (hx : WF E x) (hxa : a ≤ x.y) (hxb : x.y ≤ b) : first E ⟨x.y, 0⟩ ≤ first E x := by
  have hw0 : WF E ⟨x.y, 0⟩ := ⟨hx.1, hx.2.1, by dsimp only; have := cnt_cases E x.y; omega⟩
  by_cases h0 : x.idx = 0
  · have : x = ⟨x.y, 0⟩ := by cases x; simp only at h0; subst h0; rfl
    rw [← this]; exact Int.le_refl _
  · have hg : gpos E ⟨x.y, 0⟩ < gpos E x := by unfold gpos; dsimp only; omega
    have := first_mono E a b hb9 ht x hx (Or.inl hxb) (gpos E x - gpos E ⟨x.y, 0⟩ - 1).toNat ⟨x.y, 0⟩ hw0 hxa (by omega)
    have hl := (tiles_step E ⟨x.y, 0⟩ (ht x.y hxa hxb) hw0.2.2).2
    omega

theorem month_end_le_next_year (E : Eph) (a b : Int) (hb9 : b + 1 ≤ 9999) (ht : TilesOn E a b) (x : Month)
    (hx : WF E x) (hxa : a ≤ x.y) (hxb : x.y ≤ b) : first E x + len E x ≤ first E ⟨x.y + 1, 0⟩ := by
  have hw1 : WF E ⟨x.y + 1, 0⟩ := ⟨by dsimp only; have := hx.1; omega, by dsimp only; omega, by dsimp only; have := cnt_cases E (x.y + 1); omega⟩
  have hg : gpos E x < gpos E ⟨x.y + 1, 0⟩ := by
    have := gpos_lt_next_year E x hx
    unfold gpos at *; dsimp only; omega
  have hvb : (⟨x.y + 1, 0⟩ : Month).y ≤ b ∨ (⟨x.y + 1, 0⟩ : Month) = ⟨b + 1, 0⟩ := by
    by_cases h : x.y + 1 ≤ b
    · left; exact h
    · right; have : x.y = b := by omega
      rw [this]
  exact first_mono E a b hb9 ht ⟨x.y + 1, 0⟩ hw1 hvb (gpos E ⟨x.y + 1, 0⟩ - gpos E x - 1).toNat x hx hxa (by omega)

/-- the lunar year of the month containing a civil date of year Y is Y−1, Y, or Y+1 — and Y+1 only after Lichun -/
theorem lunar_year_of_civil (a b : Nat) (hab : a + 1 ≤ b) (hb : b ≤ 9998) (ht : TilesOn realEph a b) (ha1 : 1 ≤ a)
    (Y M D : Int) (hv : Civil.valid Y M D = true) (hY1 : (a : Int) + 1 ≤ Y) (hY2 : Y + 1 ≤ b)
    (x : Month) (hx : WF realEph x) (hxa : (a : Int) ≤ x.y) (hxb : x.y ≤ b)
    (h1 : first realEph x ≤ jdn Y M D) (h2 : jdn Y M D < first realEph x + len realEph x) :
    (x.y = Y ∨ x.y = Y - 1 ∨ (x.y = Y + 1 ∧ ¬ jdn Y M D < realEph.termDay (24 * (Y - 1) + 3).toNat)) := by
  obtain ⟨c1, c2⟩ := civil_year_bounds Y M D hv (by omega)
  have ha0 : (0 : Int) ≤ (a : Int) := by omega
  have hb9 : (b : Int) + 1 ≤ 9999 := by omega
  by_cases hlow : x.y ≤ Y - 2
  · exfalso
    have e1 := month_end_le_next_year realEph a b hb9 ht x hx hxa hxb
    have e2 := year_first_mono realEph a b ha0 hb9 ht (x.y + 1) (Y - 1) (by omega) (by omega) (by omega)
    have hny := realEph_newyear (Y - 1).toNat (by omega) (by omega)
    have ey : (((Y - 1).toNat : Nat) : Int) = Y - 1 := by omega
    rw [ey] at hny
    have hyl := C01_yearLen_dist (Y - 1) (by omega) (by omega)
    have e3 : Y - 1 + 1 = Y := by omega
    rw [e3] at hyl
    have hd : Civil.daysInYear (Y - 1) ≥ 355 := by unfold Civil.daysInYear; repeat' split <;> omega
    have : first realEph ⟨Y - 1, 0⟩ = realEph.mFirst (Y - 1) 0 := rfl
    omega
  · by_cases hhigh : x.y ≥ Y + 2
    · exfalso
      have e1 := month_ge_year_first realEph a b ha0 hb9 ht x hx hxa hxb
      have e2 := year_first_mono realEph a b ha0 hb9 ht (Y + 2) x.y (by omega) hhigh (by omega)
      have hny := realEph_newyear (Y + 2).toNat (by omega) (by omega)
      have ey : (((Y + 2).toNat : Nat) : Int) = Y + 2 := by omega
      rw [ey] at hny
      have hyl := C01_yearLen_dist (Y + 1) (by omega) (by omega)
      have e3 : Y + 1 + 1 = Y + 2 := by omega
      rw [e3] at hyl
      have hd : Civil.daysInYear (Y + 1) ≥ 355 := by unfold Civil.daysInYear; repeat' split <;> omega
      have : first realEph ⟨Y + 2, 0⟩ = realEph.mFirst (Y + 2) 0 := rfl
      omega
    · by_cases hy1 : x.y = Y + 1
      · right; right
        refine ⟨hy1, ?_⟩
        have e1 := month_ge_year_first realEph a b ha0 hb9 ht x hx hxa hxb
        rw [hy1] at e1
        have hny := realEph_newyear (Y + 1).toNat (by omega) (by omega)
        have ey : (((Y + 1).toNat : Nat) : Int) = Y + 1 := by omega
        rw [ey] at hny
        have hyl := C01_yearLen_dist Y (by omega) (by omega)
        have hd : Civil.daysInYear Y ≥ 355 := by unfold Civil.daysInYear; repeat' split <;> omega
        have hw := (realEph_termWin (24 * (Y - 1) + 3).toNat (by omega) (by omega)).2.2 (by omega)
        have eyy : ((((24 * (Y - 1) + 3).toNat / 24 + 1 : Nat)) : Int) = Y := by omega
        rw [eyy] at hw
        have : first realEph ⟨Y + 1, 0⟩ = realEph.mFirst (Y + 1) 0 := rfl
        omega
      · have : x.y = Y ∨ x.y = Y - 1 := by omega
        rcases this with h | h
        · left; exact h
        · right; left; exact h

end Tyme
