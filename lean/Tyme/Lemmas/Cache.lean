import Tyme.Model.Cache
/-! Helper lemmas for C10: injectivity of the delimited decimal key, invariant of the memo state machine. -/
namespace Tyme.Cache

def ofRev : List Nat → Nat
  | [] => 0
  | d :: ds => d + 10 * ofRev ds

theorem ofRev_digitsRev : ∀ f n, n < f → ofRev (digitsRev f n) = n := by
  intro f
  induction f with
  | zero => intro n h; omega
  | succ f ih =>
    intro n h
    simp only [digitsRev]
    split
    · simp [ofRev]
    · have := ih (n / 10) (by omega)
      simp only [ofRev, this]; omega

theorem digitsRev_lt : ∀ f n x, x ∈ digitsRev f n → x < 10 := by
  intro f
  induction f with
  | zero => intro n x h; simp [digitsRev] at h
  | succ f ih =>
    intro n x h
    simp only [digitsRev] at h
    split at h
    · simp at h; omega
    · simp only [List.mem_cons] at h
      rcases h with h | h
      · omega
      · exact ih _ _ h

theorem digitsRev_ne_nil : ∀ f n, 0 < f → digitsRev f n ≠ [] := by
  intro f n hf
  cases f with
  | zero => omega
  | succ f => simp only [digitsRev]; split <;> simp

theorem renderNat_inj (a b : Nat) (h : renderNat a = renderNat b) : a = b := by
  unfold renderNat at h
  have h1 := List.reverse_inj.1 h
  have h2 : digitsRev (a + 1) a = digitsRev (b + 1) b :=
    (List.map_inj_right (f := fun x : Nat => x + 48) (fun x y hxy => by simpa using hxy)).1 h1
  have := congrArg ofRev h2
  rwa [ofRev_digitsRev _ _ (by omega), ofRev_digitsRev _ _ (by omega)] at this

theorem renderNat_range (n x : Nat) (h : x ∈ renderNat n) : 48 ≤ x ∧ x ≤ 57 := by
  unfold renderNat at h
  simp only [List.mem_reverse, List.mem_map] at h
  obtain ⟨d, hd, rfl⟩ := h
  have := digitsRev_lt _ _ _ hd
  omega

theorem renderNat_ne_nil (n : Nat) : renderNat n ≠ [] := by
  unfold renderNat
  simp only [ne_eq, List.reverse_eq_nil_iff, List.map_eq_nil_iff]
  exact digitsRev_ne_nil _ _ (by omega)

theorem render_no_delim (i : Int) : 95 ∉ render i := by
  unfold render
  split
  · intro h
    simp only [List.mem_cons] at h
    rcases h with h | h
    · omega
    · have := renderNat_range _ _ h; omega
  · intro h; have := renderNat_range _ _ h; omega

theorem render_inj (a b : Int) (h : render a = render b) : a = b := by
  unfold render at h
  split at h <;> split at h
  · simp only [List.cons.injEq, true_and] at h
    have := renderNat_inj _ _ h; omega
  · exfalso
    cases hb : renderNat b.natAbs with
    | nil => exact renderNat_ne_nil _ hb
    | cons x xs =>
      rw [hb] at h
      simp only [List.cons.injEq] at h
      have := renderNat_range b.natAbs x (by rw [hb]; simp)
      omega
  · exfalso
    cases ha : renderNat a.natAbs with
    | nil => exact renderNat_ne_nil _ ha
    | cons x xs =>
      rw [ha] at h
      simp only [List.cons.injEq] at h
      have := renderNat_range a.natAbs x (by rw [ha]; simp)
      omega
  · have := renderNat_inj _ _ h; omega

theorem split_at_delim (s : Nat) : ∀ (a a' b b' : List Nat), s ∉ a → s ∉ a' →
    a ++ [s] ++ b = a' ++ [s] ++ b' → a = a' ∧ b = b' := by
  intro a
  induction a with
  | nil =>
    intro a' b b' _ h2 h
    cases a' with
    | nil => simpa using h
    | cons x xs =>
      simp only [List.nil_append, List.cons_append, List.cons.injEq] at h
      exfalso; apply h2; rw [← h.1]; simp
  | cons x xs ih =>
    intro a' b b' h1 h2 h
    cases a' with
    | nil =>
      simp only [List.nil_append, List.cons_append, List.cons.injEq] at h
      exfalso; apply h1; rw [h.1]; simp
    | cons y ys =>
      simp only [List.cons_append, List.cons.injEq] at h
      have := ih ys b b' (fun hh => h1 (List.mem_cons_of_mem _ hh)) (fun hh => h2 (List.mem_cons_of_mem _ hh)) (by simpa using h.2)
      exact ⟨by rw [h.1, this.1], this.2⟩

/-- the delimited key identifies (year, month) -/
theorem key_inj (y m y' m' : Int) (h : key y m = key y' m') : y = y' ∧ m = m' := by
  unfold key at h
  have := split_at_delim 95 _ _ _ _ (render_no_delim y) (render_no_delim y') h
  exact ⟨render_inj _ _ this.1, render_inj _ _ this.2⟩

/-! ### invariant of the memo -/

/-- every cached entry is the pure answer of the query its key renders -/
def Inv (kf : Int → Int → Key) (pure : Int → Int → Option Rec) (c : State) : Prop :=
  ∀ k v, lookup c k = some v → ∃ y m, kf y m = k ∧ pure y m = some v

theorem lookup_insert (c : State) (k k' : Key) (v : Rec) :
    lookup (insert c k v) k' = if k = k' then some v else lookup c k' := by
  unfold insert
  simp only [lookup]
  split
  · rfl
  · rename_i hne
    induction c with
    | nil => simp [lookup]
    | cons p ps ih =>
      simp only [List.filter]
      by_cases hp : p.1 = k
      · have : decide (p.1 ≠ k) = false := by simp [hp]
        simp only [this]
        rw [ih]
        obtain ⟨pk, pv⟩ := p
        simp only at hp
        simp only [lookup]
        have : ¬ pk = k' := by rw [hp]; exact hne
        simp [this]
      · have : decide (p.1 ≠ k) = true := by simp [hp]
        simp only [this]
        obtain ⟨pk, pv⟩ := p
        simp only [lookup]
        split
        · rfl
        · exact ih

theorem inv_insert (kf : Int → Int → Key) (pure : Int → Int → Option Rec) (c : State) (y m : Int) (v : Rec)
    (hi : Inv kf pure c) (hp : pure y m = some v) : Inv kf pure (insert c (kf y m) v) := by
  intro k w h
  rw [lookup_insert] at h
  split at h
  · rename_i hk
    simp only [Option.some.injEq] at h
    subst h
    exact ⟨y, m, hk, hp⟩
  · exact hi k w h

theorem inv_step (kf : Int → Int → Key) (pure : Int → Int → Option Rec) (c : State) (q : Int × Int)
    (hi : Inv kf pure c) : Inv kf pure (step kf pure c q).1 := by
  unfold step
  split
  · exact hi
  · split
    · exact hi
    · rename_i v hv
      exact inv_insert kf pure c q.1 q.2 v hi hv

theorem inv_nil (kf : Int → Int → Key) (pure : Int → Int → Option Rec) : Inv kf pure [] := by
  intro k v h; simp [lookup] at h

end Tyme.Cache
