import Tyme.Model.LunarWeek
import Tyme.Lemmas.Week
import Tyme.Lemmas.LunarWalk
import Tyme.Thm.C01
/-! Helper lemmas for the lunar half of C14: the lunar instance of `Wk.MonthOps` satisfies `Wk.Laws` on a tiling
interval of lunar years, and the literal model of `LunarWeek` (Model/LunarWeek.lean) agrees with the generic week
code there. -/
namespace Tyme.LWk
open Tyme Tyme.Wk Tyme.Lunar

/-! ### `LunarMonth::next(±1)` is total inside the table and is the successor / predecessor in the listing -/

theorem fromYm_mwl (E : Eph) (hl : ∀ y, E.leap y ≤ 12) (x : Month) (hx : WF E x) :
    fromYm E x.y (monthWithLeap E x) = some x := by
  rw [monthWithLeap_eq]
  have := fromYm_of_pos E x.y ((x.idx : Int) + 1) hx.1 hx.2.1 (hl _) (by omega) (by have := hx.2.2; omega)
  rw [this]
  have e2 : ((x.idx : Int) + 1 - 1).toNat = x.idx := by omega
  rw [e2]

theorem next_one_some (E : Eph) (hl : ∀ y, E.leap y ≤ 12) (x : Month) (hx : WF E x) (h9 : x.y + 1 ≤ 9999) :
    ∃ r, Lunar.next E x 1 = some r := by
  obtain ⟨h1, h2, h3⟩ := hx
  have hc := cnt_cases E x.y
  have hc' := cnt_cases E (x.y + 1)
  unfold Lunar.next
  have e0 : ¬ ((1 : Int) = 0) := by omega
  have e1 : (1 : Int) > 0 := by omega
  have ef : (1 : Int).natAbs + 1 = 2 := rfl
  simp only [e0, e1, if_false, if_true, ef]
  by_cases hin : (x.idx : Int) + 1 + 1 > (E.cnt x.y : Int)
  · have hl1 : loopF E 2 ((x.idx : Int) + 1 + 1) x.y = some ((x.idx : Int) + 1 + 1 - E.cnt x.y, x.y + 1) := by
      have a1 : ¬ (x.y + 1 > 9999) := by omega
      have a2 : ¬ ((x.idx : Int) + 1 + 1 - (E.cnt x.y : Int) > (E.cnt (x.y + 1) : Int)) := by omega
      simp only [loopF, hin, if_true, a1, if_false, a2]
    rw [hl1]
    dsimp only
    have := fromYm_of_pos E (x.y + 1) ((x.idx : Int) + 1 + 1 - E.cnt x.y) (by omega) h9 (hl _) (by omega) (by omega)
    exact ⟨_, this⟩
  · have hl1 : loopF E 2 ((x.idx : Int) + 1 + 1) x.y = some ((x.idx : Int) + 1 + 1, x.y) := by
      simp only [loopF, hin, if_false]
    rw [hl1]
    dsimp only
    have := fromYm_of_pos E x.y ((x.idx : Int) + 1 + 1) h1 h2 (hl _) (by omega) (by omega)
    exact ⟨_, this⟩

/-- `LunarMonth::next(1)` answers the successor in the listing (any month of years 0..9998) -/
theorem next_one (E : Eph) (hl : ∀ y, E.leap y ≤ 12) (x : Month) (hx : WF E x) (h9 : x.y + 1 ≤ 9999) :
    Lunar.next E x 1 = some (succM E x) := by
  obtain ⟨r, hr⟩ := next_one_some E hl x hx h9
  obtain ⟨w', g'⟩ := next_gpos E hl x hx 1 r hr
  rw [hr, succM_of_gpos E x r hx w' g']

theorem next_neg_one_some (E : Eph) (hl : ∀ y, E.leap y ≤ 12) (x : Month) (hx : WF E x)
    (h : 0 < x.idx ∨ 1 ≤ x.y) : ∃ r, Lunar.next E x (-1) = some r := by
  obtain ⟨h1, h2, h3⟩ := hx
  have hc := cnt_cases E x.y
  have hc' := cnt_cases E (x.y - 1)
  unfold Lunar.next
  have e0 : ¬ ((-1 : Int) = 0) := by omega
  have e1 : ¬ ((-1 : Int) > 0) := by omega
  have ef : (-1 : Int).natAbs + 1 = 2 := rfl
  simp only [e0, e1, if_false, ef]
  by_cases hin : (x.idx : Int) + 1 + -1 ≤ 0
  · have hy : 1 ≤ x.y := by omega
    have hl1 : loopB E 2 ((x.idx : Int) + 1 + -1) x.y = some ((x.idx : Int) + 1 + -1 + E.cnt (x.y - 1), x.y - 1) := by
      have a1 : ¬ (x.y - 1 < -1) := by omega
      have a2 : ¬ ((x.idx : Int) + 1 + -1 + (E.cnt (x.y - 1) : Int) ≤ 0) := by omega
      simp only [loopB, hin, if_true, a1, if_false, a2]
    rw [hl1]
    dsimp only
    have := fromYm_of_pos E (x.y - 1) ((x.idx : Int) + 1 + -1 + E.cnt (x.y - 1)) (by omega) (by omega) (hl _) (by omega) (by omega)
    exact ⟨_, this⟩
  · have hl1 : loopB E 2 ((x.idx : Int) + 1 + -1) x.y = some ((x.idx : Int) + 1 + -1, x.y) := by
      simp only [loopB, hin, if_false]
    rw [hl1]
    dsimp only
    have := fromYm_of_pos E x.y ((x.idx : Int) + 1 + -1) h1 h2 (hl _) (by omega) (by omega)
    exact ⟨_, this⟩

/-- whatever `next(-1)` answers is the month whose successor is x -/
theorem next_neg_one_succ (E : Eph) (hl : ∀ y, E.leap y ≤ 12) (x r : Month) (hx : WF E x)
    (h : Lunar.next E x (-1) = some r) : WF E r ∧ x = succM E r := by
  obtain ⟨w', g'⟩ := next_gpos E hl x hx (-1) r h
  exact ⟨w', succM_of_gpos E r x w' hx (by omega)⟩

/-! ### the lunar instance restricted to a closed interval of lunar years -/

/-- months of the interval -/
def okOn (E : Eph) (a b : Int) (x : Month) : Prop := WF E x ∧ a ≤ x.y ∧ x.y ≤ b

/-- `lunarOps E` with `next`/`prev` cut at the ends of the interval: same first days, lengths, week counts -/
def lunarOpsOn (E : Eph) (a b : Int) : MonthOps Month where
  first := Lunar.first E
  len := Lunar.len E
  next := fun x => match Lunar.next E x 1 with
    | some x' => if x'.y ≤ b then some x' else none
    | none => none
  prev := fun x => match Lunar.next E x (-1) with
    | some x' => if a ≤ x'.y then some x' else none
    | none => none

theorem on_next (E : Eph) (a b : Int) (m m' : Month) (h : (lunarOpsOn E a b).next m = some m') :
    Lunar.next E m 1 = some m' ∧ m'.y ≤ b := by
  unfold lunarOpsOn at h; dsimp only at h
  split at h
  · split at h
    · cases h; rename_i h1 h2; exact ⟨h1, h2⟩
    · cases h
  · cases h

theorem on_prev (E : Eph) (a b : Int) (m m' : Month) (h : (lunarOpsOn E a b).prev m = some m') :
    Lunar.next E m (-1) = some m' ∧ a ≤ m'.y := by
  unfold lunarOpsOn at h; dsimp only at h
  split at h
  · split at h
    · cases h; rename_i h1 h2; exact ⟨h1, h2⟩
    · cases h
  · cases h

theorem succM_year (E : Eph) (x : Month) : (succM E x).y = x.y ∨ (succM E x).y = x.y + 1 := by
  unfold succM; split <;> simp

/-- the month laws hold for lunar months on every tiling interval -/
theorem lunarLaws (E : Eph) (hl : ∀ y, E.leap y ≤ 12) (a b : Int) (ht : TilesOn E a b) :
    Laws (lunarOpsOn E a b) (okOn E a b) where
  next_ok := by
    intro m m' hm hn
    obtain ⟨h1, h2⟩ := on_next E a b m m' hn
    obtain ⟨w', g'⟩ := next_gpos E hl m hm.1 1 m' h1
    have hs := succM_of_gpos E m m' hm.1 w' g'
    have := succM_year E m
    rw [← hs] at this
    exact ⟨w', by have := hm.2.1; omega, h2⟩
  prev_ok := by
    intro m m' hm hn
    obtain ⟨h1, h2⟩ := on_prev E a b m m' hn
    obtain ⟨w', hs⟩ := next_neg_one_succ E hl m m' hm.1 h1
    have := succM_year E m'
    rw [← hs] at this
    exact ⟨w', h2, by have := hm.2.2; omega⟩
  next_first := by
    intro m m' hm hn
    obtain ⟨h1, h2⟩ := on_next E a b m m' hn
    obtain ⟨w', g'⟩ := next_gpos E hl m hm.1 1 m' h1
    have hs := succM_of_gpos E m m' hm.1 w' g'
    have := (tiles_step E m (ht m.y hm.2.1 hm.2.2) hm.1.2.2).1
    rw [← hs] at this
    exact this
  prev_first := by
    intro m m' hm hn
    obtain ⟨h1, h2⟩ := on_prev E a b m m' hn
    obtain ⟨w', hs⟩ := next_neg_one_succ E hl m m' hm.1 h1
    have hy := succM_year E m'
    rw [← hs] at hy
    have := (tiles_step E m' (ht m'.y h2 (by have := hm.2.2; omega)) w'.2.2).1
    rw [← hs] at this
    exact this
  len_lo := by
    intro m hm
    have := (tiles_step E m (ht m.y hm.2.1 hm.2.2) hm.1.2.2).2
    show 8 ≤ Lunar.len E m
    omega
  len_hi := by
    intro m hm
    have := (tiles_step E m (ht m.y hm.2.1 hm.2.2) hm.1.2.2).2
    show Lunar.len E m ≤ 36
    omega

theorem len_29_30 (E : Eph) (a b : Int) (ht : TilesOn E a b) (x : Month) (hx : okOn E a b x) :
    Lunar.len E x = 29 ∨ Lunar.len E x = 30 :=
  (tiles_step E x (ht x.y hx.2.1 hx.2.2) hx.1.2.2).2

/-- the interval as a range of day numbers: every month of it lies between the first day of year a and the first
day of year b+1 -/
theorem interval_bounds (E : Eph) (a b : Int) (ha0 : 0 ≤ a) (hb9 : b + 1 ≤ 9999) (ht : TilesOn E a b)
    (x : Month) (hx : okOn E a b x) :
    Lunar.first E ⟨a, 0⟩ ≤ Lunar.first E x ∧ Lunar.first E x + Lunar.len E x ≤ Lunar.first E ⟨b + 1, 0⟩ := by
  obtain ⟨hw, hxa, hxb⟩ := hx
  have hwa : WF E ⟨a, 0⟩ := ⟨ha0, by dsimp only; omega, by dsimp only; have := cnt_cases E a; omega⟩
  have hwb : WF E ⟨b + 1, 0⟩ := ⟨by dsimp only; omega, by dsimp only; omega, by dsimp only; have := cnt_cases E (b + 1); omega⟩
  constructor
  · rcases Int.lt_trichotomy (gpos E ⟨a, 0⟩) (gpos E x) with hg | hg | hg
    · have := first_mono E a b hb9 ht x hw (Or.inl hxb) (gpos E x - gpos E ⟨a, 0⟩ - 1).toNat ⟨a, 0⟩ hwa (Int.le_refl _) (by omega)
      have hl0 := (tiles_step E ⟨a, 0⟩ (ht a (Int.le_refl _) (by omega)) hwa.2.2).2
      omega
    · have := gpos_inj E _ _ hwa hw hg
      rw [← this]; omega
    · exfalso
      have := cumI_le_of_le E a x.y ha0 hxa
      unfold gpos at hg; dsimp only at hg; omega
  · have hgl : gpos E x < gpos E ⟨b + 1, 0⟩ := by
      have := gpos_lt_next_year E x hw
      have := cumI_le_of_le E (x.y + 1) (b + 1) (by have := hw.1; omega) (by omega)
      unfold gpos at *; dsimp only at *; omega
    exact first_mono E a b hb9 ht ⟨b + 1, 0⟩ hwb (Or.inr rfl) (gpos E ⟨b + 1, 0⟩ - gpos E x - 1).toNat x hw hxa (by omega)

/-- a refusal of the cut `next` happens only at the last month of year b … -/
theorem on_next_none (E : Eph) (hl : ∀ y, E.leap y ≤ 12) (a b : Int) (hb9 : b + 1 ≤ 9999) (ht : TilesOn E a b)
    (m : Month) (hm : okOn E a b m) (hn : (lunarOpsOn E a b).next m = none) :
    Lunar.first E m + Lunar.len E m = Lunar.first E ⟨b + 1, 0⟩ := by
  have h1 := next_one E hl m hm.1 (by have := hm.2.2; omega)
  have hts := (tiles_step E m (ht m.y hm.2.1 hm.2.2) hm.1.2.2).1
  unfold lunarOpsOn at hn; dsimp only at hn
  rw [h1] at hn; dsimp only at hn
  split at hn
  · cases hn
  · rename_i hgt
    have hy : (succM E m) = ⟨b + 1, 0⟩ := by
      unfold succM at hgt ⊢
      split
      · rename_i hh; simp only [hh, if_true] at hgt; have := hm.2.2; omega
      · rename_i hh; simp only [hh, if_false] at hgt
        have : m.y = b := by have := hm.2.2; omega
        rw [this]
    rw [hy] at hts
    omega

/-- … and of the cut `prev` only at the first month of year a -/
theorem on_prev_none (E : Eph) (hl : ∀ y, E.leap y ≤ 12) (a b : Int) (ha0 : 0 ≤ a)
    (m : Month) (hm : okOn E a b m) (hn : (lunarOpsOn E a b).prev m = none) : m = ⟨a, 0⟩ := by
  by_cases hz : 0 < m.idx ∨ 1 ≤ m.y
  · obtain ⟨r, hr⟩ := next_neg_one_some E hl m hm.1 hz
    obtain ⟨wr, hs⟩ := next_neg_one_succ E hl m r hm.1 hr
    unfold lunarOpsOn at hn; dsimp only at hn
    rw [hr] at hn; dsimp only at hn
    split at hn
    · cases hn
    · rename_i hlt
      -- r lies in year a-1, so m = succM r is the first month of year a
      rw [hs]; unfold succM
      rw [hs] at hm
      have hma := hm.2.1
      unfold succM at hma
      split
      · rename_i hh; simp only [hh, if_true] at hma; omega
      · rename_i hh; simp only [hh, if_false] at hma
        have : r.y + 1 = a := by omega
        rw [this]
  · have h0 : m.idx = 0 := by omega
    have hy : m.y = 0 := by have := hm.1.1; omega
    have : a = 0 := by have := hm.2.1; omega
    cases m; simp only at h0 hy; subst h0 hy this; rfl

/-! ### the literal model agrees with the generic code on the interval -/

theorem wc_on (E : Eph) (a b : Int) (x : Month) (s : Int) :
    weekCount (lunarOpsOn E a b) x s = monthWeekCount E x s := rfl

theorem firstJ_on (E : Eph) (a b : Int) (w : LunarWeek) :
    firstJ (lunarOpsOn E a b) w = firstJ (lunarOps E) w := rfl

/-- the civil day of a lunar day whose day number lies in 0001-01-01 .. 9999-12-31 -/
theorem daySolar_in_range (E : Eph) (x : Month) (k : Int)
    (h1 : jdnFirst ≤ Lunar.first E x + k - 1) (h2 : Lunar.first E x + k - 1 ≤ jdnLast) :
    daySolar E x k = some (ofJdn (Lunar.first E x + k - 1)) ∧
    Civil.validT (ofJdn (Lunar.first E x + k - 1)) = true ∧
    jdnT (ofJdn (Lunar.first E x + k - 1)) = Lunar.first E x + k - 1 := by
  obtain ⟨hv, hj⟩ := C01_jdn_ofJdn _ h1 h2
  refine ⟨?_, hv, hj⟩
  unfold daySolar
  dsimp only
  rw [C01_accept_iff]
  unfold Civil.validT at hv
  simp only [hv, if_true]

/-- `LunarDay::from_ymd(m.., 1)` of a month value -/
theorem firstLunarDay_eq (E : Eph) (hl : ∀ y, E.leap y ≤ 12) (x : Month) (hx : WF E x) (hlen : 1 ≤ Lunar.len E x) :
    firstLunarDay E x = some (x, 1) := by
  unfold firstLunarDay dayNew
  rw [fromYm_mwl E hl x hx]
  have : ¬ ((1 : Int) < 1 ∨ 1 > Lunar.len E x) := by omega
  simp only [this, if_false]

/-- `LunarDay::from_ymd(m.., 1).get_week()` is the weekday of the month's first day number whenever that day is a
civil date of the supported range -/
theorem wdFirst_eq (E : Eph) (hl : ∀ y, E.leap y ≤ 12) (x : Month) (hx : WF E x) (hlen : 1 ≤ Lunar.len E x)
    (h1 : jdnFirst ≤ Lunar.first E x) (h2 : Lunar.first E x ≤ jdnLast) :
    wdFirst E x = some (weekOfJdn (Lunar.first E x)) := by
  unfold wdFirst
  rw [firstLunarDay_eq E hl x hx hlen]
  dsimp only
  unfold dayWeek
  dsimp only
  obtain ⟨a1, _, a3⟩ := daySolar_in_range E x 1 (by omega) (by omega)
  rw [a1]
  dsimp only
  unfold jdnT at a3
  rw [a3]
  congr 2; omega

/-- hypotheses under which the literal model is compared with the generic code: a tiling interval of lunar years
whose months all begin on civil dates of the supported range -/
structure Good (E : Eph) (a b : Int) : Prop where
  leap_le : ∀ y, E.leap y ≤ 12
  a0 : 0 ≤ a
  b9 : b + 1 ≤ 9999
  tiles : TilesOn E a b
  lo : jdnFirst ≤ Lunar.first E ⟨a, 0⟩
  hi : Lunar.first E ⟨b + 1, 0⟩ ≤ jdnLast + 1

theorem Good.rep {E : Eph} {a b : Int} (G : Good E a b) (x : Month) (hx : okOn E a b x) :
    jdnFirst ≤ Lunar.first E x ∧ Lunar.first E x + Lunar.len E x - 1 ≤ jdnLast ∧
    (Lunar.len E x = 29 ∨ Lunar.len E x = 30) := by
  have := interval_bounds E a b G.a0 G.b9 G.tiles x hx
  have hlen := len_29_30 E a b G.tiles x hx
  have := G.lo; have := G.hi
  exact ⟨by omega, by omega, hlen⟩

theorem Good.wd {E : Eph} {a b : Int} (G : Good E a b) (x : Month) (hx : okOn E a b x) :
    wdFirst E x = some (weekOfJdn (Lunar.first E x)) := by
  obtain ⟨r1, r2, r3⟩ := G.rep x hx
  exact wdFirst_eq E G.leap_le x hx.1 (by omega) r1 (by omega)

theorem Good.laws {E : Eph} {a b : Int} (G : Good E a b) : Laws (lunarOpsOn E a b) (okOn E a b) :=
  lunarLaws E G.leap_le a b G.tiles

/-- forward loop: whenever the generic loop over the cut instance answers, the literal loop answers the same -/
theorem lfwd_of_fwd {E : Eph} {a b : Int} (G : Good E a b) (s : Int) :
    ∀ (fuel : Nat) (m : Month) (d : Int) (r : Month × Int), okOn E a b m →
      fwd (lunarOpsOn E a b) s fuel m d = some r → lfwd E s fuel m d = some r := by
  intro fuel
  induction fuel with
  | zero =>
    intro m d r hm h
    unfold fwd at h
    unfold lfwd
    rw [wc_on] at h
    split at h
    · cases h
    · rename_i hd; simp only [hd, if_false]; exact h
  | succ fuel ih =>
    intro m d r hm h
    unfold fwd at h
    unfold lfwd
    rw [wc_on] at h
    by_cases hd : d ≥ monthWeekCount E m s
    · simp only [hd, if_true] at h ⊢
      cases hn : (lunarOpsOn E a b).next m with
      | none => rw [hn] at h; cases h
      | some m' =>
        rw [hn] at h
        dsimp only at h
        obtain ⟨h1, _⟩ := on_next E a b m m' hn
        have hm' := G.laws.next_ok m m' hm hn
        rw [h1]
        dsimp only
        rw [G.wd m' hm']
        dsimp only
        exact ih m' _ r hm' h
    · simp only [hd, if_false] at h ⊢
      exact h

/-- backward loop, likewise -/
theorem lbwd_of_bwd {E : Eph} {a b : Int} (G : Good E a b) (s : Int) :
    ∀ (fuel : Nat) (m : Month) (d : Int) (r : Month × Int), okOn E a b m →
      bwd (lunarOpsOn E a b) s fuel m d = some r → lbwd E s fuel m d = some r := by
  intro fuel
  induction fuel with
  | zero =>
    intro m d r hm h
    unfold bwd at h
    unfold lbwd
    split at h
    · cases h
    · rename_i hd; simp only [hd, if_false]; exact h
  | succ fuel ih =>
    intro m d r hm h
    unfold bwd at h
    unfold lbwd
    by_cases hd : d < 0
    · simp only [hd, if_true] at h ⊢
      cases hn : (lunarOpsOn E a b).prev m with
      | none => rw [hn] at h; cases h
      | some m' =>
        rw [hn] at h
        dsimp only at h
        obtain ⟨h1, _⟩ := on_prev E a b m m' hn
        have hm' := G.laws.prev_ok m m' hm hn
        rw [G.wd m hm]
        dsimp only
        rw [h1]
        dsimp only
        exact ih m' _ r hm' h
    · simp only [hd, if_false] at h ⊢
      exact h

/-- the final `LunarWeek::from_ym(m.get_year(), m.get_month_with_leap(), d, start)` -/
theorem lunarWeekNew_mwl (E : Eph) (hl : ∀ y, E.leap y ≤ 12) (m : Month) (hm : WF E m) (d s : Int) :
    lunarWeekNew E m.y (monthWithLeap E m) d s = weekNew (lunarOps E) m d s := by
  unfold lunarWeekNew weekNew
  rw [fromYm_mwl E hl m hm]
  rfl

/-- `LunarWeek::next(n)`: whenever the generic stepping over the cut instance answers, so does the literal model,
with the same week -/
theorem lunarWeekNext_of {E : Eph} {a b : Int} (G : Good E a b) (w : LunarWeek)
    (hw : WeekOk (lunarOpsOn E a b) (okOn E a b) w) (n : Int) (w' : LunarWeek)
    (h : weekNext (lunarOpsOn E a b) w n = some w') : lunarWeekNext E w n = some w' := by
  obtain ⟨hm, hs0, hs6, hi0, hi1⟩ := hw
  unfold weekNext at h
  unfold lunarWeekNext
  dsimp only at h ⊢
  by_cases hn : n > 0
  · have hn0 : ¬ n = 0 := by omega
    simp only [hn, if_true] at h
    simp only [hn0, hn, if_false, if_true]
    cases hf : fwd (lunarOpsOn E a b) w.start (w.index + n).toNat w.month (w.index + n) with
    | none => rw [hf] at h; cases h
    | some r =>
      rw [hf] at h
      rw [lfwd_of_fwd G w.start _ _ _ r hm hf]
      obtain ⟨m', d'⟩ := r
      dsimp only at h ⊢
      have hspec := fwd_spec (lunarOpsOn E a b) (okOn E a b) G.laws w.start ⟨hs0, hs6⟩ (w.index + n).toNat w.month
        (w.index + n) hm (by omega) (by omega)
      rw [hf] at hspec
      rw [lunarWeekNew_mwl E G.leap_le m' hspec.1.1]
      exact h
  · by_cases hn2 : n < 0
    · have hn0 : ¬ n = 0 := by omega
      simp only [hn, hn2, if_false, if_true] at h
      simp only [hn0, hn, if_false]
      cases hf : bwd (lunarOpsOn E a b) w.start (-(w.index + n)).toNat w.month (w.index + n) with
      | none => rw [hf] at h; cases h
      | some r =>
        rw [hf] at h
        rw [lbwd_of_bwd G w.start _ _ _ r hm hf]
        obtain ⟨m', d'⟩ := r
        dsimp only at h ⊢
        have hspec := bwd_spec (lunarOpsOn E a b) (okOn E a b) G.laws w.start ⟨hs0, hs6⟩ (-(w.index + n)).toNat w.month
          (w.index + n) hm (by omega) (by omega)
        rw [hf] at hspec
        rw [lunarWeekNew_mwl E G.leap_le m' hspec.1.1]
        exact h
    · have hz : n = 0 := by omega
      subst hz
      simp only [hn, if_false] at h
      simp only [if_true]
      have := weekNew_some _ _ _ _ _ h
      rw [this.1]
      cases w
      simp only [Int.add_zero]

/-! ### first day and listed days: whatever the conversions return is the lunar day with the right day number -/

theorem dayWeek_eq (E : Eph) (x : Month) (k : Int)
    (h1 : jdnFirst ≤ Lunar.first E x + k - 1) (h2 : Lunar.first E x + k - 1 ≤ jdnLast) :
    dayWeek E (x, k) = some (weekOfJdn (Lunar.first E x + k - 1)) := by
  unfold dayWeek
  dsimp only
  obtain ⟨a1, _, a3⟩ := daySolar_in_range E x k h1 h2
  rw [a1]
  dsimp only
  unfold jdnT at a3
  rw [a3]

/-- `LunarDay::next(n)` inside a good interval: if it answers, the answer is the lunar day (month of the interval,
day 1..len) whose day number is n more — provided the target day lies in the interval and in civil years a..b
(the guess-and-walk of `get_lunar_day` starts at the lunar month numbered like the civil month) -/
theorem lunarDayNext_spec {E : Eph} {a b : Int} (G : Good E a b) (x : Month) (k : Int) (hx : okOn E a b x)
    (hk1 : 1 ≤ k) (hk2 : k ≤ Lunar.len E x) (n : Int)
    (hY : a ≤ (ofJdn (Lunar.first E x + k - 1 + n)).1 ∧ (ofJdn (Lunar.first E x + k - 1 + n)).1 ≤ b)
    (hlo : Lunar.first E ⟨a, 0⟩ ≤ Lunar.first E x + k - 1 + n)
    (hhi : Lunar.first E x + k - 1 + n < Lunar.first E ⟨b + 1, 0⟩)
    (r : LDay) (h : lunarDayNext E (x, k) n = some r) :
    okOn E a b r.1 ∧ Lunar.first E r.1 + r.2 - 1 = Lunar.first E x + k - 1 + n ∧ 1 ≤ r.2 ∧ r.2 ≤ Lunar.len E r.1 := by
  unfold lunarDayNext at h
  by_cases hn : n = 0
  · simp only [hn, if_true, Option.some.injEq] at h
    subst h
    dsimp only
    exact ⟨hx, by omega, hk1, hk2⟩
  · simp only [hn, if_false] at h
    obtain ⟨r1, r2, _⟩ := G.rep x hx
    obtain ⟨a1, a2, a3⟩ := daySolar_in_range E x k (by omega) (by omega)
    rw [a1] at h
    dsimp only at h
    have glo := G.lo
    have ghi := G.hi
    obtain ⟨d1, d2, d3⟩ := dayNext_in_range (ofJdn (Lunar.first E x + k - 1)) n (by rw [a3]; omega) (by rw [a3]; omega)
    rw [d1, a3] at h
    dsimp only at h
    rw [a3] at d3
    unfold jdnT at d3
    have := ofSolar_spec E G.leap_le a b G.tiles _ _ _ hY.1 hY.2 (by rw [d3]; exact hlo) (by rw [d3]; exact hhi) r h
    rw [d3] at this
    obtain ⟨w, b1, b2, b3, b4, b5⟩ := this
    exact ⟨⟨w, b1, b2⟩, b3, b4, b5⟩

theorem firstShift_eq (E : Eph) (w : LunarWeek) :
    w.index * 7 - indexOf (weekOfJdn (Lunar.first E w.month) - w.start) 7 = firstShift (lunarOps E) w := rfl

/-- `LunarWeek::get_first_day` -/
theorem lunarWeekFirstDay_spec {E : Eph} {a b : Int} (G : Good E a b) (w : LunarWeek)
    (hw : WeekOk (lunarOpsOn E a b) (okOn E a b) w)
    (hY : a ≤ (ofJdn (firstJ (lunarOps E) w)).1 ∧ (ofJdn (firstJ (lunarOps E) w)).1 ≤ b)
    (hlo : Lunar.first E ⟨a, 0⟩ ≤ firstJ (lunarOps E) w)
    (r : LDay) (h : lunarWeekFirstDay E w = some r) :
    okOn E a b r.1 ∧ Lunar.first E r.1 + r.2 - 1 = firstJ (lunarOps E) w ∧ 1 ≤ r.2 ∧ r.2 ≤ Lunar.len E r.1 := by
  obtain ⟨hm, hs0, hs6, hi0, hi1⟩ := hw
  obtain ⟨r1, r2, r3⟩ := G.rep w.month hm
  have hb := interval_bounds E a b G.a0 G.b9 G.tiles w.month hm
  have hmeet := (meets_iff (lunarOps E) w.start w.month w.index).1 ⟨hi0, hi1⟩
  have eJ : firstJ (lunarOps E) w = Lunar.first E w.month + 1 - 1 + firstShift (lunarOps E) w := by
    unfold firstJ; show Lunar.first E w.month + _ = _; omega
  have eJ2 : J (lunarOps E) w.start w.month w.index = firstJ (lunarOps E) w := rfl
  rw [eJ2] at hmeet
  have e1 : (lunarOps E).first w.month = Lunar.first E w.month := rfl
  have e2 : (lunarOps E).len w.month = Lunar.len E w.month := rfl
  rw [e1, e2] at hmeet
  unfold lunarWeekFirstDay at h
  rw [firstLunarDay_eq E G.leap_le w.month hm.1 (by omega)] at h
  dsimp only at h
  rw [dayWeek_eq E w.month 1 (by omega) (by omega)] at h
  dsimp only at h
  have e3 : Lunar.first E w.month + 1 - 1 = Lunar.first E w.month := by omega
  rw [e3, firstShift_eq] at h
  have := lunarDayNext_spec G w.month 1 hm (by omega) (by omega) (firstShift (lunarOps E) w)
    (by rw [← eJ]; exact hY) (by rw [← eJ]; exact hlo) (by rw [← eJ]; omega) r h
  rw [← eJ] at this
  exact this

/-- `LunarWeek::get_days` -/
theorem lunarWeekDays_spec {E : Eph} {a b : Int} (G : Good E a b) (w : LunarWeek)
    (hw : WeekOk (lunarOpsOn E a b) (okOn E a b) w)
    (hY : ∀ k : Nat, k < 7 → a ≤ (ofJdn (firstJ (lunarOps E) w + k)).1 ∧ (ofJdn (firstJ (lunarOps E) w + k)).1 ≤ b)
    (hlo : Lunar.first E ⟨a, 0⟩ ≤ firstJ (lunarOps E) w)
    (hhi : firstJ (lunarOps E) w + 6 < Lunar.first E ⟨b + 1, 0⟩)
    (l : List LDay) (h : lunarWeekDays E w = some l) :
    l.length = 7 ∧ ∀ (k : Nat) (hk : k < l.length),
      okOn E a b l[k].1 ∧ Lunar.first E l[k].1 + l[k].2 - 1 = firstJ (lunarOps E) w + k ∧
      1 ≤ l[k].2 ∧ l[k].2 ≤ Lunar.len E l[k].1 := by
  unfold lunarWeekDays at h
  cases hf : lunarWeekFirstDay E w with
  | none => rw [hf] at h; cases h
  | some d =>
    rw [hf] at h
    dsimp only at h
    have h0 := hY 0 (by omega)
    simp only [Int.natCast_zero, Int.add_zero] at h0
    obtain ⟨d1, d2, d3, d4⟩ := lunarWeekFirstDay_spec G w hw h0 hlo d hf
    rw [mapM_some_iff] at h
    simp only [List.length_range, List.getElem_range] at h
    obtain ⟨hl, hall⟩ := h
    refine ⟨hl, ?_⟩
    intro k hk
    have := hall k (by omega) hk
    by_cases hk0 : k = 0
    · subst hk0
      simp only [if_true, Option.some.injEq] at this
      rw [← this]
      simp only [Int.natCast_zero, Int.add_zero]
      exact ⟨d1, d2, d3, d4⟩
    · simp only [hk0, if_false] at this
      obtain ⟨dx, dk⟩ := d
      dsimp only at d1 d2 d3 d4
      have hk7 : k < 7 := by omega
      have hYk := hY k hk7
      have := lunarDayNext_spec G dx dk d1 d3 d4 (k : Int) (by rw [d2]; exact hYk) (by rw [d2]; omega)
        (by rw [d2]; omega) l[k] this
      rw [d2] at this
      exact this

/-! ### acceptance, count, list of weeks -/

/-- `LunarWeek::new` accepts exactly: a constructible month, start 0..6, index 0..5 below the week count -/
theorem lunarWeekNew_iff (E : Eph) (y m i s : Int) (w : LunarWeek) :
    lunarWeekNew E y m i s = some w ↔
      ∃ x, fromYm E y m = some x ∧ w = ⟨x, i, s⟩ ∧ 0 ≤ s ∧ s ≤ 6 ∧ 0 ≤ i ∧ i ≤ 5 ∧ i < monthWeekCount E x s := by
  unfold lunarWeekNew
  constructor
  · intro h
    split at h
    · cases h
    · split at h
      · cases h
      · split at h
        · cases h
        · split at h
          · cases h
          · rename_i x hx
            split at h
            · cases h
            · cases h
              exact ⟨x, hx, rfl, by omega, by omega, by omega, by omega, by omega⟩
  · rintro ⟨x, hx, rfl, h1, h2, h3, h4, h5⟩
    have a : ¬ (i < 0 ∨ s < 0) := by omega
    have b : ¬ i > 5 := by omega
    have c : ¬ s > 6 := by omega
    have d : ¬ i ≥ monthWeekCount E x s := by omega
    simp only [a, b, c, hx, d, if_false]

theorem monthWeekCount_bounds (E : Eph) (x : Month) (s : Int) (h : Lunar.len E x = 29 ∨ Lunar.len E x = 30) :
    5 ≤ monthWeekCount E x s ∧ monthWeekCount E x s ≤ 6 := by
  unfold monthWeekCount
  rw [weekCount_eq]
  have e : (lunarOps E).len x = Lunar.len E x := rfl
  rw [e]
  omega

/-- `LunarMonth::get_weeks(start)` lists exactly the weeks 0 .. count−1 of the month, in order -/
theorem lunarWeeks_iff (E : Eph) (y m s : Int) (x : Month) (hx : fromYm E y m = some x)
    (hlen : Lunar.len E x = 29 ∨ Lunar.len E x = 30) (hs : 0 ≤ s ∧ s ≤ 6) (l : List LunarWeek) :
    lunarWeeks E y m s = some l ↔
      (l.length = (monthWeekCount E x s).toNat ∧ ∀ (k : Nat) (hk : k < l.length), l[k] = ⟨x, k, s⟩) := by
  have hb := monthWeekCount_bounds E x s hlen
  unfold lunarWeeks lunarWeekCount
  rw [hx]
  have : ¬ s < 0 := by omega
  simp only [this, if_false]
  rw [mapM_some_iff]
  simp only [List.length_range, List.getElem_range]
  constructor
  · rintro ⟨h1, h2⟩
    refine ⟨h1, ?_⟩
    intro k hk
    have := h2 k (by omega) hk
    rw [lunarWeekNew_iff] at this
    obtain ⟨x', hx', e, _⟩ := this
    rw [hx] at hx'; cases hx'
    exact e
  · rintro ⟨h1, h2⟩
    refine ⟨h1, ?_⟩
    intro k k1 k2
    rw [lunarWeekNew_iff]
    exact ⟨x, hx, h2 k k2, hs.1, hs.2, by omega, by omega, by omega⟩

/-! ### the extracted table: first days of the years at the ends of the good intervals (kernel evaluation) -/

theorem realFirst_eq (y : Nat) :
    Lunar.first realEph ⟨(y : Int), 0⟩ = ((Rec.sFirst (Rec.slot (yearRecs.getD y 0) 0) : Nat) : Int) := by
  simp only [Lunar.first, realEph, Int.toNat_natCast]

theorem real_ends_fact :
    (1721424 ≤ Rec.sFirst (Rec.slot (yearRecs.getD 1 0) 0) ∧ 1721424 ≤ Rec.sFirst (Rec.slot (yearRecs.getD 9 0) 0) ∧
     1721424 ≤ Rec.sFirst (Rec.slot (yearRecs.getD 25 0) 0) ∧ 1721424 ≤ Rec.sFirst (Rec.slot (yearRecs.getD 237 0) 0) ∧
     1721424 ≤ Rec.sFirst (Rec.slot (yearRecs.getD 240 0) 0)) ∧
    (Rec.sFirst (Rec.slot (yearRecs.getD 8 0) 0) ≤ 5373485 ∧ Rec.sFirst (Rec.slot (yearRecs.getD 23 0) 0) ≤ 5373485 ∧
     Rec.sFirst (Rec.slot (yearRecs.getD 236 0) 0) ≤ 5373485 ∧ Rec.sFirst (Rec.slot (yearRecs.getD 239 0) 0) ≤ 5373485 ∧
     Rec.sFirst (Rec.slot (yearRecs.getD 9999 0) 0) ≤ 5373485) := by
  decide +kernel

/-- the same facts about `realEph`: day 1 of the lunar years 1, 9, 25, 237, 240 is on or after 0001-01-01, day 1 of
the lunar years 8, 23, 236, 239, 9999 is on or before 10000-01-01 -/
theorem real_ends :
    (jdnFirst ≤ Lunar.first realEph ⟨1, 0⟩ ∧ jdnFirst ≤ Lunar.first realEph ⟨9, 0⟩ ∧ jdnFirst ≤ Lunar.first realEph ⟨25, 0⟩ ∧
     jdnFirst ≤ Lunar.first realEph ⟨237, 0⟩ ∧ jdnFirst ≤ Lunar.first realEph ⟨240, 0⟩) ∧
    (Lunar.first realEph ⟨8, 0⟩ ≤ jdnLast + 1 ∧ Lunar.first realEph ⟨23, 0⟩ ≤ jdnLast + 1 ∧
     Lunar.first realEph ⟨236, 0⟩ ≤ jdnLast + 1 ∧ Lunar.first realEph ⟨239, 0⟩ ≤ jdnLast + 1 ∧
     Lunar.first realEph ⟨9999, 0⟩ ≤ jdnLast + 1) := by
  obtain ⟨⟨l1, l2, l3, l4, l5⟩, ⟨u1, u2, u3, u4, u5⟩⟩ := real_ends_fact
  have e1 : Lunar.first realEph ⟨1, 0⟩ = _ := realFirst_eq 1
  have e2 : Lunar.first realEph ⟨9, 0⟩ = _ := realFirst_eq 9
  have e3 : Lunar.first realEph ⟨25, 0⟩ = _ := realFirst_eq 25
  have e4 : Lunar.first realEph ⟨237, 0⟩ = _ := realFirst_eq 237
  have e5 : Lunar.first realEph ⟨240, 0⟩ = _ := realFirst_eq 240
  have f1 : Lunar.first realEph ⟨8, 0⟩ = _ := realFirst_eq 8
  have f2 : Lunar.first realEph ⟨23, 0⟩ = _ := realFirst_eq 23
  have f3 : Lunar.first realEph ⟨236, 0⟩ = _ := realFirst_eq 236
  have f4 : Lunar.first realEph ⟨239, 0⟩ = _ := realFirst_eq 239
  have f5 : Lunar.first realEph ⟨9999, 0⟩ = _ := realFirst_eq 9999
  rw [e1, e2, e3, e4, e5, f1, f2, f3, f4, f5]
  unfold jdnFirst jdnLast
  omega

end Tyme.LWk
