import Tyme.Model.Festival
import Tyme.Spec.Festival
import Tyme.Lemmas.FestFmt
/- Generic lemmas for C20 (no table data here): bounded quantifiers, the regex fragment, number formatting. -/
namespace Tyme.Fest

/-! ## fixed-length patterns -/

/-- every pattern element accepts the corresponding byte (and there are enough bytes) -/
def okAll : List Pat → Bytes → Bool
  | [], _ => true
  | _ :: _, [] => false
  | p :: ps, b :: l => p.ok b && okAll ps l

theorem matchFix_eq (ps : List Pat) (l : Bytes) :
    matchFix ps l = if okAll ps l then some (l.take ps.length, l.drop ps.length) else none := by
  induction ps generalizing l with
  | nil => simp [matchFix, okAll]
  | cons p ps ih =>
    cases l with
    | nil => simp [matchFix, okAll]
    | cons b l =>
      simp only [matchFix, okAll, ih l]
      by_cases h1 : p.ok b = true <;> by_cases h2 : okAll ps l = true <;> simp [h1, h2]

theorem okAll_length {ps : List Pat} {l : Bytes} (h : okAll ps l = true) : ps.length ≤ l.length := by
  induction ps generalizing l with
  | nil => simp
  | cons p ps ih =>
    cases l with
    | nil => simp [okAll] at h
    | cons b l =>
      simp only [okAll, Bool.and_eq_true] at h
      have := ih h.2
      simp; omega

theorem okAll_append (ps qs : List Pat) (l : Bytes) :
    okAll (ps ++ qs) l = (okAll ps l && okAll qs (l.drop ps.length)) := by
  induction ps generalizing l with
  | nil => simp [okAll]
  | cons p ps ih =>
    cases l with
    | nil =>
      simp [okAll]
    | cons b l =>
      simp [okAll, ih l, Bool.and_assoc]

theorem okAll_lits (s l : Bytes) : okAll (lits s) l = (s.isPrefixOf l) := by
  induction s generalizing l with
  | nil => simp [lits, okAll]
  | cons c s ih =>
    cases l with
    | nil => simp [lits, okAll]
    | cons b l =>
      have := ih l
      simp only [lits] at this
      simp only [lits, List.map_cons, okAll, Pat.ok, this, List.isPrefixOf]
      by_cases h : b = c
      · subst h; simp
      · have h' : ¬ c = b := fun e => h e.symm
        have e1 : (b == c) = false := by simpa using h
        have e2 : (c == b) = false := by simpa using h'
        rw [e1, e2]

/-- pointwise refinement of patterns -/
def Refines : List Pat → List Pat → Prop
  | [], [] => True
  | p :: ps, q :: qs => (∀ b, p.ok b = true → q.ok b = true) ∧ Refines ps qs
  | _, _ => False

theorem okAll_refines : ∀ {ps qs : List Pat}, Refines ps qs → ∀ {l : Bytes}, okAll ps l = true → okAll qs l = true
  | [], [], _, _, _ => by simp [okAll]
  | p :: ps, q :: qs, h, l, hl => by
    cases l with
    | nil => simp [okAll] at hl
    | cons b l =>
      simp only [okAll, Bool.and_eq_true] at hl ⊢
      exact ⟨h.1 b hl.1, okAll_refines h.2 hl.2⟩
  | [], _ :: _, h, _, _ => by simp [Refines] at h
  | _ :: _, [], h, _, _ => by simp [Refines] at h

theorem matchHere_noplus (r : Rx) (hp : r.plus = false) (l : Bytes) :
    r.matchHere l = if okAll r.fix l then some (l.take r.fix.length) else none := by
  unfold Rx.matchHere
  rw [matchFix_eq]
  by_cases h : okAll r.fix l = true <;> simp [h, hp]

/-! ## find -/

theorem find_some {r : Rx} : ∀ {l : Bytes} {m : Bytes}, r.find l = some m → ∃ o, r.matchHere (l.drop o) = some m := by
  intro l
  induction l with
  | nil => intro m h; exact ⟨0, by simpa [Rx.find] using h⟩
  | cons b t ih =>
    intro m h
    unfold Rx.find at h
    cases hm : r.matchHere (b :: t) with
    | some m' =>
      rw [hm] at h
      exact ⟨0, by simpa [hm] using h⟩
    | none =>
      rw [hm] at h
      obtain ⟨o, ho⟩ := ih h
      exact ⟨o + 1, by simpa using ho⟩

theorem find_none {r : Rx} : ∀ {l : Bytes}, r.find l = none → ∀ o, r.matchHere (l.drop o) = none := by
  intro l
  induction l with
  | nil => intro h o; simpa [Rx.find] using h
  | cons b t ih =>
    intro h o
    unfold Rx.find at h
    cases hm : r.matchHere (b :: t) with
    | some m' => rw [hm] at h; cases h
    | none =>
      rw [hm] at h
      cases o with
      | zero => simpa using hm
      | succ o => simpa using ih h o

theorem find_isSome_of_match {r : Rx} {l : Bytes} {o : Nat} {m : Bytes} (h : r.matchHere (l.drop o) = some m) :
    ∃ m', r.find l = some m' := by
  cases hf : r.find l with
  | some m' => exact ⟨m', rfl⟩
  | none => have := find_none hf o; rw [h] at this; cases this

end Tyme.Fest
