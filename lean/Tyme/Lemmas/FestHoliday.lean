import Tyme.Lemmas.Festival
import Tyme.Lemmas.Jd
import Tyme.Thm.C01
/- C20, holiday table: checkable well-formedness conditions (Bool, decided by the kernel on the dumped data in
Facts/C20.lean) and the data-independent theorems that follow from them. -/
namespace Tyme.Fest
open FestSpec

/-! ## checkers -/

/-- `\d{8}[0-1][0-8][\+|-]\d{2}`: the shape every look-up pattern of holiday.rs refines -/
def shape : List Pat := [.dig, .dig, .dig, .dig, .dig, .dig, .dig, .dig] ++ holTail

/-- the record shape matches at exactly the offsets that are multiples of 13 (`ph` = offset mod 13) -/
def alignedWalk : Bytes → Nat → Bool
  | [], _ => true
  | b :: t, ph => ((ph == 0) == okAll shape (b :: t)) && alignedWalk t ((ph + 1) % 13)

abbrev chunksOf (data : Bytes) : List Bytes := chunks (data.length / 13) data

/-- one 13-byte record: a real date, a known name index, and digits that print/parse canonically -/
def holRecOk (nNames : Nat) (c : Bytes) : Bool :=
  let r := parseHol c
  c.length == 13 &&
  Civil.valid r.y r.m r.d &&
  decide (r.idx < nNames) &&
  (fmtNat 4 r.y ++ fmtNat 2 r.m ++ fmtNat 2 r.d == c.take 8) &&
  (parseNat (c.take 4) == some r.y) && (parseNat ((c.drop 4).take 2) == some r.m) &&
  (parseNat ((c.drop 6).take 2) == some r.d)

def strictInc : List Nat → Bool
  | a :: b :: t => decide (a < b) && strictInc (b :: t)
  | _ => true

/-- year blocks of the record list: block `j` = records of year `lo + j` -/
def yearBlocks (cs : List Bytes) (lo n : Nat) : List (List Bytes) :=
  (List.range n).map fun j => cs.filter fun c => (parseHol c).y == lo + j

/-- every element of a block is the first one with its own 8-byte date prefix -/
def selfIndexed (b : List Bytes) : Bool :=
  allLt b.length fun i => firstPrefix ((b.getD i []).take 8) b 0 == some i

/-- first table year minus one, and the number of year blocks (one empty block on each side) -/
def holLo (cs : List Bytes) : Nat := (parseHol (cs.headD [])).y - 1
def holNb (cs : List Bytes) : Nat := (parseHol (cs.getLastD [])).y - holLo cs + 2

def blocksOk (cs : List Bytes) : Bool :=
  let lo := holLo cs
  let bl := yearBlocks cs lo (holNb cs)
  let N := bl.length - 1
  decide (2 ≤ bl.length) && decide (bl.length ≤ 10000) && decide (1 ≤ lo) && decide (lo + bl.length ≤ 10000) &&
  (bl.flatten == cs) &&
  (bl.getD 0 [] == []) && (bl.getD N [] == []) &&
  allLt N (fun j => j == 0 || !(bl.getD j []).isEmpty) &&
  bl.all selfIndexed

/-- is `t` the compensated festival day of `r`: `off` days away (day numbers of the C01 model) and a rest day -/
def isTarget (r t : HolRec) : Bool := (jdn t.y t.m t.d == jdn r.y r.m r.d + r.off) && !t.work

/-- single pass: the target of each record is looked for among the `|off|` records before it (`prev`, nearest first),
itself, or the `off` records after it — dates are strictly increasing, so it cannot be further away -/
def targetWalk : List HolRec → List HolRec → Bool
  | _, [] => true
  | prev, r :: rest =>
    ((r :: (if r.off ≤ 0 then prev.take r.off.natAbs else rest.take r.off.natAbs)).any (isTarget r)) &&
    targetWalk (r :: prev) rest

/-- the table facts the generic theorems need -/
structure HolWF (nNames : Nat) (data : Bytes) : Prop where
  len : data.length % 13 = 0
  aligned : alignedWalk data 0 = true
  recsOk : (chunksOf data).all (holRecOk nNames) = true
  sorted : strictInc ((holRecs data).map HolRec.key) = true
  blocks : blocksOk (chunksOf data) = true

/-! ## generic consequences -/

theorem targetWalk_spec : ∀ (rest prev : List HolRec), targetWalk prev rest = true →
    ∀ r ∈ rest, ∃ t, (t ∈ prev ∨ t ∈ rest) ∧ isTarget r t = true := by
  intro rest
  induction rest with
  | nil => intro prev _ r hr; cases hr
  | cons a rest ih =>
    intro prev h r hr
    simp only [targetWalk, Bool.and_eq_true, List.any_eq_true] at h
    rcases List.mem_cons.1 hr with rfl | hr'
    · obtain ⟨t, ht, htt⟩ := h.1
      refine ⟨t, ?_, htt⟩
      rcases List.mem_cons.1 ht with rfl | ht'
      · right; exact List.mem_cons_self
      · split at ht'
        · left; exact List.mem_of_mem_take ht'
        · right; exact List.mem_cons_of_mem _ (List.mem_of_mem_take ht')
    · obtain ⟨t, ht, htt⟩ := ih (a :: prev) h.2 r hr'
      refine ⟨t, ?_, htt⟩
      rcases ht with ht | ht
      · rcases List.mem_cons.1 ht with rfl | ht'
        · right; exact List.mem_cons_self
        · left; exact ht'
      · right; exact List.mem_cons_of_mem _ ht

theorem shape_nil : okAll shape [] = false := by decide

theorem alignedWalk_spec : ∀ (l : Bytes) (ph : Nat), ph < 13 → alignedWalk l ph = true →
    ∀ o, o < l.length → (okAll shape (l.drop o) = true ↔ (ph + o) % 13 = 0) := by
  intro l
  induction l with
  | nil => intro ph _ _ o ho; simp at ho
  | cons b t ih =>
    intro ph hph h o ho
    simp only [alignedWalk, Bool.and_eq_true, beq_iff_eq] at h
    cases o with
    | zero =>
      simp only [List.drop_zero, Nat.add_zero]
      rw [← h.1]
      simp only [beq_iff_eq]
      omega
    | succ o =>
      have := ih ((ph + 1) % 13) (Nat.mod_lt _ (by omega)) h.2 o (by simpa using ho)
      simp only [List.drop_succ_cons]
      rw [this]
      omega

theorem chunks_length : ∀ (n : Nat) (l : Bytes), (chunks n l).length = n := by
  intro n; induction n with
  | zero => intro l; rfl
  | succ n ih => intro l; simp [chunks, ih]

theorem chunks_getElem? : ∀ (n : Nat) (l : Bytes) (k : Nat), k < n →
    (chunks n l)[k]? = some ((l.drop (13 * k)).take 13) := by
  intro n
  induction n with
  | zero => intro l k hk; omega
  | succ n ih =>
    intro l k hk
    cases k with
    | zero => simp [chunks]
    | succ k =>
      simp only [chunks, List.getElem?_cons_succ]
      rw [ih (l.drop 13) k (by omega), List.drop_drop]
      have e : 13 + 13 * k = 13 * (k + 1) := by omega
      rw [e]

theorem strictInc_pairwise : ∀ (l : List Nat), strictInc l = true → List.Pairwise (· < ·) l := by
  intro l
  induction l with
  | nil => intro _; exact List.Pairwise.nil
  | cons a t ih =>
    intro h
    cases t with
    | nil => exact List.pairwise_singleton _ _
    | cons b t =>
      simp only [strictInc, Bool.and_eq_true, decide_eq_true_eq] at h
      have pt := ih h.2
      refine List.Pairwise.cons ?_ pt
      intro x hx
      rcases List.mem_cons.1 hx with rfl | hx'
      · exact h.1
      · exact Nat.lt_trans h.1 ((List.pairwise_cons.1 pt).1 x hx')

theorem strictInc_spec {l : List Nat} (h : strictInc l = true) {i j : Nat} (hij : i < j) (hj : j < l.length) :
    l[i]'(by omega) < l[j] := by
  have := List.pairwise_iff_getElem.1 (strictInc_pairwise l h)
  exact this i j (by omega) hj hij

/-! ## the eight date digits -/

def f8 (y m d : Int) : Bytes := fmtInt 4 y ++ fmtInt 2 m ++ fmtInt 2 d

theorem valid_ranges {y m d : Int} (hv : Civil.valid y m d = true) :
    0 ≤ y ∧ y < 10000 ∧ 0 ≤ m ∧ m < 100 ∧ 0 ≤ d ∧ d < 100 := by
  have h := (valid_iff y m d).1 hv
  have hl : Civil.lastDay y m ≤ 31 := by
    unfold Civil.lastDay; repeat' split
    all_goals omega
  omega

theorem f8_length {y m d : Int} (hv : Civil.valid y m d = true) : (f8 y m d).length = 8 := by
  obtain ⟨a, b, c, e, f, g⟩ := valid_ranges hv
  simp [f8, (fmt4_ok y a b).1, (fmt2_ok m c e).1, (fmt2_ok d f g).1]

theorem f8_digits {y m d : Int} (hv : Civil.valid y m d = true) : (f8 y m d).all isDigit = true := by
  obtain ⟨a, b, c, e, f, g⟩ := valid_ranges hv
  simp only [f8, List.all_append, Bool.and_eq_true]
  exact ⟨⟨(fmt4_ok y a b).2.1, (fmt2_ok m c e).2.1⟩, (fmt2_ok d f g).2.1⟩

theorem f8_inj {y m d y' m' d' : Int} (hv : Civil.valid y m d = true) (hv' : Civil.valid y' m' d' = true)
    (h : f8 y m d = f8 y' m' d') : y = y' ∧ m = m' ∧ d = d' := by
  obtain ⟨a, b, c, e, f, g⟩ := valid_ranges hv
  obtain ⟨a', b', c', e', f', g'⟩ := valid_ranges hv'
  have A := fmt4_ok y a b; have A' := fmt4_ok y' a' b'
  have B := fmt2_ok m c e; have B' := fmt2_ok m' c' e'
  have C := fmt2_ok d f g; have C' := fmt2_ok d' f' g'
  unfold f8 at h
  have h1 := List.append_inj' h (by rw [C.1, C'.1])
  have h2 := List.append_inj' h1.1 (by rw [B.1, B'.1])
  have ey : y.toNat = y'.toNat := by
    have := A.2.2; rw [h2.1, A'.2.2] at this; exact (Option.some.inj this).symm
  have em : m.toNat = m'.toNat := by
    have := B.2.2; rw [h2.2, B'.2.2] at this; exact (Option.some.inj this).symm
  have ed : d.toNat = d'.toNat := by
    have := C.2.2; rw [h1.2, C'.2.2] at this; exact (Option.some.inj this).symm
  omega

theorem lits_append (a b : Bytes) : lits (a ++ b) = lits a ++ lits b := by simp [lits]
theorem lits_length (a : Bytes) : (lits a).length = a.length := by simp [lits]

theorem holYmdRx_fix (y m d : Int) : (holYmdRx y m d).fix = lits (f8 y m d) ++ holTail := rfl

theorem refines_refl : ∀ (ps : List Pat), Refines ps ps
  | [] => trivial
  | _ :: ps => ⟨fun _ h => h, refines_refl ps⟩

theorem refines_lits_dig : ∀ (s : Bytes) (q : List Pat), s.all isDigit = true →
    Refines (lits s ++ q) (List.replicate s.length Pat.dig ++ q)
  | [], q, _ => refines_refl q
  | c :: s, q, h => by
    simp only [List.all_cons, Bool.and_eq_true] at h
    refine ⟨?_, refines_lits_dig s q h.2⟩
    intro b hb
    simp only [Pat.ok, beq_iff_eq] at hb ⊢
    rw [hb]; exact h.1

theorem refines_f8 {y m d : Int} (hv : Civil.valid y m d = true) : Refines (holYmdRx y m d).fix shape := by
  rw [holYmdRx_fix]
  have := refines_lits_dig (f8 y m d) holTail (f8_digits hv)
  rw [f8_length hv] at this
  exact this

theorem okAll_holYmd {y m d : Int} (hv : Civil.valid y m d = true) (s : Bytes) :
    okAll (holYmdRx y m d).fix s = ((f8 y m d).isPrefixOf s && okAll holTail (s.drop 8)) := by
  rw [holYmdRx_fix, okAll_append, okAll_lits, lits_length, f8_length hv]

theorem okAll_shape_split (s : Bytes) :
    okAll shape s = (okAll [Pat.dig, .dig, .dig, .dig, .dig, .dig, .dig, .dig] s && okAll holTail (s.drop 8)) := by
  unfold shape; rw [okAll_append]; rfl

theorem holYmd_matchHere {y m d : Int} (s : Bytes) :
    (holYmdRx y m d).matchHere s =
      if okAll (holYmdRx y m d).fix s then some (s.take (holYmdRx y m d).fix.length) else none :=
  matchHere_noplus _ rfl s

theorem holYmd_fix_length {y m d : Int} (hv : Civil.valid y m d = true) : (holYmdRx y m d).fix.length = 13 := by
  rw [holYmdRx_fix, List.length_append, lits_length, f8_length hv]; rfl

/-! ## records -/

def holOfRec (r : HolRec) : Hol := ⟨r.y, r.m, r.d, r.idx, r.work⟩

section WF
variable {nNames : Nat} {data : Bytes} (W : HolWF nNames data)
include W

theorem wf_len : data.length = 13 * (data.length / 13) := by have := W.len; omega

omit W in
theorem wf_chunk {k : Nat} (hk : k < data.length / 13) :
    (chunksOf data)[k]? = some ((data.drop (13 * k)).take 13) := chunks_getElem? _ _ _ hk

theorem wf_aligned {o : Nat} (ho : o < data.length) : okAll shape (data.drop o) = true ↔ o % 13 = 0 := by
  have := alignedWalk_spec data 0 (by omega) W.aligned o ho
  simpa using this

theorem wf_shape_offset {o : Nat} (h : okAll shape (data.drop o) = true) : o < data.length ∧ o % 13 = 0 := by
  have ho : o < data.length := by
    rcases Nat.lt_or_ge o data.length with h1 | h1
    · exact h1
    · rw [List.drop_eq_nil_of_le h1, shape_nil] at h; cases h
  exact ⟨ho, (wf_aligned W ho).1 h⟩

theorem wf_recOk {k : Nat} (hk : k < data.length / 13) :
    holRecOk nNames ((data.drop (13 * k)).take 13) = true := by
  have h := W.recsOk
  rw [List.all_eq_true] at h
  apply h
  have := wf_chunk (data := data) hk
  exact List.mem_of_getElem? this

end WF

/-- what `holRecOk` says, as propositions -/
theorem holRecOk_elim {nNames : Nat} {c : Bytes} (h : holRecOk nNames c = true) :
    c.length = 13 ∧ Civil.valid (parseHol c).y (parseHol c).m (parseHol c).d = true ∧ (parseHol c).idx < nNames ∧
    f8 (parseHol c).y (parseHol c).m (parseHol c).d = c.take 8 ∧
    parseNat (c.take 4) = some (parseHol c).y ∧ parseNat ((c.drop 4).take 2) = some (parseHol c).m ∧
    parseNat ((c.drop 6).take 2) = some (parseHol c).d := by
  simp only [holRecOk, Bool.and_eq_true, beq_iff_eq, decide_eq_true_eq] at h
  obtain ⟨⟨⟨⟨⟨⟨h1, h2⟩, h3⟩, h4⟩, h5⟩, h6⟩, h7⟩ := h
  refine ⟨h1, h2, h3, ?_, h5, h6, h7⟩
  simp only [f8, fmtInt_ofNat]; exact h4

section WF2
variable {nNames : Nat} {data : Bytes} (W : HolWF nNames data)
include W

/-- K1: wherever the date pattern of a real date matches, there is an aligned record with that date -/
theorem hol_match_record {y m d : Int} (hv : Civil.valid y m d = true) {o : Nat} {mt : Bytes}
    (h : (holYmdRx y m d).matchHere (data.drop o) = some mt) :
    ∃ k, k < data.length / 13 ∧ o = 13 * k ∧ mt = (data.drop (13 * k)).take 13 ∧
      ((parseHol mt).y : Int) = y ∧ ((parseHol mt).m : Int) = m ∧ ((parseHol mt).d : Int) = d := by
  rw [holYmd_matchHere] at h
  split at h
  · rename_i hok
    rw [holYmd_fix_length hv] at h
    have hmt : mt = (data.drop o).take 13 := (Option.some.inj h).symm
    have hsh := okAll_refines (refines_f8 hv) hok
    obtain ⟨ho, hal⟩ := wf_shape_offset W hsh
    have hlen := wf_len W
    have hk : o / 13 < data.length / 13 := by omega
    have ho13 : o = 13 * (o / 13) := by omega
    refine ⟨o / 13, hk, ho13, by rw [← ho13]; exact hmt, ?_⟩
    have hrec := holRecOk_elim (wf_recOk W hk)
    rw [← ho13, ← hmt] at hrec
    rw [okAll_holYmd hv, Bool.and_eq_true] at hok
    have hpre : f8 y m d <+: data.drop o := List.isPrefixOf_iff_prefix.1 hok.1
    have h8 : f8 y m d = mt.take 8 := by
      have := List.prefix_iff_eq_take.1 hpre
      rw [f8_length hv] at this
      rw [hmt, List.take_take]; exact this
    have := f8_inj hv hrec.2.1 (h8.trans hrec.2.2.2.1.symm)
    omega
  · cases h

/-- K2: the date pattern of record k matches at offset 13k and yields that record -/
theorem hol_record_match {k : Nat} (hk : k < data.length / 13) :
    let c := (data.drop (13 * k)).take 13
    (holYmdRx (parseHol c).y (parseHol c).m (parseHol c).d).matchHere (data.drop (13 * k)) = some c := by
  intro c
  have hrec := holRecOk_elim (wf_recOk W hk)
  have hv := hrec.2.1
  have hlen := wf_len W
  have ho : 13 * k < data.length := by omega
  have hsh := (wf_aligned W ho).2 (by omega)
  rw [okAll_shape_split, Bool.and_eq_true] at hsh
  rw [holYmd_matchHere, holYmd_fix_length hv]
  have hok : okAll (holYmdRx (parseHol c).y (parseHol c).m (parseHol c).d).fix (data.drop (13 * k)) = true := by
    rw [okAll_holYmd hv, Bool.and_eq_true]
    refine ⟨?_, hsh.2⟩
    apply List.isPrefixOf_iff_prefix.2
    rw [hrec.2.2.2.1]
    show List.take 8 (List.take 13 (List.drop (13 * k) data)) <+: List.drop (13 * k) data
    rw [List.take_take]
    exact List.take_prefix _ _
  rw [if_pos hok]

omit W in
theorem holRecs_getElem? {k : Nat} (hk : k < data.length / 13) :
    (holRecs data)[k]? = some (parseHol ((data.drop (13 * k)).take 13)) := by
  unfold holRecs
  rw [List.getElem?_map, wf_chunk hk]; rfl

omit W in
theorem holRecs_length : (holRecs data).length = data.length / 13 := by
  unfold holRecs; rw [List.length_map, chunks_length]

theorem holRecs_key_lt {i j : Nat} (hij : i < j) (hj : j < data.length / 13) :
    (parseHol ((data.drop (13 * i)).take 13)).key < (parseHol ((data.drop (13 * j)).take 13)).key := by
  have hl : ((holRecs data).map HolRec.key).length = data.length / 13 := by rw [List.length_map, holRecs_length]
  have := strictInc_spec W.sorted hij (by rw [hl]; exact hj)
  have e1 : ((holRecs data).map HolRec.key)[i]? = some (parseHol ((data.drop (13 * i)).take 13)).key := by
    rw [List.getElem?_map, holRecs_getElem? (by omega)]; rfl
  have e2 : ((holRecs data).map HolRec.key)[j]? = some (parseHol ((data.drop (13 * j)).take 13)).key := by
    rw [List.getElem?_map, holRecs_getElem? hj]; rfl
  rw [List.getElem?_eq_getElem (by rw [hl]; omega)] at e1
  rw [List.getElem?_eq_getElem (by rw [hl]; omega)] at e2
  rw [Option.some.inj e1, Option.some.inj e2] at this
  exact this

/-- the record-level look-up finds record k for its own date -/
theorem holOn_record {k : Nat} (hk : k < data.length / 13) :
    let r := parseHol ((data.drop (13 * k)).take 13)
    holOn (holRecs data) r.y r.m r.d = some r := by
  intro r
  unfold holOn
  rw [List.find?_eq_some_iff_getElem]
  refine ⟨by simp [HolRec.isDate], k, by rw [holRecs_length]; exact hk, ?_, ?_⟩
  · have := holRecs_getElem? hk
    rw [List.getElem?_eq_getElem (by rw [holRecs_length]; exact hk)] at this
    exact Option.some.inj this
  · intro j hj
    have hjk : j < data.length / 13 := by omega
    have e := holRecs_getElem? hjk
    rw [List.getElem?_eq_getElem (by rw [holRecs_length]; exact hjk)] at e
    rw [Option.some.inj e]
    have hlt := holRecs_key_lt W hj hk
    simp only [HolRec.isDate, Bool.not_eq_true', Bool.and_eq_false_iff, beq_eq_false_iff_ne, ne_eq]
    by_cases h1 : ((parseHol ((data.drop (13 * j)).take 13)).y : Int) = r.y
    · by_cases h2 : ((parseHol ((data.drop (13 * j)).take 13)).m : Int) = r.m
      · right
        intro h3
        simp only [HolRec.key] at hlt
        have a1 : (parseHol ((data.drop (13 * j)).take 13)).y = r.y := by omega
        have a2 : (parseHol ((data.drop (13 * j)).take 13)).m = r.m := by omega
        have a3 : (parseHol ((data.drop (13 * j)).take 13)).d = r.d := by omega
        rw [a1, a2, a3] at hlt
        exact Nat.lt_irrefl _ hlt
      · left; right; exact h2
    · left; left; exact h1

/-- model = record-level reading, for every real civil date -/
theorem holFromYmd_spec {y m d : Int} (hv : Civil.valid y m d = true) :
    holFromYmd data y m d = match holOn (holRecs data) y m d with
      | some r => .found (holOfRec r)
      | none => .absent := by
  obtain ⟨_, _, hm, _, hd, _⟩ := valid_ranges hv
  unfold holFromYmd
  rw [if_neg (by omega)]
  cases hf : (holYmdRx y m d).find data with
  | none =>
    simp only []
    have hnone : holOn (holRecs data) y m d = none := by
      unfold holOn
      rw [List.find?_eq_none]
      intro r hr hdate
      obtain ⟨k, hkr⟩ := List.mem_iff_getElem?.1 hr
      have hk : k < data.length / 13 := by
        obtain ⟨hlt, _⟩ := List.getElem?_eq_some_iff.1 hkr
        rw [holRecs_length] at hlt; exact hlt
      rw [holRecs_getElem? hk] at hkr
      have hrk := Option.some.inj hkr
      have hmatch := hol_record_match W hk
      simp only [] at hmatch
      rw [hrk] at hmatch
      simp only [HolRec.isDate, Bool.and_eq_true, beq_iff_eq] at hdate
      rw [hdate.1.1, hdate.1.2, hdate.2] at hmatch
      have := find_none hf (13 * k)
      rw [hmatch] at this; cases this
    rw [hnone]
  | some mt =>
    simp only []
    obtain ⟨o, ho⟩ := find_some hf
    obtain ⟨k, hk, _, hmt, ey, em, ed⟩ := hol_match_record W hv ho
    have hon := holOn_record W hk
    simp only [] at hon
    rw [← hmt, ey, em, ed] at hon
    rw [hon, C01_accept_iff, hv]
    simp only [if_true, holOfRec, parseHol]
    congr 1
    simp only [Hol.mk.injEq]
    refine ⟨?_, ?_, ?_, trivial, trivial⟩
    · rw [← ey]; rfl
    · rw [← em]; rfl
    · rw [← ed]; rfl

end WF2

theorem holFromYmd_found_valid {data : Bytes} {y m d : Int} {h : Hol} (hf : holFromYmd data y m d = .found h) :
    Civil.valid y m d = true := by
  unfold holFromYmd at hf
  split at hf
  · cases hf
  · split at hf
    · cases hf
    · split at hf
      · rename_i hok; rw [← C01_accept_iff]; exact hok
      · cases hf

end Tyme.Fest
