import Tyme.Model.Cycle
import Tyme.Model.Units
import Tyme.Spec.Stepping
/-!
Helper lemmas for C11 (stepping is a group action). Core Lean only.
-/
namespace Tyme

-- ---------------------------------------------------------------- index_of

theorem indexOf_eq_emod (i : Int) (size : Nat) (h : 0 < size) : indexOf i size = i % (size : Int) := by
  unfold indexOf
  have hn : (0 : Int) < size := by omega
  have h1 : 0 ≤ i % (size : Int) := Int.emod_nonneg _ (by omega)
  have h2 : i % (size : Int) < size := Int.emod_lt_of_pos _ hn
  have h3 : (((size : Int).natAbs : Nat) : Int) = size := by simp
  simp only
  rw [Int.tmod_eq_emod]
  by_cases hc : 0 ≤ i ∨ (size : Int) ∣ i
  · simp only [hc, if_true]
    split <;> omega
  · simp only [hc, if_false]
    split <;> omega

theorem indexOf_range (i : Int) (size : Nat) (h : 0 < size) : 0 ≤ indexOf i size ∧ indexOf i size < (size : Int) := by
  rw [indexOf_eq_emod i size h]
  exact ⟨Int.emod_nonneg _ (by omega), Int.emod_lt_of_pos _ (by omega)⟩

theorem indexOf_of_range (i : Int) (size : Nat) (h0 : 0 ≤ i) (h1 : i < (size : Int)) : indexOf i size = i := by
  rw [indexOf_eq_emod i size (by omega)]
  exact Int.emod_eq_of_lt h0 h1

theorem loopNext_eq (size : Nat) (h : 0 < size) (i n : Int) : loopNext size i n = (i + n) % (size : Int) := by
  unfold loopNext loopFromIndex loopNextIndex
  rw [indexOf_eq_emod _ size h, indexOf_eq_emod _ size h, Int.emod_emod]

-- ---------------------------------------------------------------- names

theorem firstIdxFrom_spec (names : List (List Nat)) (nm : List Nat) (k j : Nat)
    (h : firstIdxFrom names nm k = some j) :
    k ≤ j ∧ j - k < names.length ∧ names[j - k]? = some nm ∧ ∀ m, m < j - k → names[m]? ≠ some nm := by
  induction names generalizing k with
  | nil => simp [firstIdxFrom] at h
  | cons x xs ih =>
    unfold firstIdxFrom at h
    split at h
    · rename_i hx
      have : k = j := by simpa using h
      subst this
      refine ⟨Nat.le_refl _, by simp, by simp [hx], ?_⟩
      intro m hm; omega
    · rename_i hx
      obtain ⟨a, b, c, d⟩ := ih (k + 1) h
      have hj : j - k = (j - (k + 1)) + 1 := by omega
      refine ⟨by omega, by simp only [List.length_cons]; omega, ?_, ?_⟩
      · rw [hj, List.getElem?_cons_succ]; exact c
      · intro m hm
        cases m with
        | zero => simp only [List.getElem?_cons_zero]; intro e; exact hx (Option.some.inj e)
        | succ m' => rw [List.getElem?_cons_succ]; exact d m' (by omega)

theorem firstIdxFrom_none (names : List (List Nat)) (nm : List Nat) (k : Nat) :
    firstIdxFrom names nm k = none ↔ nm ∉ names := by
  induction names generalizing k with
  | nil => simp [firstIdxFrom]
  | cons x xs ih =>
    unfold firstIdxFrom
    split
    · rename_i hx; simp [hx]
    · rename_i hx
      rw [ih (k + 1)]
      simp only [List.mem_cons, not_or]
      constructor
      · intro h; exact ⟨fun e => hx e.symm, h⟩
      · intro h; exact h.2

theorem firstIdxFrom_nodup (names : List (List Nat)) (hnd : names.Nodup) (i k : Nat) (hi : i < names.length) :
    firstIdxFrom names (names.getD i []) k = some (k + i) := by
  induction names generalizing i k with
  | nil => simp at hi
  | cons x xs ih =>
    have hx : x ∉ xs := (List.nodup_cons.mp hnd).1
    have hxs : xs.Nodup := (List.nodup_cons.mp hnd).2
    cases i with
    | zero => simp [firstIdxFrom]
    | succ i' =>
      have hi' : i' < xs.length := by simpa using hi
      have hmem : xs.getD i' [] ∈ xs := by
        rw [List.getD_eq_getElem?_getD, List.getElem?_eq_getElem hi']
        simp
      have hne : ¬ x = xs.getD i' [] := fun e => hx (e ▸ hmem)
      unfold firstIdxFrom
      simp only [List.getD_cons_succ, hne, if_false]
      rw [ih hxs i' (k + 1) hi']
      congr 1; omega

-- ---------------------------------------------------------------- carry

theorem carryT_eq_carryF (size : Nat) (y i : Int) (h : 0 ≤ y * (size : Int) + i) : carryT size y i = carryF size y i := by
  unfold carryT carryF
  exact Int.tdiv_eq_ediv_of_nonneg h

theorem tdiv_nonpos_of_neg (a b : Int) (ha : a < 0) (hb : 0 < b) : Int.tdiv a b ≤ 0 := by
  have h1 : 0 ≤ Int.tdiv (-a) b := Int.tdiv_nonneg (by omega) (by omega)
  rw [Int.neg_tdiv] at h1
  omega

theorem pos_unitAt (size : Nat) (_hs : 0 < size) (p : Int) :
    Step.pos size (Step.unitAt size p).1 (Step.unitAt size p).2 = p := by
  unfold Step.pos Step.unitAt
  simp only
  have := Int.emod_add_ediv_mul p (size : Int)
  omega

theorem unitAt_pos (size : Nat) (y i : Int) (h0 : 0 ≤ i) (h1 : i < (size : Int)) :
    Step.unitAt size (Step.pos size y i) = (y, i) := by
  unfold Step.pos Step.unitAt
  have hne : (size : Int) ≠ 0 := by omega
  have e1 : (y * (size : Int) + i) / (size : Int) = y := by
    rw [Int.add_comm, Int.add_mul_ediv_right _ _ hne, Int.ediv_eq_zero_of_lt h0 h1]; omega
  have e2 : (y * (size : Int) + i) % (size : Int) = i := by
    rw [Int.mul_add_emod_self_right, Int.emod_eq_of_lt h0 h1]
  rw [e1, e2]

theorem unitAt_range (size : Nat) (hs : 0 < size) (p : Int) :
    0 ≤ (Step.unitAt size p).2 ∧ (Step.unitAt size p).2 < (size : Int) := by
  unfold Step.unitAt
  exact ⟨Int.emod_nonneg _ (by omega), Int.emod_lt_of_pos _ (by omega)⟩

/-- the code's (truncating) carry pattern is the specification whenever the constructor refuses years < 1 -/
theorem linNextT_eq_spec (size : Nat) (hs : 0 < size) (ok : Int → Int → Bool)
    (hok : ∀ y i, ok y i = true → 1 ≤ y) (y idx n : Int) :
    linNextT size ok y idx n = Step.lin size ok y idx n := by
  unfold linNextT Step.lin Step.unitAt Step.pos
  simp only
  have hn : (0 : Int) < size := by omega
  have ei : indexOf (idx + n) size = (y * (size : Int) + idx + n) % (size : Int) := by
    rw [indexOf_eq_emod _ _ hs, Int.add_assoc, Int.mul_add_emod_self_right]
  rw [ei]
  by_cases ht : 0 ≤ y * (size : Int) + idx + n
  · have : carryT size y (idx + n) = (y * (size : Int) + idx + n) / (size : Int) := by
      rw [carryT_eq_carryF _ _ _ (by omega)]; unfold carryF; rw [Int.add_assoc]
    rw [this]
  · have h1 : carryT size y (idx + n) ≤ 0 := by
      unfold carryT; exact tdiv_nonpos_of_neg _ _ (by omega) hn
    have h2 : (y * (size : Int) + idx + n) / (size : Int) < 0 := Int.ediv_neg_of_neg_of_pos (by omega) hn
    have c1 : ok (carryT size y (idx + n)) ((y * (size : Int) + idx + n) % (size : Int)) = false := by
      cases hc : ok (carryT size y (idx + n)) ((y * (size : Int) + idx + n) % (size : Int)) with
      | false => rfl
      | true => have := hok _ _ hc; omega
    have c2 : ok ((y * (size : Int) + idx + n) / (size : Int)) ((y * (size : Int) + idx + n) % (size : Int)) = false := by
      cases hc : ok ((y * (size : Int) + idx + n) / (size : Int)) ((y * (size : Int) + idx + n) % (size : Int)) with
      | false => rfl
      | true => have := hok _ _ hc; omega
    simp [c1, c2]

/-- the repaired (floor) carry pattern is the specification for every acceptance predicate -/
theorem linNextF_eq_spec (size : Nat) (hs : 0 < size) (ok : Int → Int → Bool) (y idx n : Int) :
    linNextF size ok y idx n = Step.lin size ok y idx n := by
  unfold linNextF Step.lin Step.unitAt Step.pos carryF
  simp only
  have ei : indexOf (idx + n) size = (y * (size : Int) + idx + n) % (size : Int) := by
    rw [indexOf_eq_emod _ _ hs, Int.add_assoc, Int.mul_add_emod_self_right]
  rw [ei, Int.add_assoc]

-- ---------------------------------------------------------------- group laws of the specification

theorem lin_some (size : Nat) (hs : 0 < size) (ok : Int → Int → Bool) (y i n y' i' : Int)
    (h : Step.lin size ok y i n = some (y', i')) :
    Step.pos size y' i' = Step.pos size y i + n ∧ 0 ≤ i' ∧ i' < (size : Int) ∧ ok y' i' = true := by
  unfold Step.lin at h
  simp only at h
  split at h
  · rename_i hk
    have e : Step.unitAt size (Step.pos size y i + n) = (y', i') := Option.some.inj h
    have hp := pos_unitAt size hs (Step.pos size y i + n)
    have hr := unitAt_range size hs (Step.pos size y i + n)
    rw [e] at hp hr hk
    exact ⟨hp, hr.1, hr.2, hk⟩
  · exact absurd h (by simp)

theorem lin_zero (size : Nat) (ok : Int → Int → Bool) (y i : Int)
    (h0 : 0 ≤ i) (h1 : i < (size : Int)) (hk : ok y i = true) : Step.lin size ok y i 0 = some (y, i) := by
  unfold Step.lin
  simp only [Int.add_zero]
  rw [unitAt_pos size y i h0 h1]
  simp [hk]

theorem lin_add (size : Nat) (hs : 0 < size) (ok : Int → Int → Bool) (y i a b y1 i1 : Int)
    (h : Step.lin size ok y i a = some (y1, i1)) :
    Step.lin size ok y1 i1 b = Step.lin size ok y i (a + b) := by
  obtain ⟨hp, _, _, _⟩ := lin_some size hs ok y i a y1 i1 h
  unfold Step.lin
  simp only
  have : Step.pos size y1 i1 + b = Step.pos size y i + (a + b) := by omega
  rw [this]

theorem lin_inv (size : Nat) (hs : 0 < size) (ok : Int → Int → Bool) (y i a y1 i1 : Int)
    (h0 : 0 ≤ i) (h1 : i < (size : Int)) (hk : ok y i = true)
    (h : Step.lin size ok y i a = some (y1, i1)) :
    Step.lin size ok y1 i1 (-a) = some (y, i) := by
  rw [lin_add size hs ok y i a (-a) y1 i1 h]
  have : a + -a = 0 := by omega
  rw [this]
  exact lin_zero size ok y i h0 h1 hk

theorem lin_total (size : Nat) (ok : Int → Int → Bool) (y i n : Int)
    (h : ok (Step.unitAt size (Step.pos size y i + n)).1 (Step.unitAt size (Step.pos size y i + n)).2 = true) :
    Step.lin size ok y i n = some (Step.unitAt size (Step.pos size y i + n)) := by
  unfold Step.lin
  simp [h]

end Tyme
