import Tyme.Model.Clock
import Tyme.Thm.C01
/-! Helper lemmas for C12 (clock arithmetic, Julian date ⇄ instant). Core Lean only. -/
namespace Tyme
namespace Clock

theorem tmod_nonpos_of_nonpos (v k : Int) (hv : v ≤ 0) : Int.tmod v k ≤ 0 := by
  have h := Int.tmod_nonneg (a := -v) k (by omega)
  rw [Int.neg_tmod] at h
  omega

/-- one trunc-and-repair stage equals floor division -/
theorem stage60 (v : Int) :
    (if Int.tmod v 60 < 0 then (Int.tmod v 60 + 60, Int.tdiv v 60 - 1) else (Int.tmod v 60, Int.tdiv v 60))
      = (v % 60, v / 60) := by
  have e := Int.mul_tdiv_add_tmod v 60
  have b1 := Int.tmod_lt_of_pos v (show (0:Int) < 60 by decide)
  have b2 := Int.lt_tmod_of_pos v (show (0:Int) < 60 by decide)
  rcases Int.le_total 0 v with hv | hv
  · have := Int.tmod_nonneg 60 hv
    split <;> (ext <;> simp <;> omega)
  · have := tmod_nonpos_of_nonpos v 60 hv
    split <;> (ext <;> simp <;> omega)

theorem stage24 (v : Int) :
    (if Int.tmod v 24 < 0 then (Int.tmod v 24 + 24, Int.tdiv v 24 - 1) else (Int.tmod v 24, Int.tdiv v 24))
      = (v % 24, v / 24) := by
  have e := Int.mul_tdiv_add_tmod v 24
  have b1 := Int.tmod_lt_of_pos v (show (0:Int) < 24 by decide)
  have b2 := Int.lt_tmod_of_pos v (show (0:Int) < 24 by decide)
  rcases Int.le_total 0 v with hv | hv
  · have := Int.tmod_nonneg 24 hv
    split <;> (ext <;> simp <;> omega)
  · have := tmod_nonpos_of_nonpos v 24 hv
    split <;> (ext <;> simp <;> omega)

theorem carry_spec (s m h n : Int) :
    let r := carry s m h n
    86400 * r.1 + 3600 * r.2.1 + 60 * r.2.2.1 + r.2.2.2 = 3600 * h + 60 * m + s + n ∧
    0 ≤ r.2.1 ∧ r.2.1 < 24 ∧ 0 ≤ r.2.2.1 ∧ r.2.2.1 < 60 ∧ 0 ≤ r.2.2.2 ∧ r.2.2.2 < 60 := by
  unfold carry
  simp only [stage60, stage24]
  omega

/-- n-fold `tick` -/
def iter : Nat → Time → Time
  | 0, t => t
  | n+1, t => iter n (tick t)

end Clock

def secsFirst : Int := 86400 * jdnFirst
def secsLast : Int := 86400 * jdnLast + 86399

theorem clock_valid_iff (t : Time) : Clock.valid t = true ↔
    (Civil.validT t.day = true ∧ 0 ≤ t.h ∧ t.h ≤ 23 ∧ 0 ≤ t.mi ∧ t.mi ≤ 59 ∧ 0 ≤ t.s ∧ t.s ≤ 59) := by
  unfold Clock.valid Civil.validT
  simp only [Bool.and_eq_true, decide_eq_true_eq]

theorem timeOk_iff (y m d h mi s : Int) : timeOk y m d h mi s = true ↔
    (Civil.valid y m d = true ∧ 0 ≤ h ∧ h ≤ 23 ∧ 0 ≤ mi ∧ mi ≤ 59 ∧ 0 ≤ s ∧ s ≤ 59) := by
  unfold timeOk
  rw [C01_accept_iff]
  simp only [Bool.and_eq_true, decide_eq_true_eq]
  constructor
  · rintro ⟨⟨⟨a, b⟩, c⟩, d⟩; exact ⟨d, a.1, a.2, b.1, b.2, c.1, c.2⟩
  · rintro ⟨d, a1, a2, b1, b2, c1, c2⟩; exact ⟨⟨⟨⟨a1, a2⟩, ⟨b1, b2⟩⟩, ⟨c1, c2⟩⟩, d⟩

theorem mkTime_some (r : Int × Int × Int) (h mi s : Int) (hr : Civil.validT r = true)
    (h1 : 0 ≤ h) (h2 : h ≤ 23) (h3 : 0 ≤ mi) (h4 : mi ≤ 59) (h5 : 0 ≤ s) (h6 : s ≤ 59) :
    mkTime? r h mi s = some ⟨r, h, mi, s⟩ := by
  unfold mkTime?
  have : timeOk r.1 r.2.1 r.2.2 h mi s = true := (timeOk_iff _ _ _ _ _ _).2 ⟨hr, h1, h2, h3, h4, h5, h6⟩
  simp [this]

theorem mkTime_valid (r : Int × Int × Int) (h mi s : Int) (t : Time) (e : mkTime? r h mi s = some t) :
    t = ⟨r, h, mi, s⟩ ∧ Clock.valid t = true := by
  unfold mkTime? at e
  split at e
  · rename_i hok
    injection e with e
    subst e
    refine ⟨rfl, ?_⟩
    rw [clock_valid_iff]
    exact (timeOk_iff _ _ _ _ _ _).1 hok
  · cases e

/-- day number ↦ date, inside the range -/
theorem dayNext_some (a : Int × Int × Int) (k : Int) (h1 : jdnFirst ≤ jdnT a + k) (h2 : jdnT a + k ≤ jdnLast) :
    dayNext a k = some (ofJdn (jdnT a + k)) ∧ Civil.validT (ofJdn (jdnT a + k)) = true ∧
      jdnT (ofJdn (jdnT a + k)) = jdnT a + k := by
  obtain ⟨v, e⟩ := C01_jdn_ofJdn (jdnT a + k) h1 h2
  refine ⟨?_, v, e⟩
  unfold dayNext
  have : solarDayOk (ofJdn (jdnT a + k)).1 (ofJdn (jdnT a + k)).2.1 (ofJdn (jdnT a + k)).2.2 = true := by
    rw [C01_accept_iff]; exact v
  unfold jdnT at this ⊢
  simp [this]

theorem secs_bounds (t : Time) (hv : Clock.valid t = true) : secsFirst ≤ secs t ∧ secs t ≤ secsLast := by
  obtain ⟨v, h1, h2, h3, h4, h5, h6⟩ := (clock_valid_iff t).1 hv
  have hl := jdn_le_last t.day.1 t.day.2.1 t.day.2.2 v
  have hf : jdnFirst ≤ jdn t.day.1 t.day.2.1 t.day.2.2 := by
    by_cases h : jdn t.day.1 t.day.2.1 t.day.2.2 < jdnFirst
    · exfalso
      have hv1 : Civil.validT (1, 1, 1) = true := by decide
      have := (C01_lt_iff t.day (1, 1, 1) v hv1).2 (by unfold jdnT; rw [jdn_first]; exact h)
      obtain ⟨a1, a2, a3, a4, a5, a6, a7⟩ := (valid_iff _ _ _).1 v
      unfold Civil.lt at this; dsimp only at this; omega
    · omega
  unfold secs secsFirst secsLast
  omega

theorem timeNext_spec (t : Time) (n : Int) (hv : Clock.valid t = true)
    (h1 : secsFirst ≤ secs t + n) (h2 : secs t + n ≤ secsLast) :
    ∃ r, timeNext t n = some r ∧ Clock.valid r = true ∧ secs r = secs t + n := by
  by_cases hn : n = 0
  · subst hn; exact ⟨t, by simp [timeNext], hv, by omega⟩
  · obtain ⟨v, b1, b2, b3, b4, b5, b6⟩ := (clock_valid_iff t).1 hv
    unfold timeNext
    simp only [hn, if_false]
    have cs := Clock.carry_spec t.s t.mi t.h n
    generalize Clock.carry t.s t.mi t.h n = c at cs
    obtain ⟨td, th, tm, ts⟩ := c
    dsimp only at cs ⊢
    obtain ⟨e, c1, c2, c3, c4, c5, c6⟩ := cs
    have hs : secs t = 86400 * jdnT t.day + 3600 * t.h + 60 * t.mi + t.s := rfl
    unfold secsFirst at h1
    unfold secsLast at h2
    obtain ⟨d1, d2, d3⟩ := dayNext_some t.day td (by omega) (by omega)
    rw [d1]
    simp only [Option.bind_some]
    rw [mkTime_some _ _ _ _ d2 c1 (by omega) c3 (by omega) c5 (by omega)]
    refine ⟨_, rfl, ?_, ?_⟩
    · rw [clock_valid_iff]; dsimp only; exact ⟨d2, c1, by omega, c3, by omega, c5, by omega⟩
    · have : secs ⟨ofJdn (jdnT t.day + td), th, tm, ts⟩ = 86400 * jdnT (ofJdn (jdnT t.day + td)) + 3600 * th + 60 * tm + ts := rfl
      rw [this, d3]; omega

theorem ofJdn_hi (j : Int) (h : 5373485 ≤ j) : 10000 ≤ (ofJdn j).1 := by
  unfold ofJdn
  have hg : j ≥ 2299161 := by omega
  simp only [hg, if_true]
  generalize hc : (4 * j - 7468865) / 146097 = c
  generalize hd : c / 4 = d
  have c95 : 95 ≤ c := by omega
  have cd : 72 ≤ c - d := by omega
  generalize hf : (20 * (j + 1 + c - d + 1524) - 2442) / 7305 = f
  have f1 : 14715 ≤ f := by omega
  generalize he : 1461 * f / 4 = e
  generalize hb : 1000 * (j + 1 + c - d + 1524 - e) / 30601 = b
  by_cases hf2 : f = 14715
  · subst hf2
    have : e = 5374653 := by omega
    subst this
    have : 14 ≤ b := by omega
    split <;> dsimp only <;> omega
  · split <;> dsimp only <;> omega

theorem ofJdn_lo (j : Int) (h : j ≤ 1721423) : (ofJdn j).1 ≤ 0 := by
  unfold ofJdn
  have hg : ¬ j ≥ 2299161 := by omega
  simp only [hg, if_false]
  generalize hf : (20 * (j + 1524) - 2442) / 7305 = f
  have f1 : f ≤ 4716 := by omega
  generalize he : 1461 * f / 4 = e
  generalize hb : 1000 * (j + 1524 - e) / 30601 = b
  by_cases hf2 : f = 4716
  · subst hf2
    have : e = 1722519 := by omega
    subst this
    have : b ≤ 13 := by omega
    split <;> dsimp only <;> omega
  · split <;> dsimp only <;> omega

theorem ofJdn_ok_range (j : Int) (h : solarDayOk (ofJdn j).1 (ofJdn j).2.1 (ofJdn j).2.2 = true) :
    jdnFirst ≤ j ∧ j ≤ jdnLast := by
  rw [solarDayOk_iff] at h
  obtain ⟨h1, h2, -⟩ := h
  unfold jdnFirst jdnLast
  constructor
  · by_cases hh : j ≤ 1721423
    · have := ofJdn_lo j hh; omega
    · omega
  · by_cases hh : 5373485 ≤ j
    · have := ofJdn_hi j hh; omega
    · omega

theorem secs_inj (a b : Time) (ha : Clock.valid a = true) (hb : Clock.valid b = true) (h : secs a = secs b) : a = b := by
  obtain ⟨va, a1, a2, a3, a4, a5, a6⟩ := (clock_valid_iff a).1 ha
  obtain ⟨vb, b1, b2, b3, b4, b5, b6⟩ := (clock_valid_iff b).1 hb
  unfold secs at h
  have hj : jdnT a.day = jdnT b.day := by unfold jdnT; omega
  have hd := jdn_inj a.day b.day va vb hj
  unfold jdnT at hj
  obtain ⟨ad, ah, ami, as⟩ := a
  obtain ⟨bd, bh, bmi, bs⟩ := b
  dsimp only at *
  subst hd
  have : ah = bh := by omega
  have : ami = bmi := by omega
  have : as = bs := by omega
  subst_vars; rfl

theorem timeNext_none (t : Time) (n : Int) (hv : Clock.valid t = true)
    (h : secs t + n < secsFirst ∨ secsLast < secs t + n) : timeNext t n = none := by
  have hb := secs_bounds t hv
  have hn : n ≠ 0 := by rintro rfl; omega
  unfold timeNext
  simp only [hn, if_false]
  have cs := Clock.carry_spec t.s t.mi t.h n
  generalize Clock.carry t.s t.mi t.h n = c at cs
  obtain ⟨td, th, tm, ts⟩ := c
  dsimp only at cs ⊢
  obtain ⟨e, c1, c2, c3, c4, c5, c6⟩ := cs
  have hs : secs t = 86400 * jdn t.day.1 t.day.2.1 t.day.2.2 + 3600 * t.h + 60 * t.mi + t.s := rfl
  have : dayNext t.day td = none := by
    unfold dayNext
    dsimp only
    split
    · rename_i hok
      have := ofJdn_ok_range _ hok
      unfold secsFirst secsLast at h
      omega
    · rfl
  rw [this]; rfl

theorem tick_spec (t : Time) (hv : Clock.valid t = true) (hne : t ≠ Clock.last) :
    Clock.valid (Clock.tick t) = true ∧ secs (Clock.tick t) = secs t + 1 := by
  obtain ⟨v, b1, b2, b3, b4, b5, b6⟩ := (clock_valid_iff t).1 hv
  unfold Clock.tick
  split
  · refine ⟨?_, ?_⟩
    · rw [clock_valid_iff]; dsimp only; exact ⟨v, b1, b2, b3, b4, by omega, by omega⟩
    · unfold secs; dsimp only; omega
  · split
    · refine ⟨?_, ?_⟩
      · rw [clock_valid_iff]; dsimp only; exact ⟨v, b1, b2, by omega, by omega, by omega, by omega⟩
      · unfold secs; dsimp only; omega
    · split
      · refine ⟨?_, ?_⟩
        · rw [clock_valid_iff]; dsimp only; exact ⟨v, by omega, by omega, by omega, by omega, by omega, by omega⟩
        · unfold secs; dsimp only; omega
      · have hd : ¬ (t.day.1 = 9999 ∧ t.day.2.1 = 12 ∧ t.day.2.2 = 31) := by
          rintro ⟨e1, e2, e3⟩
          apply hne
          obtain ⟨⟨y, m, d⟩, hh, mi, s⟩ := t
          dsimp only at *
          subst e1 e2 e3
          have : hh = 23 := by omega
          have : mi = 59 := by omega
          have : s = 59 := by omega
          subst_vars; rfl
        have nv := next_valid t.day.1 t.day.2.1 t.day.2.2 v hd
        have nj := jdn_next t.day.1 t.day.2.1 t.day.2.2 v hd
        refine ⟨?_, ?_⟩
        · rw [clock_valid_iff]; dsimp only; exact ⟨nv, by omega, by omega, by omega, by omega, by omega, by omega⟩
        · unfold secs; dsimp only; omega

theorem secs_last : secs Clock.last = secsLast := by decide

theorem clock_iter_spec : ∀ (n : Nat) (t : Time), Clock.valid t = true → secs t + n ≤ secsLast →
    Clock.valid (Clock.iter n t) = true ∧ secs (Clock.iter n t) = secs t + n := by
  intro n
  induction n with
  | zero => intro t hv _; simp [Clock.iter, hv]
  | succ n ih =>
    intro t hv hle
    have hne : t ≠ Clock.last := by
      rintro rfl
      rw [secs_last] at hle; omega
    obtain ⟨v1, s1⟩ := tick_spec t hv hne
    obtain ⟨v2, s2⟩ := ih (Clock.tick t) v1 (by rw [s1]; omega)
    exact ⟨v2, by show secs (Clock.iter n (Clock.tick t)) = _; rw [s2, s1]; omega⟩

theorem timeSub_eq (a b : Time) : timeSub a b = secs a - secs b := by
  unfold timeSub secs daySub
  dsimp only
  split <;> omega

theorem timeBefore_iff (a b : Time) (ha : Clock.valid a = true) (hb : Clock.valid b = true) :
    timeBefore a b = true ↔ secs a < secs b := by
  obtain ⟨va, a1, a2, a3, a4, a5, a6⟩ := (clock_valid_iff a).1 ha
  obtain ⟨vb, b1, b2, b3, b4, b5, b6⟩ := (clock_valid_iff b).1 hb
  unfold timeBefore secs
  simp only [bne_iff_ne, ne_eq, ite_not]
  split
  · rename_i hd
    rw [hd]
    repeat' split
    all_goals (simp only [decide_eq_true_eq]; omega)
  · rename_i hd
    rw [C01_before_iff a.day b.day va vb]
    have : jdnT a.day ≠ jdnT b.day := fun e => hd (jdn_inj _ _ va vb e)
    unfold jdnT at *
    omega

theorem timeAfter_iff (a b : Time) (ha : Clock.valid a = true) (hb : Clock.valid b = true) :
    timeAfter a b = true ↔ secs b < secs a := by
  obtain ⟨va, a1, a2, a3, a4, a5, a6⟩ := (clock_valid_iff a).1 ha
  obtain ⟨vb, b1, b2, b3, b4, b5, b6⟩ := (clock_valid_iff b).1 hb
  unfold timeAfter secs
  simp only [bne_iff_ne, ne_eq, ite_not]
  split
  · rename_i hd
    rw [hd]
    repeat' split
    all_goals (simp only [decide_eq_true_eq, gt_iff_lt]; omega)
  · rename_i hd
    rw [C01_after_iff a.day b.day va vb]
    have : jdnT a.day ≠ jdnT b.day := fun e => hd (jdn_inj _ _ va vb e)
    unfold jdnT at *
    omega

theorem clock_lt_iff (a b : Time) (ha : Clock.valid a = true) (hb : Clock.valid b = true) :
    Clock.lt a b ↔ secs a < secs b := by
  obtain ⟨va, a1, a2, a3, a4, a5, a6⟩ := (clock_valid_iff a).1 ha
  obtain ⟨vb, b1, b2, b3, b4, b5, b6⟩ := (clock_valid_iff b).1 hb
  unfold Clock.lt secs
  rw [C01_lt_iff a.day b.day va vb]
  by_cases hd : a.day = b.day
  · rw [hd]; unfold jdnT; simp only [true_and]; omega
  · have : jdnT a.day ≠ jdnT b.day := fun e => hd (jdn_inj _ _ va vb e)
    unfold jdnT at *
    simp only [hd, false_and, or_false]
    omega


theorem jdClock_spec (p q : Int) (hq : 0 < q) :
    let c := jdClock p q
    86400 * c.1 + 3600 * c.2.1 + 60 * c.2.2.1 + c.2.2.2 = jdSecs p q ∧
    0 ≤ c.2.1 ∧ c.2.1 ≤ 24 ∧ 0 ≤ c.2.2.1 ∧ c.2.2.1 ≤ 59 ∧ 0 ≤ c.2.2.2 ∧ c.2.2.2 ≤ 59 ∧
    (c.2.1 = 24 → c.2.2.1 = 0 ∧ c.2.2.2 = 0) := by
  unfold jdClock jdSecs
  dsimp only
  generalize hQ : 2 * q = Q
  have hQ0 : 0 < Q := by omega
  have hQne : Q ≠ 0 := by omega
  -- floor and fraction of p/q
  have ew := Int.mul_ediv_add_emod p q
  have r0 := Int.emod_nonneg p (show q ≠ 0 by omega)
  have r1 := Int.emod_lt_of_pos p hq
  generalize p / q = w at *
  generalize p % q = r at *
  have eQw : Q * w = 2 * (q * w) := by rw [← hQ, Int.mul_assoc]
  -- d, g with 2p + q = Q d + g, 0 ≤ g < Q
  generalize hd : (if 2 * r + q ≥ Q then w + 1 else w) = d
  generalize hg : (if 2 * r + q ≥ Q then 2 * r + q - Q else 2 * r + q) = g
  have eV : 2 * p + q = Q * d + g ∧ 0 ≤ g ∧ g < Q := by
    have : Q * (w + 1) = Q * w + Q := by rw [Int.mul_add, Int.mul_one]
    split at hd <;> split at hg <;> subst hd hg <;> omega
  obtain ⟨eV, g0, g1⟩ := eV
  -- hour
  have eh := Int.mul_ediv_add_emod (24 * g) Q
  have h0 : 0 ≤ 24 * g / Q := Int.ediv_nonneg (by omega) (by omega)
  have h1 : 24 * g / Q < 24 := (Int.ediv_lt_iff_lt_mul hQ0).2 (by omega)
  have k0 := Int.emod_nonneg (24 * g) hQne
  have k1 := Int.emod_lt_of_pos (24 * g) hQ0
  generalize 24 * g / Q = hh at *
  have eg1 : 24 * g - Q * hh = 24 * g % Q := by omega
  rw [eg1]
  generalize 24 * g % Q = gg1 at *
  -- minute
  have em := Int.mul_ediv_add_emod (60 * gg1) Q
  have m0 : 0 ≤ 60 * gg1 / Q := Int.ediv_nonneg (by omega) (by omega)
  have m1 : 60 * gg1 / Q < 60 := (Int.ediv_lt_iff_lt_mul hQ0).2 (by omega)
  have l0 := Int.emod_nonneg (60 * gg1) hQne
  have l1 := Int.emod_lt_of_pos (60 * gg1) hQ0
  generalize 60 * gg1 / Q = mm at *
  have eg2 : 60 * gg1 - Q * mm = 60 * gg1 % Q := by omega
  rw [eg2]
  generalize 60 * gg1 % Q = gg2 at *
  -- second (rounded)
  have es := Int.mul_ediv_add_emod (60 * gg2 + q) Q
  have s0 : 0 ≤ (60 * gg2 + q) / Q := Int.ediv_nonneg (by omega) (by omega)
  have s1 : (60 * gg2 + q) / Q < 61 := (Int.ediv_lt_iff_lt_mul hQ0).2 (by omega)
  have n0 := Int.emod_nonneg (60 * gg2 + q) hQne
  have n1 := Int.emod_lt_of_pos (60 * gg2 + q) hQ0
  generalize (60 * gg2 + q) / Q = ss at *
  generalize (60 * gg2 + q) % Q = R at *
  -- the total
  have tot : (86400 * (2 * p + q) + q) / Q = 86400 * d + 3600 * hh + 60 * mm + ss := by
    have := (Int.ediv_emod_unique (a := 86400 * (2 * p + q) + q) (r := R) (q := 86400 * d + 3600 * hh + 60 * mm + ss) hQ0).2 ⟨by
      have : Q * (86400 * d + 3600 * hh + 60 * mm + ss) = 86400 * (Q * d) + 3600 * (Q * hh) + 60 * (Q * mm) + Q * ss := by
        simp only [Int.mul_add, Int.mul_left_comm]
      rw [this]; omega, n0, n1⟩
    exact this.1
  rw [tot]
  refine ⟨?_, ?_⟩
  · repeat' split
    all_goals omega
  · repeat' split
    all_goals omega

theorem jdClock_midnight (m : Int) : jdClock (2 * m - 1) 2 = (m, 0, 0, 0) := by
  unfold jdClock
  have e1 : (2 * m - 1) / 2 = m - 1 := by omega
  have e2 : (2 * m - 1) % 2 = 1 := by omega
  simp only [e1, e2]
  simp

/-- the remainder form of `jdSecs`: 86400·(2p+q) + q = 2q·T + R with 0 ≤ R < 2q -/
theorem jdSecs_bounds (p q : Int) (hq : 0 < q) :
    2 * q * jdSecs p q ≤ 86400 * (2 * p + q) + q ∧ 86400 * (2 * p + q) + q < 2 * q * jdSecs p q + 2 * q := by
  unfold jdSecs
  have e := Int.mul_ediv_add_emod (86400 * (2 * p + q) + q) (2 * q)
  have n0 := Int.emod_nonneg (86400 * (2 * p + q) + q) (show 2 * q ≠ 0 by omega)
  have n1 := Int.emod_lt_of_pos (86400 * (2 * p + q) + q) (show 0 < 2 * q by omega)
  omega

theorem jdSecs_unique (p q T : Int) (hq : 0 < q)
    (h1 : 2 * q * T ≤ 86400 * (2 * p + q) + q) (h2 : 86400 * (2 * p + q) + q < 2 * q * T + 2 * q) :
    jdSecs p q = T := by
  unfold jdSecs
  have := (Int.ediv_emod_unique (a := 86400 * (2 * p + q) + q) (r := 86400 * (2 * p + q) + q - 2 * q * T) (q := T)
    (show 0 < 2 * q by omega)).2 ⟨by omega, by omega, by omega⟩
  exact this.1

theorem ofJD_spec (p q : Int) (hq : 0 < q) (h1 : secsFirst ≤ jdSecs p q) (h2 : jdSecs p q ≤ secsLast) :
    ∃ t, ofJD p q = some t ∧ Clock.valid t = true ∧ secs t = jdSecs p q := by
  have cs := jdClock_spec p q hq
  unfold ofJD
  generalize jdClock p q = c at cs
  obtain ⟨d, hh, mm, ss⟩ := c
  dsimp only at cs ⊢
  obtain ⟨e, a1, a2, a3, a4, a5, a6, a7⟩ := cs
  unfold secsFirst at h1
  unfold secsLast at h2
  split
  · rename_i h24
    have : hh = 24 := by omega
    obtain ⟨z1, z2⟩ := a7 this
    subst this z1 z2
    rw [jdClock_midnight]
    dsimp only
    obtain ⟨v, ej⟩ := C01_jdn_ofJdn (d + 1) (by omega) (by omega)
    rw [mkTime_some _ _ _ _ v (by omega) (by omega) (by omega) (by omega) (by omega) (by omega)]
    refine ⟨_, rfl, ?_, ?_⟩
    · rw [clock_valid_iff]; dsimp only; exact ⟨v, by omega, by omega, by omega, by omega, by omega, by omega⟩
    · have : secs ⟨ofJdn (d + 1), 0, 0, 0⟩ = 86400 * jdnT (ofJdn (d + 1)) + 3600 * 0 + 60 * 0 + 0 := rfl
      rw [this, ej]; omega
  · rename_i h24
    obtain ⟨v, ej⟩ := C01_jdn_ofJdn d (by omega) (by omega)
    rw [mkTime_some _ _ _ _ v a1 (by omega) a3 a4 a5 a6]
    refine ⟨_, rfl, ?_, ?_⟩
    · rw [clock_valid_iff]; dsimp only; exact ⟨v, a1, by omega, a3, a4, a5, a6⟩
    · have : secs ⟨ofJdn d, hh, mm, ss⟩ = 86400 * jdnT (ofJdn d) + 3600 * hh + 60 * mm + ss := rfl
      rw [this, ej]; omega

theorem mkTime_range (j h mi s : Int) (t : Time) (e : mkTime? (ofJdn j) h mi s = some t) :
    jdnFirst ≤ j ∧ j ≤ jdnLast := by
  unfold mkTime? at e
  split at e
  · rename_i hok
    unfold timeOk at hok
    simp only [Bool.and_eq_true] at hok
    exact ofJdn_ok_range j hok.2
  · cases e

theorem ofJD_none (p q : Int) (hq : 0 < q) (h : jdSecs p q < secsFirst ∨ secsLast < jdSecs p q) :
    ofJD p q = none := by
  have cs := jdClock_spec p q hq
  cases hr : ofJD p q with
  | none => rfl
  | some t =>
    exfalso
    unfold ofJD at hr
    generalize jdClock p q = c at cs hr
    obtain ⟨d, hh, mm, ss⟩ := c
    dsimp only at cs hr
    obtain ⟨e, a1, a2, a3, a4, a5, a6, a7⟩ := cs
    unfold secsFirst secsLast at h
    split at hr
    · rename_i h24
      have : hh = 24 := by omega
      obtain ⟨z1, z2⟩ := a7 this
      subst this z1 z2
      rw [jdClock_midnight] at hr
      dsimp only at hr
      have := mkTime_range _ _ _ _ _ hr
      omega
    · have := mkTime_range _ _ _ _ _ hr
      omega

theorem ofJD_some (p q : Int) (hq : 0 < q) (t : Time) (e : ofJD p q = some t) :
    Clock.valid t = true ∧ secs t = jdSecs p q ∧ secsFirst ≤ jdSecs p q ∧ jdSecs p q ≤ secsLast := by
  by_cases h : jdSecs p q < secsFirst ∨ secsLast < jdSecs p q
  · rw [ofJD_none p q hq h] at e; cases e
  · obtain ⟨r, e', v, s⟩ := ofJD_spec p q hq (by omega) (by omega)
    rw [e] at e'; injection e' with e'; subst e'
    exact ⟨v, s, by omega, by omega⟩

end Tyme
