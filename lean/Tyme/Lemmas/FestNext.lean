import Tyme.Lemmas.FestHoliday
/- C20, `LegalHoliday::next`: `find_iter` over the aligned table = a filter over its records; the two year-carry
loops walk the concatenation of the year blocks. Data-independent (everything follows from `HolWF`). -/
namespace Tyme.Fest
open FestSpec

/-! ## find_iter -/

theorem findIter_skip (r : Rx) : ∀ (s : Nat) (l : Bytes), s ≤ l.length → r.findIter l s = r.findIter (l.drop s) 0 := by
  intro s
  induction s with
  | zero => intro l _; rfl
  | succ s ih =>
    intro l hl
    cases l with
    | nil => simp at hl
    | cons b t =>
      simp only [Rx.findIter, List.drop_succ_cons]
      exact ih t (by simpa using hl)

theorem findIter_fail (r : Rx) : ∀ (n : Nat) (l : Bytes), n ≤ l.length →
    (∀ o, o < n → r.matchHere (l.drop o) = none) → r.findIter l 0 = r.findIter (l.drop n) 0 := by
  intro n
  induction n with
  | zero => intro l _ _; rfl
  | succ n ih =>
    intro l hl h
    cases l with
    | nil => simp at hl
    | cons b t =>
      have h0 := h 0 (by omega)
      simp only [List.drop_zero] at h0
      simp only [Rx.findIter, h0, List.drop_succ_cons]
      exact ih t (by simpa using hl) (fun o ho => by simpa using h (o + 1) (by omega))

def dig4 : List Pat := [.dig, .dig, .dig, .dig]

theorem holYearRx_fix (y : Int) : (holYearRx y).fix = lits (fmtInt 4 y) ++ (dig4 ++ holTail) := by
  simp [holYearRx, dig4, List.append_assoc]

theorem shape_split4 : shape = dig4 ++ (dig4 ++ holTail) := rfl

/-- suffix property: the record shape matches exactly at the multiples of 13 -/
def AlignedSuffix (l : Bytes) : Prop := ∀ o, o < l.length → (okAll shape (l.drop o) = true ↔ o % 13 = 0)

theorem alignedSuffix_drop13 {l : Bytes} (h : AlignedSuffix l) : AlignedSuffix (l.drop 13) := by
  intro o ho
  have ho' : 13 + o < l.length := by simp at ho; omega
  have := h (13 + o) ho'
  rw [List.drop_drop]
  rw [this]; omega

theorem holY_aligned {y : Int} (h0 : 0 ≤ y) (h1 : y < 10000) : ∀ (n : Nat) (l : Bytes), l.length = 13 * n → AlignedSuffix l →
    (holYearRx y).findIter l 0 = (chunks n l).filter (fun c => c.take 4 == fmtInt 4 y) := by
  have F := fmt4_ok y h0 h1
  have href : Refines (holYearRx y).fix shape := by
    rw [holYearRx_fix, shape_split4]
    have := refines_lits_dig (fmtInt 4 y) (dig4 ++ holTail) F.2.1
    rw [F.1] at this; exact this
  have hfixlen : (holYearRx y).fix.length = 13 := by
    rw [holYearRx_fix, List.length_append, lits_length, F.1]; rfl
  have hmh : ∀ s, (holYearRx y).matchHere s = if okAll (holYearRx y).fix s then some (s.take 13) else none := by
    intro s; rw [matchHere_noplus _ rfl, hfixlen]
  intro n
  induction n with
  | zero =>
    intro l hl _
    have : l = [] := List.eq_nil_of_length_eq_zero (by omega)
    subst this; rfl
  | succ n ih =>
    intro l hl hal
    have hdl : (l.drop 13).length = 13 * n := by simp; omega
    have ihn := ih (l.drop 13) hdl (alignedSuffix_drop13 hal)
    simp only [chunks, List.filter_cons, List.take_take]
    have hsh0 : okAll shape l = true := by
      have := (hal 0 (by omega)).2 (by omega); simpa using this
    rw [shape_split4, okAll_append, Bool.and_eq_true] at hsh0
    have hfix : okAll (holYearRx y).fix l = (l.take 4 == fmtInt 4 y) := by
      have e4 : (dig4 : List Pat).length = 4 := rfl
      have hs2 := hsh0.2
      rw [e4] at hs2
      rw [holYearRx_fix, okAll_append, okAll_lits, lits_length, F.1, hs2, Bool.and_true]
      rw [Bool.eq_iff_iff, List.isPrefixOf_iff_prefix, List.prefix_iff_eq_take, F.1, beq_iff_eq]
      exact ⟨fun h => h.symm, fun h => h.symm⟩
    cases l with
    | nil => simp at hl
    | cons b t =>
      by_cases hp : ((b :: t).take 4 == fmtInt 4 y) = true
      · have hm : (holYearRx y).matchHere (b :: t) = some ((b :: t).take 13) := by rw [hmh, hfix, hp]; rfl
        have e13 : ((b :: t).take 13).length - 1 = 12 := by
          rw [List.length_take]; simp at hl ⊢; omega
        have hmin : (min 4 13) = 4 := rfl
        simp only [Rx.findIter, hm, e13]
        rw [findIter_skip _ 12 t (by simp at hl; omega)]
        have : t.drop 12 = (b :: t).drop 13 := rfl
        rw [this, ihn]
        simp only [hmin, hp, if_true]
      · have hp' : ((b :: t).take 4 == fmtInt 4 y) = false := by simpa using hp
        have hfail : ∀ o, o < 13 → (holYearRx y).matchHere ((b :: t).drop o) = none := by
          intro o ho
          rw [hmh]
          by_cases h0' : o = 0
          · subst h0'; simp only [List.drop_zero, hfix, hp']; rfl
          · have hne : okAll (holYearRx y).fix ((b :: t).drop o) ≠ true := by
              intro hok
              have := (hal o (by omega)).1 (okAll_refines href hok)
              omega
            simp [hne]
        rw [findIter_fail _ 13 (b :: t) (by omega) hfail, ihn]
        have hmin : (min 4 13) = 4 := rfl
        simp only [hmin, hp', Bool.false_eq_true, if_false]

/-! ## year blocks -/

section Blocks
variable {α : Type}

/-- number of elements in the blocks before block `j` -/
def preLen (bl : List (List α)) (j : Nat) : Nat := (bl.take j).flatten.length

theorem getD_eq_getElem (bl : List (List α)) {j : Nat} (hj : j < bl.length) : bl.getD j [] = bl[j] := by
  simp [List.getD, List.getElem?_eq_getElem hj]

theorem drop_getD (bl : List (List α)) {j : Nat} (hj : j < bl.length) : bl.drop j = bl.getD j [] :: bl.drop (j + 1) := by
  rw [getD_eq_getElem bl hj]; exact List.drop_eq_getElem_cons hj

theorem preLen_succ (bl : List (List α)) {j : Nat} (hj : j < bl.length) :
    preLen bl (j + 1) = preLen bl j + (bl.getD j []).length := by
  unfold preLen
  rw [List.take_succ_eq_append_getElem hj, List.flatten_append, List.length_append, getD_eq_getElem bl hj]
  simp

theorem flatten_split (bl : List (List α)) (j : Nat) : bl.flatten = (bl.take j).flatten ++ (bl.drop j).flatten := by
  rw [← List.flatten_append, List.take_append_drop]

theorem flatten_getElem?_pre (bl : List (List α)) (j i : Nat) :
    bl.flatten[preLen bl j + i]? = (bl.drop j).flatten[i]? := by
  rw [flatten_split bl j, List.getElem?_append_right (by unfold preLen; omega)]
  unfold preLen; congr 1; omega

/-- every position of the concatenation lies in exactly one block -/
theorem flatten_locate : ∀ (bl : List (List α)) (k : Nat), k < bl.flatten.length →
    ∃ j i, j < bl.length ∧ i < (bl.getD j []).length ∧ k = preLen bl j + i := by
  intro bl
  induction bl with
  | nil => intro k hk; simp at hk
  | cons b bl ih =>
    intro k hk
    by_cases hb : k < b.length
    · exact ⟨0, k, by simp, by simpa [List.getD] using hb, by simp [preLen]⟩
    · have hk' : k - b.length < bl.flatten.length := by
        rw [List.flatten_cons, List.length_append] at hk; omega
      obtain ⟨j, i, hj, hi, hki⟩ := ih (k - b.length) hk'
      refine ⟨j + 1, i, by simp; omega, by simpa [List.getD] using hi, ?_⟩
      have : preLen (b :: bl) (j + 1) = b.length + preLen bl j := by simp [preLen]
      omega

variable (Y : Int → List α) (bl : List (List α)) (lo : Int) (N : Nat)

theorem holFwd_blocks (hN : bl.length = N + 1) (hY : ∀ j : Nat, j ≤ N → Y (lo + j) = bl.getD j [])
    (hlast : bl.getD N [] = []) (hmid : ∀ j, 0 < j → j < N → bl.getD j [] ≠ []) :
    ∀ (f j : Nat) (index : Int), 0 < j → j < N → 0 ≤ index → N - j ≤ f →
      holFwd Y f index (lo + j) (bl.getD j []) =
        match (bl.drop j).flatten[index.toNat]? with
        | some x => .found x
        | none => .absent := by
  intro f
  induction f with
  | zero => intro j index _ hj _ hf; omega
  | succ f ih =>
    intro j index hj0 hj hidx hf
    have hdrop := drop_getD bl (j := j) (by omega)
    rw [hdrop, List.flatten_cons]
    unfold holFwd
    by_cases hge : index ≥ ((bl.getD j []).length : Int)
    · rw [if_pos hge]
      have hcast : lo + (j : Int) + 1 = lo + ((j + 1 : Nat) : Int) := by push_cast; omega
      have hY1 : Y (lo + (j : Int) + 1) = bl.getD (j + 1) [] := by rw [hcast]; exact hY (j + 1) (by omega)
      simp only [hY1]
      have hright : ((bl.getD j []) ++ (bl.drop (j + 1)).flatten)[index.toNat]? =
          ((bl.drop (j + 1)).flatten)[(index - ((bl.getD j []).length : Int)).toNat]? := by
        rw [List.getElem?_append_right (by omega)]
        congr 1; omega
      rw [hright]
      by_cases hemp : (bl.getD (j + 1) []).length < 1
      · rw [if_pos hemp]
        have hnil : bl.getD (j + 1) [] = [] := List.eq_nil_of_length_eq_zero (by omega)
        have hjN : j + 1 = N := by
          rcases Nat.lt_or_ge (j + 1) N with h | h
          · exact absurd hnil (hmid (j + 1) (by omega) h)
          · omega
        have hd : bl.drop (j + 1) = [[]] := by
          rw [hjN, drop_getD bl (j := N) (by omega), hlast, List.drop_eq_nil_of_le (by omega)]
        rw [hd]; simp
      · rw [if_neg hemp]
        have hjN : j + 1 < N := by
          rcases Nat.lt_or_ge (j + 1) N with h | h
          · exact h
          · have : j + 1 = N := by omega
            rw [this, hlast] at hemp; simp at hemp
        rw [hcast]
        exact ih (j + 1) (index - ((bl.getD j []).length : Int)) (by omega) hjN (by omega) (by omega)
    · rw [if_neg hge]
      have hlt : index.toNat < (bl.getD j []).length := by omega
      rw [List.getElem?_append_left hlt, List.getElem?_eq_getElem hlt]

theorem holBwd_blocks (hN : bl.length = N + 1) (hY : ∀ j : Nat, j ≤ N → Y (lo + j) = bl.getD j [])
    (h0 : bl.getD 0 [] = []) (hmid : ∀ j, 0 < j → j < N → bl.getD j [] ≠ []) :
    ∀ (f j : Nat) (index : Int), 0 < j → j ≤ N → index < ((bl.getD j []).length : Int) → j ≤ f →
      holBwd Y f index (lo + j) (bl.getD j []) =
        if 0 ≤ (preLen bl j : Int) + index then
          (match bl.flatten[((preLen bl j : Int) + index).toNat]? with
           | some x => .found x
           | none => .refused)
        else .absent := by
  intro f
  induction f with
  | zero => intro j index hj _ _ hf; omega
  | succ f ih =>
    intro j index hj0 hj hidx hf
    unfold holBwd
    by_cases hneg : index < 0
    · rw [if_pos hneg]
      have hcast : lo + (j : Int) - 1 = lo + ((j - 1 : Nat) : Int) := by omega
      have hY1 : Y (lo + (j : Int) - 1) = bl.getD (j - 1) [] := by rw [hcast]; exact hY (j - 1) (by omega)
      simp only [hY1]
      have hpre : preLen bl j = preLen bl (j - 1) + (bl.getD (j - 1) []).length := by
        have := preLen_succ bl (j := j - 1) (by omega)
        have e : j - 1 + 1 = j := by omega
        rw [e] at this; exact this
      by_cases hemp : (bl.getD (j - 1) []).length < 1
      · rw [if_pos hemp]
        have hnil : bl.getD (j - 1) [] = [] := List.eq_nil_of_length_eq_zero (by omega)
        have hj1 : j - 1 = 0 := by
          rcases Nat.eq_zero_or_pos (j - 1) with h | h
          · exact h
          · exact absurd hnil (hmid (j - 1) h (by omega))
        have hp0 : preLen bl (j - 1) = 0 := by rw [hj1]; simp [preLen]
        rw [if_neg]
        rw [hpre, hp0, hnil]; simp; omega
      · rw [if_neg hemp]
        have hj1 : 0 < j - 1 := by
          rcases Nat.eq_zero_or_pos (j - 1) with h | h
          · rw [h, h0] at hemp; simp at hemp
          · exact h
        rw [hcast, ih (j - 1) (index + ((bl.getD (j - 1) []).length : Int)) hj1 (by omega) (by omega) (by omega)]
        have e : (preLen bl j : Int) + index = (preLen bl (j - 1) : Int) + (index + ((bl.getD (j - 1) []).length : Int)) := by
          rw [hpre]; push_cast; omega
        rw [e]
    · rw [if_neg hneg]
      have hlt : index.toNat < (bl.getD j []).length := by omega
      rw [List.getElem?_eq_getElem hlt]
      rw [if_pos (by omega)]
      have e : ((preLen bl j : Int) + index).toNat = preLen bl j + index.toNat := by omega
      rw [e, flatten_getElem?_pre, drop_getD bl (j := j) (by omega), List.flatten_cons,
        List.getElem?_append_left hlt, List.getElem?_eq_getElem hlt]

end Blocks

/-! ## assembling `next` -/

theorem yearBlocks_length (cs : List Bytes) (lo n : Nat) : (yearBlocks cs lo n).length = n := by simp [yearBlocks]

theorem yearBlocks_getD (cs : List Bytes) (lo n : Nat) {j : Nat} (hj : j < n) :
    (yearBlocks cs lo n).getD j [] = cs.filter fun c => (parseHol c).y == lo + j := by
  rw [getD_eq_getElem _ (by rw [yearBlocks_length]; exact hj)]
  simp [yearBlocks]

theorem blocksOk_elim {cs : List Bytes} (h : blocksOk cs = true) :
    2 ≤ (yearBlocks cs (holLo cs) (holNb cs)).length ∧ 1 ≤ holLo cs ∧
    holLo cs + (yearBlocks cs (holLo cs) (holNb cs)).length ≤ 10000 ∧
    (yearBlocks cs (holLo cs) (holNb cs)).flatten = cs ∧
    (yearBlocks cs (holLo cs) (holNb cs)).getD 0 [] = [] ∧
    (yearBlocks cs (holLo cs) (holNb cs)).getD ((yearBlocks cs (holLo cs) (holNb cs)).length - 1) [] = [] ∧
    (∀ j, 0 < j → j < (yearBlocks cs (holLo cs) (holNb cs)).length - 1 → (yearBlocks cs (holLo cs) (holNb cs)).getD j [] ≠ []) ∧
    (∀ b ∈ yearBlocks cs (holLo cs) (holNb cs), selfIndexed b = true) := by
  simp only [blocksOk, Bool.and_eq_true, decide_eq_true_eq, beq_iff_eq, List.all_eq_true] at h
  obtain ⟨⟨⟨⟨⟨⟨⟨⟨h1, _⟩, h3⟩, h4⟩, h5⟩, h6⟩, h7⟩, h8⟩, h9⟩ := h
  refine ⟨h1, h3, h4, h5, h6, h7, ?_, h9⟩
  intro j hj0 hj
  have := allLt_spec h8 j hj
  simp only [Bool.or_eq_true, beq_iff_eq, Bool.not_eq_true', List.isEmpty_eq_false_iff] at this
  rcases this with h | h
  · omega
  · exact h

theorem parseNat_some_digits {l : Bytes} {n : Nat} (h : parseNat l = some n) : l.all isDigit = true := by
  unfold parseNat at h
  split at h
  · cases h
  · split at h
    · assumption
    · cases h

theorem firstPrefix_lt : ∀ (p : Bytes) (l : List Bytes) (s i : Nat), firstPrefix p l s = some i → s ≤ i ∧ i < s + l.length := by
  intro p l
  induction l with
  | nil => intro s i h; cases h
  | cons x t ih =>
    intro s i h
    unfold firstPrefix at h
    split at h
    · cases h; simp
    · have := ih (s + 1) i h
      simp; omega

section WF3
variable {nNames : Nat} {data : Bytes} (W : HolWF nNames data)
include W

theorem wf_alignedSuffix : AlignedSuffix data := fun _ ho => wf_aligned W ho

theorem wf_mem_recOk {c : Bytes} (hc : c ∈ chunksOf data) : holRecOk nNames c = true := by
  have h := W.recsOk; rw [List.all_eq_true] at h; exact h c hc

/-- the year's matches, as the model computes them, are the records of that year -/
theorem holY_eq_block {j : Nat} (hj : holLo (chunksOf data) + j < 10000) :
    (holYearRx ((holLo (chunksOf data) : Int) + (j : Int))).findIter data 0 =
      (chunksOf data).filter fun c => (parseHol c).y == holLo (chunksOf data) + j := by
  have hy0 : (0 : Int) ≤ (holLo (chunksOf data) : Int) + (j : Int) := by omega
  have hy1 : (holLo (chunksOf data) : Int) + (j : Int) < 10000 := by omega
  rw [holY_aligned hy0 hy1 (data.length / 13) data (wf_len W) (wf_alignedSuffix W)]
  apply List.filter_congr
  intro c hc
  have R := holRecOk_elim (wf_mem_recOk W hc)
  obtain ⟨a, b, _, _, _, _⟩ := valid_ranges R.2.1
  have F := fmt4_ok _ a b
  have F' := fmt4_ok _ hy0 hy1
  have h4 : c.take 4 = fmtInt 4 (parseHol c).y := by
    have := congrArg (List.take 4) R.2.2.2.1
    rw [List.take_take] at this
    unfold f8 at this
    rw [List.append_assoc, List.take_left' F.1] at this
    exact this.symm
  rw [h4, Bool.eq_iff_iff, beq_iff_eq, beq_iff_eq]
  constructor
  · intro e
    have := F.2.2; rw [e, F'.2.2] at this
    have := Option.some.inj this
    omega
  · intro e
    have : ((parseHol c).y : Int) = (holLo (chunksOf data) : Int) + (j : Int) := by omega
    rw [this]

end WF3

section WF4
variable {nNames : Nat} {data : Bytes} (W : HolWF nNames data)
include W

/-- re-reading a record found by the loops: `from_ymd` on its own digits returns it -/
theorem hol_reparse {k : Nat} {c : Bytes} (hc : (chunksOf data)[k]? = some c) :
    (match parseInt (c.take 4), parseNat ((c.drop 4).take 2), parseNat ((c.drop 6).take 2) with
      | some y', some m', some d' => holFromYmd data y' m' d'
      | _, _, _ => Res.refused) = .found (holOfRec (parseHol c)) := by
  have hk : k < data.length / 13 := by
    have := (List.getElem?_eq_some_iff.1 hc).1
    rw [chunks_length] at this; exact this
  have hcd : c = (data.drop (13 * k)).take 13 := by
    have := wf_chunk (data := data) hk
    rw [hc] at this; exact Option.some.inj this
  have R := holRecOk_elim (wf_mem_recOk W (List.mem_of_getElem? hc))
  have hpi : parseInt (c.take 4) = some ((parseHol c).y : Int) := by
    rw [parseInt_digits (parseNat_some_digits R.2.2.2.2.1), R.2.2.2.2.1]; rfl
  rw [hpi, R.2.2.2.2.2.1, R.2.2.2.2.2.2]
  simp only []
  rw [holFromYmd_spec W R.2.1]
  have := holOn_record W hk
  simp only [] at this
  rw [← hcd] at this
  rw [this]

theorem holNext_spec {k : Nat} (hk : k < data.length / 13) (n : Int) :
    holNext data (holOfRec (parseHol ((data.drop (13 * k)).take 13))) n =
      match holStep (holRecs data) k n with
      | some r' => .found (holOfRec r')
      | none => .absent := by
  have hck : (chunksOf data)[k]? = some ((data.drop (13 * k)).take 13) := wf_chunk hk
  generalize hc : (data.drop (13 * k)).take 13 = c at hck ⊢
  have hrk : (holRecs data)[k]? = some (parseHol c) := by rw [holRecs_getElem? hk, hc]
  by_cases hn0 : n = 0
  · subst hn0
    unfold holNext holStep
    have hk0 : ¬ ((k : Int) + 0 < 0) := by omega
    have e : ((k : Int) + 0).toNat = k := by omega
    simp only [BEq.rfl, if_true, if_neg hk0, e, hrk]
  obtain ⟨hb2, hlo1, hlohi, hflat, hb0, hbN, hmid, hself⟩ := blocksOk_elim W.blocks
  generalize hbl : yearBlocks (chunksOf data) (holLo (chunksOf data)) (holNb (chunksOf data)) = bl at *
  have hblen : bl.length = holNb (chunksOf data) := by rw [← hbl, yearBlocks_length]
  have hcslen : (chunksOf data).length = data.length / 13 := chunks_length _ _
  -- locate record k in its year block
  obtain ⟨j, i, hj, hi, hki⟩ := flatten_locate bl k (by rw [hflat, hcslen]; exact hk)
  have hbj : bl.getD j [] = (chunksOf data).filter fun c => (parseHol c).y == holLo (chunksOf data) + j := by
    rw [← hbl]; exact yearBlocks_getD _ _ _ (by omega)
  have hci : (bl.getD j [])[i]? = some c := by
    have := flatten_getElem?_pre bl j i
    rw [← hki, hflat, hck, drop_getD bl hj, List.flatten_cons, List.getElem?_append_left hi] at this
    exact this.symm
  have hcmem : c ∈ bl.getD j [] := List.mem_of_getElem? hci
  have hyear : (parseHol c).y = holLo (chunksOf data) + j := by
    rw [hbj, List.mem_filter, beq_iff_eq] at hcmem; exact hcmem.2
  have hj0 : 0 < j := by
    rcases Nat.eq_zero_or_pos j with h | h
    · subst h; rw [hb0] at hi; simp at hi
    · exact h
  have hjN : j < bl.length - 1 := by
    rcases Nat.lt_or_ge j (bl.length - 1) with h | h
    · exact h
    · have : j = bl.length - 1 := by omega
      rw [this, hbN] at hi; simp at hi
  -- the model's year function on the relevant years
  have hY : ∀ j' : Nat, j' ≤ bl.length - 1 →
      (fun y : Int => (holYearRx y).findIter data 0) ((holLo (chunksOf data) : Int) + (j' : Int)) = bl.getD j' [] := by
    intro j' hj'
    show (holYearRx ((holLo (chunksOf data) : Int) + (j' : Int))).findIter data 0 = _
    rw [holY_eq_block W (by omega), ← hbl, yearBlocks_getD _ _ _ (by omega)]
  have hNeq : bl.length = (bl.length - 1) + 1 := by omega
  -- today's digits and their position in the block
  have R := holRecOk_elim (wf_mem_recOk W (List.mem_of_getElem? hck))
  have hself_j : selfIndexed (bl.getD j []) = true := by
    apply hself; rw [getD_eq_getElem bl hj]; exact List.getElem_mem _
  have hfirst : firstPrefix (c.take 8) (bl.getD j []) 0 = some i := by
    have := allLt_spec hself_j i hi
    rw [beq_iff_eq] at this
    have e : (bl.getD j []).getD i [] = c := by
      show ((bl.getD j [])[i]?).getD [] = c
      rw [hci]; rfl
    rw [e] at this; exact this
  have hcur : (holYearRx ((parseHol c).y : Int)).findIter data 0 = bl.getD j [] := by
    have := hY j (by omega)
    simp only [] at this
    rw [← this]; congr 2; omega
  unfold holNext
  have hne : (n == 0) = false := by simpa using hn0
  simp only [hne, Bool.false_eq_true, if_false, holOfRec]
  have htoday : fmtInt 4 ((parseHol c).y : Int) ++ fmtInt 2 ((parseHol c).m : Int) ++ fmtInt 2 ((parseHol c).d : Int) = c.take 8 :=
    R.2.2.2.1
  rw [htoday, hcur, hfirst]
  simp only []
  have hyc : ((parseHol c).y : Int) = (holLo (chunksOf data) : Int) + (j : Int) := by omega
  have hstep_some : ∀ t : Nat, (holRecs data)[t]? = ((chunksOf data)[t]?).map parseHol := by
    intro t; unfold holRecs; rw [List.getElem?_map]
  by_cases hpos : n > 0
  · rw [if_pos hpos, hyc]
    rw [holFwd_blocks (fun y : Int => (holYearRx y).findIter data 0) bl (holLo (chunksOf data)) (bl.length - 1) hNeq hY hbN hmid
      holFuel j ((i : Int) + n) hj0 hjN (by omega) (by unfold holFuel; omega)]
    have hidx : ((k : Int) + n).toNat = preLen bl j + ((i : Int) + n).toNat := by omega
    have hget : (bl.drop j).flatten[((i : Int) + n).toNat]? = (chunksOf data)[((k : Int) + n).toNat]? := by
      rw [hidx, ← hflat, flatten_getElem?_pre]
    rw [hget]
    unfold holStep
    rw [if_neg (by omega), hstep_some]
    cases hc' : (chunksOf data)[((k : Int) + n).toNat]? with
    | none => simp
    | some c' =>
      simp only [Option.map_some]
      exact hol_reparse W hc'
  · have hneg : n < 0 := by omega
    rw [if_neg hpos, hyc]
    rw [holBwd_blocks (fun y : Int => (holYearRx y).findIter data 0) bl (holLo (chunksOf data)) (bl.length - 1) hNeq hY hb0 hmid
      holFuel j ((i : Int) + n) hj0 (by omega) (by omega) (by unfold holFuel; omega)]
    have hkn : (preLen bl j : Int) + ((i : Int) + n) = (k : Int) + n := by omega
    rw [hkn]
    unfold holStep
    by_cases hlt : (k : Int) + n < 0
    · rw [if_neg (by omega), if_pos hlt]
    · rw [if_pos (by omega), if_neg hlt, hstep_some, hflat]
      have hin : ((k : Int) + n).toNat < (chunksOf data).length := by rw [hcslen]; omega
      rw [List.getElem?_eq_getElem hin]
      simp only [Option.map_some]
      exact hol_reparse W (List.getElem?_eq_getElem hin)

/-- the answer to a record-level look-up, as an API outcome -/
def holAnswer : Option HolRec → Res Hol
  | some r => .found (holOfRec r)
  | none => .absent

theorem holFromYmd_answer {y m d : Int} (hv : Civil.valid y m d = true) :
    holFromYmd data y m d = holAnswer (holOn (holRecs data) y m d) := by
  rw [holFromYmd_spec W hv]; cases holOn (holRecs data) y m d <;> rfl

theorem holNext_answer {k : Nat} (hk : k < data.length / 13) (n : Int) :
    holNext data (holOfRec (parseHol ((data.drop (13 * k)).take 13))) n = holAnswer (holStep (holRecs data) k n) := by
  rw [holNext_spec W hk n]; cases holStep (holRecs data) k n <;> rfl

end WF4

end Tyme.Fest
