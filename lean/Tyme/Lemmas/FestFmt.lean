import Tyme.Model.Festival
/- C20: bounded quantifiers as Bool folds, and the two- and four-digit `format!("{:0>w$}")` facts by complete kernel enumeration.
Kept in its own module because the enumeration takes ~30 s and never changes. -/
namespace Tyme.Fest

/-! ## bounded universal quantifier as a Bool fold (kernel friendly) -/

def allLt : Nat → (Nat → Bool) → Bool
  | 0, _ => true
  | n + 1, p => p n && allLt n p

theorem allLt_spec {n : Nat} {p : Nat → Bool} (h : allLt n p = true) : ∀ i, i < n → p i = true := by
  induction n with
  | zero => intro i hi; omega
  | succ n ih =>
    simp only [allLt, Bool.and_eq_true] at h
    intro i hi
    by_cases hin : i = n
    · subst hin; exact h.1
    · exact ih h.2 i (by omega)

/-- two-level version: all `i < a * b` -/
def allLt2 (a b : Nat) (p : Nat → Bool) : Bool := allLt a fun x => allLt b fun y => p (b * x + y)

theorem allLt2_spec {a b : Nat} {p : Nat → Bool} (h : allLt2 a b p = true) : ∀ i, i < a * b → p i = true := by
  intro i hi
  have hb : 0 < b := by
    rcases Nat.eq_zero_or_pos b with h0 | h0
    · subst h0; simp at hi
    · exact h0
  have h1 := allLt_spec h (i / b) (by
    apply (Nat.div_lt_iff_lt_mul hb).2; simpa [Nat.mul_comm] using hi)
  have h2 := allLt_spec h1 (i % b) (Nat.mod_lt _ hb)
  have : b * (i / b) + i % b = i := Nat.div_add_mod i b
  simpa [this] using h2

/-! ## number formatting (complete enumeration of the 2- and 4-digit cases in the kernel) -/

/-- `fmtInt` on a natural number, without the detour through `Int` (kernel evaluation on `Int` is slow) -/
def fmtNat (w n : Nat) : Bytes := List.replicate (w - (natStr n).length) 48 ++ natStr n

theorem fmtInt_ofNat (w n : Nat) : fmtInt w (n : Int) = fmtNat w n := by
  have h : ¬ ((n : Int) < 0) := by omega
  simp [fmtInt, intStr, fmtNat, h]

def fmtOk (w : Nat) (n : Nat) : Bool :=
  let s := fmtNat w n
  s.length == w && s.all isDigit && (parseNat s == some n)

theorem fmt4_all : allLt2 100 100 (fmtOk 4) = true := by decide +kernel
theorem fmt2_all : allLt 100 (fmtOk 2) = true := by decide +kernel

theorem fmtOk_elim {w n : Nat} (h : fmtOk w n = true) :
    (fmtInt w (n : Int)).length = w ∧ (fmtInt w (n : Int)).all isDigit = true ∧ parseNat (fmtInt w (n : Int)) = some n := by
  rw [fmtInt_ofNat]
  simp only [fmtOk, Bool.and_eq_true, beq_iff_eq] at h
  exact ⟨h.1.1, h.1.2, h.2⟩

theorem fmt4_ok (y : Int) (h0 : 0 ≤ y) (h1 : y < 10000) :
    (fmtInt 4 y).length = 4 ∧ (fmtInt 4 y).all isDigit = true ∧ parseNat (fmtInt 4 y) = some y.toNat := by
  have := fmtOk_elim (allLt2_spec fmt4_all y.toNat (by omega))
  have e : ((y.toNat : Nat) : Int) = y := by omega
  rw [e] at this
  exact this

theorem fmt2_ok (y : Int) (h0 : 0 ≤ y) (h1 : y < 100) :
    (fmtInt 2 y).length = 2 ∧ (fmtInt 2 y).all isDigit = true ∧ parseNat (fmtInt 2 y) = some y.toNat := by
  have := fmtOk_elim (allLt_spec fmt2_all y.toNat (by omega))
  have e : ((y.toNat : Nat) : Int) = y := by omega
  rw [e] at this
  exact this

theorem isDigit_ne_minus {b : Nat} (h : isDigit b = true) : b ≠ 45 := by
  simp only [isDigit, Bool.and_eq_true, decide_eq_true_eq] at h; omega

theorem parseInt_digits {s : Bytes} (h : s.all isDigit = true) : parseInt s = (parseNat s).map fun n => (n : Int) := by
  cases s with
  | nil => simp [parseInt]
  | cons b t =>
    have hb : b ≠ 45 := isDigit_ne_minus (by simp only [List.all_cons, Bool.and_eq_true] at h; exact h.1)
    unfold parseInt
    split
    · rename_i heq; injection heq with e1 e2; exact absurd e1.symm (fun e => hb e.symm)
    · rfl

end Tyme.Fest
