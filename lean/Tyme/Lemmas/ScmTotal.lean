import Tyme.Lemmas.ScmDays
import Tyme.Thm.C07
/-!
Helper lemmas for C13: TOTAL correctness of `SixtyCycleMonth::get_days` inside a tiling interval — the calls it makes
(`get_lunar_day`'s guess-and-walk, `get_term_day`'s walk, the pillar look-ups, `SolarDay::next`) all return, with the fuel the
models carry, so the list IS returned.
-/
namespace Tyme.Cont
open Tyme Lunar

/-! ### one step along the month listing always exists inside the range -/

theorem next_fwd_some (E : Eph) (hl : ∀ y, E.leap y ≤ 12) (x : Month) (hx : WF E x)
    (h : x.idx + 1 < E.cnt x.y ∨ x.y + 1 ≤ 9999) : ∃ x', Lunar.next E x 1 = some x' := by
  obtain ⟨w1, w2, w3⟩ := hx
  by_cases hin : x.idx + 1 < E.cnt x.y
  · have := next_one_in_year E hl x.y x.idx ⟨w1, w2⟩ hin
    exact ⟨_, this⟩
  · have h9 : x.y + 1 ≤ 9999 := by omega
    unfold Lunar.next
    have h1 : ¬ ((1 : Int) = 0) := by decide
    simp only [h1, if_false]
    have h2 : (1 : Int) > 0 := by decide
    simp only [h2, if_true]
    have h3 : (1 : Int).natAbs + 1 = 2 := rfl
    rw [h3]
    have hgt : (x.idx : Int) + 1 + 1 > (E.cnt x.y : Int) := by omega
    have hn : ¬ (x.y + 1 > 9999) := by omega
    have hc1 := cnt_cases E (x.y + 1)
    have e1 : (x.idx : Int) + 1 + 1 - (E.cnt x.y : Int) = 1 := by omega
    have hle : ¬ ((1 : Int) > (E.cnt (x.y + 1) : Int)) := by omega
    simp only [loopF, hgt, if_true, hn, if_false, e1, hle]
    have := fromYm_of_pos E (x.y + 1) 1 (by omega) h9 (hl _) (by omega) (by omega)
    exact ⟨_, this⟩

theorem next_back_some (E : Eph) (hl : ∀ y, E.leap y ≤ 12) (x : Month) (hx : WF E x)
    (hne : ¬ (x.y = 0 ∧ x.idx = 0)) : ∃ x', Lunar.next E x (-1) = some x' := by
  obtain ⟨w1, w2, w3⟩ := hx
  unfold Lunar.next
  have h1 : ¬ ((-1 : Int) = 0) := by decide
  simp only [h1, if_false]
  have h2 : ¬ ((-1 : Int) > 0) := by decide
  simp only [h2, if_false]
  have h3 : (-1 : Int).natAbs + 1 = 2 := rfl
  rw [h3]
  have e0 : (x.idx : Int) + 1 + -1 = (x.idx : Int) := by omega
  rw [e0]
  by_cases hi : x.idx = 0
  · have hy : 1 ≤ x.y := by omega
    have hle : (x.idx : Int) ≤ 0 := by omega
    have hn : ¬ (x.y - 1 < -1) := by omega
    have hc1 := cnt_cases E (x.y - 1)
    have hpos : ¬ ((x.idx : Int) + (E.cnt (x.y - 1) : Int) ≤ 0) := by omega
    simp only [loopB, hle, if_true, hn, if_false, hpos]
    have := fromYm_of_pos E (x.y - 1) ((x.idx : Int) + (E.cnt (x.y - 1) : Int)) (by omega) (by omega) (hl _) (by omega) (by omega)
    exact ⟨_, this⟩
  · have hle : ¬ ((x.idx : Int) ≤ 0) := by omega
    simp only [loopB, hle, if_false]
    have := fromYm_of_pos E x.y (x.idx : Int) w1 w2 (hl _) (by omega) (by omega)
    exact ⟨_, this⟩

/-! ### the guess-and-walk of `get_lunar_day` terminates within its fuel -/

/-- backward walk: returns as long as the fuel covers the distance (29 days per round) -/
theorem walkBack_total (E : Eph) (hl : ∀ y, E.leap y ≤ 12) (a b : Int) (ha0 : 0 ≤ a) (ht : TilesOn E a b) (j : Int)
    (hlo : first E ⟨a, 0⟩ ≤ j) :
    ∀ (f : Nat) (x : Month) (days : Int), WF E x → a ≤ x.y → x.y ≤ b →
      days = j - first E x → -(29 * (f : Int)) ≤ days →
      ∃ r, walkBack E (f + 1) x days = some r ∧ (r.2 = days ∨ r.2 < 30) := by
  intro f
  induction f with
  | zero =>
    intro x days _ _ _ _ h
    have : ¬ (days < 0) := by omega
    simp only [walkBack, this, if_false]
    exact ⟨_, rfl, Or.inl rfl⟩
  | succ f ih =>
    intro x days hw ha hb hd h
    by_cases hneg : days < 0
    · have hne : ¬ (x.y = 0 ∧ x.idx = 0) := by
        rintro ⟨h1, h2⟩
        have : x = ⟨a, 0⟩ := by cases x; simp_all; omega
        rw [this] at hd; omega
      obtain ⟨x', hn⟩ := next_back_some E hl x hw hne
      obtain ⟨w', g'⟩ := next_gpos E hl x hw (-1) x' hn
      have hs := succM_of_gpos E x' x w' hw (by omega)
      have hy' : a ≤ x'.y := by
        by_cases hge : a ≤ x'.y
        · exact hge
        · exfalso
          have hxa : x = ⟨a, 0⟩ := by
            rw [hs]; unfold succM
            rw [hs] at ha; unfold succM at ha
            split
            · rename_i hh; simp only [hh, if_true] at ha; omega
            · rename_i hh; simp only [hh, if_false] at ha
              have : x'.y + 1 = a := by omega
              rw [this]
          rw [hxa] at hd
          omega
      have hyb : x'.y ≤ b := by
        rw [hs] at hb; unfold succM at hb; split at hb <;> (simp only at hb; omega)
      have hts := tiles_step E x' (ht x'.y hy' hyb) w'.2.2
      rw [← hs] at hts
      obtain ⟨r, hr, hbd⟩ := ih x' (days + len E x') w' hy' hyb (by omega) (by push_cast at h ⊢; omega)
      refine ⟨r, ?_, ?_⟩
      · rw [walkBack]
        simp only [hneg, if_true, hn]
        exact hr
      · right; have := hts.2; omega
    · simp only [walkBack, hneg, if_false]
      exact ⟨_, rfl, Or.inl rfl⟩

/-- forward walk: returns as long as the fuel covers the distance -/
theorem walkFwd_total (E : Eph) (hl : ∀ y, E.leap y ≤ 12) (a b : Int) (hb9 : b + 1 ≤ 9999) (ht : TilesOn E a b) (j : Int)
    (hhi : j < first E ⟨b + 1, 0⟩) :
    ∀ (f : Nat) (x : Month) (days : Int), WF E x → a ≤ x.y → x.y ≤ b →
      days = j - first E x → 0 ≤ days → days < 29 * ((f : Int) + 1) → ∃ r, walkFwd E (f + 1) x days = some r := by
  intro f
  induction f with
  | zero =>
    intro x days hw ha hb _ _ h
    have hlen := (tiles_step E x (ht x.y ha hb) hw.2.2).2
    have : ¬ (days ≥ len E x) := by omega
    simp only [walkFwd, this, if_false]
    exact ⟨_, rfl⟩
  | succ f ih =>
    intro x days hw ha hb hd h0 h
    have hts := tiles_step E x (ht x.y ha hb) hw.2.2
    by_cases hge : days ≥ len E x
    · obtain ⟨x', hn⟩ := next_fwd_some E hl x hw (Or.inr (by omega))
      obtain ⟨w', g'⟩ := next_gpos E hl x hw 1 x' hn
      have hs := succM_of_gpos E x x' hw w' g'
      rw [← hs] at hts
      have hyb : x'.y ≤ b := by
        by_cases hle : x'.y ≤ b
        · exact hle
        · exfalso
          have hx' : x' = ⟨b + 1, 0⟩ := by
            rw [hs]; unfold succM
            rw [hs] at hle; unfold succM at hle
            split
            · rename_i hh; simp only [hh, if_true] at hle; omega
            · rename_i hh; simp only [hh, if_false] at hle
              have : x.y = b := by omega
              rw [this]
          rw [hx'] at hts
          omega
      have hya : a ≤ x'.y := by
        rw [hs]; unfold succM; split <;> (simp only; omega)
      obtain ⟨r, hr⟩ := ih x' (days - len E x) w' hya hyb (by omega) (by omega) (by push_cast at h ⊢; omega)
      refine ⟨r, ?_⟩
      rw [walkFwd]
      simp only [hge, if_true, hn]
      exact hr
    · simp only [walkFwd, hge, if_false]
      exact ⟨_, rfl⟩

theorem jdn_9999 : jdn 9999 1 1 + 364 = jdnLast := by decide

/-- `SolarDay::get_lunar_day` returns for every civil date inside a tiling interval (the fuel of 40 rounds suffices) -/
theorem ofSolar_total (E : Eph) (hl : ∀ y, E.leap y ≤ 12) (nf : NewYearFacts E) (hF1 : 1721424 ≤ E.mFirst 1 0) (a b : Int)
    (ha0 : 0 ≤ a) (hb9 : b + 1 ≤ 9999) (ht : TilesOn E a b) (Y M D : Int) (hv : Civil.valid Y M D = true)
    (hYa : a ≤ Y) (hYb : Y ≤ b) (hlo : first E ⟨a, 0⟩ ≤ jdn Y M D) (hhi : jdn Y M D < first E ⟨b + 1, 0⟩) :
    ∃ r, ofSolar E Y M D = some r := by
  obtain ⟨hY1, hY9, hM1, hM12, _⟩ := (valid_iff Y M D).1 hv
  obtain ⟨yb1, yb2⟩ := year_bounds Y M D hv
  -- the guessed month
  have hx0 : ∃ x0, fromYm E Y M = some x0 := by
    unfold fromYm
    have c1 : ¬ (Y < 0 ∨ Y > 9999) := by omega
    have c2 : ¬ (M = 0 ∨ M > 12 ∨ M < -12) := by omega
    have c3 : ¬ (M < 0 ∧ M.natAbs ≠ E.leap Y) := by omega
    simp only [c1, c2, c3, if_false]
    exact ⟨_, rfl⟩
  obtain ⟨x0, h0⟩ := hx0
  obtain ⟨w0, y0⟩ := fromYm_WF E hl Y M x0 h0
  obtain ⟨m1, m2⟩ := month_in_year E a b hb9 ht x0 w0 (by omega) (by omega)
  rw [y0] at m1 m2
  have hts0 := (tiles_step E x0 (ht x0.y (by omega) (by omega)) w0.2.2).2
  -- its first day is a civil day of the range
  have nyY : jdn Y 1 1 ≤ E.mFirst Y 0 + 5 ∧ E.mFirst Y 0 ≤ jdn Y 1 1 + 59 := by
    have := nf.win Y.toNat (by omega) (by omega)
    have e : ((Y.toNat : Nat) : Int) = Y := by omega
    rw [e] at this; exact this
  have nyY1 : E.mFirst (Y + 1) 0 ≤ jdn (Y + 1) 1 1 + 59 := by
    have := (nf.win (Y + 1).toNat (by omega) (by omega)).2
    have e : (((Y + 1).toNat : Nat) : Int) = Y + 1 := by omega
    rw [e] at this; exact this
  have js := jan1_step Y hY1
  have hlow : jdnFirst ≤ first E x0 := by
    unfold jdnFirst
    by_cases h1 : Y = 1
    · rw [h1] at m1; omega
    · have := jan1_strict 1 Y (by omega) (by omega)
      have j1 : jdn 1 1 1 = 1721424 := by decide
      omega
  have hupp : first E x0 ≤ jdnLast := by
    have := jan1_mono (Y + 1) 9999 (by omega) (by omega)
    have := jdn_9999
    omega
  have hok : solarDayOk (ofJdn (first E x0)).1 (ofJdn (first E x0)).2.1 (ofJdn (first E x0)).2.2 = true := by
    rw [C01_accept_iff]; exact (C01_jdn_ofJdn _ hlow hupp).1
  -- walk back, walk forward
  obtain ⟨p1, hb1, hbd⟩ := walkBack_total E hl a b ha0 ht _ hlo 39 x0 (jdn Y M D - first E x0) w0 (by omega) (by omega) rfl (by omega)
  obtain ⟨x1, d1⟩ := p1
  obtain ⟨w1, a1, b1, e1, n1⟩ := walkBack_spec E hl a b ht _ hlo _ x0 _ (x1, d1) w0 (by omega) (by omega) rfl hb1
  dsimp only at w1 a1 b1 e1 n1 hbd
  obtain ⟨p2, hf2⟩ := walkFwd_total E hl a b hb9 ht _ hhi 39 x1 d1 w1 a1 b1 e1 n1 (by omega)
  obtain ⟨x2, d2⟩ := p2
  obtain ⟨w2, a2, b2, e2, n2, l2⟩ := walkFwd_spec E hl a b ht _ hhi _ x1 d1 (x2, d2) w1 a1 b1 e1 n1 hf2
  dsimp only at l2
  unfold ofSolar
  have e40 : WALK_FUEL = 39 + 1 := rfl
  rw [h0]
  dsimp only
  rw [hok, e40, hb1]
  dsimp only
  rw [hf2]
  have : ¬ (d2 + 1 > len E x2) := by omega
  simp only [Bool.not_true, Bool.false_eq_true, if_false, this]
  exact ⟨_, rfl⟩

/-! ### the walk of `get_term_day` terminates within its fuel -/
open Term

theorem backT_total (E : Eph) (tf : TermFacts E) (j : Int) (lo : Nat) (hlo1 : 1 ≤ lo) (hT : E.termDay lo ≤ j) :
    ∀ (f g : Nat), lo ≤ g → g ≤ 239977 → g - lo ≤ f →
      ∃ r, backT E (f + 1) g j = some r ∧ lo ≤ r ∧ r ≤ g ∧ (r = g ∨ j < E.termDay (r + 1)) := by
  intro f
  induction f with
  | zero =>
    intro g h1 h2 h3
    have hg : g = lo := by omega
    subst hg
    have hne : ¬ (E.termDay g = 0) := fun h => by have := (tf.repr g).1 h; omega
    have hlt : ¬ (j < E.termDay g) := by omega
    simp only [backT, hne, hlt, if_false]
    exact ⟨_, rfl, by omega, by omega, Or.inl rfl⟩
  | succ f ih =>
    intro g h1 h2 h3
    have hne : ¬ (E.termDay g = 0) := fun h => by have := (tf.repr g).1 h; omega
    rw [backT]
    simp only [hne, if_false]
    by_cases hlt : j < E.termDay g
    · have hgl : lo < g := by
        by_cases h : lo < g
        · exact h
        · exfalso; have : g = lo := by omega
          rw [this] at hlt; omega
      have hg0 : ¬ (g = 0) := by omega
      simp only [hlt, if_true, hg0, if_false]
      obtain ⟨r, hr, r1, r2, r3⟩ := ih (g - 1) (by omega) (by omega) (by omega)
      refine ⟨r, hr, r1, by omega, Or.inr ?_⟩
      rcases r3 with r3 | r3
      · have : r + 1 = g := by omega
        rw [this]; exact hlt
      · exact r3
    · simp only [hlt, if_false]
      exact ⟨_, rfl, h1, by omega, Or.inl rfl⟩

theorem fwdT_total (E : Eph) (j : Int) (hi : Nat) (hhi : j < E.termDay hi) :
    ∀ (f g : Nat), g < hi → hi - g ≤ f + 1 → ∃ r, fwdT E (f + 1) g j = some r := by
  intro f
  induction f with
  | zero =>
    intro g h1 h2
    have : g + 1 = hi := by omega
    rw [fwdT]
    by_cases h0 : E.termDay (g + 1) = 0
    · simp only [h0, if_true]; exact ⟨_, rfl⟩
    · have hlt : j < E.termDay (g + 1) := by rw [this]; exact hhi
      simp only [h0, if_false, hlt, if_true]; exact ⟨_, rfl⟩
  | succ f ih =>
    intro g h1 h2
    rw [fwdT]
    by_cases h0 : E.termDay (g + 1) = 0
    · simp only [h0, if_true]; exact ⟨_, rfl⟩
    · by_cases hlt : j < E.termDay (g + 1)
      · simp only [h0, if_false, hlt, if_true]; exact ⟨_, rfl⟩
      · simp only [h0, if_false, hlt]
        have hne : g + 1 ≠ hi := fun h => by rw [h] at hlt; exact hlt hhi
        exact ih (g + 1) (by omega) (by omega)

/-- `SolarDay::get_term_day` returns for every civil date of the years 1..9998 from the first representable term on -/
theorem ofDay_total (E : Eph) (tf : TermFacts E) (Y M D : Int) (hv : Civil.valid Y M D = true) (hY : Y ≤ 9998)
    (h1 : E.termDay 1 ≤ jdn Y M D) : ∃ r, ofDay E Y M D = some r := by
  obtain ⟨hY1, _, hM1, hM12, _⟩ := (valid_iff Y M D).1 hv
  obtain ⟨yb1, yb2⟩ := year_bounds Y M D hv
  obtain ⟨Yn, rfl⟩ : ∃ n : Nat, Y = (n : Int) := ⟨Y.toNat, by omega⟩
  obtain ⟨Mn, rfl⟩ : ∃ n : Nat, M = (n : Int) := ⟨M.toNat, by omega⟩
  have eg0 : (24 * ((Yn : Int) - 1) + 2 * (Mn : Int)).toNat = 24 * (Yn - 1) + 2 * Mn := by omega
  -- a term on or before the day, at most 24 places before the guess
  have hlo : ∃ lo : Nat, 1 ≤ lo ∧ E.termDay lo ≤ jdn (Yn : Int) (Mn : Int) D ∧ lo ≤ 24 * (Yn - 1) + 2 * Mn ∧
      24 * (Yn - 1) + 2 * Mn - lo ≤ 24 := by
    by_cases hy1 : Yn = 1
    · subst hy1; exact ⟨1, by omega, h1, by omega, by omega⟩
    · have dz := tf.dongzhi Yn (by omega) (by omega)
      exact ⟨24 * (Yn - 1), by omega, by omega, by omega, by omega⟩
  obtain ⟨lo, l1, l2, l3, l4⟩ := hlo
  obtain ⟨g1, hg1, g1a, g1b, g1c⟩ := backT_total E tf _ lo l1 l2 29 (24 * (Yn - 1) + 2 * Mn) l3 (by omega) (by omega)
  -- Lichun of the next year is after the day
  have lc := (tf.lichun (Yn + 1) (by omega) (by omega)).1
  have e1 : 24 * (Yn + 1 - 1) + 3 = 24 * Yn + 3 := by omega
  have e2 : ((Yn + 1 : Nat) : Int) = (Yn : Int) + 1 := by omega
  rw [e1, e2] at lc
  have hfw : ∃ g2, fwdT E (29 + 1) g1 (jdn (Yn : Int) (Mn : Int) D) = some g2 := by
    rcases g1c with h | h
    · exact fwdT_total E _ (24 * Yn + 3) (by omega) 29 g1 (by omega) (by omega)
    · exact fwdT_total E _ (g1 + 1) h 29 g1 (by omega) (by omega)
  obtain ⟨g2, hg2⟩ := hfw
  unfold ofDay
  have c0 : ¬ (24 * ((Yn : Int) - 1) + 2 * (Mn : Int) < 0) := by omega
  have e30 : FUEL = 29 + 1 := rfl
  simp only [c0, if_false, eg0, e30, hg1, hg2]
  exact ⟨_, rfl⟩

/-! ### `SixtyCycleDay::from_solar_day` returns -/
open SC

/-- the sexagenary view of a civil date exists: inside a tiling interval, years ≤ 9998, from the first representable term on -/
theorem ofSolarDay_total (E : Eph) (hl : ∀ y, E.leap y ≤ 12) (tf : TermFacts E) (nf : NewYearFacts E)
    (hF1 : 1721424 ≤ E.mFirst 1 0) (a b : Int) (ha0 : 0 ≤ a) (hb9 : b + 1 ≤ 9999) (ht : TilesOn E a b)
    (Y M D : Int) (hv : Civil.valid Y M D = true) (hYa : a ≤ Y) (hYb : Y ≤ b)
    (hlo : first E ⟨a, 0⟩ ≤ jdn Y M D) (hhi : jdn Y M D < first E ⟨b + 1, 0⟩) (h1 : E.termDay 1 ≤ jdn Y M D) :
    ∃ v, ofSolarDay E Y M D = some v := by
  obtain ⟨hY1, _⟩ := (valid_iff Y M D).1 hv
  obtain ⟨⟨x, k⟩, hr⟩ := ofSolar_total E hl nf hF1 a b ha0 hb9 ht Y M D hv hYa hYb hlo hhi
  obtain ⟨⟨g, kk⟩, hg⟩ := ofDay_total E tf Y M D hv (by omega) h1
  have hLY := lunarYearOK_of_tiles E hl tf nf a b ha0 hb9 ht Y M D hv hYa hYb hlo hhi x k hr
  obtain ⟨fm, _, hfm, _, _⟩ := firstMonth_some Y
  have hym := fromYm_first E hl Y ⟨by omega, by omega⟩
  have hdp := C07_dayPillar (Lunar.first E x) k
  have c0 : ¬ (24 * (Y - 1) + 3 < 0) := by omega
  have esp : (24 * (Y - 1) + 3).toNat = 24 * (Y.toNat - 1) + 3 := by omega
  have c1 : ¬ (E.termDay (24 * (Y - 1) + 3).toNat = 0) := by
    intro h
    rw [esp] at h
    have := (tf.repr _).1 h
    omega
  have hadj := C08_adjYear Y x.y (decide (jdn Y M D < E.termDay (24 * (Y - 1) + 3).toNat)) (by
    rcases hLY with h | h | ⟨h, h'⟩
    · exact Or.inl h
    · exact Or.inr (Or.inl h)
    · exact Or.inr (Or.inr ⟨h, by simpa using h'⟩))
  have c2 : ¬ (adjYear Y x.y (decide (jdn Y M D < E.termDay (24 * (Y - 1) + 3).toNat)) < -1 ∨
      adjYear Y x.y (decide (jdn Y M D < E.termDay (24 * (Y - 1) + 3).toNat)) > 9999) := by
    rw [hadj]; split <;> omega
  have e0 : ((0 : Nat) : Int) = 0 := rfl
  unfold ofSolarDay
  simp only [c0, if_false, c1, hr, c2, hg, hym, e0, hfm, hdp]
  exact ⟨_, rfl⟩

/-! ### the days of a sexagenary month: each day is inside the tiling interval, and its view decides the loop -/

set_option maxHeartbeats 1000000 in
/-- every civil day from the month's Jie day to the next Jie day lies inside the tiling interval -/
theorem scm_day_in_interval (E : Eph) (tf : TermFacts E) (nf : NewYearFacts E) (a b : Int) (ha0 : 0 ≤ a) (hb9 : b + 1 ≤ 9999)
    (y : Int) (hy1 : 1 ≤ y) (hay : a = 0 ∨ a + 1 ≤ y) (hyb : y + 1 ≤ b) (g0 : Nat) (hg0 : 24 * (y.toNat - 1) + 3 ≤ g0)
    (hg0u : g0 + 2 ≤ 24 * y.toNat + 3)
    (Y M D : Int) (hv : Civil.valid Y M D = true) (h1 : E.termDay g0 ≤ jdn Y M D) (h2 : jdn Y M D ≤ E.termDay (g0 + 2)) :
    a ≤ Y ∧ Y ≤ b ∧ first E ⟨a, 0⟩ ≤ jdn Y M D ∧ jdn Y M D < first E ⟨b + 1, 0⟩ ∧ E.termDay 1 ≤ jdn Y M D := by
  obtain ⟨yb1, yb2⟩ := year_bounds Y M D hv
  obtain ⟨hY1, _⟩ := (valid_iff Y M D).1 hv
  have ey : ((y.toNat : Nat) : Int) = y := by omega
  have lc1 := (tf.lichun y.toNat (by omega) (by omega)).1
  have lc2 := (tf.lichun (y.toNat + 1) (by omega) (by omega)).2
  have m1 := term_mono E tf (24 * (y.toNat - 1) + 3) g0 (by omega) (by omega) (by omega)
  have m2 := term_mono E tf (g0 + 2) (24 * (y.toNat + 1 - 1) + 3) (by omega) (by omega) (by omega)
  have m0 := term_mono E tf 1 g0 (by omega) (by omega) (by omega)
  have ey1 : ((y.toNat + 1 : Nat) : Int) = y + 1 := by omega
  rw [ey] at lc1
  rw [ey1] at lc2
  have js1 := jan1_step (y + 1) (by omega)
  have hYy : y ≤ Y := by
    by_cases hc : y ≤ Y
    · exact hc
    · exfalso
      have := jan1_mono (Y + 1) y (by omega) (by omega)
      omega
  have hYy1 : Y ≤ y + 1 := by
    by_cases hc : Y ≤ y + 1
    · exact hc
    · exfalso
      have := jan1_mono (y + 1 + 1) Y (by omega) (by omega)
      omega
  have nyb := (nf.win (b + 1).toNat (by omega) (by omega)).1
  have eb : (((b + 1).toNat : Nat) : Int) = b + 1 := by omega
  rw [eb] at nyb
  have mb := jan1_mono (y + 1 + 1) (b + 1) (by omega) (by omega)
  refine ⟨by omega, by omega, ?_, ?_, by omega⟩
  · unfold first; dsimp only
    by_cases h0 : a = 0
    · subst h0
      have z0 := nf.zero
      have j1 : jdn 1 1 1 = 1721424 := by decide
      have z1 := jan1_mono 1 Y (by omega) hY1
      omega
    · have h1' : a + 1 ≤ y := by omega
      have nya := (nf.win a.toNat (by omega) (by omega)).2
      have ea : ((a.toNat : Nat) : Int) = a := by omega
      rw [ea] at nya
      have z2 := jan1_strict a y (by omega) (by omega)
      omega
  · unfold first; dsimp only
    omega

set_option maxHeartbeats 1000000 in
/-- the view of a day between the month's Jie day and the next Jie day (inclusive) says "this month" exactly before the next Jie day -/
theorem scm_same_of_view (E : Eph) (tf : TermFacts E) (y : Int) (k : Nat) (hy : 0 ≤ y ∧ y ≤ 9997) (hk : k < 12)
    (fm : Int) (l2 : SC.lunarMonthPillar y 0 = some fm) (g0 : Nat) (hg0' : (g0 : Int) = 24 * (y - 1) + 3 + 2 * (k : Int)) (hg1 : 1 ≤ g0)
    (Y M D : Int) (hv : Civil.valid Y M D = true) (v : SC.DayView) (hview : SC.ofSolarDay E Y M D = some v)
    (hLY : LunarYearOK E Y M D) (h1 : E.termDay g0 ≤ jdn Y M D) (h2 : jdn Y M D ≤ E.termDay (g0 + 2)) :
    scmSame ⟨y, SC.cycNext fm k⟩ v = decide (jdn Y M D < E.termDay (g0 + 2)) := by
  have hgu : g0 + 3 ≤ 239977 := by omega
  have i1 := tf.inc g0 hg1 (by omega)
  have i2 : E.termDay (g0 + 1) + 14 ≤ E.termDay (g0 + 2) ∧ E.termDay (g0 + 2) ≤ E.termDay (g0 + 1) + 16 :=
    tf.inc (g0 + 1) (by omega) (by omega)
  have i3 : E.termDay (g0 + 2) + 14 ≤ E.termDay (g0 + 3) ∧ E.termDay (g0 + 3) ≤ E.termDay (g0 + 2) + 16 :=
    tf.inc (g0 + 2) (by omega) (by omega)
  have hY98 : Y ≤ 9998 := by
    have m := term_mono E tf (g0 + 2) (24 * (9998 - 1) + 3) (by omega) (by omega) (by omega)
    have l := (tf.lichun 9998 (by omega) (by omega)).2
    have js := jan1_step ((9998 : Nat) : Int) (by omega)
    obtain ⟨b1, _⟩ := year_bounds Y M D hv
    by_cases hc : Y ≤ 9998
    · exact hc
    · exfalso
      have := jan1_mono (((9998 : Nat) : Int) + 1) Y (by omega) (by omega)
      omega
  obtain ⟨g, g1, g2, g3, g4, fm', p1, p2, p3⟩ := view_of_day E tf Y M D hv hY98 v hview hLY
  by_cases hlt2 : jdn Y M D < E.termDay (g0 + 2)
  · have hgg : g = g0 ∨ g = g0 + 1 := by
      by_cases hlt : jdn Y M D < E.termDay (g0 + 1)
      · left; exact term_unique E tf g g0 _ g1 hg1 g2 (by omega) g3 g4 h1 hlt
      · right; exact term_unique E tf g (g0 + 1) _ g1 (by omega) g2 (by omega) g3 g4 (by omega)
          (by show jdn Y M D < E.termDay (g0 + 2); exact hlt2)
    have eN : monthOrd g = 12 * (y - 1) + (k : Int) := by
      unfold monthOrd; rcases hgg with rfl | rfl <;> omega
    have eN1 : monthOrd g / 12 + 1 = y := by omega
    have eN2 : monthOrd g % 12 = (k : Int) := by omega
    rw [eN1] at p1 p2
    rw [eN2] at p3
    rw [l2] at p1
    have : fm' = fm := (Option.some.inj p1).symm
    subst this
    have : scmSame ⟨y, SC.cycNext fm' k⟩ v = true := by rw [scmSame_iff]; exact ⟨p2, p3⟩
    rw [this]; simp [hlt2]
  · have hgg : g = g0 + 2 := term_unique E tf g (g0 + 2) _ g1 (by omega) g2 (by omega) g3 g4 (by omega)
      (by show jdn Y M D < E.termDay (g0 + 3); omega)
    subst hgg
    have eN : monthOrd (g0 + 2) = 12 * (y - 1) + (k : Int) + 1 := by unfold monthOrd; push_cast; omega
    have : scmSame ⟨y, SC.cycNext fm k⟩ v = false := by
      rw [Bool.eq_false_iff]
      intro hs
      rw [scmSame_iff] at hs
      dsimp only at hs
      rw [p3, cycNext_eq, cycNext_eq] at hs
      by_cases hk11 : k = 11
      · have eN1 : monthOrd (g0 + 2) / 12 + 1 = y + 1 := by omega
        have eN2 : monthOrd (g0 + 2) % 12 = 0 := by omega
        rw [eN1] at p1
        have chain := C08_first_month_chain y fm fm' l2 p1
        rw [chain, cycNext_eq, eN2] at hs
        omega
      · have eN1 : monthOrd (g0 + 2) / 12 + 1 = y := by omega
        have eN2 : monthOrd (g0 + 2) % 12 = (k : Int) + 1 := by omega
        rw [eN1, l2] at p1
        have : fm' = fm := (Option.some.inj p1).symm
        subst this
        rw [eN2] at hs
        omega
    rw [this]; simp [hlt2]

set_option maxHeartbeats 1000000 in
/-- TOTAL: inside a tiling interval `SixtyCycleMonth::get_days` of month k of sexagenary year y returns a list -/
theorem scmDays_total (E : Eph) (hl : ∀ y, E.leap y ≤ 12) (tf : TermFacts E) (nf : NewYearFacts E)
    (hF1 : 1721424 ≤ E.mFirst 1 0) (a b : Int) (ha0 : 0 ≤ a) (hb9 : b + 1 ≤ 9999) (ht : TilesOn E a b)
    (y : Int) (k : Nat) (hk : k < 12) (hy1 : 1 ≤ y) (hay : a = 0 ∨ a + 1 ≤ y) (hyb : y + 1 ≤ b)
    (fm : Int) (hfm : SC.firstMonthPillar y = some fm) :
    ∃ L, scmDays E ⟨y, SC.cycNext fm k⟩ = some L := by
  obtain ⟨fm0, f1, f2, f3, f4, f5, f6⟩ := scyMonths_eq y ⟨by omega, by omega⟩
  have efm : fm0 = fm := by rw [f1] at hfm; exact Option.some.inj hfm
  subst efm
  obtain ⟨fmL, l1, l2, _, _⟩ := firstMonth_some y
  have efm2 : fmL = fm0 := by rw [f1] at l1; exact (Option.some.inj l1).symm
  subst efm2
  have hidx := f6 k hk
  have hjie : scmJie ⟨y, SC.cycNext fmL k⟩ = 24 * (y - 1) + 3 + 2 * (k : Int) := by
    unfold scmJie; dsimp only; rw [hidx]
  obtain ⟨g0, hg0'⟩ : ∃ g0 : Nat, (g0 : Int) = 24 * (y - 1) + 3 + 2 * (k : Int) := ⟨(24 * (y - 1) + 3 + 2 * (k : Int)).toNat, by omega⟩
  have hg1 : 1 ≤ g0 := by omega
  have hglo : 24 * (y.toNat - 1) + 3 ≤ g0 := by omega
  have hgup : g0 + 2 ≤ 24 * y.toNat + 3 := by omega
  have i1 := tf.inc g0 hg1 (by omega)
  have i2 : E.termDay (g0 + 1) + 14 ≤ E.termDay (g0 + 2) ∧ E.termDay (g0 + 2) ≤ E.termDay (g0 + 1) + 16 :=
    tf.inc (g0 + 1) (by omega) (by omega)
  -- the two Jie days are civil days of the range
  have ey : ((y.toNat : Nat) : Int) = y := by omega
  have lc1 := (tf.lichun y.toNat (by omega) (by omega)).1
  have lc2 := (tf.lichun (y.toNat + 1) (by omega) (by omega)).2
  have m1 := term_mono E tf (24 * (y.toNat - 1) + 3) g0 (by omega) (by omega) (by omega)
  have m2 := term_mono E tf (g0 + 2) (24 * (y.toNat + 1 - 1) + 3) (by omega) (by omega) (by omega)
  have ey1 : ((y.toNat + 1 : Nat) : Int) = y + 1 := by omega
  rw [ey] at lc1
  rw [ey1] at lc2
  have hT0lo : jdnFirst ≤ E.termDay g0 := by
    have := jan1_mono 1 y (by omega) hy1
    have := jdn_first
    omega
  have hT2hi : E.termDay (g0 + 2) ≤ jdnLast := by
    have := jan1_mono (y + 1) 9999 (by omega) (by omega)
    have := jdn_9999
    omega
  -- the first day
  obtain ⟨vd, ed⟩ := C01_jdn_ofJdn (E.termDay g0) hT0lo (by omega)
  have hfd : scmFirstDay E ⟨y, SC.cycNext fmL k⟩ = some (ofJdn (E.termDay g0)) := by
    unfold scmFirstDay
    rw [hjie]
    have c1 : ¬ (24 * (y - 1) + 3 + 2 * (k : Int) < 0 ∨ 24 * (y - 1) + 3 + 2 * (k : Int) ≥ 240000) := by omega
    have e0 : (24 * (y - 1) + 3 + 2 * (k : Int)).toNat = g0 := by omega
    have c2 : ¬ (E.termDay g0 = 0) := by
      intro h; have := (tf.repr g0).1 h; omega
    have c3 : solarDayOk (ofJdn (E.termDay g0)).1 (ofJdn (E.termDay g0)).2.1 (ofJdn (E.termDay g0)).2.2 = true := by
      rw [C01_accept_iff]; exact vd
    simp only [c1, if_false, e0, c2, c3, if_true]
  unfold scmDays
  rw [hfd]
  dsimp only
  -- every day up to the next Jie day has a deciding view
  have hview : ∀ Y M D, Civil.valid Y M D = true → E.termDay g0 ≤ jdn Y M D → jdn Y M D ≤ E.termDay (g0 + 2) →
      ∃ v, SC.ofSolarDay E Y M D = some v ∧ scmSame ⟨y, SC.cycNext fmL k⟩ v = decide (jdn Y M D < E.termDay (g0 + 2)) := by
    intro Y M D hv h1 h2
    obtain ⟨q1, q2, q3, q4, q5⟩ := scm_day_in_interval E tf nf a b ha0 hb9 y hy1 hay hyb g0 hglo hgup Y M D hv h1 h2
    obtain ⟨v, hvw⟩ := ofSolarDay_total E hl tf nf hF1 a b ha0 hb9 ht Y M D hv q1 q2 q3 q4 q5
    have hLY := lunarYearOK_of_tiles E hl tf nf a b ha0 hb9 ht Y M D hv q1 q2 q3 q4
    exact ⟨v, hvw, scm_same_of_view E tf y k ⟨by omega, by omega⟩ hk fmL l2 g0 hg0' hg1 Y M D hv v hvw hLY h1 h2⟩
  -- run the loop from the first day; days before it never occur because the loop only moves forward
  have key : ∀ (n f : Nat) (d : Int × Int × Int), Civil.validT d = true → E.termDay g0 ≤ jdnT d →
      jdnT d + n = E.termDay (g0 + 2) → n < f → ∃ L, scmDaysLoop E ⟨y, SC.cycNext fmL k⟩ (fun a => dayNext a 1) f d = some L := by
    intro n
    induction n with
    | zero =>
      intro f d hv hge hj hf
      obtain ⟨f', rfl⟩ : ∃ f', f = f' + 1 := ⟨f - 1, by omega⟩
      obtain ⟨v, e1, e2⟩ := hview d.1 d.2.1 d.2.2 hv hge (by show jdnT d ≤ _; omega)
      have : ¬ (jdn d.1 d.2.1 d.2.2 < E.termDay (g0 + 2)) := by show ¬ (jdnT d < _); omega
      rw [scmDaysLoop, e1]
      simp only [e2, this, decide_false, Bool.false_eq_true, if_false]
      exact ⟨_, rfl⟩
    | succ n ih =>
      intro f d hv hge hj hf
      obtain ⟨f', rfl⟩ : ∃ f', f = f' + 1 := ⟨f - 1, by omega⟩
      obtain ⟨v, e1, e2⟩ := hview d.1 d.2.1 d.2.2 hv hge (by show jdnT d ≤ _; omega)
      have hlt : jdn d.1 d.2.1 d.2.2 < E.termDay (g0 + 2) := by show jdnT d < _; omega
      obtain ⟨n1, n2, n3⟩ := dayNext_some d 1 (by omega) (by omega)
      obtain ⟨L, hL⟩ := ih f' (ofJdn (jdnT d + 1)) n2 (by omega) (by rw [n3]; push_cast at hj; omega) (by omega)
      rw [scmDaysLoop, e1]
      simp only [e2, hlt, decide_true, if_true, n1, hL]
      exact ⟨_, rfl⟩
  have hfu : (E.termDay (g0 + 2) - E.termDay g0).toNat < scmFuel := by
    have : scmFuel = 3652062 := rfl
    omega
  exact key (E.termDay (g0 + 2) - E.termDay g0).toNat scmFuel (ofJdn (E.termDay g0)) vd (by omega) (by omega) hfu

end Tyme.Cont
